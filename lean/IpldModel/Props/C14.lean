/-
  C14 — paths: printing then parsing a path gives back the same segments; `get` is the fold of its steps;
  what the walk visits at a path is what `get` resolves that path to.
  Property theorems only.
-/
import IpldModel.Lemmas.Path
import IpldModel.Lemmas.WalkGet
import IpldModel.Lemmas.WalkExamples
namespace Ipld.Props.C14
open Ipld Ipld.Sel Ipld.Walk

/-- For a path whose segments print to non-empty, slash-free text, parsing the printed path gives segments
    with the same text, in the same order. -/
theorem parse_toString (p : Path) (h : ∀ s ∈ p, s.toString ≠ [] ∧ slashB ∉ s.toString) :
    (parsePath (pathToString p)).map Seg.toString = p.map Seg.toString := by
  rw [parsePath_pathToString p h]
  simp [List.map_map, Function.comp_def, Seg.toString]

/-- …and the parsed segments are pairwise `Equals` to the original ones (an index segment is equal to the
    string segment with its decimal text). -/
theorem parse_toString_equals (p : Path) (h : ∀ s ∈ p, s.toString ≠ [] ∧ slashB ∉ s.toString) :
    (parsePath (pathToString p)).length = p.length ∧
    ∀ ab ∈ (parsePath (pathToString p)).zip p, Seg.equals ab.1 ab.2 = true := by
  rw [parsePath_pathToString p h]
  refine ⟨by simp, ?_⟩
  clear h
  induction p with
  | nil => intro ab hab; simp at hab
  | cons s r ih =>
    intro ab hab
    simp only [List.map_cons, List.zip_cons_cons, List.mem_cons] at hab
    rcases hab with rfl | hab
    · exact equals_str_toString s
    · exact ih ab hab

/-- The empty path prints to the empty string and parses back to the empty path. -/
theorem parse_toString_nil : parsePath (pathToString []) = [] := by
  simp [pathToString, parsePath, splitSlash, splitSlash.go]

/-- Resolving a concatenated path is resolving the first part, then the second from where that arrived. -/
theorem get_eq_steps (store : List (Bytes × DM)) (fuel : Nat) (n : DM) (p q : Path) :
    get store fuel n (p ++ q) = (get store fuel n p).bind fun m => get store fuel m q :=
  get_append store fuel p q n

/-- A one-segment path is one step. -/
theorem get_single (store : List (Bytes × DM)) (fuel : Nat) (n : DM) (seg : Seg) :
    get store fuel n [seg] = getStep store fuel n seg :=
  Walk.get_single store fuel n seg

/-! ### the walk visits what `get` resolves -/

/-- Every visit of a walk — any configuration, budgets, selector — happens at a path that `get` resolves
    (with at least 2 units of link-following fuel), and what is handed to the callback is the visit event of
    the resolved node: provided no map has a duplicate key (root and store blocks) and no stored block is a
    bare link. -/
theorem visit_resolves (cfg : Cfg) (F : Nat) (root : DM) (hroot : root.NoDup)
    (hstore : ∀ c blk, storeGet cfg.store c = some blk → blk.NoDup ∧ ∀ c', blk ≠ .link c')
    (fuel : Nat) (nb lb : Option Int) (s : S) (p : Path) (m : DM) (r : Reason)
    (h : .visit p m r ∈ (walk cfg fuel nb lb root s).events) :
    ∃ n' s', get cfg.store (F + 2) root p = .ok n' ∧
      Event.visit p m r = (match matchNode s' n' with
        | some m' => .visit p m' .matched
        | none => .visit p n' .candidate) := by
  rcases walk_events_resolve cfg F root hroot hstore fuel nb lb s _ h with ⟨c, hc⟩ | ⟨path, n', s', hg, he⟩
  · cases hc
  · have hp : p = path := by
      unfold visitEvent at he; split at he <;> (cases he; rfl)
    subst hp
    exact ⟨n', s', hg, he⟩

/-- A candidate visit hands over exactly the node `get` resolves the path to. -/
theorem candidate_resolves (cfg : Cfg) (F : Nat) (root : DM) (hroot : root.NoDup)
    (hstore : ∀ c blk, storeGet cfg.store c = some blk → blk.NoDup ∧ ∀ c', blk ≠ .link c')
    (fuel : Nat) (nb lb : Option Int) (s : S) (p : Path) (m : DM)
    (h : .visit p m .candidate ∈ (walk cfg fuel nb lb root s).events) :
    get cfg.store (F + 2) root p = .ok m := by
  obtain ⟨n', s', hg, he⟩ := visit_resolves cfg F root hroot hstore fuel nb lb s p m .candidate h
  split at he
  · cases he
  · cases he; exact hg

/-- A matched visit hands over `Match` of the node `get` resolves the path to; that is the node itself unless
    it is a string or bytes (which a slicing matcher may cut). -/
theorem matched_resolves (cfg : Cfg) (F : Nat) (root : DM) (hroot : root.NoDup)
    (hstore : ∀ c blk, storeGet cfg.store c = some blk → blk.NoDup ∧ ∀ c', blk ≠ .link c')
    (fuel : Nat) (nb lb : Option Int) (s : S) (p : Path) (m : DM)
    (h : .visit p m .matched ∈ (walk cfg fuel nb lb root s).events) :
    ∃ n' s', get cfg.store (F + 2) root p = .ok n' ∧ matchNode s' n' = some m ∧
      ((∀ b, n' ≠ .str b) → (∀ b, n' ≠ .bytes b) → m = n') := by
  obtain ⟨n', s', hg, he⟩ := visit_resolves cfg F root hroot hstore fuel nb lb s p m .matched h
  split at he
  · rename_i m' hm
    cases he
    exact ⟨n', s', hg, hm, matchNode_self_all.1 s' n' m hm⟩
  · cases he

section Examples
open Ipld.Walk.Ex
/-- `a/1` round-trips; the index comes back as the string segment "1", `Equals` to it -/
example : parsePath (pathToString [.str [0x61], .idx 1]) = [.str [0x61], .str [0x31]] := by decide +kernel
/-- the hypothesis matters: an empty segment disappears, a segment with a slash splits -/
example : parsePath (pathToString [.str [], .str [0x61]]) = [.str [0x61]] := by decide +kernel
example : parsePath (pathToString [.str [0x61, 0x2f, 0x62]]) = [.str [0x61], .str [0x62]] := by decide +kernel
/-- `PathSegmentOfInt(-1)` prints as the empty string -/
example : (Seg.ofInt (-1)).toString = [] := by decide
example : get Ex.cfg.store 3 Ex.root [.str [0x6c], .str [0x78]] = .ok (.str [0x68, 0x69]) := by decide +kernel
example : get Ex.cfg.store 3 Ex.root [.str [0x61], .idx 1] = .ok (.int 2) := by decide +kernel
/-- the example graph satisfies the hypotheses of `visit_resolves` -/
example : Ex.root.NoDup := by
  simp [Ex.root, DM.NoDup, DMs.NoDup, DMKVs.NoDupVals, DMKVs.keys, DMKVs.toList]
example : ∀ c blk, storeGet Ex.cfg.store c = some blk → blk.NoDup ∧ ∀ c', blk ≠ .link c' := by
  intro c blk h
  simp only [Ex.cfg, storeGet, List.find?] at h
  split at h
  · simp only [Option.map_some, Option.some.injEq] at h
    subst h
    simp [Ex.blk, DM.NoDup, DMKVs.NoDupVals, DMKVs.keys, DMKVs.toList]
  · simp at h
/-- the hypothesis "no stored block is a bare link" is needed: the walk hands over the loaded block (a link
    node) where `get` keeps following links -/
example : (visitsOf (walk { store := [([1], .link [2]), ([2], .int 7)] } 9 none none
      (.map (.cons [0x6c] (.link [1]) .nil)) selAll).events).map (fun v => (v.1, v.2.1))
    = [([], .map (.cons [0x6c] (.link [1]) .nil)), ([.str [0x6c]], .link [2])] := by decide +kernel
example : get [([1], .link [2]), ([2], .int 7)] 9 (.map (.cons [0x6c] (.link [1]) .nil)) [.str [0x6c]]
    = .ok (.int 7) := by decide +kernel
/-- the hypothesis "no duplicate keys" is needed: the walk iterates both entries, `get` finds the first -/
example : (visitsOf (walk {} 9 none none (.map (.cons [0x61] (.int 1) (.cons [0x61] (.int 2) .nil))) selAll).events).map
      (fun v => (v.1, v.2.1))
    = [([], .map (.cons [0x61] (.int 1) (.cons [0x61] (.int 2) .nil))), ([.str [0x61]], .int 1), ([.str [0x61]], .int 2)] := by
  decide +kernel
end Examples

end Ipld.Props.C14
