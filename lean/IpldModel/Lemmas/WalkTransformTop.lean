/-
  The lemmas of `Lemmas/WalkTransform*.lean` stated for whole runs (`WalkT.run` from the root against `Walk.walk`),
  and the example graph / selectors used by `Props/C16walk.lean`.
-/
import IpldModel.Lemmas.WalkTransformCheck
import IpldModel.Lemmas.WalkVisits
namespace Ipld
namespace WalkT
open Sel Walk Spec

theorem run_events (cfg : Cfg) (fn : TFn) (fuel : Nat) (nb lb : Option Int) (root : DM) (s : S) :
    (run cfg fn fuel nb lb root s).events =
      (walkT cfg fn fuel [] root s { nodeBudget := nb, linkBudget := lb }).1.events.reverse := rfl

theorem run_outcome (cfg : Cfg) (fn : TFn) (fuel : Nat) (nb lb : Option Int) (root : DM) (s : S) :
    (run cfg fn fuel nb lb root s).outcome =
      (walkT cfg fn fuel [] root s { nodeBudget := nb, linkBudget := lb }).2 := rfl

/-- a successful run returns the root rewritten exactly where its log says -/
theorem run_rewrites (cfg : Cfg) (fn : TFn) (fuel : Nat) (nb lb : Option Int) (root : DM) (s : S) (r : DM)
    (h : (run cfg fn fuel nb lb root s).outcome = .ok r) :
    Rewrites cfg fn [] root r (run cfg fn fuel nb lb root s).events := by
  rw [run_outcome] at h
  rw [run_events]
  obtain ⟨evs, he, hr⟩ := walkT_sound cfg fn fuel [] root s { nodeBudget := nb, linkBudget := lb } _ r
    (Prod.ext rfl h)
  rw [he]
  simpa using hr

/-- lock step of whole runs, spelled out -/
theorem run_vs_walk (cfg : Cfg) (hs : cfg.startAt = []) (fn : TFn) (hfn : ∀ p d, fn p d = .same) (root : DM) (s : S)
    (hal : ∀ path n s', Reach cfg root s path n s' → AlignedAt n s' ∧ PlainMatch s' n)
    (f g : Nat) (nb lb : Option Int)
    (hf : (walk cfg f nb lb root s).outcome ≠ .error .fuel)
    (hg : (run cfg fn g nb lb root s).outcome ≠ .error (.walk .fuel)) :
    observedLog (run cfg fn g nb lb root s).events = observedLog (walk cfg f nb lb root s).events ∧
    callTexts (callsOf (run cfg fn g nb lb root s).events) = callTexts (matchesOf (walk cfg f nb lb root s).events) ∧
    loadsOf (run cfg fn g nb lb root s).events = loadsOf (walk cfg f nb lb root s).events ∧
    ((walk cfg f nb lb root s).outcome = .ok () ↔ ∃ r, (run cfg fn g nb lb root s).outcome = .ok r) ∧
    (∀ e, (walk cfg f nb lb root s).outcome = .error e ↔ (run cfg fn g nb lb root s).outcome = .error (.walk e)) ∧
    (run cfg fn g nb lb root s).outcome ≠ .error .callback ∧
    (run cfg fn g nb lb root s).st.nodeBudget = (walk cfg f nb lb root s).st.nodeBudget ∧
    (run cfg fn g nb lb root s).st.linkBudget = (walk cfg f nb lb root s).st.linkBudget ∧
    (run cfg fn g nb lb root s).st.seen = (walk cfg f nb lb root s).st.seen := by
  obtain ⟨⟨h1, h2, h3, h4⟩, ho⟩ := run_corr cfg hs fn hfn root s hal f g nb lb hf hg
  have hlog : observedLog (run cfg fn g nb lb root s).events = observedLog (walk cfg f nb lb root s).events := by
    show observedLog (List.reverse _) = observedLog (List.reverse _)
    rw [observedLog_reverse, observedLog_reverse]
    exact congrArg List.reverse h4.symm
  refine ⟨hlog, ?_, ?_, ?_, ?_, ?_, h1.symm, h2.symm, h3.symm⟩
  · unfold callsOf
    rw [callTexts_matchesOf, callTexts_matchesOf, ← obsCalls_observedLog, hlog, obsCalls_observedLog]
  · rw [← loadsOf_observedLog, hlog, loadsOf_observedLog]
  · generalize (walk cfg f nb lb root s).outcome = a at ho
    generalize (run cfg fn g nb lb root s).outcome = b at ho
    cases a with
    | ok u =>
      cases b with
      | ok r => cases u; simp
      | error e => cases e <;> simp [OutRel] at ho
    | error e =>
      cases b with
      | ok r => simp [OutRel] at ho
      | error e' => simp
  · intro e
    generalize (walk cfg f nb lb root s).outcome = a at ho
    generalize (run cfg fn g nb lb root s).outcome = b at ho
    cases a with
    | ok u =>
      cases b with
      | ok r => simp
      | error e' => cases e' <;> simp [OutRel] at ho
    | error e0 =>
      cases b with
      | ok r => simp [OutRel] at ho
      | error e' =>
        cases e' with
        | callback => simp [OutRel] at ho
        | walk e1 =>
          simp only [OutRel] at ho
          subst ho
          simp
  · generalize (walk cfg f nb lb root s).outcome = a at ho
    generalize (run cfg fn g nb lb root s).outcome = b at ho
    intro hb
    subst hb
    cases a <;> simp [OutRel] at ho

/-- with a callback that never replaces, a run none of whose requests was answered with a block returns the root -/
theorem run_identity (cfg : Cfg) (fn : TFn) (hfn : ∀ p d e, fn p d ≠ .replace e) (fuel : Nat) (nb lb : Option Int)
    (root : DM) (s : S) (r : DM) (h : (run cfg fn fuel nb lb root s).outcome = .ok r)
    (hl : ∀ c ∈ loadsOf (run cfg fn fuel nb lb root s).events, cfg.skip.contains c = true) : r = root := by
  refine rewrites_identity hfn (run_rewrites cfg fn fuel nb lb root s r h) ?_
  intro c hc
  apply hl
  unfold loadsOf
  rw [List.mem_filterMap]
  exact ⟨_, hc, rfl⟩

theorem run_linkFree_no_load (cfg : Cfg) (fn : TFn) (fuel : Nat) (nb lb : Option Int) (root : DM) (s : S) (r : DM)
    (h : (run cfg fn fuel nb lb root s).outcome = .ok r) (hn : hasLink root = false) :
    loadsOf (run cfg fn fuel nb lb root s).events = [] := by
  have h1 := rewrites_linkFree (run_rewrites cfg fn fuel nb lb root s r h) hn
  rw [List.eq_nil_iff_forall_not_mem]
  intro c hc
  unfold loadsOf at hc
  rw [List.mem_filterMap] at hc
  obtain ⟨e, he, hx⟩ := hc
  cases e with
  | load c' =>
    simp only [Option.some.injEq] at hx
    subst hx
    exact h1 _ he
  | visit p n r => simp at hx

theorem run_calls_resolve (cfg : Cfg) (fn : TFn) (F : Nat) (root : DM) (hroot : root.NoDup)
    (hstore : StoreOk cfg.store) (fuel : Nat) (nb lb : Option Int) (s : S) (r : DM)
    (h : (run cfg fn fuel nb lb root s).outcome = .ok r) (p : Path) (m : DM)
    (hc : (p, m) ∈ callsOf (run cfg fn fuel nb lb root s).events) :
    get cfg.store (F + 2) root p = .ok m := by
  unfold callsOf matchesOf at hc
  rw [List.mem_filterMap] at hc
  obtain ⟨e, he, hx⟩ := hc
  cases e with
  | load c => simp at hx
  | visit q n rs =>
    cases rs with
    | candidate => simp at hx
    | matched =>
      simp only [Option.some.injEq, Prod.mk.injEq] at hx
      obtain ⟨rfl, rfl⟩ := hx
      exact (rewrites_calls_resolve F root hstore (run_rewrites cfg fn fuel nb lb root s r h) hroot rfl _ _ _ he).2

/-! ### examples -/

namespace Ex
open Walk.Ex

/-- fields `a`, `l` in the order the example root holds them; below `a` every element, below `l` the field `x` -/
def selFields : S :=
  .fields (.cons [0x61] (.all (.matcher none)) (.cons [0x6c] (.fields (.cons [0x78] (.matcher none) .nil)) .nil))

/-- the same two fields named in the other order, each matched as it is -/
def selFieldsRev : S := .fields (.cons [0x6c] (.matcher none) (.cons [0x61] (.matcher none) .nil))

/-- a list and a fields selector naming its second element by the non-canonical numeral "01" -/
def list78 : DM := .list (.cons (.int 7) (.cons (.int 8) .nil))
def sel01 : S := .fields (.cons [0x30, 0x31] (.matcher none) .nil)

/-- `{"a": <X>, "b": <X>}` with block X = `[1]`, visit-once, and a fields clause naming `b` (explore every element,
    match it) before `a` (match) -/
def cidX : Bytes := [9]
def cfgOnce : Cfg := { store := [(cidX, .list (.cons (.int 1) .nil))], linkOnce := true }
def rootAB : DM := .map (.cons [0x61] (.link cidX) (.cons [0x62] (.link cidX) .nil))
def selBA : S := .fields (.cons [0x62] (.all (.matcher none)) (.cons [0x61] (.matcher none) .nil))

/-- a matcher with a subset clause -/
def selSlice : S := .matcher (some (0, 1))

/-- the example root after the successor transform under the explore-everything selector: `a`'s elements
    replaced, the block inlined where the link was -/
def rootSucc : DM :=
  .map (.cons [0x61] (.list (.cons (.int 2) (.cons (.int 3) .nil))) (.cons [0x6c] Walk.Ex.blk .nil))

/-- the callback of the examples that replaces: successor of every int -/
theorem fnSucc_int (p : Path) : fnSucc p (.int 1) = .replace (.int 2) := by
  simp [fnSucc]

end Ex

end WalkT
end Ipld
