package core

import (
	"bufio"
	"bytes"
	"context"
	"encoding/hex"
	"fmt"
	"os"
	"os/exec"
	"path/filepath"
	"sort"
	"strconv"
	"strings"
	"syscall"
	"time"

	"github.com/ipld/go-ipld-prime/codec/dagcbor"
	"github.com/ipld/go-ipld-prime/codec/dagjson"
	"github.com/ipld/go-ipld-prime/datamodel"
	"github.com/ipld/go-ipld-prime/node/basicnode"
	"github.com/ipld/go-ipld-prime/schema"
	gengo "github.com/ipld/go-ipld-prime/schema/gen/go"
)

// The generated-code engine (C13).
//
// A batch of type systems is handed to gengo.Generate IN THIS PROCESS (the harness links the generator of
// the library working tree, so the generator is always the current one); one Go package per type system
// is written below <verif>/go/gen13/ - inside the harness module, so that the packages can import the
// library (through the module's replace directive) and verif/internal/core.  A generated `main` links all
// packages; it is compiled with the Go toolchain into <verif>/build/C13/child and driven over
// stdin/stdout (one request line, one answer line).  Nothing checked in is ever used: the directory is
// deleted and recreated on every run.
//
// Both engines are observed by ONE function (GenObserve), in the child for generated code and in the
// harness process for bindnode, so that observations can be compared as strings.

// ---------------------------------------------------------------------------------------------
// the generator's feature set

// GenSupported reports why the type tree is outside the code generator's supported feature set (nil: supported).
// Each restriction names the place in /repo/schema/gen/go that imposes it.
func GenSupported(t *SType) error {
	switch t.K {
	case "bool", "int", "float", "str", "bytes", "link":
		return nil
	case "any":
		// generate.go:45-86: the type switch of applyToEachType has no case for *schema.TypeAny
		// (default: panic "add more type switches here")
		return fmt.Errorf("any: generate.go has no generator for TypeAny")
	case "enum":
		// generate.go:45-86: no case for *schema.TypeEnum either
		return fmt.Errorf("enum: generate.go has no generator for TypeEnum")
	case "list":
		return GenSupported(t.Elem)
	case "map":
		// keys: schemagen only ever declares maps keyed by the plain `String` type (genMap.go:165-177 would
		// accept any key type with a string representation and a fromString method)
		return GenSupported(t.Elem)
	case "struct":
		switch t.SRepr {
		case "map", "tuple":
		case "join":
			// genStructReprStringjoin.go:153-165 and :90-97: every field is built with
			// (_<FieldType>__ReprPrototype{}).fromString and read with (*_<FieldType>__Repr).String(); only
			// genString.go:36, genStructReprStringjoin.go:153 and genUnionReprStringprefix.go:154 emit fromString.
			// :73 "optional or nullable fields are not supported with this representation strategy".
			if t.Delim == "" {
				return fmt.Errorf("stringjoin: empty delimiter (mixins.SplitExact = strings.Split explodes the text)")
			}
			for _, f := range t.Fields {
				if f.Opt || f.Nullable {
					return fmt.Errorf("stringjoin: optional/nullable field (genStructReprStringjoin.go:73)")
				}
				if !genStringish(f.T) {
					return fmt.Errorf("stringjoin: field of type %s has no fromString (genStructReprStringjoin.go:160)", f.T.K)
				}
			}
		default:
			// generate.go:58-68: map, tuple and stringjoin only (default: panic "unrecognized struct representation strategy")
			return fmt.Errorf("struct representation %s: generate.go:58-68 knows map, tuple, stringjoin", t.SRepr)
		}
		if len(t.Fields) > 62 {
			return fmt.Errorf("struct: the set-fields bitfield is one int (genStruct.go:255,275)")
		}
		seen := map[string]bool{}
		for _, f := range t.Fields {
			// genStruct.go:29,39,86: the field name is a Go identifier (lower: struct field; Title-cased: accessor and
			// constants) and is pasted unescaped into Go string literals (:101, genStructReprMap.go:87 for the rename)
			// (a Go keyword is usable: genEmitOne overrides its lower-case symbol, the documented use of FieldSymbolLowerOverrides)
			if !goIdent(f.Name) || (goKeyword[f.Name] && !goKeywords[f.Name]) || seen[strings.Title(f.Name)] { //lint:ignore SA1019 mirrors adjunctCfg.go:72
				return fmt.Errorf("struct: field name %q is not usable as a Go identifier (adjunctCfg.go:61-73)", f.Name)
			}
			seen[strings.Title(f.Name)] = true //lint:ignore SA1019 mirrors adjunctCfg.go:72
			if strings.ContainsAny(f.Rename, "\"\\\n\r") || strings.ContainsAny(f.Name, "\"\\\n\r") {
				return fmt.Errorf("struct: field key %q would break the Go string literal it is pasted into (genStructReprMap.go:69,87)", f.Rename)
			}
			if err := GenSupported(f.T); err != nil {
				return err
			}
		}
		return nil
	case "union":
		switch t.URepr {
		case "keyed":
		case "kinded":
			for _, m := range t.Members {
				// genUnionReprKinded.go:79,467-540: members are selected by RepresentationBehavior; a member without a
				// single representation kind (another kinded union) is never selected
				if k := m.T.ReprKind(); k == "invalid" || k != m.Kind {
					return fmt.Errorf("kinded union: member without a single representation kind (genUnionReprKinded.go:467-540)")
				}
			}
		case "prefix":
			for _, m := range t.Members {
				// genUnionReprStringprefix.go:164: (_<Member>__ReprPrototype{}).fromString; :87 n.x<i>.String()
				if !genStringish(m.T) {
					return fmt.Errorf("stringprefix union: member of type %s has no fromString (genUnionReprStringprefix.go:164)", m.T.K)
				}
			}
		default:
			// generate.go:73-83: keyed, kinded, stringprefix (default: panic "unrecognized union representation strategy")
			return fmt.Errorf("union representation %s: generate.go:73-83 knows keyed, kinded, stringprefix", t.URepr)
		}
		for _, m := range t.Members {
			if strings.ContainsAny(m.Disc, "\"\\\n\r") {
				return fmt.Errorf("union: discriminant %q would break the Go string literal it is pasted into (genUnionReprKeyed.go, genUnionReprStringprefix.go:161)", m.Disc)
			}
			if err := GenSupported(m.T); err != nil {
				return err
			}
		}
		if strings.ContainsAny(t.Delim, "\"\\\n\r") {
			return fmt.Errorf("union: delimiter %q would break a Go string literal (genUnionReprStringprefix.go:155)", t.Delim)
		}
		return nil
	}
	return fmt.Errorf("unknown type kind %q", t.K)
}

// genStringish: the generated representation prototype has a fromString method and the node a String method.
func genStringish(t *SType) bool {
	switch t.K {
	case "str":
		return true
	case "struct":
		return t.SRepr == "join"
	case "union":
		return t.URepr == "prefix"
	}
	return false
}

func goIdent(s string) bool {
	if s == "" {
		return false
	}
	for i, c := range s {
		if !(c == '_' || (c >= 'a' && c <= 'z') || (c >= 'A' && c <= 'Z') || (i > 0 && c >= '0' && c <= '9')) {
			return false
		}
	}
	return true
}

var goKeyword = map[string]bool{"break": true, "case": true, "chan": true, "const": true, "continue": true, "default": true, "defer": true,
	"else": true, "fallthrough": true, "for": true, "func": true, "go": true, "goto": true, "if": true, "import": true, "interface": true,
	"map": true, "package": true, "range": true, "return": true, "select": true, "struct": true, "switch": true, "type": true, "var": true}

// GenSchemaCfg: the schema generator's rates for generated code (no `any` members; the bindnode-specific
// constructions stay at their defaults, they are ordinary schemas).
var GenSchemaCfg = SchemaCfg{MaxDepth: 3, NullableDispatchUnion: 30, KindedIntEnum: 0, TupleLooseOptional: 25, UnionAnyMember: 0, EnumEmptyRename: 0, PrefixDiscHoldsDelim: 30}

// GenSchemaFor draws a random type tree (the C08/C09 generator) and moves it into the code generator's feature
// set by replacing, in place, exactly the constructions GenSupported names: `any` by a random scalar type, an enum
// by the scalar type of its representation (so that a kinded union keeps its table), a listpairs struct by the map
// representation.  Everything else (shape, sizes, options, names) is the generator's.  notes lists the replacements.
func GenSchemaFor(r *Rand, cfg SchemaCfg, maxNodes int) (t *SType, notes []string) {
	for {
		t = GenSchema(r, cfg)
		notes = notes[:0]
		genRestrict(t, r, &notes)
		if err := GenSupported(t); err != nil {
			notes = append(notes, "redrawn: "+err.Error())
			continue
		}
		if n := len(PreorderTypes(t)); n > maxNodes || n < 2 {
			continue
		}
		CanonNames(t)
		return t, notes
	}
}

func genRestrict(t *SType, r *Rand, notes *[]string) {
	switch t.K {
	case "any":
		t.K = []string{"bool", "int", "float", "str", "bytes", "link"}[r.Intn(6)]
		*notes = append(*notes, "any->"+t.K)
	case "enum":
		if t.ERepr == "int" {
			t.K = "int"
		} else {
			t.K = "str"
		}
		t.Enum, t.ERepr = nil, ""
		*notes = append(*notes, "enum->"+t.K)
	case "list", "map":
		genRestrict(t.Elem, r, notes)
	case "struct":
		if t.SRepr == "listpairs" {
			t.SRepr = "map"
			*notes = append(*notes, "listpairs->map")
		}
		for i := range t.Fields {
			genRestrict(t.Fields[i].T, r, notes)
		}
	case "union":
		for i := range t.Members {
			genRestrict(t.Members[i].T, r, notes)
		}
	}
}

// PreorderTypes lists every named type of the tree, root first.
func PreorderTypes(t *SType) []*SType {
	out := []*SType{t}
	switch t.K {
	case "list", "map":
		out = append(out, PreorderTypes(t.Elem)...)
	case "struct":
		for _, f := range t.Fields {
			out = append(out, PreorderTypes(f.T)...)
		}
	case "union":
		for _, m := range t.Members {
			out = append(out, PreorderTypes(m.T)...)
		}
	}
	return out
}

// CanonNames renames the types of the tree to T0, T1, … in preorder, so that a type system parsed back from
// its tokens names its types exactly as the generated one did (union member names are part of the tokens;
// the others are not).  Discriminants that quote a type name follow the renaming.
func CanonNames(t *SType) {
	ts := PreorderTypes(t)
	ren := map[string]string{}
	for i, x := range ts {
		ren[x.Name] = "T" + strconv.Itoa(i)
	}
	for _, x := range ts {
		for i := range x.Members {
			if n, ok := ren[x.Members[i].Disc]; ok {
				x.Members[i].Disc = n
			}
		}
	}
	for i, x := range ts {
		x.Name = "T" + strconv.Itoa(i)
	}
}

// ---------------------------------------------------------------------------------------------
// packages

// GenTS is one type system handed to the code generator.
type GenTS struct {
	Index  int
	Root   *SType
	Layout string // gengo's union memory layout option, applied to every union: embedAll | interface
	TS     *schema.TypeSystem
	Types  []*SType // preorder, Types[0] == Root
}

// Ambiguous: some type of the system is a string strategy whose own output it cannot read back (SType.Ambig).
func (g *GenTS) Ambiguous() bool {
	for _, t := range g.Types {
		if t.Ambig {
			return true
		}
	}
	return false
}

var GenLayouts = []string{"embedAll", "interface"}

// NewGenTS declares the (canonically named) tree.
func NewGenTS(index int, root *SType, layout string) (*GenTS, error) {
	if err := GenSupported(root); err != nil {
		return nil, err
	}
	if layout != "embedAll" && layout != "interface" {
		return nil, fmt.Errorf("bad union layout %q", layout)
	}
	ts, err := BuildTypeSystem(root)
	if err != nil {
		return nil, err
	}
	return &GenTS{Index: index, Root: root, Layout: layout, TS: ts, Types: PreorderTypes(root)}, nil
}

// Tokens is the replayable form: `<layout> <type tokens…>`.
func (g *GenTS) Tokens() string { return g.Layout + " " + g.Root.Tokens() }

// ParseGenTS parses Tokens() back; the rest of the token list is returned.
func ParseGenTS(index int, toks []string) (*GenTS, []string, error) {
	if len(toks) < 2 {
		return nil, nil, fmt.Errorf("bad type system tokens")
	}
	root, rest, err := ParseSType(toks[1:])
	if err != nil {
		return nil, nil, err
	}
	CanonNames(root)
	g, err := NewGenTS(index, root, toks[0])
	return g, rest, err
}

func (g *GenTS) TypeByName(name string) *SType {
	for _, t := range g.Types {
		if t.Name == name {
			return t
		}
	}
	return nil
}

func (g *GenTS) PkgName() string { return "p" + strconv.Itoa(g.Index) }

// GenGoModDir is the harness module (the generated packages live inside it).
func GenGoModDir() string { return filepath.Join(VerifDir(), "go") }

// genWorker: the workers of a thorough run (VERIF_WORKER, see cmd/vcheck) generate and compile side by side, each in
// its own corner: go/gen13/w<i>/, build/C13/child-w<i>.
func genWorker() string {
	w := os.Getenv("VERIF_WORKER")
	for _, c := range w {
		if c < '0' || c > '9' {
			return ""
		}
	}
	return w
}

func genSuffix() string {
	if w := genWorker(); w != "" {
		return "-w" + w
	}
	return ""
}

// GenDir is the scratch directory of generated code.
func GenDir() string {
	if w := genWorker(); w != "" {
		return filepath.Join(GenGoModDir(), "gen13", "w"+w)
	}
	return filepath.Join(GenGoModDir(), "gen13")
}

// genImportPath is the import path of GenDir inside the harness module; genBuildTarget the same for `go build`.
func genImportPath() string {
	if w := genWorker(); w != "" {
		return "verif/gen13/w" + w
	}
	return "verif/gen13"
}

func genBuildTarget() string { return "./" + strings.TrimPrefix(genImportPath(), "verif/") }

func GenChildPath() string { return filepath.Join(VerifDir(), "build", "C13", "child"+genSuffix()) }

func genTmpDir() string { return filepath.Join(VerifDir(), "build", "C13", "gotmp"+genSuffix()) }

// GenEmitFailure: the code generator itself failed (panicked) on a type system.
type GenEmitFailure struct {
	TS  *GenTS
	Err string
}

// GenEmit deletes the scratch directory, runs the code generator for every type system and writes the
// lookup table of each package and the child's main (over the type systems the generator coped with).
func GenEmit(tss []*GenTS) (failed []GenEmitFailure, err error) {
	dir := GenDir()
	if err := os.RemoveAll(dir); err != nil {
		return nil, err
	}
	if err := os.MkdirAll(dir, 0o755); err != nil {
		return nil, err
	}
	var good []*GenTS
	for _, g := range tss {
		if err := genEmitOne(g); err != nil {
			failed = append(failed, GenEmitFailure{TS: g, Err: err.Error()})
			_ = os.RemoveAll(filepath.Join(dir, g.PkgName()))
			continue
		}
		good = append(good, g)
	}
	var sb strings.Builder
	sb.WriteString("// generated by verif/internal/core/genengine.go on every C13 run; never checked in\npackage main\n\nimport (\n")
	sb.WriteString("\t\"github.com/ipld/go-ipld-prime/datamodel\"\n\n\t\"verif/internal/core\"\n")
	for _, g := range good {
		fmt.Fprintf(&sb, "\t%s \"%s/%s\"\n", g.PkgName(), genImportPath(), g.PkgName())
	}
	sb.WriteString(")\n\nfunc main() {\n\tcore.GenChildMain(func(pkg int, name string, repr bool) datamodel.NodePrototype {\n\t\tswitch pkg {\n")
	for _, g := range good {
		fmt.Fprintf(&sb, "\t\tcase %d:\n\t\t\treturn %s.Proto(name, repr)\n", g.Index, g.PkgName())
	}
	sb.WriteString("\t\t}\n\t\treturn nil\n\t})\n}\n")
	return failed, os.WriteFile(filepath.Join(dir, "main.go"), []byte(sb.String()), 0o644)
}

// GenLock serialises C13 runs on one framework directory (they share go/gen13/ and build/C13/child).
func GenLock() (unlock func(), err error) {
	if err := os.MkdirAll(filepath.Dir(GenChildPath()), 0o755); err != nil {
		return nil, err
	}
	f, err := os.OpenFile(filepath.Join(filepath.Dir(GenChildPath()), ".gen13"+genSuffix()+".lock"), os.O_CREATE|os.O_RDWR, 0o644)
	if err != nil {
		return nil, err
	}
	if err := syscall.Flock(int(f.Fd()), syscall.LOCK_EX); err != nil {
		f.Close()
		return nil, err
	}
	return func() { _ = syscall.Flock(int(f.Fd()), syscall.LOCK_UN); f.Close() }, nil
}

var goKeywords = map[string]bool{"type": true, "range": true, "func": true, "go": true, "map": false}

func genEmitOne(g *GenTS) (err error) {
	pdir := filepath.Join(GenDir(), g.PkgName())
	if err := os.MkdirAll(pdir, 0o755); err != nil {
		return err
	}
	adj := &gengo.AdjunctCfg{CfgUnionMemlayout: map[schema.TypeName]string{}, FieldSymbolLowerOverrides: map[gengo.FieldTuple]string{}}
	for _, t := range g.Types {
		if t.K == "union" {
			adj.CfgUnionMemlayout[t.Name] = g.Layout
		}
		// a field named like a Go keyword needs its lower-case symbol overridden (the documented use of the option): the
		// configuration therefore differs from one Generate call of this process to the next
		for _, f := range t.Fields {
			if goKeywords[f.Name] {
				adj.FieldSymbolLowerOverrides[gengo.FieldTuple{TypeName: schema.TypeName(t.Name), FieldName: f.Name}] = f.Name + "_"
			}
		}
	}
	defer func() {
		if r := recover(); r != nil {
			err = fmt.Errorf("gengo.Generate panicked: %v", r)
		}
	}()
	gengo.Generate(pdir, g.PkgName(), *g.TS, adj)
	var sb strings.Builder
	fmt.Fprintf(&sb, "// generated by verif/internal/core/genengine.go\npackage %s\n\nimport \"github.com/ipld/go-ipld-prime/datamodel\"\n\n", g.PkgName())
	sb.WriteString("// Proto finds the prototype of a named type (type level, or its representation).\nfunc Proto(name string, repr bool) datamodel.NodePrototype {\n\tswitch name {\n")
	names := []string{"String"}
	for _, t := range g.Types {
		names = append(names, t.Name)
	}
	for _, n := range names {
		fmt.Fprintf(&sb, "\tcase %q:\n\t\tif repr {\n\t\t\treturn Type.%s__Repr\n\t\t}\n\t\treturn Type.%s\n", n, n, n)
	}
	sb.WriteString("\t}\n\treturn nil\n}\n")
	return os.WriteFile(filepath.Join(pdir, "lookup.go"), []byte(sb.String()), 0o644)
}

func goCmd(ctx context.Context, args ...string) *exec.Cmd {
	cmd := exec.CommandContext(ctx, "go", args...)
	cmd.Dir = GenGoModDir()
	env := []string{}
	for _, e := range os.Environ() {
		if strings.HasPrefix(e, "GOFLAGS=") || strings.HasPrefix(e, "GOPROXY=") || strings.HasPrefix(e, "GOTOOLCHAIN=") || strings.HasPrefix(e, "GOSUMDB=") || strings.HasPrefix(e, "GOTMPDIR=") {
			continue
		}
		env = append(env, e)
	}
	// the toolchain's scratch space stays inside the framework's build directory
	tmp := genTmpDir()
	_ = os.MkdirAll(tmp, 0o755)
	cmd.Env = append(env, "GOFLAGS=-mod=mod", "GOPROXY=off", "GOTMPDIR="+tmp, "GOCACHE="+GenGoCache())
	return cmd
}

// GenGoCache: the generated packages are compiled with a build cache of their own inside the framework's build
// directory, so that the thousands of one-off packages of a run do not pile up in the user's Go build cache.  It keeps
// the compiled standard library and dependencies between runs and is emptied when it grows beyond genCacheLimit.
func GenGoCache() string { return filepath.Join(VerifDir(), "build", "C13", "gocache") }

const genCacheLimit = 3 << 30

// GenTrimCache empties the private build cache when it has grown beyond the limit (called when a run is over, by the
// process that is not a worker).
func GenTrimCache() {
	var size int64
	_ = filepath.Walk(GenGoCache(), func(_ string, info os.FileInfo, err error) error {
		if err == nil && !info.IsDir() {
			size += info.Size()
		}
		return nil
	})
	if size > genCacheLimit {
		_ = os.RemoveAll(GenGoCache())
	}
}

// GenCompile builds the child.  A non-empty output with ok == false is the compiler's complaint.
func GenCompile() (ok bool, output string, wall time.Duration, err error) {
	start := time.Now()
	if err := os.MkdirAll(filepath.Dir(GenChildPath()), 0o755); err != nil {
		return false, "", 0, err
	}
	_ = os.Remove(GenChildPath())
	ctx, cancel := context.WithTimeout(context.Background(), 20*time.Minute)
	defer cancel()
	out, cerr := goCmd(ctx, "build", "-o", GenChildPath(), genBuildTarget()).CombinedOutput()
	wall = time.Since(start)
	if cerr != nil {
		if _, isExit := cerr.(*exec.ExitError); !isExit {
			return false, string(out), wall, fmt.Errorf("cannot run the Go toolchain: %w", cerr)
		}
		return false, string(out), wall, nil
	}
	return true, string(out), wall, nil
}

// GenCompileFailure is one generated package that does not compile on its own.
type GenCompileFailure struct {
	TS     *GenTS
	Errors string // the first compiler errors
}

// GenCompileFailing compiles the packages one by one and returns those that fail.
func GenCompileFailing(tss []*GenTS) []GenCompileFailure {
	var out []GenCompileFailure
	for _, g := range tss {
		ctx, cancel := context.WithTimeout(context.Background(), 10*time.Minute)
		o, err := goCmd(ctx, "build", genBuildTarget()+"/"+g.PkgName()).CombinedOutput()
		cancel()
		if err != nil {
			out = append(out, GenCompileFailure{TS: g, Errors: firstLines(string(o), 8)})
		}
	}
	return out
}

func firstLines(s string, n int) string {
	ls := strings.Split(strings.TrimSpace(s), "\n")
	if len(ls) > n {
		ls = ls[:n]
	}
	return strings.Join(ls, "\n")
}

// GenCleanup removes the generated sources (the compiled child stays under build/).
func GenCleanup() {
	_ = os.RemoveAll(GenDir())
	_ = os.RemoveAll(genTmpDir())
	if genWorker() != "" {
		_ = os.Remove(filepath.Dir(GenDir())) // go/gen13 itself, once the last worker has left
	}
}

// ---------------------------------------------------------------------------------------------
// observation (shared by both engines)

// GenRoutes are the ways an input reaches a builder.
//
//	direct      assembler calls, canonical plan: BeginMap/BeginList with the exact size, AssembleEntry, scalars by AssignX
//	keys        the same, but every map entry through AssembleKey().AssignString + AssembleValue(), size hints -1
//	node        the whole input prebuilt with basicnode and handed over by ONE AssignNode call (not for inputs
//	            with a repeated map key: no node can hold them)
//	cbor, json  codec text written by the harness (entry order and repeated keys kept), decoded into the builder
//	direct-rand assembler calls, every choice of the builder contract drawn from the request's seed
var GenRoutes = []string{"direct", "keys", "node", "cbor", "json", "direct-rand", "direct-uint"}

// GenPayload is the third field of a request: the input term, or the hex of the harness-written codec text.
// ok == false: the route cannot carry the input.
func GenPayload(route string, input Val) (string, bool) {
	switch route {
	case "node":
		if HasRepeatedKey(input) {
			return "", false
		}
	case "cbor":
		return "hex:" + hex.EncodeToString(RawCBOR(nil, input)), true
	case "json":
		var sb strings.Builder
		if !RawJSON(&sb, input) {
			return "", false
		}
		return "hex:" + hex.EncodeToString([]byte(sb.String())), true
	}
	return input.Term(), true
}

func oneLine(s string) string {
	return strings.Map(func(r rune) rune {
		if r == '\n' || r == '\t' || r == '\r' {
			return ' '
		}
		return r
	}, s)
}

// HasRepeatedKey: some map of the tree lists a key twice.
func HasRepeatedKey(v Val) bool {
	seen := map[string]bool{}
	for _, e := range v.M {
		if seen[string(e.K)] || HasRepeatedKey(e.V) {
			return true
		}
		seen[string(e.K)] = true
	}
	for _, x := range v.L {
		if HasRepeatedKey(x) {
			return true
		}
	}
	return false
}

// AssembleRand is Assemble with every choice of the builder contract drawn from r, except that a subtree holding
// a repeated map key is never handed over as a prebuilt node (no node can hold it).
func AssembleRand(na datamodel.NodeAssembler, v Val, r *Rand) error {
	if !HasRepeatedKey(v) {
		return Assemble(na, v, r)
	}
	switch v.K {
	case '[':
		la, err := na.BeginList([]int64{-1, 0, int64(len(v.L))}[r.Intn(3)])
		if err != nil {
			return err
		}
		for _, x := range v.L {
			if err := AssembleRand(la.AssembleValue(), x, r); err != nil {
				return err
			}
		}
		return la.Finish()
	case '{':
		ma, err := na.BeginMap([]int64{-1, 0, int64(len(v.M))}[r.Intn(3)])
		if err != nil {
			return err
		}
		for _, e := range v.M {
			switch r.Intn(3) {
			case 0:
				va, err := ma.AssembleEntry(string(e.K))
				if err != nil {
					return err
				}
				if err := AssembleRand(va, e.V, r); err != nil {
					return err
				}
			case 1:
				if err := ma.AssembleKey().AssignString(string(e.K)); err != nil {
					return err
				}
				if err := AssembleRand(ma.AssembleValue(), e.V, r); err != nil {
					return err
				}
			default:
				if err := ma.AssembleKey().AssignNode(basicnode.NewString(string(e.K))); err != nil {
					return err
				}
				if err := AssembleRand(ma.AssembleValue(), e.V, r); err != nil {
					return err
				}
			}
		}
		return ma.Finish()
	}
	return Assemble(na, v, r)
}

// assembleKeys: every map entry through the key assembler, no size hints.
func assembleKeys(na datamodel.NodeAssembler, v Val) error {
	switch v.K {
	case '[':
		la, err := na.BeginList(-1)
		if err != nil {
			return err
		}
		for _, x := range v.L {
			if err := assembleKeys(la.AssembleValue(), x); err != nil {
				return err
			}
		}
		return la.Finish()
	case '{':
		ma, err := na.BeginMap(-1)
		if err != nil {
			return err
		}
		for _, e := range v.M {
			if err := ma.AssembleKey().AssignString(string(e.K)); err != nil {
				return err
			}
			if err := assembleKeys(ma.AssembleValue(), e.V); err != nil {
				return err
			}
		}
		return ma.Finish()
	}
	return Assemble(na, v, nil)
}

// GenObserve feeds the payload into a fresh builder of the prototype over the route and describes what
// happened as `<observation>\t<detail>\t<lookups>` (lookups: for an accepted, readable node, the first place where
// random access - Length, LookupByString/Node/Segment/Index - disagrees with iteration, `;;`-separated; empty if none):
//
//	accepted <type-level term> | <representation term> | <dag-cbor hex> | <dag-json hex>
//	rejected
//	panic
//
// A view that cannot be read shows as `read-panic(…)` / `read-error(…)` in the term's place, a failing encoder as
// `-` (GenUnreadable).  The detail (error text) is for humans; only the observation is compared.  route `direct-rand`
// takes its seed from `seed`.
func GenObserve(proto datamodel.NodePrototype, route, payload string, seed uint64) string {
	if route == "reset-ops" {
		// `<ops of a first history> RESET <ops of a second history>`: the first history is run on a builder (whatever it
		// answers, finished or not), the builder is Reset, and the second history is answered call by call as for `ops`
		parts := strings.SplitN(payload, " RESET ", 2)
		if len(parts) != 2 {
			return "bad-request\tno RESET"
		}
		ops1, err1 := ParseOps(strings.Fields(parts[0]))
		ops2, err2 := ParseOps(strings.Fields(parts[1]))
		if err1 != nil || err2 != nil {
			return "bad-request\t" + fmt.Sprint(err1, err2)
		}
		var outs []string
		var final string
		_, panicked, pv := Catch(func() error {
			nb := proto.NewBuilder()
			mk := func(v Val) (datamodel.Node, error) { return BuildBasic(v, nil) }
			Catch(func() error { RunOps(nb, ops1, mk); return nil })
			nb.Reset()
			outs, final = RunOps(nb, ops2, mk)
			return nil
		})
		if panicked {
			return "panic\t" + oneLine(fmt.Sprint(pv))
		}
		return "ops\t" + strings.Join(outs, " ") + " | " + oneLine(final)
	}
	if route == "ops" {
		// a history of assembler calls (asmdrive.go), answered call by call: `ops\t<outcome per call> | <final>`
		ops, err := ParseOps(strings.Fields(payload))
		if err != nil {
			return "bad-request\t" + err.Error()
		}
		var outs []string
		var final string
		_, panicked, pv := Catch(func() error {
			outs, final = RunOps(proto.NewBuilder(), ops, func(v Val) (datamodel.Node, error) { return BuildBasic(v, nil) })
			return nil
		})
		if panicked {
			return "panic\t" + oneLine(fmt.Sprint(pv))
		}
		return "ops\t" + strings.Join(outs, " ") + " | " + oneLine(final)
	}
	var n datamodel.Node
	err, panicked, pv := Catch(func() error {
		nb := proto.NewBuilder()
		switch route {
		case "direct", "direct-rand", "keys", "node", "direct-uint":
			v, err := ParseTermString(payload)
			if err != nil {
				return fmt.Errorf("harness: bad term: %v", err)
			}
			switch route {
			case "direct":
				err = Assemble(nb, v, nil)
			case "direct-uint":
				UintNodesForNonNegative = true
				err = Assemble(nb, v, nil)
				UintNodesForNonNegative = false
			case "keys":
				err = assembleKeys(nb, v)
			case "node":
				var n datamodel.Node
				if n, err = BuildBasic(v, nil); err != nil {
					return fmt.Errorf("harness: cannot prebuild: %v", err)
				}
				err = nb.AssignNode(n)
			default:
				err = AssembleRand(nb, v, &Rand{s: seed})
			}
			if err != nil {
				return err
			}
		case "cbor", "json":
			b, err := hex.DecodeString(strings.TrimPrefix(payload, "hex:"))
			if err != nil {
				return fmt.Errorf("harness: bad hex: %v", err)
			}
			if route == "cbor" {
				err = dagcbor.Decode(nb, bytes.NewReader(b))
			} else {
				err = dagjson.Decode(nb, bytes.NewReader(b))
			}
			if err != nil {
				return err
			}
		default:
			return fmt.Errorf("harness: bad route %q", route)
		}
		n = nb.Build()
		return nil
	})
	if panicked {
		return "panic\t" + oneLine(fmt.Sprint(pv))
	}
	if err != nil {
		return "rejected\t" + oneLine(err.Error())
	}
	return GenDescribe(n)
}

func viewOf(n datamodel.Node) string {
	var v Val
	err, panicked, pv := Catch(func() error {
		var e error
		v, e = ReadNode(n)
		return e
	})
	if panicked {
		return "read-panic(" + oneLine(fmt.Sprint(pv)) + ")"
	}
	if err != nil {
		return "read-error(" + oneLine(err.Error()) + ")"
	}
	return v.Term()
}

// nodeSelfCheck reads a view a second time through the random-access half of the Node interface and compares with
// what iteration showed: Length is the number of entries iterated; every iterated key / index looked up
// (LookupByString, LookupByNode with a basicnode key, LookupBySegment / LookupByIndex) gives the value iteration gave;
// a key that was not iterated, and the index just past the end, are errors.  Every probe that fails adds
// `<probe>-<what>[(particulars)]` to problems (one entry per kind of failure).
func nodeSelfCheck(n datamodel.Node, problems map[string]bool) {
	probe := func(name string, want string, f func() (datamodel.Node, error)) {
		defer func() {
			if r := recover(); r != nil {
				problems[name+"-panics("+oneLine(fmt.Sprint(r))+")"] = true
			}
		}()
		a, err := f()
		switch {
		case want == "" && err == nil:
			ans := "a-value"
			if a != nil && a.IsAbsent() {
				ans = "absent"
			} else if a != nil && a.IsNull() {
				ans = "null"
			}
			problems[name+"-answers-"+ans] = true
		case want != "" && err != nil:
			problems[name+"-fails("+oneLine(err.Error())+")"] = true
		case want != "" && (a == nil || viewOf(a) != want):
			problems[name+"-differs-from-iteration"] = true
		}
	}
	defer func() {
		if r := recover(); r != nil {
			problems["second-iteration-panics("+oneLine(fmt.Sprint(r))+")"] = true
		}
	}()
	switch n.Kind() {
	case datamodel.Kind_Map:
		count := int64(0)
		seen := map[string]int{}
		type kv struct {
			k    string
			view string
		}
		var ents []kv
		for it := n.MapIterator(); !it.Done(); {
			k, v, err := it.Next()
			if err != nil {
				problems["second-iteration-fails"] = true
				return
			}
			count++
			ks, err := k.AsString()
			if err != nil {
				problems["map-key-not-a-string"] = true
				return
			}
			seen[ks]++
			ents = append(ents, kv{ks, viewOf(v)})
			nodeSelfCheck(v, problems)
		}
		if n.Length() != count {
			problems["map-Length-differs-from-iteration"] = true
		}
		for _, e := range ents {
			if seen[e.k] > 1 {
				continue // a repeated key (only an engine that accepted one can show it): lookups cannot name the entries apart
			}
			ks := e.k
			probe("map-LookupByString", e.view, func() (datamodel.Node, error) { return n.LookupByString(ks) })
			probe("map-LookupByNode", e.view, func() (datamodel.Node, error) { return n.LookupByNode(basicnode.NewString(ks)) })
			probe("map-LookupBySegment", e.view, func() (datamodel.Node, error) { return n.LookupBySegment(datamodel.PathSegmentOfString(ks)) })
		}
		missing := "\x00no such key"
		if _, ok := seen[missing]; !ok {
			probe("map-LookupByString-of-a-missing-key", "", func() (datamodel.Node, error) { return n.LookupByString(missing) })
		}
	case datamodel.Kind_List:
		count := int64(0)
		var views []string
		for it := n.ListIterator(); !it.Done(); {
			i, v, err := it.Next()
			if err != nil {
				problems["second-iteration-fails"] = true
				return
			}
			if i != count {
				problems["list-iterator-index-wrong"] = true
			}
			count++
			views = append(views, viewOf(v))
			nodeSelfCheck(v, problems)
		}
		if n.Length() != count {
			problems["list-Length-differs-from-iteration"] = true
		}
		for i, want := range views {
			ii := int64(i)
			probe("list-LookupByIndex", want, func() (datamodel.Node, error) { return n.LookupByIndex(ii) })
			probe("list-LookupBySegment", want, func() (datamodel.Node, error) { return n.LookupBySegment(datamodel.PathSegmentOfInt(ii)) })
		}
		probe("list-LookupByIndex-past-the-end", "", func() (datamodel.Node, error) { return n.LookupByIndex(count) })
		// negative indexes: what a path segment "-1" or an index selector from untrusted data asks for
		probe("list-LookupByIndex-negative", "", func() (datamodel.Node, error) { return n.LookupByIndex(-1) })
		probe("list-LookupByIndex-most-negative", "", func() (datamodel.Node, error) { return n.LookupByIndex(-1 << 63) })
		probe("list-LookupBySegment-negative-numeral", "", func() (datamodel.Node, error) { return n.LookupBySegment(datamodel.PathSegmentOfString("-1")) })
		probe("list-LookupByNode-negative", "", func() (datamodel.Node, error) { return n.LookupByNode(basicnode.NewInt(-1)) })
	}
}

func selfCheckSummary(view string, n datamodel.Node) []string {
	problems := map[string]bool{}
	nodeSelfCheck(n, problems)
	out := make([]string, 0, len(problems))
	for p := range problems {
		out = append(out, view+":"+p)
	}
	sort.Strings(out)
	return out
}

// GenDescribe: both views and both encodings of a built typed node.
func GenDescribe(n datamodel.Node) string {
	tv := viewOf(n)
	var rn datamodel.Node
	_, panicked, pv := Catch(func() error {
		if tn, ok := n.(schema.TypedNode); ok {
			rn = tn.Representation()
		}
		return nil
	})
	if panicked {
		return "accepted " + tv + " | unreadable | - | -\tRepresentation() panics: " + oneLine(fmt.Sprint(pv))
	}
	if rn == nil {
		return "accepted " + tv + " | unreadable | - | -\tnot a typed node"
	}
	rv := viewOf(rn)
	detail := ""
	enc := func(f func(datamodel.Node, *bytes.Buffer) error) string {
		var buf bytes.Buffer
		err, _, _ := Catch(func() error { return f(rn, &buf) })
		if err != nil {
			detail += oneLine(err.Error()) + "; "
			return "-"
		}
		if buf.Len() == 0 {
			return "empty"
		}
		return hex.EncodeToString(buf.Bytes())
	}
	cb := enc(func(n datamodel.Node, b *bytes.Buffer) error { return dagcbor.Encode(n, b) })
	js := enc(func(n datamodel.Node, b *bytes.Buffer) error { return dagjson.Encode(n, b) })
	obs := "accepted " + tv + " | " + rv + " | " + cb + " | " + js
	lookups := ""
	if !GenUnreadable(obs) {
		// random access against iteration, both views (third field of the answer; empty: consistent)
		lookups = strings.Join(append(selfCheckSummary("type-level", n), selfCheckSummary("representation", rn)...), ";;")
	}
	return obs + "\t" + detail + "\t" + lookups
}

// GenUnreadable: the engine accepted the input but handed out a node that cannot be read in full.
func GenUnreadable(obs string) bool {
	if !strings.HasPrefix(obs, "accepted ") {
		return false
	}
	if strings.Contains(obs, "read-panic(") || strings.Contains(obs, "read-error(") || strings.Contains(obs, "| unreadable") {
		return true
	}
	p := strings.Split(obs, " | ")
	return len(p) != 4 || p[2] == "-" || p[3] == "-"
}

// SplitObs separates observation, detail and the lookup self-check of an answer (`obs\tdetail[\tlookups]`).
func SplitObs(line string) (obs, detail, lookups string) {
	p := strings.SplitN(line, "\t", 3)
	obs = p[0]
	if len(p) > 1 {
		detail = p[1]
	}
	if len(p) > 2 {
		lookups = p[2]
	}
	return
}

// ---------------------------------------------------------------------------------------------
// the child

// GenRequest is one input for one builder of one generated package.
type GenRequest struct {
	Pkg     int
	Type    string
	Level   string // type | repr
	Route   string
	Payload string // GenPayload
	Seed    uint64 // direct-rand
}

func (q GenRequest) line() string {
	return fmt.Sprintf("%d %s %s %s %d %s", q.Pkg, q.Type, q.Level, q.Route, q.Seed, q.Payload)
}

// GenChildMain is the body of the generated main: one answer line per request line.
func GenChildMain(lookup func(pkg int, name string, repr bool) datamodel.NodePrototype) {
	in := bufio.NewScanner(os.Stdin)
	in.Buffer(make([]byte, 1<<20), 1<<28)
	out := bufio.NewWriterSize(os.Stdout, 1<<16)
	defer out.Flush()
	for in.Scan() {
		line := in.Text()
		ans := func() (ans string) {
			defer func() {
				if r := recover(); r != nil {
					ans = "panic\t" + oneLine(fmt.Sprint(r))
				}
			}()
			f := strings.SplitN(line, " ", 6)
			if len(f) != 6 {
				return "bad-request\t"
			}
			pkg, err1 := strconv.Atoi(f[0])
			seed, err2 := strconv.ParseUint(f[4], 10, 64)
			if err1 != nil || err2 != nil || (f[2] != "type" && f[2] != "repr") {
				return "bad-request\t"
			}
			proto := lookup(pkg, f[1], f[2] == "repr")
			if proto == nil {
				return "bad-request\tno such prototype"
			}
			return GenObserve(proto, f[3], f[5], seed)
		}()
		out.WriteString(ans)
		out.WriteByte('\n')
		out.Flush()
	}
}

// RunGen drives the compiled child: one answer (`<observation>\t<detail>`) per request.  A child that dies on a
// request (a fatal error recover() cannot catch, or a hang ended by the timeout) answers `panic` for that
// request and is restarted for the rest.
func RunGen(reqs []GenRequest) ([]string, error) {
	out := make([]string, 0, len(reqs))
	restarts := 0
	for len(out) < len(reqs) {
		got, stderr, err := runGenOnce(reqs[len(out):])
		out = append(out, got...)
		if len(out) == len(reqs) {
			if err != nil {
				return out, fmt.Errorf("generated child failed after answering: %w", err)
			}
			break
		}
		if len(got) == 0 && restarts > 0 && err != nil && strings.Contains(err.Error(), "cannot start") {
			return out, err
		}
		restarts++
		if restarts > 40 {
			return out, fmt.Errorf("generated child died %d times; last: %v; stderr: %s", restarts, err, firstLines(stderr, 6))
		}
		out = append(out, "panic\tfatal: the child process died on this request ("+oneLine(fmt.Sprint(err))+"): "+oneLine(firstLines(stderr, 4)))
	}
	return out, nil
}

func runGenOnce(reqs []GenRequest) (out []string, stderrText string, err error) {
	ctx, cancel := context.WithTimeout(context.Background(), 2*time.Minute+time.Duration(len(reqs))*2*time.Millisecond)
	defer cancel()
	cmd := exec.CommandContext(ctx, GenChildPath())
	stdin, err := cmd.StdinPipe()
	if err != nil {
		return nil, "", err
	}
	stdout, err := cmd.StdoutPipe()
	if err != nil {
		return nil, "", err
	}
	var stderr bytes.Buffer
	cmd.Stderr = &stderr
	if err := cmd.Start(); err != nil {
		return nil, "", fmt.Errorf("cannot start the generated child %s: %w", GenChildPath(), err)
	}
	go func() {
		w := bufio.NewWriterSize(stdin, 1<<20)
		for _, q := range reqs {
			w.WriteString(q.line())
			w.WriteByte('\n')
		}
		w.Flush()
		stdin.Close()
	}()
	sc := bufio.NewScanner(stdout)
	sc.Buffer(make([]byte, 1<<20), 1<<28)
	for sc.Scan() {
		if len(out) < len(reqs) {
			out = append(out, sc.Text())
		}
	}
	werr := cmd.Wait()
	if len(out) != len(reqs) && werr == nil {
		werr = fmt.Errorf("answered %d of %d requests", len(out), len(reqs))
	}
	return out, stderr.String(), werr
}

// NewRandFromSeed: a stream from a bare state (the per-request seeds of the direct-rand route).
func NewRandFromSeed(s uint64) *Rand { return &Rand{s: s} }
