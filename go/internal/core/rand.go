package core

// Rand is a splitmix64 stream; every random choice of a run derives from one of these,
// seeded from VERIF_SEED and the property id, so that a disagreement replays exactly.
type Rand struct{ s uint64 }

func NewRand(seed uint64, salt string) *Rand {
	r := &Rand{s: seed*0x9E3779B97F4A7C15 + 0x1234567}
	for _, c := range []byte(salt) {
		r.s = (r.s ^ uint64(c)) * 0x100000001B3
	}
	r.U64()
	return r
}

func (r *Rand) U64() uint64 {
	r.s += 0x9E3779B97F4A7C15
	z := r.s
	z = (z ^ (z >> 30)) * 0xBF58476D1CE4E5B9
	z = (z ^ (z >> 27)) * 0x94D049BB133111EB
	return z ^ (z >> 31)
}

// Intn returns a value in [0,n).
func (r *Rand) Intn(n int) int {
	if n <= 0 {
		return 0
	}
	return int(r.U64() % uint64(n))
}

func (r *Rand) Bool() bool { return r.U64()&1 == 1 }

// Chance returns true with probability num/den.
func (r *Rand) Chance(num, den int) bool { return r.Intn(den) < num }

func (r *Rand) Bytes(n int) []byte {
	b := make([]byte, n)
	for i := range b {
		b[i] = byte(r.U64())
	}
	return b
}

// Fork derives an independent stream (for per-case seeds).
func (r *Rand) Fork() *Rand { return &Rand{s: r.U64()} }

// Perm returns a random permutation of 0..n-1.
func (r *Rand) Perm(n int) []int {
	p := make([]int, n)
	for i := range p {
		p[i] = i
	}
	for i := n - 1; i > 0; i-- {
		j := r.Intn(i + 1)
		p[i], p[j] = p[j], p[i]
	}
	return p
}
