/-
  Representation-level assemblers: the example types and histories used by the non-vacuity examples of
  Props/C12repr.lean.
-/
import IpldModel.Lemmas.ReprAssemblerPlan
import IpldModel.Lemmas.ReprAssemblerReset
namespace Ipld
namespace RAsm
open Ipld.Asm (Op Out ErrClass)
open Ipld.Schema (Ty Fields Members Field Member TL TLs TLKVs)
open Ipld.TAsm (Call)

/-- `struct { a Int (rename "x"); b optional nullable [String] } representation map` -/
def exStructTy : Ty :=
  .struct (.cons [97] [120] false false .int (.cons [98] [98] true true (.list .str false) .nil)) .map

/-- `struct { p Int; q optional String; r optional Bool } representation tuple` -/
def exTupleTy : Ty :=
  .struct (.cons [112] [112] false false .int (.cons [113] [113] true false .str
    (.cons [114] [114] true false .bool .nil))) .tuple

/-- `struct { f String; g String } representation stringjoin ":"` -/
def exJoinTy : Ty :=
  .struct (.cons [102] [102] false false .str (.cons [103] [103] false false .str .nil)) (.stringjoin [58])

/-- `union { | Int "i" | exStructTy "s" } representation keyed` (member type names "I", "S") -/
def exKeyedTy : Ty :=
  .union (.cons [73] [105] .int .int (.cons [83] [115] .map exStructTy .nil)) .keyed

/-- `union { | Int int | exTupleTy list | exJoinTy string } representation kinded` (member type names "I", "T", "J") -/
def exKindedTy : Ty :=
  .union (.cons [73] [] .int .int (.cons [84] [] .list exTupleTy (.cons [74] [] .str exJoinTy .nil))) .kinded

/-- `{String : Int}` -/
def exMapTy : Ty := .map .int false

/-- the struct, map representation: builds `{a: 5, b: ["x"]}` from the representation `{"b": ["x"], "x": 5}` with six
    refused calls: the ORIGINAL name `"a"` of the renamed field is no key (the binding accepts the key and refuses its
    values, generated code refuses the key - the history uses a `Finish` instead, see `exStructUnknown`), `Finish` while
    `x` is missing, a string and `BeginMap` for `b`, the node `["x", 1]` for `b`, `AssembleEntry "x"` a second time, `"b"`
    through the key assembler a second time -/
def exStructHistory : List Op :=
  [.beginMap 0, .finish,
   .assembleEntry [98], .assign (.str [120]), .beginMap 0,
   .assignNode (.list (.cons (.str [120]) (.cons (.int 1) .nil))),
   .beginList 1, .assembleValue, .assign (.str [120]), .finish,
   .assembleEntry [120], .assign (.int 5),
   .assembleEntry [120],
   .assembleKey, .assign (.str [98]),
   .finish]

def exStructBuilt : TL :=
  .map (.cons [97] (.int 5) (.cons [98] (.list (.cons (.str [120]) .nil)) .nil))

/-- the original name of the renamed field, given as a key -/
def exStructUnknown : List Op := [.beginMap 0, .assembleEntry [97], .assign (.int 5)]

/-- the tuple: `Finish` before the required field, `BeginMap` (what `Engine.beginMapAny` is about is the FIRST call here),
    then `[7, "y"]` - the trailing optional field `r` is not supplied and shows as `absent` -/
def exTupleHistory : List Op :=
  [.assign (.str [120]), .beginList 2, .finish, .assembleValue, .assign (.str [120]), .assign (.int 7),
   .assembleValue, .assign (.str [121]), .finish]

def exTupleBuilt : TL := .map (.cons [112] (.int 7) (.cons [113] (.str [121]) (.cons [114] .absent .nil)))

/-- `BeginMap` on the tuple's representation builder, and what the map assembler it hands out (the reflection binding)
    answers -/
def exTupleBeginMap : List Op := [.beginMap 0, .finish, .assembleEntry [112], .assembleKey, .assign (.str [112])]

/-- the keyed union: `Finish` before any entry, the entry `"s"` with the struct built inside it -/
def exKeyedHistory : List Op :=
  [.beginMap 1, .finish, .assembleEntry [115], .beginMap 1, .assembleEntry [120], .assign (.int 5), .finish, .finish]

def exKeyedBuilt : TL := .map (.cons [83] (.map (.cons [97] (.int 5) (.cons [98] .absent .nil))) .nil)

/-- a second entry for the union that has its member -/
def exKeyedSecond : List Op :=
  [.beginMap 1, .assembleEntry [105], .assign (.int 1), .assembleEntry [105], .assign (.int 2)]

/-- the kinded union: a bool (no member of that kind), a string the stringjoin member cannot split - both refused, the
    union has no member -, then a list: the tuple member, built call by call -/
def exKindedHistory : List Op :=
  [.assign (.bool true), .assign (.str [120]), .beginList 1, .assembleValue, .assign (.int 7), .finish]

def exKindedBuilt : TL := .map (.cons [84] (.map (.cons [112] (.int 7) (.cons [113] .absent (.cons [114] .absent .nil)))) .nil)

/-- `{"a":1}` begun, `"a"` handed to the key assembler -/
def exDupViaKeyAsm : List Op :=
  [.beginMap 1, .assembleEntry [97], .assign (.int 1), .assembleKey, .assign (.str [97])]

/-- the struct is handed the node `{"x": 1, "b": 2}` (refused at `b`), then built call by call -/
def exRefusedNode : List Op :=
  [.assignNode (.map (.cons [120] (.int 1) (.cons [98] (.int 2) .nil))),
   .beginMap 1, .assembleEntry [120], .assign (.int 5), .finish]

end RAsm
end Ipld
