/-
  C14 (companion) — path parsing, printing and derivation as transcribed into Sel.parsePath / pathToString / Seg.equals / parseIndex; derived paths are fresh slices.
  Recorded by tools/pin_skeletons.py from the source the models were transcribed from; property-tie theorems only.
-/
import IpldModel.Generated.PathSkeletons
namespace Ipld.Props.C14

/-- (T) statement skeleton of `ParsePath` (datamodel/path.go) — model: `Sel.parsePath`: the statements on this run are the recorded ones. -/
theorem parsePath_is_transcribed : Ipld.Generated.parsePath_skel_src = [
  "ss := strings.FieldsFunc(pth, func(r rune) bool { return r == '/' })",
  "ssl := len(ss)",
  "p := Path{make([]PathSegment, ssl)}",
  "for i := 0; i < ssl; i++",
  ". p.segments[i] = PathSegmentOfString(ss[i])",
  "return p"
] := rfl

/-- (T) statement skeleton of `Path.String` (datamodel/path.go) — model: `Sel.pathToString`: the statements on this run are the recorded ones. -/
theorem pathString_is_transcribed : Ipld.Generated.pathString_skel_src = [
  "l := len(p.segments)",
  "if l == 0",
  ". return \"\"",
  "sb := strings.Builder{}",
  "for i := 0; i < l-1; i++",
  ". sb.WriteString(p.segments[i].String())",
  ". sb.WriteByte('/')",
  "sb.WriteString(p.segments[l-1].String())",
  "return sb.String()"
] := rfl

/-- (T) statement skeleton of `Path.AppendSegment` (datamodel/path.go) — a fresh slice: paths are values: the statements on this run are the recorded ones. -/
theorem pathAppendSegment_is_transcribed : Ipld.Generated.pathAppendSegment_skel_src = [
  "l := len(p.segments)",
  "combinedSegments := make([]PathSegment, l+1)",
  "copy(combinedSegments, p.segments)",
  "combinedSegments[l] = ps",
  "p.segments = combinedSegments",
  "return p"
] := rfl

/-- (T) statement skeleton of `Path.Join` (datamodel/path.go) — a fresh slice: the statements on this run are the recorded ones. -/
theorem pathJoin_is_transcribed : Ipld.Generated.pathJoin_skel_src = [
  "combinedSegments := make([]PathSegment, len(p.segments)+len(p2.segments))",
  "copy(combinedSegments, p.segments)",
  "copy(combinedSegments[len(p.segments):], p2.segments)",
  "p.segments = combinedSegments",
  "return p"
] := rfl

/-- (T) statement skeleton of `PathSegment.Equals` (datamodel/pathSegment.go) — model: `Seg.equals` (by text, whatever the internal form): the statements on this run are the recorded ones. -/
theorem segEquals_is_transcribed : Ipld.Generated.segEquals_skel_src = [
  "if !x.containsString() && !o.containsString()",
  ". return x.i == o.i",
  "return x.String() == o.String()"
] := rfl

/-- (T) statement skeleton of `PathSegment.Index` (datamodel/pathSegment.go) — model: `Sel.parseIndex`: the statements on this run are the recorded ones. -/
theorem segIndex_is_transcribed : Ipld.Generated.segIndex_skel_src = [
  "switch ps.containsString()",
  "case true",
  ". return strconv.ParseInt(ps.s, 10, 64)",
  "case false",
  ". return ps.i, nil",
  "panic(\"unreachable\")"
] := rfl

/-- (T) statement skeleton of `PathSegment.String` (datamodel/pathSegment.go) — model: `Seg.toString`: the statements on this run are the recorded ones. -/
theorem segString_is_transcribed : Ipld.Generated.segString_skel_src = [
  "switch ps.containsString()",
  "case true",
  ". return ps.s",
  "case false",
  ". return strconv.FormatInt(ps.i, 10)",
  "panic(\"unreachable\")"
] := rfl

end Ipld.Props.C14
