/-
  Typed assemblers: the invariant of the machine of Model/TypedAssembler.lean.  Every value the machine holds -
  the entries of the open containers and the finished root - conforms to the type of the position it was
  delivered to (`Schema.conforms`) and carries no key twice; the keys of a frame are distinct and a pending key is
  not among them; a frame was begun at a position of its own type.
-/
import IpldModel.Lemmas.TypedAssembler
import IpldModel.Lemmas.SchemaNorm
namespace Ipld
namespace TAsm
open Ipld.Asm (Op Out ErrClass)
open Ipld.Schema (Ty Fields Field TL TLs TLKVs canonFields conforms conformsList conformsMap conformsStruct)

/-- conforms to the type (in a slot that is nullable or not), carries no key twice, and is in canonical form (its own
    `Schema.normalize`: every struct lists all its fields in declaration order) -/
structure Good (ty : Ty) (nul : Bool) (v : TL) : Prop where
  conf : conforms ty nul v = true
  nodup : NoDup v
  canon : Schema.normalize ty v = v

/-! ### values -/

theorem good_scalar {ty : Ty} {nul : Bool} {d : DM} (h : scalarOut ty nul d = .ok) : Good ty nul (TL.ofDM d) := by
  refine ⟨?_, ?_, ?_⟩
  · cases d <;> cases ty <;> simp_all [scalarOut, conforms, TL.ofDM]
  · cases d <;> simp_all [scalarOut, TL.ofDM, NoDup]
  · cases d <;> first | (simp [scalarOut] at h; done) | (simp [TL.ofDM, Schema.normalize])

theorem noDups_ofList : (l : List TL) → (∀ x ∈ l, NoDup x) → NoDups (TLs.ofList l)
  | [], _ => by simp [NoDups]
  | x :: xs, h => by
    simp only [Schema.TLs.ofList_cons, NoDups]
    exact ⟨h x (by simp), noDups_ofList xs (fun y hy => h y (by simp [hy]))⟩

theorem noDupVals_ofList : (l : List (Bytes × TL)) → (∀ p ∈ l, NoDup p.2) → NoDupVals (TLKVs.ofList l)
  | [], _ => by simp [NoDupVals]
  | (k, v) :: xs, h => by
    simp only [Schema.TLKVs.ofList_cons, NoDupVals]
    exact ⟨h (k, v) (by simp), noDupVals_ofList xs (fun y hy => h y (by simp [hy]))⟩

theorem normalizeList_ofList (ety : Ty) : (l : List TL) → (∀ x ∈ l, Schema.normalize ety x = x) →
    Schema.normalizeList ety (TLs.ofList l) = TLs.ofList l
  | [], _ => rfl
  | x :: xs, h => by
    simp only [Schema.TLs.ofList_cons, Schema.normalizeList, h x (by simp),
      normalizeList_ofList ety xs (fun y hy => h y (by simp [hy]))]

theorem normalizeMap_ofList (vty : Ty) : (l : List (Bytes × TL)) → (∀ p ∈ l, Schema.normalize vty p.2 = p.2) →
    Schema.normalizeMap vty (TLKVs.ofList l) = TLKVs.ofList l
  | [], _ => rfl
  | (k, v) :: xs, h => by
    simp only [Schema.TLKVs.ofList_cons, Schema.normalizeMap, h (k, v) (by simp),
      normalizeMap_ofList vty xs (fun y hy => h y (by simp [hy]))]

theorem normalizeStruct_ofList (F : List Field) : (l : List (Bytes × TL)) →
    (∀ p ∈ l, ∃ f, fieldOf F p.1 = some f ∧ Schema.normalize f.ty p.2 = p.2) →
    Schema.normalizeStruct F (TLKVs.ofList l) = TLKVs.ofList l
  | [], _ => rfl
  | (k, v) :: xs, h => by
    obtain ⟨f, hf, hn⟩ := h (k, v) (by simp)
    unfold fieldOf at hf
    simp only at hf hn
    simp only [Schema.TLKVs.ofList_cons, Schema.normalizeStruct, hf, hn,
      normalizeStruct_ofList F xs (fun y hy => h y (by simp [hy]))]

theorem good_list {ety : Ty} {enul : Bool} (nul : Bool) {xs : List TL} (h : ∀ x ∈ xs, Good ety enul x) :
    Good (.list ety enul) nul (.list (TLs.ofList xs)) := by
  refine ⟨?_, ?_, ?_⟩
  · unfold conforms
    exact Schema.conformsList_ofList ety enul xs (fun y hy => (h y hy).conf)
  · simp only [NoDup]
    exact noDups_ofList xs (fun y hy => (h y hy).nodup)
  · simp only [Schema.normalize, normalizeList_ofList ety xs (fun y hy => (h y hy).canon)]

theorem good_map {vty : Ty} {vnul : Bool} (nul : Bool) {es : List (Bytes × TL)} (hnd : (es.map (·.1)).Nodup)
    (h : ∀ p ∈ es, Good vty vnul p.2) : Good (.map vty vnul) nul (.map (TLKVs.ofList es)) := by
  refine ⟨?_, ?_, ?_⟩
  · unfold conforms
    exact Schema.conformsMap_ofList vty vnul es [] hnd (by simp) (fun p hp => (h p hp).conf)
  · simp only [NoDup, keysOf, Schema.TLKVs.toList_ofList]
    exact ⟨hnd, noDupVals_ofList es (fun p hp => (h p hp).nodup)⟩
  · simp only [Schema.normalize, normalizeMap_ofList vty es (fun p hp => (h p hp).canon)]

theorem hasKey_iff (es : List (Bytes × TL)) (k : Bytes) : hasKey es k = true ↔ k ∈ es.map (·.1) := by
  simp only [hasKey, List.any_eq_true, beq_iff_eq, List.mem_map]

theorem hasKey_false_iff (es : List (Bytes × TL)) (k : Bytes) : hasKey es k = false ↔ k ∉ es.map (·.1) := by
  rw [← hasKey_iff]; simp

theorem canonFields_keys (fs : List Field) (es : List (Bytes × TL)) :
    (canonFields fs es).map (·.1) = fs.map (·.name) := by
  unfold canonFields
  rw [List.map_map]
  apply List.map_congr_left
  intro f _
  simp only [Function.comp]
  split <;> rfl

/-- an entry of the canonical value: a field's name with `absent`, or with the value accepted for that name -/
theorem canonFields_vals (fs : List Field) (es : List (Bytes × TL)) :
    ∀ p ∈ canonFields fs es, ∃ f ∈ fs, p.1 = f.name ∧ (p.2 = .absent ∨ (f.name, p.2) ∈ es) := by
  intro p hp
  unfold canonFields at hp
  obtain ⟨f, hf, rfl⟩ := List.mem_map.1 hp
  refine ⟨f, hf, ?_⟩
  split
  · rename_i k v hfind
    have hk : k = f.name := by simpa using List.find?_some hfind
    subst hk
    exact ⟨rfl, Or.inr (List.mem_of_find?_eq_some hfind)⟩
  · exact ⟨rfl, Or.inl rfl⟩

theorem fieldOf_self {fs : List Field} (hnd : (fs.map (·.name)).Nodup) {f : Field} (hf : f ∈ fs) :
    fieldOf fs f.name = some f := Schema.find?_key_of_mem (fun (x : Field) => x.name) fs hnd f hf

theorem good_struct {F : Fields} (r : Schema.StructRepr) (nul : Bool) {es : List (Bytes × TL)}
    (hnd : (F.toList.map (·.name)).Nodup)
    (hes : ∀ p ∈ es, ∃ f, fieldOf F.toList p.1 = some f ∧ Good f.ty f.nullable p.2)
    (hreq : F.toList.all (fun f => f.opt || hasKey es f.name) = true) :
    Good (.struct F r) nul (.map (TLKVs.ofList (canonFields F.toList es))) := by
  -- what the canonical entries are made of
  have hC : ∀ p ∈ canonFields F.toList es, ∃ f, fieldOf F.toList p.1 = some f ∧
      (p.2 = .absent ∨ Good f.ty f.nullable p.2) := by
    intro p hp
    obtain ⟨f, hf, hk, hv⟩ := canonFields_vals F.toList es p hp
    refine ⟨f, hk ▸ fieldOf_self hnd hf, ?_⟩
    rcases hv with hv | hv
    · exact Or.inl hv
    · obtain ⟨f', hf', hg⟩ := hes _ hv
      simp only [fieldOf_self hnd hf, Option.some.injEq] at hf'
      subst hf'
      exact Or.inr hg
  refine ⟨?_, ?_, ?_⟩
  · unfold conforms
    apply Schema.conformsStruct_canonFields F.toList hnd es
    · intro p hp
      obtain ⟨f, hf, hg⟩ := hes p hp
      exact ⟨f, hf, Schema.fieldValOK_of_conforms f p.2 hg.conf⟩
    · intro f hf
      have := (List.all_eq_true.1 hreq) f hf
      simp only [Bool.or_eq_true] at this
      rcases this with h | h
      · exact Or.inl h
      · exact Or.inr ((hasKey_iff es f.name).1 h)
  · simp only [NoDup, keysOf, Schema.TLKVs.toList_ofList, canonFields_keys]
    refine ⟨hnd, noDupVals_ofList _ ?_⟩
    intro p hp
    obtain ⟨f, _, hv⟩ := hC p hp
    rcases hv with hv | hv
    · rw [hv]; simp [NoDup]
    · exact hv.nodup
  · have h1 : Schema.normalizeStruct F.toList (TLKVs.ofList (canonFields F.toList es)) =
        TLKVs.ofList (canonFields F.toList es) := by
      apply normalizeStruct_ofList
      intro p hp
      obtain ⟨f, hf, hv⟩ := hC p hp
      refine ⟨f, hf, ?_⟩
      rcases hv with hv | hv
      · rw [hv]; simp [Schema.normalize]
      · exact hv.canon
    have h2 := Schema.canonFields_self F.toList (canonFields F.toList es) [] (canonFields_keys _ _) (by simp) hnd
    simp only [List.nil_append] at h2
    simp only [Schema.normalize, h1, Schema.TLKVs.toList_ofList, h2]

/-! ### the invariant -/

/-- a type the machine models, well-formed in C08's sense (distinct field names) -/
def TyOK (t : Ty) : Prop := t.wf = true ∧ plain t = true

theorem plainFields_mem : (F : Fields) → plainFields F = true → ∀ f ∈ F.toList, plain f.ty = true
  | .nil, _, f, hf => by simp [Fields.toList] at hf
  | .cons n rn o nu t rest, h, f, hf => by
    simp only [plainFields, Bool.and_eq_true] at h
    simp only [Fields.toList, List.mem_cons] at hf
    rcases hf with rfl | hf
    · exact h.1
    · exact plainFields_mem rest h.2 f hf

/-- a pending key is not among the accepted ones -/
def PendFresh (es : List (Bytes × TL)) : Phase → Prop
  | .expectValue k => hasKey es k = false
  | .midValue k => hasKey es k = false
  | _ => True

def FrameOK : Frame → Prop
  | .list ety enul xs _ => TyOK ety ∧ ∀ x ∈ xs, Good ety enul x
  | .map vty vnul es ph =>
    TyOK vty ∧ (es.map (·.1)).Nodup ∧ (∀ p ∈ es, Good vty vnul p.2) ∧ PendFresh es ph
  | .struct fs es ph =>
    (∀ f ∈ fs, TyOK f.ty) ∧ (fs.map (·.name)).Nodup ∧ (es.map (·.1)).Nodup ∧
    (∀ p ∈ es, ∃ f, fieldOf fs p.1 = some f ∧ Good f.ty f.nullable p.2) ∧ PendFresh es ph

/-- the frame is what `BeginMap` / `BeginList` opens at a position of type `ty` -/
def FrameFor : Frame → Ty → Prop
  | .list ety enul _ _, ty => ty = .list ety enul
  | .map vty vnul _ _, ty => ty = .map vty vnul
  | .struct fs _ _, ty => ∃ F r, ty = .struct F r ∧ fs = F.toList

/-- every frame was begun at a value position of its own type -/
def Chain (t : Ty) (r : Option TL) : List Frame → Prop
  | [] => True
  | f :: rest => (∃ ty nul, posOf t r rest = .value ty nul ∧ FrameFor f ty) ∧ Chain t r rest

structure Inv (s : St) : Prop where
  wf : TyOK s.ty
  frames : ∀ f ∈ s.frames, FrameOK f
  chain : Chain s.ty s.root s.frames
  root : ∀ v, s.root = some v → Good s.ty false v

theorem init_inv {ty : Ty} (h : ty.wf = true) (hp : plain ty = true) : Inv (init ty) :=
  ⟨⟨h, hp⟩, (by intro f hf; cases hf), trivial, (by intro v hv; cases hv)⟩

theorem Inv.taint {s : St} (h : Inv s) (b : Bool) : Inv { s with tainted := b } :=
  ⟨h.wf, h.frames, h.chain, h.root⟩

theorem chain_root_none {t : Ty} {r : Option TL} : {fr : List Frame} → fr ≠ [] → Chain t r fr → r = none
  | [f], _, h => by
    obtain ⟨⟨ty, nul, hp, _⟩, _⟩ := h
    cases r with
    | none => rfl
    | some v => simp [posOf] at hp
  | f :: g :: rest, _, h => chain_root_none (fr := g :: rest) (by simp) h.2

/-- the type of a value position is well-formed -/
theorem Inv.pos_wf {s : St} (h : Inv s) {ty : Ty} {nul : Bool} (hp : pos s = .value ty nul) : TyOK ty := by
  obtain ⟨t, fr, r, tt⟩ := s
  cases fr with
  | nil =>
    cases r with
    | none => simp only [pos, posOf, Pos.value.injEq] at hp; obtain ⟨rfl, _⟩ := hp; exact h.wf
    | some v => simp [pos, posOf] at hp
  | cons f rest =>
    cases f with
    | list ety enul xs mid =>
      cases mid with
      | false => simp [pos, posOf] at hp
      | true =>
        simp only [pos, posOf, Pos.value.injEq] at hp; obtain ⟨rfl, _⟩ := hp
        exact (h.frames (.list ety enul xs true) (by simp)).1
    | map vty vnul es ph =>
      cases ph with
      | midValue k =>
        simp only [pos, posOf, Pos.value.injEq] at hp; obtain ⟨rfl, _⟩ := hp
        exact (h.frames (.map vty vnul es (.midValue k)) (by simp)).1
      | init => simp [pos, posOf] at hp
      | midKey => simp [pos, posOf] at hp
      | expectValue k => simp [pos, posOf] at hp
    | struct fs es ph =>
      cases ph with
      | midValue k =>
        simp only [pos, posOf] at hp
        split at hp
        · rename_i f hf
          simp only [Pos.value.injEq] at hp; obtain ⟨rfl, _⟩ := hp
          exact (h.frames (.struct fs es (.midValue k)) (by simp)).1 f (List.mem_of_find?_eq_some hf)
        · cases hp
      | init => simp [pos, posOf] at hp
      | midKey => simp [pos, posOf] at hp
      | expectValue k => simp [pos, posOf] at hp

/-- A value assembler that receives a value good for its position keeps the invariant. -/
theorem deliver_inv {s : St} {v : TL} (h : Inv s) (hv : ∀ ty nul, pos s = .value ty nul → Good ty nul v) :
    Inv (deliver s v).1 := by
  obtain ⟨t, fr, r, tt⟩ := s
  unfold deliver
  simp only
  split
  · skip
    split
    · skip
      refine ⟨h.wf, h.frames, trivial, ?_⟩
      intro w hw
      simp only [Option.some.injEq] at hw; subst hw
      exact hv t false (by simp [pos, posOf])
    · exact h
  · rename_i ety enul xs rest
    have hok := h.frames (.list ety enul xs true) (by simp)
    refine ⟨h.wf, ?_, ⟨h.chain.1, h.chain.2⟩, h.root⟩
    intro f hf
    simp only [List.mem_cons] at hf
    rcases hf with rfl | hf
    · refine ⟨hok.1, ?_⟩
      intro x hx
      simp only [List.mem_append, List.mem_singleton] at hx
      rcases hx with hx | rfl
      · exact hok.2 x hx
      · exact hv ety enul (by simp [pos, posOf])
    · exact h.frames f (by simp [hf])
  · rename_i vty vnul es k rest
    have hok := h.frames (.map vty vnul es (.midValue k)) (by simp)
    refine ⟨h.wf, ?_, ⟨h.chain.1, h.chain.2⟩, h.root⟩
    intro f hf
    simp only [List.mem_cons] at hf
    rcases hf with rfl | hf
    · refine ⟨hok.1, ?_, ?_, trivial⟩
      · rw [List.map_append, List.nodup_append]
        refine ⟨hok.2.1, by simp, ?_⟩
        intro a ha b hb
        simp only [List.map_cons, List.map_nil, List.mem_singleton] at hb
        subst hb
        intro hab; subst hab
        exact (hasKey_false_iff es a).1 hok.2.2.2 ha
      · intro p hp
        simp only [List.mem_append, List.mem_singleton] at hp
        rcases hp with hp | rfl
        · exact hok.2.2.1 p hp
        · exact hv vty vnul (by simp [pos, posOf])
    · exact h.frames f (by simp [hf])
  · rename_i fs es k rest
    have hok := h.frames (.struct fs es (.midValue k)) (by simp)
    split
    · rename_i f0 hfo
      refine ⟨h.wf, ?_, ⟨h.chain.1, h.chain.2⟩, h.root⟩
      intro f hf
      simp only [List.mem_cons] at hf
      rcases hf with rfl | hf
      · refine ⟨hok.1, hok.2.1, ?_, ?_, trivial⟩
        · rw [List.map_append, List.nodup_append]
          refine ⟨hok.2.2.1, by simp, ?_⟩
          intro a ha b hb
          simp only [List.map_cons, List.map_nil, List.mem_singleton] at hb
          subst hb
          intro hab; subst hab
          exact (hasKey_false_iff es a).1 hok.2.2.2.2 ha
        · intro p hp
          simp only [List.mem_append, List.mem_singleton] at hp
          rcases hp with hp | rfl
          · exact hok.2.2.2.1 p hp
          · exact ⟨f0, hfo, hv f0.ty f0.nullable (by simp [pos, posOf, hfo])⟩
      · exact h.frames f (by simp [hf])
    · exact h
  · exact h

/-- the state with the innermost frame closed -/
theorem Inv.pop {t : Ty} {f : Frame} {rest : List Frame} {r : Option TL} {tt : Bool}
    (h : Inv ⟨t, f :: rest, r, tt⟩) : Inv ⟨t, rest, r, tt⟩ :=
  ⟨h.wf, fun g hg => h.frames g (by simp [hg]), h.chain.2, h.root⟩

/-- the position a frame was begun at -/
theorem Inv.parent {t : Ty} {f : Frame} {rest : List Frame} {r : Option TL} {tt : Bool}
    (h : Inv ⟨t, f :: rest, r, tt⟩) :
    ∃ ty nul, pos ⟨t, rest, r, tt⟩ = .value ty nul ∧ FrameFor f ty := h.chain.1

/-- the innermost frame is replaced by one of the same container -/
theorem Inv.replaceTop {t : Ty} {f g : Frame} {rest : List Frame} {r : Option TL} {tt : Bool}
    (h : Inv ⟨t, f :: rest, r, tt⟩) (hg : FrameOK g) (hfor : ∀ ty, FrameFor f ty → FrameFor g ty) :
    Inv ⟨t, g :: rest, r, tt⟩ := by
  refine ⟨h.wf, ?_, ⟨?_, h.chain.2⟩, h.root⟩
  · intro x hx
    simp only [List.mem_cons] at hx
    rcases hx with rfl | hx
    · exact hg
    · exact h.frames x (by simp [hx])
  · obtain ⟨ty, nul, hp, hf⟩ := h.chain.1
    exact ⟨ty, nul, hp, hfor ty hf⟩

theorem Inv.push {s : St} (h : Inv s) {g : Frame} (hg : FrameOK g) {ty : Ty} {nul : Bool}
    (hp : pos s = .value ty nul) (hfor : FrameFor g ty) : Inv { s with frames := g :: s.frames } := by
  refine ⟨h.wf, ?_, ⟨⟨ty, nul, hp, hfor⟩, h.chain⟩, h.root⟩
  intro x hx
  simp only [List.mem_cons] at hx
  rcases hx with rfl | hx
  · exact hg
  · exact h.frames x hx

theorem valuePrim_inv {s : St} {ty : Ty} {nul : Bool} (op : Op) (h : Inv s) (hp : pos s = .value ty nul) :
    Inv (valuePrim s ty nul op).1 := by
  have hwf := h.pos_wf hp
  cases op with
  | assign v =>
    simp only [valuePrim]
    split
    · rename_i hok
      apply deliver_inv h
      intro ty' nul' hp'
      rw [hp] at hp'
      cases hp'
      exact good_scalar hok
    · exact h
  | beginMap n =>
    simp only [valuePrim]
    split
    · rename_i vty vnul
      exact h.push (g := .map vty vnul [] .init)
        ⟨⟨by simpa [Ty.wf] using hwf.1, by simpa [plain] using hwf.2⟩, by simp, by simp, trivial⟩ hp rfl
    · rename_i fs r
      obtain ⟨h1, h2, _⟩ := Schema.wf_struct hwf.1
      have h3 := plainFields_mem fs (by simpa [plain] using hwf.2)
      exact h.push (g := .struct fs.toList [] .init)
        ⟨fun f hf => ⟨Schema.Fields.wf_mem fs h1 f hf, h3 f hf⟩, h2, by simp, by simp, trivial⟩ hp ⟨fs, r, rfl, rfl⟩
    · exact h
  | beginList n =>
    simp only [valuePrim]
    split
    · rename_i ety enul
      exact h.push (g := .list ety enul [] false)
        ⟨⟨by simpa [Ty.wf] using hwf.1, by simpa [plain] using hwf.2⟩, by simp⟩ hp rfl
    · exact h
  | assembleKey => exact h
  | assembleValue => exact h
  | assembleEntry k => exact h
  | assignNode v => exact h
  | finish => exact h

theorem errPrim_state (s : St) (op : Op) : (errPrim s op).1 = s := by
  cases op <;> simp only [errPrim] <;> first | rfl | (split <;> rfl)

theorem fieldOf_of_hasKey {fs : List Field} {es : List (Bytes × TL)} {k : Bytes}
    (hes : ∀ p ∈ es, ∃ f, fieldOf fs p.1 = some f ∧ Good f.ty f.nullable p.2) (hk : hasKey es k = true) :
    ∃ f, fieldOf fs k = some f := by
  obtain ⟨p, hp, hpk⟩ := List.mem_map.1 ((hasKey_iff es k).1 hk)
  obtain ⟨f, hf, _⟩ := hes p hp
  exact ⟨f, hpk ▸ hf⟩

theorem supplyKey_inv {e : Engine} {s : St} (k : Bytes) (he : e.keyAsmDupMapKey = false) (h : Inv s) :
    Inv (supplyKey e s k).1 := by
  obtain ⟨t, fr, r, tt⟩ := s
  unfold supplyKey
  simp only
  split
  · rename_i vty vnul es rest
    have hok := h.frames (.map vty vnul es .midKey) (by simp)
    split
    · exact h.replaceTop (g := .map vty vnul es .init) ⟨hok.1, hok.2.1, hok.2.2.1, trivial⟩ (fun _ hx => hx)
    · rename_i hc
      simp only [he, Bool.not_false, Bool.and_true, Bool.not_eq_true] at hc
      exact h.replaceTop (g := .map vty vnul es (.expectValue k)) ⟨hok.1, hok.2.1, hok.2.2.1, hc⟩ (fun _ hx => hx)
  · rename_i fs es rest
    have hok := h.frames (.struct fs es .midKey) (by simp)
    split
    · rename_i hnone
      split
      · exact h.replaceTop (g := .struct fs es .init)
          ⟨hok.1, hok.2.1, hok.2.2.1, hok.2.2.2.1, trivial⟩ (fun _ hx => hx)
      · refine h.replaceTop (g := .struct fs es (.expectValue k))
          ⟨hok.1, hok.2.1, hok.2.2.1, hok.2.2.2.1, ?_⟩ (fun _ hx => hx)
        cases hk : hasKey es k with
        | false => exact hk
        | true =>
          obtain ⟨f, hf⟩ := fieldOf_of_hasKey hok.2.2.2.1 hk
          rw [hnone] at hf; cases hf
    · split
      · exact h.replaceTop (g := .struct fs es .init)
          ⟨hok.1, hok.2.1, hok.2.2.1, hok.2.2.2.1, trivial⟩ (fun _ hx => hx)
      · rename_i hc
        simp only [Bool.not_eq_true] at hc
        exact h.replaceTop (g := .struct fs es (.expectValue k))
          ⟨hok.1, hok.2.1, hok.2.2.1, hok.2.2.2.1, hc⟩ (fun _ hx => hx)
  · exact h

theorem keyPrim_inv {e : Engine} {s : St} (op : Op) (he : e.keyAsmDupMapKey = false) (h : Inv s) :
    Inv (keyPrim e s op).1 := by
  unfold keyPrim
  split
  · exact supplyKey_inv _ he h
  all_goals exact h

/-- Every call except `AssignNode` keeps the invariant, whatever its outcome. -/
theorem stepPrim_inv {e : Engine} {s : St} (op : Op) (he : e.keyAsmDupMapKey = false) (h : Inv s) :
    Inv (stepPrim e s op).1 := by
  obtain ⟨t, fr, r, tt⟩ := s
  unfold stepPrim
  simp only
  split
  · skip
    split
    · exact h
    · skip
      exact valuePrim_inv op h (by simp [pos, posOf])
  · rename_i ety enul xs rest
    have hok := h.frames (.list ety enul xs false) (by simp)
    split
    · exact h.replaceTop (g := .list ety enul xs true) hok (fun _ hx => hx)
    · apply deliver_inv h.pop
      intro ty nul hp
      obtain ⟨ty0, nul0, hp0, hfor⟩ := h.parent
      rw [hp0] at hp
      cases hp
      simp only [FrameFor] at hfor
      subst hfor
      exact good_list nul hok.2
    · exact h
  · rename_i ety enul xs rest
    exact valuePrim_inv op h (by simp [pos, posOf])
  · rename_i vty vnul es rest
    have hok := h.frames (.map vty vnul es .init) (by simp)
    split
    · exact h.replaceTop (g := .map vty vnul es .midKey) ⟨hok.1, hok.2.1, hok.2.2.1, trivial⟩ (fun _ hx => hx)
    · rename_i k
      split
      · exact h
      · rename_i hc
        simp only [Bool.not_eq_true] at hc
        exact h.replaceTop (g := .map vty vnul es (.midValue k)) ⟨hok.1, hok.2.1, hok.2.2.1, hc⟩ (fun _ hx => hx)
    · apply deliver_inv h.pop
      intro ty nul hp
      obtain ⟨ty0, nul0, hp0, hfor⟩ := h.parent
      rw [hp0] at hp
      cases hp
      simp only [FrameFor] at hfor
      subst hfor
      exact good_map nul hok.2.1 hok.2.2.1
    · exact h
  · exact keyPrim_inv op he h
  · rename_i vty vnul es k rest
    have hok := h.frames (.map vty vnul es (.expectValue k)) (by simp)
    split
    · exact h.replaceTop (g := .map vty vnul es (.midValue k)) ⟨hok.1, hok.2.1, hok.2.2.1, hok.2.2.2⟩ (fun _ hx => hx)
    · exact h
  · rename_i vty vnul es k rest
    exact valuePrim_inv op h (by simp [pos, posOf])
  · rename_i fs es rest
    have hok := h.frames (.struct fs es .init) (by simp)
    split
    · exact h.replaceTop (g := .struct fs es .midKey)
        ⟨hok.1, hok.2.1, hok.2.2.1, hok.2.2.2.1, trivial⟩ (fun _ hx => hx)
    · rename_i k
      split
      · rename_i hnone
        split
        · exact h
        · refine h.replaceTop (g := .struct fs es (.midValue k))
            ⟨hok.1, hok.2.1, hok.2.2.1, hok.2.2.2.1, ?_⟩ (fun _ hx => hx)
          cases hk : hasKey es k with
          | false => exact hk
          | true =>
            obtain ⟨f, hf⟩ := fieldOf_of_hasKey hok.2.2.2.1 hk
            rw [hnone] at hf; cases hf
      · split
        · exact h
        · rename_i hc
          simp only [Bool.not_eq_true] at hc
          exact h.replaceTop (g := .struct fs es (.midValue k))
            ⟨hok.1, hok.2.1, hok.2.2.1, hok.2.2.2.1, hc⟩ (fun _ hx => hx)
    · split
      · rename_i hreq
        apply deliver_inv h.pop
        intro ty nul hp
        obtain ⟨ty0, nul0, hp0, hfor⟩ := h.parent
        rw [hp0] at hp
        cases hp
        obtain ⟨F, rr, rfl, rfl⟩ := hfor
        exact good_struct rr nul hok.2.1 hok.2.2.2.1 hreq
      · exact h
    · exact h
  · exact keyPrim_inv op he h
  · rename_i fs es k rest
    have hok := h.frames (.struct fs es (.expectValue k)) (by simp)
    split
    · exact h.replaceTop (g := .struct fs es (.midValue k))
        ⟨hok.1, hok.2.1, hok.2.2.1, hok.2.2.2.1, hok.2.2.2.2⟩ (fun _ hx => hx)
    · exact h
  · rename_i fs es k rest
    split
    · rename_i f hfo
      exact valuePrim_inv op h (by simp [pos, posOf, hfo])
    · rw [errPrim_state]; exact h

mutual
/-- The copy `AssignNode` makes keeps the invariant at every stage, wherever it stops. -/
theorem putNode_inv {e : Engine} (he : e.keyAsmDupMapKey = false) : (v : DM) → (s : St) → Inv s → Inv (putNode e s v).1
  | .list xs, s, h => by
    simp only [putNode]
    exact andThen_state (stepPrim_inv _ he h) fun s1 h1 =>
      andThen_state (putList_inv he xs s1 h1) fun s2 h2 => stepPrim_inv _ he h2
  | .map es, s, h => by
    simp only [putNode]
    exact andThen_state (stepPrim_inv _ he h) fun s1 h1 =>
      andThen_state (putKVs_inv he es s1 h1) fun s2 h2 => stepPrim_inv _ he h2
  | .null, s, h => by simp only [putNode]; exact stepPrim_inv _ he h
  | .bool _, s, h => by simp only [putNode]; exact stepPrim_inv _ he h
  | .int _, s, h => by simp only [putNode]; exact stepPrim_inv _ he h
  | .float _, s, h => by simp only [putNode]; exact stepPrim_inv _ he h
  | .str _, s, h => by simp only [putNode]; exact stepPrim_inv _ he h
  | .bytes _, s, h => by simp only [putNode]; exact stepPrim_inv _ he h
  | .link _, s, h => by simp only [putNode]; exact stepPrim_inv _ he h
theorem putList_inv {e : Engine} (he : e.keyAsmDupMapKey = false) : (xs : DMs) → (s : St) → Inv s → Inv (putList e s xs).1
  | .nil, s, h => by simp only [putList]; exact h
  | .cons x xs, s, h => by
    simp only [putList]
    exact andThen_state (stepPrim_inv _ he h) fun s1 h1 =>
      andThen_state (putNode_inv he x s1 h1) fun s2 h2 => putList_inv he xs s2 h2
theorem putKVs_inv {e : Engine} (he : e.keyAsmDupMapKey = false) : (es : DMKVs) → (s : St) → Inv s → Inv (putKVs e s es).1
  | .nil, s, h => by simp only [putKVs]; exact h
  | .cons k v es, s, h => by
    simp only [putKVs]
    exact andThen_state (stepPrim_inv _ he h) fun s1 h1 =>
      andThen_state (stepPrim_inv _ he h1) fun s2 h2 =>
      andThen_state (stepPrim_inv _ he h2) fun s3 h3 =>
      andThen_state (putNode_inv he v s3 h3) fun s4 h4 => putKVs_inv he es s4 h4
end

/-- Every call keeps the invariant, whatever its outcome - for an engine whose key assemblers refuse a repeated key. -/
theorem step_inv {e : Engine} {s : St} (op : Op) (he : e.keyAsmDupMapKey = false) (h : Inv s) :
    Inv (step e s op).1 := by
  unfold step
  split
  · exact h
  · unfold stepU
    split
    · rename_i v
      split
      · have hp := putNode_inv he v s h
        split
        · rename_i st' heq
          rw [heq] at hp; exact hp
        · split
          · exact h.taint true
          · exact h
        · exact h
      · exact stepPrim_inv _ he h
    · exact stepPrim_inv _ he h

theorem run_inv {e : Engine} {s : St} (ops : List Op) (he : e.keyAsmDupMapKey = false) (h : Inv s) :
    Inv (run e s ops).1 := by
  induction ops generalizing s with
  | nil => exact h
  | cons op ops ih =>
    have h1 := step_inv op he h
    cases hs : step e s op with
    | mk s' o =>
      rw [hs] at h1
      cases o with
      | ok => rw [run_cons_ok ops hs]; exact ih h1
      | err c => rw [run_cons_err ops hs]; exact ih h1
      | panic => rw [run_cons_panic ops hs]; exact h1

/-- whatever `Build` returns conforms to the builder's type and carries no key twice -/
theorem build_good {s : St} {v : TL} (h : Inv s) (hb : build s = some v) : Good s.ty false v := by
  unfold build at hb
  split at hb
  · exact h.root v hb
  · cases hb

end TAsm
end Ipld
