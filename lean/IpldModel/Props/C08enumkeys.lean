/-
  C08 (node reading is self-consistent), typed maps keyed by a string-represented enum: at each level a lookup by key
  agrees with what iteration yields, a text that is not a key of that level's view is not found, and the
  representation view is the type-level view with every key respelled.

  Model: Model/EnumKeyMap.lean (`_node.LookupByString` map case and `_nodeRepr.LookupByString` default case of
  node/bindnode AFTER the fix that made type-level lookups take member names; `_mapIterator` / `_mapIteratorRepr`).
  All enum types and values; no bounds.  Correspondence: `c09EnumKeys` (prefix C08) — `enumkey.lookup` driver lines.
-/
import IpldModel.Lemmas.EnumKeyMap
namespace Ipld.Props.C08
open Ipld Ipld.EnumKey

/-- **Lookups agree with iteration**, in both views: every entry `(k, v)` that a view's iteration yields is found
    under `k` with value `v` by that view's lookup.  (Type level needs only a valid value; the representation level
    also distinct representation strings — the counterexample is below.) -/
theorem enumkey_lookup_agrees_with_iteration (e : EnumTy) (hwf : wf e) (m : EMap) (hv : valid e m) (k : Bytes) (v : Int) :
    ((k, v) ∈ viewType m → lookupType e m k = some v) ∧
    ((k, v) ∈ viewRepr e m → lookupRepr e m k = some v) := by
  have hT : ∀ k v, (k, v) ∈ m → lookupType e m k = some v := by
    intro k v h
    have hk : k ∈ names e := hv.2 k (List.mem_map.2 ⟨(k, v), h, rfl⟩)
    simp [lookupType, (isMember_iff e k).2 hk, assoc_of_mem hv.1 h]
  refine ⟨hT k v, ?_⟩
  intro h
  obtain ⟨⟨n, v'⟩, hmem, heq⟩ := List.mem_map.1 h
  simp only [Prod.mk.injEq] at heq
  obtain ⟨hk, hv'⟩ := heq
  subst hk; subst hv'
  have hn : n ∈ names e := hv.2 n (List.mem_map.2 ⟨(n, v'), hmem, rfl⟩)
  simp [lookupRepr, memberOfRepr_reprOf hwf.2 hn, hT n v' hmem]

/-- ... and conversely a lookup that finds something finds an entry of the view's iteration (any enum type at type
    level; distinct names at representation level). -/
theorem enumkey_lookup_found_is_entry (e : EnumTy) (hn : (names e).Nodup) (m : EMap) (k : Bytes) (v : Int) :
    (lookupType e m k = some v → (k, v) ∈ viewType m) ∧
    (lookupRepr e m k = some v → (k, v) ∈ viewRepr e m) := by
  have hT : ∀ k v, lookupType e m k = some v → (k, v) ∈ m := by
    intro k v h
    simp only [lookupType] at h
    by_cases hm : isMember e k = true
    · simp [hm] at h; exact assoc_some_mem h
    · simp [hm] at h
  refine ⟨hT k v, ?_⟩
  intro h
  simp only [lookupRepr] at h
  cases hmr : memberOfRepr e k with
  | none => simp [hmr] at h
  | some n =>
    simp [hmr] at h
    exact List.mem_map.2 ⟨(n, v), hT n v h, by simp [reprOf_memberOfRepr hn hmr]⟩

/-- **A text that is not a key of the level's view is not found** (`wf` is needed at representation level only). -/
theorem enumkey_foreign_spelling_not_found (e : EnumTy) (hwf : wf e) (m : EMap) (k : Bytes) :
    (k ∉ keys (viewType m) → lookupType e m k = none) ∧
    (k ∉ keys (viewRepr e m) → lookupRepr e m k = none) := by
  refine ⟨fun h => ?_, fun h => ?_⟩
  · simp only [lookupType, viewType] at *
    simp [assoc_none_of_not_key h]
  · cases hl : lookupRepr e m k with
    | none => rfl
    | some v =>
      exact absurd (List.mem_map.2 ⟨(k, v), (enumkey_lookup_found_is_entry e hwf.1 m k v).2 hl, rfl⟩) h

/-- In particular the OTHER level's spelling of a member is not found unless it is also a spelling of this level: the
    name of a renamed member at representation level (unless it is some member's representation string), a
    representation string at type level (unless it is some member's name).  Any enum type, any value. -/
theorem enumkey_other_level_spelling_not_found (e : EnumTy) (m : EMap) (s : Bytes) :
    (s ∉ reprs e → lookupRepr e m s = none) ∧ (s ∉ names e → lookupType e m s = none) := by
  refine ⟨fun h => ?_, fun h => ?_⟩
  · simp [lookupRepr, memberOfRepr_none_of_not_repr h]
  · have : isMember e s = false := by
      cases hm : isMember e s with
      | false => rfl
      | true => exact absurd ((isMember_iff e s).1 hm) h
    simp [lookupType, this]

/-- **The views correspond**: the representation view is the type-level view with every key replaced by its
    representation string — same length, same order, same values. -/
theorem enumkey_views_correspond (e : EnumTy) (m : EMap) :
    viewRepr e m = (viewType m).map (fun kv => (reprOf e kv.1, kv.2)) ∧
    keys (viewRepr e m) = (keys (viewType m)).map (reprOf e) ∧
    (viewRepr e m).map (·.2) = (viewType m).map (·.2) ∧
    (viewRepr e m).length = (viewType m).length := by
  refine ⟨rfl, ?_, ?_, ?_⟩ <;> simp [viewRepr, viewType, keys, List.map_map, Function.comp_def]

/-- ... and under `wf` the representation view of a valid value has distinct keys too (a data-model map). -/
theorem enumkey_viewRepr_keys_distinct (e : EnumTy) (hwf : wf e) (m : EMap) (hv : valid e m) :
    (keys (viewRepr e m)).Nodup := by
  rw [(enumkey_views_correspond e m).2.1, viewType]
  obtain ⟨hd, hall⟩ := hv
  generalize keys m = ks at hd hall
  induction ks with
  | nil => simp
  | cons a ks ih =>
    have hd' : a ∉ ks ∧ ks.Nodup := by simpa using hd
    simp only [List.map_cons, List.nodup_cons]
    refine ⟨?_, ih hd'.2 (fun k hk => hall k (List.mem_cons_of_mem _ hk))⟩
    intro hmem
    obtain ⟨b, hb, hbe⟩ := List.mem_map.1 hmem
    have : b = a := reprOf_inj hwf.2 (hall b (List.mem_cons_of_mem _ hb)) (hall a (by simp)) hbe
    exact hd'.1 (this ▸ hb)

/-! ### Why `wf` -/

/-- Two members with ONE representation string (`enum { A ("x"), B ("x") }`): iteration of the representation view of
    `{B: 1}` yields the key `x`, the lookup of `x` translates it to `A` and finds nothing. -/
example :
    let e : EnumTy := [([65], [120]), ([66], [120])]
    (names e).Nodup ∧ ¬ wf e ∧ valid e [([66], 1)] ∧
      (([120], 1) : Bytes × Int) ∈ viewRepr e [([66], 1)] ∧ lookupRepr e [([66], 1)] [120] = none := by decide

/-- Two members with ONE name (`enum { A ("x"), A ("y") }`): `y` is not a key of the representation view of `{A: 1}`
    (that is `x`), but the lookup of `y` finds the entry. -/
example :
    let e : EnumTy := [([65], [120]), ([65], [121])]
    (reprs e).Nodup ∧ ¬ wf e ∧ [121] ∉ keys (viewRepr e [([65], 1)]) ∧ lookupRepr e [([65], 1)] [121] = some 1 := by decide

/-! ### Non-vacuity: `enum E { Yes ("y"), No, Maybe ("Yes") }`, value `{Yes: 1, Maybe: 2}` -/

def exKeyEnum : EnumTy := [([89, 101, 115], [121]), ([78, 111], [78, 111]), ([77, 97, 121, 98, 101], [89, 101, 115])]
def exKeyedVal : EMap := [([89, 101, 115], 1), ([77, 97, 121, 98, 101], 2)]

example : wf exKeyEnum ∧ valid exKeyEnum exKeyedVal := by decide
example : viewType exKeyedVal = [([89, 101, 115], 1), ([77, 97, 121, 98, 101], 2)] := by decide
example : viewRepr exKeyEnum exKeyedVal = [([121], 1), ([89, 101, 115], 2)] := by decide
/-- `Yes` is a key at both levels, of different entries -/
example : lookupType exKeyEnum exKeyedVal [89, 101, 115] = some 1 := by decide
example : lookupRepr exKeyEnum exKeyedVal [89, 101, 115] = some 2 := by decide
example : lookupRepr exKeyEnum exKeyedVal [121] = some 1 := by decide
/-- the other level's spellings: `y` at type level, `Maybe` at representation level -/
example : lookupType exKeyEnum exKeyedVal [121] = none := by decide
example : lookupRepr exKeyEnum exKeyedVal [77, 97, 121, 98, 101] = none := by decide
/-- a member that is not in the map -/
example : lookupType exKeyEnum exKeyedVal [78, 111] = none ∧ lookupRepr exKeyEnum exKeyedVal [78, 111] = none := by decide

end Ipld.Props.C08
