/-
  Soundness of the rewriting spec: the node `walkT` returns is the input rewritten exactly where the events it
  logged say (`Spec.Rewrites`), for every selector, fuel, budget and configuration.
-/
import IpldModel.Lemmas.WalkTransform
namespace Ipld
namespace WalkT
open Sel Walk Spec

/-- `rec` returns its input rewritten as its new events say -/
def Sound (cfg : Cfg) (fn : TFn) (rec : Path → DM → S → St → TR) : Prop :=
  ∀ path n s st st' r, rec path n s st = (st', .ok r) →
    ∃ evs, st'.events = evs.reverse ++ st.events ∧ Rewrites cfg fn path n r evs

theorem rewritesCh_copy {cfg : Cfg} {fn : TFn} {path : Path} (ps : Seg) (v : DM) {rest out : List (Seg × DM)}
    {e2 : List Event} (h : RewritesCh cfg fn path rest out e2) :
    RewritesCh cfg fn path ((ps, v) :: rest) ((ps, v) :: out) e2 := by
  by_cases hl : ∃ c, v = .link c
  · obtain ⟨c, rfl⟩ := hl
    exact .kept h
  · exact .cons (e1 := []) (fun c hc => hl ⟨c, hc⟩) (.keep _ _) h

theorem tChild_sound {cfg : Cfg} {fn : TFn} {rec : Path → DM → S → St → TR} (hrec : Sound cfg fn rec) (path : Path)
    (n : DM) (s : S) (attn : Option (List Seg)) (ps : Seg) (v : DM) (st st' : St) (v' : DM)
    (h : tChild cfg rec path n s attn ps v st = (st', .ok v')) :
    ∃ evs, st'.events = evs.reverse ++ st.events ∧
      ∀ rest out e2, RewritesCh cfg fn path rest out e2 →
        RewritesCh cfg fn path ((ps, v) :: rest) ((ps, v') :: out) (evs ++ e2) := by
  have copy : ∀ {st' v'}, (st, (Except.ok v : Except TErr DM)) = (st', .ok v') →
      ∃ evs, st'.events = evs.reverse ++ st.events ∧
        ∀ rest out e2, RewritesCh cfg fn path rest out e2 →
          RewritesCh cfg fn path ((ps, v) :: rest) ((ps, v') :: out) (evs ++ e2) := by
    intro st' v' h
    cases h
    exact ⟨[], rfl, fun rest out e2 h => rewritesCh_copy ps v h⟩
  by_cases ha : attended attn ps = true
  · rw [tChild_attended _ _ _ _ _ _ _ _ _ ha] at h
    split at h
    · cases h
    · cases h
    · exact copy h
    · rename_i sNext _
      split at h
      · rename_i c
        have hsome := @linkStep_some cfg c st
        have hnone := @linkStep_none cfg c st
        generalize linkStep cfg c st = ls at h hsome hnone
        obtain ⟨st1, r1⟩ := ls
        cases r1 with
        | error e => cases h
        | ok o =>
          cases o with
          | none =>
            simp only at h
            cases h
            rcases hnone rfl with ⟨h1, _, _⟩ | ⟨h1, h2⟩
            · simp only at h1
              exact ⟨[], by rw [h1]; rfl, fun rest out e2 h => .kept h⟩
            · simp only at h1
              exact ⟨[.load c], by rw [h1]; rfl, fun rest out e2 h => .skipped h2 h⟩
          | some blk =>
            simp only at h
            obtain ⟨h1, h2, h3⟩ := hsome rfl
            simp only at h3
            obtain ⟨e1, he1, hr⟩ := hrec _ _ _ _ _ _ h
            refine ⟨.load c :: e1, ?_, fun rest out e2 h => .inlined h2 h1 hr h⟩
            rw [he1, h3]; simp
      · rename_i hnl
        obtain ⟨e1, he1, hr⟩ := hrec _ _ _ _ _ _ h
        exact ⟨e1, he1, fun rest out e2 h => .cons (fun c hc => hnl c hc) hr h⟩
  · rw [tChild_pass _ _ _ _ _ _ _ _ _ (Or.inl (by simpa using ha))] at h
    exact copy h

theorem iterate_sound {cfg : Cfg} {fn : TFn} {rec : Path → DM → S → St → TR} (hrec : Sound cfg fn rec) (path : Path)
    (n : DM) (s : S) (attn : Option (List Seg)) :
    ∀ (l : List (Seg × DM)) (st st' : St) (out : List (Seg × DM)),
      iterate (tChild cfg rec path n s attn) l st = (st', .ok out) →
      ∃ evs, st'.events = evs.reverse ++ st.events ∧ RewritesCh cfg fn path l out evs
  | [], st, st', out, h => by
    rw [iterate_nil] at h
    cases h
    exact ⟨[], rfl, .nil _⟩
  | (ps, v) :: rest, st, st', out, h => by
    rw [iterate_cons] at h
    cases h1 : tChild cfg rec path n s attn ps v st with
    | mk st1 r1 =>
      rw [h1] at h
      cases r1 with
      | error e => cases h
      | ok v' =>
        simp only at h
        cases h2 : iterate (tChild cfg rec path n s attn) rest st1 with
        | mk st2 r2 =>
          rw [h2] at h
          cases r2 with
          | error e => cases h
          | ok out2 =>
            simp only at h
            cases h
            obtain ⟨e1, he1, hc⟩ := tChild_sound hrec path n s attn ps v st st1 v' h1
            obtain ⟨e2, he2, hr⟩ := iterate_sound hrec path n s attn rest st1 st' out2 h2
            exact ⟨e1 ++ e2, by rw [he2, he1]; simp, hc _ _ _ hr⟩

/-- a container rebuilt from its own children is itself -/
theorem rebuild_children (n : DM) (h : isRecursive n = true) : rebuild n (children n) = n := by
  cases n <;> simp [isRecursive] at h
  · rename_i xs
    simp only [rebuild, children, List.map_map]
    congr 1
    have : (fun e : DM × Nat => e.1) = Prod.fst := rfl
    have h2 : ((fun x : Seg × DM => x.2) ∘ fun e : DM × Nat => (Seg.idx e.2, e.1)) = Prod.fst := by
      funext e; rfl
    rw [h2, List.zipIdx_map_fst, DMs.ofList_toList]
  · rename_i es
    simp only [rebuild, children, List.map_map]
    congr 1
    have h2 : ((fun x : Seg × DM => (x.1.toString, x.2)) ∘ fun e : Bytes × DM => (Seg.str e.1, e.2)) = id := by
      funext e; rfl
    rw [h2, List.map_id, DMKVs.ofList_toList]

theorem descend_sound {cfg : Cfg} {fn : TFn} {rec : Path → DM → S → St → TR} (hrec : Sound cfg fn rec) (path : Path)
    (n : DM) (s : S) (st st' : St) (r : DM) (h : descend cfg rec path n s st = (st', .ok r)) :
    ∃ evs, st'.events = evs.reverse ++ st.events ∧
      ((r = n ∧ evs = []) ∨
        ∃ out, isRecursive n = true ∧ RewritesCh cfg fn path (children n) out evs ∧ r = rebuild n out) := by
  unfold descend at h
  split at h
  · rename_i hr
    unfold iterateNode at h
    cases h1 : iterate (tChild cfg rec path n s (interests s)) (children n) st with
    | mk st1 r1 =>
      rw [h1] at h
      cases r1 with
      | error e => cases h
      | ok out =>
        simp only at h
        cases h
        obtain ⟨evs, he, hc⟩ := iterate_sound hrec path n s _ _ _ _ _ h1
        exact ⟨evs, he, Or.inr ⟨out, hr, hc, rfl⟩⟩
  · cases h
    exact ⟨[], rfl, Or.inl ⟨rfl, rfl⟩⟩

theorem walkT_sound (cfg : Cfg) (fn : TFn) : ∀ (fuel : Nat), Sound cfg fn (walkT cfg fn fuel)
  | 0 => by
    intro path n s st st' r h
    rw [walkT_zero] at h
    cases h
  | fuel + 1 => by
    have ih := walkT_sound cfg fn fuel
    intro path n s st st' r h
    rw [walkT_succ] at h
    cases hck : checkNode st with
    | error e => rw [hck] at h; cases h
    | ok st1 =>
      rw [hck] at h
      have he1 := checkNode_events hck
      simp only at h
      rw [tBody_eq] at h
      split at h
      · cases h
      · split at h
        · split at h
          · cases h
          · rename_i d hfn
            cases h
            exact ⟨[callEvent path n], by simp [callSt, he1], .replaced hfn⟩
          · rename_i hfn
            obtain ⟨evs, he, hd⟩ := descend_sound ih path n s _ _ _ h
            refine ⟨callEvent path n :: evs, by rw [he]; simp [callSt, he1], ?_⟩
            rcases hd with ⟨rfl, rfl⟩ | ⟨out, hr, hc, rfl⟩
            · exact .calledKeep hfn
            · exact .calledRebuilt hfn hr hc
        · obtain ⟨evs, he, hd⟩ := descend_sound ih path n s _ _ _ h
          refine ⟨evs, by rw [he, he1], ?_⟩
          rcases hd with ⟨rfl, rfl⟩ | ⟨out, hr, hc, rfl⟩
          · exact .keep _ _
          · exact .rebuilt hr hc

end WalkT
end Ipld
