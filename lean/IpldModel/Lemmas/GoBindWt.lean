/-
  C19 (binding model): the Go value behind a built node is a well-typed inhabitant - `assignC_wt`, `assign_wt`.
-/
import IpldModel.Lemmas.GoBindBasic
import IpldModel.Lemmas.GoBindAssignView
import IpldModel.Lemmas.SchemaRound1
import IpldModel.Lemmas.SchemaConf
namespace Ipld
namespace GoBind
open Schema

theorem allNil_nilPtrs : (gfs : GoFields) → (ms : List Member) → compatMembers gfs ms = true →
    allNil gfs ms (nilPtrs gfs.length) = true
  | .nil, [], _ => rfl
  | .nil, _ :: _, h => by simp [compatMembers] at h
  | .cons _ _ _, [], h => by simp [compatMembers] at h
  | .cons _ g gfs, m :: ms, h => by
    unfold compatMembers at h
    simp only [Bool.and_eq_true] at h
    cases g <;> simp at h
    simp [GoFields.length, nilPtrs, allNil, allNil_nilPtrs gfs ms h.2]

/-- the union struct with exactly field `i` set is well-typed when its member is -/
theorem wtUnion_unionVals : (gfs : GoFields) → (ms : List Member) → compatMembers gfs ms = true →
    (i : Nat) → (g1 : GoTy) → (m : Member) → (x : GoVal) → gfs.get? i = some (.ptr g1) → ms[i]? = some m →
    wt g1 m.ty false x = true → wtUnion gfs ms (unionVals gfs.length i x) = true
  | .nil, _, _, _, _, _, _, hg, _, _ => by simp [GoFields.get?] at hg
  | .cons _ _ _, [], h, _, _, _, _, _, _, _ => by simp [compatMembers] at h
  | .cons n g rest, m0 :: ms, hc, i, g1, m, x, hg, hm, hw => by
    unfold compatMembers at hc
    simp only [Bool.and_eq_true] at hc
    cases i with
    | zero =>
      simp only [GoFields.get?, Option.some.injEq] at hg
      simp only [List.getElem?_cons_zero, Option.some.injEq] at hm
      subst hg; subst hm
      simp [GoFields.length, unionVals, wtUnion, hw, allNil_nilPtrs rest ms hc.2]
    | succ i =>
      simp only [GoFields.get?] at hg
      simp only [List.getElem?_cons_succ] at hm
      cases g <;> simp at hc
      simp only [GoFields.length, unionVals, wtUnion, Bool.true_and]
      exact wtUnion_unionVals rest ms hc.2 i g1 m x hg hm hw

theorem assignKVs_keys {g : GoTy} {t : Ty} {nul : Bool} : (es : TLKVs) → (kvs : GoKVs) →
    assignKVs g t nul es = some kvs → kvs.keys = es.toList.map (·.1)
  | .nil, kvs, h => by simp [assignKVs] at h; subst h; rfl
  | .cons k x es, kvs, h => by
    simp only [assignKVs, zipSome_eq_some] at h
    obtain ⟨a, r, _, hr, rfl⟩ := h
    simp [GoKVs.keys, TLKVs.toList, assignKVs_keys es r hr]

mutual
theorem assignC_wt : (v : TL) → (g : GoTy) → (t : Ty) → (nul : Bool) → (gv : GoVal) → t.wf = true →
    compatible g t nul = true → conforms t nul v = true →
    assignC g t nul v = some gv → wt g t nul gv = true
  | .absent, g, t, nul, gv, _, _, _, ha => by simp [assignC] at ha
  | .null, g, t, nul, gv, _, _, _, ha => by
    cases nul <;> simp [assignC] at ha
    by_cases hp : ∃ g1, g = .ptr g1
    · obtain ⟨g1, rfl⟩ := hp
      simp at ha
      subst ha
      simp [wt]
    · have ha' : (if isBare g = true then some GoVal.nilBare else none) = some gv := by
        cases g <;> first | exact ha | exact absurd ⟨_, rfl⟩ hp
      by_cases hb : isBare g = true
      · simp only [hb, if_true, Option.some.injEq] at ha'
        subst ha'
        simp [wt, hb]
      · simp [hb] at ha'
  | .bool b, g, t, nul, gv, _, _, _, ha => by
    unfold assignC at ha
    cases hu : unptr nul g with
    | none => simp [hu] at ha
    | some g0 =>
      simp only [hu, Option.map_eq_some_iff] at ha
      obtain ⟨a0, ha, rfl⟩ := ha
      cases t <;> cases g0 <;> simp at ha
      all_goals (subst ha; rw [wt_wrapFor _ _ hu (by simp) (by simp)]; simp [wt, conforms, TL.ofDM])
  | .float b, g, t, nul, gv, _, _, _, ha => by
    unfold assignC at ha
    cases hu : unptr nul g with
    | none => simp [hu] at ha
    | some g0 =>
      simp only [hu, Option.map_eq_some_iff] at ha
      obtain ⟨a0, ha, rfl⟩ := ha
      cases t <;> cases g0 <;> simp at ha
      all_goals (subst ha; rw [wt_wrapFor _ _ hu (by simp) (by simp)]; simp [wt, conforms, TL.ofDM])
  | .bytes b, g, t, nul, gv, _, _, _, ha => by
    unfold assignC at ha
    cases hu : unptr nul g with
    | none => simp [hu] at ha
    | some g0 =>
      simp only [hu, Option.map_eq_some_iff] at ha
      obtain ⟨a0, ha, rfl⟩ := ha
      cases t <;> cases g0 <;> simp at ha
      all_goals (subst ha; rw [wt_wrapFor _ _ hu (by simp) (by simp)]; simp [wt, conforms, TL.ofDM])
  | .link b, g, t, nul, gv, _, _, _, ha => by
    unfold assignC at ha
    cases hu : unptr nul g with
    | none => simp [hu] at ha
    | some g0 =>
      simp only [hu, Option.map_eq_some_iff] at ha
      obtain ⟨a0, ha, rfl⟩ := ha
      cases t <;> cases g0 <;> simp at ha
      all_goals (subst ha; rw [wt_wrapFor _ _ hu (by simp) (by simp)]; simp [wt, conforms, TL.ofDM])
  | .int i, g, t, nul, gv, _, _, _, ha => by
    unfold assignC at ha
    cases hu : unptr nul g with
    | none => simp [hu] at ha
    | some g0 =>
      simp only [hu, Option.map_eq_some_iff] at ha
      obtain ⟨a0, ha, rfl⟩ := ha
      cases t <;> cases g0 <;> simp at ha
      · obtain ⟨hf, rfl⟩ := ha
        rw [wt_wrapFor _ _ hu (by simp) (by simp)]
        simp [wt, hf]
      · subst ha; rw [wt_wrapFor _ _ hu (by simp) (by simp)]; simp [wt, conforms, TL.ofDM]
  | .str b, g, t, nul, gv, hwf, _, hcf, ha => by
    unfold assignC at ha
    cases hu : unptr nul g with
    | none => simp [hu] at ha
    | some g0 =>
      simp only [hu, Option.map_eq_some_iff] at ha
      obtain ⟨a0, ha, rfl⟩ := ha
      cases t with
      | str => cases g0 <;> simp at ha; subst ha; rw [wt_wrapFor _ _ hu (by simp) (by simp)]; simp [wt]
      | any => cases g0 <;> simp at ha; subst ha; rw [wt_wrapFor _ _ hu (by simp) (by simp)]; simp [wt, conforms, TL.ofDM]
      | enum ms r =>
        cases g0 <;> simp at ha
        · rename_i k
          cases r <;> simp at ha
          cases hm : ms.find? (fun m => m.name == b) with
          | none => simp [hm] at ha
          | some m =>
            simp only [hm, Option.map_eq_some_iff] at ha
            obtain ⟨i, hi, rfl⟩ := ha
            rw [wt_wrapFor _ _ hu (by simp) (by simp)]
            obtain ⟨hmem, _⟩ := find?_mem_key (·.name) ms b m hm
            obtain ⟨rfl, hfit⟩ := (enumStore_eq_some k m.rint i).1 hi
            simp only [wt, Bool.not_false, Bool.true_and, hfit, List.any_eq_true]
            exact ⟨m, hmem, by simp⟩
        · obtain ⟨hany, rfl⟩ := ha
          rw [wt_wrapFor _ _ hu (by simp) (by simp)]
          simp only [wt, Bool.not_false, Bool.true_and, List.any_eq_true]
          obtain ⟨m, hm, hn⟩ := hany
          exact ⟨m, hm, by simpa using hn⟩
      | _ => cases g0 <;> simp at ha
  | .list xs, g, t, nul, gv, hwf, hc, hcf, ha => by
    unfold assignC at ha
    cases hu : unptr nul g with
    | none => simp [hu] at ha
    | some g0 =>
      simp only [hu, Option.map_eq_some_iff] at ha
      obtain ⟨a0, ha, rfl⟩ := ha
      replace hc := compatible_of_unptr t hu hc
      cases t with
      | list et enul =>
        cases g0 <;> simp at ha
        rename_i ge
        obtain ⟨ys, hys, rfl⟩ := ha
        rw [wt_wrapFor _ _ hu (by simp) (by simp)]
        have hcf' : conformsList et enul xs = true := by
          cases nul <;> (unfold conforms at hcf; exact hcf)
        have h := assignList_wt xs ge et enul ys (by simpa [Ty.wf] using hwf) (by simpa [compatible] using hc)
          hcf' hys
        simp [wt, h]
      | any =>
        cases g0 <;> simp at ha
        obtain ⟨d, hd, rfl⟩ := ha
        rw [wt_wrapFor _ _ hu (by simp) (by simp)]
        have hv := ofDM_of_toDM _ _ hd
        have : conforms .any false (.list xs) = true := by cases nul <;> (unfold conforms at hcf ⊢; exact hcf)
        simp [wt, hv, this]
      | _ => cases g0 <;> simp at ha
  | .map es, g, t, nul, gv, hwf, hc, hcf, ha => by
    unfold assignC at ha
    cases hu : unptr nul g with
    | none => simp [hu] at ha
    | some g0 =>
      simp only [hu, Option.map_eq_some_iff] at ha
      obtain ⟨a0, ha, rfl⟩ := ha
      replace hc := compatible_of_unptr t hu hc
      cases t with
      | map vt vnul =>
        cases g0 <;> simp at ha
        rename_i gv0
        obtain ⟨kvs, hkvs, rfl⟩ := ha
        rw [wt_wrapFor _ _ hu (by simp) (by simp)]
        have hcf' : conformsMap vt vnul [] es = true := by
          cases nul <;> (unfold conforms at hcf; exact hcf)
        have h := assignKVs_wt es gv0 vt vnul kvs (by simpa [Ty.wf] using hwf) (by simpa [compatible] using hc)
          [] hcf' hkvs
        have hk := assignKVs_keys es kvs hkvs
        have hnd := (nodupBytes_iff _).2 (conformsMap_nodup vt vnul es [] hcf').1
        simp only [wt, Bool.not_false, Bool.true_and, keysOf_getD, hk, hnd, h, Bool.and_true, Bool.and_eq_true,
          List.all_eq_true, List.contains_eq_mem, decide_eq_true_eq, Bool.or_eq_true]
        exact ⟨⟨fun k hk => hk, fun k hk => hk⟩, Or.inl trivial⟩
      | struct fs sr =>
        cases g0 <;> simp at ha
        rename_i gfs
        obtain ⟨vs, hvs, rfl⟩ := ha
        rw [wt_wrapFor _ _ hu (by simp) (by simp)]
        have hw3 := wf_struct hwf
        have hcf' : conformsStruct fs.toList [] es = true := by
          cases nul <;> (unfold conforms at hcf; exact hcf)
        have h := assignFields_wt es gfs fs.toList fs.toList vs (fun _ h => h) hw3.2.1 (Fields.wf_mem fs hw3.1)
          (conformsStruct_vals fs.toList es [] hcf') (by simpa [compatible] using hc)
          hvs
        simp [wt, h]
      | union ms ur =>
        cases g0 <;> simp at ha
        rename_i gfs
        have hw3 := wf_union hwf
        have hc' : compatMembers gfs ms.toList = true := by simpa [compatible] using hc
        match es, hcf, ha with
        | .cons k v .nil, hcf, ha =>
          simp only at ha
          cases hfi : findIdx (fun m => m.name == k) ms.toList with
          | none => simp [hfi] at ha
          | some im =>
            obtain ⟨i, m⟩ := im
            obtain ⟨hmi, hmk, hfind⟩ := findIdx_some _ _ i m hfi
            obtain ⟨g1, hg1, hcg1⟩ := compatMembers_get gfs ms.toList hc' i m hmi
            simp only [hfi, hg1, Option.map_eq_some_iff] at ha
            obtain ⟨a, hasg, rfl⟩ := ha
            rw [wt_wrapFor _ _ hu (by simp) (by simp)]
            have hcv : conforms m.ty false v = true := by
              cases nul <;> (unfold conforms at hcf; simp only [hfind] at hcf; exact hcf)
            have hmem := List.mem_of_getElem? hmi
            have h := assignC_wt v g1 m.ty false a (Members.wf_mem ms hw3.1 m hmem) hcg1 hcv hasg
            simp [wt, wtUnion_unionVals gfs ms.toList hc' i g1 m a hg1 hmi h]
        | .nil, _, ha => simp at ha
        | .cons _ _ (.cons _ _ _), _, ha => simp at ha
      | any =>
        cases g0 <;> simp at ha
        obtain ⟨d, hd, rfl⟩ := ha
        rw [wt_wrapFor _ _ hu (by simp) (by simp)]
        have hv := ofDM_of_toDM _ _ hd
        have : conforms .any false (.map es) = true := by cases nul <;> (unfold conforms at hcf ⊢; exact hcf)
        simp [wt, hv, this]
      | _ => cases g0 <;> simp at ha
theorem assignList_wt : (xs : TLs) → (g : GoTy) → (t : Ty) → (nul : Bool) → (ys : GoVals) → t.wf = true →
    compatible g t nul = true → conformsList t nul xs = true →
    assignList g t nul xs = some ys → wtList g t nul ys = true
  | .nil, _, _, _, ys, _, _, _, ha => by simp [assignList] at ha; subst ha; rfl
  | .cons x xs, g, t, nul, ys, hwf, hc, hcf, ha => by
    simp only [assignList, zipSome_eq_some] at ha
    simp only [conformsList, Bool.and_eq_true] at hcf
    obtain ⟨a, r, h1, h2, rfl⟩ := ha
    simp only [wtList, Bool.and_eq_true]
    exact ⟨assignC_wt x g t nul a hwf hc hcf.1 h1, assignList_wt xs g t nul r hwf hc hcf.2 h2⟩
theorem assignKVs_wt : (es : TLKVs) → (g : GoTy) → (t : Ty) → (nul : Bool) → (kvs : GoKVs) → t.wf = true →
    compatible g t nul = true → (seen : List Bytes) →
    conformsMap t nul seen es = true → assignKVs g t nul es = some kvs → wtKVs g t nul kvs = true
  | .nil, _, _, _, ys, _, _, _, _, ha => by simp [assignKVs] at ha; subst ha; rfl
  | .cons k x xs, g, t, nul, ys, hwf, hc, seen, hcf, ha => by
    simp only [assignKVs, zipSome_eq_some] at ha
    obtain ⟨hcx, hcxs⟩ := conformsMap_cons_inv t nul k x xs seen hcf
    obtain ⟨a, r, h1, h2, rfl⟩ := ha
    simp only [wtKVs, Bool.and_eq_true]
    exact ⟨assignC_wt x g t nul a hwf hc hcx h1,
      assignKVs_wt xs g t nul r hwf hc (k :: seen) hcxs h2⟩
theorem assignFields_wt : (es : TLKVs) → (gfs : GoFields) → (fs F : List Field) → (vs : GoVals) →
    (∀ f ∈ fs, f ∈ F) → (F.map (·.name)).Nodup → (∀ f ∈ F, f.ty.wf = true) →
    (∀ e ∈ es.toList, ∃ f, F.find? (fun f => f.name == e.1) = some f ∧ fieldValOK f e.2 = true) →
    compatFields gfs fs = true →
    assignFields gfs fs es = some vs → wtFields gfs fs vs = true
  | .nil, gfs, fs, F, vs, _, _, _, _, _, ha => by
    cases gfs <;> cases fs <;> simp [assignFields] at ha
    subst ha; simp [wtFields]
  | .cons k v es, gfs, fs, F, vs, hsub, hnd, hwfF, hvals, hc, ha => by
    cases gfs with
    | nil => cases fs <;> simp [assignFields] at ha
    | cons n g gfs =>
      cases fs with
      | nil => simp [assignFields] at ha
      | cons f fs =>
        rw [assignFields_cons] at ha
        rw [compatFields_cons] at hc
        simp only [Bool.and_eq_true] at hc
        by_cases hk : k = f.name
        · subst hk
          simp only [bne_self_eq_false, Bool.false_eq_true, if_false, zipSome_eq_some] at ha
          obtain ⟨a, r, h1, h2, rfl⟩ := ha
          have hfF : f ∈ F := hsub f (by simp)
          obtain ⟨f', hf', hok⟩ := hvals (f.name, v) (by simp [TLKVs.toList])
          obtain ⟨hf'F, hf'n⟩ := find?_mem_key (·.name) F f.name f' hf'
          have := eq_of_name_eq F hnd f' f hf'F hfF hf'n
          subst this
          have ihrest := assignFields_wt es gfs fs F r (fun f hf => hsub f (by simp [hf])) hnd hwfF
              (fun e he => hvals e (by simp [TLKVs.toList, he])) hc.2 h2
          rw [wtFields_cons, ihrest, Bool.and_true]
          have hcF := hc.1.2
          unfold compatField at hcF
          unfold assignField at h1
          unfold wtField
          simp only at hok
          cases hs : fslot g f'.opt f'.nullable with
          | value =>
            simp only [hs] at h1 hcF ⊢
            have hva : v ≠ .absent := by intro h; subst h; simp [assignC] at h1
            have hcv : conforms f'.ty f'.nullable v = true := by
              cases v <;> first | exact absurd rfl hva | exact hok
            exact assignC_wt v g f'.ty f'.nullable a (hwfF f' hfF) hcF hcv h1
          | optPtr g1 =>
            simp only [hs, Bool.and_eq_true] at h1 hcF ⊢
            by_cases hva : v = .absent
            · subst hva
              simp only [if_true, Option.some.injEq] at h1
              subst h1; rfl
            · simp only [hva, if_false, Option.map_eq_some_iff] at h1
              obtain ⟨a1, h1, rfl⟩ := h1
              have hcv : conforms f'.ty f'.nullable v = true := by
                cases v <;> first | exact absurd rfl hva | exact hok
              exact assignC_wt v g1 f'.ty f'.nullable a1 (hwfF f' hfF) hcF.2 hcv h1
          | optBare =>
            obtain ⟨ho, hn, hb⟩ := fslot_optBare hs
            simp only [hs] at h1 hcF ⊢
            by_cases hva : v = .absent
            · subst hva
              simp only [if_true, Option.some.injEq] at h1
              subst h1
              simp
            · simp only [hva, if_false] at h1
              have hcv : conforms f'.ty false v = true := by
                have : conforms f'.ty f'.nullable v = true := by
                  cases v <;> first | exact absurd rfl hva | exact hok
                rwa [hn] at this
              have hns := (assignC_bare_ne hb hcF h1).2
              simp [hns, assignC_wt v g f'.ty false a (hwfF f' hfF) hcF hcv h1]
          | bad => simp [hs] at h1
        · have : (k != f.name) = true := by simpa using hk
          simp [this] at ha
end

/-- root form -/
theorem assign_wt (g : GoTy) (t : Ty) (tl : TL) (gv : GoVal) (hwf : t.wf = true)
    (hc : compatible g t false = true)
    (ha : assign g t tl = some gv) : wt g t false gv = true := by
  unfold assign at ha
  split at ha
  · rename_i hcf
    exact assignC_wt _ g t false gv hwf hc (conforms_normalize tl t false hwf hcf) ha
  · cases ha

end GoBind
end Ipld
