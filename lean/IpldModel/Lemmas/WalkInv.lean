/-
  A generic invariant principle for the walk's log: a predicate `Pos` on positions (path, node, selector)
  that is inherited by explored children, and a predicate `Q` on the log that is kept by link loads and by
  visits at `Pos` positions, give `Q` of the final log.
-/
import IpldModel.Lemmas.Walk
namespace Ipld
namespace Walk
open Sel

theorem linkStep_events_cases (cfg : Cfg) (c : Bytes) (st : St) :
    (linkStep cfg c st).1.events = st.events ∨ (linkStep cfg c st).1.events = .load c :: st.events := by
  unfold linkStep
  split
  · exact Or.inl rfl
  · have h0 : (if cfg.linkOnce = true then { st with seen := c :: st.seen } else st).events = st.events := by
      split <;> rfl
    simp only
    split
    · exact Or.inl h0
    · rename_i st2 h
      have h3 := checkLink_events h
      split
      · exact Or.inr (by simp [h3, h0])
      · split <;> exact Or.inr (by simp [h3, h0])

theorem linkStep_some {cfg : Cfg} {c : Bytes} {st : St} {blk : DM} (h : (linkStep cfg c st).2 = .ok (some blk)) :
    storeGet cfg.store c = some blk ∧ cfg.skip.contains c = false ∧
      (linkStep cfg c st).1.events = .load c :: st.events := by
  unfold linkStep at h ⊢
  by_cases h1 : (cfg.linkOnce && st.seen.contains c) = true
  · rw [if_pos h1] at h; cases h
  · rw [if_neg h1] at h ⊢
    have h0 : (if cfg.linkOnce = true then { st with seen := c :: st.seen } else st).events = st.events := by
      split <;> rfl
    simp only at h ⊢
    cases hck : checkLink (if cfg.linkOnce = true then { st with seen := c :: st.seen } else st) with
    | error e => rw [hck] at h; cases h
    | ok st2 =>
      rw [hck] at h
      have h3 := checkLink_events hck
      simp only at h ⊢
      by_cases h2 : cfg.skip.contains c = true
      · rw [if_pos h2] at h; cases h
      · rw [if_neg h2] at h ⊢
        cases hs : storeGet cfg.store c with
        | none => rw [hs] at h; cases h
        | some blk' =>
          rw [hs] at h
          simp only [Except.ok.injEq, Option.some.injEq] at h
          subst h
          exact ⟨rfl, by simpa using h2, by simp [h3, h0]⟩

theorem visitSt_events_cases (cfg : Cfg) (past : Bool) (path : Path) (n : DM) (s : S) (st : St) :
    ((visitSt cfg past path n s st).events = st.events ∧ cfg.startAt ≠ []) ∨
    (visitSt cfg past path n s st).events = visitEvent path n s :: st.events := by
  unfold visitSt
  split
  · rename_i h
    left; refine ⟨rfl, ?_⟩
    intro h'; simp [h'] at h
  · right; rfl

section
variable (cfg : Cfg) (Pos : List Event → Path → DM → S → Prop) (Q : List Event → Prop)

theorem walk_inv
    (pos_mono : ∀ es new path n s, Pos es path n s → Pos (new ++ es) path n s)
    (q_load : ∀ es c, Q es → Q (.load c :: es))
    (q_visit : ∀ es path n s, Q es → Pos es path n s → Q (visitEvent path n s :: es))
    (pos_child : ∀ es path n s ps v sNext, Pos es path n s → (cfg.startAt = [] → visitEvent path n s ∈ es) →
        (ps, v) ∈ childList n s → explore s n ps = .ok (some sNext) → (∀ c, v ≠ .link c) →
        Pos es (path ++ [ps]) v sNext)
    (pos_link : ∀ es path n s ps c blk sNext, Pos es path n s → (cfg.startAt = [] → visitEvent path n s ∈ es) →
        (ps, .link c) ∈ childList n s → explore s n ps = .ok (some sNext) →
        storeGet cfg.store c = some blk → cfg.skip.contains c = false →
        Pos es (path ++ [ps]) blk sNext) (fuel : Nat) :
    (∀ past path n s st, Q st.events → Pos st.events path n s → Q (walkAdv cfg fuel past path n s st).1.events) ∧
    (∀ path n s l lp st, Q st.events → Pos st.events path n s → (cfg.startAt = [] → visitEvent path n s ∈ st.events) →
      (∀ x ∈ l, x ∈ childList n s) → Q (walkChildren cfg fuel path n s l lp st).1.events) ∧
    (∀ past path n s ps v st, Q st.events → Pos st.events path n s →
      (cfg.startAt = [] → visitEvent path n s ∈ st.events) →
      (ps, v) ∈ childList n s → Q (exploreChild cfg fuel past path n s ps v st).1.events) := by
  induction fuel with
  | zero =>
    refine ⟨?_, ?_, ?_⟩
    · intro past path n s st hq _; rw [walkAdv_zero]; exact hq
    · intro path n s l lp st hq _ _ _; rw [walkChildren_zero]; exact hq
    · intro past path n s ps v st hq _ _ _; rw [exploreChild_zero]; exact hq
  | succ fuel ih =>
    obtain ⟨ihA, ihC, ihE⟩ := ih
    refine ⟨?_, ?_, ?_⟩
    · intro past path n s st hq hp
      rw [walkAdv_succ]
      cases h : checkNode st with
      | error e => exact hq
      | ok st1 =>
        have he := checkNode_events h
        simp only
        split
        · rw [he]; exact hq
        · have hq2 : Q (visitSt cfg past path n s st1).events ∧ Pos (visitSt cfg past path n s st1).events path n s ∧
              (cfg.startAt = [] → visitEvent path n s ∈ (visitSt cfg past path n s st1).events) := by
            rcases visitSt_events_cases cfg past path n s st1 with ⟨h1, h2⟩ | h1
            · rw [h1, he]; exact ⟨hq, hp, fun h => absurd h h2⟩
            · rw [h1, he]
              exact ⟨q_visit _ _ _ _ hq hp, pos_mono _ [_] _ _ _ hp, fun _ => by simp⟩
          split
          · exact hq2.1
          · exact ihC _ _ _ _ _ _ hq2.1 hq2.2.1 hq2.2.2 (fun x hx => hx)
    · intro path n s l lp st hq hp hv hl
      cases l with
      | nil => rw [walkChildren_nil]; exact hq
      | cons x rest =>
        obtain ⟨ps, v⟩ := x
        have hrest : ∀ x ∈ rest, x ∈ childList n s := fun x hx => hl x (by simp [hx])
        rw [walkChildren_cons]
        split
        · exact ihC _ _ _ _ _ _ hq hp hv hrest
        · have h1 := ihE (loopStep cfg path lp ps).2.past path n s ps v st hq hp hv (hl _ (by simp))
          obtain ⟨new, hnew⟩ := events_extend_child cfg fuel (loopStep cfg path lp ps).2.past path n s ps v st
          generalize exploreChild cfg fuel (loopStep cfg path lp ps).2.past path n s ps v st = r at h1 hnew
          obtain ⟨st', r⟩ := r
          cases r with
          | error e => exact h1
          | ok u =>
            cases u
            rw [andThen_ok]
            refine ihC _ _ _ _ _ _ h1 ?_ ?_ hrest
            · rw [hnew]; exact pos_mono _ _ _ _ _ hp
            · intro h; rw [hnew]; exact List.mem_append_right _ (hv h)
    · intro past path n s ps v st hq hp hv hmem
      rw [exploreChild_succ]
      split
      · exact hq
      · exact hq
      · exact hq
      · rename_i sNext hx
        unfold enterChild
        split
        · rename_i c
          have hev := linkStep_events_cases cfg c st
          have hsome := @linkStep_some cfg c st
          generalize linkStep cfg c st = ls at hev hsome
          obtain ⟨st', r⟩ := ls
          simp only at hev hsome
          have hq' : Q st'.events := by
            rcases hev with h | h <;> rw [h]
            · exact hq
            · exact q_load _ _ hq
          cases r with
          | error e => exact hq'
          | ok o =>
            cases o with
            | none => exact hq'
            | some blk =>
              obtain ⟨h1, h2, h3⟩ := hsome rfl
              simp only
              apply ihA _ _ _ _ _ hq'
              rw [h3]
              exact pos_mono _ [_] _ _ _ (pos_link _ _ _ _ _ _ _ _ hp hv hmem hx h1 h2)
        · rename_i hnl
          exact ihA _ _ _ _ _ hq (pos_child _ _ _ _ _ _ _ hp hv hmem hx (fun c hc => hnl c hc))

end

end Walk
end Ipld
