import IpldModel.Model.Term
import IpldModel.Model.EnumKeyMap
namespace Ipld.Driver
open Ipld Ipld.EnumKey

/-!
  Line protocol of the enum-keyed typed map model (Model/EnumKeyMap.lean).

      member = m:<hexname>:<hexrepr>        (an unrenamed member: repr = name)

      enumkey.run <type|repr> MEMBERS <member>* INPUT <dm-term…>
          → accepted <type-level dm-term> | <representation dm-term>      | rejected
        the input is a data-model map with integer values, its entries the builder calls in order (keys may repeat)
      enumkey.lookup <type|repr> MEMBERS <member>* VAL <dm-term…> KEY s<hex>
          → found <dm-term> | notfound
        VAL is the typed value as its type-level view (member names)
-/

def parseEkMember (t : String) : Option (Bytes × Bytes) :=
  match t.splitOn ":" with
  | ["m", n, r] => do
    let n' ← bytesOfHex n
    let r' ← bytesOfHex r
    pure (n', r')
  | _ => none

def parseEkLevel : String → Option Level
  | "type" => some .type
  | "repr" => some .repr
  | _ => none

/-- `MEMBERS <member>* <stop> rest…` -/
def parseEkMembers (stop : String) : List String → Option (EnumTy × List String)
  | "MEMBERS" :: toks =>
    let ms := toks.takeWhile (· ≠ stop)
    match toks.dropWhile (· ≠ stop) with
    | _ :: rest => (ms.mapM parseEkMember).map fun e => (e, rest)
    | [] => none
  | _ => none

def enumKeyHandler : List String → Option String
  | "enumkey.run" :: lvl :: toks =>
    match parseEkLevel lvl, parseEkMembers "INPUT" toks with
    | some l, some (e, rest) =>
      match (parseTermAll rest).bind ofDM with
      | some input =>
        match build l e input with
        | some m => some ("accepted " ++ (toDM (viewType m)).toTerm ++ " | " ++ (toDM (viewRepr e m)).toTerm)
        | none => some "rejected"
      | none => some "bad-args"
    | _, _ => some "bad-args"
  | "enumkey.lookup" :: lvl :: toks =>
    match parseEkLevel lvl, parseEkMembers "VAL" toks with
    | some l, some (e, rest) =>
      let vt := rest.takeWhile (· ≠ "KEY")
      match (parseTermAll vt).bind ofDM, rest.dropWhile (· ≠ "KEY") with
      | some m, ["KEY", k] =>
        match k.toList with
        | 's' :: cs =>
          match bytesOfHexChars cs with
          | some kb =>
            let r := match l with
              | .type => lookupType e m kb
              | .repr => lookupRepr e m kb
            match r with
            | some v => some ("found " ++ (DM.int v).toTerm)
            | none => some "notfound"
          | none => some "bad-args"
        | _ => some "bad-args"
      | _, _ => some "bad-args"
    | _, _ => some "bad-args"
  | _ => none

end Ipld.Driver
