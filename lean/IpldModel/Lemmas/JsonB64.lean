/-
  base64 (RawStdEncoding) round trip for the DAG-JSON bytes form: `unbase64Raw ∘ base64Raw = some`,
  and hence `decodeB64` (raw first, padded fallback) recovers what `base64Raw` wrote.  DESIGN §5 C04.
  Core Lean only.
-/
import IpldModel.Model.JsonTok
namespace Ipld.Json

theorem b64Val_b64Char_fin : ∀ n : Fin 64, b64Val (b64Char n.val) = some n.val := by decide

theorem b64Val_b64Char (n : Nat) (h : n < 64) : b64Val (b64Char n) = some n :=
  b64Val_b64Char_fin ⟨n, h⟩

theorem b64_arith3 (x y z : Nat) (hx : x < 256) (hy : y < 256) (hz : z < 256) :
    let n := x * 65536 + y * 256 + z
    n / 262144 < 64 ∧ n / 4096 % 64 < 64 ∧ n / 64 % 64 < 64 ∧ n % 64 < 64 ∧
    (n / 262144) * 262144 + (n / 4096 % 64) * 4096 + (n / 64 % 64) * 64 + n % 64 = n ∧
    n / 65536 = x ∧ n / 256 % 256 = y ∧ n % 256 = z := by
  intro n
  omega

theorem b64_arith2 (x y : Nat) (hx : x < 256) (hy : y < 256) :
    let n := x * 65536 + y * 256
    n / 262144 < 64 ∧ n / 4096 % 64 < 64 ∧ n / 64 % 64 < 64 ∧
    (n / 262144) * 262144 + (n / 4096 % 64) * 4096 + (n / 64 % 64) * 64 = n ∧
    n / 65536 = x ∧ n / 256 % 256 = y := by
  intro n
  omega

theorem b64_arith1 (x : Nat) (hx : x < 256) :
    let n := x * 65536
    n / 262144 < 64 ∧ n / 4096 % 64 < 64 ∧
    (n / 262144) * 262144 + (n / 4096 % 64) * 4096 = n ∧
    n / 65536 = x := by
  intro n
  omega

theorem unbase64Raw_base64Raw : (b : Bytes) → unbase64Raw (base64Raw b) = some b
  | a :: b :: c :: rest => by
    have ih := unbase64Raw_base64Raw rest
    have ⟨h1, h2, h3, h4, h5, h6, h7, h8⟩ :=
      b64_arith3 a.toNat b.toNat c.toNat a.toNat_lt b.toNat_lt c.toNat_lt
    simp only [base64Raw, unbase64Raw]
    simp only [b64Val_b64Char _ h1, b64Val_b64Char _ h2, b64Val_b64Char _ h3,
      b64Val_b64Char _ h4, ih]
    simp only [Option.bind_eq_bind, Option.bind_some, Option.pure_def]
    rw [h5]
    simp only [h6, h7, h8, UInt8.ofNat_toNat]
  | [a, b] => by
    have ⟨h1, h2, h3, h5, h6, h7⟩ := b64_arith2 a.toNat b.toNat a.toNat_lt b.toNat_lt
    simp only [base64Raw, unbase64Raw]
    simp only [b64Val_b64Char _ h1, b64Val_b64Char _ h2, b64Val_b64Char _ h3]
    simp only [Option.bind_eq_bind, Option.bind_some, Option.pure_def]
    rw [h5]
    simp only [h6, h7, UInt8.ofNat_toNat]
  | [a] => by
    have ⟨h1, h2, h5, h6⟩ := b64_arith1 a.toNat a.toNat_lt
    simp only [base64Raw, unbase64Raw]
    simp only [b64Val_b64Char _ h1, b64Val_b64Char _ h2]
    simp only [Option.bind_eq_bind, Option.bind_some, Option.pure_def]
    rw [h5]
    simp only [h6, UInt8.ofNat_toNat]
  | [] => by simp [base64Raw, unbase64Raw]

theorem b64Char_notNL_fin : ∀ n : Fin 64, (b64Char n.val != 0x0a && b64Char n.val != 0x0d) = true := by decide

theorem b64Char_notNL (n : Nat) (h : n < 64) : (b64Char n != 0x0a && b64Char n != 0x0d) = true :=
  b64Char_notNL_fin ⟨n, h⟩

theorem stripNL_base64Raw : (b : Bytes) → stripNL (base64Raw b) = base64Raw b
  | x :: y :: z :: rest => by
    have ih := stripNL_base64Raw rest
    simp only [stripNL] at ih ⊢
    simp only [base64Raw, List.filter_cons]
    have hx := x.toNat_lt; have hy := y.toNat_lt; have hz := z.toNat_lt
    rw [if_pos (b64Char_notNL _ (by omega)), if_pos (b64Char_notNL _ (by omega)), if_pos (b64Char_notNL _ (by omega)),
      if_pos (b64Char_notNL _ (by omega)), ih]
  | [x, y] => by
    simp only [stripNL, base64Raw, List.filter_cons, List.filter_nil]
    have hx := x.toNat_lt; have hy := y.toNat_lt
    rw [if_pos (b64Char_notNL _ (by omega)), if_pos (b64Char_notNL _ (by omega)), if_pos (b64Char_notNL _ (by omega))]
  | [x] => by
    simp only [stripNL, base64Raw, List.filter_cons, List.filter_nil]
    have hx := x.toNat_lt
    rw [if_pos (b64Char_notNL _ (by omega)), if_pos (b64Char_notNL _ (by omega))]
  | [] => rfl

theorem decodeB64_base64Raw (b : Bytes) : decodeB64 (base64Raw b) = some b := by
  simp only [decodeB64, stripNL_base64Raw, unbase64Raw_base64Raw]

end Ipld.Json
