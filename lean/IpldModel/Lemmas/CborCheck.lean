/-
  Correctness of the executable verifier `Spec.denotesCheck` against the relation `Spec.Denotes`.
-/
import IpldModel.Spec.CborDenotes
import IpldModel.Lemmas.CborDecHead
namespace Ipld
namespace Cbor
open Spec

theorem beValS_eq : (a : Bytes) → Spec.beValS a = beVal a
  | [] => rfl
  | b :: bs => by simp only [Spec.beValS, beVal, beValS_eq bs]

theorem stripPrefix_iff : (p bs r : Bytes) → (Spec.stripPrefix p bs = some r ↔ bs = p ++ r)
  | [], bs, r => by simp [Spec.stripPrefix]
  | _ :: _, [], r => by simp [Spec.stripPrefix]
  | p :: ps, b :: bs, r => by
    simp only [Spec.stripPrefix, List.cons_append, List.cons.injEq]
    by_cases h : p = b
    · simp only [h, if_true, true_and]; exact stripPrefix_iff ps bs r
    · simp only [h, if_false]
      constructor
      · intro h'; cases h'
      · intro h'; exact absurd h'.1.symm h

theorem stripPrefix_append (p r : Bytes) : Spec.stripPrefix p (p ++ r) = some r :=
  (stripPrefix_iff p (p ++ r) r).2 rfl

/-! ### duplicate keys: the Bool check vs `Nodup` -/

theorem noDupKeysIn_sound : (es : DMKVs) → (seen : List Bytes) → es.noDupKeysIn seen = true →
    es.keys.Nodup ∧ ∀ k, k ∈ es.keys → k ∉ seen
  | .nil, seen, _ => by simp [DMKVs.keys, DMKVs.toList]
  | .cons k v es, seen, h => by
    simp only [DMKVs.noDupKeysIn, Bool.and_eq_true, Bool.not_eq_true', List.contains_eq_mem,
      decide_eq_false_iff_not] at h
    obtain ⟨⟨h1, _⟩, h3⟩ := h
    obtain ⟨ih1, ih2⟩ := noDupKeysIn_sound es (k :: seen) h3
    simp only [DMKVs.keys, DMKVs.toList, List.map_cons, List.nodup_cons, List.mem_cons] at ih1 ih2 ⊢
    refine ⟨⟨?_, ih1⟩, ?_⟩
    · intro hk; exact ih2 k hk (Or.inl rfl)
    · intro k' hk'
      rcases hk' with rfl | hk'
      · exact h1
      · intro hs; exact ih2 k' hk' (Or.inr hs)

/-- every value of the entry list has no duplicate keys anywhere -/
def valsNoDup : DMKVs → Prop
  | .nil => True
  | .cons _ v es => v.noDupKeys = true ∧ valsNoDup es

theorem noDupKeysIn_complete : (es : DMKVs) → (seen : List Bytes) → es.keys.Nodup →
    (∀ k, k ∈ es.keys → k ∉ seen) → valsNoDup es → es.noDupKeysIn seen = true
  | .nil, _, _, _, _ => rfl
  | .cons k v es, seen, hnd, hs, hv => by
    simp only [DMKVs.keys, DMKVs.toList, List.map_cons, List.nodup_cons, List.mem_cons] at hnd hs
    simp only [DMKVs.noDupKeysIn, Bool.and_eq_true, Bool.not_eq_true', List.contains_eq_mem,
      decide_eq_false_iff_not]
    refine ⟨⟨hs k (Or.inl rfl), hv.1⟩, ?_⟩
    apply noDupKeysIn_complete es (k :: seen) hnd.2 _ hv.2
    intro k' hk' hm
    rcases List.mem_cons.1 hm with rfl | hm
    · exact hnd.1 hk'
    · exact hs k' (Or.inr hk') hm

mutual
theorem denotes_noDupKeys : (v : DM) → (bs : Bytes) → Spec.Denotes v bs → v.noDupKeys = true
  | .null, _, _ => rfl
  | .bool _, _, _ => rfl
  | .int _, _, _ => rfl
  | .float _, _, _ => rfl
  | .str _, _, _ => rfl
  | .bytes _, _, _ => rfl
  | .link _, _, _ => rfl
  | .list xs, bs, h => by
    simp only [Spec.Denotes] at h
    obtain ⟨body, _, hb⟩ := h
    simp only [DM.noDupKeys]
    exact denotesList_noDupKeys xs body hb
  | .map es, bs, h => by
    simp only [Spec.Denotes] at h
    obtain ⟨hnd, body, _, hb⟩ := h
    simp only [DM.noDupKeys]
    exact noDupKeysIn_complete es [] hnd (by intro k _ hm; cases hm) (denotesKVs_valsNoDup es body hb)
theorem denotesList_noDupKeys : (xs : DMs) → (bs : Bytes) → Spec.DenotesList xs bs → xs.noDupKeys = true
  | .nil, _, _ => rfl
  | .cons x xs, bs, h => by
    simp only [Spec.DenotesList] at h
    obtain ⟨b1, b2, _, h1, h2⟩ := h
    simp only [DMs.noDupKeys, Bool.and_eq_true]
    exact ⟨denotes_noDupKeys x b1 h1, denotesList_noDupKeys xs b2 h2⟩
theorem denotesKVs_valsNoDup : (es : DMKVs) → (bs : Bytes) → Spec.DenotesKVs es bs → valsNoDup es
  | .nil, _, _ => trivial
  | .cons k v es, bs, h => by
    simp only [Spec.DenotesKVs] at h
    obtain ⟨b1, b2, _, h1, h2⟩ := h
    exact ⟨denotes_noDupKeys v b1 h1, denotesKVs_valsNoDup es b2 h2⟩
end

/-! ### floats -/

theorem be_beVal_take (n : Nat) (r : Bytes) (h : ¬ r.length < n) :
    Spec.be n (beVal (r.take n)) = r.take n := by
  have hl : (r.take n).length = n := by simp [List.length_take]; omega
  have := beBytes_beVal (r.take n)
  rw [hl] at this
  rw [spec_be_eq]; exact this

theorem checkFloat_sound (f : UInt64) (bs r : Bytes) (h : Spec.checkItem (.float f) bs = some r) :
    ∃ b1, bs = b1 ++ r ∧ Spec.Denotes (.float f) b1 := by
  simp only [Spec.checkItem] at h
  split at h
  · cases h
  · rename_i hfin
    have hfin : finite64 f.toNat := Classical.not_not.1 hfin
    simp only [Spec.Denotes]
    split at h
    · rename_i r'
      split at h
      · cases h
      · rename_i hl
        split at h
        · rename_i hv
          injection h with h
          subst h
          refine ⟨0xfb :: r'.take 8, by simp [List.take_append_drop], hfin, Or.inl ?_⟩
          rw [← hv, beValS_eq, be_beVal_take 8 r' hl]
        · cases h
    · rename_i r'
      split at h
      · cases h
      · rename_i hl
        split at h
        · rename_i hv
          injection h with h
          subst h
          refine ⟨0xfa :: r'.take 4, by simp [List.take_append_drop], hfin, Or.inr (Or.inl ?_)⟩
          refine ⟨beVal (r'.take 4), ?_, ?_, ?_⟩
          · have := beVal_lt (r'.take 4)
            have hl' : (r'.take 4).length = 4 := by simp [List.length_take]; omega
            rw [hl'] at this; omega
          · rw [← beValS_eq]; exact hv
          · rw [be_beVal_take 4 r' hl]
        · cases h
    · rename_i r'
      split at h
      · cases h
      · rename_i hl
        split at h
        · rename_i hv
          injection h with h
          subst h
          refine ⟨0xf9 :: r'.take 2, by simp [List.take_append_drop], hfin, Or.inr (Or.inr ?_)⟩
          refine ⟨beVal (r'.take 2), ?_, ?_, ?_⟩
          · have := beVal_lt (r'.take 2)
            have hl' : (r'.take 2).length = 2 := by simp [List.length_take]; omega
            rw [hl'] at this; omega
          · rw [← beValS_eq]; exact hv
          · rw [be_beVal_take 2 r' hl]
        · cases h
    · cases h

theorem be_length (w n : Nat) : (Spec.be w n).length = w := by rw [spec_be_eq, beBytes_length]

theorem beValS_be (w n : Nat) (h : n < 256 ^ w) : Spec.beValS (Spec.be w n) = n := by
  rw [beValS_eq, spec_be_eq, beVal_beBytes, Nat.mod_eq_of_lt h]

theorem checkFloat_complete (f : UInt64) (b1 r : Bytes) (h : Spec.Denotes (.float f) b1) :
    Spec.checkItem (.float f) (b1 ++ r) = some r := by
  simp only [Spec.Denotes, Spec.FloatBytes] at h
  obtain ⟨hfin, h⟩ := h
  simp only [Spec.checkItem, hfin, not_true, if_false]
  rcases h with rfl | ⟨w, hw, hf, rfl⟩ | ⟨w, hw, hf, rfl⟩
  · have hl := be_length 8 f.toNat
    have hlt : f.toNat < 256 ^ 8 := f.toNat_lt
    simp only [List.cons_append]
    simp [hl, beValS_be 8 _ hlt]
  · have hl := be_length 4 w
    have hlt : w < 256 ^ 4 := by omega
    simp only [List.cons_append]
    simp [hl, beValS_be 4 _ hlt, hf]
  · have hl := be_length 2 w
    have hlt : w < 256 ^ 2 := by omega
    simp only [List.cons_append]
    simp [hl, beValS_be 2 _ hlt, hf]

/-! ### soundness -/

theorem bind_eq_some' {α β : Type} {o : Option α} {f : α → Option β} {b : β}
    (h : o.bind f = some b) : ∃ a, o = some a ∧ f a = some b := by
  cases o with
  | none => cases h
  | some a => exact ⟨a, rfl, h⟩

mutual
theorem checkItem_sound : (v : DM) → (bs r : Bytes) → Spec.checkItem v bs = some r →
    ∃ b1, bs = b1 ++ r ∧ Spec.Denotes v b1
  | .null, bs, r, h => by
    simp only [Spec.checkItem] at h
    split at h
    · rename_i b r'
      split at h
      · rename_i hb
        injection h with h; subst h
        refine ⟨[b], rfl, ?_⟩
        simp only [Spec.Denotes, List.cons.injEq, and_true]; exact hb
      · cases h
    · cases h
  | .bool b, bs, r, h => by
    simp only [Spec.checkItem] at h
    exact ⟨_, (stripPrefix_iff _ _ _).1 h, by simp only [Spec.Denotes]⟩
  | .int i, bs, r, h => by
    simp only [Spec.checkItem] at h
    split at h
    · rename_i h0
      split at h
      · rename_i h1
        exact ⟨_, (stripPrefix_iff _ _ _).1 h, by simp only [Spec.Denotes]; exact Or.inl ⟨h0, h1, trivial⟩⟩
      · cases h
    · rename_i h0
      split at h
      · rename_i h1
        exact ⟨_, (stripPrefix_iff _ _ _).1 h, by
          simp only [Spec.Denotes]; exact Or.inr ⟨by omega, h1, trivial⟩⟩
      · cases h
  | .float f, bs, r, h => checkFloat_sound f bs r h
  | .str s, bs, r, h => by
    simp only [Spec.checkItem] at h
    exact ⟨_, (stripPrefix_iff _ _ _).1 h, by simp only [Spec.Denotes]⟩
  | .bytes s, bs, r, h => by
    simp only [Spec.checkItem] at h
    exact ⟨_, (stripPrefix_iff _ _ _).1 h, by simp only [Spec.Denotes]⟩
  | .link c, bs, r, h => by
    simp only [Spec.checkItem] at h
    split at h
    · rename_i hc
      exact ⟨_, (stripPrefix_iff _ _ _).1 h, by simp only [Spec.Denotes]; exact ⟨hc, trivial⟩⟩
    · cases h
  | .list xs, bs, r, h => by
    simp only [Spec.checkItem] at h
    obtain ⟨r1, h1, h2⟩ := bind_eq_some' h
    have e1 := (stripPrefix_iff _ _ _).1 h1
    obtain ⟨body, e2, hd⟩ := checkList_sound xs r1 r h2
    refine ⟨Spec.shortestHead 4 xs.length ++ body, ?_, ?_⟩
    · rw [e1, e2, List.append_assoc]
    · simp only [Spec.Denotes]; exact ⟨body, rfl, hd⟩
  | .map es, bs, r, h => by
    simp only [Spec.checkItem] at h
    split at h
    · rename_i hnd
      obtain ⟨r1, h1, h2⟩ := bind_eq_some' h
      have e1 := (stripPrefix_iff _ _ _).1 h1
      obtain ⟨body, e2, hd⟩ := checkKVs_sound es r1 r h2
      refine ⟨Spec.shortestHead 5 es.length ++ body, ?_, ?_⟩
      · rw [e1, e2, List.append_assoc]
      · simp only [Spec.Denotes]; exact ⟨(noDupKeysIn_sound es [] hnd).1, body, rfl, hd⟩
    · cases h
theorem checkList_sound : (xs : DMs) → (bs r : Bytes) → Spec.checkList xs bs = some r →
    ∃ b1, bs = b1 ++ r ∧ Spec.DenotesList xs b1
  | .nil, bs, r, h => by
    simp only [Spec.checkList] at h
    injection h with h; subst h
    exact ⟨[], rfl, by simp only [Spec.DenotesList]⟩
  | .cons x xs, bs, r, h => by
    simp only [Spec.checkList] at h
    obtain ⟨r1, h1, h2⟩ := bind_eq_some' h
    obtain ⟨b1, e1, d1⟩ := checkItem_sound x bs r1 h1
    obtain ⟨b2, e2, d2⟩ := checkList_sound xs r1 r h2
    refine ⟨b1 ++ b2, ?_, ?_⟩
    · rw [e1, e2, List.append_assoc]
    · simp only [Spec.DenotesList]; exact ⟨b1, b2, rfl, d1, d2⟩
theorem checkKVs_sound : (es : DMKVs) → (bs r : Bytes) → Spec.checkKVs es bs = some r →
    ∃ b1, bs = b1 ++ r ∧ Spec.DenotesKVs es b1
  | .nil, bs, r, h => by
    simp only [Spec.checkKVs] at h
    injection h with h; subst h
    exact ⟨[], rfl, by simp only [Spec.DenotesKVs]⟩
  | .cons k v es, bs, r, h => by
    simp only [Spec.checkKVs] at h
    obtain ⟨r2, h12, h3⟩ := bind_eq_some' h
    obtain ⟨r1, h1, h2⟩ := bind_eq_some' h12
    have e0 := (stripPrefix_iff _ _ _).1 h1
    obtain ⟨b1, e1, d1⟩ := checkItem_sound v r1 r2 h2
    obtain ⟨b2, e2, d2⟩ := checkKVs_sound es r2 r h3
    refine ⟨(Spec.shortestHead 3 k.length ++ k) ++ (b1 ++ b2), ?_, ?_⟩
    · rw [e0, e1, e2]; simp only [List.append_assoc]
    · simp only [Spec.DenotesKVs]; exact ⟨b1, b2, rfl, d1, d2⟩
end

theorem denotesCheck_sound (v : DM) (bs : Bytes) : Spec.denotesCheck v bs = true → Spec.Denotes v bs := by
  intro h
  simp only [Spec.denotesCheck, beq_iff_eq] at h
  obtain ⟨b1, e, d⟩ := checkItem_sound v bs [] h
  rw [List.append_nil] at e
  rw [e]; exact d

/-! ### completeness -/

mutual
theorem checkItem_complete : (v : DM) → (b1 : Bytes) → Spec.Denotes v b1 →
    ∀ r, Spec.checkItem v (b1 ++ r) = some r
  | .null, b1, h, r => by
    simp only [Spec.Denotes] at h
    rcases h with rfl | rfl <;> simp [Spec.checkItem]
  | .bool b, b1, h, r => by
    simp only [Spec.Denotes] at h
    subst h
    simp only [Spec.checkItem]; exact stripPrefix_append _ _
  | .int i, b1, h, r => by
    simp only [Spec.Denotes] at h
    simp only [Spec.checkItem]
    rcases h with ⟨h0, h1, rfl⟩ | ⟨h0, h1, rfl⟩
    · rw [if_pos h0, if_pos h1]; exact stripPrefix_append _ _
    · rw [if_neg (by omega), if_pos h1]; exact stripPrefix_append _ _
  | .float f, b1, h, r => checkFloat_complete f b1 r h
  | .str s, b1, h, r => by
    simp only [Spec.Denotes] at h
    subst h
    simp only [Spec.checkItem]; exact stripPrefix_append _ _
  | .bytes s, b1, h, r => by
    simp only [Spec.Denotes] at h
    subst h
    simp only [Spec.checkItem]; exact stripPrefix_append _ _
  | .link c, b1, h, r => by
    simp only [Spec.Denotes] at h
    obtain ⟨hc, rfl⟩ := h
    simp only [Spec.checkItem]
    rw [if_pos hc]; exact stripPrefix_append _ _
  | .list xs, b1, h, r => by
    simp only [Spec.Denotes] at h
    obtain ⟨body, rfl, hd⟩ := h
    simp only [Spec.checkItem]
    rw [List.append_assoc, stripPrefix_append]
    exact checkList_complete xs body hd r
  | .map es, b1, h, r => by
    have hnd : es.noDupKeysIn [] = true := denotes_noDupKeys (.map es) b1 h
    simp only [Spec.Denotes] at h
    obtain ⟨_, body, rfl, hd⟩ := h
    simp only [Spec.checkItem]
    rw [if_pos hnd, List.append_assoc, stripPrefix_append]
    exact checkKVs_complete es body hd r
theorem checkList_complete : (xs : DMs) → (b1 : Bytes) → Spec.DenotesList xs b1 →
    ∀ r, Spec.checkList xs (b1 ++ r) = some r
  | .nil, b1, h, r => by
    simp only [Spec.DenotesList] at h
    subst h; rfl
  | .cons x xs, b1, h, r => by
    simp only [Spec.DenotesList] at h
    obtain ⟨a1, a2, rfl, d1, d2⟩ := h
    simp only [Spec.checkList]
    rw [List.append_assoc, checkItem_complete x a1 d1 (a2 ++ r)]
    exact checkList_complete xs a2 d2 r
theorem checkKVs_complete : (es : DMKVs) → (b1 : Bytes) → Spec.DenotesKVs es b1 →
    ∀ r, Spec.checkKVs es (b1 ++ r) = some r
  | .nil, b1, h, r => by
    simp only [Spec.DenotesKVs] at h
    subst h; rfl
  | .cons k v es, b1, h, r => by
    simp only [Spec.DenotesKVs] at h
    obtain ⟨a1, a2, rfl, d1, d2⟩ := h
    simp only [Spec.checkKVs]
    rw [List.append_assoc (Spec.shortestHead 3 k.length ++ k), stripPrefix_append]
    simp only [Option.bind_some]
    rw [List.append_assoc, checkItem_complete v a1 d1 (a2 ++ r)]
    exact checkKVs_complete es a2 d2 r
end

theorem denotesCheck_complete (v : DM) (bs : Bytes) : Spec.Denotes v bs → Spec.denotesCheck v bs = true := by
  intro h
  have := checkItem_complete v bs h []
  rw [List.append_nil] at this
  simp only [Spec.denotesCheck, this, beq_self_eq_true]

theorem denotesCheck_iff (v : DM) (bs : Bytes) : Spec.denotesCheck v bs = true ↔ Spec.Denotes v bs :=
  ⟨denotesCheck_sound v bs, denotesCheck_complete v bs⟩

end Cbor
end Ipld
