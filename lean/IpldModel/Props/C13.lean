/-
  C13 — generated code (schema/gen/go) against the reflection binding: what the schema model says about
  `Engine.gen`.  The differential run of go/internal/checks/c13.go found five deviations of the generated
  builders, each a named flag of `Engine` (`tupleShortAccepted`, `prefixEmptyDelimSplit`,
  `kindedNullRejected`, `keyAsmDupMapKey`, `assignNodeSkipsBegin`); four of them have since been repaired in
  /repo, so `Engine.gen` is `Engine.ideal` plus the one remaining flag `keyAsmDupMapKey`.  The theorems below
  pin that down, show that nothing else separates `gen` from `ideal` / `bindnode`, characterise the
  deviations that can be stated without induction over the input (null, empty tuple, unallocated slots) for
  an ARBITRARY engine carrying the flag, replay the minimal witness of every flag inside the kernel (on
  `Engine.gen` for the flag it still has, on `{ Engine.ideal with <flag> := true }` for the repaired ones),
  and make C09 speak about generated code: with its flags cleared a generated builder IS the ideal builder
  however it is driven (`build_with_flags_cleared`, `gen_with_flags_cleared_accepts_iff_conforms`), and as
  it is it already accepts everything the ideal builder accepts (`gen_accepts_what_ideal_accepts`).
-/
import IpldModel.Model.Schema
import IpldModel.Lemmas.SchemaEngineEq
import IpldModel.Lemmas.SchemaSeal
import IpldModel.Props.C09
namespace Ipld.Props.C13
open Ipld Ipld.Schema

/-- The deviations of generated code, by name: exactly this one flag is set. -/
theorem gen_flags :
    (Engine.gen.flags.filter (fun f => f.2.1)).map (·.1) = ["keyAsmDupMapKey"] := by
  decide

/-- Nothing else separates generated code from the ideal builders: with that flag cleared it IS `ideal`
    (and therefore `bindnode`, whose flags are all off). -/
theorem gen_cleared_is_ideal : { Engine.gen with keyAsmDupMapKey := false } = Engine.ideal := by
  decide

theorem bindnode_is_ideal : Engine.bindnode = Engine.ideal := rfl

/-- The two plan-dependent flags are inert unless the builder is driven that way: `gen` itself is driven through
    `AssembleEntry` with `Begin*` called. -/
theorem gen_plan : Engine.gen.viaKeys = false ∧ Engine.gen.viaNode = false := ⟨rfl, rfl⟩

/-- `kindedNullRejected`, in full: an engine with the flag accepts null exactly in a nullable slot that is not a
    kinded union seen at representation level ... -/
theorem kindedNullRejected_null (e : Engine) (h : e.kindedNullRejected = true) (lvl : Level) (ty : Ty) (nul : Bool)
    (cur : Option TL) :
    build e lvl ty nul cur .null
      = if nul && !(lvl == Level.repr && isKinded ty) then .ok .null else .reject := by
  simp [build, h]

/-- ... and an engine without it exactly in a nullable slot, like the ideal one. -/
theorem no_kindedNullRejected_null (e : Engine) (h : e.kindedNullRejected = false) (lvl : Level) (ty : Ty)
    (nul : Bool) (cur : Option TL) :
    build e lvl ty nul cur .null = if nul then .ok .null else .reject :=
  build_null_off e h lvl ty nul cur

/-- Generated code (the kinded `AssignNull` repaired) treats null as the ideal builder does. -/
theorem gen_null (lvl : Level) (ty : Ty) (nul : Bool) (cur : Option TL) :
    build Engine.gen lvl ty nul cur .null = if nul then .ok .null else .reject :=
  no_kindedNullRejected_null _ rfl lvl ty nul cur

theorem ideal_null (lvl : Level) (ty : Ty) (nul : Bool) (cur : Option TL) :
    build Engine.ideal lvl ty nul cur .null = if nul then .ok .null else .reject :=
  no_kindedNullRejected_null _ rfl lvl ty nul cur

/-- `tupleShortAccepted` at the empty list, any engine with the flag: nothing is checked, every field reads its
    zero value (an optional one Absent). -/
theorem tupleShortAccepted_empty (e : Engine) (h : e.tupleShortAccepted = true) (fs : List Field) (st : SSt)
    (i : Nat) : buildTuple e fs st i .nil = st.finishZero fs := by
  simp [buildTuple, h]

/-- `assignNodeSkipsBegin` acts only when the builder is driven by `AssignNode` of prebuilt nodes, only with the flag,
    and only on a slot that is a `Maybe`. -/
theorem nilSlot_needs_node_plan (e : Engine) (lvl : Level) (m : Bool) (ty : Ty) (d : DM) (h : e.viaNode = false) :
    nilSlotAssign e lvl m ty d = none := by
  simp [nilSlotAssign, h]

theorem nilSlot_needs_flag (e : Engine) (lvl : Level) (m : Bool) (ty : Ty) (d : DM) (h : e.assignNodeSkipsBegin = false) :
    nilSlotAssign e lvl m ty d = none := by
  simp [nilSlotAssign, h]

theorem nilSlot_needs_maybe (e : Engine) (lvl : Level) (ty : Ty) (d : DM) :
    nilSlotAssign e lvl false ty d = none := by
  simp [nilSlotAssign]

/-- ... and never on a scalar input: only map and list nodes are iterated by `AssignNode`. -/
theorem nilSlot_scalar (e : Engine) (lvl : Level) (m : Bool) (ty : Ty) (d : DM) (h : isScalar d = true) :
    nilSlotAssign e lvl m ty d = none := by
  unfold nilSlotAssign
  split
  · rfl
  · cases d <;> simp_all [isScalar] <;> cases ty <;> rfl

/-- Generated code as it is never decides a slot ahead of its builder, however it is driven. -/
theorem gen_nilSlot (viaKeys viaNode : Bool) (lvl : Level) (m : Bool) (ty : Ty) (d : DM) :
    nilSlotAssign { Engine.gen with viaKeys := viaKeys, viaNode := viaNode } lvl m ty d = none :=
  nilSlot_needs_flag _ lvl m ty d rfl

/-- `strings.SplitN(s, "", 2)` on ASCII text: one byte and the rest, if there is a rest. -/
theorem splitFirstRune_ascii (a b : UInt8) (rest : Bytes) (h : a < 0x80) :
    splitFirstRune (a :: b :: rest) = some ([a], b :: rest) := by
  simp [splitFirstRune, firstRuneWidth, h]

theorem splitFirstRune_short (a : UInt8) (h : a < 0x80) : splitFirstRune [a] = none ∧ splitFirstRune [] = none := by
  simp [splitFirstRune, firstRuneWidth, h]

/-- An accepted value that holds the unreadable marker is a panic; any other outcome is untouched. -/
theorem seal_ok (v : TL) (h : v.broken = false) : (Outcome.ok v).seal = .ok v := by
  simp [Outcome.seal, h]

theorem seal_reject : (Outcome.reject : Outcome TL).seal = .reject := rfl

/-! ### The witnesses of known_findings.json, inside the model

  `keyAsmDupMapKey` is still a flag of `Engine.gen`; the other four were repaired in /repo, their witnesses are
  replayed on the ideal engine with that one flag set (what the generator of the pinned commit did). -/

private def tupA : Ty := .struct (.cons [0x61] [0x61] false false .int .nil) .tuple

/-- `C13/gen-tupleShortAccepted` (repaired): `[]` for `struct {a Int} representation tuple` built `{a: 0}`;
    ideal - and generated code now - refuses. -/
theorem witness_tupleShortAccepted :
    buildSealed { Engine.ideal with tupleShortAccepted := true } .repr tupA (.list .nil)
        = .ok (.map (.cons [0x61] (.int 0) .nil))
    ∧ buildSealed Engine.ideal .repr tupA (.list .nil) = .reject
    ∧ buildSealed Engine.gen .repr tupA (.list .nil) = .reject := by
  decide

private def tupL : Ty := .struct (.cons [0x61] [0x61] false false .link .nil) .tuple

/-- ... and where the zero value cannot be read back (a nil link) the accepted node is unreadable: `build` says `ok`,
    the sealed outcome is a panic.  This is the one way `tupleShortAccepted` panics; `build` itself never does
    (C09 `never_panics_without_panic_flags` has no hypothesis on it). -/
theorem witness_tupleShortAccepted_unreadable :
    build { Engine.ideal with tupleShortAccepted := true } .repr tupL false none (.list .nil)
        = .ok (.map (.cons [0x61] TL.unreadable .nil))
    ∧ buildSealed { Engine.ideal with tupleShortAccepted := true } .repr tupL (.list .nil) = .panic
    ∧ buildSealed Engine.ideal .repr tupL (.list .nil) = .reject := by
  decide

private def prefAA : Ty := .union (.cons [0x54, 0x31] [0x61, 0x61] .str .str .nil) (.stringprefix [])

/-- `C13/gen-prefixEmptyDelimSplit` (repaired): "aax" for discriminant "aa" without delimiter. -/
theorem witness_prefixEmptyDelimSplit :
    buildSealed { Engine.ideal with prefixEmptyDelimSplit := true } .repr prefAA (.str [0x61, 0x61, 0x78]) = .reject
    ∧ buildSealed Engine.ideal .repr prefAA (.str [0x61, 0x61, 0x78]) = .ok (.map (.cons [0x54, 0x31] (.str [0x78]) .nil))
    ∧ buildSealed Engine.gen .repr prefAA (.str [0x61, 0x61, 0x78]) = .ok (.map (.cons [0x54, 0x31] (.str [0x78]) .nil)) := by
  decide

private def listKinded : Ty := .list (.union (.cons [0x54, 0x32] [0x54, 0x32] .int .int .nil) .kinded) true

/-- `C13/gen-kindedNullRejected` (repaired): `[null]` for a list of nullable kinded unions. -/
theorem witness_kindedNullRejected :
    buildSealed { Engine.ideal with kindedNullRejected := true } .repr listKinded (.list (.cons .null .nil)) = .reject
    ∧ buildSealed Engine.ideal .repr listKinded (.list (.cons .null .nil)) = .ok (.list (.cons .null .nil))
    ∧ buildSealed Engine.gen .repr listKinded (.list (.cons .null .nil)) = .ok (.list (.cons .null .nil)) := by
  decide

private def kk : DM := .map (.cons [0x6b] (.int 1) (.cons [0x6b] (.int 2) .nil))

/-- `C13/gen-keyAsmDupMapKey`: `{k:1, k:2}` through the key assembler; through `AssembleEntry` it is refused. -/
theorem witness_keyAsmDupMapKey :
    buildSealed { Engine.gen with viaKeys := true } .type (.map .int false) kk
        = .ok (.map (.cons [0x6b] (.int 1) (.cons [0x6b] (.int 2) .nil)))
    ∧ buildSealed Engine.gen .type (.map .int false) kk = .reject
    ∧ buildSealed { Engine.ideal with viaKeys := true } .type (.map .int false) kk = .reject := by
  decide

/-- `C13/gen-assignNodeSkipsBegin` (repaired): a prebuilt `{k:1}` handed to a typed map by `AssignNode`; the flag
    needs the driving mode, the driving mode needs the flag. -/
theorem witness_assignNodeSkipsBegin :
    buildSealed { Engine.ideal with assignNodeSkipsBegin := true, viaNode := true } .type (.map .int false)
        (.map (.cons [0x6b] (.int 1) .nil)) = .panic
    ∧ buildSealed { Engine.ideal with assignNodeSkipsBegin := true } .type (.map .int false)
        (.map (.cons [0x6b] (.int 1) .nil)) = .ok (.map (.cons [0x6b] (.int 1) .nil))
    ∧ buildSealed { Engine.ideal with viaNode := true } .type (.map .int false) (.map (.cons [0x6b] (.int 1) .nil))
        = .ok (.map (.cons [0x6b] (.int 1) .nil))
    ∧ buildSealed { Engine.gen with viaNode := true } .type (.map .int false) (.map (.cons [0x6b] (.int 1) .nil))
        = .ok (.map (.cons [0x6b] (.int 1) .nil)) := by
  decide

/-! ### C09 for generated code -/

/-- `Engine.flags` lists all sixteen deviation flags (the driving modes `viaKeys`, `viaNode` are not deviations and
    not listed): "every listed flag is off" is "each of the sixteen fields is `false`". -/
theorem flags_off_iff (e : Engine) :
    e.flags.all (fun f => !f.2.1) = true ↔
      (e.dupStructField = false ∧ e.reuseSlot = false ∧ e.dupMapKey = false ∧ e.unionMulti = false ∧
       e.renameFallback = false ∧ e.discFallback = false ∧ e.enumTypeAnyString = false ∧
       e.enumNameAtRepr = false ∧ e.nullableUnionPanic = false ∧ e.lpShortPair = false ∧
       e.lpUnknownKeyPanic = false ∧ e.tupleShortAccepted = false ∧ e.prefixEmptyDelimSplit = false ∧
       e.kindedNullRejected = false ∧ e.keyAsmDupMapKey = false ∧ e.assignNodeSkipsBegin = false) := by
  simp only [Engine.flags, List.all_cons, List.all_nil, Bool.and_true, Bool.and_eq_true, Bool.not_eq_true']

/-- **build_with_flags_cleared.**  An engine whose sixteen flags (the eleven of the reflection binding and the five of
    generated code) are all off builds what the ideal engine builds - every level, type, slot and input - in ANY
    driving mode: `viaKeys` and `viaNode` only ever matter together with `keyAsmDupMapKey` / `assignNodeSkipsBegin`. -/
theorem build_with_flags_cleared (e : Engine) (h : e.flags.all (fun f => !f.2.1) = true) (lvl : Level) (ty : Ty)
    (nul : Bool) (cur : Option TL) (d : DM) :
    build e lvl ty nul cur d = build Engine.ideal lvl ty nul cur d :=
  build_of_flags_off e h lvl ty nul cur d

/-- The strongest form behind it: two engines that agree on the fourteen flags read on their own and on the two
    combinations `keyAsmDupMapKey && viaKeys`, `viaNode && assignNodeSkipsBegin` build the same thing from every
    input (`Engine.Same`; the flags and the driving modes are read nowhere else). -/
theorem build_depends_only_on (e e' : Engine) (h : e.Same e') (lvl : Level) (ty : Ty) (nul : Bool)
    (cur : Option TL) (d : DM) : build e lvl ty nul cur d = build e' lvl ty nul cur d :=
  build_congr e e' h d lvl ty nul cur

/-- Generated code with its flag cleared, driven in any mode, satisfies the hypothesis. -/
theorem gen_cleared_flags_off (viaKeys viaNode : Bool) :
    ({ Engine.gen with keyAsmDupMapKey := false, viaKeys := viaKeys, viaNode := viaNode } : Engine).flags.all
      (fun f => !f.2.1) = true := by
  cases viaKeys <;> cases viaNode <;> decide

/-- ... and so does generated code as it is, as long as it is not driven through the key assembler: the one flag
    it has left is inert without `viaKeys`. -/
theorem gen_is_ideal_without_viaKeys (viaNode : Bool) (lvl : Level) (ty : Ty) (nul : Bool) (cur : Option TL)
    (d : DM) :
    build { Engine.gen with viaNode := viaNode } lvl ty nul cur d = build Engine.ideal lvl ty nul cur d :=
  build_congr { Engine.gen with viaNode := viaNode } Engine.ideal
    ⟨rfl, rfl, rfl, rfl, rfl, rfl, rfl, rfl, rfl, rfl, rfl, rfl, rfl, rfl, rfl, by simp [Engine.gen, Engine.ideal]⟩
    d lvl ty nul cur

/-- **gen_with_flags_cleared_accepts_iff_conforms.**  C09-2/3 for generated code once its flags are off: for a
    well-formed type and any engine with all sixteen flags off, in any driving mode and any slot,
    the type-level builder accepts exactly the conforming trees and builds the normalised input, rejecting
    (an error - not a panic, not a node) everything else; the representation-level builder accepts exactly the
    trees that conform at representation level; neither ever panics; and whatever either builds conforms. -/
theorem gen_with_flags_cleared_accepts_iff_conforms (e : Engine) (h : e.flags.all (fun f => !f.2.1) = true)
    (ty : Ty) (nul : Bool) (d : DM) (hwf : ty.wf = true) :
    (build e .type ty nul none d =
        if conforms ty nul (TL.ofDM d) = true then .ok (normalize ty (TL.ofDM d)) else .reject) ∧
    ((build e .type ty nul none d).isOk = true ↔ conforms ty nul (TL.ofDM d) = true) ∧
    ((build e .repr ty nul none d).isOk = true ↔ conformsRepr ty nul d = true) ∧
    (∀ lvl, build e lvl ty nul none d ≠ .panic) ∧
    (∀ lvl v, build e lvl ty nul none d = .ok v → conforms ty nul v = true) := by
  refine ⟨?_, ?_, ?_, ?_, ?_⟩
  · rw [build_with_flags_cleared e h]; exact C09.ofType_eq ty nul d hwf
  · rw [build_with_flags_cleared e h, C09.ofType_eq ty nul d hwf]
    split <;> simp_all
  · rw [build_with_flags_cleared e h, C09.ofRepr_isOk_eq ty nul d hwf]
  · intro lvl
    rw [build_with_flags_cleared e h]; exact C09.ideal_never_panics lvl ty nul none d
  · intro lvl v hv
    rw [build_with_flags_cleared e h] at hv; exact C09.built_conforms lvl ty nul d v hwf hv

/-- What the ideal builder of a well-formed type builds conforms, hence can be read back in full: sealing
    (`buildSealed`, what the differential run observes) changes nothing. -/
theorem ideal_sealed (lvl : Level) (ty : Ty) (d : DM) (hwf : ty.wf = true) :
    buildSealed Engine.ideal lvl ty d = build Engine.ideal lvl ty false none d :=
  Outcome.seal_of_conforms _ ty false (fun v hv => C09.built_conforms lvl ty false d v hwf hv)

/-- ... so the sealed outcome of an engine with all sixteen flags off, in any driving mode, is the ideal outcome. -/
theorem buildSealed_with_flags_cleared (e : Engine) (h : e.flags.all (fun f => !f.2.1) = true) (lvl : Level)
    (ty : Ty) (d : DM) (hwf : ty.wf = true) :
    buildSealed e lvl ty d = build Engine.ideal lvl ty false none d := by
  unfold buildSealed
  rw [build_with_flags_cleared e h]
  exact ideal_sealed lvl ty d hwf

/-- The root builders of generated code with its flag cleared (`ofType` / `ofRepr`), in any driving mode. -/
theorem gen_cleared_root_builders (viaKeys viaNode : Bool) (ty : Ty) (d : DM) (hwf : ty.wf = true) :
    let e : Engine := { Engine.gen with keyAsmDupMapKey := false, viaKeys := viaKeys, viaNode := viaNode }
    ((ofType e ty d).isOk = true ↔ conforms ty false (TL.ofDM d) = true) ∧
    ((ofRepr e ty d).isOk = true ↔ conformsRepr ty false d = true) := by
  intro e
  have := gen_with_flags_cleared_accepts_iff_conforms e (gen_cleared_flags_off viaKeys viaNode) ty false d hwf
  exact ⟨this.2.1, this.2.2.1⟩

/-- **gen_accepts_what_ideal_accepts.**  Generated code AS IT IS (flag `keyAsmDupMapKey` set), in any driving mode:
    whatever the ideal builder accepts it accepts, with the same node, and it never panics - its remaining deviation
    only shows on input the ideal builder refuses (a repeated map key through the key assembler,
    `witness_keyAsmDupMapKey`). -/
theorem gen_accepts_what_ideal_accepts (viaKeys viaNode : Bool) (lvl : Level) (ty : Ty) (nul : Bool) (d : DM) :
    let e : Engine := { Engine.gen with viaKeys := viaKeys, viaNode := viaNode }
    (∀ v, build Engine.ideal lvl ty nul none d = .ok v → build e lvl ty nul none d = .ok v) ∧
    build e lvl ty nul none d ≠ .panic := by
  intro e
  have ha : (e.viaNode && e.assignNodeSkipsBegin) = false := by simp [e, Engine.gen]
  exact ⟨fun v hv => C09.accepted_by_every_engine e rfl rfl rfl ha lvl ty nul d v hv,
         C09.never_panics_without_panic_flags e rfl rfl ha lvl ty nul none d⟩

end Ipld.Props.C13
