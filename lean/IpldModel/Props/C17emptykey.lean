/-
  C17 (companion) — `Has` at the one point `path_contained` (Props/C17.lean) had to exclude: the EMPTY key.
  Its escaped form is empty, so its path ends in an empty component, which `filepath.Join` drops: the path of the empty
  key is a shard DIRECTORY.  `os.Stat` finds directories as well as files, so `Has("")` answered `true` as soon as any
  key whose escaped form is at most two characters had been stored (run against the pinned tree: so it did; repaired
  in fed1c5b: a directory is not a stored block).  Here: a model of `Stat` over a tree of files (directories are the
  proper prefixes of file paths), the two versions of `Has`, and the theorem that the repaired one is exactly
  "this key was stored" for EVERY key, the empty one included - with the old one refuted on a concrete tree.
  Property theorems only (helper lemmas inline are about `joined` only).
-/
import IpldModel.Model.Store
import IpldModel.Lemmas.Base32
import IpldModel.Lemmas.StorePath
import IpldModel.Props.C17
namespace Ipld.Props.C17
open Ipld Ipld.Store

/-- `filepath.Join`: empty elements are ignored -/
def joined (p : List Bytes) : List Bytes := p.filter (fun c => !c.isEmpty)

inductive StatRes where
  | file
  | dir
  | absent
  deriving DecidableEq, Repr

/-- `os.Stat` of a path below the base directory, on a tree that holds exactly the files of `fs`: a file path is found as
    a file, a proper prefix of a file path as a directory. -/
def stat (fs : Files) (p : List Bytes) : StatRes :=
  if fs.any (fun e => joined e.1 == p) then .file
  else if fs.any (fun e => decide (p.length < (joined e.1).length) && ((joined e.1).take p.length == p)) then .dir
  else .absent

/-- `Has` as it was: whatever `Stat` finds -/
def hasOld (esc : Bytes → Bytes) (sh : Sharder) (fs : Files) (k : Bytes) : Bool :=
  stat fs (joined (pathForKey esc sh k)) != .absent

/-- `Has` since fed1c5b: a directory is never a stored block -/
def hasNew (esc : Bytes → Bytes) (sh : Sharder) (fs : Files) (k : Bytes) : Bool :=
  stat fs (joined (pathForKey esc sh k)) == .file

/-- what `Put` leaves behind: files at the paths of NON-EMPTY keys (it refuses the empty key) -/
def Stored (sh : Sharder) (fs : Files) : Prop := ∀ e ∈ fs, ∃ k, k ≠ [] ∧ e.1 = pathForKey b32Std sh k

theorem joined_of_nonempty {p : List Bytes} (h : ∀ c ∈ p, c ≠ []) : joined p = p := by
  unfold joined
  rw [List.filter_eq_self]
  intro c hc
  have := h c hc
  cases c with
  | nil => exact absurd rfl this
  | cons _ _ => rfl

/-- the path of a non-empty key has no empty component: `Join` leaves it alone -/
theorem joined_path {n : Nat} {sh : Sharder} (hb : Bundled n sh) (k : Bytes) (hk : k ≠ []) :
    joined (pathForKey b32Std sh k) = pathForKey b32Std sh k :=
  joined_of_nonempty (fun c hc => (safeComponent_safe c (path_contained hb k hk c hc)).1)

/-- the path of the empty key, joined, is made of shard directory names only: no file of a non-empty key is there -/
theorem emptyKey_path_is_no_file {n : Nat} {sh : Sharder} (hb : Bundled n sh) (k : Bytes) (hk : k ≠ []) :
    pathForKey b32Std sh k ≠ joined (pathForKey b32Std sh []) := by
  intro e
  have hn : 0 < n := by cases hb <;> omega
  obtain ⟨pre, hpre, hparts⟩ := sharder_shape hb (b32Std [])
  have hb0 : b32Std [] = [] := by decide
  -- every component of the empty key's joined path is `zeros n`
  have hj : joined (pathForKey b32Std sh []) = pre := by
    unfold pathForKey
    rw [hpre, hb0]
    unfold joined
    rw [List.filter_append]
    have : List.filter (fun c : Bytes => !c.isEmpty) [([] : Bytes)] = [] := by decide
    rw [this, List.append_nil, List.filter_eq_self]
    intro c hc
    rcases hparts c hc with rfl | ⟨lo, hi, _, hhi, hle⟩
    · cases n with
      | zero => omega
      | succ m => rfl
    · rw [hb0] at hle; simp at hle; omega
  have hall : ∀ c ∈ pre, c = zeros n := by
    intro c hc
    rcases hparts c hc with h | ⟨lo, hi, _, hhi, hle⟩
    · exact h
    · rw [hb0] at hle; simp at hle; omega
  -- but the last component of a non-empty key's path is its base32 form
  have hlast := sharder_last hb (b32Std k)
  have hlast' : (pathForKey b32Std sh k).getLast? = some (b32Std k) := hlast
  rw [e, hj] at hlast'
  have hmem : b32Std k ∈ pre := List.mem_of_getLast? hlast'
  have hz := hall _ hmem
  have hne := b32_nonempty k hk
  -- `zeros n` is made of '0', which is not in the base32 alphabet
  cases hbk : b32Std k with
  | nil => exact hne hbk
  | cons c cs =>
    have hc : isB32Char c = true := b32_alphabet k c (by rw [hbk]; exact List.mem_cons_self)
    have hc0 : c = 0x30 := by
      have : c ∈ zeros n := by rw [← hz, hbk]; exact List.mem_cons_self
      unfold zeros at this
      exact (List.mem_replicate.1 this).2
    rw [hc0] at hc
    exact absurd hc (by decide)

/-- on a tree that `Put` made, a file is at the (joined) path of key `k` exactly when `k` was stored - for every `k` -/
theorem file_at_path_iff {n : Nat} {sh : Sharder} (hb : Bundled n sh) (fs : Files) (hs : Stored sh fs) (k : Bytes) :
    fs.any (fun e => joined e.1 == joined (pathForKey b32Std sh k)) = (fsGet b32Std sh fs k).isSome := by
  induction fs with
  | nil => simp [fsGet, Files.read]
  | cons e r ih =>
    have hs' : Stored sh r := fun x hx => hs x (List.mem_cons_of_mem _ hx)
    obtain ⟨k0, hk0, he⟩ := hs e List.mem_cons_self
    have ih' := ih hs'
    unfold fsGet at ih' ⊢
    obtain ⟨p, v⟩ := e
    simp only at he
    subst he
    simp only [List.any_cons, Files.read, ih']
    by_cases hk : k = []
    · subst hk
      have h1 : (joined (pathForKey b32Std sh k0) == joined (pathForKey b32Std sh [])) = false := by
        rw [joined_path hb k0 hk0]
        exact beq_false_of_ne (emptyKey_path_is_no_file hb k0 hk0)
      have h2 : ¬ pathForKey b32Std sh k0 = pathForKey b32Std sh [] := fun x => hk0 (path_inj hb _ _ x)
      simp [h1, h2]
    · rw [joined_path hb k0 hk0, joined_path hb k hk]
      by_cases hp : pathForKey b32Std sh k0 = pathForKey b32Std sh k
      · simp [hp]
      · simp [hp]

/-- **has_iff_stored**: the repaired `Has` answers `true` exactly for the keys that were stored - every key, the empty
    one included (for which the answer is always `false`: `Put` refuses it). -/
theorem has_iff_stored {n : Nat} {sh : Sharder} (hb : Bundled n sh) (fs : Files) (hs : Stored sh fs) (k : Bytes) :
    hasNew b32Std sh fs k = (fsGet b32Std sh fs k).isSome := by
  unfold hasNew stat
  rw [file_at_path_iff hb fs hs k]
  cases (fsGet b32Std sh fs k).isSome
  · simp only [Bool.false_eq_true, if_false]
    split <;> decide
  · simp

theorem has_empty_key_false {n : Nat} {sh : Sharder} (hb : Bundled n sh) (fs : Files) (hs : Stored sh fs) :
    hasNew b32Std sh fs [] = false := by
  rw [has_iff_stored hb fs hs]
  have : fsGet b32Std sh fs [] = none := by
    unfold fsGet
    induction fs with
    | nil => rfl
    | cons e r ih =>
      obtain ⟨k0, hk0, he⟩ := hs e List.mem_cons_self
      have hne : ¬ e.1 = pathForKey b32Std sh [] := fun x => hk0 (path_inj hb _ _ (he ▸ x))
      simp only [Files.read, hne, if_false]
      exact ih (fun x hx => hs x (List.mem_cons_of_mem _ hx))
  rw [this]; rfl

/-! The old `Has` is refuted on the smallest tree: one stored one-byte key ("k" ↦ base32 "NM", shard directory "00"). -/
def exTree : Files := [(pathForKey b32Std shardR12 [0x6b], [1, 2, 3])]

example : pathForKey b32Std shardR12 [0x6b] = [zeros 2, [0x4e, 0x4d]] := by decide
example : joined (pathForKey b32Std shardR12 []) = [zeros 2] := by decide
example : stat exTree (joined (pathForKey b32Std shardR12 [])) = .dir := by decide
example : hasOld b32Std shardR12 exTree [] = true := by decide      -- the defect: a key never stored, reported present
example : hasNew b32Std shardR12 exTree [] = false := by decide
example : hasNew b32Std shardR12 exTree [0x6b] = true := by decide
example : Stored shardR12 exTree := by
  intro e he
  simp only [exTree, List.mem_singleton] at he
  exact ⟨[0x6b], by decide, by rw [he]⟩

end Ipld.Props.C17
