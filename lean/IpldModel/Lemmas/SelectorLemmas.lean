/-
  Lemmas about selectors: `explore` never reaches the Go panic unless called on a bare edge, compilation
  never panics, union matching is first-match.
-/
import IpldModel.Model.Selector
namespace Ipld
namespace Sel

theorem isEdge_iff (s : S) : s.isEdge = true ↔ s = .edge := by
  cases s <;> simp [S.isEdge]

theorem isEdge_false_iff (s : S) : s.isEdge = false ↔ s ≠ .edge := by
  cases s <;> simp [S.isEdge]

mutual
theorem explore_no_panic : (s : S) → s ≠ .edge → ∀ n p, explore s n p ≠ .error .panic
  | .matcher _, _, _, _ => by simp [explore]
  | .all _, _, _, _ => by simp [explore]
  | .fields _, _, _, _ => by simp [explore]
  | .index i nx, _, n, p => by
    cases n <;> simp only [explore, ne_eq, reduceCtorEq, not_false_eq_true]
    split <;> (try split) <;> simp
  | .range a b nx, _, n, p => by
    cases n <;> simp only [explore, ne_eq, reduceCtorEq, not_false_eq_true]
    split <;> (try split) <;> simp
  | .union ms, _, n, p => by
    have ih := exploreList_no_panic ms n p
    simp only [explore]
    cases h : exploreList ms n p with
    | error e => cases e <;> simp_all [bind, Except.bind]
    | ok rs => simp only [bind, Except.bind]; split <;> simp [pure, Except.pure]
  | .recursive sq cur limit stopAt, _, n, p => by
    simp only [explore]
    split
    · rename_i e h3
      intro hp
      split at h3
      · simp at h3
      · split at h3
        · simp at h3; subst h3; simp at hp
        · simp at h3
    · simp
    · split
      · simp
      · rename_i hc
        have ih := explore_no_panic cur (by simpa [isEdge_iff] using hc) n p
        split
        · rename_i h; exact absurd h ih
        · simp
        · simp
        · split
          · simp
          · split
            · split <;> simp
            · simp
  | .edge, h, _, _ => absurd rfl h
  | .interpretAs _ _, _, _, _ => by simp [explore]
theorem exploreList_no_panic : (ms : SList) → ∀ n p, exploreList ms n p ≠ .error .panic
  | .nil, _, _ => by simp [exploreList]
  | .cons s r, n, p => by
    have ihr := exploreList_no_panic r n p
    simp only [exploreList]
    split
    · exact ihr
    · rename_i hs
      have ihs := explore_no_panic s (by simpa [isEdge_iff] using hs) n p
      cases h1 : explore s n p with
      | error e => cases e <;> simp_all [bind, Except.bind]
      | ok a =>
        cases h2 : exploreList r n p with
        | error e => cases e <;> simp_all [bind, Except.bind]
        | ok b => simp [bind, Except.bind, pure, Except.pure]
end

theorem interests_edge : interests .edge = some [] := by simp [interests]

@[irreducible] def NoPanic {α} (x : CR α) : Prop := x ≠ .error .panic

theorem NoPanic.bind {α β} {x : CR α} {f : α → CR β} (hx : NoPanic x) (hf : ∀ a, NoPanic (f a)) :
    NoPanic (x >>= f) := by
  cases x with
  | error e => cases e <;> unfold NoPanic at * <;> simp_all [ Bind.bind, Except.bind]
  | ok a => exact hf a

theorem NoPanic.ok {α} (a : α) : NoPanic (Except.ok a : CR α) := by (unfold NoPanic; simp)
theorem NoPanic.pure {α} (a : α) : NoPanic (Pure.pure a : CR α) := by (unfold NoPanic; simp [Pure.pure, Except.pure])
theorem NoPanic.reject {α} : NoPanic (Except.error .reject : CR α) := by (unfold NoPanic; simp)

theorem parseLimit_noPanic (n : DM) : NoPanic (parseLimit n) := by
  unfold parseLimit
  split
  · split
    · split <;> (unfold NoPanic; simp)
    · split <;> (unfold NoPanic; simp)
  · (unfold NoPanic; simp)

theorem parseCondition_noPanic (n : DM) : NoPanic (parseCondition n) := by
  unfold parseCondition
  split
  · split
    · split <;> (unfold NoPanic; simp)
    · (unfold NoPanic; simp)
  · (unfold NoPanic; simp)

theorem compile_noPanic_all (fuel : Nat) :
    (∀ inRec n, NoPanic (compile fuel inRec n)) ∧ (∀ inRec l, NoPanic (compileList fuel inRec l)) ∧
    (∀ inRec l, NoPanic (compileFields fuel inRec l)) := by
  induction fuel with
  | zero =>
    refine ⟨?_, ?_, ?_⟩ <;> intros <;> (unfold NoPanic; simp [compile, compileList, compileFields])
  | succ fuel ih =>
    obtain ⟨ihA, ihL, ihF⟩ := ih
    refine ⟨?_, ?_, ?_⟩
    · intro inRec n
      unfold compile
      repeat' split
      all_goals repeat' first
        | exact NoPanic.reject
        | exact NoPanic.ok _
        | exact NoPanic.pure _
        | exact parseLimit_noPanic _
        | exact parseCondition_noPanic _
        | exact ihA _ _
        | exact ihL _ _
        | exact ihF _ _
        | apply NoPanic.bind
        | intro (_ : _ × _)
        | intro (_ : Option Int)
        | intro (_ : Bytes)
        | split
    · intro inRec l
      cases l with
      | nil => rw [compileList]; exact NoPanic.ok _
      | cons x xs =>
        rw [compileList]
        apply NoPanic.bind (ihA _ _); intro a
        apply NoPanic.bind (ihL _ _); intro b
        exact NoPanic.pure _
    · intro inRec l
      cases l with
      | nil => rw [compileFields]; exact NoPanic.ok _
      | cons k v es =>
        rw [compileFields]
        apply NoPanic.bind (ihA _ _); intro a
        apply NoPanic.bind (ihF _ _); intro b
        exact NoPanic.pure _


theorem compile_no_panic (fuel inRec : Nat) (n : DM) : compile fuel inRec n ≠ .error .panic := by
  have := (compile_noPanic_all fuel).1 inRec n
  unfold NoPanic at this; exact this

theorem compileSelector_no_panic (n : DM) : compileSelector n ≠ .error .panic := by
  unfold compileSelector
  have := compile_no_panic (2 * n.size + 2) 0 n
  cases h : compile (2 * n.size + 2) 0 n with
  | error e => cases e <;> simp_all [Except.map]
  | ok a => simp [Except.map]

/-! ### unions, recursion limit -/

theorem matchList_eq_findSome : (ms : SList) → (n : DM) →
    matchList ms n = ms.toList.findSome? (fun s => matchNode s n)
  | .nil, _ => by simp [matchList, SList.toList]
  | .cons s r, n => by
    simp only [matchList, SList.toList, List.findSome?_cons]
    cases matchNode s n with
    | some m => rfl
    | none => exact matchList_eq_findSome r n

theorem matchNode_union (ms : SList) (n : DM) :
    matchNode (.union ms) n = ms.toList.findSome? (fun s => matchNode s n) := by
  rw [matchNode, matchList_eq_findSome]

theorem exploreList_all_edges : (ms : SList) → (∀ s ∈ ms.toList, s = .edge) → ∀ n p, exploreList ms n p = .ok []
  | .nil, _, _, _ => by simp [exploreList]
  | .cons s r, h, n, p => by
    have hs : s = .edge := h s (by simp [SList.toList])
    subst hs
    simp only [exploreList, S.isEdge, if_true]
    exact exploreList_all_edges r (fun x hx => h x (by simp [SList.toList, hx])) n p

theorem explore_union_all_edges (ms : SList) (h : ∀ s ∈ ms.toList, s = .edge) (n : DM) (p : Seg) :
    explore (.union ms) n p = .ok none := by
  simp [explore, exploreList_all_edges ms h n p, bind, Except.bind, pure, Except.pure]

theorem hasEdgeList_ofList (l : List S) : hasEdgeList (SList.ofList l) = l.any hasEdge := by
  induction l with
  | nil => simp [SList.ofList, hasEdgeList]
  | cons x xs ih => simp [SList.ofList, hasEdgeList, ih]

mutual
theorem replaceEdge_none_noEdge : (s : S) → (r : S) → replaceEdge none s = some r → hasEdge r = false
  | .edge, r, h => by simp [replaceEdge] at h
  | .union ms, r, h => by
    have ih := replaceEdgeList_none_noEdge ms
    simp only [replaceEdge] at h
    split at h
    · cases h
    · rename_i x hx
      cases h
      exact ih r (by rw [hx]; simp)
    · cases h
      rw [hasEdge, hasEdgeList_ofList]
      rw [Bool.eq_false_iff]
      intro hc
      obtain ⟨x, hx, hxe⟩ := List.any_eq_true.1 hc
      rw [ih x hx] at hxe; cases hxe
  | .matcher _, r, h => by simp [replaceEdge] at h; subst h; simp [hasEdge]
  | .all _, r, h => by simp [replaceEdge] at h; subst h; simp [hasEdge]
  | .fields _, r, h => by simp [replaceEdge] at h; subst h; simp [hasEdge]
  | .index _ _, r, h => by simp [replaceEdge] at h; subst h; simp [hasEdge]
  | .range _ _ _, r, h => by simp [replaceEdge] at h; subst h; simp [hasEdge]
  | .recursive _ _ _ _, r, h => by simp [replaceEdge] at h; subst h; simp [hasEdge]
  | .interpretAs _ _, r, h => by simp [replaceEdge] at h; subst h; simp [hasEdge]
theorem replaceEdgeList_none_noEdge : (ms : SList) → ∀ x ∈ replaceEdgeList none ms, hasEdge x = false
  | .nil, x, hx => by simp [replaceEdgeList] at hx
  | .cons s r, x, hx => by
    have ihr := replaceEdgeList_none_noEdge r
    simp only [replaceEdgeList] at hx
    split at hx
    · rename_i y hy
      rcases List.mem_cons.1 hx with rfl | hx
      · exact replaceEdge_none_noEdge s _ hy
      · exact ihr x hx
    · exact ihr x hx
end

/-- with a depth limit below 2, exploring a recursive clause either stays inside the current pass (same limit,
    nothing substituted) or returns an edge-free selector outside any recursion wrapper -/
theorem explore_recursive_last_pass (sq cur : S) (d : Int) (hd : d < 2) (stop : Option Bytes) (n : DM) (p : Seg)
    (r : S) (h : explore (.recursive sq cur (some d) stop) n p = .ok (some r)) :
    ∃ nx, explore cur n p = .ok (some nx) ∧
      ((hasEdge nx = false ∧ r = .recursive sq nx (some d) stop) ∨
       (hasEdge nx = true ∧ replaceEdge none nx = some r ∧ hasEdge r = false)) := by
  simp only [explore] at h
  split at h
  · cases h
  · cases h
  · split at h
    · cases h
    · split at h
      · cases h
      · cases h
      · cases h
      · rename_i nx hx
        refine ⟨nx, hx, ?_⟩
        split at h
        · rename_i he
          left
          simp only [Except.ok.injEq, Option.some.injEq] at h
          exact ⟨by simpa using he, h.symm⟩
        · rename_i he
          simp only [Except.ok.injEq] at h
          right
          exact ⟨by simpa using he, h, replaceEdge_none_noEdge nx r h⟩

end Sel
end Ipld
