package core

import (
	"bufio"
	"encoding/json"
	"fmt"
	"os"
	"os/exec"
	"path/filepath"
	"sort"
	"strconv"
	"strings"
	"sync"
	"time"
)

// VerifDir is /verif (overridable for self-tests only through VERIF_DIR).
func VerifDir() string {
	if d := os.Getenv("VERIF_DIR"); d != "" {
		return d
	}
	return "/verif"
}

func RepoDir() string {
	if d := os.Getenv("VERIF_REPO"); d != "" {
		return d
	}
	return "/repo"
}

// ProofStatus is written by the ./vcheck shell driver after regenerating the facts and building the
// property's theorems (build/<id>/proof.json).
type ProofStatus struct {
	OK          bool                `json:"ok"`
	Obligations int                 `json:"obligations"`
	Discharged  int                 `json:"discharged"`
	Theorems    map[string][]string `json:"theorems"` // theorem -> axioms
	Failed      []string            `json:"failed"`   // theorems / modules that no longer check
	LogTail     string              `json:"log_tail"`
	CheckerCmd  string              `json:"checker_cmd"`
	Generated   []string            `json:"generated"` // generated fact files this property depends on
}

type Finding struct {
	Property  string `json:"property"`
	Signature string `json:"signature"`
	Status    string `json:"status"` // known | fixed
	Commit    string `json:"commit,omitempty"`
	Witness   string `json:"witness"`
	What      string `json:"what"`
}

type Ctx struct {
	Prop     string
	Tier     string // quick | thorough
	Seed     uint64
	Start    time.Time
	Rand     *Rand
	Proof    ProofStatus
	Findings []Finding

	mu            sync.Mutex
	evaluations   int
	distinct      map[string]struct{}
	samples       []any
	dist          map[string]int
	knownFired    map[string]string // signature -> example
	violations    int
	violationSigs map[string]bool
	quiet         bool
	traces        int
	Rule          string
	Explanation   string
	Assumptions   []string
	Extra         map[string]any
	replayCase    string // when replaying
}

func NewCtx(prop, tier string) *Ctx {
	seed := uint64(1)
	if s := os.Getenv("VERIF_SEED"); s != "" {
		if v, err := strconv.ParseUint(s, 10, 64); err == nil {
			seed = v
		}
	}
	c := &Ctx{Prop: prop, Tier: tier, Seed: seed, Start: time.Now(), Rand: NewRand(seed, prop),
		distinct: map[string]struct{}{}, dist: map[string]int{}, knownFired: map[string]string{},
		violationSigs: map[string]bool{}, Extra: map[string]any{}}
	// proof status
	if b, err := os.ReadFile(filepath.Join(VerifDir(), "build", prop, "proof.json")); err == nil {
		_ = json.Unmarshal(b, &c.Proof)
	}
	// known findings
	if b, err := os.ReadFile(filepath.Join(VerifDir(), "known_findings.json")); err == nil {
		var all struct {
			Findings []Finding `json:"findings"`
		}
		if err := json.Unmarshal(b, &all); err == nil {
			for _, f := range all.Findings {
				if f.Property == prop {
					c.Findings = append(c.Findings, f)
				}
			}
		}
	}
	return c
}

func (c *Ctx) Thorough() bool { return c.Tier == "thorough" }

// Pick returns q for the quick tier and t for the thorough tier.
func (c *Ctx) Pick(q, t int) int {
	if c.Thorough() {
		return t
	}
	return q
}

// Count records one evaluated case. key identifies the canonical case (for distinct counting);
// nontrivial says whether it is non-trivial by the property's rule.
func (c *Ctx) Count(key string, nontrivial bool) {
	c.mu.Lock()
	c.evaluations++
	if nontrivial {
		if len(c.distinct) < 5_000_000 {
			c.distinct[key] = struct{}{}
		}
	}
	c.mu.Unlock()
}

func (c *Ctx) Trace(n int) { c.mu.Lock(); c.traces += n; c.mu.Unlock() }

func (c *Ctx) Dist(bucket string) { c.mu.Lock(); c.dist[bucket]++; c.mu.Unlock() }

func (c *Ctx) Sample(s any) {
	c.mu.Lock()
	if len(c.samples) < 12 {
		c.samples = append(c.samples, s)
	}
	c.mu.Unlock()
}

func (c *Ctx) knownSig(sig string) *Finding {
	for i := range c.Findings {
		if c.Findings[i].Signature == sig && c.Findings[i].Status == "known" {
			return &c.Findings[i]
		}
	}
	return nil
}

// Replay describes a failing case, self-contained.
type Replay struct {
	Property  string `json:"property"`
	Signature string `json:"signature"`
	Kind      string `json:"kind"` // oracle | correspondence | proof | tie
	Case      string `json:"case"` // line-protocol case (re-executable with ./vcheck replay)
	Impl      string `json:"impl,omitempty"`
	Model     string `json:"model,omitempty"`
	Expected  string `json:"expected,omitempty"`
	Detail    string `json:"detail,omitempty"`
	Theorem   string `json:"theorem,omitempty"`
	Seed      uint64 `json:"seed"`
	Tier      string `json:"tier"`
}

// Fail reports a failing case of the property oracle (or of the correspondence) with signature sig.
// A signature listed as `known` in known_findings.json prints KNOWN-FINDING once and does not fail the run.
func (c *Ctx) Fail(sig string, rp Replay) {
	c.mu.Lock()
	defer c.mu.Unlock()
	if f := c.knownSig(sig); f != nil {
		if _, ok := c.knownFired[sig]; !ok {
			c.knownFired[sig] = rp.Case
			fmt.Printf("KNOWN-FINDING: property=%s %s [%s] e.g. %s\n", c.Prop, f.What, sig, truncate(rp.Case, 200))
		}
		c.dist["known:"+sig]++
		return
	}
	c.violations++
	if c.violationSigs[sig] {
		return // one replay per signature is enough
	}
	c.violationSigs[sig] = true
	if c.quiet {
		return
	}
	rp.Property, rp.Signature, rp.Seed, rp.Tier = c.Prop, sig, c.Seed, c.Tier
	dir := filepath.Join(VerifDir(), "build", c.Prop, "replays")
	_ = os.MkdirAll(dir, 0o755)
	name := fmt.Sprintf("%s-%s-%d.json", c.Prop, sanitize(sig), len(c.violationSigs))
	if w := os.Getenv("VERIF_WORKER"); w != "" {
		name = fmt.Sprintf("%s-%s-w%s-%d.json", c.Prop, sanitize(sig), w, len(c.violationSigs))
	}
	path := filepath.Join(dir, name)
	b, _ := json.MarshalIndent(rp, "", " ")
	_ = os.WriteFile(path, b, 0o644)
	suffix := ""
	if rp.Case == "" {
		suffix = " no-failing-input-found"
	}
	fmt.Printf("VIOLATION property=%s replay=%s%s\n", c.Prop, path, suffix)
	fmt.Printf("  signature=%s kind=%s\n  case=%s\n  impl=%s\n  model=%s\n  expected=%s\n  %s\n", sig, rp.Kind, truncate(rp.Case, 400), truncate(rp.Impl, 300), truncate(rp.Model, 300), truncate(rp.Expected, 300), truncate(rp.Detail, 400))
}

// Fired reports whether a violation with this signature was reported in this run.
func (c *Ctx) Fired(sig string) bool { c.mu.Lock(); defer c.mu.Unlock(); return c.violationSigs[sig] }

// Quiet makes Fail record violations without printing or writing replay files (replay by re-running a seed).
func (c *Ctx) Quiet() { c.quiet = true }

func (c *Ctx) Violations() int { c.mu.Lock(); defer c.mu.Unlock(); return c.violations }

func sanitize(s string) string {
	return strings.Map(func(r rune) rune {
		if (r >= 'a' && r <= 'z') || (r >= 'A' && r <= 'Z') || (r >= '0' && r <= '9') || r == '-' || r == '_' {
			return r
		}
		return '_'
	}, s)
}

func truncate(s string, n int) string {
	if len(s) > n {
		return s[:n] + "…"
	}
	return s
}

// KnownWitnessStillFails is called by a check after replaying the witness of a known finding.
func (c *Ctx) KnownWitness(sig string, stillFails bool, witness string) {
	c.mu.Lock()
	defer c.mu.Unlock()
	f := c.knownSig(sig)
	if f == nil {
		return
	}
	if stillFails {
		if _, ok := c.knownFired[sig]; !ok {
			c.knownFired[sig] = witness
			fmt.Printf("KNOWN-FINDING: property=%s %s [%s] witness %s\n", c.Prop, f.What, sig, truncate(witness, 200))
		}
	} else {
		c.dist["known-witness-no-longer-fails:"+sig]++
	}
}

// WriteEvidence writes evidence/<id>.json (EVIDENCE.schema.json).
func (c *Ctx) WriteEvidence() error {
	c.mu.Lock()
	defer c.mu.Unlock()
	cov := map[string]any{
		"evaluations":                   c.evaluations,
		"distinct_nontrivial":           len(c.distinct),
		"rule":                          c.Rule,
		"samples":                       c.samples,
		"traces_validated_against_impl": c.traces,
		"obligations":                   c.Proof.Obligations,
		"discharged":                    c.Proof.Discharged,
		"checker_cmd":                   c.Proof.CheckerCmd,
		"trusted_base": []string{
			"Lean 4.33.0 kernel; axioms per theorem listed under theorem_axioms (allowed: propext, Classical.choice, Quot.sound)",
			"go/translate fact extractors (regenerated from /repo on this run) and the go/vcheck correspondence harness",
			"hand-written Lean models tied to the code only by the correspondence sampling reported here",
		},
		"explanation":        c.Explanation,
		"theorem_axioms":     c.Proof.Theorems,
		"generated_facts":    c.Proof.Generated,
		"proof_build_ok":     c.Proof.OK,
		"distribution":       sortedDist(c.dist),
		"known_findings_hit": c.knownFired,
	}
	for k, v := range c.Extra {
		cov[k] = v
	}
	if len(c.samples) == 0 {
		cov["samples"] = []any{"(none)"}
	}
	ev := map[string]any{
		"property_id": c.Prop,
		"tier":        c.Tier,
		"seed":        c.Seed,
		"level":       "proof",
		"coverage":    cov,
		"assumptions": c.Assumptions,
		"wall_s":      time.Since(c.Start).Seconds(),
		"violations":  c.violations,
	}
	dir := filepath.Join(VerifDir(), "evidence")
	_ = os.MkdirAll(dir, 0o755)
	b, err := json.MarshalIndent(ev, "", " ")
	if err != nil {
		return err
	}
	if out := os.Getenv("VERIF_EVIDENCE_OUT"); out != "" {
		return os.WriteFile(out, b, 0o644) // a worker of a thorough run: the parent merges
	}
	return os.WriteFile(filepath.Join(dir, c.Prop+".json"), b, 0o644)
}

// MergeEvidence combines the evidence files of the n workers of a thorough run (build/<id>/evidence.worker<i>.json)
// into evidence/<id>.json: counts and distributions are summed (cases are distinct across workers up to seed collisions,
// each worker counting distinct cases of its own seed), samples and static fields are taken from worker 0.
func MergeEvidence(prop, tier string, seed uint64, n int, dir string) error {
	var merged map[string]any
	sumKeys := []string{"evaluations", "distinct_nontrivial", "traces_validated_against_impl"}
	dist := map[string]float64{}
	known := map[string]any{}
	var wall, viol float64
	var seeds []any
	for i := 0; i < n; i++ {
		b, err := os.ReadFile(filepath.Join(dir, fmt.Sprintf("evidence.worker%d.json", i)))
		if err != nil {
			return err
		}
		var ev map[string]any
		if err := json.Unmarshal(b, &ev); err != nil {
			return err
		}
		cov, _ := ev["coverage"].(map[string]any)
		seeds = append(seeds, ev["seed"])
		if w, ok := ev["wall_s"].(float64); ok && w > wall {
			wall = w
		}
		if v, ok := ev["violations"].(float64); ok {
			viol += v
		}
		if d, ok := cov["distribution"].(map[string]any); ok {
			for k, v := range d {
				if f, ok := v.(float64); ok {
					dist[k] += f
				}
			}
		}
		if kf, ok := cov["known_findings_hit"].(map[string]any); ok {
			for k, v := range kf {
				known[k] = v
			}
		}
		if merged == nil {
			merged = ev
			continue
		}
		mcov := merged["coverage"].(map[string]any)
		for _, k := range sumKeys {
			a, _ := mcov[k].(float64)
			b2, _ := cov[k].(float64)
			mcov[k] = a + b2
		}
	}
	mcov := merged["coverage"].(map[string]any)
	mcov["distribution"] = dist
	mcov["known_findings_hit"] = known
	mcov["workers"] = n
	mcov["worker_seeds"] = seeds
	merged["seed"] = seed
	merged["wall_s"] = wall
	merged["violations"] = viol
	b, err := json.MarshalIndent(merged, "", " ")
	if err != nil {
		return err
	}
	edir := filepath.Join(VerifDir(), "evidence")
	_ = os.MkdirAll(edir, 0o755)
	return os.WriteFile(filepath.Join(edir, prop+".json"), b, 0o644)
}

func sortedDist(m map[string]int) map[string]int {
	// json.Marshal sorts map keys; copy to keep the lock discipline simple
	out := make(map[string]int, len(m))
	ks := make([]string, 0, len(m))
	for k := range m {
		ks = append(ks, k)
	}
	sort.Strings(ks)
	for _, k := range ks {
		out[k] = m[k]
	}
	return out
}

// ---------------------------------------------------------------------------------------------
// Lean driver

func driverPath() string {
	return filepath.Join(VerifDir(), "lean", ".lake", "build", "bin", "driver")
}

// RunDriver pipes lines to the Lean model driver and returns one answer per line.
// Work is split over several driver processes.
func RunDriver(lines []string) ([]string, error) {
	if len(lines) == 0 {
		return nil, nil
	}
	workers := 12
	if len(lines) < 2000 {
		workers = 1
	}
	out := make([]string, len(lines))
	chunk := (len(lines) + workers - 1) / workers
	var wg sync.WaitGroup
	errs := make([]error, workers)
	for w := 0; w < workers; w++ {
		lo, hi := w*chunk, (w+1)*chunk
		if lo >= len(lines) {
			break
		}
		if hi > len(lines) {
			hi = len(lines)
		}
		wg.Add(1)
		go func(w, lo, hi int) {
			defer wg.Done()
			errs[w] = runDriverOne(lines[lo:hi], out[lo:hi])
		}(w, lo, hi)
	}
	wg.Wait()
	for _, e := range errs {
		if e != nil {
			return nil, e
		}
	}
	return out, nil
}

func runDriverOne(lines []string, out []string) error {
	cmd := exec.Command(driverPath())
	stdin, err := cmd.StdinPipe()
	if err != nil {
		return err
	}
	stdout, err := cmd.StdoutPipe()
	if err != nil {
		return err
	}
	cmd.Stderr = os.Stderr
	if err := cmd.Start(); err != nil {
		return fmt.Errorf("cannot start Lean driver %s: %w", driverPath(), err)
	}
	go func() {
		w := bufio.NewWriterSize(stdin, 1<<20)
		for _, l := range lines {
			w.WriteString(l)
			w.WriteByte('\n')
		}
		w.Flush()
		stdin.Close()
	}()
	sc := bufio.NewScanner(stdout)
	sc.Buffer(make([]byte, 1<<20), 1<<28)
	i := 0
	for sc.Scan() {
		if i < len(out) {
			out[i] = sc.Text()
		}
		i++
	}
	if err := cmd.Wait(); err != nil {
		return fmt.Errorf("Lean driver failed: %w", err)
	}
	if i != len(lines) {
		return fmt.Errorf("Lean driver answered %d lines for %d cases", i, len(lines))
	}
	return nil
}

// ---------------------------------------------------------------------------------------------
// registry of checks

type Check struct {
	ID     string
	Run    func(c *Ctx) error              // the whole check for a tier
	Replay func(c *Ctx, rp Replay) error   // re-execute one case
	// BrokenProofSearch is run instead of (in addition to) Run when the proof obligations or the
	// regenerated facts no longer check: a directed search for a concrete failing input.
	Search func(c *Ctx) error
	// After runs once when the whole check (all workers) is over, in the process that is not a worker: housekeeping.
	After func()
}

var Checks = map[string]*Check{}

func Register(ch *Check) { Checks[ch.ID] = ch }

// Catch runs f and converts a panic into an error string (Go panics are observations, not crashes).
func Catch(f func() error) (err error, panicked bool, pv any) {
	defer func() {
		if r := recover(); r != nil {
			panicked = true
			pv = r
			err = fmt.Errorf("panic: %v", r)
		}
	}()
	return f(), false, nil
}
