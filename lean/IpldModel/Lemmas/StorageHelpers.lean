/-
  Lemmas about the storage helpers' model: what a successful run of writes leaves in the stream.
-/
import IpldModel.Model.StorageHelpers
namespace Ipld
namespace StoreHelp
open Ipld.Store

theorem writeAll_ok (st : Impl) : ∀ (pieces : List Bytes) (w w' : Stream), writeAll st w pieces = (w', true) →
    w'.buf = w.buf ++ pieces.flatten ∧ w'.own = w.own ∧ w'.used = w.used
  | [], w, w', h => by simp only [writeAll, Prod.mk.injEq] at h; rw [← h.1]; simp
  | b :: bs, w, w', h => by
    rw [writeAll] at h
    cases hw : w.write st b with
    | mk w1 ok =>
      rw [hw] at h
      cases ok with
      | false => simp at h
      | true =>
        have ih := writeAll_ok st bs w1 w' h
        unfold Stream.write at hw
        split at hw
        · simp at hw
        · simp only [Prod.mk.injEq, and_true] at hw
          rw [← hw] at ih
          simpa [List.append_assoc] using ih

/-- the store's own stream with a failing k-th write, k within the pieces: the loop stops with an error -/
theorem writeAll_fails (st : Impl) (k : Nat) (hk : st.failWrite = some k) : ∀ (pieces : List Bytes) (w : Stream),
    w.own = true → w.nwrites ≤ k → k < w.nwrites + pieces.length → (writeAll st w pieces).2 = false
  | [], w, _, h1, h2 => by simp at h2; omega
  | b :: bs, w, ho, h1, h2 => by
    rw [writeAll]
    by_cases he : w.nwrites = k
    · simp [Stream.write, ho, hk, he]
    · have hw : w.write st b = ({ w with buf := w.buf ++ b, nwrites := w.nwrites + 1 }, true) := by
        simp [Stream.write, ho, hk]; omega
      rw [hw]
      exact writeAll_fails st k hk bs _ ho (by simp; omega) (by simp at h2 ⊢; omega)

/-- a stream whose writes never fail takes every piece -/
theorem writeAll_nofail (st : Impl) (h : st.failWrite = none) : ∀ (pieces : List Bytes) (w : Stream), (writeAll st w pieces).2 = true
  | [], _ => rfl
  | b :: bs, w => by
    rw [writeAll]
    have hw : w.write st b = ({ w with buf := w.buf ++ b, nwrites := w.nwrites + 1 }, true) := by
      simp [Stream.write, h]
    rw [hw]
    exact writeAll_nofail st h bs _

/-- the helpers' buffer takes every piece -/
theorem writeAll_buffer (st : Impl) : ∀ (pieces : List Bytes) (w : Stream), w.own = false → (writeAll st w pieces).2 = true
  | [], _, _ => rfl
  | b :: bs, w, ho => by
    rw [writeAll]
    have hw : w.write st b = ({ w with buf := w.buf ++ b, nwrites := w.nwrites + 1 }, true) := by
      simp [Stream.write, ho]
    rw [hw]
    exact writeAll_buffer st bs _ ho

theorem putStream_fresh (st : Impl) (w : Stream) (h : putStream st = some w) : w.buf = [] ∧ w.used = false ∧ w.nwrites = 0 ∧ w.own = st.ownStream := by
  unfold putStream at h
  split at h
  · next ho => split at h <;> simp at h; rw [← h]; simp [ho]
  · next ho => simp at h; rw [← h]; simp at ho; simp [ho]

theorem commit_unused (st : Impl) (s : Kv) (w : Stream) (key : Bytes) (h : w.used = false) :
    (w.commit st s key).1 = put st s key w.buf := by
  simp [Stream.commit, h]

theorem put_cases (st : Impl) (s : Kv) (k v : Bytes) : put st s k v = (s, false) ∨ put st s k v = (s.put k v, true) := by
  unfold put; split <;> simp

end StoreHelp
end Ipld
