/-
  A decidable sufficient condition for the hypothesis of the walk / transform comparison: `alignedFrom cfg d root s`
  checks, position by position to depth `d`, that the two child enumerations pair up (`alignB`, a greedy pairing) and
  that `Match` agrees with `Decide`.  `Explore` reads a segment only through its text and its index (`explore_congr`),
  so the pairing may compare those instead of `Explore`'s answers.
-/
import IpldModel.Lemmas.WalkTransformMore
namespace Ipld
namespace WalkT
open Sel Walk Spec

theorem lookup_congr (n : DM) {a b : Seg} (h1 : a.toString = b.toString) (h2 : a.index = b.index) :
    lookupBySegment n a = lookupBySegment n b := by
  cases n <;> simp only [lookupBySegment, h1, h2]

mutual
theorem explore_congr {a b : Seg} (h1 : a.toString = b.toString) (h2 : a.index = b.index) :
    ∀ (s : S) (n : DM), explore s n a = explore s n b
  | .matcher _, _ => rfl
  | .all _, _ => rfl
  | .fields fs, _ => by simp only [explore, h1]
  | .index _ _, n => by cases n <;> simp only [explore, h2]
  | .range _ _ _, n => by cases n <;> simp only [explore, h2]
  | .union ms, n => by simp only [explore, exploreList_congr h1 h2 ms n]
  | .recursive sq cur limit stopAt, n => by
    simp only [explore, lookup_congr n h1 h2, explore_congr h1 h2 cur n]
  | .edge, _ => rfl
  | .interpretAs _ _, _ => rfl
theorem exploreList_congr {a b : Seg} (h1 : a.toString = b.toString) (h2 : a.index = b.index) :
    ∀ (ms : SList) (n : DM), exploreList ms n a = exploreList ms n b
  | .nil, _ => rfl
  | .cons s r, n => by
    simp only [exploreList, explore_congr h1 h2 s n, exploreList_congr h1 h2 r n]
end

/-- is `Explore`'s answer nil -/
def exploresNil (s : S) (n : DM) (p : Seg) : Bool :=
  match explore s n p with
  | .ok none => true
  | _ => false

theorem exploresNil_iff {s : S} {n : DM} {p : Seg} : exploresNil s n p = true ↔ explore s n p = .ok none := by
  unfold exploresNil
  split
  · rename_i h; simp [h]
  · rename_i h
    constructor
    · intro h'; cases h'
    · intro h'; exact absurd h' (h)

/-- greedy pairing of the walk's list with the transform's; `fuel` at least the sum of the lengths plus one -/
def alignB (n : DM) (s : S) : Nat → List (Seg × DM) → List (Seg × DM) → Bool
  | 0, _, _ => false
  | _ + 1, [], [] => true
  | fuel + 1, a :: lw, [] => exploresNil s n a.1 && alignB n s fuel lw []
  | fuel + 1, lw, b :: lt =>
    if !attended (interests s) b.1 || exploresNil s n b.1 then alignB n s fuel lw lt
    else match lw with
      | [] => false
      | a :: lw' =>
        if exploresNil s n a.1 then alignB n s fuel lw' (b :: lt)
        else a.1.toString == b.1.toString && a.1.index == b.1.index && a.2 == b.2 && alignB n s fuel lw' lt

theorem alignB_sound (n : DM) (s : S) : ∀ (fuel : Nat) (lw lt : List (Seg × DM)),
    alignB n s fuel lw lt = true → Align n s lw lt
  | 0, _, _, h => by simp [alignB] at h
  | fuel + 1, [], [], _ => .nil
  | fuel + 1, a :: lw, [], h => by
    simp only [alignB, Bool.and_eq_true] at h
    exact .passW (exploresNil_iff.1 h.1) (alignB_sound n s fuel lw [] h.2)
  | fuel + 1, [], b :: lt, h => by
    simp only [alignB] at h
    split at h
    · rename_i hc
      simp only [Bool.or_eq_true, Bool.not_eq_true'] at hc
      exact .passT (hc.imp id exploresNil_iff.1) (alignB_sound n s fuel [] lt h)
    · cases h
  | fuel + 1, a :: lw, b :: lt, h => by
    simp only [alignB] at h
    split at h
    · rename_i hc
      simp only [Bool.or_eq_true, Bool.not_eq_true'] at hc
      exact .passT (hc.imp id exploresNil_iff.1) (alignB_sound n s fuel (a :: lw) lt h)
    · rename_i hc
      simp only [Bool.or_eq_true, Bool.not_eq_true', not_or, Bool.not_eq_false] at hc
      split at h
      · rename_i ha
        exact .passW (exploresNil_iff.1 ha) (alignB_sound n s fuel lw (b :: lt) h)
      · simp only [Bool.and_eq_true, beq_iff_eq] at h
        obtain ⟨⟨⟨h1, h2⟩, h3⟩, h4⟩ := h
        exact .both h1 h3 hc.1 (explore_congr h1 h2 s n) (alignB_sound n s fuel lw lt h4)

/-- `Match` agrees with `Decide` (decidable form of `PlainMatch`) -/
def plainMatchB (s : S) (n : DM) : Bool := matchNode s n == if decideNode s n then some n else none

/-- the hypothesis of the comparison, checked position by position from `(n, s)` to depth `d` -/
def alignedFrom (cfg : Cfg) : Nat → DM → S → Bool
  | 0, _, _ => false
  | d + 1, n, s =>
    plainMatchB s n &&
    alignB n s ((childList n s).length + (children n).length + 1) (childList n s) (children n) &&
    (childList n s).all fun x =>
      match explore s n x.1 with
      | .ok (some sNext) =>
        match x.2 with
        | .link c =>
          cfg.skip.contains c ||
            match storeGet cfg.store c with
            | none => true
            | some blk => alignedFrom cfg d blk sNext
        | v => alignedFrom cfg d v sNext
      | _ => true

theorem alignedFrom_here {cfg : Cfg} {d : Nat} {n : DM} {s : S} (h : alignedFrom cfg (d + 1) n s = true) :
    AlignedAt n s ∧ PlainMatch s n := by
  simp only [alignedFrom, Bool.and_eq_true] at h
  obtain ⟨⟨h1, h2⟩, _⟩ := h
  refine ⟨(alignedAt_iff n s).2 (alignB_sound n s _ _ _ h2), ?_⟩
  unfold PlainMatch
  simpa [plainMatchB] using h1

theorem alignedFrom_reach {cfg : Cfg} {root : DM} {s0 : S} {d : Nat} (h0 : alignedFrom cfg d root s0 = true)
    {path : Path} {n : DM} {s : S} (h : Reach cfg root s0 path n s) : ∃ d', alignedFrom cfg (d' + 1) n s = true := by
  induction h with
  | root =>
    cases d with
    | zero => simp [alignedFrom] at h0
    | succ d => exact ⟨d, h0⟩
  | @child path n s ps v sNext _ hm hx hnl ih =>
    obtain ⟨d', hd⟩ := ih
    simp only [alignedFrom, Bool.and_eq_true, List.all_eq_true] at hd
    have := hd.2 (ps, v) hm
    simp only [hx] at this
    cases d' with
    | zero =>
      cases v <;> first | (exact absurd rfl (hnl _)) | (simp [alignedFrom] at this)
    | succ d' =>
      refine ⟨d', ?_⟩
      cases v <;> first | (exact absurd rfl (hnl _)) | exact this
  | @link path n s ps c blk sNext _ hm hx hs hk ih =>
    obtain ⟨d', hd⟩ := ih
    simp only [alignedFrom, Bool.and_eq_true, List.all_eq_true] at hd
    have := hd.2 (ps, .link c) hm
    simp only [hx, hs, hk, Bool.false_or] at this
    cases d' with
    | zero => simp [alignedFrom] at this
    | succ d' => exact ⟨d', this⟩

/-- the check implies the hypothesis of the comparison at every position the walk can reach -/
theorem aligned_of_check {cfg : Cfg} {root : DM} {s0 : S} {d : Nat} (h0 : alignedFrom cfg d root s0 = true) :
    ∀ path n s, Reach cfg root s0 path n s → AlignedAt n s ∧ PlainMatch s n := by
  intro path n s h
  obtain ⟨d', hd⟩ := alignedFrom_reach h0 h
  exact alignedFrom_here hd

end WalkT
end Ipld
