/-
  Model of the selector walk (`traversal/walk.go`: walkAdv / visit / explore / loadLink, budgets,
  StartAtPath, LinkVisitOnlyOnce, SkipMe) and of path resolution (`traversal/focus.go` get).
  DESIGN §5 C07/C14/C15.  Core Lean only.

  Blocks are already-decoded values in a store `cid ↦ DM` (decoding is C03/C04's business); loading a
  link is a store lookup.  The walk produces the list of events an observer sees: visits
  (path, node handed to the callback, reason) and link loads (what is requested from storage).
-/
import IpldModel.Model.Selector
namespace Ipld
namespace Walk
open Sel

inductive Reason where | matched | candidate
  deriving DecidableEq, Repr

inductive Event where
  | visit (path : Path) (node : DM) (r : Reason)
  | load (cid : Bytes)
  deriving Repr

inductive Err where
  | budgetNode | budgetLink | load | selector | reify | panic | fuel
  deriving DecidableEq, Repr

structure Cfg where
  store : List (Bytes × DM) := []
  skip : List Bytes := []          -- links for which the loader answers SkipMe
  startAt : Path := []
  linkOnce : Bool := false
  deriving Repr

/-- the state shared by reference along a walk: `*Budget`, the `SeenLinks` map, and the observer's log -/
structure St where
  nodeBudget : Option Int := none
  linkBudget : Option Int := none
  seen : List Bytes := []
  events : List Event := []       -- most recent first

abbrev WR := St × Except Err Unit

def storeGet (s : List (Bytes × DM)) (c : Bytes) : Option DM := (s.find? (fun e => e.1 == c)).map (·.2)

/-- children of a map or list with their segments, in iteration order -/
def children : DM → List (Seg × DM)
  | .map es => es.toList.map fun e => (.str e.1, e.2)
  | .list xs => xs.toList.zipIdx.map fun e => (.idx e.2, e.1)
  | _ => []

def isRecursive : DM → Bool
  | .map _ => true
  | .list _ => true
  | _ => false

/-- `checkNodeBudget`: test, then decrement -/
def checkNode (st : St) : Except Err St :=
  match st.nodeBudget with
  | none => .ok st
  | some b => if b ≤ 0 then .error .budgetNode else .ok { st with nodeBudget := some (b - 1) }

def checkLink (st : St) : Except Err St :=
  match st.linkBudget with
  | none => .ok st
  | some b => if b ≤ 0 then .error .budgetLink else .ok { st with linkBudget := some (b - 1) }

/-- one child of the per-node loop: start-at bookkeeping (`reached`, `past` are the loop's mutable locals),
    then `explore` -/
structure Loop where
  reached : Bool := false
  past : Bool

mutual
def walkAdv (cfg : Cfg) : Nat → Bool → Path → DM → S → St → WR
  | 0, _, _, _, _, st => (st, .error .fuel)
  | fuel + 1, past, path, n, s, st =>
    match checkNode st with
    | .error e => (st, .error e)
    | .ok st1 =>
      -- reify: no ADL reifiers are configured in the modelled link system
      match s with
      | .interpretAs _ _ => (st1, .error .reify)
      | _ =>
      -- visit
      let st2 : St :=
        if !past && path.length < cfg.startAt.length then st1
        else match matchNode s n with
          | some m => { st1 with events := .visit path m .matched :: st1.events }
          | none => { st1 with events := .visit path n .candidate :: st1.events }
      if !isRecursive n then (st2, .ok ()) else
      match interests s with
      | none => walkChildren cfg fuel path n s (children n) { past := past } st2
      | some segs =>
        -- explicit interests: look each one up, skip the missing ones
        let found := segs.filterMap fun ps => (lookupBySegment n ps).map fun v => (ps, v)
        walkChildren cfg fuel path n s found { past := past } st2
def walkChildren (cfg : Cfg) : Nat → Path → DM → S → List (Seg × DM) → Loop → St → WR
  | 0, _, _, _, _, _, st => (st, .error .fuel)
  | _ + 1, _, _, _, [], _, st => (st, .ok ())
  | fuel + 1, path, n, s, (ps, v) :: rest, lp, st =>
    -- the `recurse` closure
    let haveStart := cfg.startAt.length > 0
    let (skipIt, lp1) : Bool × Loop :=
      if haveStart then
        if lp.reached then (false, { lp with past := true })
        else if !lp.past && path.length < cfg.startAt.length then
          if ps.equals (cfg.startAt.getD path.length (.str [])) then (false, { lp with reached := true })
          else (true, lp)
        else (false, lp)
      else (false, lp)
    if skipIt then walkChildren cfg fuel path n s rest lp1 st else
    match exploreChild cfg fuel lp1.past path n s ps v st with
    | (st', .error e) => (st', .error e)
    | (st', .ok ()) => walkChildren cfg fuel path n s rest lp1 st'
def exploreChild (cfg : Cfg) : Nat → Bool → Path → DM → S → Seg → DM → St → WR
  | 0, _, _, _, _, _, _, st => (st, .error .fuel)
  | fuel + 1, past, path, n, s, ps, v, st =>
    match explore s n ps with
    | .error .panic => (st, .error .panic)
    | .error .error => (st, .error .selector)
    | .ok none => (st, .ok ())
    | .ok (some sNext) =>
      let path' := path ++ [ps]
      match v with
      | .link c =>
        if cfg.linkOnce && st.seen.contains c then (st, .ok ()) else
        let st1 := if cfg.linkOnce then { st with seen := c :: st.seen } else st
        match checkLink st1 with
        | .error e => (st1, .error e)
        | .ok st2 =>
          let st3 := { st2 with events := .load c :: st2.events }
          if cfg.skip.contains c then (st3, .ok ()) else
          match storeGet cfg.store c with
          | none => (st3, .error .load)
          | some blk => walkAdv cfg fuel past path' blk sNext st3
      | _ => walkAdv cfg fuel past path' v sNext st
end

structure Result where
  events : List Event
  outcome : Except Err Unit
  st : St

/-- `Progress.WalkAdv` from the root -/
def walk (cfg : Cfg) (fuel : Nat) (nodeBudget linkBudget : Option Int) (root : DM) (s : S) : Result :=
  let (st, r) := walkAdv cfg fuel false [] root s { nodeBudget := nodeBudget, linkBudget := linkBudget }
  { events := st.events.reverse, outcome := r, st := st }

def visitsOf (es : List Event) : List (Path × DM × Reason) :=
  es.filterMap fun e => match e with | .visit p n r => some (p, n, r) | _ => none

def loadsOf (es : List Event) : List Bytes :=
  es.filterMap fun e => match e with | .load c => some c | _ => none

/-- `WalkMatching`: the callback only hears of matches -/
def matchesOf (es : List Event) : List (Path × DM) :=
  es.filterMap fun e => match e with | .visit p n .matched => some (p, n) | _ => none

/-! ## Path resolution: `Progress.get` -/

inductive GetErr where | notFound | notIndex | terminal | load | fuel
  deriving DecidableEq, Repr

/-- follow a chain of links at the current position (`for n.Kind() == Kind_Link`) -/
def followLinks (store : List (Bytes × DM)) : Nat → DM → Except GetErr DM
  | 0, _ => .error .fuel
  | fuel + 1, n =>
    match n with
    | .link c =>
      match storeGet store c with
      | none => .error .load
      | some b => followLinks store fuel b
    | _ => .ok n

/-- one segment of `get` -/
def getStep (store : List (Bytes × DM)) (fuel : Nat) (n : DM) (seg : Seg) : Except GetErr DM :=
  match n with
  | .map es =>
    match (es.toList.find? (fun e => e.1 == seg.toString)) with
    | some e => followLinks store fuel e.2
    | none => .error .notFound
  | .list xs =>
    match seg.index with
    | none => .error .notIndex
    | some i =>
      if i < 0 then .error .notFound else
      match xs.toList[i.toNat]? with
      | some x => followLinks store fuel x
      | none => .error .notFound
  | _ => .error .terminal

/-- `traversal.Get(root, path)` with links loaded from `store` -/
def get (store : List (Bytes × DM)) (fuel : Nat) : DM → Path → Except GetErr DM
  | n, [] => .ok n
  | n, seg :: rest => do
    let n' ← getStep store fuel n seg
    get store fuel n' rest

end Walk
end Ipld
