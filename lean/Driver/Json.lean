import IpldModel.Model.Term
import IpldModel.Model.JsonTok
namespace Ipld.Driver
open Ipld Ipld.Json

/-- float table: `-` or `bits=texthex,bits=texthex,…` (bits = 16 hex digits) -/
def parseFloatTable (s : String) : Option (List (Nat × Bytes)) :=
  if s == "-" then some [] else
  (s.splitOn ",").mapM fun e =>
    match e.splitOn "=" with
    | [b, t] => do
      let n ← natOfHexChars b.toList
      let bs ← bytesOfHex t
      pure (n, bs)
    | _ => none

def tableFmt (tbl : List (Nat × Bytes)) : UInt64 → Option Bytes := fun f =>
  (tbl.find? (fun e => e.1 == f.toNat)).map (·.2)

def parseJTok (t : String) : Option JTok :=
  match t.toList with
  | ['{'] => some .mapOpen
  | ['}'] => some .mapClose
  | ['['] => some .arrOpen
  | [']'] => some .arrClose
  | ['n'] => some .null
  | ['t'] => some (.bool true)
  | ['f'] => some (.bool false)
  | 'i' :: cs => (String.ofList cs).toInt?.map .int
  | 'd' :: cs => (natOfHexChars cs).map fun n => .float (UInt64.ofNat n)
  | 's' :: cs => (bytesOfHexChars cs).map .str
  | _ => none

def showJR (r : JR DM) : String :=
  match r with
  | .ok v => "ok " ++ v.toTerm
  | .error .depth => "err depth"
  | .error e => "err reject " ++ reprStr e

def jsonEncCfg : String → Option (EncCfg × Layout)
  | "dag" => some (dagjsonEnc, compact)
  | "plain" => some (plainJsonEnc, pretty)
  | _ => none

def jsonDecCfg (s : String) (depth : String) : Option DecCfg := do
  let d ← depth.toNat?
  let base : DecCfg := { parseLinks := s.contains 'l', parseBytes := s.contains 'b', dontParseBeyondEnd := s.contains 'e',
                         maxDepth := if d = 0 then 1024 else d }
  pure base

/-- json.enc <dag|plain> <floattable> <term…>        → ok <hex> | err
    json.untok <flags ⊆ lbe | -> <maxDepth|0> <tok…>  → ok <term> | err <class> …   (both decoders; WINDIFF if they differ)
    json.str <hex|->      → hex of the emitted string literal
    json.unstr <hex|->    → hex of parseString of the bytes between the quotes
    json.cidtext <hex>    → hex of Cid.String() -/
def jsonHandler : List String → Option String
  | "json.enc" :: mode :: tbl :: toks =>
    match jsonEncCfg mode, parseFloatTable tbl, parseTermAll toks with
    | some (cfg, lay), some t, some d =>
      match encodeJson cfg lay (tableFmt t) d with
      | some bs => some ("ok " ++ (if bs.isEmpty then "-" else hexOfBytes bs))
      | none => some "err"
    | _, _, _ => some "bad-args"
  | "json.untok" :: flags :: depth :: toks =>
    match jsonDecCfg flags depth, toks.mapM parseJTok with
    | some cfg, some ts =>
      let a := decodeToks cfg ts
      let b := decodeToksWin cfg ts
      let sa := showJR a
      let sb := showJR b
      if sa == sb then some sa else some s!"WINDIFF meaning={sa} mechanism={sb}"
    | _, _ => some "bad-args"
  | ["json.str", h] =>
    match (if h == "-" then some [] else bytesOfHex h) with
    | some s => some (hexOfBytes (emitString s))
    | none => some "bad-hex"
  | ["json.unstr", h] =>
    match (if h == "-" then some [] else bytesOfHex h) with
    | some s => let r := parseString s; some (if r.isEmpty then "-" else hexOfBytes r)
    | none => some "bad-hex"
  | ["json.cidtext", h] =>
    match bytesOfHex h with
    | some c => some (hexOfBytes (cidText c))
    | none => some "bad-hex"
  | _ => none

end Ipld.Driver
