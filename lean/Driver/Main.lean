import Driver.Cbor
import Driver.Asm
import Driver.Link
import Driver.Json
import Driver.Walk
import Driver.Store
import Driver.Transform
import Driver.Bind
import Driver.Schema
import Driver.StreamBytes
import Driver.GoBind
import Driver.TypedAsm
import Driver.EnumKey
import Driver.PathHeap
import Driver.StoreHelp
open Ipld.Driver

def handlers : List (List String → Option String) := [cborHandler, asmHandler, linkHandler, jsonHandler, walkHandler, storeHandler, xformHandler, bindHandler, schemaHandler, streamHandler, gobindHandler, tasmHandler, enumKeyHandler, pathHeapHandler, storeHelpHandler]

def dispatch (line : String) : String :=
  let toks := (line.trimAscii.toString.splitOn " ").filter (· ≠ "")
  match handlers.findSome? (fun h => h toks) with
  | some out => out
  | none => "bad-op"

partial def loop (hin : IO.FS.Stream) (hout : IO.FS.Stream) : IO Unit := do
  let line ← hin.getLine
  if line.isEmpty then
    hout.flush
    return ()
  hout.putStrLn (dispatch line)
  loop hin hout

def main : IO Unit := do
  let hin ← IO.getStdin
  let hout ← IO.getStdout
  loop hin hout
