/-
  Link budget: a walk with link budget `b` is a prefix of the walk without a link budget (any configuration).
  Also: with `linkOnce`, no link is loaded twice; the store is never consulted for skipped links.
-/
import IpldModel.Lemmas.WalkBudget
import IpldModel.Lemmas.WalkInv
namespace Ipld
namespace Walk
open Sel

/-- number of load events -/
def loadCount (es : List Event) : Nat := (loadsOf es).length

@[simp] theorem loadCount_nil : loadCount [] = 0 := rfl
@[simp] theorem loadCount_visit (p : Path) (m : DM) (r : Reason) (es : List Event) :
    loadCount (.visit p m r :: es) = loadCount es := by simp [loadCount, loadsOf]
@[simp] theorem loadCount_load (c : Bytes) (es : List Event) :
    loadCount (.load c :: es) = loadCount es + 1 := by simp [loadCount, loadsOf]
@[simp] theorem loadCount_append (a b : List Event) : loadCount (a ++ b) = loadCount a + loadCount b := by
  simp [loadCount, loadsOf]

/-- forget the link budget -/
def unbL (st : St) : St := { st with linkBudget := none }

def SimL (st : St) (b : Int) (R U : WR) : Prop :=
  ∃ newR, R.1.events = newR ++ st.events ∧ (loadCount newR : Int) ≤ b ∧
    ((R.2 = .error .budgetLink ∧ (loadCount newR : Int) = b ∧
        ∃ extra c, U.1.events = extra ++ .load c :: R.1.events)
     ∨ (R.2 = .ok () ∧ U.2 = .ok () ∧ U.1 = unbL R.1 ∧ R.1.linkBudget = some (b - loadCount newR))
     ∨ (∃ e, R.2 = .error e ∧ U.2 = .error e ∧ e ≠ .budgetLink ∧ U.1.events = R.1.events))

theorem SimL.refl_ok {st : St} {b : Int} (hb : st.linkBudget = some b) (h0 : 0 ≤ b) :
    SimL st b (st, .ok ()) (unbL st, .ok ()) :=
  ⟨[], rfl, by simpa using h0, Or.inr (Or.inl ⟨rfl, rfl, rfl, by simpa using hb⟩)⟩

theorem SimL.err {st : St} {b : Int} (h0 : 0 ≤ b) {e : Err} (h1 : e ≠ .budgetLink) :
    SimL st b (st, .error e) (unbL st, .error e) :=
  ⟨[], rfl, by simpa using h0, Or.inr (Or.inr ⟨e, rfl, rfl, h1, rfl⟩)⟩

def StepL (st : St) (b : Int) (st1 : St) : Prop :=
  ∃ new, st1.events = new ++ st.events ∧ st1.linkBudget = some (b - loadCount new) ∧ (loadCount new : Int) ≤ b

theorem SimL.seq {st st1 : St} {b : Int} {R U : WR} (h1 : StepL st b st1)
    (h2 : ∀ b1, st1.linkBudget = some b1 → 0 ≤ b1 → SimL st1 b1 R U) : SimL st b R U := by
  obtain ⟨new1, he1, hb1, hk1⟩ := h1
  obtain ⟨new2, he2, hk2, h⟩ := h2 _ hb1 (by omega)
  refine ⟨new2 ++ new1, by rw [he2, he1, List.append_assoc], by simp; omega, ?_⟩
  rcases h with ⟨hr, hk, hx⟩ | ⟨hr, hu, hs, hb⟩ | ⟨e, hr, hu, hne, hev⟩
  · exact Or.inl ⟨hr, by simp; omega, hx⟩
  · exact Or.inr (Or.inl ⟨hr, hu, hs, by rw [hb]; simp; omega⟩)
  · exact Or.inr (Or.inr ⟨e, hr, hu, hne, hev⟩)

theorem SimL.bind {st : St} {b : Int} {R1 U1 : WR} (f : St → WR) (h1 : SimL st b R1 U1)
    (hf : ∀ st1 b1, R1.1 = st1 → st1.linkBudget = some b1 → 0 ≤ b1 → SimL st1 b1 (f st1) (f (unbL st1)))
    (hext : ∀ stU, ∃ new, (f stU).1.events = new ++ stU.events) :
    SimL st b (andThen R1 f) (andThen U1 f) := by
  obtain ⟨stR, rR⟩ := R1
  obtain ⟨stU, rU⟩ := U1
  obtain ⟨new1, he1, hk1, h⟩ := h1
  simp only at he1 h
  rcases h with ⟨hr, hk, extra, c, hx⟩ | ⟨hr, hu, hs, hb⟩ | ⟨e, hr, hu, hne, hev⟩
  · subst hr
    refine ⟨new1, he1, hk1, Or.inl ⟨rfl, hk, ?_⟩⟩
    cases rU with
    | error e => exact ⟨extra, c, hx⟩
    | ok u =>
      obtain ⟨more, hm⟩ := hext stU
      cases u
      exact ⟨more ++ extra, c, by simp only [andThen_ok, andThen_error, hm, hx, List.append_assoc]⟩
  · subst hr hu hs
    simp only [andThen_ok]
    apply SimL.seq ⟨new1, he1, hb, hk1⟩
    intro b1 hb1 h0
    exact hf stR b1 rfl hb1 h0
  · subst hr hu
    exact ⟨new1, he1, hk1, Or.inr (Or.inr ⟨e, rfl, rfl, hne, hev⟩)⟩

/-! ### primitive steps -/

theorem checkNode_unbL (st : St) : checkNode (unbL st) = (checkNode st).map unbL := by
  obtain ⟨nb, lb, seen, ev⟩ := st
  cases nb with
  | none => rfl
  | some b => simp only [checkNode, unbL]; split <;> rfl

theorem checkNode_linkBudget {st st1 : St} (h : checkNode st = .ok st1) : st1.linkBudget = st.linkBudget := by
  unfold checkNode at h
  split at h
  · cases h; rfl
  · split at h
    · cases h
    · cases h; rfl

theorem checkNode_error {st : St} {e : Err} (h : checkNode st = .error e) : e = .budgetNode := by
  unfold checkNode at h
  split at h
  · cases h
  · split at h
    · cases h; rfl
    · cases h

theorem visitSt_unbL (cfg : Cfg) (past : Bool) (path : Path) (n : DM) (s : S) (st : St) :
    visitSt cfg past path n s (unbL st) = unbL (visitSt cfg past path n s st) := by
  unfold visitSt; split <;> rfl

theorem visitSt_stepL (cfg : Cfg) (past : Bool) (path : Path) (n : DM) (s : S) (st : St) (b : Int)
    (hb : st.linkBudget = some b) (h0 : 0 ≤ b) : StepL st b (visitSt cfg past path n s st) := by
  obtain ⟨m, r, hv⟩ := visitEvent_is_visit path n s
  unfold visitSt; split
  · exact ⟨[], rfl, by simpa using hb, by simpa using h0⟩
  · exact ⟨[visitEvent path n s], rfl, by simpa [hv] using hb, by simpa [hv] using h0⟩

/-- `linkStep` with budget `b` against `linkStep` without -/
theorem linkStep_unbL_cases (cfg : Cfg) (c : Bytes) (st : St) (b : Int) (hb : st.linkBudget = some b) (h0 : 0 ≤ b) :
    ((linkStep cfg c st).2 = .error .budgetLink ∧ b = 0 ∧ (linkStep cfg c st).1.events = st.events ∧
        (linkStep cfg c (unbL st)).1.events = .load c :: st.events)
    ∨ (linkStep cfg c (unbL st) = (unbL (linkStep cfg c st).1, (linkStep cfg c st).2) ∧
        (linkStep cfg c st).2 ≠ .error .budgetLink ∧ StepL st b (linkStep cfg c st).1) := by
  unfold linkStep
  by_cases h1 : (cfg.linkOnce && st.seen.contains c) = true
  · right
    have h1' : (cfg.linkOnce && (unbL st).seen.contains c) = true := h1
    rw [if_pos h1, if_pos h1']
    exact ⟨rfl, by simp, ⟨[], rfl, by simpa using hb, by simpa using h0⟩⟩
  · have h1' : ¬ (cfg.linkOnce && (unbL st).seen.contains c) = true := h1
    rw [if_neg h1, if_neg h1']
    have h2 : (if cfg.linkOnce = true then { unbL st with seen := c :: (unbL st).seen } else unbL st)
        = unbL (if cfg.linkOnce = true then { st with seen := c :: st.seen } else st) := by
      split <;> rfl
    simp only [h2]
    generalize hst1 : (if cfg.linkOnce = true then { st with seen := c :: st.seen } else st) = st1
    have hb1 : st1.linkBudget = some b := by rw [← hst1]; split <;> exact hb
    have he1 : st1.events = st.events := by rw [← hst1]; split <;> rfl
    have hU : checkLink (unbL st1) = .ok (unbL st1) := rfl
    rw [hU]
    by_cases hb0 : b ≤ 0
    · left
      have hR : checkLink st1 = .error .budgetLink := by simp [checkLink, hb1, hb0]
      rw [hR]
      refine ⟨rfl, by omega, he1, ?_⟩
      simp only
      split
      · simp [unbL, he1]
      · split <;> simp [unbL, he1]
    · right
      have hR : checkLink st1 = .ok { st1 with linkBudget := some (b - 1) } := by simp [checkLink, hb1, hb0]
      rw [hR]
      simp only
      have hstep : StepL st b { nodeBudget := st1.nodeBudget, linkBudget := some (b - 1), seen := st1.seen, events := .load c :: st1.events } :=
        ⟨[.load c], by simp [he1], by simp, by simp; omega⟩
      split
      · exact ⟨rfl, by simp, hstep⟩
      · split
        · exact ⟨rfl, by simp, hstep⟩
        · exact ⟨rfl, by simp, hstep⟩

/-! ### the simulation -/

theorem simL_all (cfg : Cfg) (fuel : Nat) :
    (∀ past path n s st b, st.linkBudget = some b → 0 ≤ b →
      SimL st b (walkAdv cfg fuel past path n s st) (walkAdv cfg fuel past path n s (unbL st))) ∧
    (∀ path n s l lp st b, st.linkBudget = some b → 0 ≤ b →
      SimL st b (walkChildren cfg fuel path n s l lp st) (walkChildren cfg fuel path n s l lp (unbL st))) ∧
    (∀ past path n s ps v st b, st.linkBudget = some b → 0 ≤ b →
      SimL st b (exploreChild cfg fuel past path n s ps v st) (exploreChild cfg fuel past path n s ps v (unbL st))) := by
  induction fuel with
  | zero =>
    refine ⟨?_, ?_, ?_⟩
    · intro past path n s st b _ h0; rw [walkAdv_zero, walkAdv_zero]; exact SimL.err h0 (by simp)
    · intro path n s l lp st b _ h0; rw [walkChildren_zero, walkChildren_zero]; exact SimL.err h0 (by simp)
    · intro past path n s ps v st b _ h0; rw [exploreChild_zero, exploreChild_zero]
      exact SimL.err h0 (by simp)
  | succ fuel ih =>
    obtain ⟨ihA, ihC, ihE⟩ := ih
    refine ⟨?_, ?_, ?_⟩
    · intro past path n s st b hb h0
      rw [walkAdv_succ, walkAdv_succ, checkNode_unbL]
      cases hck : checkNode st with
      | error e =>
        have := checkNode_error hck
        subst this
        exact SimL.err h0 (by simp)
      | ok st1 =>
        have hb1 : st1.linkBudget = some b := by rw [checkNode_linkBudget hck]; exact hb
        have he1 := checkNode_events hck
        simp only [Except.map, visitSt_unbL]
        have hstep1 : StepL st b st1 := ⟨[], by simp [he1], by simpa using hb1, by simpa using h0⟩
        apply SimL.seq hstep1
        intro b1 hb1' h01
        split
        · exact SimL.err h01 (by simp)
        · apply SimL.seq (visitSt_stepL cfg past path n s st1 b1 hb1' h01)
          intro b2 hb2 h02
          split
          · exact SimL.refl_ok hb2 h02
          · exact ihC _ _ _ _ _ _ b2 hb2 h02
    · intro path n s l lp st b hb h0
      cases l with
      | nil => rw [walkChildren_nil, walkChildren_nil]; exact SimL.refl_ok hb h0
      | cons x rest =>
        obtain ⟨ps, v⟩ := x
        rw [walkChildren_cons, walkChildren_cons]
        split
        · exact ihC _ _ _ _ _ _ b hb h0
        · apply SimL.bind (fun st' => walkChildren cfg fuel path n s rest (loopStep cfg path lp ps).2 st')
            (ihE _ _ _ _ _ _ _ b hb h0)
          · intro st1 b1 _ hb1 h01
            exact ihC _ _ _ _ _ _ b1 hb1 h01
          · intro stU; exact events_extend_children ..
    · intro past path n s ps v st b hb h0
      rw [exploreChild_succ, exploreChild_succ]
      split
      · exact SimL.err h0 (by simp)
      · exact SimL.err h0 (by simp)
      · exact SimL.refl_ok hb h0
      · rename_i sNext _
        unfold enterChild
        split
        · rename_i c
          rcases linkStep_unbL_cases cfg c st b hb h0 with ⟨h1, h2, h3, h4⟩ | ⟨h1, h2, h3⟩
          · -- out of link budget here
            generalize linkStep cfg c st = ls at h1 h3
            obtain ⟨st', r⟩ := ls
            simp only at h1 h3
            subst h1
            simp only
            refine ⟨[], by simp [h3], by simpa using h0, Or.inl ⟨rfl, by simp [h2], ?_⟩⟩
            generalize linkStep cfg c (unbL st) = lu at h4
            obtain ⟨stu, ru⟩ := lu
            simp only at h4
            cases ru with
            | error e => exact ⟨[], c, by simp [h4, h3]⟩
            | ok o =>
              cases o with
              | none => exact ⟨[], c, by simp [h4, h3]⟩
              | some blk =>
                simp only
                obtain ⟨more, hm⟩ := events_extend cfg fuel past (path ++ [ps]) blk sNext stu
                exact ⟨more, c, by rw [hm, h4, h3]⟩
          · rw [h1]
            generalize linkStep cfg c st = ls at h2 h3
            obtain ⟨st', r⟩ := ls
            simp only at h2 h3 ⊢
            apply SimL.seq h3
            intro b1 hb1 h01
            cases r with
            | error e => exact SimL.err h01 (by intro h; apply h2; rw [h])
            | ok o =>
              cases o with
              | none => exact SimL.refl_ok hb1 h01
              | some blk => exact ihA _ _ _ _ _ b1 hb1 h01
        · rename_i hnl
          exact ihA _ _ _ _ _ b hb h0

/-! ### the whole walk -/

theorem loadsOf_reverse (es : List Event) : loadsOf es.reverse = (loadsOf es).reverse := by
  simp [loadsOf, List.filterMap_reverse]

theorem loadsOf_cons_load (c : Bytes) (es : List Event) : loadsOf (.load c :: es) = c :: loadsOf es := rfl

theorem walk_linkBudget_cases (cfg : Cfg) (fuel : Nat) (N : Int) (hN : 0 ≤ N)
    (nb : Option Int) (root : DM) (s : S) (U R : Result) (hU : U = walk cfg fuel nb none root s)
    (hR : R = walk cfg fuel nb (some N) root s) :
    (loadsOf R.events).length ≤ N.toNat ∧
    ((R.outcome = .error .budgetLink ∧ (loadsOf R.events).length = N.toNat ∧
        ∃ c rest, U.events = R.events ++ .load c :: rest)
     ∨ (R.outcome ≠ .error .budgetLink ∧ R.events = U.events ∧ R.outcome = U.outcome)) := by
  have h := (simL_all cfg fuel).1 false [] root s { nodeBudget := nb, linkBudget := some N } N rfl hN
  unfold walk at hU hR
  have e1 : unbL { nodeBudget := nb, linkBudget := some N } = { nodeBudget := nb, linkBudget := none } := rfl
  rw [e1] at h
  generalize walkAdv cfg fuel false [] root s { nodeBudget := nb, linkBudget := some N } = wr at h hR
  generalize walkAdv cfg fuel false [] root s { nodeBudget := nb, linkBudget := none } = wu at h hU
  obtain ⟨stR, rR⟩ := wr
  obtain ⟨stU, rU⟩ := wu
  simp only at hU hR
  subst hU hR
  obtain ⟨newR, he, hk, h⟩ := h
  simp only [List.append_nil] at he h hk
  simp only
  have hlen : (loadsOf stR.events.reverse).length = loadCount newR := by
    rw [loadsOf_reverse, List.length_reverse, he]; rfl
  refine ⟨by rw [hlen]; omega, ?_⟩
  rcases h with ⟨hr, hk', extra, c, hx⟩ | ⟨hr, hu, hs', hb⟩ | ⟨e, hr, hu, hne, hev⟩
  · left
    exact ⟨hr, by rw [hlen]; omega, c, extra.reverse, by rw [hx]; simp⟩
  · right
    exact ⟨by rw [hr]; simp, by rw [hs']; rfl, by rw [hr, hu]⟩
  · right
    exact ⟨by rw [hr]; simpa using hne, by rw [hev], by rw [hr, hu]⟩

/-! ### `linkOnce`: no link is loaded twice -/

/-- every logged load is in `seen`, and no load is logged twice -/
def OnceInv (st : St) : Prop := (loadsOf st.events).Nodup ∧ ∀ c ∈ loadsOf st.events, c ∈ st.seen

theorem checkNode_seen {st st1 : St} (h : checkNode st = .ok st1) : st1.seen = st.seen := by
  unfold checkNode at h
  split at h
  · cases h; rfl
  · split at h
    · cases h
    · cases h; rfl

theorem checkLink_seen {st st1 : St} (h : checkLink st = .ok st1) : st1.seen = st.seen := by
  unfold checkLink at h
  split at h
  · cases h; rfl
  · split at h
    · cases h
    · cases h; rfl

theorem linkStep_onceInv (cfg : Cfg) (hl : cfg.linkOnce = true) (c : Bytes) (st : St) (h : OnceInv st) :
    OnceInv (linkStep cfg c st).1 := by
  unfold linkStep
  simp only [hl, Bool.true_and, if_true]
  by_cases hc : st.seen.contains c = true
  · rw [if_pos hc]; exact h
  · rw [if_neg hc]
    have hc' : c ∉ st.seen := by simpa using hc
    have h1 : OnceInv { st with seen := c :: st.seen } :=
      ⟨h.1, fun x hx => List.mem_cons_of_mem _ (h.2 x hx)⟩
    cases hck : checkLink { st with seen := c :: st.seen } with
    | error e => exact h1
    | ok st2 =>
      have he := checkLink_events hck
      have hs := checkLink_seen hck
      simp only at he hs
      have h3 : OnceInv { st2 with events := .load c :: st2.events } := by
        unfold OnceInv
        simp only [loadsOf_cons_load, he, hs]
        refine ⟨List.nodup_cons.2 ⟨fun hm => hc' (h.2 c hm), h.1⟩, ?_⟩
        intro x hx
        rcases List.mem_cons.1 hx with rfl | hx
        · simp
        · exact List.mem_cons_of_mem _ (h.2 x hx)
      simp only
      split
      · exact h3
      · split <;> exact h3

theorem walk_onceInv (cfg : Cfg) (hl : cfg.linkOnce = true) (fuel : Nat) (past : Bool) (path : Path) (n : DM)
    (s : S) (st : St) (h : OnceInv st) : OnceInv (walkAdv cfg fuel past path n s st).1 := by
  refine (walk_rel cfg (fun a b => OnceInv a → OnceInv b) (fun _ h => h) (fun _ _ _ h1 h2 h => h2 (h1 h))
    ?_ ?_ ?_ fuel).1 past path n s st h
  · intro st st1 hck h
    unfold OnceInv
    rw [checkNode_events hck, checkNode_seen hck]; exact h
  · intro past path n s st h
    obtain ⟨m, r, hv⟩ := visitEvent_is_visit path n s
    unfold visitSt; split
    · exact h
    · unfold OnceInv; simp only [hv]; exact h
  · intro c st h; exact linkStep_onceInv cfg hl c st h

theorem nodup_reverse' {α : Type} (l : List α) : l.reverse.Nodup ↔ l.Nodup := by
  simp only [List.Nodup, List.pairwise_reverse]
  constructor <;> intro h <;> exact h.imp (fun h => Ne.symm h)

theorem walk_loads_nodup (cfg : Cfg) (hl : cfg.linkOnce = true) (fuel : Nat) (nb lb : Option Int) (root : DM) (s : S) :
    (loadsOf (walk cfg fuel nb lb root s).events).Nodup := by
  unfold walk
  simp only [loadsOf_reverse, nodup_reverse']
  exact (walk_onceInv cfg hl fuel false [] root s { nodeBudget := nb, linkBudget := lb }
    ⟨List.nodup_nil, fun c hc => by cases hc⟩).1

/-! ### skipped links: the store is not consulted -/

theorem linkStep_store_indep (cfg : Cfg) (store' : List (Bytes × DM))
    (h : ∀ c, cfg.skip.contains c = false → storeGet store' c = storeGet cfg.store c) (c : Bytes) (st : St) :
    linkStep { cfg with store := store' } c st = linkStep cfg c st := by
  unfold linkStep
  simp only
  by_cases h1 : (cfg.linkOnce && st.seen.contains c) = true
  · simp only [if_pos h1]
  · simp only [if_neg h1]
    cases checkLink (if cfg.linkOnce = true then { st with seen := c :: st.seen } else st) with
    | error e => rfl
    | ok st2 =>
      simp only
      by_cases hk : cfg.skip.contains c = true
      · simp only [if_pos hk]
      · simp only [if_neg hk, h c (by simpa using hk)]

theorem walk_store_indep_all (cfg : Cfg) (store' : List (Bytes × DM))
    (h : ∀ c, cfg.skip.contains c = false → storeGet store' c = storeGet cfg.store c) (fuel : Nat) :
    (∀ past path n s st, walkAdv { cfg with store := store' } fuel past path n s st = walkAdv cfg fuel past path n s st) ∧
    (∀ path n s l lp st, walkChildren { cfg with store := store' } fuel path n s l lp st
        = walkChildren cfg fuel path n s l lp st) ∧
    (∀ past path n s ps v st, exploreChild { cfg with store := store' } fuel past path n s ps v st
        = exploreChild cfg fuel past path n s ps v st) := by
  induction fuel with
  | zero =>
    refine ⟨?_, ?_, ?_⟩
    · intros; rw [walkAdv_zero, walkAdv_zero]
    · intros; rw [walkChildren_zero, walkChildren_zero]
    · intros; rw [exploreChild_zero, exploreChild_zero]
  | succ fuel ih =>
    obtain ⟨ihA, ihC, ihE⟩ := ih
    refine ⟨?_, ?_, ?_⟩
    · intro past path n s st
      rw [walkAdv_succ, walkAdv_succ]
      have hv : ∀ st1, visitSt { cfg with store := store' } past path n s st1 = visitSt cfg past path n s st1 :=
        fun _ => rfl
      simp only [hv, ihC]
    · intro path n s l lp st
      cases l with
      | nil => rw [walkChildren_nil, walkChildren_nil]
      | cons x rest =>
        obtain ⟨ps, v⟩ := x
        rw [walkChildren_cons, walkChildren_cons]
        have hl : loopStep { cfg with store := store' } path lp ps = loopStep cfg path lp ps := rfl
        simp only [hl, ihC, ihE]
    · intro past path n s ps v st
      rw [exploreChild_succ, exploreChild_succ]
      split
      · rfl
      · rfl
      · rfl
      · unfold enterChild
        simp only [linkStep_store_indep cfg store' h, ihA]

theorem linkStep_skip (cfg : Cfg) (c : Bytes) (st : St) (hk : cfg.skip.contains c = true) :
    (linkStep cfg c st).2 = .ok none ∨ (linkStep cfg c st).2 = .error .budgetLink := by
  unfold linkStep
  split
  · exact Or.inl rfl
  · simp only
    split
    · rename_i e hck
      right
      unfold checkLink at hck
      split at hck
      · cases hck
      · split at hck
        · cases hck; rfl
        · cases hck
    · exact Or.inl rfl

theorem exploreChild_skip (cfg : Cfg) (fuel : Nat) (past : Bool) (path : Path) (n : DM) (s : S) (ps : Seg)
    (c : Bytes) (st : St) (hk : cfg.skip.contains c = true) :
    ((exploreChild cfg fuel past path n s ps (.link c) st).1.events = st.events ∨
     (exploreChild cfg fuel past path n s ps (.link c) st).1.events = .load c :: st.events) ∧
    (exploreChild cfg fuel past path n s ps (.link c) st).2 ≠ .error .load := by
  cases fuel with
  | zero => rw [exploreChild_zero]; exact ⟨Or.inl rfl, by simp⟩
  | succ fuel =>
    rw [exploreChild_succ]
    split
    · exact ⟨Or.inl rfl, by simp⟩
    · exact ⟨Or.inl rfl, by simp⟩
    · exact ⟨Or.inl rfl, by simp⟩
    · simp only [enterChild]
      have h1 := linkStep_skip cfg c st hk
      have h2 := linkStep_events_cases cfg c st
      generalize linkStep cfg c st = ls at h1 h2
      obtain ⟨st', r⟩ := ls
      simp only at h1 h2
      rcases h1 with h1 | h1 <;> subst h1 <;> exact ⟨h2, by simp⟩

theorem walk_store_indep (cfg : Cfg) (store' : List (Bytes × DM))
    (h : ∀ c, cfg.skip.contains c = false → storeGet store' c = storeGet cfg.store c)
    (fuel : Nat) (nb lb : Option Int) (root : DM) (s : S) :
    walk { cfg with store := store' } fuel nb lb root s = walk cfg fuel nb lb root s := by
  unfold walk
  rw [(walk_store_indep_all cfg store' h fuel).1]

end Walk
end Ipld
