/-
  C09 (schema conformance), typed maps keyed by a string-represented enum: the builder of each level accepts exactly
  the call sequences whose keys are keys OF THAT LEVEL (member names at type level, representation strings at
  representation level) without a repeat; what it builds is a valid value; the views build back.

  Model: Model/EnumKeyMap.lean (mirrors node/bindnode `_mapAssembler`, `_assembler.AssignString` enum case,
  `_assemblerRepr.AssignString` `EnumRepresentation_String` case).  All enum types, values and inputs; no bounds.
  Correspondence with the implementation: `c09EnumKeys` in go/internal/checks/c09.go (`enumkey.run` driver lines over
  the routes entry / keyasm / node / json / cbor).
-/
import IpldModel.Lemmas.EnumKeyMap
namespace Ipld.Props.C09
open Ipld Ipld.EnumKey

/-- **Type level: accepted ⇔ every key is a member name and no key repeats** (any enum type, no hypothesis). -/
theorem enumkey_buildType_accepts_iff (e : EnumTy) (input : List (Bytes × Int)) :
    (buildType e input).isSome = true ↔ (∀ k, k ∈ keys input → k ∈ names e) ∧ (keys input).Nodup := by
  rw [buildType, build_isSome_iff .type e (resolve_type_inj e)]
  simp only [resolve_type_isSome_iff]

/-- ... and what is accepted is stored as given. -/
theorem enumkey_buildType_result (e : EnumTy) (input : List (Bytes × Int)) (m : EMap)
    (h : buildType e input = some m) : m = input := by
  rw [buildType, build_eq] at h
  cases hra : resolveAll .type e input with
  | none => simp [hra] at h
  | some rs =>
    by_cases hd : (keys rs).Nodup
    · simp [hra, hd] at h; rw [← h]; exact resolveAll_type hra
    · simp [hra, hd] at h

/-- **Representation level: accepted ⇔ every key is some member's representation string and no key repeats.**
    The hypothesis is the first half of `wf` (distinct member names, which `schema.SpawnTypeSystem` enforces). -/
theorem enumkey_buildRepr_accepts_iff (e : EnumTy) (hn : (names e).Nodup) (input : List (Bytes × Int)) :
    (buildRepr e input).isSome = true ↔ (∀ k, k ∈ keys input → k ∈ reprs e) ∧ (keys input).Nodup := by
  rw [buildRepr, build_isSome_iff .repr e (fun s₁ s₂ n h₁ h₂ => memberOfRepr_inj hn h₁ h₂)]
  simp only [resolve, memberOfRepr_isSome_iff]

/-- Why the hypothesis: `enum { A ("x"), A ("y") }` (a repeated NAME) has the distinct representation strings `x`, `y`
    denote one member, so the second is a repeated key. -/
example :
    let e : EnumTy := [([65], [120]), ([65], [121])]
    ¬ (names e).Nodup ∧ (keys [([120], 1), ([121], 2)]).Nodup ∧ (∀ k, k ∈ keys [([120], (1 : Int)), ([121], 2)] → k ∈ reprs e) ∧
      buildRepr e [([120], 1), ([121], 2)] = none := by decide

/-- **What is built is a valid value** (distinct keys, each a member name), at either level, for any enum type. -/
theorem enumkey_built_keys_valid (lvl : Level) (e : EnumTy) (input : List (Bytes × Int)) (m : EMap)
    (h : build lvl e input = some m) : (keys m).Nodup ∧ ∀ k, k ∈ keys m → k ∈ names e :=
  build_valid h

/-- **The views build back**: supplying the representation view of a valid value to the representation builder, or
    its type-level view to the type-level builder, reconstructs the value.  Only distinct representation strings are
    needed (second half of `wf`), and only at representation level. -/
theorem enumkey_repr_build_of_view (e : EnumTy) (hr : (reprs e).Nodup) (m : EMap) (hv : valid e m) :
    buildRepr e (viewRepr e m) = some m ∧ buildType e (viewType m) = some m := by
  refine ⟨?_, ?_⟩
  · rw [buildRepr, build_eq, resolveAll_repr_of_valid hr hv.2]
    simp [hv.1]
  · rw [buildType, build_eq, viewType, resolveAll_type_of_valid hv.2]
    simp [hv.1]

/-- Why the hypothesis: with one representation string for two members the representation view of `{B: 1}` builds
    back as `{A: 1}`. -/
example :
    let e : EnumTy := [([65], [120]), ([66], [120])]
    (names e).Nodup ∧ ¬ (reprs e).Nodup ∧ valid e [([66], 1)] ∧
      buildRepr e (viewRepr e [([66], 1)]) = some [([65], 1)] := by decide

/-- **A refused call has no effect** on what was assembled so far (the key is checked before `Keys`/`Values` are
    touched); an accepted call appends exactly one entry. -/
theorem enumkey_reject_no_effect (lvl : Level) (e : EnumTy) (st : EMap) (kv : Bytes × Int) :
    ((step lvl e st kv).2 = false → (step lvl e st kv).1 = st) ∧
    ((step lvl e st kv).2 = true → ∃ n, resolve lvl e kv.1 = some n ∧ n ∉ keys st ∧ (step lvl e st kv).1 = st ++ [(n, kv.2)]) := by
  simp only [step]
  cases hres : resolve lvl e kv.1 with
  | none => simp
  | some n =>
    by_cases hin : n ∈ keys st
    · simp [hin]
    · simp [hin]

/-! ### Non-vacuity: `enum E { Yes ("y"), No, Maybe ("Yes") }` — `Maybe` is renamed to another member's NAME. -/

/-- members Yes→"y", No→"No", Maybe→"Yes" -/
def exKeyEnum : EnumTy := [([89, 101, 115], [121]), ([78, 111], [78, 111]), ([77, 97, 121, 98, 101], [89, 101, 115])]

example : wf exKeyEnum := by decide

/-- type level: `{"Yes": 1, "Maybe": 2}` is accepted as given ... -/
example : buildType exKeyEnum [([89, 101, 115], 1), ([77, 97, 121, 98, 101], 2)]
    = some [([89, 101, 115], 1), ([77, 97, 121, 98, 101], 2)] := by decide
/-- ... its representation view spells the keys `y`, `Yes` ... -/
example : viewRepr exKeyEnum [([89, 101, 115], 1), ([77, 97, 121, 98, 101], 2)]
    = [([121], 1), ([89, 101, 115], 2)] := by decide
/-- ... and at representation level `Yes` means the member `Maybe`: `{"Yes": 1, "y": 2}` builds `{Maybe: 1, Yes: 2}`. -/
example : buildRepr exKeyEnum [([89, 101, 115], 1), ([121], 2)]
    = some [([77, 97, 121, 98, 101], 1), ([89, 101, 115], 2)] := by decide
/-- refused: a representation string at type level, a renamed member's name at representation level, a repeat. -/
example : buildType exKeyEnum [([121], 1)] = none := by decide
example : buildRepr exKeyEnum [([77, 97, 121, 98, 101], 1)] = none := by decide
example : buildType exKeyEnum [([78, 111], 1), ([78, 111], 2)] = none := by decide
example : buildRepr exKeyEnum [([121], 1), ([78, 111], 2), ([121], 3)] = none := by decide
/-- a refused step leaves the state, an accepted one appends -/
example : step .repr exKeyEnum [([78, 111], 1)] ([78, 111], 2) = ([([78, 111], 1)], false) := by decide
example : step .repr exKeyEnum [([78, 111], 1)] ([89, 101, 115], 2) = ([([78, 111], 1), ([77, 97, 121, 98, 101], 2)], true) := by decide

end Ipld.Props.C09
