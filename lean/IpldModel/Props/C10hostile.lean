/-
  C10 (companion) — a walk that follows links consumes the LINKS as untrusted data too: the hash check of every load runs
  `BuildLink` with the prototype of a link the data supplied.  Totality of that step (no panic, whatever digest length
  the link claims) is proved in Props/C06hostile.lean; it is restated here because it is C10's obligation
  ("the walk of any selector that compiled over any data … never panics").  Before library fix e7e1a89 the step
  panicked on a link that declared more digest than its hash function yields.  Property theorems only.
-/
import IpldModel.Props.C06hostile
namespace Ipld.Props.C10
open Ipld Ipld.Link

/-- the hash check of a load under any version-1 link from the data answers (match or mismatch), it does not panic -/
theorem link_hashCheck_total (H : Nat → Bytes → Bytes) (l : Lnk) (b : Bytes) (hv : l.version = 1) :
    ∃ l', buildLink l.proto (H l.mhType b) = some l' :=
  Ipld.Props.C06.hashCheck_total_v1 H l b hv

/-- … and so does the load: `fill` is a total function whose every outcome is one of the four verdicts; under a link
    that claims more digest than the function yields the verdict is never `ok` -/
theorem hostile_link_load_refused (H : Nat → Bytes → Bytes) (l : Lnk) (s : Stream) (d : DecRun)
    (hlong : ∀ b, (H l.mhType b).length < l.digest.length) :
    fill H false l s d = .hashMismatch ∨ fill H false l s d = .ioErr ∨ fill H false l s d = .decodeErr := by
  have := Ipld.Props.C06.fill_overlong_never_ok H l s d hlong
  cases h : fill H false l s d <;> simp_all

end Ipld.Props.C10
