/-
  Lemmas about the heap-level path model (`Model/PathHeap.lean`): every allocating operation turns the heap `h` into
  `h ++ [one new array]`; re-slicing operations leave it alone; reads of well-formed slices survive heap extension.
-/
import IpldModel.Model.PathHeap
namespace Ipld
namespace PathHeap
open Sel

/-! ### cell stores -/

theorem storeFrom_length : ∀ (vs cells : List Seg) (k : Nat), (storeFrom cells k vs).length = cells.length
  | [], _, _ => rfl
  | v :: vs, cells, k => by rw [storeFrom, storeFrom_length vs]; simp

theorem storeFrom_append : ∀ (vs pre mid post : List Seg), mid.length = vs.length →
    storeFrom (pre ++ mid ++ post) pre.length vs = pre ++ vs ++ post
  | [], pre, mid, post, h => by
    have : mid = [] := List.eq_nil_of_length_eq_zero (by simpa using h)
    simp [storeFrom, this]
  | v :: vs, pre, mid, post, h => by
    cases mid with
    | nil => simp at h
    | cons m ms =>
      have hl : ms.length = vs.length := by simpa using h
      have hset : (pre ++ (m :: ms) ++ post).set pre.length v = (pre ++ [v]) ++ ms ++ post := by
        simp
      have := storeFrom_append vs (pre ++ [v]) ms post hl
      rw [storeFrom, hset]
      simpa using this

/-! ### the heap -/

theorem arr_fresh (h : Heap) (z : List Seg) : Heap.arr (h ++ [z]) h.length = z := by
  simp [Heap.arr]

theorem set_fresh (h : Heap) (z x : List Seg) : (h ++ [z]).set h.length x = h ++ [x] := by
  simp

theorem arr_append_lt (h ext : Heap) (a : Nat) (ha : a < h.length) : Heap.arr (h ++ ext) a = Heap.arr h a := by
  simp [Heap.arr, List.getElem?_append_left ha]

theorem arr_ge (h : Heap) (a : Nat) (ha : h.length ≤ a) : Heap.arr h a = [] := by
  simp [Heap.arr, List.getElem?_eq_none ha]

theorem copy_fresh (h : Heap) (z vals : List Seg) (o l c : Nat) :
    copy (h ++ [z]) ⟨h.length, o, l, c⟩ vals = h ++ [storeFrom z o (vals.take (min l vals.length))] := by
  simp only [copy, arr_fresh, set_fresh]

theorem setIdx_fresh (h : Heap) (z : List Seg) (o l c i : Nat) (v : Seg) :
    setIdx (h ++ [z]) ⟨h.length, o, l, c⟩ i v = h ++ [storeFrom z (o + i) [v]] := by
  simp only [setIdx, arr_fresh, set_fresh]

/-- a well-formed slice either points into the heap or is empty with no capacity -/
theorem Slice.WF.cases {h : Heap} {s : Slice} (w : s.WF h) : s.arr < h.length ∨ (s.len = 0 ∧ s.cap = 0) := by
  by_cases ha : s.arr < h.length
  · exact .inl ha
  · right
    have := arr_ge h s.arr (by omega)
    unfold Slice.WF at w
    rw [this] at w
    simp at w
    omega

theorem read_len_zero (h : Heap) (s : Slice) (hl : s.len = 0) : read h s = [] := by simp [read, hl]

theorem read_ext {h : Heap} {s : Slice} (w : s.WF h) (ext : Heap) : read (h ++ ext) s = read h s := by
  rcases w.cases with ha | ⟨hl, _⟩
  · simp [read, arr_append_lt h ext s.arr ha]
  · rw [read_len_zero _ _ hl, read_len_zero _ _ hl]

theorem WF_ext {h : Heap} {s : Slice} (w : s.WF h) (ext : Heap) : s.WF (h ++ ext) := by
  rcases w.cases with ha | ⟨hl, hc⟩
  · unfold Slice.WF at *; rw [arr_append_lt h ext s.arr ha]; exact w
  · unfold Slice.WF at *
    have := arr_ge h s.arr
    by_cases ha : s.arr < h.length
    · rw [arr_append_lt h ext s.arr ha]; exact w
    · rw [this (by omega)] at w; simp at w; omega

theorem read_length {h : Heap} {s : Slice} (w : s.WF h) : (read h s).length = s.len := by
  unfold Slice.WF at w
  simp [read]; omega

/-- a slice over the whole of the array just allocated reads that array -/
theorem read_fresh (h : Heap) (x : List Seg) (n c : Nat) (hn : x.length = n) : read (h ++ [x]) ⟨h.length, 0, n, c⟩ = x := by
  simp only [read, arr_fresh, List.drop_zero]
  exact List.take_of_length_le (by omega)

/-! ### the allocating operations, in closed form -/

theorem storeFrom_zero_all (vals : List Seg) (n : Nat) (hn : vals.length = n) :
    storeFrom (List.replicate n zeroSeg) 0 (vals.take (min n vals.length)) = vals := by
  have := storeFrom_append vals [] (List.replicate n zeroSeg) [] (by simp [hn])
  have ht : vals.take (min n vals.length) = vals := List.take_of_length_le (by omega)
  rw [ht]; simpa using this

theorem newPath_eq (h : Heap) (segs : List Seg) :
    newPath h segs = (h ++ [segs], ⟨h.length, 0, segs.length, segs.length⟩) := by
  simp only [newPath, make, copy_fresh, storeFrom_zero_all segs _ rfl]

theorem parsePath_eq (h : Heap) (txt : Bytes) :
    parsePath h txt = (h ++ [Sel.parsePath txt], ⟨h.length, 0, (Sel.parsePath txt).length, (Sel.parsePath txt).length⟩) := by
  have := storeFrom_append ((splitSlash txt).map Seg.str) [] (List.replicate (splitSlash txt).length zeroSeg) [] (by simp)
  simp only [List.nil_append, List.append_nil, List.length_nil] at this
  simp only [parsePath, make, arr_fresh, set_fresh, this, Sel.parsePath, List.length_map]

/-- the array an allocating operation leaves behind has exactly the new slice's length, whatever its arguments -/
theorem appendSegment_shape (h : Heap) (p : Slice) (ps : Seg) :
    ∃ x, x.length = p.len + 1 ∧ appendSegment h p ps = (h ++ [x], ⟨h.length, 0, p.len + 1, p.len + 1⟩) := by
  simp only [appendSegment, make, copy_fresh, setIdx_fresh]
  exact ⟨_, by simp [storeFrom_length], rfl⟩

theorem join_shape (h : Heap) (p p2 : Slice) :
    ∃ x, x.length = p.len + p2.len ∧ join h p p2 = (h ++ [x], ⟨h.length, 0, p.len + p2.len, p.len + p2.len⟩) := by
  simp only [join, make, copy_fresh, Slice.sub]
  exact ⟨_, by simp [storeFrom_length], rfl⟩

theorem appendSegment_eq {h : Heap} {p : Slice} (w : p.WF h) (ps : Seg) :
    appendSegment h p ps = (h ++ [read h p ++ [ps]], ⟨h.length, 0, p.len + 1, p.len + 1⟩) := by
  have hl := read_length w
  have h1 := storeFrom_append (read h p) [] (List.replicate p.len zeroSeg) [zeroSeg] (by simp [hl])
  have h2 := storeFrom_append [ps] (read h p) [zeroSeg] [] (by simp)
  simp only [List.nil_append, List.length_nil, List.append_nil, hl] at h1 h2
  have hz : List.replicate (p.len + 1) zeroSeg = List.replicate p.len zeroSeg ++ [zeroSeg] := by
    simp [List.replicate_succ']
  have ht : (read h p).take (min (p.len + 1) (read h p).length) = read h p := List.take_of_length_le (by omega)
  simp only [appendSegment, make, copy_fresh, setIdx_fresh, read_ext w, ht, hz, h1, Nat.zero_add, h2]

theorem join_eq {h : Heap} {p p2 : Slice} (w : p.WF h) (w2 : p2.WF h) :
    join h p p2 = (h ++ [read h p ++ read h p2], ⟨h.length, 0, p.len + p2.len, p.len + p2.len⟩) := by
  have hl := read_length w
  have hl2 := read_length w2
  have h1 := storeFrom_append (read h p) [] (List.replicate p.len zeroSeg) (List.replicate p2.len zeroSeg) (by simp [hl])
  have h2 := storeFrom_append (read h p2) (read h p) (List.replicate p2.len zeroSeg) [] (by simp [hl2])
  simp only [List.nil_append, List.length_nil, List.append_nil, hl] at h1 h2
  have hz : List.replicate (p.len + p2.len) zeroSeg = List.replicate p.len zeroSeg ++ List.replicate p2.len zeroSeg := by
    exact List.replicate_append_replicate.symm
  have ht : (read h p).take (min (p.len + p2.len) (read h p).length) = read h p := List.take_of_length_le (by omega)
  have ht2 : (read h p2).take (min (p.len + p2.len - p.len) (read h p2).length) = read h p2 := List.take_of_length_le (by omega)
  simp only [join, make, copy_fresh, Slice.sub, read_ext w, read_ext w2, ht, ht2, hz, h1, Nat.zero_add, h2]

/-! ### the re-slicing operations -/

theorem nilSlice_WF (h : Heap) : nilSlice.WF h := by simp [Slice.WF, nilSlice]

theorem read_nilSlice (h : Heap) : read h nilSlice = [] := by simp [read, nilSlice]

theorem sub_WF {h : Heap} {p : Slice} (w : p.WF h) (lo hi : Nat) (h1 : lo ≤ hi) (h2 : hi ≤ p.cap) : (p.sub lo hi).WF h := by
  unfold Slice.WF at *; simp only [Slice.sub]; omega

theorem read_sub_le {h : Heap} {p : Slice} (lo hi : Nat) (h2 : hi ≤ p.len) :
    read h (p.sub lo hi) = ((read h p).take hi).drop lo := by
  simp only [read, Slice.sub, List.take_take, List.drop_take, List.drop_drop]
  congr 1
  omega

theorem parent_WF {h : Heap} {p : Slice} (w : p.WF h) : (parent p).WF h := by
  unfold parent; split
  · exact nilSlice_WF h
  · exact sub_WF w _ _ (Nat.zero_le _) (by unfold Slice.WF at w; omega)

theorem pop_WF {h : Heap} {p : Slice} (w : p.WF h) : (pop p).WF h := by
  unfold pop; split
  · exact nilSlice_WF h
  · exact sub_WF w _ _ (Nat.zero_le _) (by unfold Slice.WF at w; omega)

theorem shift_WF {h : Heap} {p : Slice} (w : p.WF h) : (shift p).WF h := by
  unfold shift; split
  · exact nilSlice_WF h
  · exact sub_WF w _ _ (by omega) (by unfold Slice.WF at w; omega)

theorem truncate_WF {h : Heap} {p q : Slice} (w : p.WF h) (n : Int) (hq : truncate p n = some q) : q.WF h := by
  unfold truncate at hq; split at hq
  · cases hq; exact sub_WF w _ _ (Nat.zero_le _) (by omega)
  · cases hq

theorem dropLast_eq_take (l : List Seg) : l.dropLast = l.take (l.length - 1) := by
  rw [List.dropLast_eq_take]

theorem read_parent {h : Heap} {p : Slice} (w : p.WF h) : read h (parent p) = (read h p).dropLast := by
  have hl := read_length w
  unfold parent; split
  · next h0 => rw [read_nilSlice, read_len_zero _ _ h0]; rfl
  · rw [read_sub_le _ _ (by omega), dropLast_eq_take, hl]; simp

theorem read_pop {h : Heap} {p : Slice} (w : p.WF h) : read h (pop p) = (read h p).dropLast := by
  have hl := read_length w
  unfold pop; split
  · next h0 => rw [read_nilSlice, read_len_zero _ _ (by omega)]; rfl
  · rw [read_sub_le _ _ (by omega), dropLast_eq_take, hl]; simp

theorem read_shift {h : Heap} {p : Slice} (w : p.WF h) : read h (shift p) = (read h p).drop 1 := by
  have hl := read_length w
  unfold shift; split
  · next h0 => rw [read_nilSlice, read_len_zero _ _ (by omega)]; rfl
  · rw [read_sub_le _ _ (Nat.le_refl _)]; rw [← hl]; simp

theorem read_truncate {h : Heap} {p : Slice} (w : p.WF h) (n : Int) (h0 : 0 ≤ n) (hn : n ≤ (p.len : Int)) :
    ∃ q, truncate p n = some q ∧ read h q = (read h p).take n.toNat := by
  have hc : n ≤ (p.cap : Int) := by unfold Slice.WF at w; omega
  refine ⟨p.sub 0 n.toNat, by simp [truncate, h0, hc], ?_⟩
  rw [read_sub_le _ _ (by omega)]; simp

/-! ### steps -/

/-- the heap after a step of path.go is the heap before it plus new arrays, and the paths are the old ones plus one -/
theorem step_shape {st st' : St} {op : Op} (hs : step st op = some st') :
    ∃ ext q, st'.heap = st.heap ++ ext ∧ st'.paths = st.paths ++ [q] ∧ (st.WF → q.WF st'.heap) := by
  cases op with
  | newPath segs =>
    simp only [step, stepWith, newPath_eq] at hs; cases hs
    exact ⟨[segs], _, rfl, rfl, fun _ => by simp [Slice.WF, Heap.arr]⟩
  | parsePath txt =>
    simp only [step, stepWith, parsePath_eq] at hs; cases hs
    exact ⟨[Sel.parsePath txt], _, rfl, rfl, fun _ => by simp [Slice.WF, Heap.arr]⟩
  | append i s =>
    simp only [step, stepWith, Option.map_eq_some_iff] at hs
    obtain ⟨p, _, rfl⟩ := hs
    obtain ⟨x, hx, he⟩ := appendSegment_shape st.heap p s
    exact ⟨[x], _, by rw [he], by rw [he], fun _ => by rw [he]; simp [Slice.WF, Heap.arr, hx]⟩
  | join i j =>
    simp only [step, stepWith, Option.bind_eq_some_iff, Option.map_eq_some_iff] at hs
    obtain ⟨p, _, p2, _, rfl⟩ := hs
    obtain ⟨x, hx, he⟩ := join_shape st.heap p p2
    exact ⟨[x], _, by rw [he], by rw [he], fun _ => by rw [he]; simp [Slice.WF, Heap.arr, hx]⟩
  | parent i =>
    simp only [step, stepWith, Option.map_eq_some_iff] at hs
    obtain ⟨p, hp, rfl⟩ := hs
    exact ⟨[], _, by simp, rfl, fun w => parent_WF (w p (List.mem_of_getElem? hp))⟩
  | pop i =>
    simp only [step, stepWith, Option.map_eq_some_iff] at hs
    obtain ⟨p, hp, rfl⟩ := hs
    exact ⟨[], _, by simp, rfl, fun w => pop_WF (w p (List.mem_of_getElem? hp))⟩
  | truncate i n =>
    simp only [step, stepWith, Option.bind_eq_some_iff, Option.map_eq_some_iff] at hs
    obtain ⟨p, hp, q, hq, rfl⟩ := hs
    exact ⟨[], _, by simp, rfl, fun w => truncate_WF (w p (List.mem_of_getElem? hp)) n hq⟩
  | shift i =>
    simp only [step, stepWith, Option.map_eq_some_iff] at hs
    obtain ⟨p, hp, rfl⟩ := hs
    exact ⟨[], _, by simp, rfl, fun w => shift_WF (w p (List.mem_of_getElem? hp))⟩

theorem step_WF {st st' : St} {op : Op} (w : st.WF) (hs : step st op = some st') : st'.WF := by
  obtain ⟨ext, q, hh, hp, hq⟩ := step_shape hs
  intro s hsm
  rw [hp, List.mem_append, List.mem_singleton] at hsm
  rcases hsm with hsm | rfl
  · rw [hh]; exact WF_ext (w s hsm) ext
  · exact hq w

theorem run_nil (st : St) : run st [] = some st := rfl

theorem run_cons (st : St) (op : Op) (ops : List Op) : run st (op :: ops) = (step st op).bind fun st' => run st' ops := rfl

theorem run_WF : ∀ (ops : List Op) {st st' : St}, st.WF → run st ops = some st' → st'.WF
  | [], st, st', w, h => by cases h; exact w
  | op :: ops, st, st', w, h => by
    rw [run_cons, Option.bind_eq_some_iff] at h
    obtain ⟨m, hm, hr⟩ := h
    exact run_WF ops (step_WF w hm) hr

end PathHeap
end Ipld
