/-
  Typed assemblers: `Reset()` on the root builder (`TAsm.Call.reset`, `TAsm.runC` of Model/TypedAssembler.lean).
  A history with resets is the history after its last reset run on a new builder; a history without resets is `run`.
  Helper lemmas for Props/C12typed.lean.
-/
import IpldModel.Lemmas.TypedAssemblerInv
namespace Ipld
namespace TAsm
open Ipld.Asm (Op Out ErrClass)
open Ipld.Schema (Ty Fields Field TL TLs TLKVs)

theorem runC_nil (e : Engine) (b : Bool) (s : St) : runC e b s [] = (s, []) := by
  cases b <;> rfl

theorem runC_reset (e : Engine) (b : Bool) (s : St) (h : List Call) :
    runC e b s (.reset :: h) = ((runC e false (init s.ty) h).1, .ok :: (runC e false (init s.ty) h).2) := by
  cases b <;> rfl

theorem runC_skip_op (e : Engine) (s : St) (o : Op) (h : List Call) :
    runC e true s (.op o :: h) = runC e true s h := rfl

theorem runC_op_panic {e : Engine} {s s' : St} {o : Op} (h : List Call) (hs : step e s o = (s', .panic)) :
    runC e false s (.op o :: h) = ((runC e true s' h).1, .panic :: (runC e true s' h).2) := by
  simp only [runC, hs]

theorem runC_op_ok {e : Engine} {s s' : St} {o : Op} (h : List Call) (hs : step e s o = (s', .ok)) :
    runC e false s (.op o :: h) = ((runC e false s' h).1, .ok :: (runC e false s' h).2) := by
  simp only [runC, hs]

theorem runC_op_err {e : Engine} {s s' : St} {o : Op} {c : ErrClass} (h : List Call)
    (hs : step e s o = (s', .err c)) :
    runC e false s (.op o :: h) = ((runC e false s' h).1, .err c :: (runC e false s' h).2) := by
  simp only [runC, hs]

/-- while passing over calls after a panic nothing happens -/
theorem runC_skip_ops (e : Engine) (s : St) : (ops : List Op) → runC e true s (ops.map .op) = (s, [])
  | [] => rfl
  | o :: ops => by simp only [List.map_cons, runC_skip_op, runC_skip_ops e s ops]

/-- a history without resets is `run` -/
theorem runC_ops (e : Engine) : (s : St) → (ops : List Op) → runC e false s (ops.map .op) = run e s ops
  | s, [] => rfl
  | s, o :: ops => by
    cases hs : step e s o with
    | mk s' out =>
      cases out with
      | ok => simp only [List.map_cons]; rw [runC_op_ok _ hs, run_cons_ok ops hs, runC_ops e s' ops]
      | err c => simp only [List.map_cons]; rw [runC_op_err _ hs, run_cons_err ops hs, runC_ops e s' ops]
      | panic => simp only [List.map_cons]; rw [runC_op_panic _ hs, run_cons_panic ops hs, runC_skip_ops]

theorem map_opsOf_of_noReset : (h : List Call) → hasReset h = false → (opsOf h).map .op = h
  | [], _ => rfl
  | .op o :: cs, hr => by
    simp only [hasReset] at hr
    simp only [opsOf, List.map_cons, map_opsOf_of_noReset cs hr]
  | .reset :: cs, hr => by simp [hasReset] at hr

theorem tailOps_of_noReset : (h : List Call) → hasReset h = false → tailOps h = opsOf h
  | [], _ => rfl
  | .op o :: cs, hr => by
    simp only [hasReset] at hr
    simp only [tailOps, hr, opsOf]
    rfl
  | .reset :: cs, hr => by simp [hasReset] at hr

/-- no call changes the builder's type -/
theorem runC_ty (e : Engine) : (b : Bool) → (s : St) → (h : List Call) → (runC e b s h).1.ty = s.ty
  | b, s, [] => by rw [runC_nil]
  | b, s, .reset :: cs => by rw [runC_reset]; exact runC_ty e false (init s.ty) cs
  | true, s, .op o :: cs => by rw [runC_skip_op]; exact runC_ty e true s cs
  | false, s, .op o :: cs => by
    have h1 := (step_hdr e s o).1
    cases hs : step e s o with
    | mk s' out =>
      rw [hs] at h1
      cases out with
      | ok => rw [runC_op_ok _ hs]; exact (runC_ty e false s' cs).trans h1
      | err c => rw [runC_op_err _ hs]; exact (runC_ty e false s' cs).trans h1
      | panic => rw [runC_op_panic _ hs]; exact (runC_ty e true s' cs).trans h1

/-- **Only what follows the last reset counts**: the state a history with a reset ends in is the state the calls made
    after its last reset reach on a new builder. -/
theorem runC_tail (e : Engine) : (b : Bool) → (s : St) → (h : List Call) → hasReset h = true →
    (runC e b s h).1 = (run e (init s.ty) (tailOps h)).1
  | b, s, [], hr => by simp [hasReset] at hr
  | b, s, .reset :: cs, _ => by
    rw [runC_reset]
    simp only [tailOps]
    cases hr : hasReset cs with
    | true => exact runC_tail e false (init s.ty) cs hr
    | false =>
      rw [tailOps_of_noReset cs hr, ← runC_ops]
      rw [map_opsOf_of_noReset cs hr]
  | true, s, .op o :: cs, hr => by
    simp only [hasReset] at hr
    rw [runC_skip_op]
    simp only [tailOps, hr, if_true]
    exact runC_tail e true s cs hr
  | false, s, .op o :: cs, hr => by
    simp only [hasReset] at hr
    simp only [tailOps, hr, if_true]
    have h1 := (step_hdr e s o).1
    cases hs : step e s o with
    | mk s' out =>
      rw [hs] at h1
      simp only at h1
      cases out with
      | ok => rw [runC_op_ok _ hs]; simp only; rw [runC_tail e false s' cs hr, h1]
      | err c => rw [runC_op_err _ hs]; simp only; rw [runC_tail e false s' cs hr, h1]
      | panic => rw [runC_op_panic _ hs]; simp only; rw [runC_tail e true s' cs hr, h1]

/-- the invariant holds after any history with resets -/
theorem runC_inv {e : Engine} (he : e.keyAsmDupMapKey = false) : (b : Bool) → (s : St) → (h : List Call) → Inv s →
    Inv (runC e b s h).1
  | b, s, [], hi => by rw [runC_nil]; exact hi
  | b, s, .reset :: cs, hi => by
    rw [runC_reset]
    exact runC_inv he false (init s.ty) cs (init_inv hi.wf.1 hi.wf.2)
  | true, s, .op o :: cs, hi => by rw [runC_skip_op]; exact runC_inv he true s cs hi
  | false, s, .op o :: cs, hi => by
    have h1 := step_inv o he hi
    cases hs : step e s o with
    | mk s' out =>
      rw [hs] at h1
      cases out with
      | ok => rw [runC_op_ok _ hs]; exact runC_inv he false s' cs h1
      | err c => rw [runC_op_err _ hs]; exact runC_inv he false s' cs h1
      | panic => rw [runC_op_panic _ hs]; exact runC_inv he true s' cs h1

end TAsm
end Ipld
