/-
  C16 helper lemmas, second part: `focused` at the level of the *expanded graph*
  (`expandFuel store fuel d`: every link of `d` resolved through `store`), and across any number of
  links.  Core Lean only.
-/
import IpldModel.Lemmas.Transform
namespace Ipld
namespace Transform
open Sel Walk

/-! ## `expandFuel`: unfolding -/

theorem expandFuel_zero (s : List (Bytes × DM)) (d : DM) : expandFuel s 0 d = d := by
  simp only [expandFuel]

theorem expandFuel_zero_fun (s : List (Bytes × DM)) : expandFuel s 0 = id := by
  funext d; exact expandFuel_zero s d

theorem expandFuel_map (s : List (Bytes × DM)) (j : Nat) (es : DMKVs) :
    expandFuel s (j + 1) (.map es) = .map (DMKVs.ofList (es.toList.map fun e => (e.1, expandFuel s j e.2))) := by
  simp only [expandFuel]

theorem expandFuel_list (s : List (Bytes × DM)) (j : Nat) (xs : DMs) :
    expandFuel s (j + 1) (.list xs) = .list (DMs.ofList (xs.toList.map (expandFuel s j))) := by
  simp only [expandFuel]

theorem expandFuel_link_some (s : List (Bytes × DM)) (j : Nat) (c : Bytes) (b : DM) (h : storeGet s c = some b) :
    expandFuel s (j + 1) (.link c) = expandFuel s j b := by
  simp only [expandFuel, h]

theorem expandFuel_link_none (s : List (Bytes × DM)) (j : Nat) (c : Bytes) (h : storeGet s c = none) :
    expandFuel s (j + 1) (.link c) = .link c := by
  simp only [expandFuel, h]

/-! ## Reading the expanded tree -/

/-- A child of `n` is found at the same segment of the expanded node, expanded with one unit less. -/
theorem lookup_expand (s : List (Bytes × DM)) (j : Nat) {n : DM} {seg : Seg} {ch : DM}
    (h : lookupBySegment n seg = some ch) :
    lookupBySegment (expandFuel s (j + 1) n) seg = some (expandFuel s j ch) := by
  cases n with
  | map es =>
    simp only [lookupBySegment] at h
    cases hf : es.toList.find? (fun e => e.1 == seg.toString) with
    | none => simp [hf] at h
    | some e =>
      simp only [hf, Option.map_some] at h
      injection h with h; subst h
      simp only [expandFuel_map, lookupBySegment, DMKVs.toList_ofList, List.find?_map]
      have : ((fun e : Bytes × DM => e.1 == seg.toString) ∘ fun e : Bytes × DM => (e.1, expandFuel s j e.2)) =
          (fun e => e.1 == seg.toString) := by funext e; rfl
      rw [this, hf]; rfl
  | list xs =>
    simp only [lookupBySegment] at h
    cases hi : seg.index with
    | none => simp [hi] at h
    | some i =>
      simp only [hi] at h
      split at h
      · cases h
      · rename_i hneg
        simp only [expandFuel_list, lookupBySegment, hi, hneg, if_false, DMs.toList_ofList, List.getElem?_map, h,
          Option.map_some]
  | _ => simp [lookupBySegment] at h

theorem lookup_expand' (s : List (Bytes × DM)) (j : Nat) {n : DM} {seg : Seg} {ch : DM}
    (h : lookupBySegment n seg = some ch) :
    lookupBySegment (expandFuel s j n) seg = some (expandFuel s (j - 1) ch) := by
  cases j with
  | zero => simp only [Nat.zero_sub, expandFuel_zero, h]
  | succ j => exact lookup_expand s j h

/-- A link-free path of the tree is a path of the expanded tree, to the expanded target (expanded with
    what is left of the fuel at that depth). -/
theorem getPlain_expand (s : List (Bytes × DM)) : ∀ (p : Path) (n t : DM) (j : Nat),
    getPlain n p = some t → getPlain (expandFuel s j n) p = some (expandFuel s (j - p.length) t)
  | [], n, t, j, h => by
    simp only [getPlain] at h; injection h with h; subst h
    simp only [getPlain, List.length_nil, Nat.sub_zero]
  | seg :: p, n, t, j, h => by
    simp only [getPlain] at h
    cases hl : lookupBySegment n seg with
    | none => simp [hl] at h
    | some ch =>
      simp only [hl] at h
      simp only [getPlain, lookup_expand' s j hl]
      rw [getPlain_expand s p ch t (j - 1) h]
      simp only [List.length_cons]
      congr 2; omega

theorem getPlain_append : ∀ (p q : Path) (n : DM),
    getPlain n (p ++ q) = (getPlain n p).bind fun m => getPlain m q
  | [], q, n => by simp only [List.nil_append, getPlain, Option.bind_some]
  | seg :: p, q, n => by
    simp only [List.cons_append, getPlain]
    cases lookupBySegment n seg with
    | none => rfl
    | some ch => exact getPlain_append p q ch

theorem updateAt_append : ∀ (p q : Path) (n mid : DM) (r : Option DM), getPlain n p = some mid →
    updateAt n (p ++ q) r = updateAt n p (updateAt mid q r)
  | [], q, n, mid, r, h => by
    simp only [getPlain] at h; injection h with h; subst h
    simp only [List.nil_append, updateAt]
  | seg :: p, q, n, mid, r, h => by
    simp only [getPlain] at h
    cases hl : lookupBySegment n seg with
    | none => simp [hl] at h
    | some ch =>
      simp only [hl] at h
      simp only [List.cons_append, updateAt, hl, updateAt_append p q ch mid r h]

/-! ## Siblings of the path -/

/-- Every child of `n` other than the one at `seg` satisfies `P`. -/
def Siblings (P : DM → Prop) (n : DM) (seg : Seg) : Prop :=
  match n with
  | .map es => ∀ e ∈ es.toList, e.1 ≠ seg.toString → P e.2
  | .list xs => ∀ (k : Nat) (x : DM), xs.toList[k]? = some x → seg.index ≠ some (k : Int) → P x
  | _ => True

/-- Every subtree hanging off the path `p` (the siblings of each node on the path) satisfies `P`.
    Nothing is said of the node at the end of the path. -/
def OffSubtrees (P : DM → Prop) : DM → Path → Prop
  | _, [] => True
  | n, seg :: p => Siblings P n seg ∧ ∀ c, lookupBySegment n seg = some c → OffSubtrees P c p

theorem siblings_of_all {P : DM → Prop} (h : ∀ d, P d) (n : DM) (seg : Seg) : Siblings P n seg := by
  cases n <;> simp only [Siblings]
  · intro k x _ _; exact h x
  · intro e _ _; exact h e.2

theorem offSubtrees_of_all {P : DM → Prop} (h : ∀ d, P d) : ∀ (p : Path) (n : DM), OffSubtrees P n p
  | [], _ => by simp only [OffSubtrees]
  | seg :: p, n => by
    simp only [OffSubtrees]
    exact ⟨siblings_of_all h n seg, fun c _ => offSubtrees_of_all h p c⟩

/-! ## `expandFuel` commutes with the functional update -/

theorem setEntry_map (F G : DM → DM) (k : Bytes) (o : Option DM) : ∀ (l : List (Bytes × DM)),
    (l.map (·.1)).Nodup → (∀ e ∈ l, e.1 ≠ k → G e.2 = F e.2) →
    (setEntry l k o).map (fun e => (e.1, G e.2)) = setEntry (l.map fun e => (e.1, F e.2)) k (o.map G)
  | [], _, _ => rfl
  | (k', v') :: l, hnd, h => by
    simp only [List.map_cons, List.nodup_cons] at hnd
    by_cases hk : k' = k
    · have hrest : l.map (fun e => (e.1, G e.2)) = l.map (fun e => (e.1, F e.2)) := by
        apply List.map_congr_left
        intro e he
        have hne : e.1 ≠ k := by
          intro heq; exact hnd.1 (by rw [hk, ← heq]; exact List.mem_map_of_mem he)
        rw [h e (by simp [he]) hne]
      cases o with
      | none => simp only [setEntry, hk, if_true, List.map_cons, Option.map_none, hrest]
      | some v => simp only [setEntry, hk, if_true, List.map_cons, Option.map_some, hrest]
    · have hv : G v' = F v' := h (k', v') (by simp) hk
      have ih := setEntry_map F G k o l hnd.2 (fun e he hne => h e (by simp [he]) hne)
      simp only [setEntry, hk, if_false, List.map_cons, hv, ih]

theorem take_drop_map_congr (F G : DM → DM) : ∀ (l : List DM) (i : Nat),
    (∀ (k : Nat) (x : DM), l[k]? = some x → k ≠ i → G x = F x) →
    (l.take i).map G = (l.take i).map F ∧ (l.drop (i + 1)).map G = (l.drop (i + 1)).map F
  | [], _, _ => by simp
  | a :: l, 0, h => by
    refine ⟨by simp, ?_⟩
    simp only [Nat.zero_add, List.drop_succ_cons, List.drop_zero]
    apply List.map_congr_left
    intro x hx
    obtain ⟨k, hk⟩ := List.mem_iff_getElem?.mp hx
    exact h (k + 1) x (by simpa using hk) (by omega)
  | a :: l, i + 1, h => by
    have ha : G a = F a := h 0 a (by simp) (by omega)
    have ih := take_drop_map_congr F G l i (fun k x hk hne => h (k + 1) x (by simpa using hk) (by omega))
    simp only [List.take_succ_cons, List.drop_succ_cons, List.map_cons, ha, ih.1, ih.2, and_self]

/-- Replacing / removing the child at `seg` and then expanding (through `s'`) is expanding (through `s`)
    and then replacing / removing the child by the expanded replacement — provided the two stores expand
    the *other* children alike. -/
theorem expand_setChild (s' s : List (Bytes × DM)) (j : Nat) {n : DM} {seg : Seg} {ch : DM} (o : Option DM)
    (hk : KeysNodup n) (hl : lookupBySegment n seg = some ch)
    (hoff : Siblings (fun d => expandFuel s' j d = expandFuel s j d) n seg) :
    expandFuel s' (j + 1) (setChild n seg o) = setChild (expandFuel s (j + 1) n) seg (o.map (expandFuel s' j)) := by
  cases n with
  | map es =>
    simp only [KeysNodup, DMKVs.keys] at hk
    simp only [Siblings] at hoff
    simp only [setChild, expandFuel_map, DMKVs.toList_ofList]
    rw [setEntry_map (expandFuel s j) (expandFuel s' j) seg.toString o es.toList hk hoff]
  | list xs =>
    simp only [Siblings] at hoff
    simp only [lookupBySegment] at hl
    cases hi : seg.index with
    | none => simp [hi] at hl
    | some i =>
      simp only [hi] at hl hoff
      split at hl
      · cases hl
      · rename_i hneg
        have hc := take_drop_map_congr (expandFuel s j) (expandFuel s' j) xs.toList i.toNat
          (fun k x hkx hne => hoff k x hkx (by intro he; injection he with he; omega))
        have ho : (o.toList).map (expandFuel s' j) = (o.map (expandFuel s' j)).toList := by cases o <;> rfl
        simp only [setChild, hi, expandFuel_list, DMs.toList_ofList, List.map_append, List.map_take, List.map_drop,
          hc.1, hc.2, ho]
  | _ => simp [lookupBySegment] at hl

/-- **Expansion commutes with `updateAt`** along a link-free path, provided the two stores expand alike
    every subtree hanging off the path. -/
theorem expand_updateAt (s' s : List (Bytes × DM)) : ∀ (p : Path) (n t : DM) (j : Nat) (r : Option DM),
    n.NoDup → getPlain n p = some t →
    OffSubtrees (fun d => ∀ j, expandFuel s' j d = expandFuel s j d) n p →
    (updateAt n p r).map (expandFuel s' j) =
      updateAt (expandFuel s j n) p (r.map (expandFuel s' (j - p.length)))
  | [], n, t, j, r, _, _, _ => by simp only [updateAt, List.length_nil, Nat.sub_zero]
  | seg :: p, n, t, j, r, hn, hg, ho => by
    simp only [getPlain] at hg
    cases hl : lookupBySegment n seg with
    | none => simp [hl] at hg
    | some ch =>
      simp only [hl] at hg
      simp only [OffSubtrees] at ho
      cases j with
      | zero =>
        simp only [expandFuel_zero_fun, Option.map_id_fun, id_eq, Nat.zero_sub, expandFuel_zero]
      | succ j =>
        have ih := expand_updateAt s' s p ch t j r (lookup_noDup hn hl) hg (ho.2 ch hl)
        have hsib : Siblings (fun d => expandFuel s' j d = expandFuel s j d) n seg := by
          have := ho.1
          cases n with
          | map es => simp only [Siblings] at this ⊢; exact fun e he hne => this e he hne j
          | list xs => simp only [Siblings] at this ⊢; exact fun k x hk hne => this k x hk hne j
          | _ => simp only [Siblings]
        rw [updateAt_cons _ _ hl, updateAt_cons _ _ (lookup_expand s j hl), Option.map_some,
          expand_setChild s' s j _ (keysNodup_of_noDup hn) hl hsib, ih]
        simp only [List.length_cons, Nat.add_sub_add_right]

/-! ## When two stores expand a tree alike -/

/-- The two stores expand `d` alike, whatever the fuel. -/
def Agree (s' s : List (Bytes × DM)) (d : DM) : Prop := ∀ j, expandFuel s' j d = expandFuel s j d

theorem expandFuel_congr_store (s' s : List (Bytes × DM)) (h : ∀ k, storeGet s' k = storeGet s k) :
    ∀ (j : Nat) (d : DM), expandFuel s' j d = expandFuel s j d
  | 0, d => by simp only [expandFuel_zero]
  | j + 1, d => by
    have ih := expandFuel_congr_store s' s h j
    cases d with
    | link c =>
      cases hs : storeGet s c with
      | none => rw [expandFuel_link_none s j c hs, expandFuel_link_none s' j c (by rw [h, hs])]
      | some b => rw [expandFuel_link_some s j c b hs, expandFuel_link_some s' j c b (by rw [h, hs])]; exact ih b
    | list xs =>
      simp only [expandFuel_list]
      have : expandFuel s' j = expandFuel s j := funext ih
      rw [this]
    | map es =>
      simp only [expandFuel_map]
      have : expandFuel s' j = expandFuel s j := funext ih
      rw [this]
    | _ => simp only [expandFuel]

mutual
/-- the link `c` occurs somewhere in the value (syntactically: blocks are not loaded) -/
def linkOccurs (c : Bytes) : DM → Bool
  | .link k => k == c
  | .list xs => linkOccursList c xs
  | .map es => linkOccursKVs c es
  | _ => false
def linkOccursList (c : Bytes) : DMs → Bool
  | .nil => false
  | .cons x xs => linkOccurs c x || linkOccursList c xs
def linkOccursKVs (c : Bytes) : DMKVs → Bool
  | .nil => false
  | .cons _ v es => linkOccurs c v || linkOccursKVs c es
end

theorem linkOccursKVs_mem (c : Bytes) : ∀ (es : DMKVs), linkOccursKVs c es = false →
    ∀ e ∈ es.toList, linkOccurs c e.2 = false
  | .nil, _, e, he => by simp [DMKVs.toList] at he
  | .cons k v es, h, e, he => by
    simp only [linkOccursKVs, Bool.or_eq_false_iff] at h
    simp only [DMKVs.toList, List.mem_cons] at he
    rcases he with rfl | he
    · exact h.1
    · exact linkOccursKVs_mem c es h.2 e he

theorem linkOccursList_mem (c : Bytes) : ∀ (xs : DMs), linkOccursList c xs = false →
    ∀ x ∈ xs.toList, linkOccurs c x = false
  | .nil, _, x, hx => by simp [DMs.toList] at hx
  | .cons y ys, h, x, hx => by
    simp only [linkOccursList, Bool.or_eq_false_iff] at h
    simp only [DMs.toList, List.mem_cons] at hx
    rcases hx with rfl | hx
    · exact h.1
    · exact linkOccursList_mem c ys h.2 x hx

theorem linkOccurs_lookup {c : Bytes} {n : DM} {seg : Seg} {ch : DM} (hn : linkOccurs c n = false)
    (h : lookupBySegment n seg = some ch) : linkOccurs c ch = false := by
  cases n with
  | map es =>
    simp only [lookupBySegment] at h
    cases hf : es.toList.find? (fun e => e.1 == seg.toString) with
    | none => simp [hf] at h
    | some e =>
      simp only [hf, Option.map_some] at h
      injection h with h; subst h
      simp only [linkOccurs] at hn
      exact linkOccursKVs_mem c es hn e (List.mem_of_find?_eq_some hf)
  | list xs =>
    simp only [lookupBySegment] at h
    cases hi : seg.index with
    | none => simp [hi] at h
    | some i =>
      simp only [hi] at h
      split at h
      · cases h
      · simp only [linkOccurs] at hn
        exact linkOccursList_mem c xs hn ch (List.mem_of_getElem? h)
  | _ => simp [lookupBySegment] at h

theorem storeGet_mem {s : List (Bytes × DM)} {c : Bytes} {b : DM} (h : storeGet s c = some b) : (c, b) ∈ s := by
  simp only [storeGet] at h
  cases hf : s.find? (fun e => e.1 == c) with
  | none => simp [hf] at h
  | some e =>
    simp only [hf, Option.map_some] at h
    injection h with h; subst h
    have hm := List.mem_of_find?_eq_some hf
    have hk : e.1 = c := by simpa using List.find?_some hf
    rw [← hk]; exact hm

/-- The link `c` occurs in no block of the store. -/
def StoreFreeOf (c : Bytes) (s : List (Bytes × DM)) : Prop := ∀ e ∈ s, linkOccurs c e.2 = false

instance (c : Bytes) (s : List (Bytes × DM)) : Decidable (StoreFreeOf c s) := by
  unfold StoreFreeOf; exact inferInstance

/-- A new entry under a key that occurs as a link nowhere (neither in `d` nor in any block) is never
    looked up when `d` is expanded. -/
theorem expandFuel_cons_fresh (c : Bytes) (b : DM) (s : List (Bytes × DM)) (hs : StoreFreeOf c s) :
    ∀ (j : Nat) (d : DM), linkOccurs c d = false → expandFuel ((c, b) :: s) j d = expandFuel s j d
  | 0, d, _ => by simp only [expandFuel_zero]
  | j + 1, d, hd => by
    have ih := expandFuel_cons_fresh c b s hs j
    cases d with
    | link k =>
      simp only [linkOccurs, beq_eq_false_iff_ne] at hd
      have hk : storeGet ((c, b) :: s) k = storeGet s k := storeGet_cons_ne c k b s hd
      cases hg : storeGet s k with
      | none => rw [expandFuel_link_none s j k hg, expandFuel_link_none _ j k (by rw [hk, hg])]
      | some blk =>
        rw [expandFuel_link_some s j k blk hg, expandFuel_link_some _ j k blk (by rw [hk, hg])]
        exact ih blk (hs _ (storeGet_mem hg))
    | list xs =>
      simp only [linkOccurs] at hd
      simp only [expandFuel_list]
      rw [List.map_congr_left (fun x hx => ih x (linkOccursList_mem c xs hd x hx))]
    | map es =>
      simp only [linkOccurs] at hd
      simp only [expandFuel_map]
      rw [List.map_congr_left (fun e he => by rw [ih e.2 (linkOccursKVs_mem c es hd e he)])]
    | _ => simp only [expandFuel]

/-- A new entry that repeats what its key already loads changes no expansion. -/
theorem expandFuel_cons_same (c : Bytes) (b : DM) (s : List (Bytes × DM)) (h : storeGet s c = some b) (j : Nat) (d : DM) :
    expandFuel ((c, b) :: s) j d = expandFuel s j d := by
  apply expandFuel_congr_store
  intro k
  by_cases hk : k = c
  · subst hk; rw [storeGet_cons_self, h]
  · exact storeGet_cons_ne c k b s hk

theorem siblings_of_noOcc {P : DM → Prop} {c : Bytes} (h : ∀ d, linkOccurs c d = false → P d) {n : DM}
    (hn : linkOccurs c n = false) (seg : Seg) : Siblings P n seg := by
  cases n <;> simp only [Siblings]
  · rename_i xs
    simp only [linkOccurs] at hn
    intro k x hk _; exact h x (linkOccursList_mem c xs hn x (List.mem_of_getElem? hk))
  · rename_i es
    simp only [linkOccurs] at hn
    intro e he _; exact h e.2 (linkOccursKVs_mem c es hn e he)

theorem offSubtrees_of_noOcc {P : DM → Prop} {c : Bytes} (h : ∀ d, linkOccurs c d = false → P d) :
    ∀ (p : Path) (n : DM), linkOccurs c n = false → OffSubtrees P n p
  | [], _, _ => by simp only [OffSubtrees]
  | seg :: p, n, hn => by
    simp only [OffSubtrees]
    exact ⟨siblings_of_noOcc h hn seg, fun ch hl => offSubtrees_of_noOcc h p ch (linkOccurs_lookup hn hl)⟩

/-- A tree without links is its own expansion. -/
theorem expandFuel_linkfree (s : List (Bytes × DM)) : ∀ (j : Nat) (d : DM), Spec.hasLink d = false →
    expandFuel s j d = d
  | 0, d, _ => expandFuel_zero s d
  | j + 1, d, hd => by
    have ih := expandFuel_linkfree s j
    cases d with
    | link k => simp [Spec.hasLink] at hd
    | list xs =>
      simp only [Spec.hasLink] at hd
      simp only [expandFuel_list]
      rw [List.map_congr_left (g := id) (fun x hx => ih x (hasLinkList_mem xs hd x hx))]
      simp
    | map es =>
      simp only [Spec.hasLink] at hd
      simp only [expandFuel_map]
      rw [List.map_congr_left (g := id) (fun e he => by rw [ih e.2 (hasLinkKVs_mem es hd e he)]; rfl)]
      simp
    | _ => simp only [expandFuel]

/-! ## One link on the path, at the level of the expanded graph -/

/-- **Core of E1.**  `s' = (c', b') :: s` is the store after the transform, `y` the new root (the old one with
    `.link c'` where `.link c` was), `blk0` the functionally updated block.  If the two stores expand alike
    every subtree hanging off `pre` in the root and off `rest` in the block, then for every fuel that
    reaches the link (`pre.length < F`):
    (1) the expanded new graph is the expanded old graph with the expansion of the *stored* block `b'` at `pre`;
    (2) the expansion of the updated block is the update of the expanded block;
    (3) if the block is stored as it is (`b' = blk0`), the expanded new graph is the functional update
        of the expanded old graph at `pre ++ rest`.
    The replacement is expanded with the fuel left at its depth (`0` = not at all). -/
theorem expand_relink_core (s : List (Bytes × DM)) (c c' : Bytes) (pre rest : Path) (root blk t blk0 b' y : DM)
    (r : Option DM) (F : Nat)
    (hn : root.NoDup) (hb : blk.NoDup) (hg : getPlain root pre = some (.link c)) (hs : storeGet s c = some blk)
    (hg2 : getPlain blk rest = some t)
    (hb0 : updateAt blk rest r = some blk0) (hy : updateAt root pre (some (.link c')) = some y)
    (ho1 : OffSubtrees (Agree ((c', b') :: s) s) root pre) (ho2 : OffSubtrees (Agree ((c', b') :: s) s) blk rest)
    (hF : pre.length < F) :
    some (expandFuel ((c', b') :: s) F y) =
        updateAt (expandFuel s F root) pre (some (expandFuel ((c', b') :: s) (F - pre.length - 1) b')) ∧
    some (expandFuel ((c', b') :: s) (F - pre.length - 1) blk0) =
        updateAt (expandFuel s (F - pre.length - 1) blk) rest
          (r.map (expandFuel ((c', b') :: s) (F - pre.length - 1 - rest.length))) ∧
    (b' = blk0 → some (expandFuel ((c', b') :: s) F y) =
        updateAt (expandFuel s F root) (pre ++ rest)
          (r.map (expandFuel ((c', b') :: s) (F - pre.length - 1 - rest.length)))) := by
  obtain ⟨m, hm⟩ : ∃ m, F - pre.length = m + 1 := ⟨F - pre.length - 1, by omega⟩
  have hm' : F - pre.length - 1 = m := by omega
  have h1 := expand_updateAt ((c', b') :: s) s pre root (.link c) F (some (.link c')) hn hg ho1
  rw [hy, Option.map_some, Option.map_some, hm, expandFuel_link_some _ m c' b' (storeGet_cons_self _ _ _)] at h1
  have h2 := expand_updateAt ((c', b') :: s) s rest blk t m r hb hg2 ho2
  rw [hb0, Option.map_some] at h2
  rw [hm']
  refine ⟨h1, h2, fun hbb => ?_⟩
  have hgp : getPlain (expandFuel s F root) pre = some (expandFuel s m blk) := by
    rw [getPlain_expand s pre root (.link c) F hg, hm, expandFuel_link_some s m c blk hs]
  rw [updateAt_append pre rest _ _ _ hgp, ← h2, h1, hbb]

/-! ## Freshness of the new link -/

/-- What is asked of the link `c'` under which the changed block `b'` is stored, relative to the store `s`
    before the transform and the old root.  Either
    * `c'` already loads exactly `b'` (content addressing: writing the block again changes nothing — e.g. the
      identity transform, or a value written back unchanged), or
    * `c'` occurs as a link nowhere: not in the root, not in any block of the store.  (Then whether `c'` is a
      key of the store or not is immaterial: no expansion ever asks for it.)
    Decidable.  Both alternatives fail only if `linkOf` collides with a link already present in the
    graph that does *not* load `b'`: a link to a different block (hash collision), or a dangling link
    (see `fresh_needed_collision`, `fresh_needed_dangling` in `Props/C16.lean`). -/
def FreshLink (c' : Bytes) (b' : DM) (s : List (Bytes × DM)) (root : DM) : Prop :=
  storeGet s c' = some b' ∨ (linkOccurs c' root = false ∧ StoreFreeOf c' s)

instance (c' : Bytes) (b' : DM) (s : List (Bytes × DM)) (root : DM) : Decidable (FreshLink c' b' s root) := by
  unfold FreshLink StoreFreeOf; exact inferInstance

/-- Under `FreshLink` the store with the new entry expands alike every tree that does not mention the
    new link. -/
theorem fresh_agree {c' : Bytes} {b' : DM} {s : List (Bytes × DM)} {root : DM} (h : FreshLink c' b' s root)
    (d : DM) (hd : linkOccurs c' d = false) : Agree ((c', b') :: s) s d := by
  intro j
  rcases h with h | ⟨_, h⟩
  · exact expandFuel_cons_same c' b' s h j d
  · exact expandFuel_cons_fresh c' b' s h j d hd

/-- …and every subtree hanging off any path of the root or of any block of the store. -/
theorem fresh_offSubtrees {c' : Bytes} {b' : DM} {s : List (Bytes × DM)} {root : DM} (h : FreshLink c' b' s root)
    (n : DM) (hn : n = root ∨ ∃ k, storeGet s k = some n) (p : Path) :
    OffSubtrees (Agree ((c', b') :: s) s) n p := by
  rcases h with h | ⟨h1, h2⟩
  · exact offSubtrees_of_all (fun d j => expandFuel_cons_same c' b' s h j d) p n
  · apply offSubtrees_of_noOcc (c := c') (fun d hd j => expandFuel_cons_fresh c' b' s h2 j d hd) p n
    rcases hn with rfl | ⟨k, hk⟩
    · exact h1
    · exact h2 _ (storeGet_mem hk)

/-! ## Across any number of links -/

/-- Resolve `path` from `n` the way `focusedTransform` walks: a link met with more path to go is loaded
    and the walk continues in the block with the same path (one unit of fuel, like a segment).  Answers
    the target (not loaded if it is itself a link) and the number of links crossed. -/
def resolve (s : List (Bytes × DM)) : Nat → DM → Path → Option (DM × Nat)
  | _, n, [] => some (n, 0)
  | 0, _, _ :: _ => none
  | f + 1, n, seg :: p =>
    match lookupBySegment n seg with
    | some ch => resolve s f ch p
    | none =>
      match n with
      | .link c =>
        match storeGet s c with
        | none => none
        | some b => (resolve s f b (seg :: p)).map fun q => (q.1, q.2 + 1)
      | _ => none

theorem resolve_nil (s : List (Bytes × DM)) (f : Nat) (n : DM) : resolve s f n [] = some (n, 0) := by
  cases f <;> simp only [resolve]

/-- No link crossed: `resolve` is `getPlain`. -/
theorem resolve_of_getPlain (s : List (Bytes × DM)) : ∀ (p : Path) (n t : DM) (f : Nat),
    getPlain n p = some t → p.length ≤ f → resolve s f n p = some (t, 0)
  | [], n, t, f, h, _ => by
    simp only [getPlain] at h; injection h with h; subst h; exact resolve_nil s f n
  | seg :: p, n, t, f, h, hf => by
    obtain ⟨f', rfl⟩ : ∃ f', f = f' + 1 := ⟨f - 1, by simp only [List.length_cons] at hf; omega⟩
    simp only [getPlain] at h
    cases hl : lookupBySegment n seg with
    | none => simp [hl] at h
    | some ch =>
      simp only [hl] at h
      simp only [resolve, hl]
      exact resolve_of_getPlain s p ch t f' h (by simp only [List.length_cons] at hf; omega)

theorem resolve_prefix (s : List (Bytes × DM)) (rest : Path) (f : Nat) : ∀ (pre : Path) (n mid : DM),
    getPlain n pre = some mid → resolve s (pre.length + f) n (pre ++ rest) = resolve s f mid rest
  | [], n, mid, h => by
    simp only [getPlain] at h; injection h with h; subst h
    simp only [List.length_nil, Nat.zero_add, List.nil_append]
  | seg :: pre, n, mid, h => by
    simp only [getPlain] at h
    cases hl : lookupBySegment n seg with
    | none => simp [hl] at h
    | some ch =>
      simp only [hl] at h
      have hf : (seg :: pre).length + f = (pre.length + f) + 1 := by simp only [List.length_cons]; omega
      rw [hf, List.cons_append]
      simp only [resolve, hl]
      exact resolve_prefix s rest f pre ch mid h

/-- The situation of `relink` (one link on the path) is `resolve … = some (target, 1)`. -/
theorem resolve_one_link (s : List (Bytes × DM)) (pre rest : Path) (root blk target : DM) (c : Bytes) (k : Nat)
    (hr : rest ≠ []) (hg : getPlain root pre = some (.link c)) (hs : storeGet s c = some blk)
    (hg2 : getPlain blk rest = some target) (hk : rest.length ≤ k) :
    resolve s (pre.length + (k + 1)) root (pre ++ rest) = some (target, 1) := by
  rw [resolve_prefix s rest (k + 1) pre root (.link c) hg]
  obtain ⟨seg, p2, rfl⟩ : ∃ a b, rest = a :: b := by
    cases rest with
    | nil => exact absurd rfl hr
    | cons a b => exact ⟨a, b, rfl⟩
  simp only [resolve, lookupBySegment, hs, resolve_of_getPlain s (seg :: p2) blk target k hg2 hk, Option.map_some]

/-- Reading `p` from `n` through the store `T` arrives at the non-link `v`, loading `k` blocks on the way
    (fuel-free description of what `traversal.Get` does). -/
inductive Reads (T : List (Bytes × DM)) : Nat → DM → Path → DM → Prop
  | done (v : DM) : (∀ c, v ≠ .link c) → Reads T 0 v [] v
  | link (k : Nat) (c : Bytes) (b : DM) (p : Path) (v : DM) :
      storeGet T c = some b → Reads T k b p v → Reads T (k + 1) (.link c) p v
  | step (k : Nat) (n : DM) (seg : Seg) (ch : DM) (p : Path) (v : DM) :
      lookupBySegment n seg = some ch → Reads T k ch p v → Reads T k n (seg :: p) v

theorem followLinks_mono (T : List (Bytes × DM)) : ∀ (F : Nat) (x m : DM),
    followLinks T F x = .ok m → followLinks T (F + 1) x = .ok m
  | 0, _, _, h => by simp [followLinks] at h
  | F + 1, x, m, h => by
    cases x with
    | link c =>
      simp only [followLinks] at h ⊢
      cases hs : storeGet T c with
      | none => simp [hs] at h
      | some b =>
        simp only [hs] at h ⊢
        exact followLinks_mono T F b m h
    | _ => simp only [followLinks] at h ⊢; exact h

/-- `Reads` is what `traversal.Get` computes, given fuel for the loads: first the links at the start are
    followed (`Get` itself does not do that for its root), then `Walk.get` arrives at `v`. -/
theorem reads_get (T : List (Bytes × DM)) {k : Nat} {n : DM} {p : Path} {v : DM} (h : Reads T k n p v) :
    ∀ F, k < F → ∃ m, followLinks T F n = .ok m ∧ Walk.get T F m p = .ok v := by
  induction h with
  | done v hv =>
    intro F hF
    obtain ⟨f, rfl⟩ : ∃ f, F = f + 1 := ⟨F - 1, by omega⟩
    exact ⟨v, followLinks_nonlink T f v hv, by simp only [Walk.get]⟩
  | link k c b p v hs _ ih =>
    intro F hF
    obtain ⟨f, rfl⟩ : ∃ f, F = f + 1 := ⟨F - 1, by omega⟩
    obtain ⟨m, hm1, _⟩ := ih f (by omega)
    obtain ⟨m', hm1', hm2'⟩ := ih (f + 1) (by omega)
    have := followLinks_mono T f b m hm1
    rw [hm1'] at this; injection this with this; subst this
    exact ⟨m', by simp only [followLinks, hs]; exact hm1, hm2'⟩
  | step k n seg ch p v hl _ ih =>
    intro F hF
    obtain ⟨f, rfl⟩ : ∃ f, F = f + 1 := ⟨F - 1, by omega⟩
    obtain ⟨m, hm1, hm2⟩ := ih (f + 1) hF
    refine ⟨n, followLinks_nonlink T f n (lookup_nonlink hl), ?_⟩
    simp only [Walk.get, getStep_of_lookup T (f + 1) hl, hm1, bind, Except.bind]
    exact hm2

/-- If equal keys carry equal blocks among the written entries, each of them is loaded back from the
    store they were prepended to. -/
theorem written_loads_back (linkOf : DM → Bytes) (hinj : ∀ a b, linkOf a = linkOf b → a = b)
    (s : List (Bytes × DM)) : ∀ (W : List (Bytes × DM)), (∀ e ∈ W, e.1 = linkOf e.2) →
    ∀ e ∈ W, storeGet (W ++ s) e.1 = some e.2
  | [], _, e, he => by simp at he
  | a :: W, hW, e, he => by
    by_cases hk : e.1 = a.1
    · have h2 : a.2 = e.2 := hinj _ _ (by rw [← hW a (by simp), ← hW e he, hk])
      rw [hk, ← h2]
      exact storeGet_cons_self a.1 a.2 (W ++ s)
    · have he' : e ∈ W := by
        simp only [List.mem_cons] at he
        rcases he with rfl | he
        · exact absurd rfl hk
        · exact he
      have := written_loads_back linkOf hinj s W (fun e he => hW e (by simp [he])) e he'
      rw [← this]
      exact storeGet_cons_ne a.1 e.1 a.2 (W ++ s) hk

section through
variable (fn : Fn) (linkOf : DM → Bytes) (canon : DM → DM) (cp : Bool)

/-- **The transform across any number of links.**  If the path resolves from `n` to `t` crossing `k`
    links (all blocks `NoDup`), the transform succeeds; it prepends `k` entries `W` to the store and to
    `written`, each keyed by `linkOf` of its block; a non-empty path never yields a nil node, and a
    non-link root stays a non-link; and if the callback answers `some v` (not a link) and the codec
    writes blocks as they are, `v` is read at `p` from the result through *any* store that loads the
    written entries back. -/
theorem focused_through : ∀ (f : Nat) (p : Path) (n t : DM) (k : Nat) (at_ : Path) (st : TSt),
    resolve st.store f n p = some (t, k) → n.NoDup → (∀ e ∈ st.store, e.2.NoDup) →
    ∃ (Y : Option DM) (W : List (Bytes × DM)),
      focused fn linkOf canon cp (f + 1) at_ (some n) p st =
        .ok (Y, { store := W ++ st.store, written := W ++ st.written }) ∧
      W.length = k ∧ (∀ e ∈ W, e.1 = linkOf e.2) ∧
      (p ≠ [] → ∃ y, Y = some y) ∧
      (p ≠ [] → (∀ c, n ≠ .link c) → ∀ y, Y = some y → ∀ c, y ≠ .link c) ∧
      (∀ v, fn (at_ ++ p) (some t) = some v → (∀ c, v ≠ .link c) → (∀ b, canon b = b) →
        ∃ y, Y = some y ∧ ∀ T, (∀ e ∈ W, storeGet T e.1 = some e.2) → Reads T k y p v)
  | f, [], n, t, k, at_, st, hr, _, _ => by
    rw [resolve_nil] at hr
    injection hr with hr; injection hr with h1 h2; subst h1 h2
    refine ⟨fn at_ (some n), [], ?_, rfl, by simp, fun h => absurd rfl h, fun h => absurd rfl h, ?_⟩
    · simp only [focused_nil, List.nil_append]
    · intro v hv hnl _
      rw [List.append_nil] at hv
      exact ⟨v, hv, fun T _ => Reads.done v hnl⟩
  | 0, _ :: _, _, _, _, _, _, hr, _, _ => by simp [resolve] at hr
  | f + 1, seg :: p2, n, t, k, at_, st, hr, hn, hst => by
    simp only [resolve] at hr
    cases hl : lookupBySegment n seg with
    | some ch =>
      simp only [hl] at hr
      by_cases hp : p2 = []
      · subst hp
        rw [resolve_nil] at hr
        injection hr with hr; injection hr with h1 h2; subst h1 h2
        refine ⟨some (setChild n seg (fn (at_ ++ [seg]) (some ch))), [], ?_, rfl, by simp, fun _ => ⟨_, rfl⟩, ?_, ?_⟩
        · rw [focused_last fn linkOf canon cp (f + 1) at_ n seg ch st (keysNodup_of_noDup hn) hl]
          simp only [List.nil_append]
        · intro _ _ y hy c
          injection hy with hy; subst hy
          exact setChild_nonlink _ hl c
        · intro v hv hnl _
          refine ⟨_, rfl, fun T _ => ?_⟩
          rw [hv]
          exact Reads.step 0 _ seg v [] v (lookup_setChild_same v hl) (Reads.done v hnl)
      · obtain ⟨Y0, W, hfoc, hlen, hkeys, hsome, _, hread⟩ :=
          focused_through f p2 ch t k (at_ ++ [seg]) st hr (lookup_noDup hn hl) hst
        obtain ⟨y0, rfl⟩ := hsome hp
        refine ⟨some (setChild n seg (some y0)), W, ?_, hlen, hkeys, fun _ => ⟨_, rfl⟩, ?_, ?_⟩
        · rw [focused_step fn linkOf canon cp (f + 1) at_ n seg p2 ch st hp (keysNodup_of_noDup hn) hl, hfoc]
          rfl
        · intro _ _ y hy c
          injection hy with hy; subst hy
          exact setChild_nonlink _ hl c
        · intro v hv hnl hcanon
          have hv' : fn (at_ ++ [seg] ++ p2) (some t) = some v := by
            rw [List.append_assoc]; exact hv
          obtain ⟨y1, hy1, hr1⟩ := hread v hv' hnl hcanon
          injection hy1 with hy1; subst hy1
          exact ⟨_, rfl, fun T hT => Reads.step k _ seg y0 p2 v (lookup_setChild_same y0 hl) (hr1 T hT)⟩
    | none =>
      simp only [hl] at hr
      cases n with
      | link c =>
        simp only [] at hr
        cases hs : storeGet st.store c with
        | none => simp [hs] at hr
        | some b =>
          simp only [hs] at hr
          cases hr0 : resolve st.store f b (seg :: p2) with
          | none => simp [hr0] at hr
          | some q =>
            obtain ⟨t0, k0⟩ := q
            simp only [hr0, Option.map_some] at hr
            injection hr with hr; injection hr with h1 h2
            subst h1 h2
            have hbn : b.NoDup := hst (c, b) (storeGet_mem hs)
            obtain ⟨Y0, W, hfoc, hlen, hkeys, hsome, _, hread⟩ :=
              focused_through f (seg :: p2) b t0 k0 at_ st hr0 hbn hst
            obtain ⟨y0, rfl⟩ := hsome (by simp)
            refine ⟨some (.link (linkOf (canon y0))), (linkOf (canon y0), canon y0) :: W, ?_, by simp [hlen], ?_,
              fun _ => ⟨_, rfl⟩, fun _ h => absurd rfl (h c), ?_⟩
            · rw [focused_link fn linkOf canon cp (f + 1) at_ c seg p2 st b hs, hfoc]
              rfl
            · intro e he
              simp only [List.mem_cons] at he
              rcases he with rfl | he
              · rfl
              · exact hkeys e he
            · intro v hv hnl hcanon
              obtain ⟨y1, hy1, hr1⟩ := hread v hv hnl hcanon
              injection hy1 with hy1; subst hy1
              refine ⟨_, rfl, fun T hT => ?_⟩
              have hhead := hT (linkOf (canon y0), canon y0) (by simp)
              simp only [hcanon y0] at hhead ⊢
              exact Reads.link k0 _ y0 (seg :: p2) v hhead (hr1 T (fun e he => hT e (by simp [he])))
      | _ => simp at hr

end through

/-! ## Across any number of links, at the level of the expanded graph -/

/-- `P` is inherited by the children of a node: by the one at a segment and by all the others. -/
def Hereditary (P : DM → Prop) : Prop :=
  ∀ n, P n → ∀ seg, Siblings P n seg ∧ ∀ ch, lookupBySegment n seg = some ch → P ch

/-- None of the keys of `W` occurs as a link in `d`. -/
def NoKeyOf (W : List (Bytes × DM)) (d : DM) : Prop := ∀ e ∈ W, linkOccurs e.1 d = false

theorem hereditary_noKeyOf (W : List (Bytes × DM)) : Hereditary (NoKeyOf W) := by
  intro n hn seg
  refine ⟨?_, fun ch hl e he => linkOccurs_lookup (hn e he) hl⟩
  cases n <;> simp only [Siblings]
  · rename_i xs
    intro k x hk _ e he
    have := hn e he
    simp only [linkOccurs] at this
    exact linkOccursList_mem e.1 xs this x (List.mem_of_getElem? hk)
  · rename_i es
    intro e' he' _ e he
    have := hn e he
    simp only [linkOccurs] at this
    exact linkOccursKVs_mem e.1 es this e' he'

theorem storeGet_append_notin (s : List (Bytes × DM)) (k : Bytes) : ∀ (W : List (Bytes × DM)),
    (∀ e ∈ W, e.1 ≠ k) → storeGet (W ++ s) k = storeGet s k
  | [], _ => rfl
  | a :: W, h => by
    have := storeGet_append_notin s k W (fun e he => h e (by simp [he]))
    rw [← this]
    exact storeGet_cons_ne a.1 k a.2 (W ++ s) (fun he => h a (by simp) he.symm)

/-- New entries under keys that occur as links nowhere (neither in `d` nor in a block of `s`) are never
    looked up when `d` is expanded. -/
theorem expandFuel_append_fresh (W s : List (Bytes × DM)) (hs : ∀ e ∈ W, StoreFreeOf e.1 s) :
    ∀ (j : Nat) (d : DM), NoKeyOf W d → expandFuel (W ++ s) j d = expandFuel s j d
  | 0, d, _ => by simp only [expandFuel_zero]
  | j + 1, d, hd => by
    have ih := expandFuel_append_fresh W s hs j
    cases d with
    | link k =>
      have hk : storeGet (W ++ s) k = storeGet s k := by
        apply storeGet_append_notin
        intro e he heq
        have := hd e he
        simp only [linkOccurs, beq_eq_false_iff_ne] at this
        exact this heq.symm
      cases hg : storeGet s k with
      | none => rw [expandFuel_link_none s j k hg, expandFuel_link_none _ j k (by rw [hk, hg])]
      | some blk =>
        rw [expandFuel_link_some s j k blk hg, expandFuel_link_some _ j k blk (by rw [hk, hg])]
        exact ih blk (fun e he => hs e he _ (storeGet_mem hg))
    | list xs =>
      simp only [expandFuel_list]
      rw [List.map_congr_left (fun x hx => ih x (fun e he => by
        have := hd e he
        simp only [linkOccurs] at this
        exact linkOccursList_mem e.1 xs this x hx))]
    | map es =>
      simp only [expandFuel_map]
      rw [List.map_congr_left (fun e' he' => by
        rw [ih e'.2 (fun e he => by
          have := hd e he
          simp only [linkOccurs] at this
          exact linkOccursKVs_mem e.1 es this e' he')])]
    | _ => simp only [expandFuel]

/-- The path of `resolve` is a link-free path of the expanded tree, once the fuel covers the segments
    and the links crossed. -/
theorem getPlain_expand_resolve (s : List (Bytes × DM)) : ∀ (f : Nat) (p : Path) (n t : DM) (k j : Nat),
    resolve s f n p = some (t, k) → p.length + k ≤ j →
    getPlain (expandFuel s j n) p = some (expandFuel s (j - p.length - k) t)
  | f, [], n, t, k, j, hr, _ => by
    rw [resolve_nil] at hr
    injection hr with hr; injection hr with h1 h2; subst h1 h2
    simp only [getPlain, List.length_nil, Nat.sub_zero]
  | 0, _ :: _, _, _, _, _, hr, _ => by simp [resolve] at hr
  | f + 1, seg :: p2, n, t, k, j, hr, hj => by
    simp only [resolve] at hr
    obtain ⟨j', rfl⟩ : ∃ j', j = j' + 1 := ⟨j - 1, by simp only [List.length_cons] at hj; omega⟩
    cases hl : lookupBySegment n seg with
    | some ch =>
      simp only [hl] at hr
      simp only [getPlain, lookup_expand s j' hl]
      rw [getPlain_expand_resolve s f p2 ch t k j' hr (by simp only [List.length_cons] at hj; omega)]
      simp only [List.length_cons]
      congr 2; omega
    | none =>
      simp only [hl] at hr
      cases n with
      | link c =>
        simp only [] at hr
        cases hs : storeGet s c with
        | none => simp [hs] at hr
        | some b =>
          simp only [hs] at hr
          cases hr0 : resolve s f b (seg :: p2) with
          | none => simp [hr0] at hr
          | some q =>
            obtain ⟨t0, k0⟩ := q
            simp only [hr0, Option.map_some] at hr
            injection hr with hr; injection hr with h1 h2
            subst h1 h2
            rw [expandFuel_link_some s j' c b hs,
              getPlain_expand_resolve s f (seg :: p2) b t0 k0 j' hr0 (by omega)]
            congr 2; omega
      | _ => simp at hr

section through2
variable (fn : Fn) (linkOf : DM → Bytes) (canon : DM → DM) (cp : Bool)

/-- One level of `focused` over an existing child, last segment or not: the child's result is put in place. -/
theorem focused_child (f : Nat) (at_ : Path) (n : DM) (seg : Seg) (p2 : Path) (ch : DM) (st st' : TSt)
    (Y0 : Option DM) (hk : KeysNodup n) (hl : lookupBySegment n seg = some ch)
    (h : focused fn linkOf canon cp (f + 1) (at_ ++ [seg]) (some ch) p2 st = .ok (Y0, st'))
    (hsome : p2 ≠ [] → ∃ y, Y0 = some y) :
    focused fn linkOf canon cp (f + 2) at_ (some n) (seg :: p2) st = .ok (some (setChild n seg Y0), st') := by
  by_cases hp : p2 = []
  · subst hp
    rw [focused_nil] at h
    injection h with h; injection h with h1 h2; subst h1 h2
    exact focused_last fn linkOf canon cp (f + 1) at_ n seg ch st hk hl
  · obtain ⟨y0, rfl⟩ := hsome hp
    rw [focused_step fn linkOf canon cp (f + 1) at_ n seg p2 ch st hp hk hl, h]
    rfl

/-- **The transform across any number of links, expanded graph.**  If the path resolves from `n` to `t`
    crossing `k` links: for every store `T` that loads the written entries back and expands like the
    old store everything inheriting `P` (a property of `n` and of all old blocks, inherited by
    children), the result expanded through `T` is the functional update of `n` expanded through the old
    store. -/
theorem focused_through_expand : ∀ (f : Nat) (p : Path) (n t : DM) (k : Nat) (at_ : Path) (st : TSt),
    resolve st.store f n p = some (t, k) → n.NoDup → (∀ e ∈ st.store, e.2.NoDup) →
    ∃ (Y : Option DM) (W : List (Bytes × DM)),
      focused fn linkOf canon cp (f + 1) at_ (some n) p st =
        .ok (Y, { store := W ++ st.store, written := W ++ st.written }) ∧
      W.length = k ∧ (∀ e ∈ W, e.1 = linkOf e.2) ∧
      (p ≠ [] → ∃ y, Y = some y) ∧
      ∀ (P : DM → Prop) (T : List (Bytes × DM)), Hereditary P →
        (∀ c b, storeGet st.store c = some b → P b) → (∀ d, P d → Agree T st.store d) → P n →
        (∀ b, canon b = b) → (∀ e ∈ W, storeGet T e.1 = some e.2) → ∀ j, p.length + k ≤ j →
        Y.map (expandFuel T j) =
          updateAt (expandFuel st.store j n) p ((fn (at_ ++ p) (some t)).map (expandFuel T (j - p.length - k)))
  | f, [], n, t, k, at_, st, hr, _, _ => by
    rw [resolve_nil] at hr
    injection hr with hr; injection hr with h1 h2; subst h1 h2
    refine ⟨fn at_ (some n), [], ?_, rfl, by simp, fun h => absurd rfl h, ?_⟩
    · simp only [focused_nil, List.nil_append]
    · intro P T _ _ _ _ _ _ j _
      simp only [updateAt, List.append_nil, List.length_nil, Nat.sub_zero]
  | 0, _ :: _, _, _, _, _, _, hr, _, _ => by simp [resolve] at hr
  | f + 1, seg :: p2, n, t, k, at_, st, hr, hn, hst => by
    simp only [resolve] at hr
    cases hl : lookupBySegment n seg with
    | some ch =>
      simp only [hl] at hr
      obtain ⟨Y0, W, hfoc, hlen, hkeys, hsome, hexp⟩ :=
        focused_through_expand f p2 ch t k (at_ ++ [seg]) st hr (lookup_noDup hn hl) hst
      refine ⟨some (setChild n seg Y0), W, ?_, hlen, hkeys, fun _ => ⟨_, rfl⟩, ?_⟩
      · exact focused_child fn linkOf canon cp f at_ n seg p2 ch st _ Y0 (keysNodup_of_noDup hn) hl hfoc hsome
      · intro P T hP hPs hPa hPn hcanon hT j hj
        obtain ⟨j', rfl⟩ : ∃ j', j = j' + 1 := ⟨j - 1, by simp only [List.length_cons] at hj; omega⟩
        have ih := hexp P T hP hPs hPa ((hP n hPn seg).2 ch hl) hcanon hT j'
          (by simp only [List.length_cons] at hj; omega)
        have hsib : Siblings (fun d => expandFuel T j' d = expandFuel st.store j' d) n seg := by
          have := (hP n hPn seg).1
          cases n with
          | map es => simp only [Siblings] at this ⊢; exact fun e he hne => hPa _ (this e he hne) j'
          | list xs => simp only [Siblings] at this ⊢; exact fun i x hi hne => hPa _ (this i x hi hne) j'
          | _ => simp only [Siblings]
        rw [Option.map_some, expand_setChild T st.store j' Y0 (keysNodup_of_noDup hn) hl hsib, ih,
          updateAt_cons _ _ (lookup_expand st.store j' hl)]
        have ha : at_ ++ [seg] ++ p2 = at_ ++ seg :: p2 := by simp
        have hj2 : j' + 1 - (seg :: p2).length - k = j' - p2.length - k := by
          simp only [List.length_cons]; omega
        rw [ha, hj2]
    | none =>
      simp only [hl] at hr
      cases n with
      | link c =>
        simp only [] at hr
        cases hs : storeGet st.store c with
        | none => simp [hs] at hr
        | some b =>
          simp only [hs] at hr
          cases hr0 : resolve st.store f b (seg :: p2) with
          | none => simp [hr0] at hr
          | some q =>
            obtain ⟨t0, k0⟩ := q
            simp only [hr0, Option.map_some] at hr
            injection hr with hr; injection hr with h1 h2
            subst h1 h2
            have hbn : b.NoDup := hst (c, b) (storeGet_mem hs)
            obtain ⟨Y0, W, hfoc, hlen, hkeys, hsome, hexp⟩ :=
              focused_through_expand f (seg :: p2) b t0 k0 at_ st hr0 hbn hst
            obtain ⟨y0, rfl⟩ := hsome (by simp)
            refine ⟨some (.link (linkOf (canon y0))), (linkOf (canon y0), canon y0) :: W, ?_, by simp [hlen], ?_,
              fun _ => ⟨_, rfl⟩, ?_⟩
            · rw [focused_link fn linkOf canon cp (f + 1) at_ c seg p2 st b hs, hfoc]
              rfl
            · intro e he
              simp only [List.mem_cons] at he
              rcases he with rfl | he
              · rfl
              · exact hkeys e he
            · intro P T hP hPs hPa _ hcanon hT j hj
              obtain ⟨j', rfl⟩ : ∃ j', j = j' + 1 := ⟨j - 1, by omega⟩
              have ih := hexp P T hP hPs hPa (hPs c b hs) hcanon (fun e he => hT e (by simp [he])) j' (by omega)
              have hhead := hT (linkOf (canon y0), canon y0) (by simp)
              simp only [hcanon y0] at hhead ⊢
              rw [Option.map_some] at ih ⊢
              rw [expandFuel_link_some T j' _ y0 hhead, expandFuel_link_some st.store j' c b hs, ih]
              have hj2 : j' + 1 - (seg :: p2).length - (k0 + 1) = j' - (seg :: p2).length - k0 := by omega
              rw [hj2]
      | _ => simp at hr

end through2

end Transform
end Ipld
