/-
  `normalize`: the normal form of a conforming value conforms; a value that has a representation is
  its own normal form.
-/
import IpldModel.Lemmas.SchemaTotal
namespace Ipld
namespace Schema

/-! ## What `conformsStruct` says about the entries and about the fields -/

theorem normalizeStruct_keys (F : List Field) : (es : TLKVs) →
    (normalizeStruct F es).toList.map (·.1) = es.toList.map (·.1)
  | .nil => rfl
  | .cons k v es => by simp [normalizeStruct, TLKVs.toList, normalizeStruct_keys F es]

/-- every field is optional, or was seen, or is among the entries -/
theorem conformsStruct_required (F : List Field) : (es : TLKVs) → (seen : List Bytes) →
    conformsStruct F seen es = true → ∀ f ∈ F, f.opt = true ∨ f.name ∈ seen ∨ f.name ∈ es.toList.map (·.1)
  | .nil, seen, h, f, hf => by
    simp only [conformsStruct, List.all_eq_true, Bool.or_eq_true] at h
    rcases h f hf with h | h
    · exact Or.inl h
    · exact Or.inr (Or.inl (by simpa using h))
  | .cons k v es, seen, h, f, hf => by
    rw [conformsStruct_cons] at h
    split at h
    · cases h
    · simp only [Bool.and_eq_true] at h
      rcases conformsStruct_required F es (k :: seen) h.2 f hf with h' | h' | h'
      · exact Or.inl h'
      · simp only [List.mem_cons] at h'
        rcases h' with h' | h'
        · exact Or.inr (Or.inr (by simp [TLKVs.toList, h']))
        · exact Or.inr (Or.inl h')
      · exact Or.inr (Or.inr (by simp only [TLKVs.toList, List.map_cons, List.mem_cons]; exact Or.inr h'))

theorem entriesOK_map_gen (g : Field → Bytes × TL) : (fs : List Field) →
    (∀ f ∈ fs, (g f).1 = f.name ∧ fieldValOK f (g f).2 = true) → entriesOK fs (fs.map g)
  | [], _ => by simp [entriesOK]
  | f :: fs, h => by
    simp only [List.map_cons, entriesOK]
    exact ⟨(h f (by simp)).1, (h f (by simp)).2,
      entriesOK_map_gen g fs (fun f' hf' => h f' (by simp [hf']))⟩

/-- The canonical re-ordering of entries that are individually admissible, together covering the
    required fields, conforms. -/
theorem conformsStruct_canonFields (F : List Field) (hnd : (F.map (·.name)).Nodup)
    (L : List (Bytes × TL))
    (hL : ∀ e ∈ L, ∃ f, F.find? (fun f => f.name == e.1) = some f ∧ fieldValOK f e.2 = true)
    (hreq : ∀ f ∈ F, f.opt = true ∨ f.name ∈ L.map (·.1)) :
    conformsStruct F [] (TLKVs.ofList (canonFields F L)) = true := by
  apply conformsStruct_canon F hnd F [] [] _ (by simp) (by simp)
  unfold canonFields
  apply entriesOK_map_gen
  intro f hf
  cases hfind : L.find? (fun e => e.1 == f.name) with
  | none =>
    simp only [true_and]
    rcases hreq f hf with ho | hin
    · simp [fieldValOK, ho]
    · exfalso
      obtain ⟨e, he, hek⟩ := List.mem_map.1 hin
      have := List.find?_eq_none.1 hfind e he
      simp [hek] at this
  | some e =>
    obtain ⟨k', v'⟩ := e
    simp only [true_and]
    have hmem := List.mem_of_find?_eq_some hfind
    have hk : k' = f.name := by simpa using List.find?_some hfind
    obtain ⟨f', hf', hv'⟩ := hL (k', v') hmem
    simp only [hk, find?_key_of_mem (·.name) F hnd f hf, Option.some.injEq] at hf'
    subst hf'
    exact hv'

/-! ## The normal form of a conforming value conforms -/

theorem normalize_scalar (ty : Ty) (v : TL) (h1 : ∀ xs, v ≠ .list xs) (h2 : ∀ es, v ≠ .map es) :
    normalize ty v = v := by
  cases v with
  | list xs => exact absurd rfl (h1 xs)
  | map es => exact absurd rfl (h2 es)
  | _ => simp [normalize]

theorem fieldValOK_absent_iff (f : Field) : fieldValOK f .absent = f.opt := rfl

mutual
theorem conforms_normalize : (v : TL) → (ty : Ty) → (nul : Bool) → ty.wf = true →
    conforms ty nul v = true → conforms ty nul (normalize ty v) = true
  | .absent, ty, nul, _, h => by rw [normalize_scalar ty _ (by simp) (by simp)]; exact h
  | .null, ty, nul, _, h => by rw [normalize_scalar ty _ (by simp) (by simp)]; exact h
  | .bool _, ty, nul, _, h => by rw [normalize_scalar ty _ (by simp) (by simp)]; exact h
  | .int _, ty, nul, _, h => by rw [normalize_scalar ty _ (by simp) (by simp)]; exact h
  | .float _, ty, nul, _, h => by rw [normalize_scalar ty _ (by simp) (by simp)]; exact h
  | .str _, ty, nul, _, h => by rw [normalize_scalar ty _ (by simp) (by simp)]; exact h
  | .bytes _, ty, nul, _, h => by rw [normalize_scalar ty _ (by simp) (by simp)]; exact h
  | .link _, ty, nul, _, h => by rw [normalize_scalar ty _ (by simp) (by simp)]; exact h
  | .list xs, ty, nul, hwf, h => by
    cases ty with
    | list ety enul =>
      simp only [normalize]
      unfold conforms at h ⊢
      exact conformsList_normalize xs ety enul (by simpa [Ty.wf] using hwf) h
    | _ => simpa [normalize] using h
  | .map es, ty, nul, hwf, h => by
    cases ty with
    | map vty vnul =>
      simp only [normalize]
      unfold conforms at h ⊢
      exact conformsMap_normalize es vty vnul (by simpa [Ty.wf] using hwf) [] h
    | struct fs sr =>
      have hw := wf_struct hwf
      simp only [normalize]
      unfold conforms at h ⊢
      apply conformsStruct_canonFields fs.toList hw.2.1
      · exact conformsStruct_entries es fs.toList (Fields.wf_mem fs hw.1) [] h
      · intro f hf
        rw [normalizeStruct_keys]
        rcases conformsStruct_required fs.toList es [] h f hf with h' | h' | h'
        · exact Or.inl h'
        · cases h'
        · exact Or.inr h'
    | union ms ur =>
      have hw := wf_union hwf
      unfold conforms at h
      match es, h with
      | .cons k v .nil, h =>
        simp only [] at h
        cases hm : ms.toList.find? (fun m => m.name == k) with
        | none => simp [hm] at h
        | some m =>
          simp only [hm] at h
          have hmem := List.mem_of_find?_eq_some hm
          have ih := conforms_normalize v m.ty false (Members.wf_mem ms hw.1 m hmem) h
          simp only [normalize, hm]
          unfold conforms
          simp only [hm]
          exact ih
      | .nil, h => simp at h
      | .cons _ _ (.cons _ _ _), h => simp at h
    | _ => simpa [normalize] using h
theorem conformsList_normalize : (xs : TLs) → (ety : Ty) → (enul : Bool) → ety.wf = true →
    conformsList ety enul xs = true → conformsList ety enul (normalizeList ety xs) = true
  | .nil, _, _, _, _ => by simp [normalizeList, conformsList]
  | .cons x xs, ety, enul, hwf, h => by
    simp only [conformsList, Bool.and_eq_true] at h
    simp only [normalizeList, conformsList, Bool.and_eq_true]
    exact ⟨conforms_normalize x ety enul hwf h.1, conformsList_normalize xs ety enul hwf h.2⟩
theorem conformsMap_normalize : (es : TLKVs) → (vty : Ty) → (vnul : Bool) → vty.wf = true →
    (seen : List Bytes) → conformsMap vty vnul seen es = true →
    conformsMap vty vnul seen (normalizeMap vty es) = true
  | .nil, _, _, _, _, _ => by simp [normalizeMap, conformsMap]
  | .cons k x xs, vty, vnul, hwf, seen, h => by
    simp only [conformsMap, Bool.and_eq_true] at h
    simp only [normalizeMap, conformsMap, Bool.and_eq_true]
    exact ⟨⟨h.1.1, conforms_normalize x vty vnul hwf h.1.2⟩,
      conformsMap_normalize xs vty vnul hwf (k :: seen) h.2⟩
theorem conformsStruct_entries : (es : TLKVs) → (F : List Field) → (∀ f ∈ F, f.ty.wf = true) →
    (seen : List Bytes) → conformsStruct F seen es = true →
    ∀ e ∈ (normalizeStruct F es).toList,
      ∃ f, F.find? (fun f => f.name == e.1) = some f ∧ fieldValOK f e.2 = true
  | .nil, _, _, _, _, e, he => by simp [normalizeStruct, TLKVs.toList] at he
  | .cons k v es, F, hwf, seen, h, e, he => by
    rw [conformsStruct_cons] at h
    cases hf : F.find? (fun f => f.name == k) with
    | none => simp [hf] at h
    | some f =>
      simp only [hf, Bool.and_eq_true] at h
      simp only [normalizeStruct, TLKVs.toList, hf, List.mem_cons] at he
      rcases he with rfl | he
      · refine ⟨f, hf, ?_⟩
        simp only []
        have hmem := List.mem_of_find?_eq_some hf
        by_cases hva : v = .absent
        · subst hva
          rw [normalize_scalar _ _ (by simp) (by simp)]
          exact h.1.2
        · have h1 := h.1.2
          rw [fieldValOK_ne_absent f v hva] at h1
          exact fieldValOK_of_conforms f _ (conforms_normalize v f.ty f.nullable (hwf f hmem) h1)
      · exact conformsStruct_entries es F hwf (k :: seen) h.2 e he
end

/-! ## A value that has a representation is its own normal form -/

theorem canonFields_self : (suf : List Field) → (Lsuf Lpre : List (Bytes × TL)) →
    Lsuf.map (·.1) = suf.map (·.name) → (∀ e ∈ Lpre, ∀ f ∈ suf, e.1 ≠ f.name) →
    (suf.map (·.name)).Nodup → canonFields suf (Lpre ++ Lsuf) = Lsuf
  | [], Lsuf, _, hk, _, _ => by
    cases Lsuf with
    | nil => rfl
    | cons _ _ => simp at hk
  | f :: suf, [], _, hk, _, _ => by simp at hk
  | f :: suf, (k, v) :: L, Lpre, hk, hdis, hnd => by
    simp only [List.map_cons, List.cons.injEq] at hk
    obtain ⟨hk1, hk2⟩ := hk
    subst hk1
    simp only [List.map_cons, List.nodup_cons] at hnd
    have hpre : Lpre.find? (fun e => e.1 == f.name) = none := by
      apply List.find?_eq_none.2
      intro e he
      have := hdis e he f (by simp)
      simpa using this
    have ih := canonFields_self suf L (Lpre ++ [(f.name, v)]) hk2 (by
      intro e he f' hf'
      simp only [List.mem_append, List.mem_singleton] at he
      rcases he with he | rfl
      · exact hdis e he f' (by simp [hf'])
      · intro heq
        have heq' : f.name = f'.name := heq
        exact hnd.1 (heq' ▸ List.mem_map_of_mem hf')) hnd.2
    unfold canonFields at ih ⊢
    simp only [List.map_cons, List.find?_append, hpre, List.find?_cons, beq_self_eq_true,
      Option.none_or, List.cons.injEq, true_and]
    simpa [List.append_assoc, List.find?_append, List.find?_cons] using ih

mutual
theorem normalize_of_repr : (v : TL) → (ty : Ty) → (nul : Bool) → ty.wf = true → (d : DM) →
    toRepr ty nul v = some d → normalize ty v = v
  | .absent, ty, _, _, _, _ => normalize_scalar ty _ (by simp) (by simp)
  | .null, ty, _, _, _, _ => normalize_scalar ty _ (by simp) (by simp)
  | .bool _, ty, _, _, _, _ => normalize_scalar ty _ (by simp) (by simp)
  | .int _, ty, _, _, _, _ => normalize_scalar ty _ (by simp) (by simp)
  | .float _, ty, _, _, _, _ => normalize_scalar ty _ (by simp) (by simp)
  | .str _, ty, _, _, _, _ => normalize_scalar ty _ (by simp) (by simp)
  | .bytes _, ty, _, _, _, _ => normalize_scalar ty _ (by simp) (by simp)
  | .link _, ty, _, _, _, _ => normalize_scalar ty _ (by simp) (by simp)
  | .list xs, ty, nul, hwf, d, h => by
    cases ty with
    | list ety enul =>
      simp only [toRepr, Option.map_eq_some_iff] at h
      obtain ⟨ys, hys, _⟩ := h
      simp only [normalize, normList_of_repr xs ety enul (by simpa [Ty.wf] using hwf) ys hys]
    | _ => simp [normalize]
  | .map es, ty, nul, hwf, d, h => by
    cases ty with
    | map vty vnul =>
      simp only [toRepr, Option.map_eq_some_iff] at h
      obtain ⟨ys, hys, _⟩ := h
      simp only [normalize, normMap_of_repr es vty vnul (by simpa [Ty.wf] using hwf) ys hys]
    | struct fs sr =>
      have hw := wf_struct hwf
      have hv : ∃ vals, reprFields fs.toList es = some vals := by
        cases hv : reprFields fs.toList es with
        | some vals => exact ⟨vals, rfl⟩
        | none =>
          cases sr with
          | map => rw [toRepr_struct_map, hv] at h; cases h
          | listpairs => rw [toRepr_struct_listpairs, hv] at h; cases h
          | tuple => rw [toRepr_struct_tuple, hv] at h; cases h
          | stringjoin delim => rw [toRepr_struct_stringjoin, hv] at h; cases h
      obtain ⟨vals, hv⟩ := hv
      have h1 := normStruct_of_repr es fs.toList (Fields.wf_mem fs hw.1) hw.2.1 fs.toList (fun _ h => h)
        vals hv
      have h2 := canonFields_self fs.toList es.toList [] (reprFields_keys _ _ _ hv) (by simp) hw.2.1
      simp only [normalize, h1]
      simp only [List.nil_append] at h2
      rw [h2, TLKVs.ofList_toList]
    | union ms ur =>
      have hw := wf_union hwf
      unfold toRepr at h
      match es, h with
      | .cons k v .nil, h =>
        simp only [] at h
        cases hm : ms.toList.find? (fun m => m.name == k) with
        | none => simp [normalize, hm]
        | some m =>
          simp only [hm] at h
          have hmem := List.mem_of_find?_eq_some hm
          cases hd0 : toRepr m.ty false v with
          | none => simp [hd0] at h
          | some d0 =>
            simp only [normalize, hm,
              normalize_of_repr v m.ty false (Members.wf_mem ms hw.1 m hmem) d0 hd0]
      | .nil, _ => simp [normalize]
      | .cons _ _ (.cons _ _ _), _ => simp [normalize]
    | _ => simp [normalize]
theorem normList_of_repr : (xs : TLs) → (ety : Ty) → (enul : Bool) → ety.wf = true → (ys : List DM) →
    reprList ety enul xs = some ys → normalizeList ety xs = xs
  | .nil, _, _, _, _, _ => rfl
  | .cons x xs, ety, enul, hwf, ys, h => by
    simp only [reprList] at h
    split at h
    · next d ds hd hds =>
      simp only [normalizeList, normalize_of_repr x ety enul hwf d hd,
        normList_of_repr xs ety enul hwf ds hds]
    · cases h
theorem normMap_of_repr : (es : TLKVs) → (vty : Ty) → (vnul : Bool) → vty.wf = true →
    (ys : List (Bytes × DM)) → reprMap vty vnul es = some ys → normalizeMap vty es = es
  | .nil, _, _, _, _, _ => rfl
  | .cons k x xs, vty, vnul, hwf, ys, h => by
    simp only [reprMap] at h
    split at h
    · next d ds hd hds =>
      simp only [normalizeMap, normalize_of_repr x vty vnul hwf d hd,
        normMap_of_repr xs vty vnul hwf ds hds]
    · cases h
theorem normStruct_of_repr : (es : TLKVs) → (F : List Field) → (∀ f ∈ F, f.ty.wf = true) →
    (F.map (·.name)).Nodup → (suf : List Field) → (∀ f ∈ suf, f ∈ F) → (vals : List (Option DM)) →
    reprFields suf es = some vals → normalizeStruct F es = es
  | .nil, _, _, _, _, _, _, _ => rfl
  | .cons k v es, F, hwf, hnd, suf, hsub, vals, h => by
    cases suf with
    | nil => simp [reprFields] at h
    | cons f suf =>
      obtain ⟨hk, vals', hv', h2⟩ := reprFields_cons_inv f suf k v es vals h
      subst hk
      have hfF : f ∈ F := hsub f (by simp)
      have hfind := find?_key_of_mem (·.name) F hnd f hfF
      have ih := normStruct_of_repr es F hwf hnd suf (fun f' hf' => hsub f' (by simp [hf'])) vals' hv'
      simp only [normalizeStruct, hfind, ih]
      rcases h2 with ⟨rfl, _, _⟩ | ⟨_, d, hd, _⟩
      · rw [normalize_scalar _ _ (by simp) (by simp)]
      · rw [normalize_of_repr v f.ty f.nullable (hwf f hfF) d hd]
end

end Schema
end Ipld
