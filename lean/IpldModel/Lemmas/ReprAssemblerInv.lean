/-
  Representation-level assemblers: the invariant of the machine of Model/ReprAssembler.lean.  Every value the machine
  holds - the entries of the open containers, the member a keyed union has been given, the finished root - is `RGood`
  for the position it was delivered to; the keys of a frame are distinct, a struct's entries are under field names, a
  tuple's entries are its first fields in order, a pending key is not among the accepted ones; every frame was begun at a
  position whose type - through the kinded unions named in its `wrap` - is the frame's own.
-/
import IpldModel.Lemmas.ReprAssemblerGood
namespace Ipld
namespace RAsm
open Ipld.Asm (Op Out ErrClass)
open Ipld.Schema (Ty Fields Members Field Member TL TLs TLKVs canonFields wrapPath conforms shapeOK)
open Ipld.TAsm (Phase Pos hasKey inInt64 Call PendFresh hasKey_iff hasKey_false_iff)

/-- a pending representation key does not address a field that has its value -/
def PendFreshR (fs : List Field) (es : List (Bytes × TL)) : Phase → Prop
  | .expectValue k => ∀ f, fieldOfR fs k = some f → hasKey es f.name = false
  | .midValue k => ∀ f, fieldOfR fs k = some f → hasKey es f.name = false
  | _ => True

def FrameOK : Frame → Prop
  | .list ety enul xs _ _ => ety.wf = true ∧ ∀ x ∈ xs, RGood ety enul x
  | .map vty vnul es ph _ =>
    vty.wf = true ∧ (es.map (·.1)).Nodup ∧ (∀ p ∈ es, RGood vty vnul p.2) ∧ PendFresh es ph
  | .struct fs es ph _ =>
    (∀ f ∈ fs, f.ty.wf = true) ∧ (fs.map (·.name)).Nodup ∧ EntriesOK fs es ∧ PendFreshR fs es ph
  | .tuple fs es _ _ =>
    (∀ f ∈ fs, f.ty.wf = true) ∧ (fs.map (·.name)).Nodup ∧ EntriesOK fs es ∧
    es.map (·.1) = (fs.take es.length).map (·.name)
  | .union ms cur _ _ =>
    (∀ m ∈ ms, m.ty.wf = true) ∧ (ms.map (·.name)).Nodup ∧
    ∀ n v, cur = some (n, v) → ∃ m ∈ ms, m.name = n ∧ RGood m.ty false v
  | .dead _ => True

/-- the frame is what `BeginMap` / `BeginList` opens at a position of type `ty` (through the kinded unions of `wrap`) -/
def FrameFor : Frame → Ty → Bool → Prop
  | .list ety enul _ _ w, ty, nul =>
    Schema.resolveKinded Schema.Engine.ideal nul .list ty = .ok (.list ety enul, w)
  | .map vty vnul _ _ w, ty, nul =>
    Schema.resolveKinded Schema.Engine.ideal nul .map ty = .ok (.map vty vnul, w)
  | .struct fs _ _ w, ty, nul =>
    ∃ F, Schema.resolveKinded Schema.Engine.ideal nul .map ty = .ok (.struct F .map, w) ∧ fs = F.toList
  | .tuple fs _ _ w, ty, nul =>
    ∃ F, Schema.resolveKinded Schema.Engine.ideal nul .list ty = .ok (.struct F .tuple, w) ∧ fs = F.toList
  | .union ms _ _ w, ty, nul =>
    ∃ M, Schema.resolveKinded Schema.Engine.ideal nul .map ty = .ok (.union M .keyed, w) ∧ ms = M.toList
  | .dead _, _, _ => True

/-- every frame was begun at a value position of its own type -/
def Chain (t : Ty) (r : Option TL) : List Frame → Prop
  | [] => True
  | f :: rest => (∃ ty nul, posOf t r rest = .value ty nul ∧ FrameFor f ty nul) ∧ Chain t r rest

structure Inv (s : St) : Prop where
  wf : s.ty.wf = true
  frames : ∀ f ∈ s.frames, FrameOK f
  chain : Chain s.ty s.root s.frames
  root : ∀ v, s.root = some v → RGood s.ty false v

theorem init_inv {ty : Ty} (h : ty.wf = true) : Inv (init ty) :=
  ⟨h, (by intro f hf; cases hf), trivial, (by intro v hv; cases hv)⟩

theorem Inv.taint {s : St} (h : Inv s) (b : Bool) : Inv { s with tainted := b } :=
  ⟨h.wf, h.frames, h.chain, h.root⟩

/-- the type of a value position is well-formed -/
theorem Inv.pos_wf {s : St} (h : Inv s) {ty : Ty} {nul : Bool} (hp : pos s = .value ty nul) : ty.wf = true := by
  have hfr := h.frames
  have hwf := h.wf
  clear h
  state_cases s =>
    try simp only [pos, posOf] at hp
    all_goals (try split at hp)
    all_goals first | (cases hp; done) | skip
    all_goals (simp only [Pos.value.injEq] at hp; obtain ⟨rfl, -⟩ := hp)
    all_goals first
      | exact hwf
      | exact (hfr _ (List.mem_cons_self ..)).1
      | (rename_i hf; exact (hfr _ (List.mem_cons_self ..)).1 _ (List.mem_of_find?_eq_some hf))
      | (rename_i hf; exact (hfr _ (List.mem_cons_self ..)).1 _ (List.mem_of_getElem? hf))

/-! ### delivering a value -/

theorem nodup_snoc {es : List (Bytes × TL)} {k : Bytes} {v : TL} (hnd : (es.map (·.1)).Nodup)
    (hk : hasKey es k = false) : ((es ++ [(k, v)]).map (·.1)).Nodup := by
  rw [List.map_append, List.nodup_append]
  refine ⟨hnd, by simp, ?_⟩
  intro a ha b hb
  simp only [List.map_cons, List.map_nil, List.mem_singleton] at hb
  subst hb
  intro hab; subst hab
  exact (hasKey_false_iff es a).1 hk ha

theorem EntriesOK.snoc {fs : List Field} {es : List (Bytes × TL)} (h : EntriesOK fs es) {f : Field} (hf : f ∈ fs)
    (hk : hasKey es f.name = false) {v : TL} (hv : RGood f.ty f.nullable v) : EntriesOK fs (es ++ [(f.name, v)]) := by
  refine ⟨nodup_snoc h.1 hk, ?_⟩
  intro p hp
  simp only [List.mem_append, List.mem_singleton] at hp
  rcases hp with hp | rfl
  · exact h.2 p hp
  · exact ⟨f, hf, rfl, hv⟩

/-- the name of the next field of a tuple is not among those reached -/
theorem tuple_next_fresh {fs : List Field} {es : List (Bytes × TL)} (hnd : (fs.map (·.name)).Nodup)
    (hpre : es.map (·.1) = (fs.take es.length).map (·.name)) {f : Field} (hf : fs[es.length]? = some f) :
    hasKey es f.name = false := by
  rw [hasKey_false_iff, hpre]
  intro hmem
  obtain ⟨f', hf', hn⟩ := List.mem_map.1 hmem
  have hsplit := List.take_append_drop es.length fs
  rw [← hsplit, List.map_append, List.nodup_append] at hnd
  have hfd : f ∈ fs.drop es.length := by
    have : (fs.drop es.length)[0]? = some f := by simpa using hf
    exact List.mem_of_getElem? this
  exact hnd.2.2 _ (List.mem_map_of_mem hf') _ (List.mem_map_of_mem hfd) hn

theorem tuple_pre_snoc {fs : List Field} {es : List (Bytes × TL)}
    (hpre : es.map (·.1) = (fs.take es.length).map (·.name)) {f : Field} (hf : fs[es.length]? = some f) (v : TL) :
    (es ++ [(f.name, v)]).map (·.1) = (fs.take (es ++ [(f.name, v)]).length).map (·.name) := by
  simp only [List.map_append, List.map_cons, List.map_nil, List.length_append, List.length_cons, List.length_nil,
    Nat.zero_add, List.take_add_one, hf, Option.toList_some, hpre]

/-- A value assembler that receives a value good for its position keeps the invariant. -/
theorem deliver_inv {s : St} {v : TL} (h : Inv s) (hv : ∀ ty nul, pos s = .value ty nul → RGood ty nul v) :
    Inv (deliver s v).1 := by
  obtain ⟨t, fr, r, tt⟩ := s
  unfold deliver
  simp only
  split
  · split
    · refine ⟨h.wf, h.frames, trivial, ?_⟩
      intro w hw
      simp only [Option.some.injEq] at hw; subst hw
      exact hv t false (by simp [pos, posOf])
    · exact h
  · rename_i ety enul xs w rest
    have hok := h.frames (.list ety enul xs true w) (by simp)
    refine ⟨h.wf, ?_, ⟨h.chain.1, h.chain.2⟩, h.root⟩
    intro f hf
    simp only [List.mem_cons] at hf
    rcases hf with rfl | hf
    · refine ⟨hok.1, ?_⟩
      intro x hx
      simp only [List.mem_append, List.mem_singleton] at hx
      rcases hx with hx | rfl
      · exact hok.2 x hx
      · exact hv ety enul (by simp [pos, posOf])
    · exact h.frames f (by simp [hf])
  · rename_i vty vnul es k w rest
    have hok := h.frames (.map vty vnul es (.midValue k) w) (by simp)
    refine ⟨h.wf, ?_, ⟨h.chain.1, h.chain.2⟩, h.root⟩
    intro f hf
    simp only [List.mem_cons] at hf
    rcases hf with rfl | hf
    · refine ⟨hok.1, nodup_snoc hok.2.1 hok.2.2.2, ?_, trivial⟩
      intro p hp
      simp only [List.mem_append, List.mem_singleton] at hp
      rcases hp with hp | rfl
      · exact hok.2.2.1 p hp
      · exact hv vty vnul (by simp [pos, posOf])
    · exact h.frames f (by simp [hf])
  · rename_i fs es k w rest
    have hok := h.frames (.struct fs es (.midValue k) w) (by simp)
    split
    · rename_i f0 hfo
      refine ⟨h.wf, ?_, ⟨h.chain.1, h.chain.2⟩, h.root⟩
      intro f hf
      simp only [List.mem_cons] at hf
      rcases hf with rfl | hf
      · exact ⟨hok.1, hok.2.1, hok.2.2.1.snoc (List.mem_of_find?_eq_some hfo) (hok.2.2.2 f0 hfo)
          (hv f0.ty f0.nullable (by simp [pos, posOf, hfo])), trivial⟩
      · exact h.frames f (by simp [hf])
    · exact h
  · rename_i fs es w rest
    have hok := h.frames (.tuple fs es true w) (by simp)
    split
    · rename_i f0 hfo
      refine ⟨h.wf, ?_, ⟨h.chain.1, h.chain.2⟩, h.root⟩
      intro f hf
      simp only [List.mem_cons] at hf
      rcases hf with rfl | hf
      · exact ⟨hok.1, hok.2.1, hok.2.2.1.snoc (List.mem_of_getElem? hfo) (tuple_next_fresh hok.2.1 hok.2.2.2 hfo)
          (hv f0.ty f0.nullable (by simp [pos, posOf, hfo])), tuple_pre_snoc hok.2.2.2 hfo v⟩
      · exact h.frames f (by simp [hf])
    · exact h
  · rename_i ms k w rest
    have hok := h.frames (.union ms none (.midValue k) w) (by simp)
    split
    · rename_i m0 hmo
      refine ⟨h.wf, ?_, ⟨h.chain.1, h.chain.2⟩, h.root⟩
      intro f hf
      simp only [List.mem_cons] at hf
      rcases hf with rfl | hf
      · refine ⟨hok.1, hok.2.1, ?_⟩
        intro n v' hc
        simp only [Option.some.injEq, Prod.mk.injEq] at hc
        obtain ⟨rfl, rfl⟩ := hc
        exact ⟨m0, List.mem_of_find?_eq_some hmo, rfl, hv m0.ty false (by simp [pos, posOf, hmo])⟩
      · exact h.frames f (by simp [hf])
    · exact h
  · exact h

/-! ### frames -/

/-- the state with the innermost frame closed -/
theorem Inv.pop {t : Ty} {f : Frame} {rest : List Frame} {r : Option TL} {tt : Bool}
    (h : Inv ⟨t, f :: rest, r, tt⟩) : Inv ⟨t, rest, r, tt⟩ :=
  ⟨h.wf, fun g hg => h.frames g (by simp [hg]), h.chain.2, h.root⟩

/-- the position a frame was begun at -/
theorem Inv.parent {t : Ty} {f : Frame} {rest : List Frame} {r : Option TL} {tt : Bool}
    (h : Inv ⟨t, f :: rest, r, tt⟩) :
    ∃ ty nul, pos ⟨t, rest, r, tt⟩ = .value ty nul ∧ FrameFor f ty nul := h.chain.1

theorem Inv.top {t : Ty} {f : Frame} {rest : List Frame} {r : Option TL} {tt : Bool}
    (h : Inv ⟨t, f :: rest, r, tt⟩) : FrameOK f := h.frames f (by simp)

/-- the innermost frame is replaced by one of the same container -/
theorem Inv.replaceTop {t : Ty} {f g : Frame} {rest : List Frame} {r : Option TL} {tt : Bool}
    (h : Inv ⟨t, f :: rest, r, tt⟩) (hg : FrameOK g) (hfor : ∀ ty nul, FrameFor f ty nul → FrameFor g ty nul) :
    Inv ⟨t, g :: rest, r, tt⟩ := by
  refine ⟨h.wf, ?_, ⟨?_, h.chain.2⟩, h.root⟩
  · intro x hx
    simp only [List.mem_cons] at hx
    rcases hx with rfl | hx
    · exact hg
    · exact h.frames x (by simp [hx])
  · obtain ⟨ty, nul, hp, hf⟩ := h.chain.1
    exact ⟨ty, nul, hp, hfor ty nul hf⟩

theorem Inv.push {s : St} (h : Inv s) {g : Frame} (hg : FrameOK g) {ty : Ty} {nul : Bool}
    (hp : pos s = .value ty nul) (hfor : FrameFor g ty nul) : Inv { s with frames := g :: s.frames } := by
  refine ⟨h.wf, ?_, ⟨⟨ty, nul, hp, hfor⟩, h.chain⟩, h.root⟩
  intro x hx
  simp only [List.mem_cons] at hx
  rcases hx with rfl | hx
  · exact hg
  · exact h.frames x hx

/-- what `BeginMap` opens is a frame of the position's type -/
theorem opensMap_frame {ty : Ty} {nul : Bool} {f : Frame} (hwf : ty.wf = true) (h : opensMap ty nul = .frame f) :
    FrameOK f ∧ FrameFor f ty nul := by
  unfold opensMap at h
  split at h
  · rename_i vty vnul path hr
    simp only [Opens.frame.injEq] at h; subst h
    have := resolved_wf hwf hr
    exact ⟨⟨by simpa [Ty.wf] using this, by simp, by simp, trivial⟩, hr⟩
  · rename_i fs path hr
    simp only [Opens.frame.injEq] at h; subst h
    obtain ⟨h1, h2, _⟩ := Schema.wf_struct (resolved_wf hwf hr)
    exact ⟨⟨Schema.Fields.wf_mem fs h1, h2, ⟨by simp, by simp⟩, trivial⟩, fs, hr, rfl⟩
  · rename_i ms path hr
    simp only [Opens.frame.injEq] at h; subst h
    obtain ⟨h1, h2⟩ := Schema.wf_union (resolved_wf hwf hr)
    exact ⟨⟨Schema.Members.wf_mem ms h1, h2, by simp⟩, ms, hr, rfl⟩
  all_goals cases h

theorem opensList_frame {ty : Ty} {nul : Bool} {f : Frame} (hwf : ty.wf = true) (h : opensList ty nul = .frame f) :
    FrameOK f ∧ FrameFor f ty nul := by
  unfold opensList at h
  split at h
  · rename_i ety enul path hr
    simp only [Opens.frame.injEq] at h; subst h
    have := resolved_wf hwf hr
    exact ⟨⟨by simpa [Ty.wf] using this, by simp⟩, hr⟩
  · rename_i fs path hr
    simp only [Opens.frame.injEq] at h; subst h
    obtain ⟨h1, h2, _⟩ := Schema.wf_struct (resolved_wf hwf hr)
    exact ⟨⟨Schema.Fields.wf_mem fs h1, h2, ⟨by simp, by simp⟩, by simp⟩, fs, hr, rfl⟩
  all_goals cases h

theorem valuePrim_inv {e : Engine} {s : St} {ty : Ty} {nul : Bool} (op : Op) (h : Inv s)
    (hp : pos s = .value ty nul) : Inv (valuePrim e s ty nul op).1 := by
  have hwf := h.pos_wf hp
  cases op with
  | assign v =>
    simp only [valuePrim]
    split
    · exact h
    · split
      · exact h
      · split
        · rename_i tv hb
          apply deliver_inv h
          intro ty' nul' hp'
          rw [hp] at hp'
          cases hp'
          exact good_built hwf hb
        · exact h
  | beginMap n =>
    simp only [valuePrim]
    split
    · rename_i f hf
      obtain ⟨h1, h2⟩ := opensMap_frame hwf hf
      exact h.push h1 hp h2
    · split
      · exact h.push (g := .dead .init) trivial hp trivial
      · exact h
    · exact h
  | beginList n =>
    simp only [valuePrim]
    split
    · rename_i f hf
      obtain ⟨h1, h2⟩ := opensList_frame hwf hf
      exact h.push h1 hp h2
    · exact h
  | assembleKey => exact h
  | assembleValue => exact h
  | assembleEntry k => exact h
  | assignNode v => exact h
  | finish => exact h

theorem supplyKey_inv {e : Engine} {s : St} (k : Bytes) (he : e.keyAsmDupMapKey = false) (h : Inv s) :
    Inv (supplyKey e s k).1 := by
  obtain ⟨t, fr, r, tt⟩ := s
  unfold supplyKey
  simp only
  split
  · rename_i vty vnul es w rest
    have hok := h.top
    split
    · exact h.replaceTop (g := .map vty vnul es .init w) ⟨hok.1, hok.2.1, hok.2.2.1, trivial⟩ (fun _ _ hx => hx)
    · rename_i hc
      simp only [he, Bool.not_false, Bool.and_true, Bool.not_eq_true] at hc
      exact h.replaceTop (g := .map vty vnul es (.expectValue k) w) ⟨hok.1, hok.2.1, hok.2.2.1, hc⟩ (fun _ _ hx => hx)
  · rename_i fs es w rest
    have hok := h.top
    split
    · rename_i hnone
      split
      · exact h.replaceTop (g := .struct fs es .init w) ⟨hok.1, hok.2.1, hok.2.2.1, trivial⟩ (fun _ _ hx => hx)
      · refine h.replaceTop (g := .struct fs es (.expectValue k) w) ⟨hok.1, hok.2.1, hok.2.2.1, ?_⟩ (fun _ _ hx => hx)
        intro f hf; rw [hnone] at hf; cases hf
    · rename_i f0 hsome
      split
      · exact h.replaceTop (g := .struct fs es .init w) ⟨hok.1, hok.2.1, hok.2.2.1, trivial⟩ (fun _ _ hx => hx)
      · rename_i hc
        simp only [Bool.not_eq_true] at hc
        refine h.replaceTop (g := .struct fs es (.expectValue k) w) ⟨hok.1, hok.2.1, hok.2.2.1, ?_⟩ (fun _ _ hx => hx)
        intro f hf; rw [hsome] at hf; cases hf; exact hc
  · rename_i ms cur w rest
    have hok := h.top
    split
    · exact h.replaceTop (g := .union ms cur .init w) hok (fun _ _ hx => hx)
    · exact h.replaceTop (g := .union ms cur (.expectValue k) w) hok (fun _ _ hx => hx)
  · exact h

theorem keyPrim_inv {e : Engine} {s : St} (op : Op) (he : e.keyAsmDupMapKey = false) (h : Inv s) :
    Inv (keyPrim e s op).1 := by
  unfold keyPrim
  split
  · exact supplyKey_inv _ he h
  all_goals exact h

/-- a frame's `Finish`: the value is good for the position the frame was begun at, and goes there -/
theorem finish_inv {t : Ty} {f : Frame} {rest : List Frame} {r : Option TL} {tt : Bool}
    (h : Inv ⟨t, f :: rest, r, tt⟩) {v : TL}
    (hv : ∀ ty nul, ty.wf = true → FrameFor f ty nul → RGood ty nul v) :
    Inv (deliver ⟨t, rest, r, tt⟩ v).1 := by
  apply deliver_inv h.pop
  intro ty nul hp
  obtain ⟨ty0, nul0, hp0, hfor⟩ := h.parent
  rw [hp0] at hp
  cases hp
  exact hv ty nul (h.pop.pos_wf hp0) hfor

/-- Every call except `AssignNode` keeps the invariant, whatever its outcome. -/
theorem stepPrim_inv {e : Engine} {s : St} (op : Op) (he : e.keyAsmDupMapKey = false) (h : Inv s) :
    Inv (stepPrim e s op).1 := by
  obtain ⟨t, fr, r, tt⟩ := s
  unfold stepPrim
  simp only
  split
  · split
    · exact h
    · exact valuePrim_inv op h (by simp [pos, posOf])
  · -- list, expecting AssembleValue / Finish
    rename_i ety enul xs w rest
    have hok := h.top
    split
    · exact h.replaceTop (g := .list ety enul xs true w) hok (fun _ _ hx => hx)
    · apply finish_inv h
      intro ty nul hwf hfor
      exact good_wrap hwf hfor (good_list false hok.2)
    · exact h
  · exact valuePrim_inv op h (by simp [pos, posOf])
  · -- map, expecting a key
    rename_i vty vnul es w rest
    have hok := h.top
    split
    · exact h.replaceTop (g := .map vty vnul es .midKey w) ⟨hok.1, hok.2.1, hok.2.2.1, trivial⟩ (fun _ _ hx => hx)
    · rename_i k
      split
      · exact h
      · rename_i hc
        simp only [Bool.not_eq_true] at hc
        exact h.replaceTop (g := .map vty vnul es (.midValue k) w) ⟨hok.1, hok.2.1, hok.2.2.1, hc⟩ (fun _ _ hx => hx)
    · apply finish_inv h
      intro ty nul hwf hfor
      exact good_wrap hwf hfor (good_map false hok.2.1 hok.2.2.1)
    · exact h
  · exact keyPrim_inv op he h
  · rename_i vty vnul es k w rest
    have hok := h.top
    split
    · exact h.replaceTop (g := .map vty vnul es (.midValue k) w) ⟨hok.1, hok.2.1, hok.2.2.1, hok.2.2.2⟩ (fun _ _ hx => hx)
    · exact h
  · exact valuePrim_inv op h (by simp [pos, posOf])
  · -- struct, expecting a key
    rename_i fs es w rest
    have hok := h.top
    split
    · exact h.replaceTop (g := .struct fs es .midKey w) ⟨hok.1, hok.2.1, hok.2.2.1, trivial⟩ (fun _ _ hx => hx)
    · rename_i k
      split
      · rename_i hnone
        split
        · exact h
        · refine h.replaceTop (g := .struct fs es (.midValue k) w) ⟨hok.1, hok.2.1, hok.2.2.1, ?_⟩ (fun _ _ hx => hx)
          intro f hf; rw [hnone] at hf; cases hf
      · rename_i f0 hsome
        split
        · exact h
        · rename_i hc
          simp only [Bool.not_eq_true] at hc
          refine h.replaceTop (g := .struct fs es (.midValue k) w) ⟨hok.1, hok.2.1, hok.2.2.1, ?_⟩ (fun _ _ hx => hx)
          intro f hf; rw [hsome] at hf; cases hf; exact hc
    · split
      · rename_i hreq
        apply finish_inv h
        intro ty nul hwf hfor
        obtain ⟨F, hr, rfl⟩ := hfor
        exact good_wrap hwf hr (good_struct (by intro hc; cases hc) false hok.2.1 hok.2.2.1 hreq)
      · exact h
    · exact h
  · exact keyPrim_inv op he h
  · rename_i fs es k w rest
    have hok := h.top
    split
    · exact h.replaceTop (g := .struct fs es (.midValue k) w) ⟨hok.1, hok.2.1, hok.2.2.1, hok.2.2.2⟩ (fun _ _ hx => hx)
    · exact h
  · rename_i fs es k w rest
    split
    · rename_i f hfo
      exact valuePrim_inv op h (by simp [pos, posOf, hfo])
    · rw [errPrim_state]; exact h
  · -- tuple, expecting AssembleValue / Finish
    rename_i fs es w rest
    have hok := h.top
    split
    · exact h.replaceTop (g := .tuple fs es true w) hok (fun _ _ hx => hx)
    · split
      · rename_i hreq
        apply finish_inv h
        intro ty nul hwf hfor
        obtain ⟨F, hr, rfl⟩ := hfor
        exact good_wrap hwf hr (good_tuple false hok.2.1 hok.2.2.1 hok.2.2.2 hreq)
      · exact h
    · exact h
  · rename_i fs es w rest
    split
    · rename_i f hfo
      exact valuePrim_inv op h (by simp [pos, posOf, hfo])
    · rw [errPrim_state]; exact h
  · -- keyed union, expecting a key
    rename_i ms cur w rest
    have hok := h.top
    split
    · exact h.replaceTop (g := .union ms cur .midKey w) hok (fun _ _ hx => hx)
    · rename_i k
      split
      · exact h
      · exact h.replaceTop (g := .union ms cur (.midValue k) w) hok (fun _ _ hx => hx)
    · split
      · rename_i n v
        apply finish_inv h
        intro ty nul hwf hfor
        obtain ⟨M, hr, rfl⟩ := hfor
        obtain ⟨m, hm, rfl, hg⟩ := hok.2.2 n v rfl
        exact good_wrap hwf hr (good_union false hok.2.1 hm hg)
      · exact h
    · exact h
  · exact keyPrim_inv op he h
  · rename_i ms cur k w rest
    have hok := h.top
    split
    · exact h.replaceTop (g := .union ms cur (.midValue k) w) hok (fun _ _ hx => hx)
    · exact h
  · rename_i ms cur k w rest
    split
    · rename_i m hmo
      exact valuePrim_inv op h (by simp [pos, posOf, hmo])
    · rw [errPrim_state]; exact h
  · -- the dead map assembler
    split
    · exact h.replaceTop (g := .dead .midKey) trivial (fun _ _ _ => trivial)
    all_goals exact h
  · rw [errPrim_state]; exact h

mutual
/-- The copy `AssignNode` makes keeps the invariant at every stage, wherever it stops. -/
theorem putNode_inv {e : Engine} (he : e.keyAsmDupMapKey = false) : (v : DM) → (s : St) → Inv s → Inv (putNode e s v).1
  | .list xs, s, h => by
    simp only [putNode]
    exact andThen_state (stepPrim_inv _ he h) fun s1 h1 =>
      andThen_state (putList_inv he xs s1 h1) fun s2 h2 => stepPrim_inv _ he h2
  | .map es, s, h => by
    simp only [putNode]
    exact andThen_state (stepPrim_inv _ he h) fun s1 h1 =>
      andThen_state (putKVs_inv he es s1 h1) fun s2 h2 => stepPrim_inv _ he h2
  | .null, s, h => by simp only [putNode]; exact stepPrim_inv _ he h
  | .bool _, s, h => by simp only [putNode]; exact stepPrim_inv _ he h
  | .int _, s, h => by simp only [putNode]; exact stepPrim_inv _ he h
  | .float _, s, h => by simp only [putNode]; exact stepPrim_inv _ he h
  | .str _, s, h => by simp only [putNode]; exact stepPrim_inv _ he h
  | .bytes _, s, h => by simp only [putNode]; exact stepPrim_inv _ he h
  | .link _, s, h => by simp only [putNode]; exact stepPrim_inv _ he h
theorem putList_inv {e : Engine} (he : e.keyAsmDupMapKey = false) : (xs : DMs) → (s : St) → Inv s → Inv (putList e s xs).1
  | .nil, s, h => by simp only [putList]; exact h
  | .cons x xs, s, h => by
    simp only [putList]
    exact andThen_state (stepPrim_inv _ he h) fun s1 h1 =>
      andThen_state (putNode_inv he x s1 h1) fun s2 h2 => putList_inv he xs s2 h2
theorem putKVs_inv {e : Engine} (he : e.keyAsmDupMapKey = false) : (es : DMKVs) → (s : St) → Inv s → Inv (putKVs e s es).1
  | .nil, s, h => by simp only [putKVs]; exact h
  | .cons k v es, s, h => by
    simp only [putKVs]
    exact andThen_state (stepPrim_inv _ he h) fun s1 h1 =>
      andThen_state (stepPrim_inv _ he h1) fun s2 h2 =>
      andThen_state (stepPrim_inv _ he h2) fun s3 h3 =>
      andThen_state (putNode_inv he v s3 h3) fun s4 h4 => putKVs_inv he es s4 h4
end

/-- Every call keeps the invariant, whatever its outcome - for an engine whose key assemblers refuse a repeated key. -/
theorem step_inv {e : Engine} {s : St} (op : Op) (he : e.keyAsmDupMapKey = false) (h : Inv s) :
    Inv (step e s op).1 := by
  unfold step
  split
  · exact h
  · unfold stepU
    split
    · rename_i v
      split
      · have hp := putNode_inv he v s h
        split
        · rename_i st' heq
          rw [heq] at hp; exact hp
        · split
          · exact h.taint true
          · exact h
        · exact h
      · exact stepPrim_inv _ he h
    · exact stepPrim_inv _ he h

theorem run_inv {e : Engine} {s : St} (ops : List Op) (he : e.keyAsmDupMapKey = false) (h : Inv s) :
    Inv (run e s ops).1 := by
  induction ops generalizing s with
  | nil => exact h
  | cons op ops ih =>
    have h1 := step_inv op he h
    cases hs : step e s op with
    | mk s' o =>
      rw [hs] at h1
      cases o with
      | ok => rw [run_cons_ok ops hs]; exact ih h1
      | err c => rw [run_cons_err ops hs]; exact ih h1
      | panic => rw [run_cons_panic ops hs]; exact h1

/-- whatever `Build` returns is good for the builder's type -/
theorem build_good {s : St} {v : TL} (h : Inv s) (hb : build s = some v) : RGood s.ty false v := by
  unfold build at hb
  split at hb
  · exact h.root v hb
  · cases hb

end RAsm
end Ipld
