package core

// Type-directed call histories for schema-bound builders, at type level and at representation level (C12, C13).
//
// GenHistoryOpts (asmdrive.go) draws a history from the VALUE alone; it cannot know which kinds a position refuses where a
// position holds more than one (kinded unions, any), which fields a struct still needs, or which key a representation
// uses.  GenTypedHistory walks the type together with the canonical typed value (GenInhabitant) and emits the calls that
// build it through the builder of the chosen level - representation keys, tuple positions, discriminants, the member's own
// calls for a kinded union, one string for the string strategies - with refused calls mixed in whose refusal the schema
// itself prescribes, and the history CONTINUED after each:
//
//	value-kind      a call of a kind the position's type cannot hold (scalar assign, AssignNode, Begin*)
//	refused-node    AssignNode of the legal map/list with one scalar entry of another kind (refused part of the way through)
//	early-finish    Finish while a required field is missing / a union has no member yet
//	repeated key    in the three ways a key can arrive (typed maps, structs)
//	key-kind        a kind the key position cannot hold
//
// and, on request, a first history (complete, cut off anywhere, or cut off and followed by one more call) and a Reset in
// front (TypedHistoryOpts.Reset).

// TypedHistoryOpts says which refused calls are mixed in.
type TypedHistoryOpts struct {
	Inject bool // the refusals listed above
	Reset  bool // a first history of the same type (for another inhabitant), then Reset, in front
	// Odd: at one point of the history a call is made whose answer the ENGINES give differently (pinned by the model of each
	// engine only): a struct key that is no field (at representation level also the original name of a renamed field), a key
	// of a keyed union that is no discriminant or comes after the member is set, AssembleValue past the last field of a tuple,
	// BeginMap on a representation that is no map.  A few value calls follow and the history ENDS there (GenTypedHistoryOdd).
	Odd bool
}

// levelKinds: the kinds of call the assembler of t accepts at the level (a string kind means "some strings").
func levelKinds(t *SType, lvl string, out map[string]bool) {
	if lvl == "type" {
		switch t.K {
		case "struct", "union":
			out["map"] = true
		case "enum":
			out["str"] = true
		case "any":
			for _, k := range []string{"null", "bool", "int", "float", "str", "bytes", "link", "list", "map"} {
				out[k] = true
			}
		default:
			out[t.K] = true
		}
		return
	}
	switch {
	case t.K == "any":
		for _, k := range []string{"null", "bool", "int", "float", "str", "bytes", "link", "list", "map"} {
			out[k] = true
		}
	case t.K == "union" && t.URepr == "kinded":
		for _, m := range t.Members {
			// the table lists the member under ONE kind; what the member accepts of that kind is its own business
			out[m.Kind] = true
		}
	default:
		out[t.ReprKind()] = true
	}
}

// BindnodeReprBeginMapRefused: bindnode's representation assembler refuses BeginMap where the representation is no map.
// false for the library as found: `_assemblerRepr.BeginMap` accepts it on every struct and every union that is not kinded
// (tuple, stringjoin, listpairs; stringprefix) and hands out a map assembler that refuses everything (reported; the Lean
// model's flag is RAsm.Engine.beginMapAny).  While false, such a BeginMap is not injected into histories that carry
// expectations (it would be answered `ok` and the history could not go on) - it is drawn as an "odd" call, run against
// the model of each engine only.  Set to true once the library refuses it (and RAsm.Engine.bindnode to `{ }`): the call
// then is one more wrong-kind injection (`value-kind`: refused by that call, the builder usable afterwards), at every
// representation-level position, for both engines.
const BindnodeReprBeginMapRefused = true

// beginMapUnsafe: a BeginMap at this position is answered `ok` by bindnode although the representation is no map
func beginMapUnsafe(t *SType, lvl string) bool {
	if lvl != "repr" || BindnodeReprBeginMapRefused {
		return false
	}
	switch t.K {
	case "struct":
		return t.SRepr != "map"
	case "union":
		if t.URepr == "kinded" {
			for _, m := range t.Members {
				if m.Kind == "map" && beginMapUnsafe(m.T, lvl) {
					return true
				}
			}
			return false
		}
		return t.URepr != "keyed"
	}
	return false
}

func scalarOfKind(k string, r *Rand) Val {
	switch k {
	case "bool":
		return Bool(r.Bool())
	case "int":
		return Int(int64(r.Intn(9)))
	case "float":
		return Float(1.5)
	case "str":
		return Str([]string{"x", "", "\x01?"}[r.Intn(3)])
	case "bytes":
		return Bytes([]byte{1})
	case "link":
		return Link(GenCid(r))
	}
	return Null()
}

// refusedKindCalls: calls of kinds the position (type t, nullable or not) refuses at the level.
func refusedKindCalls(t *SType, nul bool, lvl string, r *Rand) []AsmOp {
	acc := map[string]bool{}
	levelKinds(t, lvl, acc)
	if nul {
		acc["null"] = true
	}
	var cands []string
	for _, k := range []string{"null", "bool", "int", "float", "str", "bytes", "link", "list", "map"} {
		if !acc[k] {
			cands = append(cands, k)
		}
	}
	if len(cands) == 0 {
		return nil
	}
	var ops []AsmOp
	for n := 1 + r.Intn(2); n > 0; n-- {
		k := cands[r.Intn(len(cands))]
		switch k {
		case "map":
			if beginMapUnsafe(t, lvl) {
				continue
			}
			if r.Bool() {
				ops = append(ops, AsmOp{Kind: "BM", Hint: int64(r.Intn(3)) - 1, Expect: "e:wrongKind", Note: "value-kind"})
			} else {
				ops = append(ops, AsmOp{Kind: "AN", V: Map(), Expect: "e:wrongKind", Note: "value-kind"})
			}
		case "list":
			if r.Bool() {
				ops = append(ops, AsmOp{Kind: "BL", Hint: int64(r.Intn(3)) - 1, Expect: "e:wrongKind", Note: "value-kind"})
			} else {
				ops = append(ops, AsmOp{Kind: "AN", V: List(), Expect: "e:wrongKind", Note: "value-kind"})
			}
		default:
			ops = append(ops, AsmOp{Kind: []string{"A", "A", "AN"}[r.Intn(3)], V: scalarOfKind(k, r), Expect: "e:wrongKind", Note: "value-kind"})
		}
	}
	return ops
}

func isPlainScalarType(t *SType) bool {
	switch t.K {
	case "bool", "int", "float", "str", "bytes", "link":
		return true
	}
	return false
}

type thGen struct {
	lvl string
	r   *Rand
	o   TypedHistoryOpts
	cfg SchemaCfg
	cut bool   // the odd call has been made: the history ends
	odd string // what it was
}

// oddTail: a few calls on the value assembler the odd key / position handed out
func (g *thGen) oddTail(ops []AsmOp, what string) []AsmOp {
	tail := []AsmOp{{Kind: "A", V: Int(1)}, {Kind: "BM"}, {Kind: "BL", Hint: 1}, {Kind: "AN", V: Str("x")}, {Kind: "AN", V: List(Int(1))}, {Kind: "A", V: Null()}, {Kind: "A", V: Str("x")}}
	for n := 1 + g.r.Intn(3); n > 0; n-- {
		ops = append(ops, tail[g.r.Intn(len(tail))])
	}
	g.cut, g.odd = true, what
	return ops
}

// oddKey: a key the map-like assembler cannot give a value, supplied in one of the ways a key can arrive
func (g *thGen) oddKey(ops []AsmOp, k []byte, what string) []AsmOp {
	if g.r.Bool() {
		ops = append(ops, AsmOp{Kind: "AE", Key: k})
	} else {
		ops = append(ops, AsmOp{Kind: "AK"}, AsmOp{Kind: []string{"A", "AN"}[g.r.Intn(2)], V: Val{K: 's', S: k}}, AsmOp{Kind: "AV"})
	}
	return g.oddTail(ops, what)
}

func (g *thGen) wantOdd() bool { return g.o.Odd && !g.cut && g.r.Chance(1, 3) }

func okOp(o AsmOp) AsmOp { o.Expect = "ok"; return o }

func (g *thGen) hint(n int) int64 {
	switch g.r.Intn(4) {
	case 0:
		return -1
	case 1:
		return 0
	case 2:
		return int64(g.r.Intn(2*n + 3))
	}
	return int64(n)
}

// keyOps: the calls that supply a map key (one of the three ways), with kinds the key position cannot hold mixed in
func (g *thGen) keyOps(k []byte) []AsmOp {
	r := g.r
	if r.Intn(3) == 0 {
		return []AsmOp{okOp(AsmOp{Kind: "AE", Key: k})}
	}
	ops := []AsmOp{okOp(AsmOp{Kind: "AK"})}
	if g.o.Inject && r.Chance(1, 5) {
		for n := 1 + r.Intn(2); n > 0; n-- {
			switch r.Intn(5) {
			case 0:
				ops = append(ops, AsmOp{Kind: "A", V: Int(int64(r.Intn(9))), Expect: "e:wrongKind", Note: "key-kind"})
			case 1:
				ops = append(ops, AsmOp{Kind: "A", V: Null(), Expect: "e:wrongKind", Note: "key-kind"})
			case 2:
				ops = append(ops, AsmOp{Kind: "BM", Hint: 0, Expect: "e:wrongKind", Note: "key-kind"})
			case 3:
				ops = append(ops, AsmOp{Kind: "BL", Hint: 1, Expect: "e:wrongKind", Note: "key-kind"})
			case 4:
				ops = append(ops, AsmOp{Kind: "AN", V: List(Int(1)), Expect: "e:wrongKind", Note: "key-kind"})
			}
		}
	}
	if r.Bool() {
		ops = append(ops, okOp(AsmOp{Kind: "A", V: Val{K: 's', S: k}}))
	} else {
		ops = append(ops, okOp(AsmOp{Kind: "AN", V: Val{K: 's', S: k}}))
	}
	return append(ops, okOp(AsmOp{Kind: "AV"}))
}

// dupOps: a key the map / struct has accepted already, in one of the three ways
func (g *thGen) dupOps(dup []byte) []AsmOp {
	switch g.r.Intn(3) {
	case 0:
		return []AsmOp{{Kind: "AE", Key: dup, Expect: "e:repeatedKey", Note: "repeated-key"}}
	case 1:
		return []AsmOp{okOp(AsmOp{Kind: "AK"}), {Kind: "A", V: Val{K: 's', S: dup}, Expect: "e:repeatedKey", Note: "repeated-key"}}
	}
	return []AsmOp{okOp(AsmOp{Kind: "AK"}), {Kind: "AN", V: Val{K: 's', S: dup}, Expect: "e:repeatedKey", Note: "repeated-key"}}
}

// input: the data-model tree the level's builder is fed for the typed value v
func (g *thGen) input(t *SType, v Val) (Val, bool) {
	if g.lvl == "type" {
		return TypeInput(v), true
	}
	return ReprOf(t, v)
}

// refusedNode: the legal container input with one scalar-typed entry replaced by a scalar of another kind
func (g *thGen) refusedNode(in Val, entryType func(i int) *SType) (AsmOp, bool) {
	n := len(in.L) + len(in.M)
	if n == 0 {
		return AsmOp{}, false
	}
	at := func(i int) Val {
		if in.K == '[' {
			return in.L[i]
		}
		return in.M[i].V
	}
	j := n - 1 - g.r.Intn((n+1)/2)
	for tries := 0; tries < n; tries++ {
		if et := entryType(j); et != nil && isPlainScalarType(et) && at(j).K != 'n' {
			bad := Val{K: in.K}
			if in.K == '[' {
				bad.L = append([]Val{}, in.L...)
				bad.L[j] = otherKindScalar(in.L[j], g.r)
			} else {
				bad.M = append([]KV{}, in.M...)
				bad.M[j] = KV{in.M[j].K, otherKindScalar(in.M[j].V, g.r)}
			}
			return AsmOp{Kind: "AN", V: bad, Expect: "e:refusedNode", Note: "refused-node"}, true
		}
		j = (j + 1) % n
	}
	return AsmOp{}, false
}

// at: the calls on the assembler of type t (slot nullable iff nul) that deliver the typed value v.  member: the position is
// the assembler of a kinded union that has dispatched to this member type - no call of another kind is injected (the union
// might accept it).
func (g *thGen) at(t *SType, nul bool, v Val, member bool) ([]AsmOp, bool) {
	r := g.r
	var pre []AsmOp
	if g.o.Inject && !member && v.K != 'n' && r.Chance(1, 5) {
		pre = refusedKindCalls(t, nul, g.lvl, r)
	}
	if !member && v.K != 'n' && beginMapUnsafe(t, g.lvl) && g.wantOdd() {
		// bindnode accepts this BeginMap and hands out a map assembler that refuses everything; generated code refuses it
		pre = append(pre, AsmOp{Kind: "BM", Hint: 0})
		for _, op := range []AsmOp{{Kind: "F"}, {Kind: "AE", Key: []byte("x")}, {Kind: "F"}, {Kind: "AK"}} {
			if op.Kind == "AK" || r.Bool() {
				pre = append(pre, op)
			}
		}
		pre = append(pre, AsmOp{Kind: "A", V: Str("x")}, AsmOp{Kind: "A", V: Int(1)})
		g.cut, g.odd = true, "begin-map-on-non-map-representation"
		return pre, true
	}
	ops, ok := g.legal(t, nul, v)
	return append(pre, ops...), ok
}

func (g *thGen) legal(t *SType, nul bool, v Val) ([]AsmOp, bool) {
	r := g.r
	if v.K == 'n' {
		return []AsmOp{okOp(AsmOp{Kind: []string{"A", "AN"}[r.Intn(2)], V: Null()})}, true
	}
	in, ok := g.input(t, v)
	if !ok {
		return nil, false
	}
	whole := func() []AsmOp { return []AsmOp{okOp(AsmOp{Kind: "AN", V: in})} }
	scalar := func() []AsmOp {
		if r.Chance(1, 6) {
			return whole()
		}
		return []AsmOp{okOp(AsmOp{Kind: "A", V: in})}
	}
	repr := g.lvl == "repr"
	switch {
	case t.K == "any", repr && t.K == "struct" && t.SRepr == "listpairs":
		// no schema below this point (any), or a strategy the typed-assembler model leaves out: a value-directed history
		return genHistoryAt(in, r, HistoryOpts{Inject: g.o.Inject}), true
	case t.K == "list":
		if r.Chance(1, 8) {
			return whole(), true
		}
		var ops []AsmOp
		if g.o.Inject && r.Chance(1, 6) {
			if bad, ok := g.refusedNode(in, func(int) *SType { return t.Elem }); ok {
				ops = append(ops, bad)
			}
		}
		ops = append(ops, okOp(AsmOp{Kind: "BL", Hint: g.hint(len(v.L))}))
		for _, x := range v.L {
			ops = append(ops, okOp(AsmOp{Kind: "AV"}))
			sub, ok := g.at(t.Elem, t.Nullable, x, false)
			if !ok {
				return nil, false
			}
			ops = append(ops, sub...)
			if g.cut {
				return ops, true
			}
		}
		return append(ops, okOp(AsmOp{Kind: "F"})), true
	case t.K == "map":
		if r.Chance(1, 8) {
			return whole(), true
		}
		var ops []AsmOp
		if g.o.Inject && r.Chance(1, 6) {
			if bad, ok := g.refusedNode(in, func(int) *SType { return t.Elem }); ok {
				ops = append(ops, bad)
			}
		}
		ops = append(ops, okOp(AsmOp{Kind: "BM", Hint: g.hint(len(v.M))}))
		for i, e := range v.M {
			if g.o.Inject && i > 0 && r.Chance(1, 3) {
				ops = append(ops, g.dupOps(v.M[r.Intn(i)].K)...)
			}
			ops = append(ops, g.keyOps(e.K)...)
			sub, ok := g.at(t.Elem, t.Nullable, e.V, false)
			if !ok {
				return nil, false
			}
			ops = append(ops, sub...)
			if g.cut {
				return ops, true
			}
		}
		return append(ops, okOp(AsmOp{Kind: "F"})), true
	case t.K == "struct" && repr && t.SRepr == "join":
		return scalar(), true
	case t.K == "struct" && repr && t.SRepr == "tuple":
		if r.Chance(1, 8) {
			return whole(), true
		}
		var ops []AsmOp
		if g.o.Inject && r.Chance(1, 6) {
			if bad, ok := g.refusedNode(in, func(i int) *SType { return t.Fields[i].T }); ok {
				ops = append(ops, bad)
			}
		}
		ops = append(ops, okOp(AsmOp{Kind: "BL", Hint: g.hint(len(in.L))}))
		for i := 0; i < len(in.L); i++ {
			// Finish while a required field has not been reached: refused, the assembler stays
			if g.o.Inject && r.Chance(1, 6) && requiredFrom(t, i) {
				ops = append(ops, AsmOp{Kind: "F", Expect: "e:other", Note: "early-finish"})
			}
			ops = append(ops, okOp(AsmOp{Kind: "AV"}))
			f := t.Fields[i]
			sub, ok := g.at(f.T, f.Nullable, v.M[i].V, false)
			if !ok {
				return nil, false
			}
			ops = append(ops, sub...)
			if g.cut {
				return ops, true
			}
		}
		if len(in.L) == len(t.Fields) && g.wantOdd() {
			// AssembleValue past the last field: an error assembler is handed out
			return g.oddTail(append(ops, AsmOp{Kind: "AV"}), "tuple-value-past-last-field"), true
		}
		return append(ops, okOp(AsmOp{Kind: "F"})), true
	case t.K == "struct":
		// a map at this level: type level (keys = field names, every representation) or the map representation (keys =
		// representation keys); the fields in any order
		if r.Chance(1, 8) {
			return whole(), true
		}
		var present []int
		for i := range t.Fields {
			if v.M[i].V.K != 'a' {
				present = append(present, i)
			}
		}
		if r.Chance(1, 3) {
			p := r.Perm(len(present))
			sh := make([]int, len(present))
			for i, j := range p {
				sh[i] = present[j]
			}
			present = sh
		}
		key := func(i int) []byte {
			if repr {
				return []byte(t.Fields[i].Rename)
			}
			return []byte(t.Fields[i].Name)
		}
		var ops []AsmOp
		if g.o.Inject && r.Chance(1, 6) {
			if bad, ok := g.refusedNode(in, func(i int) *SType {
				for _, f := range t.Fields {
					if string(key0(f, repr)) == string(in.M[i].K) {
						return f.T
					}
				}
				return nil
			}); ok {
				ops = append(ops, bad)
			}
		}
		ops = append(ops, okOp(AsmOp{Kind: "BM", Hint: g.hint(len(present))}))
		done := map[int]bool{}
		unknown := func() []byte {
			// a name that is no key at this level; at representation level preferably the original name of a renamed field
			if repr {
				for _, j := range r.Perm(len(t.Fields)) {
					f := t.Fields[j]
					if f.Rename != f.Name && t.fieldByKey("repr", f.Name) == nil {
						return []byte(f.Name)
					}
				}
			}
			return []byte("no\x01field")
		}
		for n, i := range present {
			if g.wantOdd() {
				return g.oddKey(ops, unknown(), "struct-key-that-is-no-field"), true
			}
			if g.o.Inject && r.Chance(1, 6) && requiredMissing(t, done) {
				ops = append(ops, AsmOp{Kind: "F", Expect: "e:other", Note: "early-finish"})
			}
			if g.o.Inject && n > 0 && r.Chance(1, 3) {
				ops = append(ops, g.dupOps(key(present[r.Intn(n)]))...)
			}
			ops = append(ops, g.keyOps(key(i))...)
			f := t.Fields[i]
			sub, ok := g.at(f.T, f.Nullable, v.M[i].V, false)
			if !ok {
				return nil, false
			}
			ops = append(ops, sub...)
			if g.cut {
				return ops, true
			}
			done[i] = true
		}
		if g.wantOdd() {
			return g.oddKey(ops, unknown(), "struct-key-that-is-no-field"), true
		}
		return append(ops, okOp(AsmOp{Kind: "F"})), true
	case t.K == "union":
		if len(v.M) != 1 {
			return nil, false
		}
		var m *SMember
		for i := range t.Members {
			if t.Members[i].T.Name == string(v.M[0].K) {
				m = &t.Members[i]
			}
		}
		if m == nil {
			return nil, false
		}
		switch {
		case repr && t.URepr == "prefix":
			return scalar(), true
		case repr && t.URepr == "kinded":
			// the union assembler dispatches on the kind of the call: the member's own calls
			return g.at(m.T, false, v.M[0].V, true)
		}
		if r.Chance(1, 8) {
			return whole(), true
		}
		key := []byte(m.T.Name)
		if repr {
			key = []byte(m.Disc)
		}
		ops := []AsmOp{okOp(AsmOp{Kind: "BM", Hint: g.hint(1)})}
		if g.o.Inject && r.Chance(1, 4) {
			ops = append(ops, AsmOp{Kind: "F", Expect: "e:other", Note: "early-finish"})
		}
		if g.wantOdd() {
			return g.oddKey(ops, []byte("no\x01member"), "union-key-that-is-no-member"), true
		}
		ops = append(ops, g.keyOps(key)...)
		sub, ok := g.at(m.T, false, v.M[0].V, false)
		if !ok {
			return nil, false
		}
		ops = append(ops, sub...)
		if g.cut {
			return ops, true
		}
		if g.wantOdd() {
			// a second entry: the same key again, or another member's
			k2 := key
			if o := t.Members[r.Intn(len(t.Members))]; r.Bool() {
				if k2 = []byte(o.T.Name); repr {
					k2 = []byte(o.Disc)
				}
			}
			return g.oddKey(ops, k2, "union-second-entry"), true
		}
		return append(ops, okOp(AsmOp{Kind: "F"})), true
	}
	// scalars, enums
	return scalar(), true
}

func key0(f SField, repr bool) []byte {
	if repr {
		return []byte(f.Rename)
	}
	return []byte(f.Name)
}

// requiredFrom: some field from position i on is required
func requiredFrom(t *SType, i int) bool {
	for _, f := range t.Fields[i:] {
		if !f.Opt {
			return true
		}
	}
	return false
}

func requiredMissing(t *SType, done map[int]bool) bool {
	for i, f := range t.Fields {
		if !f.Opt && !done[i] {
			return true
		}
	}
	return false
}

// GenTypedHistory: a history on the builder of t at the level ("type" | "repr") that builds the canonical typed value v,
// with the refused calls of o mixed in and continued after each.  ok=false: v has no representation (a tuple with an absent
// field before a present one).  With o.Reset the history is preceded by a first history for the inhabitant v0 - complete, cut
// off anywhere, or cut off and followed by one more call (whatever it is there: accepted, refused, misuse) - and a Reset;
// those calls carry no expectation (Note "before-reset").
func GenTypedHistory(t *SType, lvl string, v Val, r *Rand, cfg SchemaCfg, o TypedHistoryOpts) ([]AsmOp, bool) {
	g := &thGen{lvl: lvl, r: r, o: o, cfg: cfg}
	ops, ok := g.at(t, false, v, false)
	if !ok {
		return nil, false
	}
	if o.Reset {
		ops = append(ResetPrefix(t, lvl, r, cfg), ops...)
	}
	return ops, true
}

// GenTypedHistoryOdd: as GenTypedHistory with o.Odd; what != "": the odd call was made (its name), the history ends after it
// and carries no expectations - it is run against the model of each engine only.
func GenTypedHistoryOdd(t *SType, lvl string, v Val, r *Rand, cfg SchemaCfg) (ops []AsmOp, what string, ok bool) {
	g := &thGen{lvl: lvl, r: r, o: TypedHistoryOpts{Odd: true}, cfg: cfg}
	ops, ok = g.at(t, false, v, false)
	if !ok || !g.cut {
		return ops, "", ok
	}
	for i := range ops {
		ops[i].Expect = ""
	}
	return ops, g.odd, true
}

// ResetPrefix: a first history on the builder of t at the level, then Reset.
func ResetPrefix(t *SType, lvl string, r *Rand, cfg SchemaCfg) []AsmOp {
	g := &thGen{lvl: lvl, r: r, o: TypedHistoryOpts{Inject: r.Chance(1, 3)}, cfg: cfg}
	var first []AsmOp
	for tries := 0; tries < 4; tries++ {
		if h, ok := g.at(t, false, GenInhabitant(t, r, cfg, true), false); ok {
			first = h
			break
		}
	}
	switch r.Intn(3) {
	case 0: // cut off anywhere
		first = first[:r.Intn(len(first)+1)]
	case 1: // cut off, then one more call - a value no position of these schemas holds, or a call out of place
		first = append([]AsmOp{}, first[:r.Intn(len(first)+1)]...)
		extra := []AsmOp{{Kind: "A", V: Str("\x01?")}, {Kind: "A", V: Str("\x01?")}, {Kind: "F"}, {Kind: "AV"}, {Kind: "BM"}, {Kind: "AN", V: List(Int(1), Str("x"))}}
		first = append(first, extra[r.Intn(len(extra))])
	}
	out := make([]AsmOp, 0, len(first)+1)
	for _, op := range first {
		op.Expect, op.Note = "", "before-reset"
		out = append(out, op)
	}
	return append(out, AsmOp{Kind: "R", Expect: "reset", Note: "reset"})
}
