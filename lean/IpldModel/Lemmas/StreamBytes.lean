import IpldModel.Model.StreamBytes
namespace Ipld.StreamBytes

theorem setAt_length (l : List Nat) (i v : Nat) : (setAt l i v).length = l.length := by
  induction l generalizing i with
  | nil => rfl
  | cons h t ih => cases i <;> simp [setAt, ih]

theorem setAt_get_ne (l : List Nat) (i j v : Nat) (h : i ≠ j) : (setAt l i v)[j]? = l[j]? := by
  induction l generalizing i j with
  | nil => rfl
  | cons a t ih =>
    cases i with
    | zero =>
      cases j with
      | zero => exact absurd rfl h
      | succ j => simp [setAt]
    | succ i =>
      cases j with
      | zero => simp [setAt]
      | succ j => simp only [setAt, List.getElem?_cons_succ]; exact ih i j (by omega)

theorem setAt_get_eq (l : List Nat) (i v : Nat) (h : i < l.length) : (setAt l i v)[i]? = some v := by
  induction l generalizing i with
  | nil => simp at h
  | cons a t ih =>
    cases i with
    | zero => simp [setAt]
    | succ i => simp only [setAt, List.getElem?_cons_succ]; exact ih i (by simpa using h)

/-- a step never changes the content -/
theorem step_content (s : St) (i : Nat) (op : Op) : (step s i op).1.sh.content = s.sh.content := by
  unfold step
  cases hv : s.views[i]? with
  | none => rfl
  | some off =>
    cases op with
    | read n => simp [viewRead]
    | seek d w =>
      cases w <;> simp only [viewSeek] <;> (try split) <;> rfl
    | asBytes => simp [asBytes]

/-- a step of view `j` leaves the offset of every other view alone -/
theorem step_other_view (s : St) (i j : Nat) (op : Op) (h : j ≠ i) : (step s j op).1.views[i]? = s.views[i]? := by
  unfold step
  cases hv : s.views[j]? with
  | none => rfl
  | some off =>
    cases op with
    | read n => simp only [viewRead]; exact setAt_get_ne _ _ _ _ h
    | seek d w =>
      cases w <;> simp only [viewSeek] <;> (try split) <;> exact setAt_get_ne _ _ _ _ h
    | asBytes => rfl

/-- `asBytes` leaves every view's offset alone -/
theorem step_asBytes_views (s : St) (j : Nat) : (step s j .asBytes).1.views = s.views := by
  unfold step
  cases hv : s.views[j]? <;> rfl

/-- The answer of a step, and the new offset of the stepping view, depend only on the content and on that view's
    own offset — never on the shared cursor or on other views. -/
theorem step_depends_on_own (s t : St) (i : Nat) (op : Op)
    (hc : s.sh.content = t.sh.content) (hv : s.views[i]? = t.views[i]?) :
    (step s i op).2 = (step t i op).2 ∧ (step s i op).1.views[i]? = (step t i op).1.views[i]? := by
  unfold step
  rw [← hv]
  cases hs : s.views[i]? with
  | none => simp [hs, hv ▸ hs]
  | some off =>
    have hsl : i < s.views.length := by
      rcases List.getElem?_eq_some_iff.mp hs with ⟨h, _⟩; exact h
    have htl : i < t.views.length := by
      rcases List.getElem?_eq_some_iff.mp (hv ▸ hs) with ⟨h, _⟩; exact h
    cases op with
    | read n =>
      simp only [viewRead, hc]
      refine ⟨?_, ?_⟩ <;> first | rfl | trivial | (rw [setAt_get_eq _ _ _ hsl, setAt_get_eq _ _ _ htl])
    | seek d w =>
      cases w with
      | start =>
        simp only [viewSeek]
        split
        · refine ⟨?_, ?_⟩ <;> first | rfl | trivial | (rw [setAt_get_eq _ _ _ hsl, setAt_get_eq _ _ _ htl])
        · refine ⟨?_, ?_⟩ <;> first | rfl | trivial | (rw [setAt_get_eq _ _ _ hsl, setAt_get_eq _ _ _ htl])
      | current =>
        simp only [viewSeek]
        split
        · refine ⟨?_, ?_⟩ <;> first | rfl | trivial | (rw [setAt_get_eq _ _ _ hsl, setAt_get_eq _ _ _ htl])
        · refine ⟨?_, ?_⟩ <;> first | rfl | trivial | (rw [setAt_get_eq _ _ _ hsl, setAt_get_eq _ _ _ htl])
      | end_ =>
        simp only [viewSeek, hc]
        split
        · refine ⟨?_, ?_⟩ <;> first | rfl | trivial | (rw [setAt_get_eq _ _ _ hsl, setAt_get_eq _ _ _ htl])
        · refine ⟨?_, ?_⟩ <;> first | rfl | trivial | (rw [setAt_get_eq _ _ _ hsl, setAt_get_eq _ _ _ htl])
    | asBytes =>
      simp only [asBytes, hc]
      refine ⟨?_, ?_⟩ <;> first | rfl | trivial | (rw [hs, ← hv, hs])

end Ipld.StreamBytes
