/-
  C16 — transforms are pure functional updates.  `Transform.focused` (the model of Go's
  `traversal.FocusedTransform`) against a reference update `updateAt` defined by recursion on the
  path: replace / remove the entry, keep all other entries in order.  Property theorems only; helper
  lemmas are in `Lemmas/Transform.lean`.

  Vocabulary (all in `Lemmas/Transform.lean`):
    * `getPlain root path = some target` — the target exists and no link is crossed to reach it
      (`LookupBySegment` only; a target found by `traversal.Get` with an empty store is such a target:
      `getPlain_of_get`);
    * `setEntry l k r` — replace (`some`) / remove (`none`) the first entry with key `k`, keep the rest in order;
    * `setChild n seg r` — the same for one child of a map (by key) or a list (by index);
    * `updateAt root path r` — the tree with the node at `path` replaced / removed.
  `root.NoDup` (no map in the tree carries a key twice — the invariant C12 proves of every built node)
  is needed wherever the loop that rewrites *every* matching entry must agree with "rewrite the entry":
  see `identity_needs_nodup` for what happens without it.
-/
import IpldModel.Model.Transform
import IpldModel.Lemmas.Transform
namespace Ipld.Props.C16
open Ipld Ipld.Sel Ipld.Walk Ipld.Transform

variable (fn : Fn) (linkOf : DM → Bytes) (canon : DM → DM) (cp : Bool)

/-- A target `traversal.Get` finds with nothing to load from is an existing target reached without
    crossing a link. -/
theorem getPlain_of_get (path : Path) (fuel : Nat) (root target : DM) :
    Walk.get [] fuel root path = .ok target → getPlain root path = some target :=
  getPlain_of_get_nil path fuel root target

/-! ## B0 — no link, no store -/

/-- **focused_no_link_store_unchanged.**  On a tree without links — any path (existing or not), any
    fuel, with or without `createParents`, success or error — the store is never consulted and comes
    back unchanged: the result is the result computed with an empty store, with the caller's store
    put back. -/
theorem focused_no_link_store_unchanged (fuel : Nat) (at_ : Path) (root : DM) (path : Path) (st : TSt) :
    Spec.hasLink root = false →
    focused fn linkOf canon cp fuel at_ (some root) path st =
      reState st (focused fn linkOf canon cp fuel at_ (some root) path { store := [], written := [] }) :=
  fun h => focused_linkfree fn linkOf canon cp fuel at_ (some root) path st
    (by intro d hd; injection hd with hd; subst hd; exact h)

/-- In particular a successful transform of a link-free tree returns the store it was given, and
    gives the same tree with any other store. -/
theorem focused_no_link_store_unchanged' (fuel : Nat) (at_ : Path) (root : DM) (path : Path) (st st' : TSt)
    (o : Option DM) :
    Spec.hasLink root = false → focused fn linkOf canon cp fuel at_ (some root) path st = .ok (o, st') →
    st' = st ∧ ∀ st2, focused fn linkOf canon cp fuel at_ (some root) path st2 = .ok (o, st2) := by
  intro hl h
  rw [focused_no_link_store_unchanged fn linkOf canon cp fuel at_ root path st hl] at h
  cases h0 : focused fn linkOf canon cp fuel at_ (some root) path { store := [], written := [] } with
  | error e => rw [h0] at h; cases h
  | ok q =>
    obtain ⟨o0, s0⟩ := q
    rw [h0] at h
    simp only [reState] at h
    injection h with h; injection h with h1 h2; subst h1 h2
    refine ⟨rfl, fun st2 => ?_⟩
    rw [focused_no_link_store_unchanged fn linkOf canon cp fuel at_ root path st2 hl, h0]
    rfl

/-! ## B2 — the transform is the functional update, and the callback sees what is there -/

/-- **focused_eq_update.**  Existing target, no link crossed, distinct keys: the transform returns
    the reference update with the callback's answer, computed from the position as the code reports
    it (`at_ ++ path`) and the node currently there; the store is returned unchanged. -/
theorem focused_eq_update (path : Path) (root target : DM) (at_ : Path) (fuel : Nat) (st : TSt) :
    root.NoDup → getPlain root path = some target → path.length < fuel →
    focused fn linkOf canon cp fuel at_ (some root) path st =
      .ok (updateAt root path (fn (at_ ++ path) (some target)), st) :=
  focused_eq_updateAt fn linkOf canon cp path root target at_ fuel st

/-- **callback_sees_current.**  The callback is consulted exactly once, at `at_ ++ path`, with the
    node currently there: any two callbacks that agree on that one question give the same result. -/
theorem callback_sees_current (fn' : Fn) (path : Path) (root target : DM) (at_ : Path) (fuel : Nat) (st : TSt) :
    root.NoDup → getPlain root path = some target → path.length < fuel →
    fn' (at_ ++ path) (some target) = fn (at_ ++ path) (some target) →
    focused fn' linkOf canon cp fuel at_ (some root) path st = focused fn linkOf canon cp fuel at_ (some root) path st := by
  intro hn hg hf he
  rw [focused_eq_update fn' linkOf canon cp path root target at_ fuel st hn hg hf,
    focused_eq_update fn linkOf canon cp path root target at_ fuel st hn hg hf, he]

/-- The reference update puts the new node at `path`… -/
theorem update_reads_back (path : Path) (root target v y : DM) :
    getPlain root path = some target → updateAt root path (some v) = some y → getPlain y path = some v :=
  getPlain_updateAt_same path root target v y

/-- …and leaves every position off the path as it was (B3 lifted along the path, for a replacement). -/
theorem update_off_path (path : Path) (root target : DM) (q : Path) (v y : DM) :
    getPlain root path = some target → OffPath root path q → updateAt root path (some v) = some y →
    getPlain y q = getPlain root q :=
  getPlain_updateAt_off path root target q v y

/-! ## B1 — the identity transform -/

/-- **identity_transform.**  A callback that answers with what it is shown returns an equal tree. -/
theorem identity_transform (path : Path) (root target : DM) (at_ : Path) (fuel : Nat) (st : TSt) :
    (∀ p prev, fn p prev = prev) → root.NoDup → getPlain root path = some target → path.length < fuel →
    focused fn linkOf canon cp fuel at_ (some root) path st = .ok (some root, st) := by
  intro hid hn hg hf
  rw [focused_eq_update fn linkOf canon cp path root target at_ fuel st hn hg hf, hid,
    updateAt_self path root target hg]

/-- The same with the target given by `traversal.Get` (nothing to load from). -/
theorem identity_transform_get (path : Path) (root target : DM) (gfuel fuel : Nat) (st : TSt) :
    (∀ p prev, fn p prev = prev) → root.NoDup → Walk.get [] gfuel root path = .ok target → path.length < fuel →
    focused fn linkOf canon cp fuel [] (some root) path st = .ok (some root, st) :=
  fun hid hn hg hf =>
    identity_transform fn linkOf canon cp path root target [] fuel st hid hn (getPlain_of_get path gfuel root target hg) hf

/-- Without `NoDup` the statement is false in the model: on a map carrying the key "a" twice the end
    case shows the callback the first entry and writes its answer into *every* matching entry.
    (Not reachable in Go: no node builder produces a repeated key, C12.) -/
theorem identity_needs_nodup :
    focused (fun _ prev => prev) linkOf canon cp 2 []
      (some (.map (.cons [0x61] (.int 1) (.cons [0x61] (.int 2) .nil)))) [.str [0x61]] ⟨[], []⟩
    = .ok (some (.map (.cons [0x61] (.int 1) (.cons [0x61] (.int 1) .nil))), ⟨[], []⟩) := by rfl

/-! ## B3 — untouched entries are equal and in order -/

/-- The map loop: entries whose key does not match the segment are kept, unchanged, in order. -/
theorem untouched_map_entries (l : List (Bytes × DM)) (seg : Seg) (r : Option DM) :
    (focusedMapSet l seg r).filter (fun e => !keyMatches e.1 seg) = l.filter (fun e => !keyMatches e.1 seg) :=
  focusedMapSet_others seg r l

/-- …the matching ones all carry the new value, or are all gone. -/
theorem matching_map_entries (l : List (Bytes × DM)) (seg : Seg) (v : DM) :
    (focusedMapSet l seg (some v)).filter (fun e => keyMatches e.1 seg) =
      (l.filter (fun e => keyMatches e.1 seg)).map (fun e => (e.1, v)) ∧
    (focusedMapSet l seg none).filter (fun e => keyMatches e.1 seg) = [] :=
  ⟨focusedMapSet_matching seg v l, focusedMapSet_removed seg l⟩

/-- **untouched_equal_in_order (maps).**  Whatever the transform does below a map — any path, found
    or missing key, `createParents` or not, links below or not — if it succeeds the result is a map
    whose entries not matching the first segment are the original ones, unchanged, in the same order. -/
theorem untouched_map (fuel : Nat) (at_ : Path) (es : DMKVs) (seg : Seg) (p2 : Path) (st st' : TSt) (o : Option DM) :
    focused fn linkOf canon cp (fuel + 1) at_ (some (.map es)) (seg :: p2) st = .ok (o, st') →
    ∃ es' : DMKVs, o = some (.map es') ∧
      es'.toList.filter (fun e => !keyMatches e.1 seg) = es.toList.filter (fun e => !keyMatches e.1 seg) :=
  focused_map_others fn linkOf canon cp fuel at_ es seg p2 st st' o

/-- **untouched_equal_in_order (lists).**  Whatever the transform does below a list, if it succeeds the
    result is a list that differs from the original at one position `i` at most: `take i` is
    preserved, and so is `drop (i+1)` (found at `drop i` if the element was removed).  For an append
    `i` is the length. -/
theorem untouched_list (fuel : Nat) (at_ : Path) (xs : DMs) (seg : Seg) (p2 : Path) (st st' : TSt) (o : Option DM) :
    focused fn linkOf canon cp (fuel + 1) at_ (some (.list xs)) (seg :: p2) st = .ok (o, st') →
    ∃ (xs' : DMs) (i : Nat), o = some (.list xs') ∧ i ≤ xs.toList.length ∧
      xs'.toList.take i = xs.toList.take i ∧
      (xs'.toList.drop (i + 1) = xs.toList.drop (i + 1) ∨ xs'.toList.drop i = xs.toList.drop (i + 1)) :=
  focused_list_others fn linkOf canon cp fuel at_ xs seg p2 st st' o

/-! ## B4 — insert and append -/

/-- **insert.**  A missing key at the end of the path: the callback is shown `none`; `some v` appends
    `(key, v)` after all existing entries, `none` returns the map unchanged. -/
theorem insert_missing_key (fuel : Nat) (at_ : Path) (es : DMKVs) (seg : Seg) (st : TSt) :
    lookupBySegment (.map es) seg = none →
    focused fn linkOf canon cp (fuel + 1) at_ (some (.map es)) [seg] st =
      match fn (at_ ++ [seg]) none with
      | none => .ok (some (.map es), st)
      | some v => .ok (some (.map (DMKVs.ofList (es.toList ++ [(seg.toString, v)]))), st) :=
  focused_map_insert fn linkOf canon cp fuel at_ es seg st

/-- **append.**  On a list, "-" or any negative index appends: the callback is shown `none` at the
    position `l.length` (an index segment, not "-"); `some v` adds `v` at the end, `none` returns the
    list unchanged. -/
theorem append_to_list (fuel : Nat) (at_ : Path) (xs : DMs) (seg : Seg) (st : TSt) :
    IsAppendSeg seg →
    focused fn linkOf canon cp (fuel + 1) at_ (some (.list xs)) [seg] st =
      match fn (at_ ++ [Seg.idx xs.toList.length]) none with
      | none => .ok (some (.list xs), st)
      | some v => .ok (some (.list (DMs.ofList (xs.toList ++ [v]))), st) :=
  focused_list_append fn linkOf canon cp fuel at_ xs seg st

/-- "-" is an append segment, and so is every negative index. -/
theorem dash_appends : IsAppendSeg (.str [0x2d]) := Or.inr ⟨by decide, by decide⟩

/-- An index at or past the end is an error, wherever in the path it occurs. -/
theorem index_beyond_bounds (fuel : Nat) (at_ : Path) (xs : DMs) (seg : Seg) (p2 : Path) (st : TSt) (i : Int) :
    seg.index = some i → (xs.toList.length : Int) ≤ i →
    focused fn linkOf canon cp (fuel + 1) at_ (some (.list xs)) (seg :: p2) st = .error .beyondBounds :=
  focused_list_beyond fn linkOf canon cp fuel at_ xs seg p2 st i

/-- A segment that is neither a number nor "-" is an error on a list. -/
theorem not_an_index (fuel : Nat) (at_ : Path) (xs : DMs) (seg : Seg) (p2 : Path) (st : TSt) :
    seg.index = none → lastSegIsDash seg = false →
    focused fn linkOf canon cp (fuel + 1) at_ (some (.list xs)) (seg :: p2) st = .error .notIndex :=
  focused_list_notIndex fn linkOf canon cp fuel at_ xs seg p2 st

/-- Insert below an existing, link-free path `pre` ending in a map: the enlarged map is put back at
    `pre`, everything else is as `updateAt` says; the store is unchanged. -/
theorem insert_at_path (pre : Path) (root : DM) (es : DMKVs) (seg : Seg) (v : DM) (at_ : Path) (f : Nat) (st : TSt) :
    root.NoDup → getPlain root pre = some (.map es) → lookupBySegment (.map es) seg = none →
    fn (at_ ++ pre ++ [seg]) none = some v →
    focused fn linkOf canon cp (pre.length + (f + 1)) at_ (some root) (pre ++ [seg]) st =
      .ok (updateAt root pre (some (.map (DMKVs.ofList (es.toList ++ [(seg.toString, v)])))), st) := by
  intro hn hg hl hv
  apply focused_prefix_ok fn linkOf canon cp pre root (.map es) at_ [seg] (f + 1) st st _ (by simp) hn hg
  rw [focused_map_insert fn linkOf canon cp f (at_ ++ pre) es seg st hl, hv]

/-- Append below an existing, link-free path `pre` ending in a list. -/
theorem append_at_path (pre : Path) (root : DM) (xs : DMs) (seg : Seg) (v : DM) (at_ : Path) (f : Nat) (st : TSt) :
    root.NoDup → getPlain root pre = some (.list xs) → IsAppendSeg seg →
    fn (at_ ++ pre ++ [Seg.idx xs.toList.length]) none = some v →
    focused fn linkOf canon cp (pre.length + (f + 1)) at_ (some root) (pre ++ [seg]) st =
      .ok (updateAt root pre (some (.list (DMs.ofList (xs.toList ++ [v])))), st) := by
  intro hn hg hs hv
  apply focused_prefix_ok fn linkOf canon cp pre root (.list xs) at_ [seg] (f + 1) st st _ (by simp) hn hg
  rw [focused_list_append fn linkOf canon cp f (at_ ++ pre) xs seg st hs, hv]

/-- An error below an existing, link-free path is the transform's error. -/
theorem error_at_path (pre : Path) (root mid : DM) (at_ rest : Path) (k : Nat) (st : TSt) (e : TErr) :
    rest ≠ [] → root.NoDup → getPlain root pre = some mid →
    focused fn linkOf canon cp k (at_ ++ pre) (some mid) rest st = .error e →
    focused fn linkOf canon cp (pre.length + k) at_ (some root) (pre ++ rest) st = .error e :=
  focused_prefix_err fn linkOf canon cp pre root mid at_ rest k st e

/-! ## B5 — across a link -/

/-- **relink.**  The path runs `pre` (no link crossed) to a link `c` whose block `blk` is in the store,
    then `rest ≠ []` inside the block (no further link crossed) to an existing target.  Then the
    block is updated functionally (`blk0`), written as the codec writes it (`canon blk0`) under the
    link `c' = linkOf (canon blk0)`, `.link c'` is put where `.link c` was, and the store gains exactly
    that one entry, in front. -/
theorem relink (pre rest : Path) (root blk target : DM) (c : Bytes) (at_ : Path) (k : Nat) (st : TSt) :
    rest ≠ [] → root.NoDup → blk.NoDup → getPlain root pre = some (.link c) → storeGet st.store c = some blk →
    getPlain blk rest = some target → rest.length < k →
    ∃ blk0, updateAt blk rest (fn (at_ ++ pre ++ rest) (some target)) = some blk0 ∧
      focused fn linkOf canon cp (pre.length + (k + 1)) at_ (some root) (pre ++ rest) st =
        .ok (updateAt root pre (some (.link (linkOf (canon blk0)))),
          { store := (linkOf (canon blk0), canon blk0) :: st.store,
            written := (linkOf (canon blk0), canon blk0) :: st.written }) :=
  focused_through_link fn linkOf canon cp pre rest root blk target c at_ k st

/-- **relink_loads_back.**  With the hypotheses of `relink`, for the returned tree `y` and store `st'`:
    the new link loads the new block; every other link loads what it loaded before; the new link sits
    at `pre`; and (for `pre ≠ []`) `traversal.Get` along `pre` through the new store reaches the new
    link and loads the block as written. -/
theorem relink_loads_back (pre rest : Path) (root blk target : DM) (c : Bytes) (at_ : Path) (k : Nat) (st : TSt) :
    rest ≠ [] → root.NoDup → blk.NoDup → getPlain root pre = some (.link c) → storeGet st.store c = some blk →
    getPlain blk rest = some target → rest.length < k →
    ∃ (blk0 y : DM) (st' : TSt),
      updateAt blk rest (fn (at_ ++ pre ++ rest) (some target)) = some blk0 ∧
      focused fn linkOf canon cp (pre.length + (k + 1)) at_ (some root) (pre ++ rest) st = .ok (some y, st') ∧
      storeGet st'.store (linkOf (canon blk0)) = some (canon blk0) ∧
      (∀ c2, c2 ≠ linkOf (canon blk0) → storeGet st'.store c2 = storeGet st.store c2) ∧
      st'.written = (linkOf (canon blk0), canon blk0) :: st.written ∧
      getPlain y pre = some (.link (linkOf (canon blk0))) ∧
      (∀ q, OffPath root pre q → getPlain y q = getPlain root q) ∧
      (pre ≠ [] → ∀ f, Walk.get st'.store (f + 2) y pre = followLinks st'.store (f + 1) (canon blk0)) := by
  intro hr hn hb hg hs hg2 hk
  obtain ⟨blk0, hb0, hfoc⟩ := relink fn linkOf canon cp pre rest root blk target c at_ k st hr hn hb hg hs hg2 hk
  obtain ⟨y, hy⟩ := updateAt_some pre root (.link (linkOf (canon blk0)))
  refine ⟨blk0, y, _, hb0, by rw [hfoc, hy], storeGet_cons_self _ _ _, fun c2 h2 => storeGet_cons_ne _ _ _ _ h2,
    rfl, getPlain_updateAt_same pre root _ _ y hg hy, fun q ho => getPlain_updateAt_off pre root _ q _ y hg ho hy,
    fun hp f => relink_get pre root y _ c _ _ f hp hg hy⟩

/-- If moreover the codec writes the block as it is (`canon blk0 = blk0`), the callback answered
    `some v` and `v` is not itself a link, reading the whole path back through the new store gives `v`. -/
theorem relink_reads_new_value (pre rest : Path) (root blk target v : DM) (c : Bytes) (at_ : Path) (k : Nat) (st : TSt) :
    pre ≠ [] → rest ≠ [] → root.NoDup → blk.NoDup → getPlain root pre = some (.link c) →
    storeGet st.store c = some blk → getPlain blk rest = some target → rest.length < k →
    fn (at_ ++ pre ++ rest) (some target) = some v → (∀ c', v ≠ .link c') →
    (∀ b, updateAt blk rest (some v) = some b → canon b = b) →
    ∃ (y : DM) (st' : TSt),
      focused fn linkOf canon cp (pre.length + (k + 1)) at_ (some root) (pre ++ rest) st = .ok (some y, st') ∧
      ∀ f, Walk.get st'.store (f + 2) y (pre ++ rest) = .ok v := by
  intro hp hr hn hb hg hs hg2 hk hv hnl hcanon
  obtain ⟨blk0, hb0, hfoc⟩ := relink fn linkOf canon cp pre rest root blk target c at_ k st hr hn hb hg hs hg2 hk
  rw [hv] at hb0
  have hc := hcanon blk0 hb0
  obtain ⟨y, hy⟩ := updateAt_some pre root (.link (linkOf (canon blk0)))
  refine ⟨y, _, by rw [hfoc, hy], fun f => ?_⟩
  obtain ⟨seg, p2, rfl⟩ : ∃ a b, rest = a :: b := by
    cases rest with
    | nil => exact absurd rfl hr
    | cons a b => exact ⟨a, b, rfl⟩
  rw [get_append, relink_get pre root y _ c _ _ f hp hg hy, hc,
    followLinks_nonlink _ f blk0 (updateAt_cons_nonlink _ hg2 hb0)]
  simp only [bind, Except.bind]
  rw [get_of_getPlain _ (f + 1) (seg :: p2) blk0 v (by simp) (getPlain_updateAt_same _ blk target v blk0 hg2 hb0),
    followLinks_nonlink _ (f + 1) v hnl]

/-! ## Examples -/

section examples

def kA : Bytes := [0x61]
def kB : Bytes := [0x62]
def kC : Bytes := [0x63]

/-- `{"a": 1, "b": [10, 20, 30]}` -/
def ex : DM :=
  .map (.cons kA (.int 1) (.cons kB (.list (.cons (.int 10) (.cons (.int 20) (.cons (.int 30) .nil)))) .nil))

def st0 : TSt := ⟨[], []⟩
def lk (_ : DM) : Bytes := []

example : ex.NoDup := by
  simp [ex, DM.NoDup, DMKVs.NoDupVals, DMs.NoDup, DMKVs.keys, DMKVs.toList, kA, kB]
example : getPlain ex [.str kB, .idx 1] = some (.int 20) := by rfl

/-- replace `b/1` by 21 -/
example : focused (fun _ _ => some (.int 21)) lk id false 3 [] (some ex) [.str kB, .idx 1] st0 =
    .ok (some (.map (.cons kA (.int 1) (.cons kB (.list (.cons (.int 10) (.cons (.int 21) (.cons (.int 30) .nil)))) .nil))),
      st0) := by rfl
/-- the same through the reference update -/
example : updateAt ex [.str kB, .idx 1] (some (.int 21)) =
    some (.map (.cons kA (.int 1) (.cons kB (.list (.cons (.int 10) (.cons (.int 21) (.cons (.int 30) .nil)))) .nil))) := by
  rfl
/-- delete the list element `b/1`: the later element moves up -/
example : focused (fun _ _ => none) lk id false 3 [] (some ex) [.str kB, .idx 1] st0 =
    .ok (some (.map (.cons kA (.int 1) (.cons kB (.list (.cons (.int 10) (.cons (.int 30) .nil))) .nil))), st0) := by rfl
/-- delete the map entry `a` -/
example : focused (fun _ _ => none) lk id false 3 [] (some ex) [.str kA] st0 =
    .ok (some (.map (.cons kB (.list (.cons (.int 10) (.cons (.int 20) (.cons (.int 30) .nil)))) .nil)), st0) := by rfl
/-- insert the missing key `c`: appended after the existing entries -/
example : focused (fun _ _ => some .null) lk id false 3 [] (some ex) [.str kC] st0 =
    .ok (some (.map (.cons kA (.int 1) (.cons kB (.list (.cons (.int 10) (.cons (.int 20) (.cons (.int 30) .nil))))
      (.cons kC .null .nil)))), st0) := by rfl
/-- append to the list with "-"; the callback is told position `b/3` -/
example : focused (fun p _ => if p = [.str kB, .idx 3] then some (.int 40) else none) lk id false 3 []
      (some ex) [.str kB, .str [0x2d]] st0 =
    .ok (some (.map (.cons kA (.int 1) (.cons kB
      (.list (.cons (.int 10) (.cons (.int 20) (.cons (.int 30) (.cons (.int 40) .nil))))) .nil))), st0) := by rfl
/-- index past the end -/
example : focused (fun _ _ => some .null) lk id false 3 [] (some ex) [.str kB, .idx 3] st0 =
    .error .beyondBounds := by rfl
/-- identity -/
example : focused (fun _ prev => prev) lk id false 3 [] (some ex) [.str kB, .idx 1] st0 = .ok (some ex, st0) := by rfl

/-- across a link: `{"a": Link(c1)}` with block `c1 ↦ {"b": 1}`; replace `a/b` by 2.  The new block is
    stored under the new link, the old entry is still there. -/
example :
    (match focused (fun _ _ => some (.int 2)) (fun _ => [0x02]) id false 4 []
        (some (.map (.cons kA (.link [0x01]) .nil))) [.str kA, .str kB]
        ⟨[([0x01], .map (.cons kB (.int 1) .nil))], []⟩ with
      | .ok (o, st') => some (o, st'.store, st'.written)
      | .error _ => none) =
    some (some (.map (.cons kA (.link [0x02]) .nil)),
      [([0x02], .map (.cons kB (.int 2) .nil)), ([0x01], .map (.cons kB (.int 1) .nil))],
      [([0x02], .map (.cons kB (.int 2) .nil))]) := by rfl

end examples

end Ipld.Props.C16
