/-
  Representation-level assemblers: `AssignNode` is the whole-value REPRESENTATION builder of Model/Schema.lean.  The copy
  `putNode` makes of a node `v` into a value assembler of a type `t` of the fragment is accepted exactly when
  `Schema.build Engine.ideal .repr t nul none v` accepts (C09: iff `v` conforms at representation level,
  `Schema.conformsRepr`), and what it delivers is the typed value that builder returns.  By mutual structural recursion on
  the node, one lemma per kind of open frame, each frame's content matched with the accumulator of the corresponding
  `Schema.build…` function.
-/
import IpldModel.Lemmas.ReprAssemblerInv
namespace Ipld
namespace RAsm
open Ipld.Asm (Op Out ErrClass)
open Ipld.Schema (Ty Fields Members Field Member TL TLs TLKVs canonFields wrapPath Outcome)
open Ipld.TAsm (Phase Pos hasKey inInt64 Call int64s int64sL int64sM)

/-- the machine did what the whole-value builder does: accepted, and then it is where `ok` says; or refused -/
def Agrees {α : Type} (o : Outcome α) (r : St × Out) (ok : α → St × Out) : Prop :=
  match o with
  | .ok a => r = ok a
  | .reject => ∃ s' c, r = (s', .err c)
  | .panic => True

theorem Agrees.of_reject {α : Type} {o : Outcome α} {r : St × Out} {ok : α → St × Out} (ho : o = .reject)
    (h : ∃ s' c, r = (s', .err c)) : Agrees o r ok := by
  subst ho; exact h

/-! ### the fragment is closed under what the machine descends into -/

theorem plainRFields_mem : (F : Fields) → plainRFields F = true → ∀ f ∈ F.toList, plainR f.ty = true
  | .nil, _, f, hf => by simp [Fields.toList] at hf
  | .cons n rn o nu t rest, h, f, hf => by
    simp only [plainRFields, Bool.and_eq_true] at h
    simp only [Fields.toList, List.mem_cons] at hf
    rcases hf with rfl | hf
    · exact h.1
    · exact plainRFields_mem rest h.2 f hf

theorem plainRMembers_mem : (M : Members) → plainRMembers M = true → ∀ m ∈ M.toList, plainR m.ty = true
  | .nil, _, m, hm => by simp [Members.toList] at hm
  | .cons n d k t rest, h, m, hm => by
    simp only [plainRMembers, Bool.and_eq_true] at h
    simp only [Members.toList, List.mem_cons] at hm
    rcases hm with rfl | hm
    · exact h.1
    · exact plainRMembers_mem rest h.2 m hm

mutual
theorem resolveKinded_plainR (nul : Bool) (k : Kind) : (ty : Ty) → plainR ty = true → (ty' : Ty) →
    (path : List Bytes) → Schema.resolveKinded Schema.Engine.ideal nul k ty = .ok (ty', path) → plainR ty' = true
  | .union ms .kinded, hp, ty', path, h => by
    unfold Schema.resolveKinded at h
    exact resolveMembers_plainR nul k ms (by simpa [plainR] using hp) ty' path h
  | .union ms .keyed, hp, ty', path, h => by
    simp only [Schema.resolveKinded, Outcome.ok.injEq, Prod.mk.injEq] at h
    obtain ⟨rfl, rfl⟩ := h; exact hp
  | .union ms (.stringprefix _), hp, ty', path, h => by
    simp only [Schema.resolveKinded, Outcome.ok.injEq, Prod.mk.injEq] at h
    obtain ⟨rfl, rfl⟩ := h; exact hp
  | .bool, hp, ty', path, h => by
    simp only [Schema.resolveKinded, Outcome.ok.injEq, Prod.mk.injEq] at h
    obtain ⟨rfl, rfl⟩ := h; exact hp
  | .int, hp, ty', path, h => by
    simp only [Schema.resolveKinded, Outcome.ok.injEq, Prod.mk.injEq] at h
    obtain ⟨rfl, rfl⟩ := h; exact hp
  | .float, hp, ty', path, h => by
    simp only [Schema.resolveKinded, Outcome.ok.injEq, Prod.mk.injEq] at h
    obtain ⟨rfl, rfl⟩ := h; exact hp
  | .str, hp, ty', path, h => by
    simp only [Schema.resolveKinded, Outcome.ok.injEq, Prod.mk.injEq] at h
    obtain ⟨rfl, rfl⟩ := h; exact hp
  | .bytes, hp, ty', path, h => by
    simp only [Schema.resolveKinded, Outcome.ok.injEq, Prod.mk.injEq] at h
    obtain ⟨rfl, rfl⟩ := h; exact hp
  | .link, hp, ty', path, h => by
    simp only [Schema.resolveKinded, Outcome.ok.injEq, Prod.mk.injEq] at h
    obtain ⟨rfl, rfl⟩ := h; exact hp
  | .any, hp, ty', path, h => by
    simp only [Schema.resolveKinded, Outcome.ok.injEq, Prod.mk.injEq] at h
    obtain ⟨rfl, rfl⟩ := h; exact hp
  | .list _ _, hp, ty', path, h => by
    simp only [Schema.resolveKinded, Outcome.ok.injEq, Prod.mk.injEq] at h
    obtain ⟨rfl, rfl⟩ := h; exact hp
  | .map _ _, hp, ty', path, h => by
    simp only [Schema.resolveKinded, Outcome.ok.injEq, Prod.mk.injEq] at h
    obtain ⟨rfl, rfl⟩ := h; exact hp
  | .struct _ _, hp, ty', path, h => by
    simp only [Schema.resolveKinded, Outcome.ok.injEq, Prod.mk.injEq] at h
    obtain ⟨rfl, rfl⟩ := h; exact hp
  | .enum _ _, hp, ty', path, h => by
    simp only [Schema.resolveKinded, Outcome.ok.injEq, Prod.mk.injEq] at h
    obtain ⟨rfl, rfl⟩ := h; exact hp
theorem resolveMembers_plainR (nul : Bool) (k : Kind) : (ms : Members) → plainRMembers ms = true → (ty' : Ty) →
    (path : List Bytes) → Schema.resolveMembers Schema.Engine.ideal nul k ms = .ok (ty', path) → plainR ty' = true
  | .nil, _, _, _, h => by simp [Schema.resolveMembers] at h
  | .cons n dc k' t rest, hp, ty', path, h => by
    simp only [plainRMembers, Bool.and_eq_true] at hp
    unfold Schema.resolveMembers at h
    split at h
    · simp only [Schema.ideal_nullableUnionPanic, Bool.and_false, Bool.false_eq_true, if_false] at h
      split at h
      · next t' p' hq =>
        simp only [Outcome.ok.injEq, Prod.mk.injEq] at h
        obtain ⟨rfl, rfl⟩ := h
        exact resolveKinded_plainR false k t hp.1 _ _ hq
      · cases h
      · cases h
    · exact resolveMembers_plainR nul k rest hp.2 ty' path h
end

/-! ### small facts -/

/-- nothing is accepted by an error assembler -/
theorem putNode_errAsm {e : Engine} {s : St} (hp : pos s = .errAsm) (v : DM) : ∃ s' c, putNode e s v = (s', .err c) := by
  have hbl : stepPrim e s (.beginList 0) = (s, .err .other) := by rw [stepPrim_at_errAsm hp]; rfl
  have hbm : stepPrim e s (.beginMap 0) = (s, .err .other) := by rw [stepPrim_at_errAsm hp]; rfl
  have hsc : ∀ d, Asm.isScalar d = true → stepPrim e s (.assign d) = (s, .err .other) := by
    intro d hd; rw [stepPrim_at_errAsm hp]; simp [errPrim, hd]
  cases v with
  | list xs => exact ⟨s, .other, by simp only [putNode, hbl]; rfl⟩
  | map es => exact ⟨s, .other, by simp only [putNode, hbm]; rfl⟩
  | null => exact ⟨s, .other, by simp only [putNode]; exact hsc _ rfl⟩
  | bool _ => exact ⟨s, .other, by simp only [putNode]; exact hsc _ rfl⟩
  | int _ => exact ⟨s, .other, by simp only [putNode]; exact hsc _ rfl⟩
  | float _ => exact ⟨s, .other, by simp only [putNode]; exact hsc _ rfl⟩
  | str _ => exact ⟨s, .other, by simp only [putNode]; exact hsc _ rfl⟩
  | bytes _ => exact ⟨s, .other, by simp only [putNode]; exact hsc _ rfl⟩
  | link _ => exact ⟨s, .other, by simp only [putNode]; exact hsc _ rfl⟩

/-- the scalar case: the call is the whole-value builder's answer -/
theorem putNode_scalar {e : Engine} {s : St} {t : Ty} {nul : Bool} (hp : pos s = .value t nul) {d : DM}
    (hs : Asm.isScalar d = true) (hi : int64s d = true) :
    Agrees (Schema.build Schema.Engine.ideal .repr t nul none d) (stepPrim e s (.assign d)) (fun w => deliver s w) := by
  rw [stepPrim_at_value hp]
  have hio : intOK d = true := by
    cases d <;> first | rfl | (simpa [int64s, intOK] using hi)
  simp only [valuePrim, hs, hio, Bool.not_true, Bool.false_eq_true, if_false]
  cases hb : Schema.build Schema.Engine.ideal .repr t nul none d with
  | ok w => rfl
  | reject => exact ⟨s, .wrongKind, rfl⟩
  | panic => trivial

theorem lookupFn_snoc {es : List (Bytes × TL)} {k : Bytes} (v : TL) (hk : hasKey es k = false) :
    lookupFn (es ++ [(k, v)]) = Schema.setFn (lookupFn es) k v := by
  funext n
  unfold lookupFn Schema.setFn
  rw [List.find?_append]
  by_cases hn : n = k
  · subst hn
    have : es.find? (fun e => e.1 == n) = none := by
      rw [List.find?_eq_none]
      intro p hp hpe
      have : hasKey es n = true := by
        unfold hasKey; rw [List.any_eq_true]; exact ⟨p, hp, hpe⟩
      rw [hk] at this; cases this
    simp [this]
  · have hne : (k == n) = false := by simpa using fun h => hn h.symm
    have hne' : (n == k) = false := by simpa using hn
    simp [hne, hne']

/-- a keyed union that has its member takes no further entry; one that has none looks the discriminant up -/
theorem buildUnion_cons_full (ms : List Member) (cur : Option TL) (k : Bytes) (v : DM) (es : DMKVs) :
    Schema.buildUnion Schema.Engine.ideal .repr ms cur 1 (.cons k v es) = .reject := by
  rw [Schema.buildUnion]; simp

theorem buildUnion_cons_empty (ms : List Member) (cur : Option TL) (k : Bytes) (v : DM) (es : DMKVs) :
    Schema.buildUnion Schema.Engine.ideal .repr ms cur 0 (.cons k v es) =
      match ms.find? (fun m => m.disc == k) with
      | none => .reject
      | some m =>
        match Schema.build Schema.Engine.ideal .repr m.ty false none v with
        | .ok tv => Schema.buildUnion Schema.Engine.ideal .repr ms (some (.map (.cons m.name tv .nil))) 1 es
        | .reject => .reject
        | .panic => .panic := by
  rw [Schema.buildUnion]
  simp only [ge_iff_le, Schema.memberByKey_ideal, Nat.zero_add]
  rfl

theorem lookupFn_nil : lookupFn [] = fun _ => none := rfl

/-! ### the copy, frame by frame -/

mutual
/-- `putNode` into a value assembler of a type of the fragment: what the whole-value representation builder does. -/
theorem putNode_spec {e : Engine} (he : e.keyAsmDupMapKey = false) : (v : DM) → (s : St) → (t : Ty) → (nul : Bool) →
    pos s = .value t nul → t.wf = true → plainR t = true → int64s v = true →
    Agrees (Schema.build Schema.Engine.ideal .repr t nul none v) (putNode e s v) (fun w => deliver s w)
  | .list ys, s, t, nul, hp, hwf, hpl, hi => by
    obtain ⟨T, fr, r, tt⟩ := s
    have hbl : stepPrim e ⟨T, fr, r, tt⟩ (.beginList 0) = valuePrim e ⟨T, fr, r, tt⟩ t nul (.beginList 0) :=
      stepPrim_at_value hp _
    simp only [putNode, hbl, valuePrim, opensList]
    unfold Schema.build
    simp only [int64s] at hi
    cases hr : Schema.resolveKinded Schema.Engine.ideal nul .list t with
    | reject => exact ⟨_, .wrongKind, rfl⟩
    | panic => trivial
    | ok p =>
      obtain ⟨ty', path⟩ := p
      have hwf' := resolved_wf hwf hr
      have hpl' := resolveKinded_plainR nul .list t hpl ty' path hr
      cases ty' with
      | list ety enul =>
        have := putList_spec he ys T ety enul [] path fr r tt (by simpa [Ty.wf] using hwf')
          (by simpa [plainR] using hpl') hi
        simp only [andThen_ok, Schema.curList, ite_self]
        cases hb : Schema.buildList Schema.Engine.ideal .repr ety enul [] ys with
        | ok zs =>
          rw [hb] at this
          simp only [Agrees] at this ⊢
          rw [this]
          simp [andThen, stepPrim]
        | reject =>
          rw [hb] at this
          exact andThen_of_err this _
        | panic => trivial
      | struct F sr =>
        cases sr with
        | tuple =>
          obtain ⟨h1, h2, _⟩ := Schema.wf_struct hwf'
          have hpf := plainRFields_mem F (by simpa [plainR] using hpl')
          have := putList_tuple_spec he ys T F.toList [] path fr r tt
            (fun f hf => ⟨Schema.Fields.wf_mem F h1 f hf, hpf f hf⟩) h2 (by simp) hi
          simp only [andThen_ok, ite_self, Schema.SSt.init_none, List.length_nil, lookupFn_nil] at this ⊢
          cases hb : Schema.buildTuple Schema.Engine.ideal F.toList (Schema.SSt.ofFn F.toList fun _ => none) 0 ys with
          | ok w => rw [hb] at this; simp only [Agrees] at this ⊢; rw [this]; rfl
          | reject => rw [hb] at this; exact this
          | panic => trivial
        | map => exact ⟨_, .wrongKind, rfl⟩
        | stringjoin d => exact ⟨_, .wrongKind, rfl⟩
        | listpairs => simp [plainR] at hpl'
      | any => simp [plainR] at hpl'
      | bool => exact ⟨_, .wrongKind, rfl⟩
      | int => exact ⟨_, .wrongKind, rfl⟩
      | float => exact ⟨_, .wrongKind, rfl⟩
      | str => exact ⟨_, .wrongKind, rfl⟩
      | bytes => exact ⟨_, .wrongKind, rfl⟩
      | link => exact ⟨_, .wrongKind, rfl⟩
      | map _ _ => exact ⟨_, .wrongKind, rfl⟩
      | union _ _ => exact ⟨_, .wrongKind, rfl⟩
      | enum _ _ => exact ⟨_, .wrongKind, rfl⟩
  | .map kvs, s, t, nul, hp, hwf, hpl, hi => by
    obtain ⟨T, fr, r, tt⟩ := s
    have hbm : stepPrim e ⟨T, fr, r, tt⟩ (.beginMap 0) = valuePrim e ⟨T, fr, r, tt⟩ t nul (.beginMap 0) :=
      stepPrim_at_value hp _
    simp only [putNode, hbm, valuePrim, opensMap]
    rw [Schema.build_map_ideal]
    simp only [int64s] at hi
    cases hr : Schema.resolveKinded Schema.Engine.ideal nul .map t with
    | reject => exact ⟨_, .wrongKind, rfl⟩
    | panic => trivial
    | ok p =>
      obtain ⟨ty', path⟩ := p
      have hwf' := resolved_wf hwf hr
      have hpl' := resolveKinded_plainR nul .map t hpl ty' path hr
      -- the frame `BeginMap` on the dead assembler: every continuation is refused
      have hdead : ∀ (b : Bool), ∃ s' c,
          andThen (if b = true then ((⟨T, Frame.dead .init :: fr, r, tt⟩ : St), Out.ok)
              else (⟨T, fr, r, tt⟩, Out.err .wrongKind))
            (fun s1 => andThen (putKVs e s1 kvs) fun s2 => stepPrim e s2 .finish) = (s', .err c) := by
        intro b
        cases b with
        | false => exact ⟨_, _, rfl⟩
        | true =>
          simp only [if_true, andThen_ok]
          cases kvs with
          | nil => exact ⟨_, .other, rfl⟩
          | cons k v kvs => exact ⟨_, .other, rfl⟩
      cases ty' with
      | map vty vnul =>
        have := putKVs_map_spec he kvs T vty vnul [] path fr r tt (by simpa [Ty.wf] using hwf')
          (by simpa [plainR] using hpl') hi
        simp only [andThen_ok, Schema.curMap, ite_self]
        cases hb : Schema.buildMap Schema.Engine.ideal .repr vty vnul [] kvs with
        | ok zs =>
          rw [hb] at this
          simp only [Agrees] at this ⊢
          rw [this]
          simp [andThen, stepPrim]
        | reject =>
          rw [hb] at this
          exact andThen_of_err this _
        | panic => trivial
      | struct F sr =>
        cases sr with
        | map =>
          obtain ⟨h1, h2, _⟩ := Schema.wf_struct hwf'
          have hpf := plainRFields_mem F (by simpa [plainR] using hpl')
          have := putKVs_struct_spec he kvs T F.toList [] path fr r tt
            (fun f hf => ⟨Schema.Fields.wf_mem F h1 f hf, hpf f hf⟩) h2 hi
          simp only [andThen_ok, ite_self, Schema.SSt.init_none, lookupFn_nil] at this ⊢
          cases hb : Schema.buildStruct Schema.Engine.ideal .repr F.toList (Schema.SSt.ofFn F.toList fun _ => none) kvs with
          | ok w => rw [hb] at this; simp only [Agrees] at this ⊢; rw [this]; rfl
          | reject => rw [hb] at this; exact this
          | panic => trivial
        | tuple => exact hdead e.beginMapAny
        | stringjoin d => exact hdead e.beginMapAny
        | listpairs => simp [plainR] at hpl'
      | union M ur =>
        cases ur with
        | keyed =>
          obtain ⟨h1, h2⟩ := Schema.wf_union hwf'
          have hpm := plainRMembers_mem M (by simpa [plainR] using hpl')
          have := putKVs_union_spec he kvs T M.toList none path fr r tt
            (fun m hm => ⟨Schema.Members.wf_mem M h1 m hm, hpm m hm⟩) hi
          simp only [andThen_ok, ite_self, Option.map_none, Option.isSome_none, Bool.false_eq_true, if_false] at this ⊢
          cases hb : Schema.buildUnion Schema.Engine.ideal .repr M.toList none 0 kvs with
          | ok w => rw [hb] at this; simp only [Agrees] at this ⊢; rw [this]; rfl
          | reject => rw [hb] at this; exact this
          | panic => trivial
        | kinded => exact hdead e.beginMapAny
        | stringprefix d => exact hdead e.beginMapAny
      | any => simp [plainR] at hpl'
      | bool => exact ⟨_, .wrongKind, rfl⟩
      | int => exact ⟨_, .wrongKind, rfl⟩
      | float => exact ⟨_, .wrongKind, rfl⟩
      | str => exact ⟨_, .wrongKind, rfl⟩
      | bytes => exact ⟨_, .wrongKind, rfl⟩
      | link => exact ⟨_, .wrongKind, rfl⟩
      | list _ _ => exact ⟨_, .wrongKind, rfl⟩
      | enum _ _ => exact ⟨_, .wrongKind, rfl⟩
  | .null, s, t, nul, hp, _, _, hi => by simp only [putNode]; exact putNode_scalar hp rfl hi
  | .bool _, s, t, nul, hp, _, _, hi => by simp only [putNode]; exact putNode_scalar hp rfl hi
  | .int _, s, t, nul, hp, _, _, hi => by simp only [putNode]; exact putNode_scalar hp rfl hi
  | .float _, s, t, nul, hp, _, _, hi => by simp only [putNode]; exact putNode_scalar hp rfl hi
  | .str _, s, t, nul, hp, _, _, hi => by simp only [putNode]; exact putNode_scalar hp rfl hi
  | .bytes _, s, t, nul, hp, _, _, hi => by simp only [putNode]; exact putNode_scalar hp rfl hi
  | .link _, s, t, nul, hp, _, _, hi => by simp only [putNode]; exact putNode_scalar hp rfl hi
/-- the elements of a list node into an open list frame -/
theorem putList_spec {e : Engine} (he : e.keyAsmDupMapKey = false) : (ys : DMs) → (T : Ty) → (ety : Ty) →
    (enul : Bool) → (xs : List TL) → (w : List Bytes) → (rest : List Frame) → (r : Option TL) → (tt : Bool) →
    ety.wf = true → plainR ety = true → int64sL ys = true →
    Agrees (Schema.buildList Schema.Engine.ideal .repr ety enul xs ys)
      (putList e ⟨T, .list ety enul xs false w :: rest, r, tt⟩ ys)
      (fun zs => (⟨T, .list ety enul zs false w :: rest, r, tt⟩, .ok))
  | .nil, T, ety, enul, xs, w, rest, r, tt, _, _, _ => by
    simp [putList, Schema.buildList, Agrees]
  | .cons y ys, T, ety, enul, xs, w, rest, r, tt, hwf, hpl, hi => by
    simp only [int64sL, Bool.and_eq_true] at hi
    have hav : stepPrim e ⟨T, .list ety enul xs false w :: rest, r, tt⟩ .assembleValue =
        (⟨T, .list ety enul xs true w :: rest, r, tt⟩, .ok) := rfl
    have hn := putNode_spec he y ⟨T, .list ety enul xs true w :: rest, r, tt⟩ ety enul
      (by simp [pos, posOf]) hwf hpl hi.1
    simp only [putList, andThen_of_ok hav]
    rw [Schema.buildList_cons_ideal]
    cases hb : Schema.build Schema.Engine.ideal .repr ety enul none y with
    | ok tv =>
      rw [hb] at hn
      simp only [Agrees] at hn
      rw [hn]
      simp only [deliver, andThen_ok]
      exact putList_spec he ys T ety enul (xs ++ [tv]) w rest r tt hwf hpl hi.2
    | reject =>
      rw [hb] at hn
      exact andThen_of_err hn _
    | panic => trivial
/-- the entries of a map node into an open typed-map frame that expects a key -/
theorem putKVs_map_spec {e : Engine} (he : e.keyAsmDupMapKey = false) : (kvs : DMKVs) → (T : Ty) → (vty : Ty) →
    (vnul : Bool) → (es : List (Bytes × TL)) → (w : List Bytes) → (rest : List Frame) → (r : Option TL) →
    (tt : Bool) → vty.wf = true → plainR vty = true → int64sM kvs = true →
    Agrees (Schema.buildMap Schema.Engine.ideal .repr vty vnul es kvs)
      (putKVs e ⟨T, .map vty vnul es .init w :: rest, r, tt⟩ kvs)
      (fun zs => (⟨T, .map vty vnul zs .init w :: rest, r, tt⟩, .ok))
  | .nil, T, vty, vnul, es, w, rest, r, tt, _, _, _ => by
    simp [putKVs, Schema.buildMap, Agrees]
  | .cons k v kvs, T, vty, vnul, es, w, rest, r, tt, hwf, hpl, hi => by
    simp only [int64sM, Bool.and_eq_true] at hi
    have hak : stepPrim e ⟨T, .map vty vnul es .init w :: rest, r, tt⟩ .assembleKey =
        (⟨T, .map vty vnul es .midKey w :: rest, r, tt⟩, .ok) := rfl
    simp only [putKVs, andThen_of_ok hak]
    rw [Schema.buildMap_cons_ideal]
    have hany : es.any (fun p => p.1 == k) = hasKey es k := rfl
    simp only [hany, Schema.ideal_dupMapKey, Bool.not_false, Bool.and_true]
    cases hk : hasKey es k with
    | true =>
      have hkey : stepPrim e ⟨T, .map vty vnul es .midKey w :: rest, r, tt⟩ (.assign (.str k)) =
          (⟨T, .map vty vnul es .init w :: rest, r, tt⟩, .err .repeatedKey) := by
        simp [stepPrim, keyPrim, supplyKey, hk, he]
      simp only [if_true]
      exact andThen_of_err ⟨_, _, hkey⟩ _
    | false =>
      have hkey : stepPrim e ⟨T, .map vty vnul es .midKey w :: rest, r, tt⟩ (.assign (.str k)) =
          (⟨T, .map vty vnul es (.expectValue k) w :: rest, r, tt⟩, .ok) := by
        simp [stepPrim, keyPrim, supplyKey, hk]
      have hav : stepPrim e ⟨T, .map vty vnul es (.expectValue k) w :: rest, r, tt⟩ .assembleValue =
          (⟨T, .map vty vnul es (.midValue k) w :: rest, r, tt⟩, .ok) := rfl
      have hn := putNode_spec he v ⟨T, .map vty vnul es (.midValue k) w :: rest, r, tt⟩ vty vnul
        (by simp [pos, posOf]) hwf hpl hi.1
      rw [andThen_of_ok hkey, andThen_of_ok hav]
      simp only [Bool.false_eq_true, if_false]
      cases hb : Schema.build Schema.Engine.ideal .repr vty vnul none v with
      | ok tv =>
        rw [hb] at hn
        simp only [Agrees] at hn
        rw [hn]
        simp only [deliver, andThen_ok]
        rw [Schema.mapAppend_fresh es k tv hk]
        exact putKVs_map_spec he kvs T vty vnul (es ++ [(k, tv)]) w rest r tt hwf hpl hi.2
      | reject =>
        rw [hb] at hn
        exact andThen_of_err hn _
      | panic => trivial
/-- the entries of a map node into an open struct frame (map representation) that expects a key, and then `Finish` -/
theorem putKVs_struct_spec {e : Engine} (he : e.keyAsmDupMapKey = false) : (kvs : DMKVs) → (T : Ty) →
    (fs : List Field) → (es : List (Bytes × TL)) → (w : List Bytes) → (rest : List Frame) → (r : Option TL) →
    (tt : Bool) → (∀ f ∈ fs, f.ty.wf = true ∧ plainR f.ty = true) → (fs.map (·.name)).Nodup → int64sM kvs = true →
    Agrees (Schema.buildStruct Schema.Engine.ideal .repr fs (Schema.SSt.ofFn fs (lookupFn es)) kvs)
      (andThen (putKVs e ⟨T, .struct fs es .init w :: rest, r, tt⟩ kvs) (fun s2 => stepPrim e s2 .finish))
      (fun v => deliver ⟨T, rest, r, tt⟩ (wrapPath w v))
  | .nil, T, fs, es, w, rest, r, tt, _, _, _ => by
    unfold Schema.buildStruct
    rw [Schema.SSt.ofFn_finish]
    simp only [putKVs, andThen_ok, lookupFn_isSome]
    cases hd : fieldsDone fs es with
    | true =>
      have hd' : (fs.all fun f => f.opt || hasKey es f.name) = true := hd
      simp only [hd', if_true, Agrees, stepPrim, hd, canonFields_eq]
    | false =>
      have hd' : (fs.all fun f => f.opt || hasKey es f.name) = false := hd
      simp only [hd', Bool.false_eq_true, if_false, Agrees]
      exact ⟨⟨T, .struct fs es .init w :: rest, r, tt⟩, .other, by simp [stepPrim, hd]⟩
  | .cons k v kvs, T, fs, es, w, rest, r, tt, hfs, hnd, hi => by
    simp only [int64sM, Bool.and_eq_true] at hi
    have hak : stepPrim e ⟨T, .struct fs es .init w :: rest, r, tt⟩ .assembleKey =
        (⟨T, .struct fs es .midKey w :: rest, r, tt⟩, .ok) := rfl
    simp only [putKVs, andThen_of_ok hak, andThen_assoc]
    rw [Schema.buildStruct_cons_ideal]
    cases hfk : Schema.fieldByKey Schema.Engine.ideal .repr fs k with
    | none =>
      have hfo : fieldOfR fs k = none := Schema.fieldByKey_ideal_none .repr fs k hfk
      simp only [Agrees]
      cases hu : e.unknownAtKey with
      | true =>
        have hkey : stepPrim e ⟨T, .struct fs es .midKey w :: rest, r, tt⟩ (.assign (.str k)) =
            (⟨T, .struct fs es .init w :: rest, r, tt⟩, .err .other) := by
          simp [stepPrim, keyPrim, supplyKey, hfo, hu]
        exact andThen_of_err ⟨_, _, hkey⟩ _
      | false =>
        have hkey : stepPrim e ⟨T, .struct fs es .midKey w :: rest, r, tt⟩ (.assign (.str k)) =
            (⟨T, .struct fs es (.expectValue k) w :: rest, r, tt⟩, .ok) := by
          simp [stepPrim, keyPrim, supplyKey, hfo, hu]
        have hav : stepPrim e ⟨T, .struct fs es (.expectValue k) w :: rest, r, tt⟩ .assembleValue =
            (⟨T, .struct fs es (.midValue k) w :: rest, r, tt⟩, .ok) := rfl
        rw [andThen_of_ok hkey, andThen_of_ok hav]
        exact andThen_of_err
          (putNode_errAsm (s := ⟨T, .struct fs es (.midValue k) w :: rest, r, tt⟩) (by simp [pos, posOf, hfo]) v) _
    | some p =>
      obtain ⟨i, f⟩ := p
      obtain ⟨hidx, hmem, _, hfind⟩ := Schema.fieldByKey_ideal_some .repr fs k i f hfk
      have hfo : fieldOfR fs k = some f := hfind
      simp only [Schema.SSt.ofFn_isDone fs _ i f hidx, lookupFn_isSome, Schema.ideal_dupStructField, Bool.not_false,
        Bool.and_true, Schema.SSt.curOf_ideal]
      cases hk : hasKey es f.name with
      | true =>
        have hkey : stepPrim e ⟨T, .struct fs es .midKey w :: rest, r, tt⟩ (.assign (.str k)) =
            (⟨T, .struct fs es .init w :: rest, r, tt⟩, .err .repeatedKey) := by
          simp [stepPrim, keyPrim, supplyKey, hfo, hk]
        simp only [if_true]
        exact andThen_of_err ⟨_, _, hkey⟩ _
      | false =>
        have hkey : stepPrim e ⟨T, .struct fs es .midKey w :: rest, r, tt⟩ (.assign (.str k)) =
            (⟨T, .struct fs es (.expectValue k) w :: rest, r, tt⟩, .ok) := by
          simp [stepPrim, keyPrim, supplyKey, hfo, hk]
        have hav : stepPrim e ⟨T, .struct fs es (.expectValue k) w :: rest, r, tt⟩ .assembleValue =
            (⟨T, .struct fs es (.midValue k) w :: rest, r, tt⟩, .ok) := rfl
        have hn := putNode_spec he v ⟨T, .struct fs es (.midValue k) w :: rest, r, tt⟩ f.ty f.nullable
          (by simp [pos, posOf, hfo]) (hfs f hmem).1 (hfs f hmem).2 hi.1
        rw [andThen_of_ok hkey, andThen_of_ok hav]
        simp only [Bool.false_eq_true, if_false]
        cases hb : Schema.build Schema.Engine.ideal .repr f.ty f.nullable none v with
        | ok tv =>
          rw [hb] at hn
          simp only [Agrees] at hn
          have hdl : deliver ⟨T, .struct fs es (.midValue k) w :: rest, r, tt⟩ tv =
              (⟨T, .struct fs (es ++ [(f.name, tv)]) .init w :: rest, r, tt⟩, .ok) := by simp [deliver, hfo]
          rw [hn, hdl, andThen_ok]
          dsimp only
          rw [Schema.SSt.ofFn_assign fs _ i f tv hidx hnd, ← lookupFn_snoc tv hk]
          exact putKVs_struct_spec he kvs T fs (es ++ [(f.name, tv)]) w rest r tt hfs hnd hi.2
        | reject =>
          rw [hb] at hn
          exact andThen_of_err hn _
        | panic => trivial
/-- the elements of a list node into an open tuple frame, and then `Finish` -/
theorem putList_tuple_spec {e : Engine} (he : e.keyAsmDupMapKey = false) : (ys : DMs) → (T : Ty) →
    (fs : List Field) → (es : List (Bytes × TL)) → (w : List Bytes) → (rest : List Frame) → (r : Option TL) →
    (tt : Bool) → (∀ f ∈ fs, f.ty.wf = true ∧ plainR f.ty = true) → (fs.map (·.name)).Nodup →
    es.map (·.1) = (fs.take es.length).map (·.name) → int64sL ys = true →
    Agrees (Schema.buildTuple Schema.Engine.ideal fs (Schema.SSt.ofFn fs (lookupFn es)) es.length ys)
      (andThen (putList e ⟨T, .tuple fs es false w :: rest, r, tt⟩ ys) (fun s2 => stepPrim e s2 .finish))
      (fun v => deliver ⟨T, rest, r, tt⟩ (wrapPath w v))
  | .nil, T, fs, es, w, rest, r, tt, _, _, _, _ => by
    rw [Schema.buildTuple_nil_ideal, Schema.SSt.ofFn_finish]
    simp only [putList, andThen_ok, lookupFn_isSome]
    cases hd : fieldsDone fs es with
    | true =>
      have hd' : (fs.all fun f => f.opt || hasKey es f.name) = true := hd
      simp only [hd', if_true, Agrees, stepPrim, hd, canonFields_eq]
    | false =>
      have hd' : (fs.all fun f => f.opt || hasKey es f.name) = false := hd
      simp only [hd', Bool.false_eq_true, if_false, Agrees]
      exact ⟨⟨T, .tuple fs es false w :: rest, r, tt⟩, .other, by simp [stepPrim, hd]⟩
  | .cons y ys, T, fs, es, w, rest, r, tt, hfs, hnd, hpre, hi => by
    simp only [int64sL, Bool.and_eq_true] at hi
    have hav : stepPrim e ⟨T, .tuple fs es false w :: rest, r, tt⟩ .assembleValue =
        (⟨T, .tuple fs es true w :: rest, r, tt⟩, .ok) := rfl
    simp only [putList, andThen_of_ok hav, andThen_assoc]
    rw [Schema.buildTuple_cons_ideal]
    cases hidx : fs[es.length]? with
    | none =>
      simp only [Agrees]
      exact andThen_of_err
        (putNode_errAsm (s := ⟨T, .tuple fs es true w :: rest, r, tt⟩) (by simp [pos, posOf, hidx]) y) _
    | some f =>
      have hmem : f ∈ fs := List.mem_of_getElem? hidx
      have hn := putNode_spec he y ⟨T, .tuple fs es true w :: rest, r, tt⟩ f.ty f.nullable
        (by simp [pos, posOf, hidx]) (hfs f hmem).1 (hfs f hmem).2 hi.1
      simp only [Schema.SSt.curOf_ideal]
      cases hb : Schema.build Schema.Engine.ideal .repr f.ty f.nullable none y with
      | ok tv =>
        rw [hb] at hn
        simp only [Agrees] at hn
        have hdl : deliver ⟨T, .tuple fs es true w :: rest, r, tt⟩ tv =
            (⟨T, .tuple fs (es ++ [(f.name, tv)]) false w :: rest, r, tt⟩, .ok) := by simp [deliver, hidx]
        rw [hn, hdl, andThen_ok]
        dsimp only
        have hk := tuple_next_fresh hnd hpre hidx
        rw [Schema.SSt.ofFn_assign fs _ es.length f tv hidx hnd, ← lookupFn_snoc tv hk]
        have := putList_tuple_spec he ys T fs (es ++ [(f.name, tv)]) w rest r tt hfs hnd
          (tuple_pre_snoc hpre hidx tv) hi.2
        simpa using this
      | reject =>
        rw [hb] at hn
        exact andThen_of_err hn _
      | panic => trivial
/-- the entries of a map node into an open keyed-union frame that expects a key, and then `Finish` -/
theorem putKVs_union_spec {e : Engine} (he : e.keyAsmDupMapKey = false) : (kvs : DMKVs) → (T : Ty) →
    (ms : List Member) → (cur : Option (Bytes × TL)) → (w : List Bytes) → (rest : List Frame) → (r : Option TL) →
    (tt : Bool) → (∀ m ∈ ms, m.ty.wf = true ∧ plainR m.ty = true) → int64sM kvs = true →
    Agrees (Schema.buildUnion Schema.Engine.ideal .repr ms (cur.map fun p => .map (.cons p.1 p.2 .nil))
        (if cur.isSome then 1 else 0) kvs)
      (andThen (putKVs e ⟨T, .union ms cur .init w :: rest, r, tt⟩ kvs) (fun s2 => stepPrim e s2 .finish))
      (fun v => deliver ⟨T, rest, r, tt⟩ (wrapPath w v))
  | .nil, T, ms, cur, w, rest, r, tt, _, _ => by
    unfold Schema.buildUnion
    simp only [putKVs, andThen_ok]
    cases cur with
    | none => exact ⟨⟨T, .union ms none .init w :: rest, r, tt⟩, .other, by simp [stepPrim]⟩
    | some p => obtain ⟨n, v⟩ := p; simp [Agrees, stepPrim]
  | .cons k v kvs, T, ms, cur, w, rest, r, tt, hms, hi => by
    simp only [int64sM, Bool.and_eq_true] at hi
    have hak : stepPrim e ⟨T, .union ms cur .init w :: rest, r, tt⟩ .assembleKey =
        (⟨T, .union ms cur .midKey w :: rest, r, tt⟩, .ok) := rfl
    simp only [putKVs, andThen_of_ok hak, andThen_assoc]
    -- after the key: refused there (generated code), or accepted and the value assembler is an error assembler
    have hbad : (cur.isSome || (memberOfR ms k).isNone) = true → ∃ s' c,
        andThen (stepPrim e ⟨T, .union ms cur .midKey w :: rest, r, tt⟩ (.assign (.str k)))
          (fun s => andThen (stepPrim e s .assembleValue) fun s => andThen (putNode e s v) fun s =>
            andThen (putKVs e s kvs) fun s2 => stepPrim e s2 .finish) = (s', .err c) := by
      intro hc
      cases hu : e.unknownAtKey with
      | true =>
        have hkey : stepPrim e ⟨T, .union ms cur .midKey w :: rest, r, tt⟩ (.assign (.str k)) =
            (⟨T, .union ms cur .init w :: rest, r, tt⟩, .err .other) := by
          simp [stepPrim, keyPrim, supplyKey, hu, hc]
        exact andThen_of_err ⟨_, _, hkey⟩ _
      | false =>
        have hkey : stepPrim e ⟨T, .union ms cur .midKey w :: rest, r, tt⟩ (.assign (.str k)) =
            (⟨T, .union ms cur (.expectValue k) w :: rest, r, tt⟩, .ok) := by
          simp [stepPrim, keyPrim, supplyKey, hu]
        have hav : stepPrim e ⟨T, .union ms cur (.expectValue k) w :: rest, r, tt⟩ .assembleValue =
            (⟨T, .union ms cur (.midValue k) w :: rest, r, tt⟩, .ok) := rfl
        rw [andThen_of_ok hkey, andThen_of_ok hav]
        refine andThen_of_err
          (putNode_errAsm (s := ⟨T, .union ms cur (.midValue k) w :: rest, r, tt⟩) ?_ v) _
        simp only [pos, posOf]
        cases cur with
        | some p => rfl
        | none =>
          simp only [Option.isSome_none, Bool.false_or, Option.isNone_iff_eq_none] at hc
          simp [hc]
    cases cur with
    | some p =>
      simp only [Option.isSome_some, if_true, buildUnion_cons_full, Agrees]
      exact hbad (by simp)
    | none =>
      simp only [Option.isSome_none, Bool.false_eq_true, if_false, Option.map_none, buildUnion_cons_empty]
      cases hm : ms.find? (fun m => m.disc == k) with
      | none =>
        simp only [Agrees]
        exact hbad (by simp [memberOfR, hm])
      | some m =>
        have hmo : memberOfR ms k = some m := hm
        have hmem : m ∈ ms := List.mem_of_find?_eq_some hm
        have hkey : stepPrim e ⟨T, .union ms none .midKey w :: rest, r, tt⟩ (.assign (.str k)) =
            (⟨T, .union ms none (.expectValue k) w :: rest, r, tt⟩, .ok) := by
          simp [stepPrim, keyPrim, supplyKey, hmo]
        have hav : stepPrim e ⟨T, .union ms none (.expectValue k) w :: rest, r, tt⟩ .assembleValue =
            (⟨T, .union ms none (.midValue k) w :: rest, r, tt⟩, .ok) := rfl
        have hn := putNode_spec he v ⟨T, .union ms none (.midValue k) w :: rest, r, tt⟩ m.ty false
          (by simp [pos, posOf, hmo]) (hms m hmem).1 (hms m hmem).2 hi.1
        rw [andThen_of_ok hkey, andThen_of_ok hav]
        simp only
        cases hb : Schema.build Schema.Engine.ideal .repr m.ty false none v with
        | ok tv =>
          rw [hb] at hn
          simp only [Agrees] at hn
          have hdl : deliver ⟨T, .union ms none (.midValue k) w :: rest, r, tt⟩ tv =
              (⟨T, .union ms (some (m.name, tv)) .init w :: rest, r, tt⟩, .ok) := by simp [deliver, hmo]
          rw [hn, hdl, andThen_ok]
          have := putKVs_union_spec he kvs T ms (some (m.name, tv)) w rest r tt hms hi.2
          simpa using this
        | reject =>
          rw [hb] at hn
          exact andThen_of_err hn _
        | panic => trivial
end

end RAsm
end Ipld
