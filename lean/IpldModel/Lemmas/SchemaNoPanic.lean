/-
  C09-1: the builders never panic, for every engine that does not have one of the two panic quirks
  (`nullableUnionPanic`, `lpUnknownKeyPanic`) - in particular for `Engine.ideal`.
-/
import IpldModel.Model.Schema
import IpldModel.Lemmas.SchemaGenFlags
namespace Ipld
namespace Schema

/-- An engine without the quirks that make a builder panic: the two panic quirks of the reflection binding,
    and `assignNodeSkipsBegin` of generated code where it can act (driving mode `viaNode`). -/
structure Engine.NoPanicFlags (e : Engine) : Prop where
  nup : e.nullableUnionPanic = false
  lpk : e.lpUnknownKeyPanic = false
  node : (e.viaNode && e.assignNodeSkipsBegin) = false

theorem Engine.ideal_noPanicFlags : Engine.ideal.NoPanicFlags := ⟨rfl, rfl, rfl⟩

theorem Outcome.map_ne_panic {α β : Type} (f : α → β) {o : Outcome α} (h : o ≠ .panic) :
    o.map f ≠ .panic := by
  cases o <;> simp [Outcome.map] at h ⊢

theorem Outcome.map_eq_panic {α β : Type} (f : α → β) {o : Outcome α} :
    o.map f = .panic ↔ o = .panic := by
  cases o <;> simp [Outcome.map]

mutual
theorem buildScalar_noPanic (e : Engine) (h : e.NoPanicFlags) (lvl : Level) (nul : Bool) (d : DM) :
    (ty : Ty) → buildScalar e lvl nul d ty ≠ .panic
  | .bool => by cases d <;> simp [buildScalar]
  | .int => by cases d <;> simp [buildScalar]
  | .float => by cases d <;> simp [buildScalar]
  | .str => by cases d <;> simp [buildScalar]
  | .bytes => by cases d <;> simp [buildScalar]
  | .link => by cases d <;> simp [buildScalar]
  | .any => by simp only [buildScalar]; split <;> simp
  | .list _ _ => by simp [buildScalar]
  | .map _ _ => by simp [buildScalar]
  | .struct fs r => by
    unfold buildScalar
    split
    · simp only []
      split
      · simp
      · split
        · simp
        · simp
        · next hq => exact absurd hq (buildJoin_noPanic e h fs _)
    · simp
  | .union ms r => by
    unfold buildScalar
    split
    · exact buildKinded_noPanic e h nul d ms
    · split
      · split
        · split
          · split
            · simp
            · exact buildPrefix_noPanic e h nul _ _ ms
          · exact buildPrefixNoDelim_noPanic e h nul _ ms
        · split
          · simp
          · exact buildPrefix_noPanic e h nul _ _ ms
      · simp
    · simp
  | .enum ms r => by
    unfold buildScalar
    split
    · split <;> simp
    · split
      · split
        · simp
        · split
          · split <;> simp
          · simp
      · simp
    · split
      · split <;> simp
      · simp
    · simp
theorem buildJoin_noPanic (e : Engine) (h : e.NoPanicFlags) :
    (fs : Fields) → (ps : List Bytes) → buildJoin e fs ps ≠ .panic
  | .nil, [] => by simp [buildJoin]
  | .nil, _ :: _ => by simp [buildJoin]
  | .cons _ _ _ _ _ _, [] => by simp [buildJoin]
  | .cons n _ _ _ t rest, p :: ps => by
    have h1 := buildScalar_noPanic e h .repr false (.str p) t
    have h2 := buildJoin_noPanic e h rest ps
    unfold buildJoin
    split
    · split <;> simp_all
    · simp
    · simp_all
theorem buildKinded_noPanic (e : Engine) (h : e.NoPanicFlags) (nul : Bool) (d : DM) :
    (ms : Members) → buildKinded e nul d ms ≠ .panic
  | .nil => by simp [buildKinded]
  | .cons n _ k t rest => by
    unfold buildKinded
    split
    · simp only [h.nup, Bool.and_false, Bool.false_eq_true, if_false]
      exact Outcome.map_ne_panic _ (buildScalar_noPanic e h .repr false d t)
    · exact buildKinded_noPanic e h nul d rest
theorem buildPrefix_noPanic (e : Engine) (h : e.NoPanicFlags) (nul : Bool) (p r : Bytes) :
    (ms : Members) → buildPrefix e nul p r ms ≠ .panic
  | .nil => by simp [buildPrefix]
  | .cons n disc _ t rest => by
    unfold buildPrefix
    split
    · simp only [h.nup, Bool.and_false, Bool.false_eq_true, if_false]
      exact Outcome.map_ne_panic _ (buildScalar_noPanic e h .repr false _ t)
    · exact buildPrefix_noPanic e h nul p r rest
theorem buildPrefixNoDelim_noPanic (e : Engine) (h : e.NoPanicFlags) (nul : Bool) (s : Bytes) :
    (ms : Members) → buildPrefixNoDelim e nul s ms ≠ .panic
  | .nil => by simp [buildPrefixNoDelim]
  | .cons n disc _ t rest => by
    unfold buildPrefixNoDelim
    split
    · simp only [h.nup, Bool.and_false, Bool.false_eq_true, if_false]
      exact Outcome.map_ne_panic _ (buildScalar_noPanic e h .repr false _ t)
    · exact buildPrefixNoDelim_noPanic e h nul s rest
end

mutual
theorem resolveKinded_noPanic (e : Engine) (h : e.NoPanicFlags) (nul : Bool) (k : Kind) :
    (ty : Ty) → resolveKinded e nul k ty ≠ .panic
  | .union ms .kinded => by
    unfold resolveKinded
    exact resolveMembers_noPanic e h nul k ms
  | .union ms .keyed => by simp [resolveKinded]
  | .union ms (.stringprefix _) => by simp [resolveKinded]
  | .bool => by simp [resolveKinded]
  | .int => by simp [resolveKinded]
  | .float => by simp [resolveKinded]
  | .str => by simp [resolveKinded]
  | .bytes => by simp [resolveKinded]
  | .link => by simp [resolveKinded]
  | .any => by simp [resolveKinded]
  | .list _ _ => by simp [resolveKinded]
  | .map _ _ => by simp [resolveKinded]
  | .struct _ _ => by simp [resolveKinded]
  | .enum _ _ => by simp [resolveKinded]
theorem resolveMembers_noPanic (e : Engine) (h : e.NoPanicFlags) (nul : Bool) (k : Kind) :
    (ms : Members) → resolveMembers e nul k ms ≠ .panic
  | .nil => by simp [resolveMembers]
  | .cons n _ k' t rest => by
    unfold resolveMembers
    split
    · simp only [h.nup, Bool.and_false, Bool.false_eq_true, if_false]
      have := resolveKinded_noPanic e h false k t
      split <;> simp_all
    · exact resolveMembers_noPanic e h nul k rest
end

theorem SSt.finish_ne_panic (fs : List Field) (st : SSt) : st.finish fs ≠ .panic := by
  unfold SSt.finish; split <;> simp

mutual
theorem build_noPanic (e : Engine) (h : e.NoPanicFlags) (lvl : Level) (ty : Ty) (nul : Bool)
    (cur : Option TL) : (d : DM) → build e lvl ty nul cur d ≠ .panic
  | .null => by unfold build; split <;> simp
  | .bool b => by unfold build; exact buildScalar_noPanic e h lvl nul _ ty
  | .int b => by unfold build; exact buildScalar_noPanic e h lvl nul _ ty
  | .float b => by unfold build; exact buildScalar_noPanic e h lvl nul _ ty
  | .str b => by unfold build; exact buildScalar_noPanic e h lvl nul _ ty
  | .bytes b => by unfold build; exact buildScalar_noPanic e h lvl nul _ ty
  | .link b => by unfold build; exact buildScalar_noPanic e h lvl nul _ ty
  | .list xs => by
    unfold build
    split
    · simp
    · next hq =>
      cases lvl
      · simp at hq
      · exact absurd hq (resolveKinded_noPanic e h nul .list ty)
    · simp only []
      apply Outcome.map_ne_panic
      split
      · exact Outcome.map_ne_panic _ (buildList_noPanic e h lvl _ _ _ xs)
      · split
        · exact buildTuple_noPanic e h _ _ _ xs
        · exact buildPairs_noPanic e h _ _ xs
        · simp
      · split <;> simp
      · simp
  | .map es => by
    rw [build_map_off e h.node]
    split
    · simp
    · next hq =>
      cases lvl
      · simp at hq
      · exact absurd hq (resolveKinded_noPanic e h nul .map ty)
    · simp only []
      apply Outcome.map_ne_panic
      split
      · exact Outcome.map_ne_panic _ (buildMap_noPanic e h lvl _ _ _ es)
      · split
        · exact buildStruct_noPanic e h _ _ _ es
        · exact buildStruct_noPanic e h _ _ _ es
        · simp
      · split
        · exact buildUnion_noPanic e h _ _ _ _ es
        · exact buildUnion_noPanic e h _ _ _ _ es
        · simp
      · split <;> simp
      · simp
theorem buildList_noPanic (e : Engine) (h : e.NoPanicFlags) (lvl : Level) (ety : Ty) (enul : Bool)
    (acc : List TL) : (xs : DMs) → buildList e lvl ety enul acc xs ≠ .panic
  | .nil => by simp [buildList]
  | .cons x xs => by
    rw [buildList_cons_off e h.node]
    split
    · exact buildList_noPanic e h lvl ety enul _ xs
    · simp
    · next hq => exact absurd hq (build_noPanic e h lvl ety enul none x)
theorem buildMap_noPanic (e : Engine) (h : e.NoPanicFlags) (lvl : Level) (vty : Ty) (vnul : Bool)
    (acc : List (Bytes × TL)) : (es : DMKVs) → buildMap e lvl vty vnul acc es ≠ .panic
  | .nil => by simp [buildMap]
  | .cons k v es => by
    rw [buildMap_cons_nodeOff e h.node]
    split
    · simp
    · split
      · exact buildMap_noPanic e h lvl vty vnul _ es
      · simp
      · next hq => exact absurd hq (build_noPanic e h lvl vty vnul none v)
theorem buildStruct_noPanic (e : Engine) (h : e.NoPanicFlags) (lvl : Level) (fs : List Field)
    (st : SSt) : (es : DMKVs) → buildStruct e lvl fs st es ≠ .panic
  | .nil => by unfold buildStruct; exact SSt.finish_ne_panic fs st
  | .cons k v es => by
    rw [buildStruct_cons_off e h.node]
    split
    · simp
    · split
      · simp
      · split
        · exact buildStruct_noPanic e h lvl fs _ es
        · simp
        · next hq => exact absurd hq (build_noPanic e h lvl _ _ _ v)
theorem buildTuple_noPanic (e : Engine) (h : e.NoPanicFlags) (fs : List Field)
    (st : SSt) (i : Nat) : (xs : DMs) → buildTuple e fs st i xs ≠ .panic
  | .nil => by
    unfold buildTuple
    split
    · simp [SSt.finishZero]
    · exact SSt.finish_ne_panic fs st
  | .cons x xs => by
    rw [buildTuple_cons_off e h.node]
    split
    · simp
    · split
      · exact buildTuple_noPanic e h fs _ _ xs
      · simp
      · next hq => exact absurd hq (build_noPanic e h .repr _ _ _ x)
theorem buildPairs_noPanic (e : Engine) (h : e.NoPanicFlags) (fs : List Field)
    (st : SSt) : (xs : DMs) → buildPairs e fs st xs ≠ .panic
  | .nil => by unfold buildPairs; exact SSt.finish_ne_panic fs st
  | .cons (.list .nil) ps => by
    unfold buildPairs
    simp only []
    split
    · exact buildPairs_noPanic e h fs st ps
    · simp
  | .cons (.list (.cons (.str _) .nil)) ps => by
    unfold buildPairs
    simp only []
    split
    · exact buildPairs_noPanic e h fs st ps
    · simp
  | .cons (.list (.cons (.str k) (.cons v rest))) ps => by
    unfold buildPairs
    simp only []
    split
    · simp [h.lpk]
    · split
      · simp
      · split
        · split
          · exact buildPairs_noPanic e h fs _ ps
          · simp
        · simp
        · next hq => exact absurd hq (build_noPanic e h .repr _ _ _ v)
  | .cons .null ps => by simp [buildPairs]
  | .cons (.bool _) ps => by simp [buildPairs]
  | .cons (.int _) ps => by simp [buildPairs]
  | .cons (.float _) ps => by simp [buildPairs]
  | .cons (.str _) ps => by simp [buildPairs]
  | .cons (.bytes _) ps => by simp [buildPairs]
  | .cons (.link _) ps => by simp [buildPairs]
  | .cons (.map _) ps => by simp [buildPairs]
  | .cons (.list (.cons .null _)) ps => by simp [buildPairs]
  | .cons (.list (.cons (.bool _) _)) ps => by simp [buildPairs]
  | .cons (.list (.cons (.int _) _)) ps => by simp [buildPairs]
  | .cons (.list (.cons (.float _) _)) ps => by simp [buildPairs]
  | .cons (.list (.cons (.bytes _) _)) ps => by simp [buildPairs]
  | .cons (.list (.cons (.link _) _)) ps => by simp [buildPairs]
  | .cons (.list (.cons (.list _) _)) ps => by simp [buildPairs]
  | .cons (.list (.cons (.map _) _)) ps => by simp [buildPairs]
theorem buildUnion_noPanic (e : Engine) (h : e.NoPanicFlags) (lvl : Level) (ms : List Member)
    (cur : Option TL) (n : Nat) : (es : DMKVs) → buildUnion e lvl ms cur n es ≠ .panic
  | .nil => by unfold buildUnion; split <;> simp
  | .cons k v es => by
    unfold buildUnion
    split
    · simp
    · split
      · simp
      · split
        · exact buildUnion_noPanic e h lvl ms _ _ es
        · simp
        · next hq => exact absurd hq (build_noPanic e h lvl _ _ _ v)
end

end Schema
end Ipld
