/-
  Model of `traversal.FocusedTransform` (`traversal/focus.go` focusedTransform), DESIGN §5 C16.
  Core Lean only.

  The transform function is a parameter `fn : Path → Option DM → Option DM`: it is given the
  position and the node currently there (`none`: nothing there) and answers with the replacement
  (`none`: remove).  Blocks live in a store `cid ↦ value`; a changed block is stored again under a
  link computed by the parameter `linkOf` (the link prototype and hash are C05's business).
-/
import IpldModel.Model.Walk
import IpldModel.Spec.CanonCbor
namespace Ipld
namespace Transform
open Sel Walk

abbrev Fn := Path → Option DM → Option DM

inductive TErr where
  | notIndex        -- a non-numeric segment (other than "-") on a list
  | beyondBounds    -- a list index past the end
  | noParent        -- a missing intermediate position and createParents = false
  | scalar          -- a scalar in the middle of the path
  | load            -- a link whose block is not in the store
  | nilEntry        -- the code would leave a nil node inside a container (or store a nil block)
  | fuel
  deriving DecidableEq, Repr

structure TSt where
  store : List (Bytes × DM)
  written : List (Bytes × DM) := []     -- blocks stored by this transform, most recent first

abbrev TR (α : Type) := Except TErr (α × TSt)

def lastSegIsDash (s : Seg) : Bool := s.toString == [0x2d]

/-- replace / remove the entry `k` (first occurrence, as the iteration does), keeping order -/
def mapSet (es : List (Bytes × DM)) (k : Bytes) (v : Option DM) : List (Bytes × DM) :=
  es.filterMap fun e => if e.1 = k then (v.map fun x => (k, x)) else some e

def segOfKey (k : Bytes) : Seg := .str k

/-- `asPathSegment(k).Equals(seg)` for a string key -/
def keyMatches (k : Bytes) (seg : Seg) : Bool := (Seg.str k).equals seg

/-- the map iteration of the end case: entries equal to the segment are replaced / dropped (every match,
    as the loop does), the others are copied in order -/
def focusedMapSet (l : List (Bytes × DM)) (seg : Seg) (r : Option DM) : List (Bytes × DM) :=
  l.filterMap fun e => if keyMatches e.1 seg then (r.map fun x => (e.1, x)) else some e

/-- `focusedTransform(n, na, p, fn, createParents)`: the node assigned into `na`
    (`none` = a nil node is assigned).  `n = none` is Go's `n == nil` (creating parents). -/
def focused (fn : Fn) (linkOf : DM → Bytes) (canonBlock : DM → DM) (createParents : Bool) :
    Nat → Path → Option DM → Path → TSt → TR (Option DM)
  | 0, _, _, _, _ => .error .fuel
  | fuel + 1, at_, n, p, st =>
    match p with
    | [] => .ok (fn at_ n, st)
    | seg :: p2 =>
      match n with
      | none =>
        -- create a single-entry map for the missing parent
        match focused fn linkOf canonBlock createParents fuel (at_ ++ [seg]) none p2 st with
        | .error e => .error e
        | .ok (none, _) => .error .nilEntry
        | .ok (some v, st') => .ok (some (.map (DMKVs.ofList [(seg.toString, v)])), st')
      | some (.map es) =>
        let l := es.toList
        match l.find? (fun e => keyMatches e.1 seg) with
        | some e =>
          if p2.isEmpty then
            -- the end of the path: the function sees what `LookupBySegment` finds
            let prev := lookupBySegment (.map es) seg
            let r := fn (at_ ++ [seg]) prev
            .ok (some (.map (DMKVs.ofList (focusedMapSet l seg r))), st)
          else
            match focused fn linkOf canonBlock createParents fuel (at_ ++ [seg]) (some e.2) p2 st with
            | .error er => .error er
            | .ok (none, _) => .error .nilEntry
            | .ok (some v, st') => .ok (some (.map (DMKVs.ofList (focusedMapSet l seg (some v)))), st')
        | none =>
          if p2.isEmpty then
            match fn (at_ ++ [seg]) (lookupBySegment (.map es) seg) with
            | none => .ok (some (.map es), st)
            | some v => .ok (some (.map (DMKVs.ofList (l ++ [(seg.toString, v)]))), st)
          else if !createParents then .error .noParent
          else
            match focused fn linkOf canonBlock createParents fuel (at_ ++ [seg]) none p2 st with
            | .error er => .error er
            | .ok (none, _) => .error .nilEntry
            | .ok (some v, st') => .ok (some (.map (DMKVs.ofList (l ++ [(seg.toString, v)]))), st')
      | some (.list xs) =>
        let l := xs.toList
        let ti : Option Int := match seg.index with
          | some i => some i
          | none => if lastSegIsDash seg then some (-1) else none
        match ti with
        | none => .error .notIndex
        | some ti =>
          if 0 ≤ ti ∧ ti.toNat < l.length then
            let i := ti.toNat
            let v := l.getD i .null
            if p2.isEmpty then
              match fn (at_ ++ [seg]) (some v) with
              | none => .ok (some (.list (DMs.ofList (l.take i ++ l.drop (i + 1)))), st)
              | some v' => .ok (some (.list (DMs.ofList (l.take i ++ [v'] ++ l.drop (i + 1)))), st)
            else
              match focused fn linkOf canonBlock createParents fuel (at_ ++ [seg]) (some v) p2 st with
              | .error er => .error er
              | .ok (none, _) => .error .nilEntry
              | .ok (some v', st') => .ok (some (.list (DMs.ofList (l.take i ++ [v'] ++ l.drop (i + 1)))), st')
          else if ti ≥ 0 then .error .beyondBounds
          else
            -- append (any negative index, "-" included)
            let at' := at_ ++ [Seg.idx l.length]
            if p2.isEmpty then
              match fn at' none with
              | none => .ok (some (.list xs), st)
              | some v => .ok (some (.list (DMs.ofList (l ++ [v]))), st)
            else
              match focused fn linkOf canonBlock createParents fuel at' none p2 st with
              | .error er => .error er
              | .ok (none, _) => .error .nilEntry
              | .ok (some v, st') => .ok (some (.list (DMs.ofList (l ++ [v]))), st')
      | some (.link c) =>
        match storeGet st.store c with
        | none => .error .load
        | some blk =>
          match focused fn linkOf canonBlock createParents fuel at_ (some blk) p st with
          | .error er => .error er
          | .ok (none, _) => .error .nilEntry
          | .ok (some blk0, st') =>
            -- what a later load returns is the block as the codec writes it (dag-cbor: canonical entry order)
            let blk' := canonBlock blk0
            let c' := linkOf blk'
            .ok (some (.link c'), { store := (c', blk') :: st'.store, written := (c', blk') :: st'.written })
      | some _ => .error .scalar

/-- resolve every link through the store (for comparing graphs up to the identity of links) -/
def expandFuel (store : List (Bytes × DM)) : Nat → DM → DM
  | 0, d => d
  | fuel + 1, d =>
    match d with
    | .link c => match storeGet store c with
      | some b => expandFuel store fuel b
      | none => .link c
    | .list xs => .list (DMs.ofList (xs.toList.map (expandFuel store fuel)))
    | .map es => .map (DMKVs.ofList (es.toList.map fun e => (e.1, expandFuel store fuel e.2)))
    | d => d

end Transform
end Ipld
