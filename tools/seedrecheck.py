#!/usr/bin/env python3
"""seedrecheck.py [seed-id ...]  — re-run the registered check of each kept seeded change (all of /verif/seeded by
default) with its patch applied to /repo, revert /repo, and record the outcome in the seed's meta.json."""
import json, os, subprocess, sys, time
V = "/verif"
env = dict(os.environ, GOFLAGS="-mod=mod", GOPROXY="off")
env.pop("GOTOOLCHAIN", None); env.pop("GOSUMDB", None)
def sh(cmd, cwd=None, timeout=6000):
    p = subprocess.run(cmd, shell=True, cwd=cwd, env=env, stdout=subprocess.PIPE, stderr=subprocess.STDOUT, text=True, errors="replace", timeout=timeout)
    return p.returncode, p.stdout
ids = sys.argv[1:] or sorted(d for d in os.listdir(os.path.join(V, "seeded")) if d.startswith("C"))
tier = os.environ.get("SEED_TIER", "quick")
rc, st = sh("git -C /repo status --porcelain")
assert st.strip() == "", "/repo not clean:\n" + st
def run_one(sid, d, prop):
    rc, o = sh(f"git -C /repo apply {os.path.join(d, 'patch.diff')}")
    if rc != 0:
        print(sid, "PATCH DOES NOT APPLY", o[-300:]); return None
    ev = os.path.join(V, "evidence", prop + ".json")
    evidence_keep = open(ev).read() if os.path.exists(ev) else None
    try:
        t0 = time.time()
        rcc, oc = sh(f"./vcheck {prop} {tier}", cwd=V)
    finally:
        sh("git -C /repo checkout -- . && git -C /repo clean -fdq")
        if evidence_keep is not None:
            open(ev, "w").write(evidence_keep)  # the evidence file describes runs on the unchanged tree only
    res = {"check_exit": rcc, "check_wall_s": round(time.time() - t0, 1),
           "check_violation_lines": [l for l in oc.splitlines() if l.startswith("VIOLATION")][:6],
           "check_signatures": [l.strip() for l in oc.splitlines() if l.strip().startswith("signature=")][:6]}
    res["detected"] = rcc == 1 and bool(res["check_violation_lines"])
    return res

for sid in ids:
    d = os.path.join(V, "seeded", sid)
    meta = json.load(open(os.path.join(d, "meta.json")))
    prop = meta.get("breaks_property") or sid.split("-")[0]
    props = [prop] + [p for p in meta.get("detect_with", []) if p != prop]
    results = {}
    for prop in props:
        results[prop] = run_one(sid, d, prop)
    det = [p for p in props if results[p] and results[p]["detected"]]
    meta["check_run"] = "; ".join(f"./vcheck {p} {tier}" for p in props) + " with the patch applied to /repo"
    meta["check_result"] = results[props[0]]
    if len(props) > 1:
        meta["check_results_other_properties"] = {p: results[p] for p in props[1:]}
    meta["detected_by"] = det
    json.dump(meta, open(os.path.join(d, "meta.json"), "w"), indent=1)
    print(sid, "DETECTED by " + ",".join(det) if det else "MISSED", [results[p]["check_signatures"][:2] for p in props if results[p]])
    continue
    rc, o = sh(f"git -C /repo apply {os.path.join(d, 'patch.diff')}")
    if rc != 0:
        print(sid, "PATCH DOES NOT APPLY", o[-300:]); continue
    ev = os.path.join(V, "evidence", prop + ".json")
    evidence_keep = open(ev).read() if os.path.exists(ev) else None
    try:
        t0 = time.time()
        rcc, oc = sh(f"./vcheck {prop} {tier}", cwd=V)
    finally:
        sh("git -C /repo checkout -- . && git -C /repo clean -fdq")
        if evidence_keep is not None:
            open(ev, "w").write(evidence_keep)  # the evidence file describes runs on the unchanged tree only
    res = {"check_exit": rcc, "check_wall_s": round(time.time() - t0, 1),
           "check_violation_lines": [l for l in oc.splitlines() if l.startswith("VIOLATION")][:6],
           "check_signatures": [l.strip() for l in oc.splitlines() if l.strip().startswith("signature=")][:6]}
    res["detected"] = rcc == 1 and bool(res["check_violation_lines"])
    meta["check_run"] = f"./vcheck {prop} {tier} with the patch applied to /repo"
    meta["check_result"] = res
    json.dump(meta, open(os.path.join(d, "meta.json"), "w"), indent=1)
    print(sid, prop, "DETECTED" if res["detected"] else "MISSED", res["check_signatures"][:3], res["check_wall_s"])
