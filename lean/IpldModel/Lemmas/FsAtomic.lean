/-
  Lemmas about the inode-level model of concurrent atomic writes (C18).  Core Lean only.
-/
import IpldModel.Model.Store
namespace Ipld.Store

/-! ### updates of lists -/

theorem setInode_getElem? (l : List Inode) (i : Nat) (f : Inode → Inode) (j : Nat) :
    (setInode l i f)[j]? = if j = i then (l[j]?).map f else l[j]? := by
  unfold setInode
  rw [List.getElem?_mapIdx]
  by_cases h : j = i
  · simp [h]
  · simp only [h, if_false]; cases l[j]? <;> rfl

theorem setInode_length (l : List Inode) (i : Nat) (f : Inode → Inode) : (setInode l i f).length = l.length := by
  unfold setInode; rw [List.length_mapIdx]

theorem setWriter_getElem? (l : List Writer) (i : Nat) (w : Writer) (j : Nat) :
    (setWriter l i w)[j]? = if j = i then (l[j]?).map (fun _ => w) else l[j]? := by
  unfold setWriter
  rw [List.getElem?_mapIdx]
  by_cases h : j = i
  · simp [h]
  · simp only [h, if_false]; cases l[j]? <;> rfl

theorem setWriter_self {l : List Writer} {i : Nat} {w : Writer} (w' : Writer) (h : l[i]? = some w) :
    (setWriter l i w')[i]? = some w' := by
  rw [setWriter_getElem?, h]; simp

theorem setWriter_other (l : List Writer) {i j : Nat} (w' : Writer) (h : j ≠ i) :
    (setWriter l i w')[j]? = l[j]? := by
  rw [setWriter_getElem?]; simp [h]

theorem setWriter_length (l : List Writer) (i : Nat) (w : Writer) : (setWriter l i w).length = l.length := by
  unfold setWriter; rw [List.length_mapIdx]

/-- putting back the writer that is already there changes nothing -/
theorem setWriter_same {l : List Writer} {i : Nat} {w : Writer} (h : l[i]? = some w) : setWriter l i w = l := by
  apply List.ext_getElem?
  intro j
  rw [setWriter_getElem?]
  by_cases hj : j = i
  · subst hj; simp [h]
  · simp [hj]

/-- replacing a writer by one with the same key and content keeps every (key, content) pair present -/
theorem exists_mem_setWriter {l : List Writer} {i : Nat} {w w' : Writer} (h : l[i]? = some w)
    (hk : w'.key = w.key) (hc : w'.chunks = w.chunks) {w0 : Writer} (h0 : w0 ∈ l) :
    ∃ w1 ∈ setWriter l i w', w1.key = w0.key ∧ w1.chunks = w0.chunks := by
  obtain ⟨j, hj⟩ := List.mem_iff_getElem?.mp h0
  by_cases e : j = i
  · subst e
    rw [h] at hj
    cases hj
    exact ⟨w', List.mem_of_getElem? (setWriter_self w' h), hk, hc⟩
  · exact ⟨w0, List.mem_of_getElem? (by rw [setWriter_other l w' e]; exact hj), rfl, rfl⟩

/-! ### directory lookups -/

def lookupL (names : List (Name × Nat)) (n : Name) : Option Nat :=
  match names.find? (fun e => e.1 = n) with
  | some e => some e.2
  | none => none

theorem lookup_eq (fs : Fs) (n : Name) : fs.lookup n = lookupL fs.names n := rfl

theorem lookupL_nil (n : Name) : lookupL [] n = none := rfl

theorem lookupL_cons (m : Name) (i : Nat) (r : List (Name × Nat)) (n : Name) :
    lookupL ((m, i) :: r) n = if m = n then some i else lookupL r n := by
  unfold lookupL
  by_cases h : m = n
  · simp [h]
  · simp [h]

theorem lookupL_filter (r : List (Name × Nat)) (m n : Name) :
    lookupL (r.filter (fun e => e.1 ≠ m)) n = if n = m then none else lookupL r n := by
  induction r with
  | nil => simp [lookupL_nil]
  | cons e r ih =>
    obtain ⟨a, i⟩ := e
    by_cases ha : a = m
    · have : List.filter (fun e => decide (e.1 ≠ m)) ((a, i) :: r) = List.filter (fun e => decide (e.1 ≠ m)) r := by
        simp [ha]
      rw [this, ih, lookupL_cons]
      by_cases hn : n = m
      · simp [hn]
      · have : ¬ a = n := fun x => hn (x.symm.trans ha)
        simp [hn, this]
    · have : List.filter (fun e => decide (e.1 ≠ m)) ((a, i) :: r) = (a, i) :: List.filter (fun e => decide (e.1 ≠ m)) r := by
        simp [ha]
      rw [this, lookupL_cons, lookupL_cons, ih]
      by_cases han : a = n
      · have : ¬ n = m := fun x => ha (han.trans x)
        simp [han, this]
      · simp [han]

theorem lookupL_mem {r : List (Name × Nat)} {n : Name} {i : Nat} (h : lookupL r n = some i) : (n, i) ∈ r := by
  unfold lookupL at h
  cases hf : r.find? (fun e => e.1 = n) with
  | none => simp [hf] at h
  | some e =>
    simp only [hf, Option.some.injEq] at h
    have hm := List.mem_of_find?_eq_some hf
    have hn : e.1 = n := by simpa using List.find?_some hf
    obtain ⟨a, b⟩ := e
    simp only at h hn
    subst h; subst hn
    exact hm

theorem lookup_unbind (fs : Fs) (m n : Name) :
    (fs.unbind m).lookup n = if n = m then none else fs.lookup n := by
  rw [lookup_eq, lookup_eq]; exact lookupL_filter fs.names m n

theorem unbind_inodes (fs : Fs) (m : Name) : (fs.unbind m).inodes = fs.inodes := rfl
theorem unbind_dirs (fs : Fs) (m : Name) : (fs.unbind m).dirs = fs.dirs := rfl

theorem mem_unbind {fs : Fs} {m : Name} {e : Name × Nat} : e ∈ (fs.unbind m).names ↔ e ∈ fs.names ∧ e.1 ≠ m := by
  unfold Fs.unbind; simp

/-- `rename` when the source name is bound -/
theorem rename_of_lookup {fs : Fs} {a b : Name} {i : Nat} (h : fs.lookup a = some i) :
    fs.rename a b = { fs with names := (b, i) :: ((fs.unbind a).unbind b).names } := by
  unfold Fs.rename; rw [h]; rfl

theorem rename_none {fs : Fs} {a b : Name} (h : fs.lookup a = none) : fs.rename a b = fs := by
  unfold Fs.rename; rw [h]


/-! ### the transitions of `stepWriter`, one equation per case -/

def kill (wd : World) (wi : Nat) (w : Writer) : World :=
  { wd with writers := setWriter wd.writers wi { w with phase := .dead } }

theorem step_none {wd : World} {wi : Nat} (f : Fate) (h : wd.writers[wi]? = none) : stepWriter wd wi f = wd := by
  unfold stepWriter; rw [h]

theorem step_kill {wd : World} {wi : Nat} {w : Writer} (h : wd.writers[wi]? = some w) :
    stepWriter wd wi .kill = kill wd wi w := by
  unfold stepWriter kill; rw [h]; simp

theorem step_fail_dies {wd : World} {wi : Nat} {w : Writer} (h : wd.writers[wi]? = some w)
    (hp : w.phase = .start ∨ w.phase = .writing [] ∨ w.phase = .closed ∨ w.phase = .needDir) :
    stepWriter wd wi .fail = kill wd wi w := by
  unfold stepWriter kill; rw [h]
  rcases hp with hp | hp | hp | hp <;> simp [hp]

theorem step_start {wd : World} {wi : Nat} {w : Writer} (h : wd.writers[wi]? = some w) (hp : w.phase = .start) :
    stepWriter wd wi .ok =
      { fs := { wd.fs with inodes := wd.fs.inodes ++ [{}], names := (.staging wi, wd.fs.inodes.length) :: wd.fs.names },
        writers := setWriter wd.writers wi { w with inode := wd.fs.inodes.length, phase := .writing w.chunks } } := by
  unfold stepWriter; rw [h]; simp [hp]

theorem step_close {wd : World} {wi : Nat} {w : Writer} (h : wd.writers[wi]? = some w) (hp : w.phase = .writing []) :
    stepWriter wd wi .ok =
      { fs := { wd.fs with inodes := setInode wd.fs.inodes w.inode fun n => { n with sealed := true } },
        writers := setWriter wd.writers wi { w with phase := .closed } } := by
  unfold stepWriter; rw [h]; simp [hp]

theorem step_write {wd : World} {wi : Nat} {w : Writer} {c : Bytes} {rest : List Bytes}
    (h : wd.writers[wi]? = some w) (hp : w.phase = .writing (c :: rest)) :
    stepWriter wd wi .ok =
      { fs := { wd.fs with inodes := setInode wd.fs.inodes w.inode fun n => { n with content := n.content ++ c } },
        writers := setWriter wd.writers wi { w with phase := .writing rest } } := by
  unfold stepWriter; rw [h]; simp [hp]

theorem step_abort {wd : World} {wi : Nat} {w : Writer} {c : Bytes} {rest : List Bytes}
    (h : wd.writers[wi]? = some w) (hp : w.phase = .writing (c :: rest)) :
    stepWriter wd wi .fail =
      { fs := ({ wd.fs with inodes := setInode wd.fs.inodes w.inode fun n => { n with sealed := true } }).unbind (.staging wi),
        writers := setWriter wd.writers wi { w with phase := .aborted } } := by
  unfold stepWriter; rw [h]; simp [hp]

theorem step_rename {wd : World} {wi : Nat} {w : Writer} (h : wd.writers[wi]? = some w) (hp : w.phase = .closed)
    (hd : wd.fs.dirs.contains w.key = true) :
    stepWriter wd wi .ok =
      { fs := wd.fs.rename (.staging wi) (.dest w.key), writers := setWriter wd.writers wi { w with phase := .done } } := by
  unfold stepWriter; rw [h]; simp only [hp, hd]; simp

theorem step_enoent {wd : World} {wi : Nat} {w : Writer} (h : wd.writers[wi]? = some w) (hp : w.phase = .closed)
    (hd : wd.fs.dirs.contains w.key = false) :
    stepWriter wd wi .ok = { wd with writers := setWriter wd.writers wi { w with phase := .needDir } } := by
  unfold stepWriter; rw [h]; simp only [hp, hd]; simp

theorem step_mkdir {wd : World} {wi : Nat} {w : Writer} (h : wd.writers[wi]? = some w) (hp : w.phase = .needDir) :
    stepWriter wd wi .ok =
      { fs := { wd.fs with dirs := w.key :: wd.fs.dirs }, writers := setWriter wd.writers wi { w with phase := .closed } } := by
  unfold stepWriter; rw [h]; simp [hp]

theorem step_inert {wd : World} {wi : Nat} {w : Writer} {f : Fate} (h : wd.writers[wi]? = some w) (hf : f ≠ .kill)
    (hp : w.phase = .done ∨ w.phase = .aborted ∨ w.phase = .dead) : stepWriter wd wi f = wd := by
  unfold stepWriter; rw [h]
  rcases hp with hp | hp | hp <;> simp [hp, hf]


/-! ### the invariant -/

/-- the writer has created its staging file and is not yet finished, aborted or dead -/
def Created : Phase → Prop
  | .writing _ | .closed | .needDir | .done => True
  | _ => False

/-- the writer's inode exists, is sealed, and holds the writer's complete content -/
def SealedFull (fs : Fs) (w : Writer) : Prop :=
  ∃ ino, fs.inodes[w.inode]? = some ino ∧ ino.sealed = true ∧ ino.content = w.chunks.flatten

/-- what the file system looks like from the point of view of writer `wi` -/
def WOk (fs : Fs) (wi : Nat) (w : Writer) : Prop :=
  match w.phase with
  | .writing left =>
      fs.lookup (.staging wi) = some w.inode ∧
      ∃ ino, fs.inodes[w.inode]? = some ino ∧ ino.sealed = false ∧ ino.content ++ left.flatten = w.chunks.flatten
  | .closed => fs.lookup (.staging wi) = some w.inode ∧ SealedFull fs w
  | .needDir => fs.lookup (.staging wi) = some w.inode ∧ SealedFull fs w
  | .done => SealedFull fs w
  | _ => True

/-- THE PROPERTY for one directory entry `dest key ↦ i`: a sealed inode holding the complete content of some
    writer of `key` -/
def DestOk (fs : Fs) (ws : List Writer) (key : Bytes) (i : Nat) : Prop :=
  ∃ ino, fs.inodes[i]? = some ino ∧ ino.sealed = true ∧ ∃ w ∈ ws, w.key = key ∧ ino.content = w.chunks.flatten

structure Inv (wd : World) : Prop where
  /-- (i) every directory entry refers to an existing inode -/
  names_ok : ∀ e ∈ wd.fs.names, e.2 < wd.fs.inodes.length
  /-- (ii) per-writer state, by phase -/
  wok : ∀ (wi : Nat) (w : Writer), wd.writers[wi]? = some w → WOk wd.fs wi w
  /-- (ii) live writers have pairwise distinct inodes -/
  distinct : ∀ (wi wj : Nat) (w w' : Writer), wd.writers[wi]? = some w → wd.writers[wj]? = some w' → wi ≠ wj →
      Created w.phase → Created w'.phase → w.inode ≠ w'.inode
  /-- (iii) every destination name refers to a sealed, complete block of its key -/
  dest : ∀ (key : Bytes) (i : Nat), (Name.dest key, i) ∈ wd.fs.names → DestOk wd.fs wd.writers key i

theorem WOk.inode_exists {fs : Fs} {wi : Nat} {w : Writer} (h : WOk fs wi w) (hc : Created w.phase) :
    ∃ ino, fs.inodes[w.inode]? = some ino := by
  unfold WOk at h
  unfold SealedFull at h
  split at h
  · obtain ⟨_, ino, e, _⟩ := h; exact ⟨ino, e⟩
  · obtain ⟨_, ino, e, _⟩ := h; exact ⟨ino, e⟩
  · obtain ⟨_, ino, e, _⟩ := h; exact ⟨ino, e⟩
  · obtain ⟨ino, e, _⟩ := h; exact ⟨ino, e⟩
  · rename_i h1 h2 h3 h4
    cases hp : w.phase <;> simp_all [Created]

/-- the per-writer condition only looks at the writer's staging name and inode -/
theorem WOk.frame {fs fs' : Fs} {wi : Nat} {w : Writer} (h : WOk fs wi w)
    (hf : Created w.phase → fs'.lookup (.staging wi) = fs.lookup (.staging wi) ∧ fs'.inodes[w.inode]? = fs.inodes[w.inode]?) :
    WOk fs' wi w := by
  unfold WOk at *
  unfold SealedFull at *
  split <;> rename_i hp <;> simp only [hp] at h
  · obtain ⟨e1, e2⟩ := hf (by simp [hp, Created]); rw [e1, e2]; exact h
  · obtain ⟨e1, e2⟩ := hf (by simp [hp, Created]); rw [e1, e2]; exact h
  · obtain ⟨e1, e2⟩ := hf (by simp [hp, Created]); rw [e1, e2]; exact h
  · obtain ⟨e1, e2⟩ := hf (by simp [hp, Created]); rw [e2]; exact h
  · trivial

theorem DestOk.frame {fs fs' : Fs} {ws : List Writer} {key : Bytes} {i : Nat} (h : DestOk fs ws key i)
    (hf : ∀ ino, fs.inodes[i]? = some ino → ino.sealed = true → fs'.inodes[i]? = some ino) : DestOk fs' ws key i := by
  obtain ⟨ino, e, hs, hw⟩ := h
  exact ⟨ino, hf ino e hs, hs, hw⟩

theorem DestOk.setWriter {fs : Fs} {ws : List Writer} {key : Bytes} {i wi : Nat} {w w' : Writer} (h : DestOk fs ws key i)
    (hw : ws[wi]? = some w) (hk : w'.key = w.key) (hc : w'.chunks = w.chunks) : DestOk fs (setWriter ws wi w') key i := by
  obtain ⟨ino, e, hs, w0, hm, hk0, hc0⟩ := h
  obtain ⟨w1, hm1, hk1, hc1⟩ := exists_mem_setWriter hw hk hc hm
  exact ⟨ino, e, hs, w1, hm1, hk1.trans hk0, by rw [hc1]; exact hc0⟩

/-- the generic preservation lemma: writer `wi` moves from `w` to `w'` (same key and content), the file
    system from `wd.fs` to `fs'` -/
theorem Inv.update {wd : World} (hI : Inv wd) {wi : Nat} {w w' : Writer} {fs' : Fs}
    (hw : wd.writers[wi]? = some w) (hkey : w'.key = w.key) (hch : w'.chunks = w.chunks)
    (hnames : ∀ e ∈ fs'.names, e.2 < fs'.inodes.length)
    (hself : WOk fs' wi w')
    (hframe : ∀ wj w'', wd.writers[wj]? = some w'' → wj ≠ wi → Created w''.phase →
        fs'.lookup (.staging wj) = wd.fs.lookup (.staging wj) ∧ fs'.inodes[w''.inode]? = wd.fs.inodes[w''.inode]?)
    (hdist : Created w'.phase → ∀ wj w'', wd.writers[wj]? = some w'' → wj ≠ wi → Created w''.phase → w'.inode ≠ w''.inode)
    (hdest : ∀ (key : Bytes) (i : Nat), (Name.dest key, i) ∈ fs'.names → DestOk fs' wd.writers key i) :
    Inv { fs := fs', writers := setWriter wd.writers wi w' } := by
  have self_eq : ∀ x, (setWriter wd.writers wi w')[wi]? = some x → x = w' := by
    intro x hx; rw [setWriter_self w' hw] at hx; exact (Option.some.inj hx).symm
  refine ⟨hnames, ?_, ?_, ?_⟩
  · intro wj x hx
    by_cases e : wj = wi
    · subst e; rw [self_eq x hx]; exact hself
    · simp only at hx
      rw [setWriter_other _ _ e] at hx
      exact (hI.wok wj x hx).frame (fun hc => hframe wj x hx e hc)
  · intro a b x y hx hy hab cx cy
    simp only at hx hy
    by_cases ea : a = wi
    · subst ea
      have eb : b ≠ a := fun e => hab e.symm
      rw [setWriter_other _ _ eb] at hy
      rw [self_eq x hx] at cx ⊢
      exact hdist cx b y hy eb cy
    · rw [setWriter_other _ _ ea] at hx
      by_cases eb : b = wi
      · subst eb
        rw [self_eq y hy] at cy ⊢
        exact fun e => hdist cy a x hx ea cx e.symm
      · rw [setWriter_other _ _ eb] at hy
        exact hI.distinct a b x y hx hy hab cx cy
  · intro key i hm
    exact (hdest key i hm).setWriter hw hkey hch


theorem Inv.dist_of_same {wd : World} (hI : Inv wd) {wi : Nat} {w w' : Writer} (hw : wd.writers[wi]? = some w)
    (hc : Created w.phase) (hi : w'.inode = w.inode) :
    Created w'.phase → ∀ wj w'', wd.writers[wj]? = some w'' → wj ≠ wi → Created w''.phase → w'.inode ≠ w''.inode := by
  intro _ wj w'' hw'' hne hc''
  rw [hi]
  exact hI.distinct wi wj w w'' hw hw'' (fun e => hne e.symm) hc hc''

theorem Inv.kill {wd : World} (hI : Inv wd) {wi : Nat} {w : Writer} (hw : wd.writers[wi]? = some w) :
    Inv (kill wd wi w) := by
  unfold Store.kill
  exact hI.update hw rfl rfl hI.names_ok (by simp [WOk]) (fun _ _ _ _ _ => ⟨rfl, rfl⟩)
    (fun hc => by simp [Created] at hc) hI.dest

theorem Inv.init (ws : List (Bytes × List Bytes)) : Inv (initWorld ws) := by
  refine ⟨?_, ?_, ?_, ?_⟩
  · intro e he; simp [initWorld] at he
  · intro wi w hw
    simp only [initWorld, List.getElem?_map] at hw
    cases h : ws[wi]? with
    | none => simp [h] at hw
    | some e => simp only [h, Option.map_some, Option.some.injEq] at hw; subst hw; simp [WOk]
  · intro wi wj w w' hw _ _ hc
    simp only [initWorld, List.getElem?_map] at hw
    cases h : ws[wi]? with
    | none => simp [h] at hw
    | some e => simp only [h, Option.map_some, Option.some.injEq] at hw; subst hw; simp [Created] at hc
  · intro key i hm; simp [initWorld] at hm



theorem WOk.writing {fs : Fs} {wi : Nat} {w : Writer} {left : List Bytes} (h : WOk fs wi w) (hp : w.phase = .writing left) :
    fs.lookup (.staging wi) = some w.inode ∧
      ∃ ino, fs.inodes[w.inode]? = some ino ∧ ino.sealed = false ∧ ino.content ++ left.flatten = w.chunks.flatten := by
  unfold WOk at h; simp only [hp] at h; exact h

theorem WOk.closed {fs : Fs} {wi : Nat} {w : Writer} (h : WOk fs wi w) (hp : w.phase = .closed ∨ w.phase = .needDir) :
    fs.lookup (.staging wi) = some w.inode ∧ SealedFull fs w := by
  unfold WOk at h; rcases hp with hp | hp <;> (simp only [hp] at h; exact h)

theorem WOk.done {fs : Fs} {wi : Nat} {w : Writer} (h : WOk fs wi w) (hp : w.phase = .done) : SealedFull fs w := by
  unfold WOk at h; simp only [hp] at h; exact h

/-- os.OpenFile(O_CREATE|O_EXCL) -/
theorem Inv.start {wd : World} (hI : Inv wd) {wi : Nat} {w : Writer} (hw : wd.writers[wi]? = some w) :
    Inv { fs := { wd.fs with inodes := wd.fs.inodes ++ [{}], names := (.staging wi, wd.fs.inodes.length) :: wd.fs.names },
          writers := setWriter wd.writers wi { w with inode := wd.fs.inodes.length, phase := .writing w.chunks } } := by
  have old : ∀ (wj : Nat) (w'' : Writer), wd.writers[wj]? = some w'' → Created w''.phase → w''.inode < wd.fs.inodes.length := by
    intro wj w'' h hc
    obtain ⟨ino, e⟩ := (hI.wok wj w'' h).inode_exists hc
    exact (List.getElem?_eq_some_iff.mp e).1
  apply hI.update (w' := { w with inode := wd.fs.inodes.length, phase := .writing w.chunks }) hw rfl rfl
  · intro e he
    simp only [List.mem_cons, List.length_append, List.length_singleton] at he ⊢
    rcases he with rfl | he
    · simp
    · have := hI.names_ok e he; omega
  · unfold WOk
    simp only [lookup_eq, lookupL_cons, if_true, true_and]
    exact ⟨{}, List.getElem?_concat_length, rfl, by simp⟩
  · intro wj w'' h hne hc
    constructor
    · simp only [lookup_eq, lookupL_cons]
      have : ¬ Name.staging wi = Name.staging wj := fun e => hne (Name.staging.inj e).symm
      simp [this]
    · exact List.getElem?_append_left (old wj w'' h hc)
  · intro _ wj w'' h hne hc
    have := old wj w'' h hc
    simp only; omega
  · intro key i hm
    simp only [List.mem_cons, Prod.mk.injEq, reduceCtorEq, false_and, false_or] at hm
    apply (hI.dest key i hm).frame
    intro ino e _
    have := (List.getElem?_eq_some_iff.mp e).1
    simp only
    rw [List.getElem?_append_left this]; exact e

/-- wr.Write(chunk) -/
theorem Inv.write {wd : World} (hI : Inv wd) {wi : Nat} {w : Writer} {c : Bytes} {rest : List Bytes}
    (hw : wd.writers[wi]? = some w) (hp : w.phase = .writing (c :: rest)) :
    Inv { fs := { wd.fs with inodes := setInode wd.fs.inodes w.inode fun n => { n with content := n.content ++ c } },
          writers := setWriter wd.writers wi { w with phase := .writing rest } } := by
  obtain ⟨hl, ino, hi, hs, hcont⟩ := (hI.wok wi w hw).writing hp
  have hcr : Created w.phase := by simp [hp, Created]
  apply hI.update (w' := { w with phase := .writing rest }) hw rfl rfl
  · intro e he; simp only [setInode_length]; exact hI.names_ok e he
  · unfold WOk
    simp only
    refine ⟨hl, { ino with content := ino.content ++ c }, ?_, hs, ?_⟩
    · rw [setInode_getElem?, hi]; simp
    · simp only [List.append_assoc]; rw [← hcont]; simp
  · intro wj w'' h hne hc
    refine ⟨rfl, ?_⟩
    have := hI.distinct wj wi w'' w h hw hne hc hcr
    simp only
    rw [setInode_getElem?]; simp [this]
  · exact hI.dist_of_same hw hcr rfl
  · intro key i hm
    apply (hI.dest key i hm).frame
    intro ino' e hs'
    have : i ≠ w.inode := by
      intro x; subst x; rw [hi] at e; cases e; rw [hs] at hs'; cases hs'
    simp only
    rw [setInode_getElem?]; simp [this, e]



/-- frame facts shared by the two steps that seal the writer's own (so far unsealed) inode -/
theorem Inv.seal_frame {wd : World} (hI : Inv wd) {wi : Nat} {w : Writer} {left : List Bytes}
    (hw : wd.writers[wi]? = some w) (hp : w.phase = .writing left) :
    (∀ (wj : Nat) (w'' : Writer), wd.writers[wj]? = some w'' → wj ≠ wi → Created w''.phase →
        (setInode wd.fs.inodes w.inode fun n => { n with sealed := true })[w''.inode]? = wd.fs.inodes[w''.inode]?) ∧
    (∀ (key : Bytes) (i : Nat), (Name.dest key, i) ∈ wd.fs.names →
        DestOk { wd.fs with inodes := setInode wd.fs.inodes w.inode fun n => { n with sealed := true } } wd.writers key i) := by
  obtain ⟨hl, ino, hi, hs, hcont⟩ := (hI.wok wi w hw).writing hp
  have hcr : Created w.phase := by simp [hp, Created]
  constructor
  · intro wj w'' h hne hc
    have := hI.distinct wj wi w'' w h hw hne hc hcr
    rw [setInode_getElem?]; simp [this]
  · intro key i hm
    apply (hI.dest key i hm).frame
    intro ino' e hs'
    have : i ≠ w.inode := by
      intro x; subst x; rw [hi] at e; cases e; rw [hs] at hs'; cases hs'
    simp only
    rw [setInode_getElem?]; simp [this, e]

/-- f.Close() after the last chunk -/
theorem Inv.close {wd : World} (hI : Inv wd) {wi : Nat} {w : Writer}
    (hw : wd.writers[wi]? = some w) (hp : w.phase = .writing []) :
    Inv { fs := { wd.fs with inodes := setInode wd.fs.inodes w.inode fun n => { n with sealed := true } },
          writers := setWriter wd.writers wi { w with phase := .closed } } := by
  obtain ⟨hl, ino, hi, hs, hcont⟩ := (hI.wok wi w hw).writing hp
  have hcr : Created w.phase := by simp [hp, Created]
  obtain ⟨f1, f2⟩ := hI.seal_frame hw hp
  apply hI.update (w' := { w with phase := .closed }) hw rfl rfl
  · intro e he; simp only [setInode_length]; exact hI.names_ok e he
  · unfold WOk SealedFull
    simp only
    refine ⟨hl, { ino with sealed := true }, ?_, rfl, ?_⟩
    · rw [setInode_getElem?, hi]; simp
    · simpa using hcont
  · intro wj w'' h hne hc
    exact ⟨rfl, f1 wj w'' h hne hc⟩
  · exact hI.dist_of_same hw hcr rfl
  · exact f2

/-- a failed Write: Close + Remove(staging) -/
theorem Inv.abort {wd : World} (hI : Inv wd) {wi : Nat} {w : Writer} {c : Bytes} {rest : List Bytes}
    (hw : wd.writers[wi]? = some w) (hp : w.phase = .writing (c :: rest)) :
    Inv { fs := ({ wd.fs with inodes := setInode wd.fs.inodes w.inode fun n => { n with sealed := true } }).unbind (.staging wi),
          writers := setWriter wd.writers wi { w with phase := .aborted } } := by
  obtain ⟨f1, f2⟩ := hI.seal_frame hw hp
  apply hI.update (w' := { w with phase := .aborted }) hw rfl rfl
  · intro e he
    rw [mem_unbind] at he
    rw [unbind_inodes]; simp only [setInode_length]; exact hI.names_ok e he.1
  · simp [WOk]
  · intro wj w'' h hne hc
    constructor
    · rw [lookup_unbind]
      have : ¬ Name.staging wj = Name.staging wi := fun e => hne (Name.staging.inj e)
      simp only [this, if_false]; rfl
    · rw [unbind_inodes]; exact f1 wj w'' h hne hc
  · intro hc; simp [Created] at hc
  · intro key i hm
    rw [mem_unbind] at hm
    exact f2 key i hm.1

/-- os.Rename(staging, dest) with the shard directory present -/
theorem Inv.rename {wd : World} (hI : Inv wd) {wi : Nat} {w : Writer}
    (hw : wd.writers[wi]? = some w) (hp : w.phase = .closed) :
    Inv { fs := wd.fs.rename (.staging wi) (.dest w.key), writers := setWriter wd.writers wi { w with phase := .done } } := by
  obtain ⟨hl, hfull⟩ := (hI.wok wi w hw).closed (Or.inl hp)
  have hcr : Created w.phase := by simp [hp, Created]
  obtain ⟨ino, hi, hs, hcont⟩ := hfull
  have hwm : w ∈ wd.writers := List.mem_of_getElem? hw
  rw [rename_of_lookup hl]
  apply hI.update (w' := { w with phase := .done }) hw rfl rfl
  · intro e he
    simp only [List.mem_cons] at he ⊢
    rcases he with rfl | he
    · exact (List.getElem?_eq_some_iff.mp hi).1
    · rw [mem_unbind, mem_unbind] at he; exact hI.names_ok e he.1.1
  · unfold WOk SealedFull; exact ⟨ino, hi, hs, hcont⟩
  · intro wj w'' h hne hc
    refine ⟨?_, rfl⟩
    have h1 : ¬ Name.dest w.key = Name.staging wj := by simp
    have h2 : ¬ Name.staging wj = Name.dest w.key := by simp
    have h3 : ¬ Name.staging wj = Name.staging wi := fun e => hne (Name.staging.inj e)
    simp only [lookup_eq, lookupL_cons, h1, if_false]
    rw [← lookup_eq, lookup_unbind, lookup_unbind]
    simp only [h2, h3, if_false]; rfl
  · exact hI.dist_of_same hw hcr rfl
  · intro key i hm
    simp only [List.mem_cons, Prod.mk.injEq, Name.dest.injEq] at hm
    rcases hm with ⟨rfl, rfl⟩ | hm
    · exact ⟨ino, hi, hs, w, hwm, rfl, hcont⟩
    · rw [mem_unbind, mem_unbind] at hm
      exact (hI.dest key i hm.1.1).frame (fun _ e _ => e)

/-- a phase change that leaves names and inodes alone (ENOENT from Rename, Mkdir) -/
theorem Inv.rephase {wd : World} (hI : Inv wd) {wi : Nat} {w : Writer} {p : Phase} {dirs : List Bytes}
    (hw : wd.writers[wi]? = some w) (hp : w.phase = .closed ∨ w.phase = .needDir) (hp' : p = .closed ∨ p = .needDir) :
    Inv { fs := { wd.fs with dirs := dirs }, writers := setWriter wd.writers wi { w with phase := p } } := by
  have hwok := (hI.wok wi w hw).closed hp
  have hcr : Created w.phase := by rcases hp with hp | hp <;> simp [hp, Created]
  apply hI.update (w' := { w with phase := p }) hw rfl rfl
  · exact hI.names_ok
  · unfold WOk
    rcases hp' with rfl | rfl <;> exact hwok
  · intro _ _ _ _ _; exact ⟨rfl, rfl⟩
  · exact hI.dist_of_same hw hcr rfl
  · intro key i hm; exact (hI.dest key i hm).frame (fun _ e _ => e)

/-- case analysis of one step: the ten shapes the result can take -/
theorem step_cases {P : World → Prop} (wd : World) (wi : Nat) (f : Fate)
    (h_none : wd.writers[wi]? = none → P wd)
    (h_inert : ∀ w, wd.writers[wi]? = some w → f ≠ .kill → (w.phase = .done ∨ w.phase = .aborted ∨ w.phase = .dead) → P wd)
    (h_dies : ∀ w, wd.writers[wi]? = some w →
        (f = .kill ∨ (f = .fail ∧ (w.phase = .start ∨ w.phase = .writing [] ∨ w.phase = .closed ∨ w.phase = .needDir))) →
        P (kill wd wi w))
    (h_start : ∀ w, wd.writers[wi]? = some w → f = .ok → w.phase = .start →
        P { fs := { wd.fs with inodes := wd.fs.inodes ++ [{}], names := (.staging wi, wd.fs.inodes.length) :: wd.fs.names },
            writers := setWriter wd.writers wi { w with inode := wd.fs.inodes.length, phase := .writing w.chunks } })
    (h_write : ∀ w c rest, wd.writers[wi]? = some w → f = .ok → w.phase = .writing (c :: rest) →
        P { fs := { wd.fs with inodes := setInode wd.fs.inodes w.inode fun n => { n with content := n.content ++ c } },
            writers := setWriter wd.writers wi { w with phase := .writing rest } })
    (h_abort : ∀ w c rest, wd.writers[wi]? = some w → f = .fail → w.phase = .writing (c :: rest) →
        P { fs := ({ wd.fs with inodes := setInode wd.fs.inodes w.inode fun n => { n with sealed := true } }).unbind (.staging wi),
            writers := setWriter wd.writers wi { w with phase := .aborted } })
    (h_close : ∀ w, wd.writers[wi]? = some w → f = .ok → w.phase = .writing [] →
        P { fs := { wd.fs with inodes := setInode wd.fs.inodes w.inode fun n => { n with sealed := true } },
            writers := setWriter wd.writers wi { w with phase := .closed } })
    (h_rename : ∀ w, wd.writers[wi]? = some w → f = .ok → w.phase = .closed → wd.fs.dirs.contains w.key = true →
        P { fs := wd.fs.rename (.staging wi) (.dest w.key), writers := setWriter wd.writers wi { w with phase := .done } })
    (h_enoent : ∀ w, wd.writers[wi]? = some w → f = .ok → w.phase = .closed → wd.fs.dirs.contains w.key = false →
        P { fs := wd.fs, writers := setWriter wd.writers wi { w with phase := .needDir } })
    (h_mkdir : ∀ w, wd.writers[wi]? = some w → f = .ok → w.phase = .needDir →
        P { fs := { wd.fs with dirs := w.key :: wd.fs.dirs }, writers := setWriter wd.writers wi { w with phase := .closed } }) :
    P (stepWriter wd wi f) := by
  cases hw : wd.writers[wi]? with
  | none => rw [step_none f hw]; exact h_none hw
  | some w =>
    cases f with
    | kill => rw [step_kill hw]; exact h_dies w hw (Or.inl rfl)
    | fail =>
      cases hp : w.phase with
      | start => rw [step_fail_dies hw (by simp [hp])]; exact h_dies w hw (Or.inr ⟨rfl, by simp [hp]⟩)
      | writing left =>
        cases left with
        | nil => rw [step_fail_dies hw (by simp [hp])]; exact h_dies w hw (Or.inr ⟨rfl, by simp [hp]⟩)
        | cons c rest => rw [step_abort hw hp]; exact h_abort w c rest hw rfl hp
      | closed => rw [step_fail_dies hw (by simp [hp])]; exact h_dies w hw (Or.inr ⟨rfl, by simp [hp]⟩)
      | needDir => rw [step_fail_dies hw (by simp [hp])]; exact h_dies w hw (Or.inr ⟨rfl, by simp [hp]⟩)
      | done => rw [step_inert hw (by simp) (by simp [hp])]; exact h_inert w hw (by simp) (by simp [hp])
      | aborted => rw [step_inert hw (by simp) (by simp [hp])]; exact h_inert w hw (by simp) (by simp [hp])
      | dead => rw [step_inert hw (by simp) (by simp [hp])]; exact h_inert w hw (by simp) (by simp [hp])
    | ok =>
      cases hp : w.phase with
      | start => rw [step_start hw hp]; exact h_start w hw rfl hp
      | writing left =>
        cases left with
        | nil => rw [step_close hw hp]; exact h_close w hw rfl hp
        | cons c rest => rw [step_write hw hp]; exact h_write w c rest hw rfl hp
      | closed =>
        cases hd : wd.fs.dirs.contains w.key with
        | true => rw [step_rename hw hp hd]; exact h_rename w hw rfl hp hd
        | false => rw [step_enoent hw hp hd]; exact h_enoent w hw rfl hp hd
      | needDir => rw [step_mkdir hw hp]; exact h_mkdir w hw rfl hp
      | done => rw [step_inert hw (by simp) (by simp [hp])]; exact h_inert w hw (by simp) (by simp [hp])
      | aborted => rw [step_inert hw (by simp) (by simp [hp])]; exact h_inert w hw (by simp) (by simp [hp])
      | dead => rw [step_inert hw (by simp) (by simp [hp])]; exact h_inert w hw (by simp) (by simp [hp])

/-- B1: every step of every writer under every fate preserves the invariant -/
theorem Inv.step {wd : World} (hI : Inv wd) (wi : Nat) (f : Fate) : Inv (stepWriter wd wi f) := by
  apply step_cases wd wi f
  · intro _; exact hI
  · intro _ _ _ _; exact hI
  · intro w hw _; exact hI.kill hw
  · intro w hw _ _; exact hI.start hw
  · intro w c rest hw _ hp; exact hI.write hw hp
  · intro w c rest hw _ hp; exact hI.abort hw hp
  · intro w hw _ hp; exact hI.close hw hp
  · intro w hw _ hp _; exact hI.rename hw hp
  · intro w hw _ hp _; exact hI.rephase (dirs := wd.fs.dirs) hw (Or.inl hp) (Or.inr rfl)
  · intro w hw _ hp; exact hI.rephase hw (Or.inr hp) (Or.inl rfl)

theorem Inv.run {wd : World} (hI : Inv wd) (sched : Schedule) : Inv (run wd sched) := by
  induction sched generalizing wd with
  | nil => exact hI
  | cons e r ih => exact ih (hI.step e.1 e.2)

/-! ### keys and contents of the writers never change -/

/-- what a writer was asked to store -/
def kc (w : Writer) : Bytes × List Bytes := (w.key, w.chunks)

theorem map_kc_setWriter {l : List Writer} {i : Nat} {w w' : Writer} (h : l[i]? = some w)
    (hk : w'.key = w.key) (hc : w'.chunks = w.chunks) : (setWriter l i w').map kc = l.map kc := by
  apply List.ext_getElem?
  intro j
  rw [List.getElem?_map, List.getElem?_map, setWriter_getElem?]
  by_cases e : j = i
  · subst e; simp [h, kc, hk, hc]
  · simp [e]

theorem step_kc (wd : World) (wi : Nat) (f : Fate) : (stepWriter wd wi f).writers.map kc = wd.writers.map kc := by
  apply step_cases (P := fun x => x.writers.map kc = wd.writers.map kc) wd wi f
  · intro _; rfl
  · intro _ _ _ _; rfl
  · intro w hw _; exact map_kc_setWriter hw rfl rfl
  · intro w hw _ _; exact map_kc_setWriter hw rfl rfl
  · intro w c rest hw _ hp; exact map_kc_setWriter hw rfl rfl
  · intro w c rest hw _ hp; exact map_kc_setWriter hw rfl rfl
  · intro w hw _ hp; exact map_kc_setWriter hw rfl rfl
  · intro w hw _ hp _; exact map_kc_setWriter hw rfl rfl
  · intro w hw _ hp _; exact map_kc_setWriter hw rfl rfl
  · intro w hw _ hp; exact map_kc_setWriter hw rfl rfl

theorem run_kc (wd : World) (sched : Schedule) : (run wd sched).writers.map kc = wd.writers.map kc := by
  induction sched generalizing wd with
  | nil => rfl
  | cons e r ih => exact (ih _).trans (step_kc wd e.1 e.2)

theorem writeOnce_of_kc {ws ws' : List Writer} (h : ws'.map kc = ws.map kc) (hwo : WriteOnce ws) : WriteOnce ws' := by
  have back : ∀ w ∈ ws', ∃ v ∈ ws, v.key = w.key ∧ v.chunks = w.chunks := by
    intro w hw
    have : kc w ∈ ws.map kc := by rw [← h]; exact List.mem_map_of_mem hw
    obtain ⟨v, hv, e⟩ := List.mem_map.mp this
    simp only [kc, Prod.mk.injEq] at e
    exact ⟨v, hv, e.1, e.2⟩
  intro w₁ h₁ w₂ h₂ hk
  obtain ⟨v₁, hv₁, k₁, c₁⟩ := back w₁ h₁
  obtain ⟨v₂, hv₂, k₂, c₂⟩ := back w₂ h₂
  rw [← c₁, ← c₂]
  exact hwo v₁ hv₁ v₂ hv₂ (by rw [k₁, k₂, hk])

theorem committed_eq_kc (wd : World) (key : Bytes) :
    committed wd key = ((wd.writers.map kc).find? (fun e => e.1 = key)).map (fun e => e.2.flatten) := by
  unfold committed
  rw [List.find?_map, Option.map_map]
  rfl

theorem committed_of_kc {wd wd' : World} (h : wd'.writers.map kc = wd.writers.map kc) (key : Bytes) :
    committed wd' key = committed wd key := by
  rw [committed_eq_kc, committed_eq_kc, h]

/-! ### B2: a reader sees complete committed content -/

theorem Inv.read_committed {wd : World} (hI : Inv wd) (hwo : WriteOnce wd.writers) {key b : Bytes}
    (h : readKey wd key = some b) : committed wd key = some b := by
  unfold readKey at h
  cases hl : wd.fs.lookup (.dest key) with
  | none => simp [hl] at h
  | some i =>
    simp only [hl] at h
    obtain ⟨ino, e, _, w, hw, hk, hc⟩ := hI.dest key i (lookupL_mem hl)
    rw [e] at h
    simp only [Option.map_some, Option.some.injEq] at h
    unfold committed
    cases hf : wd.writers.find? (fun w => w.key = key) with
    | none =>
      have := List.find?_eq_none.mp hf w hw
      simp [hk] at this
    | some w0 =>
      have hm := List.mem_of_find?_eq_some hf
      have hk0 : w0.key = key := by simpa using List.find?_some hf
      simp only [Option.map_some, Option.some.injEq]
      rw [hwo w0 hm w hw (hk0.trans hk.symm), ← hc, h]

/-! ### B3: a fresh writer completes -/

theorem run_append (wd : World) (a b : Schedule) : run wd (a ++ b) = run (run wd a) b := by
  induction a generalizing wd with
  | nil => rfl
  | cons e r ih => exact ih _

/-- a new `Put(key, chunks)` arrives -/
def addWriter (wd : World) (key : Bytes) (chunks : List Bytes) : World :=
  { wd with writers := wd.writers ++ [{ key := key, chunks := chunks }] }

/-- the steps from the closed staging file to the destination: Rename, or Rename (ENOENT), Mkdir, Rename -/
def moveSchedule (n : Nat) (dirExists : Bool) : Schedule :=
  if dirExists then [(n, .ok)] else [(n, .ok), (n, .ok), (n, .ok)]

/-- the complete undisturbed run of writer `n`: OpenFile, one Write per chunk, Close, then the move -/
def freshSchedule (n : Nat) (chunks : List Bytes) (dirExists : Bool) : Schedule :=
  [(n, .ok)] ++ chunks.map (fun _ => (n, Fate.ok)) ++ [(n, .ok)] ++ moveSchedule n dirExists

/-- writer `n` is a writer of `key`/`chunks` in phase `p` -/
def At (wd : World) (n : Nat) (key : Bytes) (chunks : List Bytes) (p : Phase) : Prop :=
  ∃ w, wd.writers[n]? = some w ∧ w.key = key ∧ w.chunks = chunks ∧ w.phase = p

theorem Inv.addWriter {wd : World} (hI : Inv wd) (key : Bytes) (chunks : List Bytes) : Inv (Store.addWriter wd key chunks) := by
  have get : ∀ (wi : Nat) (w : Writer), (wd.writers ++ [{ key := key, chunks := chunks }])[wi]? = some w →
      wd.writers[wi]? = some w ∨ w.phase = .start := by
    intro wi w h
    by_cases hlt : wi < wd.writers.length
    · rw [List.getElem?_append_left hlt] at h; exact Or.inl h
    · rw [List.getElem?_append_right (by omega)] at h
      right
      cases hk : wi - wd.writers.length with
      | zero => rw [hk] at h; simp at h; subst h; rfl
      | succ m => rw [hk] at h; simp at h
  refine ⟨hI.names_ok, ?_, ?_, ?_⟩
  · intro wi w h
    rcases get wi w h with h | h
    · exact hI.wok wi w h
    · unfold WOk; simp [h]
  · intro wi wj w w' h h' hne hc hc'
    rcases get wi w h with h | h
    · rcases get wj w' h' with h' | h'
      · exact hI.distinct wi wj w w' h h' hne hc hc'
      · simp [h', Created] at hc'
    · simp [h, Created] at hc
  · intro k i hm
    obtain ⟨ino, e, hs, w, hw, hk, hc⟩ := hI.dest k i hm
    exact ⟨ino, e, hs, w, List.mem_append_left _ hw, hk, hc⟩

theorem at_addWriter (wd : World) (key : Bytes) (chunks : List Bytes) :
    At (addWriter wd key chunks) wd.writers.length key chunks .start :=
  ⟨{ key := key, chunks := chunks }, by simp [addWriter], rfl, rfl, rfl⟩

theorem at_start {wd : World} {n : Nat} {key : Bytes} {chunks : List Bytes} (h : At wd n key chunks .start) :
    At (stepWriter wd n .ok) n key chunks (.writing chunks) ∧ (stepWriter wd n .ok).fs.dirs = wd.fs.dirs := by
  obtain ⟨w, hw, hk, hc, hp⟩ := h
  rw [step_start hw hp]
  exact ⟨⟨_, setWriter_self _ hw, hk, hc, by rw [hc]⟩, rfl⟩

theorem at_write {wd : World} {n : Nat} {key : Bytes} {chunks : List Bytes} {c : Bytes} {rest : List Bytes}
    (h : At wd n key chunks (.writing (c :: rest))) :
    At (stepWriter wd n .ok) n key chunks (.writing rest) ∧ (stepWriter wd n .ok).fs.dirs = wd.fs.dirs := by
  obtain ⟨w, hw, hk, hc, hp⟩ := h
  rw [step_write hw hp]
  exact ⟨⟨_, setWriter_self _ hw, hk, hc, rfl⟩, rfl⟩

theorem at_close {wd : World} {n : Nat} {key : Bytes} {chunks : List Bytes} (h : At wd n key chunks (.writing [])) :
    At (stepWriter wd n .ok) n key chunks .closed ∧ (stepWriter wd n .ok).fs.dirs = wd.fs.dirs := by
  obtain ⟨w, hw, hk, hc, hp⟩ := h
  rw [step_close hw hp]
  exact ⟨⟨_, setWriter_self _ hw, hk, hc, rfl⟩, rfl⟩

theorem at_enoent {wd : World} {n : Nat} {key : Bytes} {chunks : List Bytes} (h : At wd n key chunks .closed)
    (hd : wd.fs.dirs.contains key = false) :
    At (stepWriter wd n .ok) n key chunks .needDir := by
  obtain ⟨w, hw, hk, hc, hp⟩ := h
  rw [step_enoent hw hp (by rw [hk]; exact hd)]
  exact ⟨_, setWriter_self _ hw, hk, hc, rfl⟩

theorem at_mkdir {wd : World} {n : Nat} {key : Bytes} {chunks : List Bytes} (h : At wd n key chunks .needDir) :
    At (stepWriter wd n .ok) n key chunks .closed ∧ (stepWriter wd n .ok).fs.dirs.contains key = true := by
  obtain ⟨w, hw, hk, hc, hp⟩ := h
  rw [step_mkdir hw hp]
  exact ⟨⟨_, setWriter_self _ hw, hk, hc, rfl⟩, by simp [hk]⟩

/-- the successful Rename makes the key readable with the writer's complete content -/
theorem Inv.at_rename {wd : World} (hI : Inv wd) {n : Nat} {key : Bytes} {chunks : List Bytes}
    (h : At wd n key chunks .closed) (hd : wd.fs.dirs.contains key = true) :
    readKey (stepWriter wd n .ok) key = some chunks.flatten := by
  obtain ⟨w, hw, hk, hc, hp⟩ := h
  obtain ⟨hl, ino, hi, hs, hcont⟩ := (hI.wok n w hw).closed (Or.inl hp)
  rw [step_rename hw hp (by rw [hk]; exact hd), rename_of_lookup hl]
  unfold readKey
  simp only [lookup_eq, lookupL_cons, hk, if_true, hi, Option.map_some, hcont, hc]

theorem Inv.run_move {wd : World} (hI : Inv wd) {n : Nat} {key : Bytes} {chunks : List Bytes}
    (h : At wd n key chunks .closed) :
    readKey (Store.run wd (moveSchedule n (wd.fs.dirs.contains key))) key = some chunks.flatten := by
  unfold moveSchedule
  cases hd : wd.fs.dirs.contains key with
  | true => exact hI.at_rename h hd
  | false =>
    simp only [Bool.false_eq_true, if_false, Store.run]
    have h1 := at_enoent h hd
    have I1 := hI.step n .ok
    obtain ⟨h2, hd2⟩ := at_mkdir h1
    have I2 := I1.step n .ok
    exact I2.at_rename h2 hd2

theorem Inv.run_writes {left : List Bytes} : ∀ {wd : World}, Inv wd → ∀ {n : Nat} {key : Bytes} {chunks : List Bytes},
    At wd n key chunks (.writing left) →
    readKey (Store.run wd (left.map (fun _ => (n, Fate.ok)) ++ [(n, .ok)] ++ moveSchedule n (wd.fs.dirs.contains key))) key
      = some chunks.flatten := by
  induction left with
  | nil =>
    intro wd hI n key chunks h
    obtain ⟨h1, hd1⟩ := at_close h
    simp only [List.map_nil, List.nil_append, List.cons_append, Store.run]
    rw [← hd1]
    exact (hI.step n .ok).run_move h1
  | cons c rest ih =>
    intro wd hI n key chunks h
    obtain ⟨h1, hd1⟩ := at_write h
    simp only [List.map_cons, List.cons_append, Store.run]
    rw [← hd1]
    exact ih (hI.step n .ok) h1

/-- B3: appended to any world satisfying the invariant, a fresh writer run undisturbed makes its key readable
    with exactly its content -/
theorem Inv.fresh_completes {wd : World} (hI : Inv wd) (key : Bytes) (chunks : List Bytes) :
    readKey (Store.run (Store.addWriter wd key chunks) (freshSchedule wd.writers.length chunks (wd.fs.dirs.contains key))) key
      = some chunks.flatten := by
  have h0 := at_addWriter wd key chunks
  have I0 := hI.addWriter key chunks
  obtain ⟨h1, hd1⟩ := at_start h0
  have e : freshSchedule wd.writers.length chunks (wd.fs.dirs.contains key) =
      (wd.writers.length, Fate.ok) :: (chunks.map (fun _ => (wd.writers.length, Fate.ok)) ++ [(wd.writers.length, .ok)] ++
        moveSchedule wd.writers.length (wd.fs.dirs.contains key)) := by
    simp [freshSchedule]
  rw [e]
  have hd : wd.fs.dirs = (Store.addWriter wd key chunks).fs.dirs := rfl
  show readKey (Store.run (stepWriter (Store.addWriter wd key chunks) wd.writers.length .ok) _) key = _
  rw [hd, ← hd1]
  exact (I0.step _ .ok).run_writes h1

end Ipld.Store
