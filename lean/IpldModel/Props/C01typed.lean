/-
  C01 for TYPED (schema-bound) nodes, at type level - the builders of the reflection binding and of generated code
  (`Model/TypedAssembler.lean`) and the read side of the nodes they return: whatever a legal sequence of assembler calls
  put in is what the node's read methods return.  For every well-formed type of the fragment the typed machine models
  (`plain`: scalars, lists, String-keyed maps, structs read as maps) and every engine whose key assemblers refuse a
  repeated map key (the reflection binding; generated code but for the recorded deviation `C13/gen-keyAsmDupMapKey`).

  (a) `typed_plan_builds`, `typed_plan_variant_builds`, `typed_plan_delivers`: the canonical call plan of a conforming
      tree `d` (`Asm.planOf d`, the plan of Props/C01.lean) and every variant of it (`Asm.Plan`: any size hint, map
      entries opened with `AssembleEntry` or through the key assembler, any subtree handed over whole with `AssignNode` -
      so also the call sequence `datamodel.Copy` makes) is accepted call by call by a fresh typed builder, and `Build`
      returns exactly the node C09's whole-value builder `Schema.ofType Engine.ideal` makes of `d`.  Conversely
      (`typed_plan_accepted_only_if_conforms`) a plan that is accepted call by call is the plan of a conforming tree.
  (b) `typed_read_back_struct` / `_map` / `_list` / `_scalar`: what the read methods of that node return.  A typed node read
      through `datamodel.Node` at type level IS the typed value `TL` (`Model/Schema.lean`: the data model plus `absent`);
      `TRead.lookupByString`, `TRead.lookupByIndex`, `TRead.length`, `TRead.keys` (Lemmas/C01Typed.lean) are the read
      functions of the generic model (`Asm.lookupByString`, …) carried over to `TL` verbatim, and on a value that holds no
      `absent` they ARE those functions (`typed_read_is_generic_read`).  Struct: the lookup by a field name returns the node
      built from the value given for that field, a field never given reads `absent` (and is optional), the iterator lists
      ALL fields in declaration order whatever the call order was, `Length` is the number of fields.  Map: the lookup by a
      key returns the node built from the value assembled under that key, the iterator runs in call order, `Length` is the
      number of entries, any other key is not-exists.  List: the index lookups return the nodes built from the elements
      in call order.  The statements are about the node the ideal whole-value builder returns for `d` at a position
      (`Schema.build Engine.ideal .type ty nul none d = ok w`); by (a) that is the node the typed builder returns for every
      plan of `d`, and by `typed_refines_generic` (Props/C12typed.lean) for ANY accepted history, `d` being what the same
      calls give the generic builder (`typed_history_read_back_struct`, `typed_history_read_back_map`).  The value a
      lookup returns is again such a node (`build … f.ty f.nullable none v = ok x`), so the statements apply at every depth.
  (c) `typed_round_trip_partial`: copying a typed node in which no optional field is unset through the generic
      interfaces is the identity.

  Property theorems only; the helper lemmas and `TRead` are in `IpldModel/Lemmas/C01Typed.lean`.
-/
import IpldModel.Lemmas.C01Typed
import IpldModel.Props.C01
import IpldModel.Props.C12typed
namespace Ipld.Props.C01
open Ipld Ipld.Asm Ipld.TAsm
open Ipld.Schema (Ty Fields Field TL TLs TLKVs conforms ofType normalize)

/-! ### (a) the plan of a conforming tree builds its typed node -/

/-- **typed_plan_delivers.**  Wherever the current object is a value assembler for a plain type `t` in a slot that is nullable
    iff `nul` (the root builder, a list element, a map value, the value of a struct field), every plan `ops` of a tree `d`
    that conforms to `t` (integers within int64) is accepted call by call and leaves the machine exactly where handing over
    the finished canonical typed value of `d` in one step would leave it. -/
theorem typed_plan_delivers {e : Engine} (he : e.keyAsmDupMapKey = false) {s : TAsm.St} {t : Ty} {nul : Bool}
    (ht : s.tainted = false) (hpos : pos s = .value t nul) (hpl : plain t = true) {d : DM} {ops : List Op}
    (hp : Plan d ops) (hc : (conforms t nul (TL.ofDM d) && int64s d) = true) :
    TAsm.run e s ops = ((TAsm.deliver s (normalize t (TL.ofDM d))).1, List.replicate ops.length .ok) :=
  tplan_runs he d ops hp s t nul ht hpos hpl hc

/-- **typed_plan_variant_builds.**  `d` is any data-model tree the ideal whole-value builder of C09 accepts for `ty`
    (`d` conforms: kinds right, null only where nullable, no unknown and no repeated field or key, every required field
    there) and whose integers fit int64; `w` is the node it returns.  Then EVERY plan of `d` - whatever the size hints,
    whichever entries are opened through the key assembler instead of `AssembleEntry`, whichever subtrees are handed over
    with `AssignNode` (all of them: the call sequence of `datamodel.Copy`), struct fields in whatever order `d` lists them -
    is accepted call by call by a fresh typed builder, and `Build` returns exactly `w`. -/
theorem typed_plan_variant_builds {e : Engine} (he : e.keyAsmDupMapKey = false) {ty : Ty} (hwf : ty.wf = true)
    (hpl : plain ty = true) (d : DM) {w : TL} (hof : ofType Schema.Engine.ideal ty d = .ok w)
    (hi : int64s d = true) (ops : List Op) (hp : Plan d ops) :
    ∃ s, TAsm.run e (TAsm.init ty) ops = (s, List.replicate ops.length .ok) ∧ TAsm.build s = some w := by
  obtain ⟨hc, rfl⟩ := TRead.build_type_ok hwf hof
  exact ⟨_, typed_plan_delivers he (s := TAsm.init ty) (t := ty) (nul := false) rfl rfl hpl hp (by rw [hc, hi]; rfl), rfl⟩

/-- **typed_plan_builds.**  The canonical plan `planOf d` of Props/C01.lean (`plan_builds`: on the generic builder it builds
    `d`) builds, on a fresh typed builder, the typed node of `d`: every call accepted, `Build` returns `w`. -/
theorem typed_plan_builds {e : Engine} (he : e.keyAsmDupMapKey = false) {ty : Ty} (hwf : ty.wf = true)
    (hpl : plain ty = true) (d : DM) {w : TL} (hof : ofType Schema.Engine.ideal ty d = .ok w)
    (hi : int64s d = true) :
    ∃ s, TAsm.run e (TAsm.init ty) (planOf d) = (s, List.replicate (planOf d).length .ok) ∧
      TAsm.build s = some w :=
  typed_plan_variant_builds he hwf hpl d hof hi _ (planOf_is_plan d)

/-- **typed_plan_accepted_only_if_conforms** - the converse of `typed_plan_variant_builds`.  If a plan of a tree `d` (no map
    of it carrying a key twice) is accepted call by call by a fresh typed builder and `Build` returns `w`, then `d` conforms
    to the type, its integers fit int64, and `w` is the node the ideal whole-value builder makes of `d`.  So for such trees
    the typed builders accept the plan exactly when C09's ideal builder accepts the tree, and build the same node. -/
theorem typed_plan_accepted_only_if_conforms {e : Engine} (he : e.keyAsmDupMapKey = false) {ty : Ty}
    (hwf : ty.wf = true) (hpl : plain ty = true) (d : DM) (hn : d.NoDup) (ops : List Op) (hp : Plan d ops)
    (hall : ∀ o ∈ (TAsm.run e (TAsm.init ty) ops).2, o = .ok) {w : TL}
    (hb : TAsm.build (TAsm.run e (TAsm.init ty) ops).1 = some w) :
    int64s d = true ∧ ofType Schema.Engine.ideal ty d = .ok w := by
  obtain ⟨d', hd', hi, hof⟩ := (C12.typed_refines_generic he hwf hpl ops hall).2 w hb
  obtain ⟨s, hr, hbs⟩ := plan_variant_builds .any d ops hp hn rfl
  rw [hr] at hd'
  have hdd : d' = d := by
    simp only [hbs, Option.some.injEq] at hd'
    exact hd'.symm
  subst hdd
  exact ⟨hi, hof⟩

/-- the tree `{"b":["x"],"a":5}` (fields out of declaration order) -/
private def exD : DM := .map (.cons [98] (.list (.cons (.str [120]) .nil)) (.cons [97] (.int 5) .nil))

/-- its plan the way `datamodel.Copy` calls it: hints 0, every key through the key assembler -/
private def exCopyOps : List Op :=
  [.beginMap 0, .assembleKey, .assign (.str [98]), .assembleValue, .beginList 0, .assembleValue, .assign (.str [120]),
   .finish, .assembleKey, .assignNode (.str [97]), .assembleValue, .assignNode (.int 5), .finish]

/-- non-vacuity: the hypotheses hold of the example struct and tree, the canonical plan is accepted call by call by both
    engines and builds `{a:5, b:["x"]}` - declaration order -/
example : exStructTy.wf = true ∧ plain exStructTy = true ∧ int64s exD = true ∧
    ofType Schema.Engine.ideal exStructTy exD = .ok exStructBuilt ∧
    (TAsm.run .bindnode (TAsm.init exStructTy) (planOf exD)).2 = List.replicate (planOf exD).length .ok ∧
    TAsm.build (TAsm.run .bindnode (TAsm.init exStructTy) (planOf exD)).1 = some exStructBuilt ∧
    TAsm.build (TAsm.run .gen (TAsm.init exStructTy) (planOf exD)).1 = some exStructBuilt := by decide

/-- ... and so is the variant `datamodel.Copy` makes -/
example : Plan exD exCopyOps :=
  Plan.map _ _ _ (PlanKVs.keyAssign _ _ _ [.beginList 0, .assembleValue, .assign (.str [120]), .finish] _
    (Plan.list _ _ _ (PlanList.cons _ _ [_] [] (Plan.scalar _ rfl) PlanList.nil))
    (PlanKVs.keyNode _ _ _ [_] [] (Plan.node _) PlanKVs.nil))

example : (TAsm.run .bindnode (TAsm.init exStructTy) exCopyOps).2 = List.replicate exCopyOps.length .ok ∧
    TAsm.build (TAsm.run .bindnode (TAsm.init exStructTy) exCopyOps).1 = some exStructBuilt := by decide

/-- the hypothesis that `d` conforms is needed: the plan of `{"b":null}` (required field `a` missing) is refused at `Finish` -/
example : (TAsm.run .bindnode (TAsm.init exStructTy) (planOf (.map (.cons [98] .null .nil)))).2
    = [.ok, .ok, .ok, .err .other] := by decide

/-- the hypothesis on the engine is inherited from the lemmas about `AssignNode` of arbitrary nodes (`Plan.node`,
    `typed_assignNode_iff_conforms`); no plan of a CONFORMING tree can show the deviation it excludes (such a tree has no
    repeated key) - generated code, for which it does not hold, builds the same node in the example above -/
example : Engine.gen.keyAsmDupMapKey = true ∧
    (TAsm.run .gen (TAsm.init exStructTy) exCopyOps).2 = List.replicate exCopyOps.length .ok := by decide

/-! ### (b) what was put in is what the read methods return -/

/-- On a value that holds no `absent` - the typed view of a data-model tree - the read functions of a typed node are the read
    functions of the generic model (`lookup_finds_entry`, `lookupByIndex_list_nat`, `length_map`, … of Props/C01.lean). -/
theorem typed_read_is_generic_read (d : DM) :
    (∀ k, TRead.lookupByString (TL.ofDM d) k = (Asm.lookupByString d k).map TL.ofDM) ∧
    (∀ i, TRead.lookupByIndex (TL.ofDM d) i = (Asm.lookupByIndex d i).map TL.ofDM) ∧
    TRead.length (TL.ofDM d) = Asm.length d :=
  ⟨TRead.lookupByString_ofDM d, TRead.lookupByIndex_ofDM d, TRead.length_ofDM d⟩

/-- **typed_read_back_struct.**  `w` is the node built from the map `kvs` at a position of struct type (any representation
    strategy - it plays no part at type level; `nul`: the slot is nullable).  Then
    * `Length` is the number of declared fields and the iterator yields ALL field names, in declaration order - whatever the
      order of the entries of `kvs`, i.e. of the calls;
    * for every entry `(k, v)` given, `k` is a field `f` and `LookupByString(k)` returns `x`, the node built from `v` at the
      field's position (type `f.ty`, nullable iff the field is);
    * a field for which no entry was given is optional and reads `absent`. -/
theorem typed_read_back_struct {F : Fields} {r : Schema.StructRepr} {nul : Bool} (hwf : (Ty.struct F r).wf = true)
    {kvs : DMKVs} {w : TL} (hb : Schema.build Schema.Engine.ideal .type (.struct F r) nul none (.map kvs) = .ok w) :
    TRead.length w = (F.toList.length : Int) ∧
    TRead.keys w = F.toList.map (·.name) ∧
    (∀ k v, (k, v) ∈ kvs.toList → ∃ f x, fieldOf F.toList k = some f ∧
      Schema.build Schema.Engine.ideal .type f.ty f.nullable none v = .ok x ∧ TRead.lookupByString w k = .ok x) ∧
    (∀ f ∈ F.toList, f.name ∉ kvs.keys → f.opt = true ∧ TRead.lookupByString w f.name = .ok .absent) := by
  obtain ⟨hc, rfl⟩ := TRead.build_type_ok hwf hb
  obtain ⟨h1, h2, h3, h4⟩ := TRead.read_struct hwf hc
  refine ⟨h1, h2, ?_, h4⟩
  intro k v hm
  obtain ⟨f, hf, hfm, hcv, hl⟩ := h3 k v hm
  exact ⟨f, _, hf, TRead.build_type_of_conforms (Schema.Fields.wf_mem F (Schema.wf_struct hwf).1 f hfm) hcv, hl⟩

/-- **typed_read_back_map.**  `w` is the node built from the map `kvs` at a position of a typed map.  Then `Length` is the
    number of entries given, the iterator yields the keys in the order given (call order), no key occurs twice, for every
    entry `(k, v)` given `LookupByString(k)` returns the node built from `v` at the value position, and every other key is
    answered not-exists. -/
theorem typed_read_back_map {vty : Ty} {vnul nul : Bool} (hwf : (Ty.map vty vnul).wf = true) {kvs : DMKVs} {w : TL}
    (hb : Schema.build Schema.Engine.ideal .type (.map vty vnul) nul none (.map kvs) = .ok w) :
    TRead.length w = (kvs.toList.length : Int) ∧
    TRead.keys w = kvs.keys ∧ kvs.keys.Nodup ∧
    (∀ k v, (k, v) ∈ kvs.toList → ∃ x,
      Schema.build Schema.Engine.ideal .type vty vnul none v = .ok x ∧ TRead.lookupByString w k = .ok x) ∧
    (∀ k, k ∉ kvs.keys → TRead.lookupByString w k = .error .notExists) := by
  obtain ⟨hc, rfl⟩ := TRead.build_type_ok hwf hb
  obtain ⟨h1, h2, h3, h4, h5⟩ := TRead.read_map hc
  refine ⟨h1, h2, h3, ?_, h5⟩
  intro k v hm
  obtain ⟨hcv, hl⟩ := h4 k v hm
  exact ⟨_, TRead.build_type_of_conforms (by simpa [Ty.wf] using hwf) hcv, hl⟩

/-- **typed_read_back_list.**  `w` is the node built from the list `ys` at a position of list type.  Then `Length` is the
    number of elements given and `LookupByIndex(n)` returns the node built from the `n`-th element given (call order) at the
    element position; an index past the end is answered not-exists. -/
theorem typed_read_back_list {ety : Ty} {enul nul : Bool} (hwf : (Ty.list ety enul).wf = true) {ys : DMs} {w : TL}
    (hb : Schema.build Schema.Engine.ideal .type (.list ety enul) nul none (.list ys) = .ok w) :
    TRead.length w = (ys.toList.length : Int) ∧
    (∀ (n : Nat) (h : n < ys.toList.length), ∃ x,
      Schema.build Schema.Engine.ideal .type ety enul none ys.toList[n] = .ok x ∧
      TRead.lookupByIndex w (n : Int) = .ok x) ∧
    (∀ n : Nat, ys.toList.length ≤ n → TRead.lookupByIndex w (n : Int) = .error .notExists) := by
  obtain ⟨hc, rfl⟩ := TRead.build_type_ok hwf hb
  obtain ⟨h1, _, h3, h4⟩ := TRead.read_list hc
  refine ⟨h1, ?_, ?_⟩
  · intro n hn
    refine ⟨_, TRead.build_type_of_conforms (by simpa [Ty.wf] using hwf) (h3 _ (List.getElem_mem hn)), ?_⟩
    rw [h4 n, List.getElem?_eq_getElem hn]
  · intro n hn
    rw [h4 n, List.getElem?_eq_none hn]

/-- **typed_read_back_scalar.**  A scalar (null where the slot is nullable, bool, int, float, string, bytes, link) is read
    back as the value that was assigned. -/
theorem typed_read_back_scalar {ty : Ty} {nul : Bool} (hwf : ty.wf = true) {d : DM} (hs : Asm.isScalar d = true)
    {w : TL} (hb : Schema.build Schema.Engine.ideal .type ty nul none d = .ok w) : w = TL.ofDM d := by
  obtain ⟨_, rfl⟩ := TRead.build_type_ok hwf hb
  exact TRead.read_scalar hs

/-- non-vacuity of the read-back statements on the struct built above: `b` was given first, the node lists `a` first;
    both lookups return what was given; an optional field never given reads `absent` -/
example : TRead.keys exStructBuilt = [[97], [98]] ∧ TRead.length exStructBuilt = 2 ∧
    TRead.lookupByString exStructBuilt [98] = .ok (.list (.cons (.str [120]) .nil)) ∧
    TRead.lookupByString exStructBuilt [97] = .ok (.int 5) ∧
    TRead.lookupByIndex (.list (.cons (.str [120]) .nil)) 0 = .ok (.str [120]) := by
  refine ⟨rfl, rfl, rfl, rfl, rfl⟩

example : ofType Schema.Engine.ideal exStructTy (.map (.cons [97] (.int 5) .nil))
      = .ok (.map (.cons [97] (.int 5) (.cons [98] .absent .nil))) ∧
    TRead.lookupByString (.map (.cons [97] (.int 5) (.cons [98] .absent .nil))) [98] = .ok .absent := by
  refine ⟨by decide, rfl⟩

/-- a typed map keeps call order; a key never given is not-exists -/
example : ofType Schema.Engine.ideal exMapTy (.map (.cons [98] (.int 2) (.cons [97] (.int 1) .nil)))
      = .ok (.map (.cons [98] (.int 2) (.cons [97] (.int 1) .nil))) ∧
    TRead.keys (.map (.cons [98] (.int 2) (.cons [97] (.int 1) .nil))) = [[98], [97]] ∧
    TRead.lookupByString (.map (.cons [98] (.int 2) (.cons [97] (.int 1) .nil))) [97] = .ok (.int 1) ∧
    TRead.lookupByString (.map (.cons [98] (.int 2) (.cons [97] (.int 1) .nil))) [99] = .error .notExists := by
  refine ⟨by decide, rfl, rfl, rfl⟩

/-- **typed_history_read_back_struct** - (b) for ANY history of calls a fresh struct builder accepts call by call (entries
    in any order, through `AssembleEntry` or the key assembler, subtrees assembled or handed over), not only plans: the same
    calls make the generic builder (basicnode, C01) build a map `kvs` - the entries supplied, in call order - and the typed node
    `w` reads back exactly those entries: all fields in declaration order, each field supplied reading the node built from
    the value supplied for it, each field not supplied optional and reading `absent`. -/
theorem typed_history_read_back_struct {e : Engine} (he : e.keyAsmDupMapKey = false) {F : Fields}
    {r : Schema.StructRepr} (hwf : (Ty.struct F r).wf = true) (hpl : plain (Ty.struct F r) = true) (h : List Op)
    (hall : ∀ o ∈ (TAsm.run e (TAsm.init (.struct F r)) h).2, o = .ok) {w : TL}
    (hb : TAsm.build (TAsm.run e (TAsm.init (.struct F r)) h).1 = some w) :
    ∃ kvs, Asm.build (Asm.run (Asm.init .any) h).1 = some (.map kvs) ∧
      TRead.length w = (F.toList.length : Int) ∧
      TRead.keys w = F.toList.map (·.name) ∧
      (∀ k v, (k, v) ∈ kvs.toList → ∃ f x, fieldOf F.toList k = some f ∧
        Schema.build Schema.Engine.ideal .type f.ty f.nullable none v = .ok x ∧ TRead.lookupByString w k = .ok x) ∧
      (∀ f ∈ F.toList, f.name ∉ kvs.keys → f.opt = true ∧ TRead.lookupByString w f.name = .ok .absent) := by
  obtain ⟨d, hd, _, hof⟩ := (C12.typed_refines_generic he hwf hpl h hall).2 w hb
  obtain ⟨hc, _⟩ := TRead.build_type_ok hwf hof
  cases d with
  | map kvs => exact ⟨kvs, hd, typed_read_back_struct hwf hof⟩
  | _ => simp [conforms, TL.ofDM] at hc

/-- **typed_history_read_back_map** - the same for a typed map: the node reads back the entries supplied, in call order. -/
theorem typed_history_read_back_map {e : Engine} (he : e.keyAsmDupMapKey = false) {vty : Ty} {vnul : Bool}
    (hwf : (Ty.map vty vnul).wf = true) (hpl : plain (Ty.map vty vnul) = true) (h : List Op)
    (hall : ∀ o ∈ (TAsm.run e (TAsm.init (.map vty vnul)) h).2, o = .ok) {w : TL}
    (hb : TAsm.build (TAsm.run e (TAsm.init (.map vty vnul)) h).1 = some w) :
    ∃ kvs, Asm.build (Asm.run (Asm.init .any) h).1 = some (.map kvs) ∧
      TRead.length w = (kvs.toList.length : Int) ∧
      TRead.keys w = kvs.keys ∧ kvs.keys.Nodup ∧
      (∀ k v, (k, v) ∈ kvs.toList → ∃ x,
        Schema.build Schema.Engine.ideal .type vty vnul none v = .ok x ∧ TRead.lookupByString w k = .ok x) ∧
      (∀ k, k ∉ kvs.keys → TRead.lookupByString w k = .error .notExists) := by
  obtain ⟨d, hd, _, hof⟩ := (C12.typed_refines_generic he hwf hpl h hall).2 w hb
  obtain ⟨hc, _⟩ := TRead.build_type_ok hwf hof
  cases d with
  | map kvs => exact ⟨kvs, hd, typed_read_back_map hwf hof⟩
  | _ => simp [conforms, TL.ofDM] at hc

/-- **typed_history_read_back_list** - and for a list. -/
theorem typed_history_read_back_list {e : Engine} (he : e.keyAsmDupMapKey = false) {ety : Ty} {enul : Bool}
    (hwf : (Ty.list ety enul).wf = true) (hpl : plain (Ty.list ety enul) = true) (h : List Op)
    (hall : ∀ o ∈ (TAsm.run e (TAsm.init (.list ety enul)) h).2, o = .ok) {w : TL}
    (hb : TAsm.build (TAsm.run e (TAsm.init (.list ety enul)) h).1 = some w) :
    ∃ ys, Asm.build (Asm.run (Asm.init .any) h).1 = some (.list ys) ∧
      TRead.length w = (ys.toList.length : Int) ∧
      (∀ (n : Nat) (h : n < ys.toList.length), ∃ x,
        Schema.build Schema.Engine.ideal .type ety enul none ys.toList[n] = .ok x ∧
        TRead.lookupByIndex w (n : Int) = .ok x) ∧
      (∀ n : Nat, ys.toList.length ≤ n → TRead.lookupByIndex w (n : Int) = .error .notExists) := by
  obtain ⟨d, hd, _, hof⟩ := (C12.typed_refines_generic he hwf hpl h hall).2 w hb
  obtain ⟨hc, _⟩ := TRead.build_type_ok hwf hof
  cases d with
  | list ys => exact ⟨ys, hd, typed_read_back_list hwf hof⟩
  | _ => simp [conforms, TL.ofDM] at hc

/-- the hypotheses of the history form are satisfiable: the struct history of C12 with its refused calls erased -/
example :
    let h := TAsm.erase .bindnode (TAsm.init exStructTy) exStructHistory
    (∀ o ∈ (TAsm.run .bindnode (TAsm.init exStructTy) h).2, o = .ok) ∧
    TAsm.build (TAsm.run .bindnode (TAsm.init exStructTy) h).1 = some exStructBuilt ∧
    Asm.build (Asm.run (Asm.init .any) h).1 = some exD := by decide

/-! ### (c) copying a typed node through the generic interfaces is the identity -/

/- The full statement: for every node `w` a typed builder returns, feeding a fresh typed builder of the same type the calls
   `datamodel.Copy(w, builder)` makes - `w` read through its iterators, the entries that read `absent` skipped (copy.go) -
   builds `w` again:  `ofType Engine.ideal ty (strip w) = ok w`, `strip` dropping the absent entries.
   Proved below for the nodes in which no optional field is unset (`w.toDM? = some d`: then what the iterators yield is the
   tree `d` itself); the general case needs the inverse of `Schema.normalize` on canonical struct values and is left open -
   not refuted: no counter-example was found. -/

/-- **typed_round_trip_partial.**  `w` is a node some history of calls built on a fresh typed builder, no optional field
    of it unset, so that read through the node interface it is the data-model tree `d`; its integers fit int64 (they do for
    every built node - the typed builders refuse others - but the invariant of the machine does not record it, hence the
    hypothesis).  Then the ideal whole-value builder makes `w` of `d`, and every plan of `d` - in particular the calls
    `datamodel.Copy` makes, and the single call `AssignNode(w)` - run on a fresh typed builder of the same type is accepted
    call by call and `Build` returns `w` again. -/
theorem typed_round_trip_partial {e : Engine} (he : e.keyAsmDupMapKey = false) {ty : Ty} (hwf : ty.wf = true)
    (hpl : plain ty = true) (h : List Op) {w : TL} (hb : TAsm.build (TAsm.run e (TAsm.init ty) h).1 = some w)
    {d : DM} (hd : w.toDM? = some d) (hi : int64s d = true) :
    ofType Schema.Engine.ideal ty d = .ok w ∧
    ∀ ops, Plan d ops →
      ∃ s, TAsm.run e (TAsm.init ty) ops = (s, List.replicate ops.length .ok) ∧ TAsm.build s = some w := by
  have hof := C12.typed_built_is_ideal_build he hwf hpl h hb d (Schema.ofDM_of_toDM w d hd)
  exact ⟨hof, fun ops hp => typed_plan_variant_builds he hwf hpl d hof hi ops hp⟩

/-- non-vacuity: the struct built by the history of C12, copied -/
example : exStructBuilt.toDM? = some (.map (.cons [97] (.int 5) (.cons [98] (.list (.cons (.str [120]) .nil)) .nil))) ∧
    TAsm.build (TAsm.run .bindnode (TAsm.init exStructTy)
      [.assignNode (.map (.cons [97] (.int 5) (.cons [98] (.list (.cons (.str [120]) .nil)) .nil)))]).1
      = some exStructBuilt := by decide

end Ipld.Props.C01
