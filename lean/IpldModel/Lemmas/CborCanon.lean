/-
  The canonical encoding of an encodable value denotes its canonical form, and therefore decodes
  back to it:  `decode (enc v) = canon v`.
-/
import IpldModel.Lemmas.CborEnc
import IpldModel.Lemmas.CborDecComplete
namespace Ipld
namespace Cbor
open Spec

/-! ### (A) writing a value in the order it has denotes that value -/

mutual
theorem denotes_encOrdered : (v : DM) → v.NoDup → encodable dagcborEnc v = true → finiteFloats v →
    Denotes v (encOrdered v)
  | .null, _, _, _ => by simp only [Denotes, encOrdered]; exact Or.inl trivial
  | .bool true, _, _, _ => by simp only [Denotes, encOrdered]; rfl
  | .bool false, _, _, _ => by simp only [Denotes, encOrdered]; rfl
  | .int i, _, he, _ => by
    simp only [encodable] at he
    have he := of_decide_eq_true he
    simp only [intInRange] at he
    simp only [Denotes, encOrdered]
    by_cases h : 0 ≤ i
    · rw [if_pos h]; exact Or.inl ⟨h, he.2, rfl⟩
    · rw [if_neg h]; exact Or.inr ⟨by omega, he.1, rfl⟩
  | .float f, _, _, hf => by
    simp only [finiteFloats] at hf
    simp only [Denotes, encOrdered, FloatBytes]
    exact ⟨hf, Or.inl trivial⟩
  | .str s, _, _, _ => by simp only [Denotes, encOrdered]
  | .bytes s, _, _, _ => by simp only [Denotes, encOrdered]
  | .link c, _, he, _ => by
    simp only [encodable, Bool.and_eq_true] at he
    simp only [Denotes, encOrdered]
    exact ⟨he.2, trivial⟩
  | .list xs, hn, he, hf => by
    simp only [DM.NoDup] at hn
    simp only [encodable] at he
    simp only [finiteFloats] at hf
    simp only [Denotes, encOrdered]
    exact ⟨_, rfl, denotesList_encOrdered xs hn he hf⟩
  | .map es, hn, he, hf => by
    simp only [DM.NoDup] at hn
    simp only [encodable] at he
    simp only [finiteFloats] at hf
    simp only [Denotes, encOrdered]
    exact ⟨hn.1, _, rfl, denotesKVs_encOrdered es hn.2 he hf⟩
theorem denotesList_encOrdered : (xs : DMs) → xs.NoDup → encodableList dagcborEnc xs = true →
    finiteFloatsList xs → DenotesList xs (encOrderedList xs)
  | .nil, _, _, _ => by simp only [DenotesList, encOrderedList]
  | .cons x xs, hn, he, hf => by
    simp only [DMs.NoDup] at hn
    simp only [encodableList, Bool.and_eq_true] at he
    simp only [finiteFloatsList] at hf
    simp only [DenotesList, encOrderedList]
    exact ⟨_, _, rfl, denotes_encOrdered x hn.1 he.1 hf.1, denotesList_encOrdered xs hn.2 he.2 hf.2⟩
theorem denotesKVs_encOrdered : (es : DMKVs) → es.NoDupVals → encodableKVs dagcborEnc es = true →
    finiteFloatsKVs es → DenotesKVs es (encOrderedKVs es)
  | .nil, _, _, _ => by simp only [DenotesKVs, encOrderedKVs]
  | .cons k v es, hn, he, hf => by
    simp only [DMKVs.NoDupVals] at hn
    simp only [encodableKVs, Bool.and_eq_true] at he
    simp only [finiteFloatsKVs] at hf
    simp only [DenotesKVs, encOrderedKVs]
    exact ⟨_, _, List.append_assoc _ _ _, denotes_encOrdered v hn.1 he.1 hf.1,
      denotesKVs_encOrdered es hn.2 he.2 hf.2⟩
end

/-! ### (B) `canon` only reorders map entries -/

theorem insertKV_keys_perm (k : Bytes) (v : DM) : (es : DMKVs) →
    (insertKV k v es).keys.Perm (k :: es.keys)
  | .nil => List.Perm.refl _
  | .cons k' v' es => by
    simp only [insertKV]
    split
    · simp only [DMKVs.keys_cons]; exact List.Perm.refl _
    · simp only [DMKVs.keys_cons]
      exact (List.Perm.cons _ (insertKV_keys_perm k v es)).trans (List.Perm.swap _ _ _)

theorem canonKVs_keys_perm : (es : DMKVs) → (canonKVs es).keys.Perm es.keys
  | .nil => List.Perm.refl _
  | .cons k v es => by
    simp only [canonKVs, DMKVs.keys_cons]
    exact (insertKV_keys_perm k _ _).trans (List.Perm.cons _ (canonKVs_keys_perm es))

theorem insertKV_NoDupVals (k : Bytes) (v : DM) : (es : DMKVs) →
    ((insertKV k v es).NoDupVals ↔ v.NoDup ∧ es.NoDupVals)
  | .nil => by simp only [insertKV, DMKVs.NoDupVals]
  | .cons k' v' es => by
    simp only [insertKV]
    split
    · simp only [DMKVs.NoDupVals]
    · simp only [DMKVs.NoDupVals, insertKV_NoDupVals k v es]
      constructor
      · rintro ⟨a, b, c⟩; exact ⟨b, a, c⟩
      · rintro ⟨a, b, c⟩; exact ⟨b, a, c⟩

theorem insertKV_encodableKVs (cfg : EncCfg) (k : Bytes) (v : DM) : (es : DMKVs) →
    encodableKVs cfg (insertKV k v es) = (encodable cfg v && encodableKVs cfg es)
  | .nil => by simp only [insertKV, encodableKVs]
  | .cons k' v' es => by
    simp only [insertKV]
    split
    · simp only [encodableKVs]
    · simp only [encodableKVs, insertKV_encodableKVs cfg k v es]
      rw [Bool.and_left_comm]

theorem insertKV_finiteFloatsKVs (k : Bytes) (v : DM) : (es : DMKVs) →
    (finiteFloatsKVs (insertKV k v es) ↔ finiteFloats v ∧ finiteFloatsKVs es)
  | .nil => by simp only [insertKV, finiteFloatsKVs]
  | .cons k' v' es => by
    simp only [insertKV]
    split
    · simp only [finiteFloatsKVs]
    · simp only [finiteFloatsKVs, insertKV_finiteFloatsKVs k v es]
      constructor
      · rintro ⟨a, b, c⟩; exact ⟨b, a, c⟩
      · rintro ⟨a, b, c⟩; exact ⟨b, a, c⟩

mutual
theorem canon_NoDup : (v : DM) → v.NoDup → (canon v).NoDup
  | .null, h => h
  | .bool _, h => h
  | .int _, h => h
  | .float _, h => h
  | .str _, h => h
  | .bytes _, h => h
  | .link _, h => h
  | .list xs, h => by
    simp only [DM.NoDup] at h
    simp only [canon, DM.NoDup]
    exact canonList_NoDup xs h
  | .map es, h => by
    simp only [DM.NoDup] at h
    simp only [canon, DM.NoDup]
    exact ⟨(canonKVs_keys_perm es).nodup_iff.mpr h.1, canonKVs_NoDupVals es h.2⟩
theorem canonList_NoDup : (xs : DMs) → xs.NoDup → (canonList xs).NoDup
  | .nil, h => h
  | .cons x xs, h => by
    simp only [DMs.NoDup] at h
    simp only [canonList, DMs.NoDup]
    exact ⟨canon_NoDup x h.1, canonList_NoDup xs h.2⟩
theorem canonKVs_NoDupVals : (es : DMKVs) → es.NoDupVals → (canonKVs es).NoDupVals
  | .nil, h => h
  | .cons k v es, h => by
    simp only [DMKVs.NoDupVals] at h
    simp only [canonKVs, insertKV_NoDupVals]
    exact ⟨canon_NoDup v h.1, canonKVs_NoDupVals es h.2⟩
end

mutual
theorem canon_encodable (cfg : EncCfg) : (v : DM) → encodable cfg v = true → encodable cfg (canon v) = true
  | .null, h => h
  | .bool _, h => h
  | .int _, h => h
  | .float _, h => h
  | .str _, h => h
  | .bytes _, h => h
  | .link _, h => h
  | .list xs, h => by
    simp only [encodable] at h
    simp only [canon, encodable]
    exact canonList_encodable cfg xs h
  | .map es, h => by
    simp only [encodable] at h
    simp only [canon, encodable]
    exact canonKVs_encodable cfg es h
theorem canonList_encodable (cfg : EncCfg) : (xs : DMs) → encodableList cfg xs = true →
    encodableList cfg (canonList xs) = true
  | .nil, h => h
  | .cons x xs, h => by
    simp only [encodableList, Bool.and_eq_true] at h
    simp only [canonList, encodableList, Bool.and_eq_true]
    exact ⟨canon_encodable cfg x h.1, canonList_encodable cfg xs h.2⟩
theorem canonKVs_encodable (cfg : EncCfg) : (es : DMKVs) → encodableKVs cfg es = true →
    encodableKVs cfg (canonKVs es) = true
  | .nil, h => h
  | .cons k v es, h => by
    simp only [encodableKVs, Bool.and_eq_true] at h
    simp only [canonKVs, insertKV_encodableKVs, Bool.and_eq_true]
    exact ⟨canon_encodable cfg v h.1, canonKVs_encodable cfg es h.2⟩
end

mutual
theorem canon_finiteFloats : (v : DM) → finiteFloats v → finiteFloats (canon v)
  | .null, h => h
  | .bool _, h => h
  | .int _, h => h
  | .float _, h => h
  | .str _, h => h
  | .bytes _, h => h
  | .link _, h => h
  | .list xs, h => by
    simp only [finiteFloats] at h
    simp only [canon, finiteFloats]
    exact canonList_finiteFloats xs h
  | .map es, h => by
    simp only [finiteFloats] at h
    simp only [canon, finiteFloats]
    exact canonKVs_finiteFloats es h
theorem canonList_finiteFloats : (xs : DMs) → finiteFloatsList xs → finiteFloatsList (canonList xs)
  | .nil, h => h
  | .cons x xs, h => by
    simp only [finiteFloatsList] at h
    simp only [canonList, finiteFloatsList]
    exact ⟨canon_finiteFloats x h.1, canonList_finiteFloats xs h.2⟩
theorem canonKVs_finiteFloats : (es : DMKVs) → finiteFloatsKVs es → finiteFloatsKVs (canonKVs es)
  | .nil, h => h
  | .cons k v es, h => by
    simp only [finiteFloatsKVs] at h
    simp only [canonKVs, insertKV_finiteFloatsKVs]
    exact ⟨canon_finiteFloats v h.1, canonKVs_finiteFloats es h.2⟩
end

/-! ### `canon` leaves the quantities the decoder limits are stated in unchanged -/

theorem insertKV_depth (k : Bytes) (v : DM) : (es : DMKVs) →
    (insertKV k v es).depth = max v.depth es.depth
  | .nil => by simp only [insertKV, DMKVs.depth]
  | .cons k' v' es => by
    simp only [insertKV]
    split
    · simp only [DMKVs.depth]
    · simp only [DMKVs.depth, insertKV_depth k v es]
      omega

theorem insertKV_length (k : Bytes) (v : DM) : (es : DMKVs) →
    (insertKV k v es).length = es.length + 1
  | .nil => rfl
  | .cons k' v' es => by
    simp only [insertKV]
    split
    · simp only [DMKVs.length_cons]
    · simp only [DMKVs.length_cons, insertKV_length k v es]

theorem insertKV_costKVs (k : Bytes) (v : DM) : (es : DMKVs) →
    costKVs (insertKV k v es) = k.length + 8 + cost v + costKVs es
  | .nil => by simp only [insertKV, costKVs]
  | .cons k' v' es => by
    simp only [insertKV]
    split
    · simp only [costKVs]
    · simp only [costKVs, insertKV_costKVs k v es]
      omega

theorem insertKV_maxStrKVs (k : Bytes) (v : DM) : (es : DMKVs) →
    maxStrKVs (insertKV k v es) = max k.length (max (maxStr v) (maxStrKVs es))
  | .nil => by simp only [insertKV, maxStrKVs]
  | .cons k' v' es => by
    simp only [insertKV]
    split
    · simp only [maxStrKVs]
    · simp only [maxStrKVs, insertKV_maxStrKVs k v es]
      omega

theorem insertKV_hasLinkKVs (k : Bytes) (v : DM) : (es : DMKVs) →
    hasLinkKVs (insertKV k v es) = (hasLink v || hasLinkKVs es)
  | .nil => by simp only [insertKV, hasLinkKVs]
  | .cons k' v' es => by
    simp only [insertKV]
    split
    · simp only [hasLinkKVs]
    · simp only [hasLinkKVs, insertKV_hasLinkKVs k v es]
      rw [Bool.or_left_comm]

mutual
theorem canon_depth : (v : DM) → (canon v).depth = v.depth
  | .null => rfl
  | .bool _ => rfl
  | .int _ => rfl
  | .float _ => rfl
  | .str _ => rfl
  | .bytes _ => rfl
  | .link _ => rfl
  | .list xs => by simp only [canon, DM.depth, canonList_depth xs]
  | .map es => by simp only [canon, DM.depth, canonKVs_depth es]
theorem canonList_depth : (xs : DMs) → (canonList xs).depth = xs.depth
  | .nil => rfl
  | .cons x xs => by simp only [canonList, DMs.depth, canon_depth x, canonList_depth xs]
theorem canonKVs_depth : (es : DMKVs) → (canonKVs es).depth = es.depth
  | .nil => rfl
  | .cons k v es => by
    simp only [canonKVs, insertKV_depth, DMKVs.depth, canon_depth v, canonKVs_depth es]
end

mutual
theorem canon_cost : (v : DM) → cost (canon v) = cost v
  | .null => rfl
  | .bool _ => rfl
  | .int _ => rfl
  | .float _ => rfl
  | .str _ => rfl
  | .bytes _ => rfl
  | .link _ => rfl
  | .list xs => by simp only [canon, cost, canonList_length, canonList_cost xs]
  | .map es => by simp only [canon, cost, canonKVs_length, canonKVs_cost es]
theorem canonList_cost : (xs : DMs) → costList (canonList xs) = costList xs
  | .nil => rfl
  | .cons x xs => by simp only [canonList, costList, canon_cost x, canonList_cost xs]
theorem canonKVs_cost : (es : DMKVs) → costKVs (canonKVs es) = costKVs es
  | .nil => rfl
  | .cons k v es => by
    simp only [canonKVs, insertKV_costKVs, costKVs, canon_cost v, canonKVs_cost es]
end

mutual
theorem canon_maxStr : (v : DM) → maxStr (canon v) = maxStr v
  | .null => rfl
  | .bool _ => rfl
  | .int _ => rfl
  | .float _ => rfl
  | .str _ => rfl
  | .bytes _ => rfl
  | .link _ => rfl
  | .list xs => by simp only [canon, maxStr, canonList_maxStr xs]
  | .map es => by simp only [canon, maxStr, canonKVs_maxStr es]
theorem canonList_maxStr : (xs : DMs) → maxStrList (canonList xs) = maxStrList xs
  | .nil => rfl
  | .cons x xs => by simp only [canonList, maxStrList, canon_maxStr x, canonList_maxStr xs]
theorem canonKVs_maxStr : (es : DMKVs) → maxStrKVs (canonKVs es) = maxStrKVs es
  | .nil => rfl
  | .cons k v es => by
    simp only [canonKVs, insertKV_maxStrKVs, maxStrKVs, canon_maxStr v, canonKVs_maxStr es]
end

mutual
theorem canon_hasLink : (v : DM) → hasLink (canon v) = hasLink v
  | .null => rfl
  | .bool _ => rfl
  | .int _ => rfl
  | .float _ => rfl
  | .str _ => rfl
  | .bytes _ => rfl
  | .link _ => rfl
  | .list xs => by simp only [canon, hasLink, canonList_hasLink xs]
  | .map es => by simp only [canon, hasLink, canonKVs_hasLink es]
theorem canonList_hasLink : (xs : DMs) → hasLinkList (canonList xs) = hasLinkList xs
  | .nil => rfl
  | .cons x xs => by simp only [canonList, hasLinkList, canon_hasLink x, canonList_hasLink xs]
theorem canonKVs_hasLink : (es : DMKVs) → hasLinkKVs (canonKVs es) = hasLinkKVs es
  | .nil => rfl
  | .cons k v es => by
    simp only [canonKVs, insertKV_hasLinkKVs, hasLinkKVs, canon_hasLink v, canonKVs_hasLink es]
end

theorem withinLimits_canon (cfg : DecCfg) (v : DM) : WithinLimits cfg (canon v) ↔ WithinLimits cfg v := by
  simp only [WithinLimits, canon_depth, canon_cost, canon_maxStr, canon_hasLink]

/-! ### (C) decoding the encoding gives the canonical form -/

theorem denotes_canonEncode (v : DM) (hn : v.NoDup) (he : encodable dagcborEnc v = true)
    (hf : finiteFloats v) : Denotes (canon v) (canonEncode v) :=
  denotes_encOrdered (canon v) (canon_NoDup v hn) (canon_encodable dagcborEnc v he) (canon_finiteFloats v hf)

theorem decode_encode_aux (cfg : DecCfg) (v : DM) : v.NoDup → encodable dagcborEnc v = true →
    finiteFloats v → WithinLimits cfg (canon v) → cfg.budget < 2 ^ 63 →
    decode cfg (enc dagcborEnc v) = .ok (canon v) := by
  intro hn he hf hl hB
  rw [enc_eq_canon v hn]
  exact decode_complete_aux cfg (canon v) (canonEncode v) (denotes_canonEncode v hn he hf) hl hB

/-- The same with the limits stated on the value itself rather than on its canonical form. -/
theorem decode_encode_aux' (cfg : DecCfg) (v : DM) (hn : v.NoDup) (he : encodable dagcborEnc v = true)
    (hf : finiteFloats v) (hl : WithinLimits cfg v) (hB : cfg.budget < 2 ^ 63) :
    decode cfg (enc dagcborEnc v) = .ok (canon v) :=
  decode_encode_aux cfg v hn he hf ((withinLimits_canon cfg v).mpr hl) hB

end Cbor
end Ipld
