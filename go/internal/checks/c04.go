package checks

import (
	"bytes"
	"encoding/hex"
	"errors"
	"fmt"
	"io"
	"math"
	"strconv"
	"strings"

	"github.com/ipld/go-ipld-prime/codec/dagjson"
	"github.com/ipld/go-ipld-prime/datamodel"
	"github.com/ipld/go-ipld-prime/node/basicnode"
	rjson "github.com/polydawn/refmt/json"
	"github.com/polydawn/refmt/tok"

	"verif/internal/core"
)

// C04 — DAG-JSON encoding round-trips with kinds preserved and is deterministic.
//
//   (D) byte level  : dagjson.Encode bytes == model (`json.enc`: marshal → refmt encoder state machine → string/int text,
//                     base64, CID text; float text is a parameter taken from the implementation, one float at a time)
//   (D) token level : the harness tokenises JSON text with refmt itself and feeds the token list both to dagjson.Unmarshal
//                     (through a replaying TokenSource) and to the model's two decoders (meaning and 7-slot window mechanism)
//   (D) strings     : emitString / parseString on strings incl. control, non-BMP, invalid UTF-8, escape variants
//   (O) oracle      : Decode(Encode v) == v with maps in bytewise key order and the same kinds; bytes identical for every
//                     insertion order and assembly plan.

func init() {
	core.Register(&core.Check{ID: "C04", Run: runC04, Replay: replayC04})
}

func dagjsonEncode(v core.Val, r *core.Rand) ([]byte, error) {
	n, err := buildVariant(v, r)
	if err != nil {
		return nil, err
	}
	var buf bytes.Buffer
	if err := dagjson.Encode(n, &buf); err != nil {
		return nil, err
	}
	return buf.Bytes(), nil
}

func collectFloats(v core.Val, out map[uint64]bool) {
	if v.K == 'd' {
		out[v.F] = true
	}
	for _, x := range v.L {
		collectFloats(x, out)
	}
	for _, e := range v.M {
		collectFloats(e.V, out)
	}
}

// floatTable: the float text parameter of the model, measured on the implementation one float at a time.
func floatTable(v core.Val) string {
	fs := map[uint64]bool{}
	collectFloats(v, fs)
	if len(fs) == 0 {
		return "-"
	}
	var parts []string
	for b := range fs {
		var buf bytes.Buffer
		if err := dagjson.Encode(basicnode.NewFloat(math.Float64frombits(b)), &buf); err != nil {
			continue
		}
		parts = append(parts, fmt.Sprintf("%016x=%s", b, hex.EncodeToString(buf.Bytes())))
	}
	if len(parts) == 0 {
		return "-"
	}
	return strings.Join(parts, ",")
}

// integralFloatText: does the value contain a float whose JSON text has no fraction and no exponent (K2)?
func hasIntegralFloat(v core.Val) bool {
	if v.K == 'd' {
		f := math.Float64frombits(v.F)
		var buf bytes.Buffer
		if err := dagjson.Encode(basicnode.NewFloat(f), &buf); err == nil && !bytes.ContainsAny(buf.Bytes(), ".eE") {
			return true
		}
	}
	for _, x := range v.L {
		if hasIntegralFloat(x) {
			return true
		}
	}
	for _, e := range v.M {
		if hasIntegralFloat(e.V) {
			return true
		}
	}
	return false
}

// k2Expected: v with every integral-text float replaced by the integer its text denotes (ok=false when that text is
// out of the int64 range, in which case the decoder reports a range error).
func k2Expected(v core.Val) (core.Val, bool) {
	switch v.K {
	case 'd':
		f := math.Float64frombits(v.F)
		var buf bytes.Buffer
		if err := dagjson.Encode(basicnode.NewFloat(f), &buf); err == nil && !bytes.ContainsAny(buf.Bytes(), ".eE") {
			i, err := strconv.ParseInt(buf.String(), 10, 64)
			if err != nil {
				return v, false
			}
			return core.Int(i), true
		}
		return v, true
	case '[':
		out := core.Val{K: '['}
		for _, x := range v.L {
			y, ok := k2Expected(x)
			if !ok {
				return v, false
			}
			out.L = append(out.L, y)
		}
		return out, true
	case '{':
		out := core.Val{K: '{'}
		for _, e := range v.M {
			y, ok := k2Expected(e.V)
			if !ok {
				return v, false
			}
			out.M = append(out.M, core.KV{K: e.K, V: y})
		}
		return out, true
	}
	return v, true
}

// reservedShape: does the value contain a map DAG-JSON reserves ({"/": string} or {"/": {"bytes": string}})?
func hasReservedShape(v core.Val) bool {
	if v.K == '{' && len(v.M) == 1 && string(v.M[0].K) == "/" {
		x := v.M[0].V
		if x.K == 's' {
			return true
		}
		if x.K == '{' && len(x.M) == 1 && string(x.M[0].K) == "bytes" && x.M[0].V.K == 's' {
			return true
		}
	}
	for _, x := range v.L {
		if hasReservedShape(x) {
			return true
		}
	}
	for _, e := range v.M {
		if hasReservedShape(e.V) {
			return true
		}
	}
	return false
}

func jsonDecodeTerm(opts dagjson.DecodeOptions, b []byte) string {
	first := jsonDecodeTermVia(opts, b, 0)
	h := 0
	for _, x := range b {
		h = h*31 + int(x)
	}
	if h < 0 {
		h = -h
	}
	v := 1 + h%3
	if other := jsonDecodeTermVia(opts, b, v); other != first {
		_, name := c03Reader(nil, v)
		return first + "   BUT through a " + name + " reader: " + other
	}
	return first
}

func jsonDecodeTermVia(opts dagjson.DecodeOptions, b []byte, variant int) string {
	var out string
	err, panicked, pv := core.Catch(func() error {
		nb := basicnode.Prototype.Any.NewBuilder()
		rd, _ := c03Reader(b, variant)
		if err := opts.Decode(nb, rd); err != nil {
			if errors.Is(err, dagjson.ErrDecodeDepthExceeded) {
				out = "err depth"
			} else {
				out = "err reject"
			}
			return nil
		}
		out = "ok " + termOf(nb.Build())
		return nil
	})
	if panicked {
		return fmt.Sprintf("panic %v", pv)
	}
	if err != nil {
		return "err " + err.Error()
	}
	return out
}

// ---- token level ------------------------------------------------------------------------------

func tokenise(b []byte) ([]tok.Token, error) {
	d := rjson.NewDecoder(bytes.NewReader(b))
	var out []tok.Token
	for {
		var t tok.Token
		done, err := d.Step(&t)
		if err != nil {
			return out, err
		}
		out = append(out, t)
		if done {
			return out, nil
		}
	}
}

type replaySource struct {
	toks  []tok.Token
	i     int
	depth int
}

func (r *replaySource) Step(t *tok.Token) (bool, error) {
	if r.i >= len(r.toks) {
		return true, io.EOF
	}
	*t = r.toks[r.i]
	r.i++
	switch t.Type {
	case tok.TMapOpen, tok.TArrOpen:
		r.depth++
	case tok.TMapClose, tok.TArrClose:
		r.depth--
	}
	return r.depth <= 0, nil
}
func (r *replaySource) Reset() {}

func tokLine(ts []tok.Token) string {
	parts := make([]string, len(ts))
	for i, t := range ts {
		switch t.Type {
		case tok.TMapOpen:
			parts[i] = "{"
		case tok.TMapClose:
			parts[i] = "}"
		case tok.TArrOpen:
			parts[i] = "["
		case tok.TArrClose:
			parts[i] = "]"
		case tok.TNull:
			parts[i] = "n"
		case tok.TBool:
			if t.Bool {
				parts[i] = "t"
			} else {
				parts[i] = "f"
			}
		case tok.TInt:
			parts[i] = fmt.Sprintf("i%d", t.Int)
		case tok.TFloat64:
			b := math.Float64bits(t.Float64)
			parts[i] = fmt.Sprintf("d%016x", b)
		case tok.TString:
			parts[i] = "s" + hex.EncodeToString([]byte(t.Str))
		default:
			parts[i] = "?"
		}
	}
	return strings.Join(parts, " ")
}

func unmarshalToks(ts []tok.Token, opts dagjson.DecodeOptions) string {
	var out string
	err, panicked, pv := core.Catch(func() error {
		nb := basicnode.Prototype.Any.NewBuilder()
		src := &replaySource{toks: ts}
		if err := dagjson.Unmarshal(nb, src, opts); err != nil {
			if errors.Is(err, dagjson.ErrDecodeDepthExceeded) {
				out = "err depth"
			} else {
				out = "err reject"
			}
			return nil
		}
		if src.i != len(ts) {
			out = "err reject" // tokens left over: Decode would object at byte level
			return nil
		}
		out = "ok " + termOf(nb.Build())
		return nil
	})
	if panicked {
		return fmt.Sprintf("panic %v", pv)
	}
	if err != nil {
		return "err " + err.Error()
	}
	return out
}

func sTok(s string) tok.Token { return tok.Token{Type: tok.TString, Str: s} }

// genTokStream: token streams around the reserved forms (and random truncations of them).
func genTokStream(r *core.Rand, depth int) []tok.Token {
	mo, mc := tok.Token{Type: tok.TMapOpen, Length: -1}, tok.Token{Type: tok.TMapClose}
	ao, ac := tok.Token{Type: tok.TArrOpen, Length: -1}, tok.Token{Type: tok.TArrClose}
	scalar := func() tok.Token {
		switch r.Intn(6) {
		case 0:
			return tok.Token{Type: tok.TNull}
		case 1:
			return tok.Token{Type: tok.TBool, Bool: r.Bool()}
		case 2:
			return tok.Token{Type: tok.TInt, Int: int64(r.Intn(100)) - 50}
		case 3:
			return tok.Token{Type: tok.TFloat64, Float64: 1.5}
		case 4:
			return sTok([]string{"/", "bytes", "AQL/", "AQI", "AQI=", "!!", "x", "QmYwAPJzv5CZsnA625s3Xf2nemtYgPpHdWEz79ojWnPbdG", "bafkqaaik"}[r.Intn(9)])
		}
		return sTok(string(core.GenStrBytes(r, core.GenCfg{ValidUTF8: true})))
	}
	var value func(d int) []tok.Token
	value = func(d int) []tok.Token {
		if d > 3 {
			return []tok.Token{scalar()}
		}
		switch r.Intn(9) {
		case 0: // link form
			return []tok.Token{mo, sTok("/"), sTok([]string{"QmYwAPJzv5CZsnA625s3Xf2nemtYgPpHdWEz79ojWnPbdG", "bafkqaaik", "notacid", "bafkreigh2akiscaildcqabsyg3dfr6chu3fgpregiymsck7e7aqa4s52zy"}[r.Intn(4)]), mc}
		case 1: // bytes form
			return []tok.Token{mo, sTok("/"), mo, sTok("bytes"), sTok([]string{"AQL/", "", "AQI", "AQI=", "AQ==", "!!", "A"}[r.Intn(7)]), mc, mc}
		case 2: // near-link: extra entry after
			out := []tok.Token{mo, sTok("/"), sTok("x")}
			out = append(out, sTok("k"))
			out = append(out, value(d+1)...)
			return append(out, mc)
		case 3: // near-bytes: inner map has more / other content
			out := []tok.Token{mo, sTok("/"), mo, sTok([]string{"bytes", "bytes", "/", "x"}[r.Intn(4)])}
			out = append(out, value(d+1)...)
			if r.Bool() {
				out = append(out, sTok("z"))
				out = append(out, value(d+1)...)
			}
			out = append(out, mc)
			if r.Bool() {
				out = append(out, sTok("y"))
				out = append(out, value(d+1)...)
			}
			return append(out, mc)
		case 4: // map whose first key is "/" with arbitrary value
			out := []tok.Token{mo, sTok("/")}
			out = append(out, value(d+1)...)
			for n := r.Intn(3); n > 0; n-- {
				out = append(out, sTok(fmt.Sprintf("k%d", n)))
				out = append(out, value(d+1)...)
			}
			return append(out, mc)
		case 5:
			out := []tok.Token{ao}
			for n := r.Intn(4); n > 0; n-- {
				out = append(out, value(d+1)...)
			}
			return append(out, ac)
		case 6:
			out := []tok.Token{mo}
			for n := r.Intn(4); n > 0; n-- {
				out = append(out, sTok(fmt.Sprintf("%c", 'a'+r.Intn(5))))
				out = append(out, value(d+1)...)
			}
			return append(out, mc)
		default:
			return []tok.Token{scalar()}
		}
	}
	ts := value(depth)
	switch r.Intn(8) {
	case 0:
		if len(ts) > 1 {
			ts = ts[:r.Intn(len(ts))] // truncated stream
		}
	case 1:
		if len(ts) > 1 {
			i := r.Intn(len(ts))
			ts = append(append(append([]tok.Token{}, ts[:i]...), scalar()), ts[i:]...) // stray token
		}
	}
	if len(ts) == 0 {
		ts = []tok.Token{scalar()}
	}
	return ts
}

// ---- the check --------------------------------------------------------------------------------

func c04Values(c *core.Ctx, vals []core.Val) error {
	lines := make([]string, len(vals))
	for i, v := range vals {
		lines[i] = "json.enc dag " + floatTable(v) + " " + v.Term()
	}
	outs, err := core.RunDriver(lines)
	if err != nil {
		return err
	}
	var tokLines, tokImpl, tokCase []string
	for i, v := range vals {
		r := c.Rand.Fork()
		c.Count(lines[i], hasMapWith2(v) || v.Size() >= 4)
		c.Trace(1)
		c.Dist(fmt.Sprintf("size<=%d", bucket(v.Size())))
		if i < 2 {
			c.Sample(map[string]string{"case": lines[i], "model": outs[i]})
		}
		b0, err := dagjsonEncode(v, nil)
		if err != nil {
			c.Fail("C04/encode-refused", core.Replay{Kind: "oracle", Case: lines[i], Impl: err.Error()})
			continue
		}
		// determinism across insertion orders / plans
		for k := 0; k < 2; k++ {
			b1, err := dagjsonEncode(core.Shuffle(v, r), r)
			if err != nil || !bytes.Equal(b0, b1) {
				c.Fail("C04/order-dependent", core.Replay{Kind: "oracle", Case: lines[i], Impl: string(b1), Expected: string(b0), Detail: "another insertion order / plan encodes differently"})
			}
		}
		// D: bytes
		if outs[i] != "ok "+hexArg(b0) {
			c.Fail("C04/corr-bytes", core.Replay{Kind: "correspondence", Case: lines[i], Impl: hex.EncodeToString(b0) + "  " + string(b0), Model: outs[i]})
		}
		// O: round trip with kinds
		want := "ok " + v.Sorted(core.LessLex).Term()
		got := jsonDecodeTerm(dagjson.DecodeOptions{ParseLinks: true, ParseBytes: true}, b0)
		if got != want {
			sig := "C04/roundtrip"
			if hasIntegralFloat(v) {
				// K2 precisely: the only difference is that floats whose text has no fraction/exponent come back as
				// integers (or make the decoder fail with a range error when that text exceeds int64)
				if exp, ok := k2Expected(v); ok && got == "ok "+exp.Sorted(core.LessLex).Term() {
					sig = "C04/float-integral-emitted-as-int"
				} else if !ok && got == "err reject" {
					sig = "C04/float-integral-emitted-as-int"
				}
			}
			c.Fail(sig, core.Replay{Kind: "oracle", Case: lines[i], Impl: got, Expected: want, Detail: "Decode(Encode(v)) differs from v; text: " + string(b0)})
		}
		// token level D on the implementation's own text
		if ts, err := tokenise(b0); err == nil {
			tokLines = append(tokLines, "json.untok lb 0 "+tokLine(ts))
			tokImpl = append(tokImpl, unmarshalToks(ts, dagjson.DecodeOptions{ParseLinks: true, ParseBytes: true}))
			tokCase = append(tokCase, "text "+string(b0))
		}
	}
	return c04TokCompare(c, tokLines, tokImpl, tokCase)
}

func c04TokCompare(c *core.Ctx, lines, impl, cases []string) error {
	outs, err := core.RunDriver(lines)
	if err != nil {
		return err
	}
	for i := range lines {
		m := outs[i]
		if strings.HasPrefix(m, "err reject") {
			m = "err reject"
		}
		if strings.HasPrefix(m, "WINDIFF") {
			c.Fail("C04/model-window-differs-from-meaning", core.Replay{Kind: "correspondence", Case: lines[i], Model: outs[i], Impl: impl[i]})
			continue
		}
		if strings.HasPrefix(impl[i], "panic") {
			c.Fail("C04/panic", core.Replay{Kind: "oracle", Case: lines[i], Impl: impl[i]})
			continue
		}
		if m != impl[i] {
			c.Fail("C04/corr-unmarshal-tokens", core.Replay{Kind: "correspondence", Case: lines[i], Impl: impl[i], Model: outs[i], Detail: cases[i]})
		}
	}
	return nil
}

func c04Tokens(c *core.Ctx, n int) error {
	var lines, impl, cases []string
	for i := 0; i < n; i++ {
		ts := genTokStream(c.Rand, 0)
		flags, opts := "lb", dagjson.DecodeOptions{ParseLinks: true, ParseBytes: true}
		switch c.Rand.Intn(6) {
		case 0:
			flags, opts = "l", dagjson.DecodeOptions{ParseLinks: true}
		case 1:
			flags, opts = "b", dagjson.DecodeOptions{ParseBytes: true}
		case 2:
			flags, opts = "-", dagjson.DecodeOptions{}
		}
		depth := 0
		if c.Rand.Chance(1, 6) {
			depth = 1 + c.Rand.Intn(3)
			opts.MaxDepth = int64(depth)
		}
		line := fmt.Sprintf("json.untok %s %d %s", flags, depth, tokLine(ts))
		lines = append(lines, line)
		impl = append(impl, unmarshalToks(ts, opts))
		cases = append(cases, "generated token stream")
		c.Count(line, len(ts) >= 4)
		c.Dist("tokens:" + flags)
		if strings.HasPrefix(impl[len(impl)-1], "ok") {
			c.Dist("tokens:accepted")
		} else {
			c.Dist("tokens:rejected")
		}
	}
	return c04TokCompare(c, lines, impl, cases)
}

func c04Strings(c *core.Ctx, n int) error {
	var lines, want, kind []string
	add := func(line, w, k string) { lines = append(lines, line); want = append(want, w); kind = append(kind, k) }
	for i := 0; i < n; i++ {
		cfg := core.GenCfg{ValidUTF8: c.Rand.Chance(2, 3), LongStr: true}
		s := core.GenStrBytes(c.Rand, cfg)
		if c.Rand.Chance(1, 4) {
			s = append(s, []byte{0x7f, 0xe2, 0x80, 0xa8, 0xe2, 0x80, 0xa9, 0xef, 0xbf, 0xbd, 0x1f, 0x00, '\\', '"', '/'}[c.Rand.Intn(15)])
		}
		var buf bytes.Buffer
		if err := dagjson.Encode(basicnode.NewString(string(s)), &buf); err != nil {
			return err
		}
		add("json.str "+hexArg(s), hex.EncodeToString(buf.Bytes()), "emitString")
		// decode direction: escape variants
		pieces := []string{"a", "\\u00e9", "\\u00E9", "\\/", "\\b", "\\f", "\\n", "\\r", "\\t", "\\\\", "\\\"", "\\ud83d\\ude00", "\\ud83d", "\\ude00", "\\ud83dx", "\\u0000", "é", "\xff", "\xc3", "😀", "\\u2028", "\xed\xa0\x80"}
		var body string
		for k := c.Rand.Intn(5); k >= 0; k-- {
			body += pieces[c.Rand.Intn(len(pieces))]
		}
		got := jsonDecodeTerm(dagjson.DecodeOptions{}, []byte(`"`+body+`"`))
		if strings.HasPrefix(got, "ok s") {
			w := got[4:]
			if w == "" {
				w = "-"
			}
			add("json.unstr "+hexArg([]byte(body)), w, "parseString")
		}
	}
	outs, err := core.RunDriver(lines)
	if err != nil {
		return err
	}
	for i := range lines {
		c.Count(lines[i], true)
		c.Dist("strings:" + kind[i])
		if outs[i] != want[i] {
			c.Fail("C04/corr-string-"+kind[i], core.Replay{Kind: "correspondence", Case: lines[i], Impl: want[i], Model: outs[i]})
		}
	}
	return nil
}

func c04Gen(c *core.Ctx) core.Val {
	cfg := core.DefaultGen
	cfg.ValidUTF8, cfg.BigUint, cfg.LongStr = true, false, false
	for {
		v := core.GenVal(c.Rand, cfg, 0)
		if !hasReservedShape(v) {
			return v
		}
	}
}

func runC04(c *core.Ctx) error {
	c.Rule = "values in the DAG-JSON domain (finite floats incl. integral values, ±0, exponent cut-offs, subnormals; valid-UTF-8 strings/keys with control and non-BMP characters; bytes; links; int64) minus the two reserved shapes, each in 3 insertion orders/plans; token streams around the reserved forms ({\"/\":…} with extra entries, inner maps with other keys, bad base64, bad CIDs, truncations, stray tokens) under all ParseLinks/ParseBytes/MaxDepth settings; string literals with every escape form, lone surrogates and invalid UTF-8; non-trivial = a map with >= 2 entries or >= 4 nodes / tokens; distinct by case line"
	c.Explanation = "theorems: tok_roundtrip, marshalTok_perm, lookahead_total (the 7-slot window mechanism equals the recursive-descent meaning), string_roundtrip, int_roundtrip, base64 round trip"
	c.Assumptions = []string{"strconv shortest float formatting/parsing and go-cid multibase decoding are parameters of the model (float text measured on the implementation one float at a time)", "the refmt JSON tokenizer (bytes → tokens) is not modelled: token-level correspondence uses refmt itself to tokenise"}
	// K2 witness
	{
		b, _ := dagjsonEncode(core.Float(1), nil)
		got := jsonDecodeTerm(dagjson.DecodeOptions{ParseLinks: true, ParseBytes: true}, b)
		c.KnownWitness("C04/float-integral-emitted-as-int", got == "ok i1", "Decode(Encode(float 1.0)) = "+got+" (text "+string(b)+")")
	}
	// results of the helper API are the caller's (shared with C02): several encodes in a row, every result kept
	c02HelperHistories(c, c.Rand.Fork(), c.Pick(150, 10000), dagjson.Encode, func(nd datamodel.Node) ([]byte, error) {
		var buf bytes.Buffer
		err := dagjson.Encode(nd, &buf)
		return buf.Bytes(), err
	}, "C04")
	n := c.Pick(3000, 150000)
	for done := 0; done < n; {
		k := min(5000, n-done)
		vals := make([]core.Val, k)
		for i := range vals {
			vals[i] = c04Gen(c)
		}
		if err := c04Values(c, vals); err != nil {
			return err
		}
		done += k
	}
	if err := c04Tokens(c, c.Pick(6000, 400000)); err != nil {
		return err
	}
	return c04Strings(c, c.Pick(2000, 100000))
}

func replayC04(c *core.Ctx, rp core.Replay) error {
	f := strings.Fields(rp.Case)
	if len(f) >= 4 && f[0] == "json.enc" {
		v, err := core.ParseTermString(strings.Join(f[3:], " "))
		if err != nil {
			return err
		}
		return c04Values(c, []core.Val{v})
	}
	return fmt.Errorf("replay by piping the case to the driver: echo '%s' | lean/.lake/build/bin/driver", rp.Case)
}
