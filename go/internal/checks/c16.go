package checks

import (
	"bytes"
	"encoding/hex"
	"fmt"
	"io"
	"strconv"
	"strings"

	"github.com/ipld/go-ipld-prime/codec/dagcbor"
	"github.com/ipld/go-ipld-prime/datamodel"
	"github.com/ipld/go-ipld-prime/linking"
	cidlink "github.com/ipld/go-ipld-prime/linking/cid"
	"github.com/ipld/go-ipld-prime/node/basicnode"
	"github.com/ipld/go-ipld-prime/traversal"
	"github.com/ipld/go-ipld-prime/traversal/selector"
	mh "github.com/multiformats/go-multihash"

	"verif/internal/core"
)

// C16 — transforms are pure functional updates, also across links.
//
//   impl observation : FocusedTransform result with every link resolved through the (updated) store; number of blocks
//                      written; the input tree re-read afterwards; WalkTransforming result
//   (D) correspondence: == the Lean model of focusedTransform (`xform.focus`); WalkTransforming == the Lean model of
//                       walkTransforming (`xform.walkt`: outcome class, result term with links NOT resolved, the callback's
//                       calls in order with path and node), inside one block and across links under plain / visit-once /
//                       skipping loader / both, with and without node and link budgets, identity and successor callbacks
//   (O) oracle        : result == reference update of the abstract value computed in Go (replace / insert missing key /
//                       append via "-" / create parents / remove), every other entry equal and in its original order; the
//                       input reads back unchanged; identity transform returns an equal tree; the callback receives the node
//                       currently at the target and the target's path; across links: loading from the new root reproduces the
//                       update and links not on the path are untouched; WalkTransforming within one block equals the
//                       reference map over matched positions.

func init() {
	core.Register(&core.Check{ID: "C16", Run: runC16, Replay: replayC16})
}

// expand resolves links through blocks (fuel-bounded)
func expandVal(blocks map[string]core.Val, v core.Val, fuel int) core.Val {
	if fuel <= 0 {
		return v
	}
	switch v.K {
	case 'l':
		if b, ok := blocks[string(v.S)]; ok {
			return expandVal(blocks, b, fuel-1)
		}
		return v
	case '[':
		out := core.Val{K: '['}
		for _, x := range v.L {
			out.L = append(out.L, expandVal(blocks, x, fuel-1))
		}
		return out
	case '{':
		out := core.Val{K: '{'}
		for _, e := range v.M {
			out.M = append(out.M, core.KV{K: e.K, V: expandVal(blocks, e.V, fuel-1)})
		}
		return out
	}
	return v
}

// refUpdate: the reference update on the abstract, link-free value. fn: prev (nil = nothing there) → replacement (nil = remove).
// Returns (result, ok); ok=false when the update is an error (missing parent without createParents, scalar on the way,
// non-numeric or out-of-bounds list segment).
func refUpdate(v *core.Val, path []string, fn func(prev *core.Val) *core.Val, createParents bool) (*core.Val, bool) {
	if len(path) == 0 {
		return fn(v), true
	}
	seg, rest := path[0], path[1:]
	if v == nil {
		inner, ok := refUpdate(nil, rest, fn, createParents)
		if !ok || inner == nil {
			return nil, false
		}
		m := core.Map(core.KV{K: []byte(seg), V: *inner})
		return &m, true
	}
	switch v.K {
	case '{':
		out := core.Val{K: '{'}
		found := false
		for _, e := range v.M {
			if string(e.K) != seg {
				out.M = append(out.M, e)
				continue
			}
			found = true
			ev := e.V
			inner, ok := refUpdate(&ev, rest, fn, createParents)
			if !ok {
				return nil, false
			}
			if inner == nil {
				if len(rest) > 0 {
					return nil, false
				}
				continue
			}
			out.M = append(out.M, core.KV{K: e.K, V: *inner})
		}
		if !found {
			if len(rest) > 0 && !createParents {
				return nil, false
			}
			inner, ok := refUpdate(nil, rest, fn, createParents)
			if !ok {
				return nil, false
			}
			if inner != nil {
				out.M = append(out.M, core.KV{K: []byte(seg), V: *inner})
			} else if len(rest) > 0 {
				return nil, false
			}
		}
		return &out, true
	case '[':
		idx, isNum := parseGoInt(seg)
		if !isNum {
			if seg != "-" {
				return nil, false
			}
			idx = -1
		}
		out := core.Val{K: '['}
		if idx >= 0 {
			if idx >= int64(len(v.L)) {
				return nil, false
			}
			for i, x := range v.L {
				if int64(i) != idx {
					out.L = append(out.L, x)
					continue
				}
				xv := x
				inner, ok := refUpdate(&xv, rest, fn, createParents)
				if !ok {
					return nil, false
				}
				if inner == nil {
					if len(rest) > 0 {
						return nil, false
					}
					continue
				}
				out.L = append(out.L, *inner)
			}
			return &out, true
		}
		out.L = append(out.L, v.L...)
		inner, ok := refUpdate(nil, rest, fn, createParents)
		if !ok {
			return nil, false
		}
		if inner != nil {
			out.L = append(out.L, *inner)
		} else if len(rest) > 0 {
			return nil, false
		}
		return &out, true
	}
	return nil, false
}

func parseGoInt(s string) (int64, bool) {
	var i int64
	if s == "" {
		return 0, false
	}
	neg := false
	t := s
	if t[0] == '+' || t[0] == '-' {
		neg = t[0] == '-'
		t = t[1:]
	}
	if t == "" {
		return 0, false
	}
	for _, ch := range t {
		if ch < '0' || ch > '9' {
			return 0, false
		}
		i = i*10 + int64(ch-'0')
		if i > 1<<40 {
			return 0, false
		}
	}
	if neg {
		i = -i
	}
	return i, true
}

func c16Case(c *core.Ctx, r *core.Rand, idx int, lines *[]string, impls *[]string) error {
	g, err := core.GenGraph(r, r.Intn(5))
	if err != nil {
		return err
	}
	root, err := core.BuildBasic(g.Root, nil)
	if err != nil {
		return err
	}
	// candidate paths: visit paths of an explore-all walk, mutated
	U := core.RunWalk(g, core.SelAll(), core.WalkCfg{}, false)
	var path []string
	if len(U.Visits) > 0 && r.Chance(4, 5) {
		path = append(path, U.Visits[r.Intn(len(U.Visits))].Path...)
	}
	switch r.Intn(6) {
	case 0:
		path = append(path, []string{"newkey", "-", "a", "0", "7", "zz"}[r.Intn(6)])
	case 1:
		path = append(path, "np1", []string{"np2", "-", "0"}[r.Intn(3)])
	}
	kind := []string{"id", "del", "const", "wrap", "const"}[r.Intn(5)]
	if len(path) == 0 {
		// the root position is rebuilt with the root's own prototype: only a replacement of the same kind is acceptable
		// there, and "removing the root" is not an update of a position; the identity is what remains to check
		kind = "id"
	}
	cp := r.Chance(1, 2)
	val := core.GenVal(r, core.GenCfg{MaxDepth: 2, MaxWidth: 2, Bytes: true}, 1)
	blocks := map[string]core.Val{}
	for k, v := range g.Vals {
		blocks[k] = v
	}
	// the real transform
	written := 0
	lsys := g.LinkSystem(nil, nil)
	if r.Chance(1, 3) {
		// a reifier that shows every block differently from its stored form (first entry / element hidden): the
		// transform works on what is stored and stores what it rebuilt, so the reifier must not show in the result
		lsys.NodeReifier = core.HidingReifier
		c.Dist("focused:with-node-reifier")
	}
	lsys.StorageWriteOpener = func(linking.LinkContext) (io.Writer, linking.BlockWriteCommitter, error) {
		var buf bytes.Buffer
		return &buf, func(l datamodel.Link) error {
			written++
			cb := string(l.(cidlink.Link).Cid.Bytes())
			// whatever link the transform stores a block under names that block: the digest is the block's hash (for an
			// inline link: the block itself, whole)
			if dm, err := mh.Decode(l.(cidlink.Link).Cid.Hash()); err == nil {
				want, _ := mh.Sum(buf.Bytes(), dm.Code, -1)
				if wd, err2 := mh.Decode(want); err2 == nil && dm.Code != mh.IDENTITY {
					want, _ = mh.Sum(buf.Bytes(), dm.Code, dm.Length)
					wd, _ = mh.Decode(want)
					if !bytes.Equal(wd.Digest, dm.Digest) {
						c.Fail("C16/stored-block-does-not-hash-to-its-link", core.Replay{Kind: "oracle", Case: "xform.focus-store " + g.StoreTokens() + " ROOT " + g.Root.Term(), Impl: hex.EncodeToString(dm.Digest), Expected: hex.EncodeToString(wd.Digest)})
					}
				} else if dm.Code == mh.IDENTITY && !bytes.Equal(dm.Digest, buf.Bytes()) {
					c.Fail("C16/stored-block-does-not-hash-to-its-link", core.Replay{Kind: "oracle", Case: "xform.focus-store " + g.StoreTokens() + " ROOT " + g.Root.Term(), Impl: hex.EncodeToString(dm.Digest), Expected: hex.EncodeToString(buf.Bytes()),
						Detail: "an inline (identity-hashed) link must carry the whole re-stored block"})
				}
			}
			g.Blocks[cb] = append([]byte{}, buf.Bytes()...)
			nb := basicnode.Prototype.Any.NewBuilder()
			if err := dagcbor.Decode(nb, bytes.NewReader(buf.Bytes())); err != nil {
				return err
			}
			v, err := core.ReadNode(nb.Build())
			if err != nil {
				return err
			}
			blocks[cb] = v
			return nil
		}, nil
	}
	var seenPrev []string
	var seenPath []string
	fn := func(p traversal.Progress, prev datamodel.Node) (datamodel.Node, error) {
		if prev == nil {
			seenPrev = append(seenPrev, "nil")
		} else {
			seenPrev = append(seenPrev, termOf(prev))
		}
		seenPath = append(seenPath, p.Path.String())
		switch kind {
		case "id":
			return prev, nil
		case "del":
			return nil, nil
		case "const":
			return core.BuildBasic(val, nil)
		default: // wrap
			if prev == nil {
				return core.BuildBasic(val, nil)
			}
			nb := basicnode.Prototype.Any.NewBuilder()
			la, _ := nb.BeginList(1)
			la.AssembleValue().AssignNode(prev)
			la.Finish()
			return nb.Build(), nil
		}
	}
	// blocks are loaded into the generic prototype, or into the kind-specific basicnode prototype of the block's root
	byKind := r.Chance(1, 3)
	cfg := &traversal.Config{LinkSystem: lsys, LinkTargetNodePrototypeChooser: func(l datamodel.Link, _ linking.LinkContext) (datamodel.NodePrototype, error) {
		if byKind {
			if cl, ok := l.(cidlink.Link); ok {
				if bv, ok := blocks[string(cl.Cid.Bytes())]; ok {
					switch bv.K {
					case '{':
						return basicnode.Prototype.Map, nil
					case '[':
						return basicnode.Prototype.List, nil
					}
				}
			}
		}
		return basicnode.Prototype.Any, nil
	}}
	beforeTerm := termOf(root)
	var res datamodel.Node
	var terr error
	func() {
		defer func() {
			if rr := recover(); rr != nil {
				terr = fmt.Errorf("panic: %v", rr)
			}
		}()
		res, terr = traversal.Progress{Cfg: cfg}.FocusedTransform(root, mkPathMixed(path, r), fn, cp)
	}()
	line := fmt.Sprintf("xform.focus %s %s %s %s ROOT %s VAL %s", tfs(cp), core.PathArg(path), kind, g.StoreTokens(), g.Root.Term(), val.Term())
	caseOK := true
	var impl string
	switch {
	case terr != nil && strings.HasPrefix(terr.Error(), "panic"):
		impl = "panic"
	case terr != nil:
		impl = "err"
	case res == nil:
		impl = "nil"
	default:
		rv, rerr := readNodeSafe(res)
		if rerr != nil {
			impl = "nil" // a nil entry inside the result
		} else {
			impl = fmt.Sprintf("ok %s w=%d", expandVal(blocks, rv, 50).Term(), written)
		}
	}
	*lines = append(*lines, line)
	*impls = append(*impls, impl)
	c.Count(line, len(path) >= 2)
	c.Dist("fn:" + kind)
	c.Dist("impl:" + strings.Fields(impl)[0])
	if impl == "panic" {
		caseOK = false // classified after the model has answered (see the batch loop)
	}
	// O: input unchanged
	if termOf(root) != beforeTerm {
		c.Fail("C16/input-mutated", core.Replay{Kind: "oracle", Case: line, Impl: termOf(root), Expected: beforeTerm})
	}
	// O: reference update on the expanded value
	if caseOK {
		exp := expandVal(g.Vals, g.Root, 50)
		var target *core.Val
		rfn := func(prev *core.Val) *core.Val {
			target = prev
			switch kind {
			case "id":
				return prev
			case "del":
				return nil
			case "const":
				return &val
			}
			if prev == nil {
				return &val
			}
			w := core.List(*prev)
			return &w
		}
		want, ok := refUpdate(&exp, path, rfn, cp)
		removeOfMissing := kind == "del" || (kind == "id")
		switch {
		case !ok:
			if strings.HasPrefix(impl, "ok") && !(removeOfMissing && target == nil) {
				c.Fail("C16/update-accepted-where-reference-fails", core.Replay{Kind: "oracle", Case: line, Impl: impl, Expected: "error"})
			}
		case want == nil:
			// the root itself removed: nothing sensible to compare
		default:
			// blocks re-stored on the way are read back in the codec's canonical entry order: the reference (which knows
			// nothing of block boundaries) is compared up to entry order; exact order is the model's business (D)
			wantS := fmt.Sprintf("ok %s", want.Sorted(core.LessCbor).Term())
			implSorted := impl
			if f := strings.Fields(impl); len(f) > 2 && f[0] == "ok" {
				if iv, err := core.ParseTermString(strings.Join(f[1:len(f)-1], " ")); err == nil {
					implSorted = "ok " + iv.Sorted(core.LessCbor).Term() + " " + f[len(f)-1]
				}
			}
			if !strings.HasPrefix(implSorted, wantS+" w=") {
				if removeOfMissing && target == nil && len(path) > 1 {
					c.Dist("skipped:remove-of-missing-nested")
				} else {
					c.Fail("C16/result-differs-from-reference-update", core.Replay{Kind: "oracle", Case: line, Impl: impl, Expected: wantS})
				}
			}
			// the callback saw the node currently at the target, exactly once, at the target's path
			if len(seenPrev) != 1 {
				c.Fail("C16/callback-count", core.Replay{Kind: "oracle", Case: line, Impl: fmt.Sprint(seenPrev), Expected: "one call"})
			} else {
				wantPrev := "nil"
				if target != nil {
					wantPrev = target.Term()
				}
				gotPrev := seenPrev[0]
				if gotPrev != "nil" {
					if pv, err := core.ParseTermString(gotPrev); err == nil {
						gotPrev = expandVal(blocks, pv, 50).Term()
					}
				}
				if gotPrev != wantPrev {
					c.Fail("C16/callback-sees-other-node", core.Replay{Kind: "oracle", Case: line, Impl: gotPrev, Expected: wantPrev})
				}
			}
		}
	}
	return nil
}

func readNodeSafe(n datamodel.Node) (v core.Val, err error) {
	defer func() {
		if r := recover(); r != nil {
			err = fmt.Errorf("panic %v", r)
		}
	}()
	return core.ReadNode(n)
}

// ---- (D) correspondence for traversal.WalkTransforming: the Lean model `WalkT.walkT` through the driver's `xform.walkt` ----

// wtBatch collects the cases of the walking-transform correspondence of one run (driver line, implementation's answer).
type wtBatch struct{ lines, impls []string }

// walkTLine: the driver line for one case: `xform.walkt <id|succ>` followed by the configuration / graph / selector
// encoding of `walk.run`.
func walkTLine(mode string, g *core.Graph, spec core.Val, w core.WalkCfg) string {
	return "xform.walkt " + mode + strings.TrimPrefix(walkLine(g, spec, w), "walk.run")
}

// implWalkT runs the real WalkTransforming and prints what the driver prints for the model: the outcome class, the result
// term (read through the public Node API; links NOT resolved, so an inlined block shows as its content and a link that was
// left in place as the link), and the callback's calls in order, each with its path and the node it was handed.
// "" = the harness could not set the case up.
func implWalkT(mode string, g *core.Graph, spec core.Val, w core.WalkCfg) string {
	s, st := core.CompileSel(spec)
	if st != "" {
		if strings.HasPrefix(st, "harness:") {
			return ""
		}
		return st
	}
	root, err := core.BuildBasic(g.Root, nil)
	if err != nil {
		return ""
	}
	var calls []string
	fn := func(p traversal.Progress, m datamodel.Node) (datamodel.Node, error) {
		var segs []string
		for _, seg := range p.Path.Segments() {
			segs = append(segs, seg.String())
		}
		calls = append(calls, core.PathArg(segs)+" "+termOf(m))
		if mode == "succ" && m.Kind() == datamodel.Kind_Int {
			if i, err := m.AsInt(); err == nil && i < 1<<40 && i > -(1<<40) {
				return basicnode.NewInt(i + 1), nil
			}
		}
		return m, nil
	}
	cfg := &traversal.Config{LinkSystem: g.LinkSystem(nil, w.Skip), LinkVisitOnlyOnce: w.Once,
		LinkTargetNodePrototypeChooser: func(datamodel.Link, linking.LinkContext) (datamodel.NodePrototype, error) {
			return basicnode.Prototype.Any, nil
		}}
	prog := traversal.Progress{Cfg: cfg}
	if w.NodeBudget != nil || w.LinkBudget != nil {
		b := &traversal.Budget{NodeBudget: 1 << 60, LinkBudget: 1 << 60}
		if w.NodeBudget != nil {
			b.NodeBudget = *w.NodeBudget
		}
		if w.LinkBudget != nil {
			b.LinkBudget = *w.LinkBudget
		}
		prog.Budget = b
	}
	out := func() (out string) {
		defer func() {
			if x := recover(); x != nil {
				out = "panic"
			}
		}()
		res, err := prog.WalkTransforming(root, s, fn)
		if err != nil {
			return core.ClassifyWalkErr(err)
		}
		return "ok " + termOf(res)
	}()
	return out + " CALLS " + strings.Join(calls, " | ")
}

// parseWalkTLine rebuilds graph, selector spec and controls from an `xform.walkt` driver line (blocks are re-encoded; a
// block whose link does not come out as written makes the line not re-executable).
func parseWalkTLine(line string) (mode string, g *core.Graph, spec core.Val, w core.WalkCfg, err error) {
	f := strings.Fields(line)
	if len(f) < 9 || f[0] != "xform.walkt" || f[7] != "STORE" {
		return "", nil, core.Val{}, w, fmt.Errorf("not an xform.walkt line")
	}
	mode = f[1]
	if f[2] != "-" {
		nb, e := strconv.ParseInt(f[2], 10, 64)
		if e != nil {
			return "", nil, core.Val{}, w, e
		}
		w.NodeBudget = &nb
	}
	if f[3] != "-" {
		lb, e := strconv.ParseInt(f[3], 10, 64)
		if e != nil {
			return "", nil, core.Val{}, w, e
		}
		w.LinkBudget = &lb
	}
	w.Once = f[4] == "t"
	if f[6] != "-" {
		w.Skip = map[string]bool{}
		for _, h := range strings.Split(f[6], ",") {
			b, e := hex.DecodeString(h)
			if e != nil {
				return "", nil, core.Val{}, w, e
			}
			w.Skip[string(b)] = true
		}
	}
	g = &core.Graph{Blocks: map[string][]byte{}, Vals: map[string]core.Val{}}
	rest := f[8:]
	for len(rest) > 0 && rest[0] != "ROOT" {
		want := rest[0]
		v, r2, e := core.ParseTerm(rest[1:])
		if e != nil {
			return "", nil, core.Val{}, w, e
		}
		cb, e := g.AddBlock(v)
		if e != nil {
			return "", nil, core.Val{}, w, e
		}
		if "l"+hex.EncodeToString(cb) != want {
			return "", nil, core.Val{}, w, fmt.Errorf("block re-encodes to another link than %s", want)
		}
		rest = r2
	}
	if len(rest) == 0 {
		return "", nil, core.Val{}, w, fmt.Errorf("no ROOT")
	}
	root, r2, e := core.ParseTerm(rest[1:])
	if e != nil || len(r2) == 0 || r2[0] != "SEL" {
		return "", nil, core.Val{}, w, fmt.Errorf("bad ROOT / SEL")
	}
	g.Root = root
	spec, r3, e := core.ParseTerm(r2[1:])
	if e != nil || len(r3) != 0 {
		return "", nil, core.Val{}, w, fmt.Errorf("bad SEL term")
	}
	return mode, g, spec, w, nil
}

// replayC16 re-executes a walking-transform correspondence case from its text (implementation and model); other cases
// replay as C07's do.
func replayC16(c *core.Ctx, rp core.Replay) error {
	if !strings.HasPrefix(rp.Case, "xform.walkt ") {
		return replayC07(c, rp)
	}
	mode, g, spec, w, err := parseWalkTLine(rp.Case)
	if err != nil {
		return err
	}
	impl := implWalkT(mode, g, spec, w)
	outs, err := core.RunDriver([]string{rp.Case})
	if err != nil {
		return err
	}
	fmt.Printf("impl : %s\nmodel: %s\n", impl, outs[0])
	if impl != outs[0] {
		c.Fail("C16/corr-walk-transform", core.Replay{Kind: "correspondence", Case: rp.Case, Impl: impl, Model: outs[0]})
	}
	return nil
}

// add: both transform functions on one case; with `budgets`, the same case again under a drawn node / link budget
// (side: a PRNG of its own, so that the draws of the oracles' generators are what they were).
func (b *wtBatch) add(g *core.Graph, spec core.Val, w core.WalkCfg, side *core.Rand) {
	cfgs := []core.WalkCfg{w}
	if side.Chance(1, 3) {
		wb := w
		if side.Bool() {
			nb := int64(side.Intn(24))
			wb.NodeBudget = &nb
		}
		if wb.NodeBudget == nil || side.Bool() {
			lb := int64(side.Intn(5))
			wb.LinkBudget = &lb
		}
		cfgs = append(cfgs, wb)
	}
	for _, wc := range cfgs {
		wc.Start = nil // WalkTransforming does not read StartAtPath
		for _, mode := range []string{"id", "succ"} {
			impl := implWalkT(mode, g, spec, wc)
			if impl == "" {
				continue
			}
			b.lines = append(b.lines, walkTLine(mode, g, spec, wc))
			b.impls = append(b.impls, impl)
		}
	}
}

// check pipes the collected cases through the model driver and reports every difference.
func (b *wtBatch) check(c *core.Ctx) error {
	outs, err := core.RunDriver(b.lines)
	if err != nil {
		return err
	}
	for i := range b.lines {
		c.Trace(1)
		if i < 2 {
			c.Sample(map[string]string{"case": truncateStr(b.lines[i], 500), "impl": truncateStr(b.impls[i], 300)})
		}
		if outs[i] != b.impls[i] {
			c.Fail("C16/corr-walk-transform", core.Replay{Kind: "correspondence", Case: b.lines[i], Impl: b.impls[i], Model: outs[i]})
		}
	}
	return nil
}

// walking transform inside one block: every matched position is replaced by fn; nothing else changes
func c16Walking(c *core.Ctx, r *core.Rand, wt *wtBatch) error {
	sideCopy := *r
	side := sideCopy.Fork()
	v := core.GenVal(r, core.GenCfg{MaxDepth: 3, MaxWidth: 4}, 0)
	n, err := core.BuildBasic(v, nil)
	if err != nil {
		return err
	}
	s, st := core.CompileSel(core.SelAll())
	if st != "" {
		return fmt.Errorf("compile: %s", st)
	}
	_ = selector.Selector(s)
	before := termOf(n)
	// identity
	res, err := traversal.WalkTransforming(n, s, func(p traversal.Progress, m datamodel.Node) (datamodel.Node, error) { return m, nil })
	caseID := "xform.walk-identity " + v.Term()
	if err != nil || termOf(res) != v.Term() {
		c.Fail("C16/walk-identity-changes-tree", core.Replay{Kind: "oracle", Case: caseID, Impl: termOfOrErr(res, err), Expected: v.Term()})
	}
	// replace every int by its successor
	res, err = traversal.WalkTransforming(n, s, func(p traversal.Progress, m datamodel.Node) (datamodel.Node, error) {
		if m.Kind() == datamodel.Kind_Int {
			if i, err := m.AsInt(); err == nil && i < 1<<40 && i > -(1<<40) {
				return basicnode.NewInt(i + 1), nil
			}
		}
		return m, nil
	})
	var bump func(core.Val) core.Val
	bump = func(x core.Val) core.Val {
		switch x.K {
		case 'i':
			if i, ok := x.Int64(); ok && i < 1<<40 && i > -(1<<40) {
				return core.Int(i + 1)
			}
		case '[':
			out := core.Val{K: '['}
			for _, y := range x.L {
				out.L = append(out.L, bump(y))
			}
			return out
		case '{':
			out := core.Val{K: '{'}
			for _, e := range x.M {
				out.M = append(out.M, core.KV{K: e.K, V: bump(e.V)})
			}
			return out
		}
		return x
	}
	if err != nil || termOf(res) != bump(v).Term() {
		c.Fail("C16/walk-transform-differs", core.Replay{Kind: "oracle", Case: "xform.walk-bump " + v.Term(), Impl: termOfOrErr(res, err), Expected: bump(v).Term()})
	}
	if termOf(n) != before {
		c.Fail("C16/input-mutated", core.Replay{Kind: "oracle", Case: caseID, Impl: termOf(n), Expected: before})
	}
	c.Count(caseID, v.Size() >= 3)
	c.Dist("walk-transform")
	// any selector (all clause kinds, depth limits, stop conditions): the identity transform returns an equal tree, and
	// replacing the matched ints — the positions WalkMatching reports for the same selector (C07) — changes exactly those
	g := &core.Graph{Blocks: map[string][]byte{}, Vals: map[string]core.Val{}, Root: v}
	spec := core.GenSelector(r, g, 0, false, false)
	if r.Chance(1, 8) {
		// directed: a wide list under a fields clause naming many of its elements (the names are strings, the list's own
		// segments are ints), alone or inside a union
		wide := core.Val{K: '['}
		for i := 0; i < 10+r.Intn(8); i++ {
			wide.L = append(wide.L, core.Int(int64(i)))
		}
		fields := core.Val{K: '{'}
		for _, i := range r.Perm(len(wide.L))[:7+r.Intn(len(wide.L)-7)] {
			fields.M = append(fields.M, core.KV{K: []byte(strconv.Itoa(i)), V: core.Map(core.KV{K: []byte("."), V: core.Map()})})
		}
		spec = core.Map(core.KV{K: []byte("f"), V: core.Map(core.KV{K: []byte("f>"), V: fields})})
		if r.Bool() {
			spec = core.Map(core.KV{K: []byte("|"), V: core.List(spec, core.Map(core.KV{K: []byte("."), V: core.Map()}))})
		}
		v = wide
		g.Root = v
		if n, err = core.BuildBasic(v, nil); err != nil {
			return err
		}
	}
	// (D) the model of walkTransforming on this case (every selector the generator draws: subset matchers, InterpretAs
	// clauses, non-canonical numeral field names and rejected specs included)
	wt.add(g, spec, core.WalkCfg{}, side)
	c.Dist("walk-transform-model")
	if specHasSubset(spec) {
		return nil
	}
	U := core.RunWalk(g, spec, core.WalkCfg{}, true)
	if U.Compile != "" || U.Outcome != "ok" {
		return nil
	}
	s2, st2 := core.CompileSel(spec)
	if st2 != "" {
		return nil
	}
	caseSel := "xform.walk-sel " + v.Term() + " SEL " + spec.Term()
	res, err = func() (res datamodel.Node, err error) {
		defer func() {
			if x := recover(); x != nil {
				err = fmt.Errorf("panic: %v", x)
			}
		}()
		return traversal.WalkTransforming(n, s2, func(p traversal.Progress, m datamodel.Node) (datamodel.Node, error) { return m, nil })
	}()
	if err != nil || termOf(res) != v.Term() {
		c.Fail("C16/walk-identity-changes-tree", core.Replay{Kind: "oracle", Case: caseSel, Impl: termOfOrErr(res, err), Expected: v.Term(),
			Detail: "identity transform under a selector"})
	}
	want := v
	matchedInts := 0
	for _, vis := range U.Visits {
		path := vis.Path
		nv, ok := refUpdate(&want, path, func(prev *core.Val) *core.Val {
			if prev != nil && prev.K == 'i' {
				if i, ok := prev.Int64(); ok && i < 1<<40 && i > -(1<<40) {
					matchedInts++
					x := core.Int(i + 1)
					return &x
				}
			}
			return prev
		}, false)
		if ok && nv != nil {
			want = *nv
		}
	}
	res, err = func() (res datamodel.Node, err error) {
		defer func() {
			if x := recover(); x != nil {
				err = fmt.Errorf("panic: %v", x)
			}
		}()
		return traversal.WalkTransforming(n, s2, func(p traversal.Progress, m datamodel.Node) (datamodel.Node, error) {
			if m.Kind() == datamodel.Kind_Int {
				if i, err := m.AsInt(); err == nil && i < 1<<40 && i > -(1<<40) {
					return basicnode.NewInt(i + 1), nil
				}
			}
			return m, nil
		})
	}()
	if err != nil || termOf(res) != want.Term() {
		sig := "C16/walk-transform-differs"
		// the recorded finding, exactly: a fields clause naming a list element by a NON-CANONICAL numeral ("01", "+1"): Walk
		// resolves it through LookupBySegment (index 1) while WalkTransforming compares the iterator's segment "1" with the
		// name.  Classified only when writing those names canonically makes the transform produce the expected tree.
		if canon, changed := canonicalNumeralFields(spec); changed && err == nil {
			if s3, st3 := core.CompileSel(canon); st3 == "" {
				res3, err3 := func() (res datamodel.Node, err error) {
					defer func() {
						if x := recover(); x != nil {
							err = fmt.Errorf("panic: %v", x)
						}
					}()
					return traversal.WalkTransforming(n, s3, func(p traversal.Progress, m datamodel.Node) (datamodel.Node, error) {
						if m.Kind() == datamodel.Kind_Int {
							if i, err := m.AsInt(); err == nil && i < 1<<40 && i > -(1<<40) {
								return basicnode.NewInt(i + 1), nil
							}
						}
						return m, nil
					})
				}()
				if err3 == nil && termOf(res3) == want.Term() {
					sig = "C16/walk-transform-noncanonical-index-field"
					c.Dist("known-rule:canonical-spelling-repairs")
				}
			}
			// the same finding where canonical spelling cannot reproduce the walk's expectation: the canonical name collides
			// with another name of the same element ("+1" next to "01" or "1", in this clause or in another member of a union,
			// or with a range / index clause), so that the WALK arrives at that element once per spelling (and the expectation
			// applies the successor once per arrival).  Classified by the finding's trigger itself: the walk did resolve a
			// non-canonical numeral against a list.
			if sig == "C16/walk-transform-differs" && walkResolvedNonCanonicalIndex(g, spec, core.WalkCfg{}) {
				sig = "C16/walk-transform-noncanonical-index-field"
				c.Dist("known-rule:walk-resolved-noncanonical-numeral-on-list")
			}
		}
		c.Fail(sig, core.Replay{Kind: "oracle", Case: caseSel, Impl: termOfOrErr(res, err), Expected: want.Term(),
			Detail: fmt.Sprintf("matched ints (per WalkMatching with the same selector): %d", matchedInts)})
	}
	c.Count(caseSel, matchedInts > 0)
	c.Dist("walk-transform-selector")
	return nil
}

// c16WalkLinked: the walking transform over graphs of linked blocks, alone and under the two controls that leave links
// unexplored (visit-once, a loader that skips).  The known finding says explored links come back INLINED; everything
// else the property says still holds and is checked modulo that: with every link resolved through the store, the
// identity transform returns the resolved input, the successor transform returns the resolved input updated at exactly
// the positions WalkMatching visits under the same controls, nothing panics and nothing is dropped.
func c16WalkLinked(c *core.Ctx, r *core.Rand, wt *wtBatch) error {
	sideCopy := *r
	side := sideCopy.Fork()
	g, err := core.GenGraph(r, 1+r.Intn(5))
	if err != nil {
		return err
	}
	spec := core.SelAll()
	if r.Chance(1, 2) {
		spec = core.GenSelector(r, g, 0, false, false)
	}
	skipOracle := specHasSubset(spec) || strings.Contains(spec.Term(), " s7e ")
	var w core.WalkCfg
	ctl := "plain"
	if skipOracle {
		// the oracle below does not apply (a subset matcher's Decide and Match differ; InterpretAs needs a reifier); the model
		// correspondence does: draw the controls from the side stream
		switch side.Intn(4) {
		case 0:
			w.Once = true
		case 1, 2:
			w.Once, w.Skip = side.Bool(), map[string]bool{}
			for _, cb := range g.Order {
				if side.Chance(1, 3) {
					w.Skip[cb] = true
				}
			}
		}
		wt.add(g, spec, w, side)
		c.Dist("walk-linked-model:oracle-not-applicable")
		return nil
	}
	switch r.Intn(4) {
	case 0:
		w.Once, ctl = true, "once"
	case 1:
		w.Skip, ctl = map[string]bool{}, "skip"
		for _, cb := range g.Order {
			if r.Chance(1, 3) {
				w.Skip[cb] = true
			}
		}
	case 2:
		w.Once, w.Skip, ctl = true, map[string]bool{}, "once+skip"
		for _, cb := range g.Order {
			if r.Chance(1, 3) {
				w.Skip[cb] = true
			}
		}
	}
	// (D) the model of walkTransforming on this graph, selector and controls (also when the walk below does not end ok:
	// missing blocks, rejected specs)
	wt.add(g, spec, w, side)
	c.Dist("walk-linked-model:" + ctl)
	U := core.RunWalk(g, spec, w, true)
	if U.Compile != "" || U.Outcome != "ok" {
		return nil
	}
	s2, st2 := core.CompileSel(spec)
	if st2 != "" {
		return nil
	}
	root, err := core.BuildBasic(g.Root, nil)
	if err != nil {
		return err
	}
	caseID := "xform.walk-linked " + walkLine(g, spec, w)
	sel := s2
	run := func(fn traversal.TransformFn) (res datamodel.Node, err error) {
		defer func() {
			if x := recover(); x != nil {
				err = fmt.Errorf("panic: %v", x)
			}
		}()
		cfg := &traversal.Config{LinkSystem: g.LinkSystem(nil, w.Skip), LinkVisitOnlyOnce: w.Once,
			LinkTargetNodePrototypeChooser: func(datamodel.Link, linking.LinkContext) (datamodel.NodePrototype, error) {
				return basicnode.Prototype.Any, nil
			}}
		return traversal.Progress{Cfg: cfg}.WalkTransforming(root, sel, fn)
	}
	resolved := func(n datamodel.Node, err error) string {
		if err != nil {
			return "err " + err.Error()
		}
		v, rerr := core.ReadNode(n)
		if rerr != nil {
			return "unreadable " + rerr.Error()
		}
		return expandVal(g.Vals, v, 60).Sorted(core.LessCbor).Term()
	}
	links := 0
	for _, e := range U.Events {
		if strings.HasPrefix(e, "L ") {
			links++
		}
	}
	before := termOf(root)
	// identity
	want := expandVal(g.Vals, g.Root, 60).Sorted(core.LessCbor).Term()
	if got := resolved(run(func(p traversal.Progress, m datamodel.Node) (datamodel.Node, error) { return m, nil })); got != want {
		c.Fail("C16/walk-linked-identity-changes-graph", core.Replay{Kind: "oracle", Case: caseID, Impl: truncateStr(got, 800), Expected: truncateStr(want, 800),
			Detail: "identity transform, control=" + ctl + "; both sides with every link resolved through the store (inlining itself is the known finding)"})
	}
	// successor of every matched int
	wantV := expandVal(g.Vals, g.Root, 60)
	matched := 0
	dupPath := map[string]bool{}
	clean := true
	for _, vis := range U.Visits {
		k := strings.Join(vis.Path, "\x00/")
		if dupPath[k] {
			clean = false // a position matched twice (duplicate interests) is transformed once by the rebuild
		}
		dupPath[k] = true
		nv, ok := refUpdate(&wantV, vis.Path, func(prev *core.Val) *core.Val {
			if prev != nil && prev.K == 'i' {
				if i, ok := prev.Int64(); ok && i < 1<<40 && i > -(1<<40) {
					matched++
					x := core.Int(i + 1)
					return &x
				}
			}
			return prev
		}, false)
		if ok && nv != nil {
			wantV = *nv
		}
	}
	if clean {
		want = wantV.Sorted(core.LessCbor).Term()
		succ := func(p traversal.Progress, m datamodel.Node) (datamodel.Node, error) {
			if m.Kind() == datamodel.Kind_Int {
				if i, err := m.AsInt(); err == nil && i < 1<<40 && i > -(1<<40) {
					return basicnode.NewInt(i + 1), nil
				}
			}
			return m, nil
		}
		got := resolved(run(succ))
		if got != want {
			sig := "C16/walk-linked-transform-differs"
			// the recorded finding, classified as narrowly as in c16Walking: only when writing the numeral field names
			// canonically makes the transform produce the expected graph
			if canon, changed := canonicalNumeralFields(spec); changed && !strings.HasPrefix(got, "err ") {
				if s3, st3 := core.CompileSel(canon); st3 == "" {
					sel = s3
					if resolved(run(succ)) == want {
						sig = "C16/walk-transform-noncanonical-index-field"
						c.Dist("known-rule:canonical-spelling-repairs")
					}
					sel = s2
				}
				// as in c16Walking: the canonical name collides with another spelling of the same element, or the extra arrival
				// of the walk through the non-canonical spelling used up the link's one visit under visit-once
				if sig == "C16/walk-linked-transform-differs" && walkResolvedNonCanonicalIndex(g, spec, w) {
					sig = "C16/walk-transform-noncanonical-index-field"
					c.Dist("known-rule:walk-resolved-noncanonical-numeral-on-list")
				}
			}
			// the other recorded finding (C16/walk-transform-order-under-visit-once): the transform goes through a node's
			// children in the node's order, the walk in the selector's order, so under visit-once they may spend a repeated
			// link's single visit at different positions.  Classified only when the difference is visit-once's alone: some
			// link occurs twice, and without visit-once the same transform is exactly what the same walk says.
			if sig == "C16/walk-linked-transform-differs" && w.Once && c16RepeatedLink(g) {
				w2 := w
				w2.Once = false
				if U2 := core.RunWalk(g, spec, w2, true); U2.Outcome == "ok" {
					want2 := expandVal(g.Vals, g.Root, 60)
					for _, vis := range U2.Visits {
						if nv, ok := refUpdate(&want2, vis.Path, func(prev *core.Val) *core.Val {
							if prev != nil && prev.K == 'i' {
								if i, ok := prev.Int64(); ok && i < 1<<40 && i > -(1<<40) {
									x := core.Int(i + 1)
									return &x
								}
							}
							return prev
						}, false); ok && nv != nil {
							want2 = *nv
						}
					}
					onceWas := w.Once
					w.Once = false
					got2 := resolved(run(succ))
					w.Once = onceWas
					if got2 == want2.Sorted(core.LessCbor).Term() {
						sig = "C16/walk-transform-order-under-visit-once"
					}
				}
			}
			c.Fail(sig, core.Replay{Kind: "oracle", Case: caseID, Impl: truncateStr(got, 800), Expected: truncateStr(want, 800),
				Detail: fmt.Sprintf("successor of every matched int, control=%s, matched ints per WalkMatching under the same controls: %d", ctl, matched)})
		}
	}
	if termOf(root) != before {
		c.Fail("C16/input-mutated", core.Replay{Kind: "oracle", Case: caseID, Impl: termOf(root), Expected: before})
	}
	c.Count(caseID, links > 0)
	c.Dist("walk-linked:" + ctl)
	if links > 0 {
		c.Dist("walk-linked:crossed-links")
	}
	return nil
}

// c16RepeatedLink: does some link occur at two positions of the graph (root or blocks)?
func c16RepeatedLink(g *core.Graph) bool {
	count := map[string]int{}
	var walk func(v core.Val)
	walk = func(v core.Val) {
		switch v.K {
		case 'l':
			count[string(v.S)]++
		case '[':
			for _, x := range v.L {
				walk(x)
			}
		case '{':
			for _, e := range v.M {
				walk(e.V)
			}
		}
	}
	walk(g.Root)
	for _, b := range g.Vals {
		walk(b)
	}
	for _, n := range count {
		if n > 1 {
			return true
		}
	}
	return false
}

func runC16(c *core.Ctx) error {
	c.Rule = "graphs as in C07; target paths from the explore-all visit sequence (existing positions, through links) extended with new keys, list append '-', out-of-bounds and non-numeric list segments and missing parents, with and without createParents; transform functions identity / remove / constant / wrap-previous; walking transform (identity, successor of every int) inside one block; non-trivial = path of at least 2 segments; distinct by case line"
	c.Explanation = "theorems on the model of focusedTransform: untouched entries equal and in order, identity transform, the callback receives get(root, path), relink: resolving the new root reproduces the update; theorems on the model of walkTransforming (Props/C16walk.lean): the result is the input rewritten exactly where the callback answered another node (Spec.Rewrites), identity, skipped / seen links stay, each link requested at most once under visit-once, the callback sees what WalkMatching visits in the same order with the same budgets (where the two child enumerations pair up)"
	c.Assumptions = []string{"removing a position that does not exist below a missing parent is compared with the model only (the reference treats it as a no-op)", "model links are not real CIDs: graphs are compared with every link resolved through the respective store", "WalkTransforming across links inlines the explored blocks (known finding K3): across links its result is compared with every link resolved through the store"}
	// K3 witness: the walking transform inlines a linked block instead of re-linking it
	{
		g := &core.Graph{Blocks: map[string][]byte{}, Vals: map[string]core.Val{}}
		cb, _ := g.AddBlock(core.Map(core.KV{K: []byte("x"), V: core.Int(1)}))
		g.Root = core.Map(core.KV{K: []byte("l"), V: core.Link(cb)})
		root, _ := core.BuildBasic(g.Root, nil)
		s, _ := core.CompileSel(core.SelAll())
		cfg := &traversal.Config{LinkSystem: g.LinkSystem(nil, nil), LinkTargetNodePrototypeChooser: func(datamodel.Link, linking.LinkContext) (datamodel.NodePrototype, error) {
			return basicnode.Prototype.Any, nil
		}}
		res, err := traversal.Progress{Cfg: cfg}.WalkTransforming(root, s, func(p traversal.Progress, m datamodel.Node) (datamodel.Node, error) { return m, nil })
		inlined := err == nil && termOf(res) != g.Root.Term()
		c.KnownWitness("C16/walk-transform-inlines-linked-blocks", inlined, "identity WalkTransforming of {l: <link>} returns "+termOfOrErr(res, err))
	}
	// witness of the visit-once order finding: {a: X, b: X} with X = [1], a fields clause naming b (explore all, match)
	// before a (match): the walk spends X's one visit at b and matches b/0, the transform spends it at a
	{
		g := &core.Graph{Blocks: map[string][]byte{}, Vals: map[string]core.Val{}}
		cb, _ := g.AddBlock(core.List(core.Int(1)))
		g.Root = core.Map(core.KV{K: []byte("a"), V: core.Link(cb)}, core.KV{K: []byte("b"), V: core.Link(cb)})
		mm := func(k string, v core.Val) core.Val { return core.Map(core.KV{K: []byte(k), V: v}) }
		match := mm(".", core.Map())
		spec := mm("f", mm("f>", core.Map(core.KV{K: []byte("b"), V: mm("a", mm(">", match))}, core.KV{K: []byte("a"), V: match})))
		root, _ := core.BuildBasic(g.Root, nil)
		shown := false
		detail := "not reproduced"
		if s, st := core.CompileSel(spec); st == "" {
			mk := func() traversal.Progress {
				return traversal.Progress{Cfg: &traversal.Config{LinkSystem: g.LinkSystem(nil, nil), LinkVisitOnlyOnce: true, LinkTargetNodePrototypeChooser: func(datamodel.Link, linking.LinkContext) (datamodel.NodePrototype, error) {
					return basicnode.Prototype.Any, nil
				}}}
			}
			var matches, calls []string
			mk().WalkMatching(root, s, func(p traversal.Progress, n datamodel.Node) error {
				matches = append(matches, p.Path.String())
				return nil
			})
			res, err := mk().WalkTransforming(root, s, func(p traversal.Progress, m datamodel.Node) (datamodel.Node, error) {
				calls = append(calls, p.Path.String())
				return m, nil
			})
			shown = err == nil && strings.Join(matches, ",") != strings.Join(calls, ",")
			detail = fmt.Sprintf("WalkMatching matches at [%s], WalkTransforming calls back at [%s] and returns %s", strings.Join(matches, ","), strings.Join(calls, ","), termOfOrErr(res, err))
		}
		c.KnownWitness("C16/walk-transform-order-under-visit-once", shown, detail)
	}
	var lines, impls []string
	n := c.Pick(1500, 100000)
	for i := 0; i < n; i++ {
		if err := c16Case(c, c.Rand.Fork(), i, &lines, &impls); err != nil {
			return err
		}
	}
	outs, err := core.RunDriver(lines)
	if err != nil {
		return err
	}
	for i := range lines {
		c.Trace(1)
		if i < 2 {
			c.Sample(map[string]string{"case": truncateStr(lines[i], 500), "impl": truncateStr(impls[i], 200)})
		}
		if outs[i] != impls[i] {
			c.Fail("C16/corr-focused-transform", core.Replay{Kind: "correspondence", Case: lines[i], Impl: impls[i], Model: outs[i]})
		}
	}
	wt := &wtBatch{}
	for i := 0; i < c.Pick(300, 20000); i++ {
		if err := c16Walking(c, c.Rand.Fork(), wt); err != nil {
			return err
		}
	}
	for i := 0; i < c.Pick(400, 30000); i++ {
		if err := c16WalkLinked(c, c.Rand.Fork(), wt); err != nil {
			return err
		}
	}
	// directed shapes for the model correspondence (model == code on each; what they show is in Props/C16walk.lean):
	{
		mt := core.Map(core.KV{K: []byte("."), V: core.Map()})
		all := func(x core.Val) core.Val {
			return core.Map(core.KV{K: []byte("a"), V: core.Map(core.KV{K: []byte(">"), V: x})})
		}
		fields := func(kvs ...core.KV) core.Val {
			return core.Map(core.KV{K: []byte("f"), V: core.Map(core.KV{K: []byte("f>"), V: core.Map(kvs...)})})
		}
		side := c.Rand.Fork()
		// (1) a fields clause naming "b" before "a" over {a: <X>, b: <X>}: the walk explores X below b, the transform below a;
		//     under visit-once they therefore target different positions
		g := &core.Graph{Blocks: map[string][]byte{}, Vals: map[string]core.Val{}}
		cb, err := g.AddBlock(core.List(core.Int(1)))
		if err != nil {
			return err
		}
		g.Root = core.Map(core.KV{K: []byte("a"), V: core.Link(cb)}, core.KV{K: []byte("b"), V: core.Link(cb)})
		spec := fields(core.KV{K: []byte("b"), V: all(mt)}, core.KV{K: []byte("a"), V: mt})
		for _, once := range []bool{false, true} {
			wt.add(g, spec, core.WalkCfg{Once: once}, side)
		}
		// (2) one seen-set for all levels: [[<X>], <X>] under visit-once
		g2 := &core.Graph{Blocks: g.Blocks, Vals: g.Vals, Order: g.Order, Root: core.List(core.List(core.Link(cb)), core.Link(cb))}
		wt.add(g2, core.SelAll(), core.WalkCfg{Once: true}, side)
		// (3) a list element named "01"
		g3 := &core.Graph{Blocks: map[string][]byte{}, Vals: map[string]core.Val{}, Root: core.List(core.Int(7), core.Int(8))}
		wt.add(g3, fields(core.KV{K: []byte("01"), V: mt}), core.WalkCfg{}, side)
		c.Dist("walk-transform-model:directed")
	}
	return wt.check(c)
}

func termOfOrErrSafe(n datamodel.Node, err error) (out string) {
	defer func() {
		if r := recover(); r != nil {
			out = fmt.Sprintf("a node that panics when read (%v)", r)
		}
	}()
	return termOfOrErr(n, err)
}

// walkResolvedNonCanonicalIndex: did the walk (WalkAdv under the same controls: candidates included, a block loaded through
// a non-canonical spelling counts even if nothing in it matched) arrive at a position through a LIST element named by a
// non-canonical numeral ("01", "+1", "-0", "00")?  That is the trigger of the recorded finding
// C16/walk-transform-noncanonical-index-field: Walk resolves such a name through LookupBySegment (strconv.ParseInt), the
// transform compares it with the list iterator's canonical segment and passes the element over.  Map keys that happen to
// read as non-canonical numerals do not count (both resolve them by text).
func walkResolvedNonCanonicalIndex(g *core.Graph, spec core.Val, w core.WalkCfg) bool {
	A := core.RunWalk(g, spec, w, false)
	for _, vis := range A.Visits {
		cur := g.Root
	segs:
		for _, seg := range vis.Path {
			switch cur.K {
			case '[':
				i, err := strconv.ParseInt(seg, 10, 64)
				if err != nil || i < 0 || i >= int64(len(cur.L)) {
					break segs
				}
				if strconv.FormatInt(i, 10) != seg {
					return true
				}
				cur = cur.L[i]
			case '{':
				found := false
				for _, e := range cur.M {
					if string(e.K) == seg {
						cur, found = e.V, true
						break
					}
				}
				if !found {
					break segs
				}
			default:
				break segs
			}
			// a link child stands for its block at the same path (one hop, as the walk loads it)
			if cur.K == 'l' {
				if b, ok := g.Vals[string(cur.S)]; ok {
					cur = b
				}
			}
		}
	}
	return false
}

// canonicalNumeralFields rewrites the field names of every ExploreFields clause ("f" → "f>" → names) that are
// non-canonical numerals ("01", "+1", "-0", "00") to their canonical decimal form.
func canonicalNumeralFields(v core.Val) (core.Val, bool) {
	changed := false
	var walk func(x core.Val, inFields bool) core.Val
	walk = func(x core.Val, inFields bool) core.Val {
		prevIsMerge := map[string]bool{}
		out := x
		if x.L != nil {
			out.L = make([]core.Val, len(x.L))
			for i, y := range x.L {
				out.L[i] = walk(y, false)
			}
		}
		if x.M != nil {
			out.M = make([]core.KV, len(x.M))
			for i, e := range x.M {
				k := e.K
				if inFields {
					if n, err := strconv.ParseInt(string(k), 10, 64); err == nil && strconv.FormatInt(n, 10) != string(k) {
						k = []byte(strconv.FormatInt(n, 10))
						changed = true
					}
				}
				out.M[i] = core.KV{K: k, V: walk(e.V, string(e.K) == "f>")}
			}
			if inFields {
				// names that become the same index ("001" and "+1") were both explored by the walk: their selectors are
				// merged into a union under the canonical name (at the first one's position)
				var merged []core.KV
				at := map[string]int{}
				for _, e := range out.M {
					if j, dup := at[string(e.K)]; dup {
						prev := merged[j].V
						if len(prev.M) == 1 && string(prev.M[0].K) == "|" && prev.M[0].V.K == '[' && prev.K == '{' && prev.M[0].V.L != nil && merged[j].K != nil && prevIsMerge[string(e.K)] {
							prev.M[0].V.L = append(prev.M[0].V.L, e.V)
							merged[j].V = prev
						} else {
							merged[j].V = core.Map(core.KV{K: []byte("|"), V: core.List(prev, e.V)})
							prevIsMerge[string(e.K)] = true
						}
						continue
					}
					at[string(e.K)] = len(merged)
					merged = append(merged, e)
				}
				out.M = merged
			}
		}
		return out
	}
	return walk(v, false), changed
}
