/-
  Schema helper lemmas: lookups, duplicate-freeness, well-formedness projections, the struct assembly
  state seen as a lookup function, list/ofList conversions.
-/
import IpldModel.Model.Schema
import IpldModel.Lemmas.SchemaGenFlags
namespace Ipld
namespace Schema

/-! ## The ideal engine's flags -/

@[simp] theorem ideal_dupStructField : Engine.ideal.dupStructField = false := rfl
@[simp] theorem ideal_reuseSlot : Engine.ideal.reuseSlot = false := rfl
@[simp] theorem ideal_dupMapKey : Engine.ideal.dupMapKey = false := rfl
@[simp] theorem ideal_unionMulti : Engine.ideal.unionMulti = false := rfl
@[simp] theorem ideal_renameFallback : Engine.ideal.renameFallback = false := rfl
@[simp] theorem ideal_discFallback : Engine.ideal.discFallback = false := rfl
@[simp] theorem ideal_enumTypeAnyString : Engine.ideal.enumTypeAnyString = false := rfl
@[simp] theorem ideal_enumNameAtRepr : Engine.ideal.enumNameAtRepr = false := rfl
@[simp] theorem ideal_nullableUnionPanic : Engine.ideal.nullableUnionPanic = false := rfl
@[simp] theorem ideal_lpShortPair : Engine.ideal.lpShortPair = false := rfl
@[simp] theorem ideal_lpUnknownKeyPanic : Engine.ideal.lpUnknownKeyPanic = false := rfl

/-! ## Outcome -/

@[simp] theorem Outcome.map_ok {α β : Type} (f : α → β) (a : α) : (Outcome.ok a).map f = .ok (f a) := rfl
@[simp] theorem Outcome.map_reject {α β : Type} (f : α → β) : (Outcome.reject : Outcome α).map f = .reject := rfl
@[simp] theorem Outcome.map_panic {α β : Type} (f : α → β) : (Outcome.panic : Outcome α).map f = .panic := rfl
@[simp] theorem Outcome.isOk_ok {α : Type} (a : α) : (Outcome.ok a).isOk = true := rfl
@[simp] theorem Outcome.isOk_reject {α : Type} : (Outcome.reject : Outcome α).isOk = false := rfl
@[simp] theorem Outcome.isOk_panic {α : Type} : (Outcome.panic : Outcome α).isOk = false := rfl

theorem Outcome.map_eq_ok {α β : Type} {f : α → β} {o : Outcome α} {b : β} :
    o.map f = .ok b ↔ ∃ a, o = .ok a ∧ f a = b := by
  cases o <;> simp [Outcome.map]

@[simp] theorem Outcome.isOk_map {α β : Type} (f : α → β) (o : Outcome α) : (o.map f).isOk = o.isOk := by
  cases o <;> rfl

theorem Outcome.isOk_iff {α : Type} {o : Outcome α} : o.isOk = true ↔ ∃ a, o = .ok a := by
  cases o <;> simp

/-! ## ofList / toList -/

@[simp] theorem TLs.toList_ofList (l : List TL) : (TLs.ofList l).toList = l := by
  induction l with
  | nil => rfl
  | cons x xs ih => simp [TLs.ofList, TLs.toList, ih]

@[simp] theorem TLs.ofList_toList : (l : TLs) → TLs.ofList l.toList = l
  | .nil => rfl
  | .cons x xs => by simp [TLs.ofList, TLs.toList, TLs.ofList_toList xs]

@[simp] theorem TLKVs.toList_ofList (l : List (Bytes × TL)) : (TLKVs.ofList l).toList = l := by
  induction l with
  | nil => rfl
  | cons x xs ih => obtain ⟨k, v⟩ := x; simp [TLKVs.ofList, TLKVs.toList, ih]

@[simp] theorem TLKVs.ofList_toList : (l : TLKVs) → TLKVs.ofList l.toList = l
  | .nil => rfl
  | .cons k v es => by simp [TLKVs.ofList, TLKVs.toList, TLKVs.ofList_toList es]

@[simp] theorem TLKVs.ofList_nil : TLKVs.ofList [] = .nil := rfl
@[simp] theorem TLKVs.ofList_cons (k : Bytes) (v : TL) (l : List (Bytes × TL)) :
    TLKVs.ofList ((k, v) :: l) = .cons k v (TLKVs.ofList l) := rfl
@[simp] theorem TLs.ofList_nil : TLs.ofList [] = .nil := rfl
@[simp] theorem TLs.ofList_cons (v : TL) (l : List TL) :
    TLs.ofList (v :: l) = .cons v (TLs.ofList l) := rfl
@[simp] theorem DMKVs.ofList_nil : DMKVs.ofList [] = .nil := rfl
@[simp] theorem DMKVs.ofList_cons (k : Bytes) (v : DM) (l : List (Bytes × DM)) :
    DMKVs.ofList ((k, v) :: l) = .cons k v (DMKVs.ofList l) := rfl
@[simp] theorem DMs.ofList_nil : DMs.ofList [] = .nil := rfl
@[simp] theorem DMs.ofList_cons (v : DM) (l : List DM) :
    DMs.ofList (v :: l) = .cons v (DMs.ofList l) := rfl

theorem TLKVs.ofList_inj {a b : List (Bytes × TL)} (h : TLKVs.ofList a = TLKVs.ofList b) : a = b := by
  have := congrArg TLKVs.toList h
  simpa using this

theorem TLs.ofList_inj {a b : List TL} (h : TLs.ofList a = TLs.ofList b) : a = b := by
  have := congrArg TLs.toList h
  simpa using this

/-! ## Lookups -/

theorem findIdx_none {α : Type} (p : α → Bool) : (l : List α) → (findIdx p l = none ↔ l.find? p = none)
  | [] => by simp [findIdx]
  | a :: as => by
    unfold findIdx
    by_cases h : p a = true
    · simp [h]
    · have := findIdx_none p as
      simp only [h, Bool.false_eq_true, if_false, Option.map_eq_none_iff, this]
      simp [h]

theorem findIdx_some {α : Type} (p : α → Bool) : (l : List α) → (i : Nat) → (a : α) →
    findIdx p l = some (i, a) → l[i]? = some a ∧ p a = true ∧ l.find? p = some a
  | [], _, _, h => by simp [findIdx] at h
  | b :: bs, i, a, h => by
    unfold findIdx at h
    by_cases hb : p b = true
    · simp only [hb, if_true, Option.some.injEq, Prod.mk.injEq] at h
      obtain ⟨rfl, rfl⟩ := h
      simp [hb]
    · simp only [hb, Bool.false_eq_true, if_false, Option.map_eq_some_iff] at h
      obtain ⟨⟨j, x⟩, hx, hjx⟩ := h
      simp only [Prod.mk.injEq] at hjx
      obtain ⟨rfl, rfl⟩ := hjx
      have := findIdx_some p bs j x hx
      simp [hb, this]

theorem findIdx_of_find? {α : Type} (p : α → Bool) (l : List α) (a : α) (h : l.find? p = some a) :
    ∃ i, findIdx p l = some (i, a) := by
  cases hq : findIdx p l with
  | none => rw [(findIdx_none p l).1 hq] at h; cases h
  | some r =>
    obtain ⟨i, b⟩ := r
    have := (findIdx_some p l i b hq).2.2
    rw [this] at h; cases h
    exact ⟨i, rfl⟩

/-! ## Duplicate-freeness -/

theorem nodupBytes_iff : (l : List Bytes) → (nodupBytes l = true ↔ l.Nodup)
  | [] => by simp [nodupBytes]
  | b :: bs => by
    simp only [nodupBytes, Bool.and_eq_true, Bool.not_eq_true', List.nodup_cons, nodupBytes_iff bs]
    simp

/-- In a list with distinct keys, looking an element up by its key finds that element. -/
theorem find?_key_of_mem {α β : Type} [BEq β] [LawfulBEq β] (key : α → β) :
    (l : List α) → (l.map key).Nodup → (a : α) → a ∈ l → l.find? (fun x => key x == key a) = some a
  | [], _, _, h => by cases h
  | b :: bs, hnd, a, h => by
    simp only [List.map_cons, List.nodup_cons] at hnd
    simp only [List.mem_cons] at h
    rcases h with rfl | h
    · simp
    · have hne : key b ≠ key a := by
        intro heq; exact hnd.1 (heq ▸ List.mem_map_of_mem h)
      have : (key b == key a) = false := by simpa using hne
      simp only [List.find?_cons, this]
      exact find?_key_of_mem key bs hnd.2 a h

theorem find?_key_eq {α β : Type} [BEq β] [LawfulBEq β] (key : α → β)
    (l : List α) (hnd : (l.map key).Nodup) (a : α) (h : a ∈ l) (k : β) (hk : key a = k) :
    l.find? (fun x => key x == k) = some a := by
  subst hk; exact find?_key_of_mem key l hnd a h

theorem find?_mem_key {α β : Type} [BEq β] [LawfulBEq β] (key : α → β) (l : List α) (k : β) (a : α)
    (h : l.find? (fun x => key x == k) = some a) : a ∈ l ∧ key a = k := by
  have h1 := List.mem_of_find?_eq_some h
  have h2 := List.find?_some h
  exact ⟨h1, by simpa using h2⟩

theorem any_key_iff_find? {α β : Type} [BEq β] (key : α → β) (l : List α) (k : β) :
    l.any (fun x => key x == k) = (l.find? (fun x => key x == k)).isSome := by
  induction l with
  | nil => rfl
  | cons a as ih =>
    simp only [List.any_cons, List.find?_cons]
    cases h : key a == k <;> simp [ih]

/-- `eraseDups` never lengthens. -/
theorem eraseDups_length_le {α : Type} [BEq α] [LawfulBEq α] : (l : List α) → l.eraseDups.length ≤ l.length
  | [] => by simp
  | a :: as => by
    rw [List.eraseDups_cons]
    have h1 := eraseDups_length_le (as.filter fun b => !b == a)
    have h2 := List.length_filter_le (fun b => !b == a) as
    simp only [List.length_cons]
    omega
termination_by l => l.length
decreasing_by
  simp only [List.length_cons]
  have := List.length_filter_le (fun b => !b == a) as
  omega

/-- `eraseDups` keeps the length only of a duplicate-free list. -/
theorem nodup_of_eraseDups_length {α : Type} [BEq α] [LawfulBEq α] :
    (l : List α) → l.eraseDups.length = l.length → l.Nodup
  | [], _ => List.nodup_nil
  | a :: as, h => by
    rw [List.eraseDups_cons] at h
    have h1 := eraseDups_length_le (as.filter fun b => !b == a)
    have h2 := List.length_filter_le (fun b => !b == a) as
    simp only [List.length_cons] at h
    have h3 : (as.filter fun b => !b == a).length = as.length := by omega
    have h4 : as.filter (fun b => !b == a) = as := List.filter_eq_self.2 (by
      have := List.length_filter_eq_length_iff.1 h3
      exact this)
    rw [h4] at h
    have ih := nodup_of_eraseDups_length as (by omega)
    refine List.nodup_cons.2 ⟨?_, ih⟩
    intro hmem
    have := (List.filter_eq_self.1 h4) a hmem
    simp at this

/-! ## Well-formedness projections -/

theorem Fields.wf_mem : (fs : Fields) → fs.wf = true → ∀ f ∈ fs.toList, f.ty.wf = true
  | .nil, _, f, hf => by simp [Fields.toList] at hf
  | .cons n r o nu t rest, h, f, hf => by
    simp only [Fields.wf, Bool.and_eq_true] at h
    simp only [Fields.toList, List.mem_cons] at hf
    rcases hf with rfl | hf
    · exact h.1
    · exact Fields.wf_mem rest h.2 f hf

theorem Members.wf_mem : (ms : Members) → ms.wf = true → ∀ m ∈ ms.toList, m.ty.wf = true
  | .nil, _, m, hm => by simp [Members.toList] at hm
  | .cons n d k t rest, h, m, hm => by
    simp only [Members.wf, Bool.and_eq_true] at h
    simp only [Members.toList, List.mem_cons] at hm
    rcases hm with rfl | hm
    · exact h.1
    · exact Members.wf_mem rest h.2 m hm

theorem wf_struct {fs : Fields} {r : StructRepr} (h : (Ty.struct fs r).wf = true) :
    fs.wf = true ∧ (fs.toList.map (·.name)).Nodup ∧ (fs.toList.map (·.rename)).Nodup := by
  simp only [Ty.wf, Bool.and_eq_true, nodupBytes_iff] at h
  exact ⟨h.1.1.1, h.1.1.2, h.1.2⟩

theorem wf_stringjoin {fs : Fields} {d : Bytes} (h : (Ty.struct fs (.stringjoin d)).wf = true) :
    d ≠ [] ∧ ∀ f ∈ fs.toList, f.opt = false ∧ f.nullable = false ∧ f.ty.stringy = true := by
  simp only [Ty.wf, Bool.and_eq_true, List.all_eq_true, Bool.not_eq_true', List.isEmpty_eq_false_iff] at h
  exact ⟨h.2.1, fun f hf => by have := h.2.2 f hf; exact ⟨this.1.1, this.1.2, this.2⟩⟩

theorem wf_union {ms : Members} {r : UnionRepr} (h : (Ty.union ms r).wf = true) :
    ms.wf = true ∧ (ms.toList.map (·.name)).Nodup := by
  simp only [Ty.wf, Bool.and_eq_true, nodupBytes_iff] at h
  exact ⟨h.1.1, h.1.2⟩

theorem wf_keyed {ms : Members} (h : (Ty.union ms .keyed).wf = true) :
    (ms.toList.map (·.disc)).Nodup := by
  simp only [Ty.wf, Bool.and_eq_true, nodupBytes_iff] at h
  exact h.2

theorem wf_kinded {ms : Members} (h : (Ty.union ms .kinded).wf = true) :
    (ms.toList.map (·.kind)).Nodup := by
  simp only [Ty.wf, Bool.and_eq_true, beq_iff_eq] at h
  have := nodup_of_eraseDups_length (ms.toList.map (·.kind)) (by simpa using h.2)
  exact this

theorem wf_stringprefix {ms : Members} {d : Bytes} (h : (Ty.union ms (.stringprefix d)).wf = true) :
    (ms.toList.map (·.disc)).Nodup ∧ ∀ m ∈ ms.toList, m.ty.stringy = true := by
  simp only [Ty.wf, Bool.and_eq_true, nodupBytes_iff, List.all_eq_true] at h
  exact ⟨h.2.1, h.2.2⟩

theorem wf_enum {ms : List EnumMember} {r : EnumRepr} (h : (Ty.enum ms r).wf = true) :
    (ms.map (·.name)).Nodup := by
  simp only [Ty.wf, Bool.and_eq_true, nodupBytes_iff] at h
  exact h.1

theorem wf_enum_str {ms : List EnumMember} (h : (Ty.enum ms .str).wf = true) :
    (ms.map (·.rstr)).Nodup := by
  simp only [Ty.wf, Bool.and_eq_true, nodupBytes_iff] at h
  exact h.2

theorem wf_enum_int {ms : List EnumMember} (h : (Ty.enum ms .int).wf = true) :
    (ms.map (·.rint)).Nodup := by
  simp only [Ty.wf, Bool.and_eq_true, beq_iff_eq] at h
  exact nodup_of_eraseDups_length (ms.map (·.rint)) (by simpa using h.2)

/-! ## The struct assembly state as a lookup function -/

/-- The assembly state in which field `f` holds `g f.name` (and was assigned iff that is `some`). -/
def SSt.ofFn (fs : List Field) (g : Bytes → Option TL) : SSt :=
  { slots := fs.map fun f => g f.name, done := fs.map fun f => (g f.name).isSome }

/-- `g` with `k` set to `v`. -/
def setFn (g : Bytes → Option TL) (k : Bytes) (v : TL) : Bytes → Option TL :=
  fun n => if n == k then some v else g n

@[simp] theorem setFn_same (g : Bytes → Option TL) (k : Bytes) (v : TL) : setFn g k v k = some v := by
  simp [setFn]

theorem setFn_other (g : Bytes → Option TL) (k : Bytes) (v : TL) (n : Bytes) (h : n ≠ k) :
    setFn g k v n = g n := by
  simp [setFn, h]

theorem SSt.init_none (fs : List Field) : SSt.init fs none = SSt.ofFn fs (fun _ => none) := by
  simp [SSt.init, SSt.ofFn]

theorem SSt.curOf_ideal (st : SSt) (i : Nat) (f : Field) : st.curOf Engine.ideal i f = none := by
  simp [SSt.curOf]

theorem SSt.ofFn_isDone (fs : List Field) (g : Bytes → Option TL) (i : Nat) (f : Field)
    (hi : fs[i]? = some f) : (SSt.ofFn fs g).isDone i = (g f.name).isSome := by
  simp [SSt.isDone, SSt.ofFn, List.getD_eq_getElem?_getD, List.getElem?_map, hi]

theorem map_set_of_nodup {α : Type} (h : Field → α) (x : α) :
    (fs : List Field) → (i : Nat) → (f : Field) → fs[i]? = some f → (fs.map (·.name)).Nodup →
    (fs.map h).set i x = fs.map (fun f' => if f'.name == f.name then x else h f')
  | [], _, _, hi, _ => by simp at hi
  | f0 :: fs, 0, f, hi, hnd => by
    simp only [List.getElem?_cons_zero, Option.some.injEq] at hi
    subst hi
    simp only [List.map_cons, List.nodup_cons] at hnd
    simp only [List.map_cons, List.set_cons_zero, beq_self_eq_true, if_true, List.cons.injEq, true_and]
    apply List.map_congr_left
    intro f' hf'
    have : f'.name ≠ f0.name := fun heq => hnd.1 (heq ▸ List.mem_map_of_mem hf')
    simp [this]
  | f0 :: fs, i + 1, f, hi, hnd => by
    simp only [List.getElem?_cons_succ] at hi
    simp only [List.map_cons, List.nodup_cons] at hnd
    have hmem : f ∈ fs := List.mem_of_getElem? hi
    have : f0.name ≠ f.name := fun heq => hnd.1 (heq ▸ List.mem_map_of_mem hmem)
    simp only [List.map_cons, List.set_cons_succ, map_set_of_nodup h x fs i f hi hnd.2]
    simp [this]

theorem SSt.ofFn_assign (fs : List Field) (g : Bytes → Option TL) (i : Nat) (f : Field) (v : TL)
    (hi : fs[i]? = some f) (hnd : (fs.map (·.name)).Nodup) :
    (SSt.ofFn fs g).assign i v = SSt.ofFn fs (setFn g f.name v) := by
  simp only [SSt.assign, SSt.ofFn, map_set_of_nodup _ _ fs i f hi hnd, setFn]
  congr 1
  apply List.map_congr_left
  intro f' _
  by_cases h : f'.name == f.name <;> simp [h]

theorem finishFields_map (g : Bytes → Option TL) : (fs : List Field) →
    finishFields fs (fs.map fun f => g f.name) (fs.map fun f => (g f.name).isSome) =
      if fs.all (fun f => f.opt || (g f.name).isSome) then
        some (fs.map fun f => (f.name, (g f.name).getD .absent))
      else none
  | [] => by simp [finishFields]
  | f :: fs => by
    simp only [List.map_cons, finishFields, finishFields_map g fs, List.all_cons]
    cases ho : f.opt <;> cases hg : g f.name <;> simp <;> split <;> simp_all

/-- `Finish`: every required field is set; the value lists every field in order. -/
theorem SSt.ofFn_finish (fs : List Field) (g : Bytes → Option TL) :
    (SSt.ofFn fs g).finish fs =
      if fs.all (fun f => f.opt || (g f.name).isSome) then
        .ok (.map (TLKVs.ofList (fs.map fun f => (f.name, (g f.name).getD .absent))))
      else .reject := by
  simp only [SSt.finish, SSt.ofFn, finishFields_map]
  by_cases h : (fs.all fun f => f.opt || (g f.name).isSome) = true <;> simp [h]

/-- The field a key addresses, ideal engine: found by name (type level) or representation key. -/
theorem fieldByKey_ideal_some (lvl : Level) (fs : List Field) (k : Bytes) (i : Nat) (f : Field)
    (h : fieldByKey Engine.ideal lvl fs k = some (i, f)) :
    fs[i]? = some f ∧ f ∈ fs ∧
      (match lvl with | .type => f.name = k | .repr => f.rename = k) ∧
      (match lvl with
       | .type => fs.find? (fun f => f.name == k) = some f
       | .repr => fs.find? (fun f => f.rename == k) = some f) := by
  cases lvl
  · simp only [fieldByKey] at h
    have := findIdx_some _ fs i f h
    exact ⟨this.1, List.mem_of_getElem? this.1, by simpa using this.2.1, this.2.2⟩
  · simp only [fieldByKey, ideal_renameFallback, Bool.false_eq_true, if_false] at h
    have h' : findIdx (fun f => f.rename == k) fs = some (i, f) := by
      cases hq : findIdx (fun f => f.rename == k) fs with
      | none => simp [hq] at h
      | some r => simpa [hq] using h
    have := findIdx_some _ fs i f h'
    exact ⟨this.1, List.mem_of_getElem? this.1, by simpa using this.2.1, this.2.2⟩

theorem fieldByKey_ideal_none (lvl : Level) (fs : List Field) (k : Bytes)
    (h : fieldByKey Engine.ideal lvl fs k = none) :
    (match lvl with
     | .type => fs.find? (fun f => f.name == k) = none
     | .repr => fs.find? (fun f => f.rename == k) = none) := by
  cases lvl
  · simp only [fieldByKey] at h
    exact (findIdx_none _ fs).1 h
  · simp only [fieldByKey, ideal_renameFallback, Bool.false_eq_true, if_false] at h
    cases hq : findIdx (fun f => f.rename == k) fs with
    | none => exact (findIdx_none _ fs).1 hq
    | some r => simp [hq] at h

theorem memberByKey_ideal (lvl : Level) (ms : List Member) (k : Bytes) :
    memberByKey Engine.ideal lvl ms k =
      (match lvl with
       | .type => ms.find? (fun m => m.name == k)
       | .repr => ms.find? (fun m => m.disc == k)) := by
  cases lvl
  · rfl
  · simp only [memberByKey, ideal_discFallback, Bool.false_eq_true, if_false]
    cases ms.find? (fun m => m.disc == k) <;> rfl

/-! ## Conformance: first facts -/

theorem conforms_mono_nul (ty : Ty) (nul : Bool) (v : TL) (h : conforms ty false v = true) :
    conforms ty nul v = true := by
  cases v <;> first | (simp [conforms] at h; done) | (unfold conforms at h ⊢; exact h)

theorem conforms_ne_absent (ty : Ty) (nul : Bool) (v : TL) (h : conforms ty nul v = true) : v ≠ .absent := by
  intro hv; subst hv; simp [conforms] at h

/-- What `conformsStruct` asks of one entry's value. -/
def fieldValOK (f : Field) (v : TL) : Bool :=
  match v with
  | .absent => f.opt
  | _ => conforms f.ty f.nullable v

theorem fieldValOK_of_conforms (f : Field) (v : TL) (h : conforms f.ty f.nullable v = true) :
    fieldValOK f v = true := by
  cases v <;> simp_all [fieldValOK, conforms]

theorem conformsStruct_cons (fs : List Field) (seen : List Bytes) (k : Bytes) (v : TL) (es : TLKVs) :
    conformsStruct fs seen (.cons k v es) =
      match fs.find? (fun f => f.name == k) with
      | none => false
      | some f => !seen.contains k && fieldValOK f v && conformsStruct fs (k :: seen) es := by
  rw [conformsStruct]; rfl

end Schema
end Ipld
