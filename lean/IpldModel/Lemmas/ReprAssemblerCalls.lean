/-
  Representation-level assemblers: which calls each kind of current object accepts (value assembler of a type, key
  assembler, error assembler), and the repeated-key refusals.  Helper lemmas for Props/C12repr.lean.
-/
import IpldModel.Lemmas.ReprAssembler
import IpldModel.Lemmas.TypedAssemblerInv
import IpldModel.Lemmas.SchemaRepr
namespace Ipld
namespace RAsm
open Ipld.Asm (Op Out ErrClass)
open Ipld.Schema (Ty Fields Members Field Member TL TLs TLKVs canonFields wrapPath conforms)
open Ipld.TAsm (Phase Pos hasKey inInt64 Call)

/-- every shape a state can have: the frame stack empty (root value there or not), or the innermost frame by kind and
    phase -/
macro "state_cases " s:ident " => " tac:tacticSeq : tactic => `(tactic| (
  obtain ⟨t, fr, r, tt⟩ := $s
  rcases fr with _ | ⟨f, rest⟩
  · cases r <;> ($tac)
  · rcases f with ⟨ety, enul, xs, mid, w⟩ | ⟨vty, vnul, es, ph, w⟩ | ⟨fs, es, ph, w⟩ | ⟨fs, es, mid, w⟩ | ⟨ms, cur, ph, w⟩ | ⟨ph⟩
    · cases mid <;> ($tac)
    · cases ph <;> ($tac)
    · cases ph <;> ($tac)
    · cases mid <;> ($tac)
    · cases ph <;> ($tac)
    · cases ph <;> ($tac)))

/-! ### the current object decides which handler answers -/

theorem stepPrim_at_value {e : Engine} {s : St} {ty : Ty} {nul : Bool} (hp : pos s = .value ty nul) (op : Op) :
    stepPrim e s op = valuePrim e s ty nul op := by
  state_cases s =>
    try simp only [pos, posOf] at hp
    all_goals (try split at hp)
    all_goals first | (cases hp; done) | skip
    all_goals (simp only [Pos.value.injEq] at hp; obtain ⟨rfl, rfl⟩ := hp; simp [stepPrim, *])

theorem stepPrim_at_key {e : Engine} {s : St} (hp : pos s = .key) (op : Op) :
    stepPrim e s op = keyPrim e s op := by
  state_cases s =>
    try simp only [pos, posOf] at hp
    all_goals (try split at hp)
    all_goals first | (cases hp; done) | skip
    all_goals simp [stepPrim]

theorem stepPrim_at_errAsm {e : Engine} {s : St} (hp : pos s = .errAsm) (op : Op) :
    stepPrim e s op = errPrim s op := by
  state_cases s =>
    try simp only [pos, posOf] at hp
    all_goals (try split at hp)
    all_goals first | (cases hp; done) | skip
    all_goals simp_all [stepPrim]

/-- a key assembler is current exactly while the `AssembleKey` of a typed map, a map-represented struct or a keyed union
    is outstanding -/
theorem pos_key_inKey {s : St} (hp : pos s = .key) : inKey s = true := by
  state_cases s =>
    try simp only [pos, posOf] at hp
    all_goals (try split at hp)
    all_goals first | (cases hp; done) | rfl

/-! ### a value assembler -/

/-- a value assembler always takes a finished value -/
theorem deliver_ok_of_pos {s : St} {ty : Ty} {nul : Bool} (hp : pos s = .value ty nul) (v : TL) :
    (deliver s v).2 = .ok := by
  state_cases s =>
    try simp only [pos, posOf] at hp
    all_goals (try split at hp)
    all_goals first | (cases hp; done) | skip
    all_goals simp_all [deliver]

/-- An offered call the type accepts is answered `ok`; one it does not accept is answered with an error and
    changes nothing. -/
theorem valuePrim_accepts {e : Engine} {s : St} {ty : Ty} {nul : Bool} (hp : pos s = .value ty nul) {op : Op}
    (hc : TAsm.valueCall op = true) :
    (accepts e ty nul op = true → (valuePrim e s ty nul op).2 = .ok) ∧
    (accepts e ty nul op = false → ∃ c, valuePrim e s ty nul op = (s, .err c)) := by
  cases op with
  | assign v =>
    simp only [TAsm.valueCall] at hc
    simp only [accepts, valuePrim, hc, Bool.true_and, Bool.not_true, Bool.false_eq_true, if_false]
    cases hi : intOK v with
    | false => simp
    | true =>
      simp only [Bool.true_and, Bool.not_true, Bool.false_eq_true, if_false]
      cases hb : Schema.build Schema.Engine.ideal .repr ty nul none v with
      | ok tv => simp [Schema.Outcome.isOk, deliver_ok_of_pos hp]
      | reject => simp [Schema.Outcome.isOk]
      | panic => simp [Schema.Outcome.isOk]
  | beginMap n =>
    simp only [accepts, valuePrim]
    cases opensMap ty nul with
    | frame f => simp
    | dead => cases e.beginMapAny <;> simp
    | refused => simp
  | beginList n =>
    simp only [accepts, valuePrim]
    cases opensList ty nul <;> simp
  | assembleKey => cases hc
  | assembleValue => cases hc
  | assembleEntry k => cases hc
  | assignNode v => cases hc
  | finish => cases hc

/-! ### a key assembler -/

theorem keyPrim_nonstring {e : Engine} {s : St} {v : DM} (hs : Asm.isScalar v = true) (hn : ∀ k, v ≠ .str k) :
    keyPrim e s (.assign v) = (s, .err .wrongKind) := by
  cases v <;> first | (cases hs; done) | rfl | exact absurd rfl (hn _)

/-! ### repeated keys -/

/-- `AssembleEntry` with a key the current map has already accepted / the representation key of a field the current struct
    has already been given: refused at that call, as a repeated key, state untouched - every engine. -/
theorem stepPrim_assembleEntry_repeated {e : Engine} {s : St} (hx : expectsKey s = true) {k n : Bytes}
    (hn : keyName s k = some n) (hk : n ∈ acceptedKeys s) : stepPrim e s (.assembleEntry k) = (s, .err .repeatedKey) := by
  state_cases s =>
    first
      | (simp [expectsKey] at hx; done)
      | (simp [keyName] at hn; done)
      | (simp only [keyName, Option.some.injEq] at hn; subst hn
         simp only [acceptedKeys] at hk
         simp [stepPrim, (TAsm.hasKey_iff _ _).2 hk]; done)
      | (simp only [keyName, Option.map_eq_some_iff] at hn
         obtain ⟨f, hf, rfl⟩ := hn
         simp only [acceptedKeys] at hk
         simp [stepPrim, hf, (TAsm.hasKey_iff _ _).2 hk]; done)

/-- ... and the same key handed to the key assembler: refused at that call, and the key assembler ends. -/
theorem supplyKey_repeated {e : Engine} {s : St} (hx : pos s = .key) {k n : Bytes}
    (hn : keyName s k = some n) (hk : n ∈ acceptedKeys s) (he : e.keyAsmDupMapKey = false ∨ inStruct s = true) :
    ∃ s', KeyReset s s' ∧ supplyKey e s k = (s', .err .repeatedKey) := by
  state_cases s =>
    try simp only [pos, posOf] at hx
    all_goals (try split at hx)
    all_goals first
      | (cases hx; done)
      | (simp [keyName] at hn; done)
      | (simp only [keyName, Option.some.injEq] at hn; subst hn
         simp only [acceptedKeys] at hk
         have he' : e.keyAsmDupMapKey = false := by
           rcases he with he | he
           · exact he
           · simp [inStruct] at he
         exact ⟨_, ⟨_, _, _, rfl, rfl, rfl⟩, by simp [supplyKey, (TAsm.hasKey_iff _ _).2 hk, he']⟩)
      | (simp only [keyName, Option.map_eq_some_iff] at hn
         obtain ⟨f, hf, rfl⟩ := hn
         simp only [acceptedKeys] at hk
         exact ⟨_, ⟨_, _, _, rfl, rfl, rfl⟩, by simp [supplyKey, hf, (TAsm.hasKey_iff _ _).2 hk]⟩)

/-! ### `BeginMap` / `BeginList` and the representation kind -/

/-- what `BeginMap` meets, by the type the position addresses for a map (`Schema.kindedTarget`, as `conformsRepr` reads it) -/
theorem accepts_beginMap (e : Engine) (ty : Ty) (nul : Bool) (n : Int) :
    accepts e ty nul (.beginMap n) =
      match Schema.kindedTarget .map ty with
      | some (.map _ _) => true
      | some (.struct _ .map) => true
      | some (.union _ .keyed) => true
      | some (.struct _ _) => e.beginMapAny
      | some (.union _ _) => e.beginMapAny
      | _ => false := by
  simp only [accepts, opensMap, Schema.kindedTarget]
  rw [Schema.resolveKinded_ideal_nul]
  cases Schema.resolveKinded Schema.Engine.ideal false .map ty with
  | reject => rfl
  | panic => rfl
  | ok p =>
    obtain ⟨t, path⟩ := p
    cases t with
    | struct F sr => cases sr <;> rfl
    | union M ur => cases ur <;> rfl
    | _ => rfl

theorem accepts_beginList (e : Engine) (ty : Ty) (nul : Bool) (n : Int) :
    accepts e ty nul (.beginList n) =
      match Schema.kindedTarget .list ty with
      | some (.list _ _) => true
      | some (.struct _ .tuple) => true
      | _ => false := by
  simp only [accepts, opensList, Schema.kindedTarget]
  rw [Schema.resolveKinded_ideal_nul]
  cases Schema.resolveKinded Schema.Engine.ideal false .list ty with
  | reject => rfl
  | panic => rfl
  | ok p =>
    obtain ⟨t, path⟩ := p
    cases t with
    | struct F sr => cases sr <;> rfl
    | _ => rfl

end RAsm
end Ipld
