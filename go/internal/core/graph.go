package core

import (
	"bytes"
	"encoding/hex"
	"errors"
	"fmt"
	"io"
	"math"
	"strings"

	"github.com/ipfs/go-cid"
	"github.com/ipld/go-ipld-prime/codec/dagcbor"
	"github.com/ipld/go-ipld-prime/datamodel"
	"github.com/ipld/go-ipld-prime/linking"
	cidlink "github.com/ipld/go-ipld-prime/linking/cid"
	"github.com/ipld/go-ipld-prime/node/basicnode"
	"github.com/ipld/go-ipld-prime/traversal"
	"github.com/ipld/go-ipld-prime/traversal/selector"
	mh "github.com/multiformats/go-multihash"
)

// Graph: a DAG of dag-cbor blocks plus a root value (held in memory, insertion order kept).
type Graph struct {
	Blocks map[string][]byte // key = cid bytes
	Vals   map[string]Val    // decoded value of each block (maps in dag-cbor order)
	Order  []string          // cids in creation order
	Root   Val
}

var ErrBlockMissing = errors.New("verif: block not in store")

var smallKeys = []string{"a", "b", "c", "d", "e", "0", "1", "k", "01", "+1", "00", "-0", "001"}

func genTreeWithLinks(r *Rand, g *Graph, depth int) Val {
	k := r.Intn(10)
	if depth >= 3 && k >= 6 {
		k = r.Intn(6)
	}
	if depth == 0 && k < 6 {
		k = 6 + r.Intn(4)
	}
	switch k {
	case 0:
		return Null()
	case 1:
		return Int(int64(r.Intn(20)))
	case 2:
		return Str([]string{"", "hello", "abc", "héllo wörld", "x"}[r.Intn(5)])
	case 3:
		return Bytes([][]byte{{}, {1, 2, 3, 4, 5}, {0xff}, []byte("bytes!")}[r.Intn(4)])
	case 4, 5:
		if len(g.Order) > 0 {
			return Link([]byte(g.Order[r.Intn(len(g.Order))]))
		}
		return Bool(r.Bool())
	case 6, 7:
		v := Val{K: '['}
		for n := r.Intn(5); n > 0; n-- {
			v.L = append(v.L, genTreeWithLinks(r, g, depth+1))
		}
		return v
	default:
		v := Val{K: '{'}
		seen := map[string]bool{}
		for n := r.Intn(5); n > 0; n-- {
			key := smallKeys[r.Intn(len(smallKeys))]
			if seen[key] {
				continue
			}
			seen[key] = true
			v.M = append(v.M, KV{[]byte(key), genTreeWithLinks(r, g, depth+1)})
		}
		return v
	}
}

// GenGraph builds nblocks linked blocks bottom-up and a root.
func GenGraph(r *Rand, nblocks int) (*Graph, error) {
	g := &Graph{Blocks: map[string][]byte{}, Vals: map[string]Val{}}
	for i := 0; i < nblocks; i++ {
		v := genTreeWithLinks(r, g, 0)
		// now and then an INLINE block: a link whose multihash is the identity function, the digest being the block itself
		if _, err := g.addBlock(v, r.Chance(1, 6)); err != nil {
			return nil, err
		}
	}
	g.Root = genTreeWithLinks(r, g, 0)
	return g, nil
}

// AddBlock stores v as a dag-cbor block and returns its CID bytes.
func (g *Graph) AddBlock(v Val) ([]byte, error) { return g.addBlock(v, false) }

func (g *Graph) addBlock(v Val, inline bool) ([]byte, error) {
	n, err := BuildBasic(v, nil)
	if err != nil {
		return nil, err
	}
	var buf bytes.Buffer
	if err := dagcbor.Encode(n, &buf); err != nil {
		return nil, err
	}
	code := uint64(mh.SHA2_256)
	if inline && buf.Len() <= 120 {
		code = mh.IDENTITY
	}
	sum, err := mh.Sum(buf.Bytes(), code, -1)
	if err != nil {
		return nil, err
	}
	c := cid.NewCidV1(0x71, sum).Bytes()
	if _, ok := g.Blocks[string(c)]; !ok {
		g.Blocks[string(c)] = buf.Bytes()
		g.Vals[string(c)] = v.Sorted(LessCbor)
		g.Order = append(g.Order, string(c))
	}
	return c, nil
}

// StoreTokens: the STORE section of a walk.run / path.get line.
func (g *Graph) StoreTokens() string {
	var sb strings.Builder
	sb.WriteString("STORE")
	for _, c := range g.Order {
		sb.WriteString(" l")
		sb.WriteString(hex.EncodeToString([]byte(c)))
		sb.WriteByte(' ')
		sb.WriteString(g.Vals[c].Term())
	}
	return sb.String()
}

// LinkSystem over the graph; loads are appended to *loads; links in skip answer SkipMe.
// NodeReifyHide makes every link system of a graph carry a NodeReifier that shows loaded blocks differently from their
// stored form (HidingReifier); set by a check around the operations of one case.
var NodeReifyHide bool

// HidingReifier presents a loaded map without its first entry and a loaded list without its first element.
func HidingReifier(_ linking.LinkContext, n datamodel.Node, _ *linking.LinkSystem) (datamodel.Node, error) {
	v, err := ReadNode(n)
	if err != nil {
		return n, nil
	}
	switch {
	case v.K == '{' && len(v.M) > 0:
		v.M = v.M[1:]
	case v.K == '[' && len(v.L) > 0:
		v.L = v.L[1:]
	default:
		return n, nil
	}
	return BuildBasic(v, nil)
}

func (g *Graph) LinkSystem(loads *[]string, skip map[string]bool) linking.LinkSystem {
	lsys := cidlink.DefaultLinkSystem()
	if NodeReifyHide {
		lsys.NodeReifier = HidingReifier
	}
	lsys.StorageReadOpener = func(_ linking.LinkContext, l datamodel.Link) (io.Reader, error) {
		c := string(l.(cidlink.Link).Cid.Bytes())
		if loads != nil {
			*loads = append(*loads, c)
		}
		if skip[c] {
			return nil, traversal.SkipMe{}
		}
		b, ok := g.Blocks[c]
		if !ok {
			return nil, ErrBlockMissing
		}
		return bytes.NewReader(b), nil
	}
	return lsys
}

// ---- selector specs ----------------------------------------------------------------------------

func m1(k string, v Val) Val { return Map(KV{[]byte(k), v}) }

// GenSelector draws a selector spec (mostly well-formed; recursive edges only under a recursive clause
// unless `sloppy`), over all clause kinds.
func GenSelector(r *Rand, g *Graph, depth int, inRec bool, sloppy bool) Val {
	if depth == 0 && r.Chance(1, 14) {
		// directed: compositions of recursive edges with unions and explore-all, where a sibling of a bare edge reaches
		// an edge one step later, under small recursion limits (the limit runs out at different members)
		edge := m1("@", Map())
		all := func(x Val) Val { return m1("a", Map(KV{[]byte(">"), x})) }
		lim := m1("depth", Int(int64(r.Intn(4))))
		seqs := []Val{
			all(m1("|", List(edge, all(edge)))),
			m1("|", List(m1(".", Map()), all(m1("|", List(edge, all(edge)))))),
			all(all(m1("|", List(all(edge), edge)))),
			m1("|", List(edge, all(m1("|", List(edge, m1(".", Map())))))),
		}
		return m1("R", Val{K: '{', M: []KV{{[]byte("l"), lim}, {[]byte(":>"), seqs[r.Intn(len(seqs))]}}})
	}
	k := r.Intn(13)
	if depth >= 4 {
		k = r.Intn(2)
	}
	next := func() Val { return GenSelector(r, g, depth+1, inRec, sloppy) }
	switch k {
	case 0:
		return m1(".", Map())
	case 1:
		if r.Chance(1, 3) {
			f, t := int64(r.Intn(8))-3, int64(r.Intn(10))-3
			return m1(".", Map(KV{[]byte("subset"), Map(KV{[]byte("["), Int(f)}, KV{[]byte("]"), Int(t)})}))
		}
		if inRec || (sloppy && r.Chance(1, 6)) {
			return m1("@", Map())
		}
		return m1(".", Map())
	case 2, 3:
		return m1("a", Map(KV{[]byte(">"), next()}))
	case 4, 5:
		fs := Val{K: '{'}
		seen := map[string]bool{}
		for n := 1 + r.Intn(3); n > 0; n-- {
			key := smallKeys[r.Intn(len(smallKeys))]
			if seen[key] {
				continue
			}
			seen[key] = true
			fs.M = append(fs.M, KV{[]byte(key), next()})
		}
		return m1("f", Map(KV{[]byte("f>"), fs}))
	case 6:
		return m1("i", Map(KV{[]byte("i"), Int(int64(r.Intn(5)) - 1)}, KV{[]byte(">"), next()}))
	case 7:
		s := int64(r.Intn(4)) - 1
		e := s + int64(r.Intn(4))
		if r.Chance(1, 10) {
			e = s + 1500 // above the precomputed-interest cap
		}
		return m1("r", Map(KV{[]byte("^"), Int(s)}, KV{[]byte("$"), Int(e)}, KV{[]byte(">"), next()}))
	case 8, 9:
		u := Val{K: '['}
		for n := r.Intn(4); n > 0; n-- {
			u.L = append(u.L, next())
		}
		return m1("|", u)
	case 10, 11:
		var lim Val
		if r.Chance(1, 3) {
			lim = m1("none", Map())
		} else {
			lim = m1("depth", Int(int64(r.Intn(6))-1))
			if r.Chance(1, 12) {
				// extreme limits: the arithmetic on them must not wrap
				lim = m1("depth", Int([]int64{math.MinInt64, math.MinInt64 + 1, math.MaxInt64, math.MaxInt64 - 1, -1 << 40, 1 << 40}[r.Intn(6)]))
			}
		}
		seq := GenSelector(r, g, depth+1, true, sloppy)
		if !specHasEdge(seq) && !r.Chance(1, 10) {
			seq = m1("|", List(seq, m1("a", Map(KV{[]byte(">"), m1("@", Map())}))))
		}
		body := Val{K: '{', M: []KV{{[]byte("l"), lim}, {[]byte(":>"), seq}}}
		if r.Chance(1, 4) && len(g.Order) > 0 {
			stop := []byte(g.Order[r.Intn(len(g.Order))])
			if r.Chance(1, 3) {
				// a link that is NOT in the graph but shares the digest of one that is: another codec, another CID version
				if c, err := cid.Cast(stop); err == nil {
					if r.Bool() && c.Prefix().MhType == mh.SHA2_256 && c.Prefix().MhLength == 32 {
						stop = cid.NewCidV0(c.Hash()).Bytes()
					} else {
						stop = cid.NewCidV1([]uint64{0x55, 0x0129, 0x70, 0x71}[r.Intn(4)], c.Hash()).Bytes()
					}
				}
			}
			body.M = append(body.M, KV{[]byte("!"), m1("/", Link(stop))})
		}
		return m1("R", body)
	default:
		if r.Chance(1, 3) {
			inner := next()
			if r.Chance(1, 3) {
				// layered: an InterpretAs clause directly inside another
				inner = m1("~", Map(KV{[]byte("as"), Str("someadl")}, KV{[]byte(">"), inner}))
			}
			return m1("~", Map(KV{[]byte("as"), Str("someadl")}, KV{[]byte(">"), inner}))
		}
		if depth > 0 && !r.Chance(1, 4) {
			return m1("a", Map(KV{[]byte(">"), next()}))
		}
		// malformed clause of some kind
		switch r.Intn(6) {
		case 0:
			return m1("zz", Map())
		case 1:
			return m1("a", Map())
		case 2:
			return m1("i", Map(KV{[]byte("i"), Str("x")}, KV{[]byte(">"), next()}))
		case 3:
			return Map(KV{[]byte("a"), Map()}, KV{[]byte("."), Map()})
		case 4:
			return m1("r", Map(KV{[]byte("^"), Int(3)}, KV{[]byte("$"), Int(3)}, KV{[]byte(">"), next()}))
		}
		return List()
	}
}

// specHasEdge: does the spec contain a recursive edge that belongs to the enclosing recursive clause?
func specHasEdge(v Val) bool {
	if v.K == '{' {
		for _, e := range v.M {
			if string(e.K) == "@" {
				return true
			}
			if string(e.K) == "R" {
				continue
			}
			if specHasEdge(e.V) {
				return true
			}
		}
	}
	for _, x := range v.L {
		if specHasEdge(x) {
			return true
		}
	}
	return false
}

// ExploreAllRecursively: the "walk everything" selector spec.
func SelAll() Val {
	return m1("R", Map(KV{[]byte("l"), m1("none", Map())}, KV{[]byte(":>"), m1("|", List(m1(".", Map()), m1("a", Map(KV{[]byte(">"), m1("@", Map())}))))}))
}

// ---- running a walk ----------------------------------------------------------------------------

// ForceReify registers the identity reifier for every RunWalk (set by a check around the walks of one spec).
var ForceReify bool

type WalkCfg struct {
	NodeBudget, LinkBudget *int64
	Once                   bool
	Start                  []string // segment strings
	Skip                   map[string]bool
	Reify                  bool // register an identity reifier under the name the selector generator uses ("someadl")
	// ReifyKind registers another reifier under that name instead: "collapse" (a map or list becomes a string), "hide"
	// (HidingReifier), "fail" (an error), "nil" (no node, no error), "scalar-to-list" (a scalar becomes a one-element list)
	ReifyKind string
}

func PathArg(segs []string) string {
	var sb strings.Builder
	sb.WriteString("p:")
	for _, s := range segs {
		sb.WriteString(hex.EncodeToString([]byte(s)))
		sb.WriteByte('.')
	}
	return sb.String()
}

func pathSegs(p datamodel.Path) []string {
	var out []string
	for _, s := range p.Segments() {
		out = append(out, s.String())
	}
	return out
}

func (w WalkCfg) Tokens() string {
	nb, lb := "-", "-"
	if w.NodeBudget != nil {
		nb = fmt.Sprint(*w.NodeBudget)
	}
	if w.LinkBudget != nil {
		lb = fmt.Sprint(*w.LinkBudget)
	}
	once := "f"
	if w.Once {
		once = "t"
	}
	skip := "-"
	if len(w.Skip) > 0 {
		var parts []string
		for c := range w.Skip {
			parts = append(parts, hex.EncodeToString([]byte(c)))
		}
		// deterministic order
		for i := 1; i < len(parts); i++ {
			for j := i; j > 0 && parts[j] < parts[j-1]; j-- {
				parts[j], parts[j-1] = parts[j-1], parts[j]
			}
		}
		skip = strings.Join(parts, ",")
	}
	return fmt.Sprintf("%s %s %s %s %s", nb, lb, once, PathArg(w.Start), skip)
}

type Visit struct {
	Path   []string
	Reason byte
	Node   string // term
	Raw    datamodel.Node
	Kept   datamodel.Path // the Progress.Path value as handed to the callback, kept beyond the callback
}

type WalkObs struct {
	Compile string // "" ok, "compile-reject", "compile-panic"
	Visits  []Visit
	Events  []string
	Outcome string
	// PathChanged: a path value kept from a visit reads differently after the walk than at the visit ("" = none)
	PathChanged string
}

func (o WalkObs) String() string {
	if o.Compile != "" {
		return o.Compile
	}
	return strings.Join(o.Events, " | ") + " => " + o.Outcome
}

func CompileSel(spec Val) (s selector.Selector, status string) {
	defer func() {
		if r := recover(); r != nil {
			s, status = nil, "compile-panic"
		}
	}()
	n, err := BuildBasic(spec, nil)
	if err != nil {
		return nil, "harness:" + err.Error()
	}
	s, err = selector.CompileSelector(n)
	if err != nil {
		return nil, "compile-reject"
	}
	return s, ""
}

// RunWalk runs WalkAdv (or WalkMatching when matching) on the real implementation.
func RunWalk(g *Graph, spec Val, w WalkCfg, matching bool) WalkObs {
	var obs WalkObs
	s, st := CompileSel(spec)
	if st != "" {
		obs.Compile = st
		return obs
	}
	root, err := BuildBasic(g.Root, nil)
	if err != nil {
		obs.Compile = "harness:" + err.Error()
		return obs
	}
	var loads []string
	lsys := g.LinkSystem(&loads, w.Skip)
	if w.Reify || ForceReify {
		lsys.KnownReifiers = map[string]linking.NodeReifier{"someadl": func(_ linking.LinkContext, n datamodel.Node, _ *linking.LinkSystem) (datamodel.Node, error) {
			return n, nil
		}}
	}
	if w.ReifyKind != "" {
		kind := w.ReifyKind
		lsys.KnownReifiers = map[string]linking.NodeReifier{"someadl": func(lc linking.LinkContext, n datamodel.Node, ls *linking.LinkSystem) (datamodel.Node, error) {
			switch kind {
			case "collapse":
				if n.Kind() == datamodel.Kind_Map || n.Kind() == datamodel.Kind_List {
					return basicnode.NewString("collapsed"), nil
				}
			case "hide":
				return HidingReifier(lc, n, ls)
			case "fail":
				return nil, fmt.Errorf("reifier refuses")
			case "nil":
				return nil, nil
			case "scalar-to-list":
				if n.Kind() != datamodel.Kind_Map && n.Kind() != datamodel.Kind_List {
					nb := basicnode.Prototype.Any.NewBuilder()
					la, _ := nb.BeginList(1)
					la.AssembleValue().AssignNode(n)
					la.Finish()
					return nb.Build(), nil
				}
			}
			return n, nil
		}}
	}
	cfg := &traversal.Config{LinkSystem: lsys, LinkVisitOnlyOnce: w.Once,
		LinkTargetNodePrototypeChooser: func(datamodel.Link, linking.LinkContext) (datamodel.NodePrototype, error) {
			return basicnode.Prototype.Any, nil
		}}
	if len(w.Start) > 0 {
		var segs []datamodel.PathSegment
		for _, s := range w.Start {
			segs = append(segs, datamodel.PathSegmentOfString(s))
		}
		cfg.StartAtPath = datamodel.NewPath(segs)
	}
	prog := traversal.Progress{Cfg: cfg}
	if w.NodeBudget != nil || w.LinkBudget != nil {
		b := &traversal.Budget{NodeBudget: 1 << 60, LinkBudget: 1 << 60}
		if w.NodeBudget != nil {
			b.NodeBudget = *w.NodeBudget
		}
		if w.LinkBudget != nil {
			b.LinkBudget = *w.LinkBudget
		}
		prog.Budget = b
	}
	nloads := 0
	flushLoads := func() {
		for ; nloads < len(loads); nloads++ {
			obs.Events = append(obs.Events, "L "+hex.EncodeToString([]byte(loads[nloads])))
		}
	}
	record := func(p traversal.Progress, n datamodel.Node, reason byte) {
		flushLoads()
		v, err := ReadNode(n)
		term := "read-error"
		if err == nil {
			term = v.Term()
		}
		segs := pathSegs(p.Path)
		obs.Visits = append(obs.Visits, Visit{Path: segs, Reason: reason, Node: term, Raw: n, Kept: p.Path})
		obs.Events = append(obs.Events, fmt.Sprintf("V %s %c %s", PathArg(segs), reason, term))
	}
	func() {
		defer func() {
			if r := recover(); r != nil {
				err = fmt.Errorf("panic: %v", r)
				obs.Outcome = "panic"
			}
		}()
		if matching {
			err = prog.WalkMatching(root, s, func(p traversal.Progress, n datamodel.Node) error { record(p, n, 'm'); return nil })
		} else {
			err = prog.WalkAdv(root, s, func(p traversal.Progress, n datamodel.Node, r traversal.VisitReason) error {
				record(p, n, byte(r))
				return nil
			})
		}
	}()
	flushLoads()
	for _, v := range obs.Visits {
		if now := PathArg(pathSegs(v.Kept)); now != PathArg(v.Path) && obs.PathChanged == "" {
			obs.PathChanged = fmt.Sprintf("path kept from the visit of %s reads %s after the walk", PathArg(v.Path), now)
		}
	}
	if obs.Outcome == "panic" {
		return obs
	}
	obs.Outcome = ClassifyWalkErr(err)
	return obs
}

func ClassifyWalkErr(err error) string {
	if err == nil {
		return "ok"
	}
	var be *traversal.ErrBudgetExceeded
	if errors.As(err, &be) {
		return "budget:" + be.BudgetKind
	}
	if errors.Is(err, ErrBlockMissing) {
		return "err:load"
	}
	return "err:other"
}

// StripInterpretAs replaces every ExploreInterpretAs clause of a spec by its inner selector: with an identity reifier
// registered, the walk of the spec and the walk of the stripped spec visit the same things at the same cost.
func StripInterpretAs(v Val) Val {
	if v.K == '{' && len(v.M) == 1 && string(v.M[0].K) == "~" {
		for _, e := range v.M[0].V.M {
			if string(e.K) == ">" {
				return StripInterpretAs(e.V)
			}
		}
	}
	out := v
	if v.L != nil {
		out.L = make([]Val, len(v.L))
		for i, x := range v.L {
			out.L[i] = StripInterpretAs(x)
		}
	}
	if v.M != nil {
		out.M = make([]KV, len(v.M))
		for i, e := range v.M {
			out.M[i] = KV{e.K, StripInterpretAs(e.V)}
		}
	}
	return out
}
