/-
  Typed maps keyed by a string-represented enum (DESIGN §13.4), as the reflection binding (node/bindnode) implements
  them for `type M {E:Int}` with `type E enum { | Yes ("y") | No … }`.  Core Lean only.

  At TYPE level a key is a member NAME; at REPRESENTATION level it is that member's REPRESENTATION string (the string
  the member is renamed to, its own name if it is not renamed).  The Go value is `struct{Keys []K; Values map[K]V}`
  holding member names: `Keys` is the insertion order, `Values` the contents.

  Mirrored code (after the lookup fix):
    * `_assembler.AssignString`, enum case (node.go): the text must be one of `Members()`;
    * `_assemblerRepr.AssignString`, `EnumRepresentation_String` case (repr.go): reverse lookup of the text among the
      members' representation strings, then the type-level assignment of that member;
    * `_mapAssembler.AssembleKey` / `AssembleEntry` (+ the `Repr` variants): the key assembler's `finish` reports a key
      that is already in `Values` (`ErrRepeatedMapKey`); a refused key leaves `Keys`/`Values` alone;
      `AssembleValue`'s `finish` appends to `Keys` and stores into `Values`;
    * `_mapIterator.Next` / `_mapIteratorRepr.Next`: the entries in `Keys` order, the key as a type-level / a
      representation node of the enum;
    * `_node.LookupByString`, map case: the text is assigned to a fresh key at TYPE level (member name), then
      `Values` is indexed; `_nodeRepr.LookupByString`, default case: the text is translated from a representation
      string to the member (not a representation string: not found), then the type-level lookup.
-/
import IpldModel.Model.DM
namespace Ipld.EnumKey
open Ipld

/-- An enum type with a string representation: the members in declaration order as (name, representation string).
    A member that the schema does not rename has its own name as representation. -/
abbrev EnumTy := List (Bytes × Bytes)

def names (e : EnumTy) : List Bytes := e.map (·.1)
def reprs (e : EnumTy) : List Bytes := e.map (·.2)

/-- What `schema.SpawnTypeSystem` (member names) and an unambiguous representation (the harness's filter) require:
    no two members share a name, no two members share a representation string. -/
def wf (e : EnumTy) : Prop := (names e).Nodup ∧ (reprs e).Nodup

instance (e : EnumTy) : Decidable (wf e) := inferInstanceAs (Decidable (_ ∧ _))

/-- A typed map value: (member name, value) in insertion order (`Keys` with `Values` looked up). -/
abbrev EMap := List (Bytes × Int)

def keys (m : List (Bytes × Int)) : List Bytes := m.map (·.1)

/-- The invariant of a built value: distinct keys, every key a member name. -/
def valid (e : EnumTy) (m : EMap) : Prop := (keys m).Nodup ∧ ∀ k, k ∈ keys m → k ∈ names e

instance (e : EnumTy) (m : EMap) : Decidable (valid e m) :=
  inferInstanceAs (Decidable (_ ∧ ∀ k, k ∈ keys m → k ∈ names e))

inductive Level where
  | type | repr
  deriving DecidableEq, Repr

/-- `EnumRepresentation_String` outbound: the representation string of the member called `k` (first member of that
    name; a text that names no member spells itself — never reached for a valid value). -/
def reprOf : EnumTy → Bytes → Bytes
  | [], k => k
  | (n, r) :: e, k => if n = k then r else reprOf e k

/-- `_assemblerRepr.AssignString` reverse lookup: the member whose representation string is `s`. -/
def memberOfRepr : EnumTy → Bytes → Option Bytes
  | [], _ => none
  | (n, r) :: e, s => if r = s then some n else memberOfRepr e s

/-- `_assembler.AssignString`, enum case: is `s` one of `Members()`. -/
def isMember (e : EnumTy) (s : Bytes) : Bool := (names e).contains s

/-- The key assembler of the level: the member a key text denotes, `none` when the text is refused. -/
def resolve (lvl : Level) (e : EnumTy) (s : Bytes) : Option Bytes :=
  match lvl with
  | .type => if isMember e s then some s else none
  | .repr => memberOfRepr e s

/-! ### Reading -/

/-- Iteration of the type-level node: the entries as stored. -/
def viewType (m : EMap) : List (Bytes × Int) := m

/-- Iteration of the representation node: same entries, same order, every key spelled as its representation. -/
def viewRepr (e : EnumTy) (m : EMap) : List (Bytes × Int) := m.map fun kv => (reprOf e kv.1, kv.2)

/-- `Values[k]`. -/
def assoc : List (Bytes × Int) → Bytes → Option Int
  | [], _ => none
  | (k', v) :: m, k => if k' = k then some v else assoc m k

/-- `_node.LookupByString`, map case with an enum key: the text has to be a member name, then `Values` is indexed. -/
def lookupType (e : EnumTy) (m : EMap) (k : Bytes) : Option Int :=
  if isMember e k then assoc m k else none

/-- `_nodeRepr.LookupByString`: translate the representation string to the member, then the type-level lookup. -/
def lookupRepr (e : EnumTy) (m : EMap) (k : Bytes) : Option Int :=
  match memberOfRepr e k with
  | none => none
  | some n => lookupType e m n

/-! ### Building -/

/-- One `AssembleEntry(k)` / `AssembleKey().AssignString(k)` + value: the state after the call and whether the call
    succeeded.  A refused key (not a key of the level, or the member is already present) changes nothing. -/
def step (lvl : Level) (e : EnumTy) (st : EMap) (kv : Bytes × Int) : EMap × Bool :=
  match resolve lvl e kv.1 with
  | none => (st, false)
  | some n => if (keys st).contains n then (st, false) else (st ++ [(n, kv.2)], true)

/-- The calls in order; the first refusal is the builder's error. -/
def buildFrom (lvl : Level) (e : EnumTy) : EMap → List (Bytes × Int) → Option EMap
  | st, [] => some st
  | st, kv :: rest =>
    match step lvl e st kv with
    | (st', true) => buildFrom lvl e st' rest
    | (_, false) => none

def build (lvl : Level) (e : EnumTy) (input : List (Bytes × Int)) : Option EMap := buildFrom lvl e [] input
def buildType (e : EnumTy) (input : List (Bytes × Int)) : Option EMap := build .type e input
def buildRepr (e : EnumTy) (input : List (Bytes × Int)) : Option EMap := build .repr e input

/-- The views as data-model maps (what the driver prints). -/
def toDM (es : List (Bytes × Int)) : DM := .map (DMKVs.ofList (es.map fun kv => (kv.1, DM.int kv.2)))

/-- A data-model map with integer values, as builder input (`none`: not of that shape). -/
def ofDM : DM → Option (List (Bytes × Int))
  | .map es => es.toList.mapM fun kv => match kv.2 with | .int i => some (kv.1, i) | _ => none
  | _ => none

end Ipld.EnumKey
