/-
  Representation-level assemblers: the values the machine holds.  `RGood ty nul v`: `v` conforms to `ty`
  (`Schema.conforms`) and has the canonical shape in which every tuple-represented struct is dense (`Schema.shapeOK`) -
  the two facts from which "no key twice", "canonical form" and "has a representation" follow (C08's `total`).  What each
  kind of frame yields on `Finish` is `RGood` for the frame's type.
-/
import IpldModel.Lemmas.ReprAssemblerCalls
import IpldModel.Lemmas.SchemaShape
namespace Ipld
namespace RAsm
open Ipld.Asm (Op Out ErrClass)
open Ipld.Schema (Ty Fields Members Field Member TL TLs TLKVs canonFields wrapPath conforms conformsList conformsMap
  conformsStruct anyOK anyOKs anyOKkv shapeOK)
open Ipld.TAsm (Phase Pos hasKey inInt64 Call NoDup NoDups NoDupVals keysOf)

/-- conforms to the type (in a slot that is nullable or not) and has the shape of a typed node that has a representation -/
def RGood (ty : Ty) (nul : Bool) (v : TL) : Prop := conforms ty nul v = true ∧ shapeOK ty v = true

/-! ### a conforming value carries no key twice -/

mutual
theorem conforms_noDup : (v : TL) → (ty : Ty) → (nul : Bool) → conforms ty nul v = true → NoDup v
  | .list xs, ty, nul, h => by
    unfold conforms at h
    simp only [NoDup]
    split at h
    · exact conformsList_noDups xs _ _ h
    · exact anyOKs_noDups xs (by simpa [anyOK] using h)
    · cases h
  | .map es, ty, nul, h => by
    unfold conforms at h
    simp only [NoDup]
    split at h
    · exact ⟨(conformsMap_noDup es _ _ [] h).1, (conformsMap_noDup es _ _ [] h).2.2⟩
    · exact ⟨(conformsStruct_noDup es _ [] h).1, (conformsStruct_noDup es _ [] h).2.2⟩
    · split at h
      · rename_i k v
        split at h
        · rename_i m _
          refine ⟨by simp [keysOf, TLKVs.toList], ?_⟩
          simp only [NoDupVals, and_true]
          exact conforms_noDup v m.ty false h
        · cases h
      · cases h
    · have := anyOKkv_noDup es [] (by simpa [anyOK] using h)
      exact ⟨this.1, this.2.2⟩
    · cases h
  | .absent, _, _, _ => trivial
  | .null, _, _, _ => trivial
  | .bool _, _, _, _ => trivial
  | .int _, _, _, _ => trivial
  | .float _, _, _, _ => trivial
  | .str _, _, _, _ => trivial
  | .bytes _, _, _, _ => trivial
  | .link _, _, _, _ => trivial
theorem conformsList_noDups : (xs : TLs) → (ety : Ty) → (enul : Bool) → conformsList ety enul xs = true → NoDups xs
  | .nil, _, _, _ => trivial
  | .cons x xs, ety, enul, h => by
    simp only [conformsList, Bool.and_eq_true] at h
    exact ⟨conforms_noDup x ety enul h.1, conformsList_noDups xs ety enul h.2⟩
theorem conformsMap_noDup : (es : TLKVs) → (vty : Ty) → (vnul : Bool) → (seen : List Bytes) →
    conformsMap vty vnul seen es = true → (keysOf es).Nodup ∧ (∀ k ∈ keysOf es, k ∉ seen) ∧ NoDupVals es
  | .nil, _, _, _, _ => by simp [keysOf, TLKVs.toList, NoDupVals]
  | .cons k v es, vty, vnul, seen, h => by
    simp only [conformsMap, Bool.and_eq_true, Bool.not_eq_true', List.contains_eq_mem, decide_eq_false_iff_not] at h
    obtain ⟨h1, h2, h3⟩ := conformsMap_noDup es vty vnul (k :: seen) h.2
    refine ⟨?_, ?_, conforms_noDup v vty vnul h.1.2, h3⟩
    · simp only [keysOf, TLKVs.toList, List.map_cons, List.nodup_cons]
      exact ⟨fun hk => (h2 k hk) (by simp), h1⟩
    · intro k' hk'
      simp only [keysOf, TLKVs.toList, List.map_cons, List.mem_cons] at hk'
      rcases hk' with rfl | hk'
      · exact h.1.1
      · intro hs; exact h2 k' hk' (by simp [hs])
theorem conformsStruct_noDup : (es : TLKVs) → (fs : List Field) → (seen : List Bytes) →
    conformsStruct fs seen es = true → (keysOf es).Nodup ∧ (∀ k ∈ keysOf es, k ∉ seen) ∧ NoDupVals es
  | .nil, _, _, _ => by simp [keysOf, TLKVs.toList, NoDupVals]
  | .cons k v es, fs, seen, h => by
    unfold conformsStruct at h
    split at h
    · cases h
    · rename_i f _
      simp only [Bool.and_eq_true, Bool.not_eq_true', List.contains_eq_mem, decide_eq_false_iff_not] at h
      obtain ⟨h1, h2, h3⟩ := conformsStruct_noDup es fs (k :: seen) h.2
      refine ⟨?_, ?_, ?_, h3⟩
      · simp only [keysOf, TLKVs.toList, List.map_cons, List.nodup_cons]
        exact ⟨fun hk => (h2 k hk) (by simp), h1⟩
      · intro k' hk'
        simp only [keysOf, TLKVs.toList, List.map_cons, List.mem_cons] at hk'
        rcases hk' with rfl | hk'
        · exact h.1.1
        · intro hs; exact h2 k' hk' (by simp [hs])
      · have := h.1.2
        cases v with
        | absent => trivial
        | null => trivial
        | bool _ => trivial
        | int _ => trivial
        | float _ => trivial
        | str _ => trivial
        | bytes _ => trivial
        | link _ => trivial
        | list xs => exact conforms_noDup (.list xs) f.ty f.nullable this
        | map ms => exact conforms_noDup (.map ms) f.ty f.nullable this
theorem anyOK_noDup : (v : TL) → anyOK v = true → NoDup v
  | .list xs, h => by simp only [NoDup]; exact anyOKs_noDups xs (by simpa [anyOK] using h)
  | .map es, h => by
    have := anyOKkv_noDup es [] (by simpa [anyOK] using h)
    exact ⟨this.1, this.2.2⟩
  | .absent, _ => trivial
  | .null, _ => trivial
  | .bool _, _ => trivial
  | .int _, _ => trivial
  | .float _, _ => trivial
  | .str _, _ => trivial
  | .bytes _, _ => trivial
  | .link _, _ => trivial
theorem anyOKs_noDups : (xs : TLs) → anyOKs xs = true → NoDups xs
  | .nil, _ => trivial
  | .cons x xs, h => by
    simp only [anyOKs, Bool.and_eq_true] at h
    exact ⟨anyOK_noDup x h.1, anyOKs_noDups xs h.2⟩
theorem anyOKkv_noDup : (es : TLKVs) → (seen : List Bytes) → anyOKkv seen es = true →
    (keysOf es).Nodup ∧ (∀ k ∈ keysOf es, k ∉ seen) ∧ NoDupVals es
  | .nil, _, _ => by simp [keysOf, TLKVs.toList, NoDupVals]
  | .cons k v es, seen, h => by
    simp only [anyOKkv, Bool.and_eq_true, Bool.not_eq_true', List.contains_eq_mem, decide_eq_false_iff_not] at h
    obtain ⟨h1, h2, h3⟩ := anyOKkv_noDup es (k :: seen) h.2
    refine ⟨?_, ?_, anyOK_noDup v h.1.2, h3⟩
    · simp only [keysOf, TLKVs.toList, List.map_cons, List.nodup_cons]
      exact ⟨fun hk => (h2 k hk) (by simp), h1⟩
    · intro k' hk'
      simp only [keysOf, TLKVs.toList, List.map_cons, List.mem_cons] at hk'
      rcases hk' with rfl | hk'
      · exact h.1.1
      · intro hs; exact h2 k' hk' (by simp [hs])
end

/-! ### what `RGood` gives -/

theorem RGood.noDup {ty : Ty} {nul : Bool} {v : TL} (h : RGood ty nul v) : NoDup v := conforms_noDup v ty nul h.1

/-- a good value has a representation (C08: `Schema.total`) ... -/
theorem RGood.has_repr {ty : Ty} {nul : Bool} {v : TL} (hwf : ty.wf = true) (h : RGood ty nul v) :
    ∃ d, Schema.toRepr ty nul v = some d := Schema.total v ty nul hwf h.1 h.2

/-- ... and is therefore in canonical form -/
theorem RGood.canon {ty : Ty} {nul : Bool} {v : TL} (hwf : ty.wf = true) (h : RGood ty nul v) :
    Schema.normalize ty v = v := by
  obtain ⟨d, hd⟩ := h.has_repr hwf
  exact Schema.normalize_of_repr v ty nul hwf d hd

theorem RGood.mono {ty : Ty} {nul : Bool} {v : TL} (h : RGood ty false v) : RGood ty nul v :=
  ⟨Schema.conforms_mono_nul ty nul v h.1, h.2⟩

/-! ### values by origin -/

/-- what the whole-value builder makes of a scalar -/
theorem good_built {ty : Ty} {nul : Bool} {d : DM} {v : TL} (hwf : ty.wf = true)
    (h : Schema.build Schema.Engine.ideal .repr ty nul none d = .ok v) : RGood ty nul v :=
  ⟨Schema.build_conforms .repr d ty nul hwf v h, Schema.build_shape d ty nul hwf v h⟩

theorem good_list {ety : Ty} {enul : Bool} (nul : Bool) {xs : List TL} (h : ∀ x ∈ xs, RGood ety enul x) :
    RGood (.list ety enul) nul (.list (TLs.ofList xs)) := by
  refine ⟨?_, ?_⟩
  · unfold conforms
    exact Schema.conformsList_ofList ety enul xs (fun y hy => (h y hy).1)
  · unfold shapeOK
    exact Schema.shapeOKList_ofList ety xs (fun y hy => (h y hy).2)

theorem good_map {vty : Ty} {vnul : Bool} (nul : Bool) {es : List (Bytes × TL)} (hnd : (es.map (·.1)).Nodup)
    (h : ∀ p ∈ es, RGood vty vnul p.2) : RGood (.map vty vnul) nul (.map (TLKVs.ofList es)) := by
  refine ⟨?_, ?_⟩
  · unfold conforms
    exact Schema.conformsMap_ofList vty vnul es [] hnd (by simp) (fun p hp => (h p hp).1)
  · unfold shapeOK
    exact Schema.shapeOKMap_ofList vty es (fun p hp => (h p hp).2)

/-- the entries a struct / tuple frame holds: under distinct field names, each good for its field -/
def EntriesOK (fs : List Field) (es : List (Bytes × TL)) : Prop :=
  (es.map (·.1)).Nodup ∧ ∀ p ∈ es, ∃ f ∈ fs, f.name = p.1 ∧ RGood f.ty f.nullable p.2

/-- the entries as a lookup by field name -/
def lookupFn (es : List (Bytes × TL)) : Bytes → Option TL := fun n => (es.find? (fun e => e.1 == n)).map (·.2)

theorem canonFields_eq (fs : List Field) (es : List (Bytes × TL)) :
    canonFields fs es = fs.map fun f => (f.name, (lookupFn es f.name).getD .absent) := by
  unfold canonFields lookupFn
  apply List.map_congr_left
  intro f _
  cases es.find? (fun e => e.1 == f.name) with
  | none => rfl
  | some p => obtain ⟨k, v⟩ := p; rfl

theorem lookupFn_isSome (es : List (Bytes × TL)) (n : Bytes) : (lookupFn es n).isSome = hasKey es n := by
  unfold lookupFn hasKey
  simp only [Option.isSome_map]
  rw [Bool.eq_iff_iff]
  simp only [List.find?_isSome, List.any_eq_true]

theorem lookupFn_mem {es : List (Bytes × TL)} {n : Bytes} {v : TL} (h : lookupFn es n = some v) : (n, v) ∈ es := by
  unfold lookupFn at h
  cases hf : es.find? (fun e => e.1 == n) with
  | none => simp [hf] at h
  | some p =>
    simp only [hf, Option.map_some, Option.some.injEq] at h
    have h1 := List.find?_some hf
    have h2 := List.mem_of_find?_eq_some hf
    obtain ⟨k, w⟩ := p
    simp only [beq_iff_eq] at h1
    simp only at h
    subst h1; subst h
    exact h2

theorem EntriesOK.gok {fs : List Field} {es : List (Bytes × TL)} (hnd : (fs.map (·.name)).Nodup)
    (h : EntriesOK fs es) : Schema.GOK fs (lookupFn es) ∧ Schema.GSh fs (lookupFn es) := by
  have key : ∀ f ∈ fs, ∀ v, lookupFn es f.name = some v → RGood f.ty f.nullable v := by
    intro f hf v hv
    obtain ⟨f', hf', hn, hg⟩ := h.2 _ (lookupFn_mem hv)
    have := Schema.eq_of_name_eq fs hnd f' f hf' hf hn
    subst this
    exact hg
  exact ⟨fun f hf v hv => (key f hf v hv).1,
    fun f hf v hv => ⟨(key f hf v hv).2, Schema.conforms_ne_absent _ _ _ (key f hf v hv).1⟩⟩

/-- `Finish` of a struct assembler, map representation (or any representation that is no tuple) -/
theorem good_struct {F : Fields} {r : Schema.StructRepr} (hr : r ≠ .tuple) (nul : Bool) {es : List (Bytes × TL)}
    (hnd : (F.toList.map (·.name)).Nodup) (hes : EntriesOK F.toList es) (hreq : fieldsDone F.toList es = true) :
    RGood (.struct F r) nul (.map (TLKVs.ofList (canonFields F.toList es))) := by
  obtain ⟨hg1, hg2⟩ := hes.gok hnd
  have hfin : (Schema.SSt.ofFn F.toList (lookupFn es)).finish F.toList =
      .ok (.map (TLKVs.ofList (canonFields F.toList es))) := by
    rw [Schema.SSt.ofFn_finish, canonFields_eq]
    simp only [lookupFn_isSome]
    unfold fieldsDone at hreq
    simp [hreq]
  exact ⟨Schema.finish_conforms F r nul hnd _ hg1 _ hfin, Schema.finish_shape F r hr _ hg2 _ hfin⟩

/-- `Finish` of a tuple assembler: the fields reached are the first `es.length` -/
theorem good_tuple {F : Fields} (nul : Bool) {es : List (Bytes × TL)}
    (hnd : (F.toList.map (·.name)).Nodup) (hes : EntriesOK F.toList es)
    (hpre : es.map (·.1) = (F.toList.take es.length).map (·.name)) (hreq : fieldsDone F.toList es = true) :
    RGood (.struct F .tuple) nul (.map (TLKVs.ofList (canonFields F.toList es))) := by
  obtain ⟨hg1, hg2⟩ := hes.gok hnd
  have hfin : (Schema.SSt.ofFn F.toList (lookupFn es)).finish F.toList =
      .ok (.map (TLKVs.ofList (canonFields F.toList es))) := by
    rw [Schema.SSt.ofFn_finish, canonFields_eq]
    simp only [lookupFn_isSome]
    unfold fieldsDone at hreq
    simp [hreq]
  refine ⟨Schema.finish_conforms F .tuple nul hnd _ hg1 _ hfin, ?_⟩
  apply Schema.finish_shape_tuple F (F.toList.take es.length) (F.toList.drop es.length)
    (List.take_append_drop _ _).symm _ hg2 _ _ _ hfin
  · intro f hf
    rw [lookupFn_isSome, TAsm.hasKey_iff, hpre]
    exact List.mem_map_of_mem hf
  · intro f hf
    have hnot : hasKey es f.name = false := by
      rw [TAsm.hasKey_false_iff, hpre]
      intro hmem
      obtain ⟨f', hf', hn⟩ := List.mem_map.1 hmem
      -- a name in the first part and in the rest: the names are distinct
      have hsplit := List.take_append_drop es.length F.toList
      rw [← hsplit, List.map_append, List.nodup_append] at hnd
      exact hnd.2.2 _ (List.mem_map_of_mem hf') _ (List.mem_map_of_mem hf) hn
    have := lookupFn_isSome es f.name
    rw [hnot] at this
    cases hl : lookupFn es f.name with
    | none => rfl
    | some v => simp [hl] at this

/-- `Finish` of a keyed-union assembler -/
theorem good_union {M : Members} {ur : Schema.UnionRepr} (nul : Bool) (hnd : (M.toList.map (·.name)).Nodup)
    {m : Member} (hm : m ∈ M.toList) {v : TL} (hv : RGood m.ty false v) :
    RGood (.union M ur) nul (.map (.cons m.name v .nil)) :=
  ⟨Schema.conforms_union_single M ur nul hnd m hm v hv.1, Schema.shapeOK_union_single M ur hnd m hm v hv.2⟩

/-- the member names of the kinded union(s) a container was begun through, wrapped around its value -/
theorem good_wrap {ty ty' : Ty} {nul : Bool} {k : Kind} {path : List Bytes} (hwf : ty.wf = true)
    (h : Schema.resolveKinded Schema.Engine.ideal nul k ty = .ok (ty', path)) {v : TL} (hv : RGood ty' false v) :
    RGood ty nul (wrapPath path v) :=
  ⟨(Schema.resolveKinded_conforms nul k ty hwf ty' path h).2 v nul hv.1,
   Schema.resolveKinded_shape nul k ty hwf ty' path h v hv.2⟩

theorem resolved_wf {ty ty' : Ty} {nul : Bool} {k : Kind} {path : List Bytes} (hwf : ty.wf = true)
    (h : Schema.resolveKinded Schema.Engine.ideal nul k ty = .ok (ty', path)) : ty'.wf = true :=
  (Schema.resolveKinded_conforms nul k ty hwf ty' path h).1

end RAsm
end Ipld
