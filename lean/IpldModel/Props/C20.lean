/-
  C20 — builders created from shared prototypes and readers of shared finished nodes may run
  concurrently.  Stated over the multi-builder layer of the heap model (`Conc`, `cstep`, `crun` in
  `IpldModel/Model/Heap.lean`): several builders, each with its own assembler stack, take turns on
  one shared heap; a schedule is any interleaving of their calls.  Property theorems only; the
  lifted invariant `CInv`, the ownership bookkeeping (`Own`) and the comparison through the
  abstraction `toPure` are in `IpldModel/Lemmas/HeapConc.lean`.  See DESIGN §5 C20.

  This is a model-level statement of data-race freedom: a data race needs two accesses to one
  location by different goroutines, at least one a write.  `private_writes`/`no_conflict` show
  that, under every schedule, two builders never write the same location and no builder writes a
  location that a reader of a shared finished node reads.
-/
import IpldModel.Lemmas.HeapConc
import IpldModel.Lemmas.HeapExamples
import IpldModel.Generated.GlobalWrites
namespace Ipld.Props.C20
open Ipld Ipld.Asm Ipld.Heap

/-- The lifted invariant holds of builders that have not started, on any heap satisfying the heap
    invariant (for instance the heap left by any well-formed single-builder history). -/
theorem conc_inv_init {h : H} {ths : List Thread} {w : List (Nat × Loc)} (hh : HeapInv h)
    (hf : ∀ th ∈ ths, th.frames = [] ∧ th.root = none) :
    CInv { h := h, threads := ths, written := w } :=
  cinv_fresh hh hf

/-- The lifted invariant (heap invariant; the objects under construction by all builders together
    are unfinished and pairwise distinct, hence own their arrays and lookup maps exclusively) is
    preserved by every well-formed schedule. -/
theorem conc_inv {c : Conc} {sched : List (Nat × HOp)} (hc : CInv c) (hw : SchedWf c sched) :
    CInv (crun c sched) :=
  crun_inv hc hw

/-! ### B1 — writes are private -/

/-- Start with builders that have no frames yet.  Under every well-formed schedule, every location
    written by any builder was allocated after the start: an object header, array or lookup map
    that did not exist in the initial heap. -/
theorem private_writes {c : Conc} {sched : List (Nat × HOp)} (hc : CInv c)
    (hnf : ∀ th ∈ c.threads, th.frames = []) (hw : SchedWf c sched) :
    ∃ w, (crun c sched).written = w ++ c.written ∧ ∀ e ∈ w, FreshLoc c.h e.2 := by
  obtain ⟨w, ow, e, ho⟩ := crun_own (own_init c hnf) hc hw
  refine ⟨w, e, ?_⟩
  intro x hx
  exact (ho.writes x (by rw [List.append_nil]; exact hx)).fresh

/-- No conflicts.  Under every well-formed schedule from builders without frames: (1) a location is
    written by at most one builder — if two logged writes hit the same location they are by the
    same thread; (2) no written location is in the read set of a node that was finished in the
    initial heap.  So builders race neither with each other nor with readers of shared nodes. -/
theorem no_conflict {c : Conc} {sched : List (Nat × HOp)} (hc : CInv c)
    (hnf : ∀ th ∈ c.threads, th.frames = []) (hw : SchedWf c sched) :
    ∃ w, (crun c sched).written = w ++ c.written ∧
      (∀ e₁ ∈ w, ∀ e₂ ∈ w, e₁.2 = e₂.2 → e₁.1 = e₂.1) ∧
      (∀ e ∈ w, ∀ id ∈ c.h.finished, ∀ fuel, e.2 ∉ readSet c.h fuel (.obj id)) := by
  obtain ⟨w, ow, e, ho⟩ := crun_own (own_init c hnf) hc hw
  obtain ⟨w', e', hr⟩ := crun_written_shared hc hw
  have hww : w' = w := List.append_cancel_right (e'.symm.trans e)
  subst hww
  refine ⟨w', e, ?_, hr⟩
  intro e₁ h₁ e₂ h₂ heq
  have o₁ := ho.writes e₁ (by rw [List.append_nil]; exact h₁)
  have o₂ := ho.writes e₂ (by rw [List.append_nil]; exact h₂)
  rw [heq] at o₁
  exact o₁.unique o₂

/-- Part (2) does not need the builders to be fresh: from any state satisfying the lifted invariant
    (builders may be in the middle of their work), no call of any builder writes a location that a
    reader of an already finished node reads. -/
theorem readers_undisturbed {c : Conc} {sched : List (Nat × HOp)} (hc : CInv c) (hw : SchedWf c sched) :
    ∃ w, (crun c sched).written = w ++ c.written ∧
      ∀ e ∈ w, ∀ id ∈ c.h.finished, ∀ fuel, e.2 ∉ readSet c.h fuel (.obj id) :=
  crun_written_shared hc hw

/-- Every node finished in the shared heap reads the same (with any fuel) after any well-formed
    schedule of the builders. -/
theorem shared_nodes_stable {c : Conc} {sched : List (Nat × HOp)} (hc : CInv c) (hw : SchedWf c sched)
    {id : Nat} (hid : id ∈ c.h.finished) (fuel : Nat) :
    absRef (crun c sched).h fuel (.obj id) = absRef c.h fuel (.obj id) :=
  absRef_congr (· ∈ c.h.finished) (fun _ hj => crun_same hc hw hj) hc.heap.closed_fin fuel id hid

/-! ### B2 — an interleaved run builds what the builder builds alone -/

/-- Let every node handed in by reference (`assignNode (.obj id)`, the shortcut) be a node that is
    finished in the initial shared heap (`Refs0`: shared prototypes / shared finished nodes; object
    ids allocated during the run differ between an interleaved run and a run alone, so a schedule
    cannot meaningfully name them).  Let thread `tid` start fresh.  Then for every schedule, the
    builder state of thread `tid` after the interleaved run and the state of a builder running
    thread `tid`'s calls alone from the same initial heap stand for the same pure assembler state:
    same stack of partially built containers, same built value.  Stated on abstractions (`toPure`,
    i.e. `absRef` of everything the builder holds), for fuel exceeding the number of finished nodes
    in either final heap. -/
theorem interleave_eq_seq {c : Conc} {sched : List (Nat × HOp)} (hc : CInv c)
    (hops : ∀ e ∈ sched, Refs0 c.h.finished e.2) {tid : Nat} {th : Thread}
    (hth : c.threads[tid]? = some th) (hfr : th.frames = []) (hrt : th.root = none) (fuel : Nat)
    (hF₁ : (crun c sched).h.finished.length < fuel)
    (hF₂ : (hrun { h := c.h } (projection sched tid)).h.finished.length < fuel) :
    ∃ th', (crun c sched).threads[tid]? = some th' ∧
      toPure fuel (thSt (crun c sched).h th') =
        toPure fuel (hrun { h := c.h } (projection sched tid)) := by
  have hp : PInv (thPure fuel c.h th) := by
    intro f hf; simp [thPure, toPure, thSt, hfr] at hf
  obtain ⟨th', hth', h1⟩ := conc_arun fuel (absRef c.h fuel) c.h.finished hc (fun _ h => h)
    (fun _ _ => rfl) (fun d => absRef_scalar _ _ d) hops hF₁ hth hp
  have hi : HInvO [] ({ h := c.h } : HSt) := {
    heap := hc.heap
    ids_lt := by intro id hid; simp [frameIds] at hid
    ids_unfin := by intro id hid; simp [frameIds] at hid
    ids_nodup := by simp [frameIds]
    kinds := by intro p hp; simp at hp
    root := by intro v hv; cases hv }
  have hops2 : ∀ op ∈ projection sched tid, Refs0 c.h.finished op := by
    intro op hop
    simp only [projection, List.mem_filterMap] at hop
    obtain ⟨e, he, hop⟩ := hop
    split at hop
    · cases hop; exact hops e he
    · cases hop
  have h2 := solo_arun (s := { h := c.h }) fuel (absRef c.h fuel) c.h.finished hi
    (by intro f hf; simp [toPure] at hf) (fun _ h => h) (fun _ _ => rfl)
    (fun d => absRef_scalar _ _ d) hops2 hF₂
  refine ⟨th', hth', ?_⟩
  have e0 : thPure fuel c.h th = toPure fuel ({ h := c.h } : HSt) := by
    simp [thPure, toPure, thSt, hfr, hrt]
  rw [h2, ← e0]; exact h1

/-- In particular the built values agree: what thread `tid` holds as its root after the interleaved
    run reads as the same data-model value as the root of the run alone.  The fuel bound is given
    here in closed form: more than the finished nodes of the initial heap plus the number of calls. -/
theorem interleave_builds_same {c : Conc} {sched : List (Nat × HOp)} (hc : CInv c)
    (hops : ∀ e ∈ sched, Refs0 c.h.finished e.2) {tid : Nat} {th : Thread}
    (hth : c.threads[tid]? = some th) (hfr : th.frames = []) (hrt : th.root = none) (fuel : Nat)
    (hF : c.h.finished.length + sched.length < fuel) :
    ∃ th', (crun c sched).threads[tid]? = some th' ∧
      th'.root.map (absRef (crun c sched).h fuel) =
        (hrun { h := c.h } (projection sched tid)).root.map
          (absRef (hrun { h := c.h } (projection sched tid)).h fuel) := by
  have h1 := crun_finished_length_le c sched
  have h2 := hrun_finished_length_le ({ h := c.h } : HSt) (projection sched tid)
  have h3 := projection_length_le sched tid
  have h4 : ({ h := c.h } : HSt).h.finished.length = c.h.finished.length := rfl
  obtain ⟨th', hth', he⟩ := interleave_eq_seq hc hops hth hfr hrt fuel (by omega) (by omega)
  exact ⟨th', hth', congrArg St.root he⟩

/-! ### examples -/

/-- three fresh builders on the heap in which node 0 = {a: 1, b: 2} is finished -/
example : CInv conc0 :=
  conc_inv_init (hrun_inv hinv_init (by decide : HistWf {} histA)).heap (by decide)

example : ∀ e ∈ sched0, Refs0 conc0.h.finished e.2 := by decide

/-- the shared node after the interleaved run -/
example : absRef (crun conc0 sched0).h 5 (.obj 0) = .map (.cons ka (.int 1) (.cons kb (.int 2) .nil)) := by
  decide

/-- what the three builders built: {c: node 0}, node 0 itself (a header copy), [node 0, 7, node 0] -/
example : (crun conc0 sched0).threads.map (fun th => th.root.map (absRef (crun conc0 sched0).h 5)) =
    [some (.map (.cons kc (.map (.cons ka (.int 1) (.cons kb (.int 2) .nil))) .nil)),
     some (.map (.cons ka (.int 1) (.cons kb (.int 2) .nil))),
     some (.list (.cons (.map (.cons ka (.int 1) (.cons kb (.int 2) .nil)))
       (.cons (.int 7) (.cons (.map (.cons ka (.int 1) (.cons kb (.int 2) .nil))) .nil))))] := by
  decide

/-- thread 2 alone builds the same value (object ids differ: 2 in the interleaved run, 1 alone) -/
example : (hrun { h := conc0.h } (projection sched0 2)).root.map
      (absRef (hrun { h := conc0.h } (projection sched0 2)).h 5) =
    some (.list (.cons (.map (.cons ka (.int 1) (.cons kb (.int 2) .nil)))
       (.cons (.int 7) (.cons (.map (.cons ka (.int 1) (.cons kb (.int 2) .nil))) .nil)))) := by
  decide

example : ((crun conc0 sched0).threads.map (·.root), (hrun { h := conc0.h } (projection sched0 2)).root) =
    ([some (.obj 1), some (.obj 3), some (.obj 2)], some (.obj 1)) := by
  decide

/-- the theorem instead of evaluation: thread 2's value, interleaved and alone, for every large fuel -/
example (fuel : Nat) (hF : 14 < fuel) :
    ∃ th', (crun conc0 sched0).threads[2]? = some th' ∧
      th'.root.map (absRef (crun conc0 sched0).h fuel) =
        (hrun { h := conc0.h } (projection sched0 2)).root.map
          (absRef (hrun { h := conc0.h } (projection sched0 2)).h fuel) :=
  interleave_builds_same (c := conc0) (sched := sched0)
    (conc_inv_init (hrun_inv hinv_init (by decide : HistWf {} histA)).heap (by decide))
    (by decide) (th := {}) rfl rfl rfl fuel
    (Nat.lt_of_le_of_lt (Nat.le_of_eq (by decide : conc0.h.finished.length + sched0.length = 14)) hF)

/-- every write of the interleaved run went to a location allocated after the start -/
example : ∀ e ∈ (crun conc0 sched0).written, FreshLoc conc0.h e.2 := by
  decide


/-- (T) Shared mutable state outside the heap model: the package-level variables of the anchored packages that any
    function other than `init` writes, re-extracted from the source on this run, are exactly these — the registry
    of inferred bindnode schemas and its memo table (the recorded known finding: written under a mutex, but read without one) and the default multicodec registry, written only by its
    registration functions (set-up by contract).  Every other package-level variable is written by `init` at most,
    i.e. shared state is confined to the heap cells the theorems above talk about.  A new writer breaks this. -/
theorem globalWrites_src_inventory :
    Ipld.Generated.globalWrites_src =
      [("node/bindnode", "defaultTypeSystem", ["inferSchemaLocked"]),
       ("node/bindnode", "inferredSchemas", ["inferSchemaLocked"]),
       ("multicodec", "DefaultRegistry", ["RegisterDecoder", "RegisterEncoder"])] := by decide

end Ipld.Props.C20
