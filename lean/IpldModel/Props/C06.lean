/-
  C06 — no load returns data that does not hash to its link, whatever the storage does.
  Property theorems only.  All statements are for an arbitrary hash function `H`
  (hence "modulo collisions" by construction), an arbitrary reader (any content, a read error at any
  offset) and an arbitrary decoder behaviour (pulls any number of bytes, succeeds or fails).
-/
import IpldModel.Model.Link
import IpldModel.Model.Cbor
import IpldModel.Generated.LinkSkeletons
import IpldModel.Lemmas.LinkMore
namespace Ipld.Props.C06
open Ipld Ipld.Link

variable (H : Nat → Bytes → Bytes)

/-- Untrusted storage: whenever `Fill` succeeds, the bytes the hasher saw hash to the link. -/
theorem fill_ok_hashes (l : Lnk) (s : Stream) (d : DecRun) (h : fill H false l s d = .ok) :
    hashesTo H l (hasherSaw s d) = true := by
  obtain ⟨_, h2, h3⟩ := (Link.fill_ok_iff H l s d).mp h
  simpa [hasherSaw, Stream.deliverable, h2] using h3

/-- A successful `Fill` means the *whole block* hashes to the link - for EVERY decoder behaviour.  (Before the library
    fix that drains the stream unconditionally this needed the hypothesis that the decoder consumes the whole block
    whenever it succeeds - true of the bundled codecs in their default configuration, false of a decoder configured
    with `DontParseBeyondEnd`, and at that excluded point the real code accepted an extended block.) -/
theorem fill_ok_whole_block (l : Lnk) (s : Stream) (d : DecRun)
    (h : fill H false l s d = .ok) : s.failAt = none ∧ hashesTo H l s.data = true :=
  ((Link.fill_ok_iff H l s d).mp h).2

/-- The hash verdict takes precedence over the decoder's: with no I/O error, a block that does not
    hash to the link yields `hashMismatch` even though decoding failed (first). -/
theorem mismatch_precedes_decode (l : Lnk) (s : Stream) (d : DecRun)
    (hio : s.failAt = none) (hbad : hashesTo H l s.data = false) (hd : d.failed = true) :
    fill H false l s d = .hashMismatch := by
  simp [fill, hio, hbad, hd]

/-- …and a successful decode - of however much of the stream - is a `hashMismatch` too when the whole stream does not
    hash to the link. -/
theorem mismatch_on_success (l : Lnk) (s : Stream) (d : DecRun) (hio : s.failAt = none)
    (hd : d.failed = false) (hbad : hashesTo H l s.data = false) :
    fill H false l s d = .hashMismatch := by
  simp [fill, hio, hbad, hd]

/-- the verdict on the hash does not depend on what the decoder did -/
theorem mismatch_whatever_the_decoder (l : Lnk) (s : Stream) (d : DecRun) (hio : s.failAt = none)
    (hbad : hashesTo H l s.data = false) : fill H false l s d = .hashMismatch := by
  simp [fill, hio, hbad]

/-- A read error surfaces as an I/O error (never as data, never as a decode verdict), also when the decoder had
    finished before the failure point. -/
theorem io_surfaces (l : Lnk) (s : Stream) (d : DecRun) (f : Nat)
    (hio : s.failAt = some f) :
    fill H false l s d = .ioErr := by
  simp [fill, hio]

/-- `LoadRaw` returns bytes only together with `ok`, and then they are the whole block and hash to the link. -/
theorem loadRaw_ok_hashes (l : Lnk) (s : Stream) (b : Bytes) (r : Res)
    (h : loadRaw H l s = (r, some b)) : r = .ok ∧ b = s.data ∧ hashesTo H l b = true := by
  unfold loadRaw at h
  cases hfa : s.failAt with
  | some f => simp [hfa] at h
  | none =>
    simp only [hfa] at h
    split at h
    · rename_i hh
      simp only [Prod.mk.injEq, Option.some.injEq] at h
      obtain ⟨h1, h2⟩ := h
      subst h2
      exact ⟨h1.symm, rfl, hh⟩
    · simp at h

/-- A store whose encoder fails, or whose storage writer fails on any write, never reaches the committer. -/
theorem store_fail_no_commit (p : Proto) (e : EncRun)
    (h : e.encFails = true ∨ ∃ j, e.writerFailsAt = some j ∧ j < e.writes.length) :
    store H p e = .failed := by
  unfold store
  rcases h with h | ⟨j, hj, hlt⟩
  · cases hw : e.writerFailsAt with
    | none => simp [h]
    | some j => simp [h]
  · simp [hj, hlt]

/-- dag-cbor (model): a successful decode in the default mode has consumed every byte it was given. -/
theorem dagcbor_ok_consumes_all (cfg : Cbor.DecCfg) (bs : Bytes) (v : DM)
    (hm : cfg.dontParseBeyondEnd = false) (h : Cbor.decode cfg bs = .ok v) :
    ∃ st, Cbor.decItem cfg (bs.length + 1) 0 0 none { rest := bs, budget := cfg.budget } = .ok (v, st) ∧ st.rest = [] := by
  unfold Cbor.decode at h
  cases hd : Cbor.decItem cfg (bs.length + 1) 0 0 none { rest := bs, budget := cfg.budget } with
  | error e => simp [hd, bind, Except.bind] at h
  | ok r =>
    obtain ⟨v', st⟩ := r
    simp only [hd, bind, Except.bind, hm, Bool.false_eq_true, if_false, pure, Except.pure] at h
    by_cases he : st.rest.isEmpty = true
    · simp only [he, if_true, Except.ok.injEq] at h
      subst h
      exact ⟨st, rfl, by simpa using he⟩
    · simp [he] at h

/-! Non-vacuity: a concrete run of each shape (with a toy hash so that everything evaluates). -/
def toyH : Nat → Bytes → Bytes := fun _ b => [UInt8.ofNat b.length, b.headD 0]
def toyL : Lnk := ⟨1, 0x71, 0x12, [2, 0xf5]⟩
example : fill toyH false toyL ⟨[0xf5, 0x00], none⟩ ⟨2, false⟩ = .ok := by decide
example : fill toyH false toyL ⟨[0xf4, 0x00], none⟩ ⟨2, true⟩ = .hashMismatch := by decide
example : fill toyH false toyL ⟨[0xf5, 0x00], some 1⟩ ⟨1, true⟩ = .ioErr := by decide
example : store toyH ⟨1, 0x71, 0x12, -1⟩ ⟨[[0xf5], [0x00]], false, some 1⟩ = .failed := by decide

/-! ## The verdicts of `Fill`, exactly -/

/-- `Fill` on untrusted storage says `ok` exactly when the decoder succeeded, the stream was read to its end without
    error and the WHOLE stream hashes to the link. -/
theorem fill_ok_iff (l : Lnk) (s : Stream) (d : DecRun) :
    fill H false l s d = .ok ↔ d.failed = false ∧ s.failAt = none ∧ hashesTo H l s.data = true :=
  Link.fill_ok_iff H l s d

/-- A decode error is reported exactly when the whole block was read without I/O error and hashes to
    the link: the decoder's verdict is only ever reported about verified bytes. -/
theorem fill_decodeErr_iff (l : Lnk) (s : Stream) (d : DecRun) :
    fill H false l s d = .decodeErr ↔ d.failed = true ∧ s.failAt = none ∧ hashesTo H l s.data = true :=
  Link.fill_decodeErr_iff H l s d

/-- An I/O error is reported exactly when the stream has a read error: the drain runs into it whatever the decoder
    did. -/
theorem fill_ioErr_iff (l : Lnk) (s : Stream) (d : DecRun) :
    fill H false l s d = .ioErr ↔ ∃ f, s.failAt = some f :=
  Link.fill_ioErr_iff H l s d

/-- …and a hash mismatch exactly when the stream was read to its end and does not hash to the link. -/
theorem fill_hashMismatch_iff (l : Lnk) (s : Stream) (d : DecRun) :
    fill H false l s d = .hashMismatch ↔ s.failAt = none ∧ hashesTo H l s.data = false :=
  Link.fill_hashMismatch_iff H l s d

/-- "Unless storage is explicitly declared trusted": with the flag set nothing is hashed and the
    decoder's verdict is returned as it is. -/
theorem fill_trusted (l : Lnk) (s : Stream) (d : DecRun) :
    fill H true l s d = if d.failed then .decodeErr else .ok := by
  simp [fill]

/-- the flag matters: the same corrupted block is accepted on trusted storage and refused otherwise -/
example : fill toyH true toyL ⟨[0xf4, 0x00], none⟩ ⟨2, false⟩ = .ok ∧
    fill toyH false toyL ⟨[0xf4, 0x00], none⟩ ⟨2, false⟩ = .hashMismatch := by decide

/-! ## The master statement: no unverified data -/

/-- Untrusted storage, any stream (any content, a read error anywhere), any decoder behaviour: when `Fill`
    (hence `Load`) succeeds, the decoder succeeded, the stream was read to its end, the hasher saw ALL of it - nothing the
    node was built from went unhashed, and nothing the storage delivered beyond what the decoder wanted either - and
    it hashes to the link. -/
theorem no_unverified_data (l : Lnk) (s : Stream) (d : DecRun) (h : fill H false l s d = .ok) :
    d.failed = false ∧ s.failAt = none ∧ hasherSaw s d = s.data ∧ hashesTo H l s.data = true := by
  obtain ⟨h1, h2, h3⟩ := (fill_ok_iff H l s d).mp h
  exact ⟨h1, h2, by simp [hasherSaw, Stream.deliverable, h2], h3⟩

/-- `LoadRaw` hands out bytes exactly when there was no read error and the whole block hashes to the
    link, and then it hands out the whole block. -/
theorem loadRaw_some_iff (l : Lnk) (s : Stream) (r : Res) (b : Bytes) :
    loadRaw H l s = (r, some b) ↔ r = .ok ∧ s.failAt = none ∧ b = s.data ∧ hashesTo H l s.data = true := by
  rw [loadRaw_eq]
  cases hfa : s.failAt with
  | some f => simp
  | none =>
    dsimp only
    by_cases hh : hashesTo H l s.data = true
    · simp only [hh, if_true, Prod.mk.injEq, Option.some.injEq, true_and, and_true]
      constructor
      · rintro ⟨a, c⟩; exact ⟨a.symm, c.symm⟩
      · rintro ⟨a, c⟩; exact ⟨a.symm, c.symm⟩
    · simp [hh]

/-- …and `ok` never comes without the bytes. -/
theorem loadRaw_ok_some (l : Lnk) (s : Stream) (ob : Option Bytes) (h : loadRaw H l s = (.ok, ob)) :
    ob = some s.data ∧ s.failAt = none ∧ hashesTo H l s.data = true := by
  rw [loadRaw_eq] at h
  cases hfa : s.failAt with
  | some f => simp [hfa] at h
  | none =>
    simp only [hfa] at h
    by_cases hh : hashesTo H l s.data = true
    · simp only [hh, if_true, Prod.mk.injEq, true_and] at h
      exact ⟨h.symm, rfl, hh⟩
    · simp [hh] at h

/-- `LoadPlusRaw` = `LoadRaw`, then the decoder on the verified buffer (`Link.loadPlusRaw`): any bytes it
    returns are the whole block, read without error, and hash to the link; any node it returns was decoded
    from exactly those bytes and comes with `ok`; and on a block that does not hash to the link the decoder
    is not even run. -/
theorem loadPlusRaw_verified (c : Codec) (l : Lnk) (s : Stream) (r : Res) (ov : Option DM) (ob : Option Bytes)
    (h : loadPlusRaw H c l s = (r, ov, ob)) :
    (∀ b, ob = some b → s.failAt = none ∧ b = s.data ∧ hashesTo H l b = true ∧
        ((r = .ok ∧ ov = c.decode b ∧ ov.isSome = true) ∨ (r = .decodeErr ∧ ov = none ∧ c.decode b = none))) ∧
    (∀ v, ov = some v → ob = some s.data) ∧
    (r = .ok → ob = some s.data) := by
  unfold loadPlusRaw at h
  rw [loadRaw_eq] at h
  cases hfa : s.failAt with
  | some f =>
    simp only [hfa, Prod.mk.injEq] at h
    obtain ⟨rfl, rfl, rfl⟩ := h
    simp
  | none =>
    simp only [hfa] at h
    by_cases hh : hashesTo H l s.data = true
    · simp only [hh, if_true] at h
      cases hd : c.decode s.data with
      | none =>
        simp only [hd, Prod.mk.injEq] at h
        obtain ⟨rfl, rfl, rfl⟩ := h
        simp [hh, hd]
      | some v =>
        simp only [hd, Prod.mk.injEq] at h
        obtain ⟨rfl, rfl, rfl⟩ := h
        simp [hh, hd]
    · simp only [hh, Bool.false_eq_true, if_false, Prod.mk.injEq] at h
      obtain ⟨rfl, rfl, rfl⟩ := h
      simp

/-- For `LoadPlusRaw` the precedence is absolute: on a block that does not hash to the link it returns the
    mismatch and neither node nor bytes, whatever the decoder would have said. -/
theorem loadPlusRaw_mismatch (c : Codec) (l : Lnk) (s : Stream) (hio : s.failAt = none)
    (hbad : hashesTo H l s.data = false) : loadPlusRaw H c l s = (.hashMismatch, none, none) := by
  simp [loadPlusRaw, loadRaw_eq, hio, hbad]

example : loadPlusRaw toyH rawCodec toyL ⟨[0xf5, 0x00], none⟩ = (.ok, some (.bytes [0xf5, 0x00]), some [0xf5, 0x00]) ∧
    loadPlusRaw toyH rawCodec toyL ⟨[0xf4, 0x00], none⟩ = (.hashMismatch, none, none) ∧
    loadPlusRaw toyH rawCodec toyL ⟨[0xf5, 0x00], some 1⟩ = (.ioErr, none, none) ∧
    loadPlusRaw toyH ⟨fun _ => none, fun _ => none⟩ toyL ⟨[0xf5, 0x00], none⟩ = (.decodeErr, none, some [0xf5, 0x00]) := by
  decide

/-- The same at the level of histories on one storage, for ANY storage content (nothing is assumed of
    `s`: it may hold arbitrarily corrupted, truncated, extended or misfiled blocks): a `LoadRaw` step that
    returns bytes returns the block filed under the link, and it hashes to the link; a `Load` step that
    returns a node decoded it from such a block. -/
theorem hstep_load_verified (codecs : Nat → Option Codec) (s : Store) (l : Lnk) :
    (∀ b, (hstep H codecs s (.loadRaw l)).2 = .raw b → s.get l = some b ∧ hashesTo H l b = true) ∧
    (∀ v, (hstep H codecs s (.load l)).2 = .node v →
      ∃ c b, codecs l.codec = some c ∧ s.get l = some b ∧ hashesTo H l b = true ∧ c.decode b = some v) := by
  constructor
  · intro b h
    simp only [hstep] at h
    cases hg : s.get l with
    | none => simp [hg] at h
    | some b' =>
      simp only [hg] at h
      by_cases hh : hashesTo H l b' = true
      · simp only [hh, if_true, HOut.raw.injEq] at h
        subst h
        exact ⟨rfl, hh⟩
      · simp [hh] at h
  · intro v h
    simp only [hstep] at h
    cases hc : codecs l.codec with
    | none => simp [hc] at h
    | some c =>
      cases hg : s.get l with
      | none => simp [hc, hg] at h
      | some b' =>
        simp only [hc, hg] at h
        by_cases hh : hashesTo H l b' = true
        · simp only [hh, if_true] at h
          cases hd : c.decode b' with
          | none => simp [hd] at h
          | some v' =>
            simp only [hd, HOut.node.injEq] at h
            subst h
            exact ⟨c, b', rfl, rfl, hh, hd⟩
        · simp [hh] at h

/-- …hence in every history from every initial storage, every `LoadRaw` that returned bytes returned
    bytes that hash to the link it was asked for. -/
theorem history_loadRaw_verified (codecs : Nat → Option Codec) (s : Store) (ops : List HOp) (i : Nat) (l : Lnk)
    (b : Bytes) (hop : ops[i]? = some (.loadRaw l)) (hout : (hrun H codecs s ops).2[i]? = some (.raw b)) :
    hashesTo H l b = true := by
  induction ops generalizing s i with
  | nil => simp at hop
  | cons op ops ih =>
    rw [hrun_cons_snd] at hout
    cases i with
    | zero =>
      simp only [List.getElem?_cons_zero, Option.some.injEq] at hop hout
      subst hop
      exact ((hstep_load_verified H codecs s l).1 b hout).2
    | succ i =>
      simp only [List.getElem?_cons_succ] at hop hout
      exact ih _ i hop hout

/-- a storage whose one block is filed under a link it does not hash to: both loads refuse it -/
example : (hstep toyH toyCodecs [(toyL, [0xf4, 0x00])] (.loadRaw toyL)).2 = .error ∧
    (hstep toyH (fun _ => some rawCodec) [(toyL, [0xf4, 0x00])] (.load toyL)).2 = .error ∧
    (hstep toyH (fun _ => some rawCodec) [(toyL, [0xf5, 0x00])] (.load toyL)).2 = .node (.bytes [0xf5, 0x00]) := by decide

/-! ## Corruption is detected -/

/-- Any delivered block that does not hash to the link (no read error), ANY decoder behaviour - it may fail, succeed
    having read everything, or succeed having stopped early: `Fill` says `hashMismatch` — not `ok`, not the decode
    error — and so does `LoadRaw`, which returns no bytes.  (Before the unconditional drain this needed "the decoder
    consumes the whole block when it succeeds".) -/
theorem corruption_detected (l : Lnk) (s : Stream) (d : DecRun) (hio : s.failAt = none)
    (hbad : hashesTo H l s.data = false) :
    fill H false l s d = .hashMismatch ∧ loadRaw H l s = (.hashMismatch, none) :=
  ⟨(fill_hashMismatch_iff H l s d).mpr ⟨hio, hbad⟩, by simp [loadRaw_eq, hio, hbad]⟩

/-- in particular the verdict is never `ok`, never the decode error, never an I/O error -/
theorem corruption_verdicts (l : Lnk) (s : Stream) (d : DecRun) (hio : s.failAt = none)
    (hbad : hashesTo H l s.data = false) :
    fill H false l s d ≠ .ok ∧ fill H false l s d ≠ .decodeErr ∧ fill H false l s d ≠ .ioErr := by
  rw [(corruption_detected H l s d hio hbad).1]
  exact ⟨by decide, by decide, by decide⟩

/-- The point the old hypothesis excluded: a decoder that stops at the end of the genuine block (dag-cbor with
    `DontParseBeyondEnd`, say) never pulls the appended bytes through the tee - they are hashed all the same, by the
    drain, and `Fill` refuses, as `LoadRaw` does.  (The pinned tree accepted here.) -/
example : hashesTo toyH toyL [0xf5, 0x00] = true ∧ hashesTo toyH toyL [0xf5, 0x00, 0xaa] = false ∧
    fill toyH false toyL ⟨[0xf5, 0x00, 0xaa], none⟩ ⟨2, false⟩ = .hashMismatch ∧
    loadRaw toyH toyL ⟨[0xf5, 0x00, 0xaa], none⟩ = (.hashMismatch, none) := by decide

/-- The three corruption families of the property, for a stored block `b`, with no other hypothesis than
    "the corrupted bytes do not hash to the link" (i.e. no collision) — a changed byte at any offset… -/
theorem bitflip_detected (l : Lnk) (b : Bytes) (i : Nat) (x : UInt8) (d : DecRun)
    (hbad : hashesTo H l (b.set i x) = false) :
    fill H false l ⟨b.set i x, none⟩ d = .hashMismatch ∧ loadRaw H l ⟨b.set i x, none⟩ = (.hashMismatch, none) :=
  corruption_detected H l ⟨b.set i x, none⟩ d rfl hbad

/-- …any truncation… -/
theorem truncation_detected (l : Lnk) (b : Bytes) (n : Nat) (d : DecRun)
    (hbad : hashesTo H l (b.take n) = false) :
    fill H false l ⟨b.take n, none⟩ d = .hashMismatch ∧ loadRaw H l ⟨b.take n, none⟩ = (.hashMismatch, none) :=
  corruption_detected H l ⟨b.take n, none⟩ d rfl hbad

/-- …any extension. -/
theorem extension_detected (l : Lnk) (b x : Bytes) (d : DecRun)
    (hbad : hashesTo H l (b ++ x) = false) :
    fill H false l ⟨b ++ x, none⟩ d = .hashMismatch ∧ loadRaw H l ⟨b ++ x, none⟩ = (.hashMismatch, none) :=
  corruption_detected H l ⟨b ++ x, none⟩ d rfl hbad

/-- Flipping any set of bits of a byte (xor with a non-zero mask) changes it; in particular flipping bit
    `k`.  So "a bit flip at any offset" is an instance of `bitflip_detected`, with `x = b[i] ^^^ mask`. -/
theorem bitflip_changes (a m : UInt8) (hm : m ≠ 0) : a ^^^ m ≠ a := by
  intro h
  apply hm
  have : a ^^^ (a ^^^ m) = a ^^^ a := by rw [h]
  rw [← UInt8.xor_assoc, UInt8.xor_self, UInt8.zero_xor] at this
  exact this

theorem bitflip_changes_bit (a : UInt8) (k : Nat) (hk : k < 8) : a ^^^ (1 <<< UInt8.ofNat k) ≠ a := by
  have : ∀ k : Fin 8, (1 : UInt8) <<< UInt8.ofNat k.val ≠ 0 := by decide
  exact bitflip_changes a _ (this ⟨k, hk⟩)

/-- the three on concrete data (stored block `[0xf5, 0x00]` under `toyL`): bit 0 of byte 0 flipped, cut to one
    byte, one byte appended; the decoder fails, succeeds having read everything, or succeeds having stopped early -/
example : hashesTo toyH toyL [0xf5, 0x00] = true ∧
    ([0xf5, 0x00] : Bytes).set 0 ((0xf5 : UInt8) ^^^ (1 <<< UInt8.ofNat 0)) = [0xf4, 0x00] ∧
    fill toyH false toyL ⟨[0xf4, 0x00], none⟩ ⟨2, false⟩ = .hashMismatch ∧
    fill toyH false toyL ⟨[0xf4, 0x00], none⟩ ⟨1, true⟩ = .hashMismatch ∧
    fill toyH false toyL ⟨([0xf5, 0x00] : Bytes).take 1, none⟩ ⟨1, false⟩ = .hashMismatch ∧
    fill toyH false toyL ⟨[0xf5, 0x00] ++ [0xaa], none⟩ ⟨3, false⟩ = .hashMismatch ∧
    fill toyH false toyL ⟨[0xf5, 0x00] ++ [0xaa], none⟩ ⟨2, false⟩ = .hashMismatch ∧
    loadRaw toyH toyL ⟨[0xf5, 0x00] ++ [0xaa], none⟩ = (.hashMismatch, none) := by decide

/-- Under the collision assumption for the link (`NoCollision`: the stored block `b` is the only one that
    hashes to `l`), with NO assumption on the decoder: a delivered block other than `b` is refused. -/
theorem corruption_refused_any_decoder (l : Lnk) (b b' : Bytes) (d : DecRun) (hb : NoCollision H l b) (hne : b' ≠ b) :
    fill H false l ⟨b', none⟩ d = .hashMismatch ∧ loadRaw H l ⟨b', none⟩ = (.hashMismatch, none) := by
  have hbad : hashesTo H l b' = false := by
    cases hh : hashesTo H l b' with
    | false => rfl
    | true => exact (hne (hb b' hh)).elim
  exact corruption_detected H l ⟨b', none⟩ d rfl hbad

/-- Hence a changed byte, a truncation and an extension are refused whatever the decoder does. -/
theorem bitflip_detected_any_decoder (l : Lnk) (b : Bytes) (i : Nat) (x : UInt8) (d : DecRun)
    (hb : NoCollision H l b) (hi : i < b.length) (hx : x ≠ b[i]) :
    fill H false l ⟨b.set i x, none⟩ d = .hashMismatch ∧ loadRaw H l ⟨b.set i x, none⟩ = (.hashMismatch, none) :=
  corruption_refused_any_decoder H l b (b.set i x) d hb (set_ne_self b i x hi hx)

theorem truncation_detected_any_decoder (l : Lnk) (b : Bytes) (n : Nat) (d : DecRun)
    (hb : NoCollision H l b) (hn : n < b.length) :
    fill H false l ⟨b.take n, none⟩ d = .hashMismatch ∧ loadRaw H l ⟨b.take n, none⟩ = (.hashMismatch, none) :=
  corruption_refused_any_decoder H l b (b.take n) d hb (take_ne_self b n hn)

theorem extension_detected_nocoll (l : Lnk) (b x : Bytes) (d : DecRun)
    (hb : NoCollision H l b) (hx : x ≠ []) :
    fill H false l ⟨b ++ x, none⟩ d = .hashMismatch ∧ loadRaw H l ⟨b ++ x, none⟩ = (.hashMismatch, none) :=
  corruption_refused_any_decoder H l b (b ++ x) d hb (append_ne_self b x hx)

/-- `NoCollision` is satisfiable: the identity multihash (`H 0 b = b`) has no collisions; and the
    any-decoder theorems say what they should there. -/
example : NoCollision (fun _ b => b) ⟨1, 0x55, identityCode, [1, 2, 3]⟩ [1, 2, 3] := by
  intro b' h
  unfold hashesTo at h
  simp only [beq_iff_eq] at h
  have h2 := (buildLink_some h).2.1
  rw [truncate_identity _ _ rfl] at h2
  exact Option.some.inj h2
example : fill (fun _ b => b) false ⟨1, 0x55, identityCode, [1, 2, 3]⟩ ⟨([1, 2, 3] : Bytes).set 1 9, none⟩ ⟨1, false⟩ = .hashMismatch ∧
    fill (fun _ b => b) false ⟨1, 0x55, identityCode, [1, 2, 3]⟩ ⟨([1, 2, 3] : Bytes).take 2, none⟩ ⟨0, false⟩ = .hashMismatch ∧
    fill (fun _ b => b) false ⟨1, 0x55, identityCode, [1, 2, 3]⟩ ⟨[1, 2, 3] ++ [4], none⟩ ⟨3, false⟩ = .hashMismatch ∧
    fill (fun _ b => b) false ⟨1, 0x55, identityCode, [1, 2, 3]⟩ ⟨[1, 2, 3], none⟩ ⟨3, false⟩ = .ok := by decide

/-! ## Read errors -/

/-- A stream with a read error (after `f` bytes), all cases: `LoadRaw` returns the I/O error and no bytes, and `Fill`
    returns the I/O error whatever the decoder did — also when it had all it needed within the bytes delivered before
    the error: the drain runs into it.  Never data, never a decode error, never a verdict computed from a partial block. -/
theorem read_error_verdicts (l : Lnk) (s : Stream) (d : DecRun) (f : Nat) (hio : s.failAt = some f) :
    loadRaw H l s = (.ioErr, none) ∧ fill H false l s d = .ioErr :=
  ⟨by simp [loadRaw_eq, hio], io_surfaces H l s d f hio⟩

/-- a read error can only come out as the I/O error: in particular never as `ok` -/
theorem read_error_never_ok (l : Lnk) (s : Stream) (d : DecRun) (f : Nat) (hio : s.failAt = some f) :
    fill H false l s d ≠ .ok := by
  rw [io_surfaces H l s d f hio]; decide

/-- the block is `[0xf5, 0x00, …]`, the stream fails after two bytes: the I/O error, whether the decoder needed two
    bytes (and succeeded) or wanted the third -/
example : fill toyH false toyL ⟨[0xf5, 0x00, 0xaa], some 2⟩ ⟨2, false⟩ = .ioErr ∧
    fill toyH false toyL ⟨[0xf5, 0x00, 0xaa], some 2⟩ ⟨2, true⟩ = .ioErr ∧
    fill toyH false toyL ⟨[0xf5, 0x00, 0xaa], some 1⟩ ⟨1, false⟩ = .ioErr ∧
    loadRaw toyH toyL ⟨[0xf5, 0x00, 0xaa], some 2⟩ = (.ioErr, none) := by decide

/-! ## Store commits all or nothing -/

/-- `Store` calls the committer exactly when the encoder returned no error, no storage write that was
    performed failed, and `BuildLink` did not panic; the block committed is then the concatenation of ALL
    the encoder's writes and the link is built from the hash of exactly that. -/
theorem store_commit_iff (p : Proto) (e : EncRun) (l : Lnk) (b : Bytes) :
    store H p e = .committed l b ↔
      e.encFails = false ∧ (∀ j, e.writerFailsAt = some j → e.writes.length ≤ j) ∧
      buildLink p (H p.mhType e.writes.flatten) = some l ∧ b = e.writes.flatten :=
  store_committed_iff H p e l b

/-- …and it returns an error without committing exactly when the encoder failed or a performed write
    failed (the converse of `store_fail_no_commit`). -/
theorem store_failed_iff (p : Proto) (e : EncRun) :
    store H p e = .failed ↔ e.encFails = true ∨ ∃ j, e.writerFailsAt = some j ∧ j < e.writes.length :=
  Link.store_failed_iff H p e

/-- Never a prefix: a committed block is never a proper prefix of what the encoder wrote — in particular
    not the writes up to a failure. -/
theorem store_never_commits_prefix (p : Proto) (e : EncRun) (l : Lnk) (n : Nat)
    (hne : (e.writes.drop n).flatten ≠ []) :
    store H p e ≠ .committed l (e.writes.take n).flatten := by
  intro h
  have := ((store_commit_iff H p e l _).mp h).2.2.2
  have e2 : e.writes.flatten = (e.writes.take n).flatten ++ (e.writes.drop n).flatten := by
    rw [← List.flatten_append, List.take_append_drop]
  rw [e2] at this
  exact append_ne_self _ _ hne this.symm

example : store toyH ⟨1, 0x71, 0x12, -1⟩ ⟨[[0xf5], [0x00]], false, none⟩ = .committed toyL [0xf5, 0x00] ∧
    store toyH ⟨1, 0x71, 0x12, -1⟩ ⟨[[0xf5], [0x00]], false, some 2⟩ = .committed toyL [0xf5, 0x00] ∧
    store toyH ⟨1, 0x71, 0x12, -1⟩ ⟨[[0xf5], [0x00]], true, none⟩ = .failed ∧
    store toyH ⟨1, 0x71, 0x12, -1⟩ ⟨[[0xf5], [0x00]], false, some 1⟩ = .failed ∧
    store toyH ⟨1, 0x71, 0x12, 5⟩ ⟨[[0xf5], [0x00]], false, none⟩ = .committed toyL [0xf5, 0x00] ∧
    store toyH ⟨0, 0x71, 0x13, -1⟩ ⟨[[0xf5], [0x00]], false, none⟩ = .panicked := by decide

/-- `store_never_commits_prefix` on concrete data: the writer fails on the second write; the first write
    alone (which would be a perfectly well-formed block with its own link) is not committed. -/
example : buildLink ⟨1, 0x71, 0x12, -1⟩ (toyH 0x12 [0xf5]) = some ⟨1, 0x71, 0x12, [1, 0xf5]⟩ ∧
    store toyH ⟨1, 0x71, 0x12, -1⟩ ⟨[[0xf5], [0x00]], false, some 1⟩ ≠ .committed ⟨1, 0x71, 0x12, [1, 0xf5]⟩ [0xf5] := by
  decide


/-! ## (T) the transcribed functions as they are in the source on this run -/

/-- `Fill` (and `Load` through it): unless storage is declared trusted the decoder reads through a tee into the hasher; on a decode error the rest of the stream is drained into the hasher (an I/O error there is returned as such); the hash comparison comes next and returns `ErrHashMismatch`; only then is the decode error admitted.  There is no return between the decoder call and the hash comparison other than the I/O error of the drain — which is `Link.fill`. -/
theorem fill_src_is_transcribed : Ipld.Generated.fill_skel_src = [
  "if lnkCtx.Ctx == nil",
  ". lnkCtx.Ctx = context.Background()",
  "decoder, err := lsys.DecoderChooser(lnk)",
  "if err != nil",
  ". return ErrLinkingSetup{\"could not choose a decoder\", err}",
  "hasher, err := lsys.HasherChooser(lnk.Prototype())",
  "if err != nil",
  ". return ErrLinkingSetup{\"could not choose a hasher\", err}",
  "if lsys.StorageReadOpener == nil",
  ". return ErrLinkingSetup{\"no storage configured for reading\", io.ErrClosedPipe}",
  "reader, err := lsys.StorageReadOpener(lnkCtx, lnk)",
  "if err != nil",
  ". return err",
  "if closer, ok := reader.(io.Closer); ok",
  ". defer closer.Close()",
  "if lsys.TrustedStorage",
  ". return decoder(na, reader)",
  "tee := io.TeeReader(reader, hasher)",
  "decodeErr := decoder(na, tee)",
  "if _, err := io.Copy(hasher, reader); err != nil",
  ". return err",
  "hash := hasher.Sum(nil)",
  "lnk2 := lnk.Prototype().BuildLink(hash)",
  "if lnk2.Binary() != lnk.Binary()",
  ". return ErrHashMismatch{Actual: lnk2, Expected: lnk}",
  "if decodeErr != nil",
  ". return decodeErr",
  "return nil"
] := by decide

/-- `LoadRaw` buffers the whole stream (an I/O error returns no bytes), hashes the buffer, compares links, and only then hands the bytes out (`Link.loadRaw`). -/
theorem loadRaw_src_is_transcribed : Ipld.Generated.loadRaw_skel_src = [
  "if lnkCtx.Ctx == nil",
  ". lnkCtx.Ctx = context.Background()",
  "hasher, err := lsys.HasherChooser(lnk.Prototype())",
  "if err != nil",
  ". return nil, ErrLinkingSetup{\"could not choose a hasher\", err}",
  "if lsys.StorageReadOpener == nil",
  ". return nil, ErrLinkingSetup{\"no storage configured for reading\", io.ErrClosedPipe}",
  "reader, err := lsys.StorageReadOpener(lnkCtx, lnk)",
  "if err != nil",
  ". return nil, err",
  "if closer, ok := reader.(io.Closer); ok",
  ". defer closer.Close()",
  "var buf bytes.Buffer",
  "if _, err := io.Copy(&buf, reader); err != nil",
  ". return nil, err",
  "hasher.Write(buf.Bytes())",
  "hash := hasher.Sum(nil)",
  "lnk2 := lnk.Prototype().BuildLink(hash)",
  "if lnk2.Binary() != lnk.Binary()",
  ". return nil, ErrHashMismatch{Actual: lnk2, Expected: lnk}",
  "return buf.Bytes(), nil"
] := by decide

end Ipld.Props.C06
