package checks

import (
	"fmt"
	"strings"

	"verif/internal/core"
)

// C07 — a selector walk visits exactly what the selector denotes, in document order.
//
//   impl observation : compile status; ordered events of WalkAdv (visits with path, reason, node content; links requested
//                      from storage) and its outcome; the matching walk
//   (D) correspondence: == the Lean model of compile + walk on the same graph / selector spec
//   (O) oracle        : WalkMatching sees exactly the 'm' visits of WalkAdv, in the same order, with the same (sliced) nodes;
//                       visits are in document order (every visit's parent position was visited before it, siblings in
//                       the node's own iteration order or the selector's field order); the explore-everything selector
//                       visits every node of the graph reachable from the root in pre-order (computed independently).

func init() {
	core.Register(&core.Check{ID: "C07", Run: runC07, Replay: replayC07})
}

func walkLine(g *core.Graph, spec core.Val, w core.WalkCfg) string {
	return "walk.run " + w.Tokens() + " " + g.StoreTokens() + " ROOT " + g.Root.Term() + " SEL " + spec.Term()
}

// preorder of everything reachable (independent of the walker and of the model)
func preorderAll(g *core.Graph, v core.Val, path []string, out *[]string, fuel *int) {
	if *fuel <= 0 {
		return
	}
	*fuel--
	if v.K == 'l' {
		if b, ok := g.Vals[string(v.S)]; ok {
			preorderAll(g, b, path, out, fuel)
			return
		}
	}
	*out = append(*out, core.PathArg(path)+" "+v.Term())
	switch v.K {
	case '[':
		for i, x := range v.L {
			preorderAll(g, x, append(append([]string{}, path...), fmt.Sprint(i)), out, fuel)
		}
	case '{':
		for _, e := range v.M {
			preorderAll(g, e.V, append(append([]string{}, path...), string(e.K)), out, fuel)
		}
	}
}

type walkCase struct {
	g    *core.Graph
	spec core.Val
	w    core.WalkCfg
}

func c07Batch(c *core.Ctx, cases []walkCase, prop string) error {
	lines := make([]string, len(cases))
	for i, cs := range cases {
		lines[i] = walkLine(cs.g, cs.spec, cs.w)
	}
	outs, err := core.RunDriver(lines)
	if err != nil {
		return err
	}
	for i, cs := range cases {
		adv := core.RunWalk(cs.g, cs.spec, cs.w, false)
		impl := adv.String()
		c.Count(lines[i], len(adv.Visits) >= 3)
		c.Trace(1)
		if adv.Compile != "" {
			c.Dist(adv.Compile)
		} else {
			c.Dist("outcome:" + adv.Outcome)
			c.Dist(fmt.Sprintf("visits<=%d", bucket(len(adv.Visits)+1)))
		}
		if i < 2 {
			c.Sample(map[string]string{"case": truncateStr(lines[i], 600), "impl": truncateStr(impl, 300)})
		}
		if strings.Contains(impl, "panic") {
			c.Fail(prop+"/panic", core.Replay{Kind: "oracle", Case: lines[i], Impl: impl, Detail: "compile or walk panicked"})
			continue
		}
		if impl != outs[i] {
			c.Fail(prop+"/corr-walk", core.Replay{Kind: "correspondence", Case: lines[i], Impl: impl, Model: outs[i]})
		}
		if adv.Compile != "" {
			continue
		}
		// O: matching walk = filter of the advanced walk
		mt := core.RunWalk(cs.g, cs.spec, cs.w, true)
		var want []string
		for _, v := range adv.Visits {
			if v.Reason == 'm' {
				want = append(want, core.PathArg(v.Path)+" "+v.Node)
			}
		}
		var got []string
		for _, v := range mt.Visits {
			got = append(got, core.PathArg(v.Path)+" "+v.Node)
		}
		if strings.Join(got, "|") != strings.Join(want, "|") || mt.Outcome != adv.Outcome {
			c.Fail(prop+"/matching-not-filter-of-adv", core.Replay{Kind: "oracle", Case: lines[i], Impl: strings.Join(got, " | ") + " => " + mt.Outcome, Expected: strings.Join(want, " | ") + " => " + adv.Outcome})
		}
		// O: document order — the parent position of every visit was visited earlier (no start path here),
		// and no position is visited twice (a path identifies one position of the graph)
		if len(cs.w.Start) == 0 {
			seen := map[string]bool{}
			for _, v := range adv.Visits {
				if seen[core.PathArg(v.Path)] {
					c.Fail(prop+"/position-visited-twice", core.Replay{Kind: "oracle", Case: lines[i], Impl: impl, Detail: "two visits at " + core.PathArg(v.Path)})
					break
				}
				if len(v.Path) > 0 && !seen[core.PathArg(v.Path[:len(v.Path)-1])] {
					c.Fail(prop+"/not-document-order", core.Replay{Kind: "oracle", Case: lines[i], Impl: impl, Detail: "visit at " + core.PathArg(v.Path) + " before its parent position"})
					break
				}
				seen[core.PathArg(v.Path)] = true
			}
		}
	}
	return nil
}

func truncateStr(s string, n int) string {
	if len(s) > n {
		return s[:n] + "…"
	}
	return s
}

func runC07(c *core.Ctx) error {
	c.Rule = "random DAGs of 0-6 dag-cbor blocks with shared and repeated links plus an in-memory root; random selector specs over all clause kinds (matcher, subset matcher, all, fields, index, range incl. ranges above the interest cap, union, recursive with limits -1..4/none, edges, stop-at, interpret-as, malformed clauses); advanced and matching walk; non-trivial = at least 3 visits; distinct by case line"
	c.Explanation = "theorems: sliceBounds_src = model and in-bounds with no int64 wrap, matching_is_filter, doc_order, union/recursion lemmas; executable model of compile + walk tied by this differential run"
	c.Assumptions = []string{"ADL reification (ExploreInterpretAs) is not configured: modelled as the error the walker returns", "blocks are dag-cbor; decoding is C03's business, the model store holds decoded values"}
	n := c.Pick(2500, 200000)
	var cases []walkCase
	flush := func() error {
		err := c07Batch(c, cases, "C07")
		cases = cases[:0]
		return err
	}
	for i := 0; i < n; i++ {
		g, err := core.GenGraph(c.Rand, c.Rand.Intn(7))
		if err != nil {
			return err
		}
		var spec core.Val
		if i%5 == 0 {
			spec = core.SelAll()
		} else {
			spec = core.GenSelector(c.Rand, g, 0, false, i%7 == 0)
			distSelector(c, spec)
		}
		cases = append(cases, walkCase{g: g, spec: spec})
		if i%5 == 0 {
			// independent pre-order for the explore-everything selector
			adv := core.RunWalk(g, spec, core.WalkCfg{}, false)
			var want []string
			fuel := 100000
			preorderAll(g, g.Root, nil, &want, &fuel)
			var got []string
			for _, v := range adv.Visits {
				got = append(got, core.PathArg(v.Path)+" "+v.Node)
			}
			if adv.Outcome == "ok" && strings.Join(got, "|") != strings.Join(want, "|") {
				c.Fail("C07/explore-all-not-preorder", core.Replay{Kind: "oracle", Case: walkLine(g, spec, core.WalkCfg{}), Impl: strings.Join(got, " | "), Expected: strings.Join(want, " | ")})
			}
		}
		if len(cases) >= 2000 {
			if err := flush(); err != nil {
				return err
			}
		}
	}
	return flush()
}

func replayC07(c *core.Ctx, rp core.Replay) error {
	return fmt.Errorf("replay the model side with: echo '<case>' | lean/.lake/build/bin/driver ; the implementation side by seed: VERIF_SEED=%d ./vcheck %s %s", rp.Seed, rp.Property, rp.Tier)
}
