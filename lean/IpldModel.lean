import IpldModel.Model.DM
import IpldModel.Model.Term
import IpldModel.Model.Cbor
import IpldModel.Model.GoPrelude
import IpldModel.Spec.CanonCbor
import IpldModel.Generated.CborMarshal
import IpldModel.Generated.SliceBounds
import IpldModel.Generated.Sharding
