/-
  `Outcome.seal`: a conforming typed value never holds the unreadable marker (`TL.unreadable`, a list
  holding `absent`), so sealing changes nothing about what the ideal builder of a well-formed type builds.
-/
import IpldModel.Model.Schema
namespace Ipld
namespace Schema

theorem TLs.broken_cons (x : TL) (xs : TLs) (hx : x ≠ .absent) :
    (TLs.cons x xs).broken = (x.broken || xs.broken) := by
  cases x <;> first | exact absurd rfl hx | rfl

mutual
theorem anyOK_not_broken : (v : TL) → anyOK v = true → v.broken = false
  | .absent, _ => rfl
  | .null, _ => rfl
  | .bool _, _ => rfl
  | .int _, _ => rfl
  | .float _, _ => rfl
  | .str _, _ => rfl
  | .bytes _, _ => rfl
  | .link _, _ => rfl
  | .list xs, h => by
    simp only [anyOK] at h
    simp only [TL.broken]
    exact anyOKs_not_broken xs h
  | .map es, h => by
    simp only [anyOK] at h
    simp only [TL.broken]
    exact anyOKkv_not_broken es [] h
theorem anyOKs_not_broken : (xs : TLs) → anyOKs xs = true → xs.broken = false
  | .nil, _ => rfl
  | .cons x xs, h => by
    simp only [anyOKs, Bool.and_eq_true] at h
    have hx : x ≠ .absent := by intro hx; subst hx; simp [anyOK] at h
    rw [TLs.broken_cons x xs hx, anyOK_not_broken x h.1, anyOKs_not_broken xs h.2]
    rfl
theorem anyOKkv_not_broken : (es : TLKVs) → (seen : List Bytes) → anyOKkv seen es = true → es.broken = false
  | .nil, _, _ => rfl
  | .cons k v es, seen, h => by
    simp only [anyOKkv, Bool.and_eq_true] at h
    simp only [TLKVs.broken, anyOK_not_broken v h.1.2, anyOKkv_not_broken es _ h.2]
    rfl
end

mutual
/-- A conforming typed value can be read back in full. -/
theorem conforms_not_broken : (v : TL) → (ty : Ty) → (nul : Bool) → conforms ty nul v = true → v.broken = false
  | .absent, _, _, _ => rfl
  | .null, _, _, _ => rfl
  | .bool _, _, _, _ => rfl
  | .int _, _, _, _ => rfl
  | .float _, _, _, _ => rfl
  | .str _, _, _, _ => rfl
  | .bytes _, _, _, _ => rfl
  | .link _, _, _, _ => rfl
  | .list xs, ty, nul, h => by
    simp only [TL.broken]
    unfold conforms at h
    split at h
    · next ety enul => exact conformsList_not_broken xs ety enul h
    · exact anyOK_not_broken (.list xs) h
    · cases h
  | .map es, ty, nul, h => by
    simp only [TL.broken]
    unfold conforms at h
    split at h
    · next vty vnul => exact conformsMap_not_broken es vty vnul [] h
    · next fs _ => exact conformsStruct_not_broken es fs.toList [] h
    · next ms _ =>
      split at h
      · next k v =>
        split at h
        · next m _ =>
          simp only [TLKVs.broken, conforms_not_broken v m.ty false h]
          rfl
        · cases h
      · cases h
    · exact anyOK_not_broken (.map es) h
    · cases h
theorem conformsList_not_broken : (xs : TLs) → (ety : Ty) → (enul : Bool) → conformsList ety enul xs = true →
    xs.broken = false
  | .nil, _, _, _ => rfl
  | .cons x xs, ety, enul, h => by
    simp only [conformsList, Bool.and_eq_true] at h
    have hx : x ≠ .absent := by intro hx; subst hx; simp [conforms] at h
    rw [TLs.broken_cons x xs hx, conforms_not_broken x ety enul h.1, conformsList_not_broken xs ety enul h.2]
    rfl
theorem conformsMap_not_broken : (es : TLKVs) → (vty : Ty) → (vnul : Bool) → (seen : List Bytes) →
    conformsMap vty vnul seen es = true → es.broken = false
  | .nil, _, _, _, _ => rfl
  | .cons k v es, vty, vnul, seen, h => by
    simp only [conformsMap, Bool.and_eq_true] at h
    simp only [TLKVs.broken, conforms_not_broken v vty vnul h.1.2, conformsMap_not_broken es vty vnul _ h.2]
    rfl
theorem conformsStruct_not_broken : (es : TLKVs) → (fs : List Field) → (seen : List Bytes) →
    conformsStruct fs seen es = true → es.broken = false
  | .nil, _, _, _ => rfl
  | .cons k v es, fs, seen, h => by
    unfold conformsStruct at h
    split at h
    · cases h
    · next f _ =>
      simp only [Bool.and_eq_true] at h
      have hv : v.broken = false := by
        cases v with
        | absent => rfl
        | _ => exact conforms_not_broken _ f.ty f.nullable h.1.2
      simp only [TLKVs.broken, hv, conformsStruct_not_broken es fs _ h.2]
      rfl
end

/-- Sealing leaves an outcome whose value conforms untouched. -/
theorem Outcome.seal_of_conforms (o : Outcome TL) (ty : Ty) (nul : Bool)
    (h : ∀ v, o = .ok v → conforms ty nul v = true) : o.seal = o := by
  cases o with
  | ok v => simp [Outcome.seal, conforms_not_broken v ty nul (h v rfl)]
  | reject => rfl
  | panic => rfl

end Schema
end Ipld
