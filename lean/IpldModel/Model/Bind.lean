/-
  Model of the parts of the reflection binding (`node/bindnode`) that C19 quantifies over and that are
  logic rather than reflection: the integer-width rule of `AssignInt`/`assignUInt`, and the registry
  of inferred schema types (`infer.go`: package-level `defaultTypeSystem`).  DESIGN §5 C19.
-/
import IpldModel.Model.DM
namespace Ipld
namespace Bind

/-- Go integer kinds a schema Int can be bound to -/
inductive Width where
  | i8 | i16 | i32 | i64 | u8 | u16 | u32 | u64
  deriving DecidableEq, Repr

def Width.signed : Width → Bool
  | .i8 | .i16 | .i32 | .i64 => true
  | _ => false

def Width.bits : Width → Nat
  | .i8 | .u8 => 8
  | .i16 | .u16 => 16
  | .i32 | .u32 => 32
  | .i64 | .u64 => 64

/-- the values a Go field of this kind can hold -/
def fits (w : Width) (i : Int) : Bool :=
  if w.signed then decide (-(2 : Int) ^ (w.bits - 1) ≤ i ∧ i < (2 : Int) ^ (w.bits - 1))
  else decide (0 ≤ i ∧ i < (2 : Int) ^ w.bits)

inductive Assign where
  | stored (i : Int)
  | rejected
  deriving DecidableEq, Repr

/-- what a faithful binding does: store exactly the value, or refuse -/
def assignIdeal (w : Width) (i : Int) : Assign := if fits w i then .stored i else .rejected

/-- `reflect.Value.SetInt` / `SetUint`: truncation to the field's width (the unrepaired code) -/
def truncate (w : Width) (i : Int) : Int :=
  let m := i % (2 : Int) ^ w.bits
  if w.signed ∧ m ≥ (2 : Int) ^ (w.bits - 1) then m - (2 : Int) ^ w.bits else m

/-- The assignment as the code performs it.  `guarded = true` is the code with the overflow checks
    (`OverflowInt`/`OverflowUint`, and a negative value refused for unsigned fields); `false` the code
    that truncates (only negatives into unsigned fields were refused). -/
def assignCode (guarded : Bool) (w : Width) (i : Int) : Assign :=
  if !w.signed && decide (i < 0) then .rejected
  else if guarded then (if fits w i then .stored i else .rejected)
  else .stored (truncate w i)

/-! ## the registry of inferred schema types -/

inductive Call where
  | explicit (goType schemaType : Nat)      -- Wrap / Prototype with a schema type given
  | inferred (goType : Nat)                 -- Wrap / Prototype with a nil schema type: inferSchema
  deriving DecidableEq, Repr

inductive CallOut where
  | ok (goType schemaType : Nat)
  | panic
  deriving DecidableEq, Repr

/-- state: the names accumulated in the package-level type system -/
abbrev Registry := List Nat

/-- How inference treats the package-level type system:
    `perCall`    — a fresh type system per call (no shared state at all);
    `memo`       — the code as it is now: the schema type inferred for a Go type is remembered and reused; a Go type is
                   accumulated into the shared type system once;
    `accumulate` — the code of the pinned commit: every inference accumulates, and `TypeSystem.Accumulate` panics on
                   a name it already holds (kept to state the finding and to classify a regression). -/
inductive Mode where
  | perCall | memo | accumulate
  deriving DecidableEq, Repr

def bindStep (m : Mode) (reg : Registry) : Call → Registry × CallOut
  | .explicit g s => (reg, .ok g s)
  | .inferred g =>
    match m with
    | .perCall => (reg, .ok g g)
    | .memo => if reg.contains g then (reg, .ok g g) else (g :: reg, .ok g g)
    | .accumulate => if reg.contains g then (reg, .panic) else (g :: reg, .ok g g)

def bindRun (m : Mode) (reg : Registry) : List Call → List CallOut
  | [] => []
  | c :: cs => let (reg', o) := bindStep m reg c; o :: bindRun m reg' cs

/-- the answer of a call made alone in a fresh process -/
def single (c : Call) : CallOut := (bindStep .accumulate [] c).2

end Bind
end Ipld
