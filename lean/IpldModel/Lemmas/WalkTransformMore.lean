/-
  More about the model of `walkTransforming`: under `LinkVisitOnlyOnce` no link is requested twice (the seen-set is
  one for the whole transform); a skipped or already-seen link child stays in place; a link-free tree makes no
  request; when the child enumerations of walk and transform pair up (no explicit interests; explore-everything
  selectors); `Match` implies `Decide`.
-/
import IpldModel.Lemmas.WalkTransformRel
import IpldModel.Lemmas.WalkTransformSim
import IpldModel.Lemmas.WalkLinkBudget
import IpldModel.Lemmas.WalkDenote
import IpldModel.Spec.CborLimits
namespace Ipld
namespace WalkT
open Sel Walk Spec

/-! ### `LinkVisitOnlyOnce` -/

theorem walkT_onceInv (cfg : Cfg) (hl : cfg.linkOnce = true) (fn : TFn) (fuel : Nat) (path : Path) (n : DM)
    (s : S) (st : St) (h : OnceInv st) : OnceInv (walkT cfg fn fuel path n s st).1 := by
  refine walkT_rel cfg (fun a b => OnceInv a → OnceInv b) (fun _ h => h) (fun _ _ _ h1 h2 h => h2 (h1 h)) fn
    ?_ ?_ ?_ fuel path n s st h
  · intro st st1 hck h
    unfold OnceInv
    rw [checkNode_events hck, checkNode_seen hck]; exact h
  · intro path n st h
    exact h
  · intro c st h; exact linkStep_onceInv cfg hl c st h

theorem run_loads_nodup (cfg : Cfg) (hl : cfg.linkOnce = true) (fn : TFn) (fuel : Nat) (nb lb : Option Int)
    (root : DM) (s : S) : (loadsOf (run cfg fn fuel nb lb root s).events).Nodup := by
  unfold run
  simp only [loadsOf_reverse, nodup_reverse']
  exact (walkT_onceInv cfg hl fn fuel [] root s { nodeBudget := nb, linkBudget := lb }
    ⟨List.nodup_nil, fun c hc => by cases hc⟩).1

/-- a link that is in the seen-set is not requested again: the state does not change at all -/
theorem linkStep_seen (cfg : Cfg) (c : Bytes) (st : St) (hl : cfg.linkOnce = true) (hc : st.seen.contains c = true) :
    linkStep cfg c st = (st, .ok none) := by
  unfold linkStep
  rw [if_pos (by simp only [hl, hc]; rfl)]

/-- a link child that the loader skips, or that was seen before under `LinkVisitOnlyOnce`, is assigned as it is
    (or the link budget ends the transform): the level below is not entered -/
theorem tChild_link_stays (cfg : Cfg) (rec : Path → DM → S → St → TR) (path : Path) (n : DM) (s : S)
    (attn : Option (List Seg)) (ps : Seg) (c : Bytes) (st : St)
    (h : cfg.skip.contains c = true ∨ (cfg.linkOnce = true ∧ st.seen.contains c = true)) :
    (tChild cfg rec path n s attn ps (.link c) st).2 = .ok (.link c) ∨
    (tChild cfg rec path n s attn ps (.link c) st).2 = .error (.walk .budgetLink) ∨
    (tChild cfg rec path n s attn ps (.link c) st).2 = .error (.walk .selector) ∨
    (tChild cfg rec path n s attn ps (.link c) st).2 = .error (.walk .panic) := by
  by_cases ha : attended attn ps = true
  · rw [tChild_attended _ _ _ _ _ _ _ _ _ ha]
    split
    · exact Or.inr (Or.inr (Or.inr rfl))
    · exact Or.inr (Or.inr (Or.inl rfl))
    · exact Or.inl rfl
    · simp only
      rcases h with h | ⟨h1, h2⟩
      · have hk := linkStep_skip cfg c st h
        generalize linkStep cfg c st = ls at hk
        obtain ⟨st', r⟩ := ls
        simp only at hk
        rcases hk with rfl | rfl
        · exact Or.inl rfl
        · exact Or.inr (Or.inl rfl)
      · rw [linkStep_seen cfg c st h1 h2]
        exact Or.inl rfl
  · rw [tChild_pass _ _ _ _ _ _ _ _ _ (Or.inl (by simpa using ha))]
    exact Or.inl rfl

/-! ### a link-free tree: no request to the loader -/

theorem hasLinkList_mem : (xs : DMs) → hasLinkList xs = false → ∀ x ∈ xs.toList, hasLink x = false
  | .nil, _, x, hx => by cases hx
  | .cons z zs, h, x, hx => by
    simp only [hasLinkList, Bool.or_eq_false_iff] at h
    rcases List.mem_cons.1 hx with rfl | hx
    · exact h.1
    · exact hasLinkList_mem zs h.2 x hx

theorem hasLinkKVs_mem : (es : DMKVs) → hasLinkKVs es = false → ∀ e ∈ es.toList, hasLink e.2 = false
  | .nil, _, e, he => by cases he
  | .cons k v es, h, e, he => by
    simp only [hasLinkKVs, Bool.or_eq_false_iff] at h
    rcases List.mem_cons.1 he with rfl | he
    · exact h.1
    · exact hasLinkKVs_mem es h.2 e he

theorem children_hasLink {n : DM} (hn : hasLink n = false) : ∀ x ∈ children n, hasLink x.2 = false := by
  cases n with
  | list xs =>
    simp only [hasLink] at hn
    intro x hx
    simp only [children, List.mem_map] at hx
    obtain ⟨e, he, rfl⟩ := hx
    exact hasLinkList_mem xs hn e.1 (List.mem_of_getElem? (zipIdx_getElem? he))
  | map es =>
    simp only [hasLink] at hn
    intro x hx
    simp only [children, List.mem_map] at hx
    obtain ⟨e, he, rfl⟩ := hx
    exact hasLinkKVs_mem es hn e he
  | _ => intro x hx; simp [children] at hx

mutual
theorem rewrites_linkFree {cfg : Cfg} {fn : TFn} :
    ∀ {path : Path} {n r : DM} {evs : List Event}, Rewrites cfg fn path n r evs → hasLink n = false →
      ∀ c, Event.load c ∉ evs
  | _, _, _, _, .keep _ _, _, c => by simp
  | _, _, _, _, .replaced _, _, c => by simp [callEvent]
  | _, _, _, _, .calledKeep _, _, c => by simp [callEvent]
  | _, _, _, _, .rebuilt _ h, hn, c => rewritesCh_linkFree h (children_hasLink hn) c
  | _, _, _, _, .calledRebuilt _ _ h, hn, c => by
    intro hm
    rcases List.mem_cons.1 hm with hm | hm
    · cases hm
    · exact rewritesCh_linkFree h (children_hasLink hn) c hm
theorem rewritesCh_linkFree {cfg : Cfg} {fn : TFn} :
    ∀ {path : Path} {l out : List (Seg × DM)} {evs : List Event}, RewritesCh cfg fn path l out evs →
      (∀ x ∈ l, hasLink x.2 = false) → ∀ c, Event.load c ∉ evs
  | _, _, _, _, .nil _, _, c => by simp
  | _, _, _, _, .cons _ h1 h2, hl, c => by
    intro hm
    rcases List.mem_append.1 hm with hm | hm
    · exact rewrites_linkFree h1 (hl _ (List.mem_cons_self ..)) c hm
    · exact rewritesCh_linkFree h2 (fun x hx => hl x (List.mem_cons_of_mem _ hx)) c hm
  | _, _, _, _, .kept _, hl, c => by
    have := hl _ (List.mem_cons_self ..)
    simp [hasLink] at this
  | _, _, _, _, .skipped _ _, hl, c => by
    have := hl _ (List.mem_cons_self ..)
    simp [hasLink] at this
  | _, _, _, _, .inlined _ _ _ _, hl, c => by
    have := hl _ (List.mem_cons_self ..)
    simp [hasLink] at this
end

/-! ### when the two child enumerations pair up -/

theorem align_refl (n : DM) (s : S) : ∀ (l : List (Seg × DM)), (∀ b ∈ l, attended (interests s) b.1 = true) →
    Align n s l l
  | [], _ => .nil
  | b :: l, h => .both rfl rfl (h b (List.mem_cons_self ..)) rfl
      (align_refl n s l (fun x hx => h x (List.mem_cons_of_mem _ hx)))

/-- a selector without explicit interests: both loops run over the node's own children -/
theorem alignedAt_of_noInterests {s : S} (h : interests s = none) (n : DM) : AlignedAt n s := by
  unfold AlignedAt
  rw [h]
  exact align_refl n s _ (fun b _ => by rw [h]; rfl)

/-- a selector with an empty interest list (a matcher, a bare edge): neither loop does anything -/
theorem alignedAt_of_emptyInterests {s : S} (h : interests s = some []) (n : DM) : AlignedAt n s := by
  unfold AlignedAt
  rw [h]
  simp only [List.filterMap_nil]
  generalize children n = l
  induction l with
  | nil => exact .nil
  | cons b l ih => exact .passT (Or.inl (by rw [h]; rfl)) ih

mutual
/-- what `Match` answers for, `Decide` accepts -/
theorem decide_of_match : ∀ (s : S) (n m : DM), matchNode s n = some m → decideNode s n = true
  | .matcher _, _, _, _ => rfl
  | .union ms, n, m, h => by
    simp only [matchNode] at h
    simp only [decideNode]
    exact decideList_of_match ms n m h
  | .recursive _ cur _ _, n, m, h => by
    simp only [matchNode] at h
    simp only [decideNode]
    exact decide_of_match cur n m h
  | .all _, _, _, h => by simp [matchNode] at h
  | .fields _, _, _, h => by simp [matchNode] at h
  | .index _ _, _, _, h => by simp [matchNode] at h
  | .range _ _ _, _, _, h => by simp [matchNode] at h
  | .edge, _, _, h => by simp [matchNode] at h
  | .interpretAs _ _, _, _, h => by simp [matchNode] at h
theorem decideList_of_match : ∀ (ms : SList) (n m : DM), matchList ms n = some m → decideList ms n = true
  | .nil, _, _, h => by simp [matchList] at h
  | .cons s r, n, m, h => by
    simp only [matchList] at h
    simp only [decideList, Bool.or_eq_true]
    cases hm : matchNode s n with
    | some m' => exact Or.inl (decide_of_match s n m' hm)
    | none => rw [hm] at h; exact Or.inr (decideList_of_match r n m h)
end

theorem plainMatch_of_matchesAll {s : S} {n : DM} (h : matchNode s n = some n) : PlainMatch s n := by
  unfold PlainMatch
  rw [decide_of_match s n n h, h]
  rfl

/-- an explore-everything selector stays itself at every position the walk reaches -/
theorem reach_exploresAll {cfg : Cfg} {root : DM} {s0 : S} (hs : ExploresAll s0) {path : Path} {n : DM} {s : S}
    (h : Reach cfg root s0 path n s) : s = s0 := by
  induction h with
  | root => rfl
  | child _ _ hx _ ih =>
    subst ih
    rw [hs.exploreSelf] at hx
    cases hx; rfl
  | link _ _ hx _ _ ih =>
    subst ih
    rw [hs.exploreSelf] at hx
    cases hx; rfl

theorem aligned_of_exploresAll {cfg : Cfg} {root : DM} {s0 : S} (hs : ExploresAll s0) :
    ∀ path n s, Reach cfg root s0 path n s → AlignedAt n s ∧ PlainMatch s n := by
  intro path n s h
  have := reach_exploresAll hs h
  subst this
  exact ⟨alignedAt_of_noInterests hs.noInterests n, plainMatch_of_matchesAll (hs.matchesAll n)⟩

end WalkT
end Ipld
