/-
  C14 (companion) — paths are values, at the level of Go slices and backing arrays (`Model/PathHeap.lean`, a
  transcription of `datamodel/path.go` with its allocations, copies and re-slicings).

  * `path_ops_preserve_reads`   no operation of path.go changes what any existing path reads: every cell it stores goes
                                 into an array it has just allocated (the heap only grows at the end);
  * `path_history_stable`       hence, along any history of derivations from any existing paths, every path made at any
                                 earlier moment still reads what it read at that moment, and is still there;
  * `derived_reads`             within its contract every operation succeeds and its result reads what the operation
                                 means on path values (`Op.spec`): append, join, parent, pop, truncate, shift, new, parse;
  * `last_reads`, `shiftSeg_reads`  the segment-valued readers;
  * `joinAppend_breaks_stability`   with `Join` written as `append(p.segments, p2.segments...)` the stability theorem
                                 is false: a path with spare capacity (a `Parent()` re-slice), two joins from it — the
                                 result of the first reads the second's segment afterwards (and the original path is
                                 overwritten by the first).
  Tie to the code: statement skeletons of `AppendSegment` / `Join` / `ParsePath` (`C14skel`) and the correspondence
  `C14/corr-path-heap` (driver `pathheap.run`): derivation histories on the real `datamodel.Path`, every path made so
  far re-read after every step, compared with this model — including `Truncate` beyond the length (within capacity),
  which tells re-slicing from copying.  Property theorems only.
-/
import IpldModel.Lemmas.PathHeap
namespace Ipld.Props.C14
open Ipld Ipld.Sel Ipld.PathHeap

/-- One operation of path.go, any heap, any paths: a slice that existed before it (`WF`: its window lies inside its
    array) reads the same after it, and still exists. -/
theorem path_ops_preserve_reads (st st' : St) (op : Op) (hs : step st op = some st') (s : Slice) (w : s.WF st.heap) :
    read st'.heap s = read st.heap s ∧ s.WF st'.heap := by
  obtain ⟨ext, _, hh, _, _⟩ := step_shape hs
  rw [hh]
  exact ⟨read_ext w ext, WF_ext w ext⟩

/-- The same for a whole history: any existing slice, not only the paths the history knows about. -/
theorem path_run_preserves_reads : ∀ (ops : List Op) (st st' : St), run st ops = some st' → ∀ s : Slice, s.WF st.heap →
    read st'.heap s = read st.heap s ∧ s.WF st'.heap
  | [], st, st', h, s, w => by cases h; exact ⟨rfl, w⟩
  | op :: ops, st, st', h, s, w => by
    rw [run_cons, Option.bind_eq_some_iff] at h
    obtain ⟨m, hm, hr⟩ := h
    have h1 := path_ops_preserve_reads st m op hm s w
    have h2 := path_run_preserves_reads ops m st' hr s h1.2
    exact ⟨h2.1.trans h1.1, h2.2⟩

/-- Paths are values.  From any well-formed start, run any history `ops1`, look at any path `s` that exists at that
    moment (`mid`), then run any further history `ops2` — derivations from `s` itself, from its re-slices, from anything:
    `s` is still among the paths and reads exactly what it read at `mid`. -/
theorem path_history_stable (st mid st' : St) (ops1 ops2 : List Op) (hwf : st.WF)
    (h1 : run st ops1 = some mid) (h2 : run mid ops2 = some st') :
    ∀ s ∈ mid.paths, s ∈ st'.paths ∧ read st'.heap s = read mid.heap s := by
  have wm := run_WF ops1 hwf h1
  intro s hsm
  refine ⟨?_, (path_run_preserves_reads ops2 mid st' h2 s (wm s hsm)).1⟩
  clear h1 wm hwf
  induction ops2 generalizing mid with
  | nil => cases h2; exact hsm
  | cons op ops ih =>
    rw [run_cons, Option.bind_eq_some_iff] at h2
    obtain ⟨m, hm, hr⟩ := h2
    obtain ⟨_, q, _, hp, _⟩ := step_shape hm
    exact ih m hr (by rw [hp]; exact List.mem_append_left _ hsm)

/-- Within its contract (`Op.spec` defined on the current path values: names in range, `Truncate` within the length)
    every operation succeeds — no panic — adds exactly one path, and that path reads what the operation means on
    values: `AppendSegment p s` reads `read p ++ [s]`, `Join p q` reads `read p ++ read q`, `Parent`/`Pop` drop the last
    segment, `Truncate n` takes `n`, `Shift` drops the first, `NewPath` reads its argument, `ParsePath` the parse. -/
theorem derived_reads (st : St) (op : Op) (hwf : st.WF) (v : List Seg)
    (hv : op.spec (st.paths.map (read st.heap)) = some v) :
    ∃ h' q, step st op = some ⟨h', st.paths ++ [q]⟩ ∧ read h' q = v := by
  cases op with
  | newPath segs =>
    cases hv
    exact ⟨_, _, by simp only [step, stepWith, newPath_eq]; rfl, read_fresh _ _ _ _ rfl⟩
  | parsePath txt =>
    cases hv
    exact ⟨_, _, by simp only [step, stepWith, parsePath_eq]; rfl, read_fresh _ _ _ _ rfl⟩
  | append i x =>
    simp only [Op.spec, List.getElem?_map, Option.map_map, Option.map_eq_some_iff] at hv
    obtain ⟨p, hp, rfl⟩ := hv
    have w := hwf p (List.mem_of_getElem? hp)
    refine ⟨_, _, by simp only [step, stepWith, hp, Option.map_some, appendSegment_eq w]; rfl, read_fresh _ _ _ _ (by simp [read_length w])⟩
  | join i j =>
    simp only [Op.spec, List.getElem?_map, Option.bind_eq_some_iff, Option.map_eq_some_iff] at hv
    obtain ⟨_, ⟨p, hp, rfl⟩, _, ⟨p2, hp2, rfl⟩, rfl⟩ := hv
    have w := hwf p (List.mem_of_getElem? hp)
    have w2 := hwf p2 (List.mem_of_getElem? hp2)
    refine ⟨_, _, by simp only [step, stepWith, hp, hp2, Option.bind_some, Option.map_some, join_eq w w2]; rfl, read_fresh _ _ _ _ (by simp [read_length w, read_length w2])⟩
  | parent i =>
    simp only [Op.spec, List.getElem?_map, Option.map_map, Option.map_eq_some_iff] at hv
    obtain ⟨p, hp, rfl⟩ := hv
    exact ⟨_, _, by simp only [step, stepWith, hp, Option.map_some], read_parent (hwf p (List.mem_of_getElem? hp))⟩
  | pop i =>
    simp only [Op.spec, List.getElem?_map, Option.map_map, Option.map_eq_some_iff] at hv
    obtain ⟨p, hp, rfl⟩ := hv
    exact ⟨_, _, by simp only [step, stepWith, hp, Option.map_some], read_pop (hwf p (List.mem_of_getElem? hp))⟩
  | truncate i n =>
    simp only [Op.spec, List.getElem?_map, Option.bind_eq_some_iff, Option.map_eq_some_iff] at hv
    obtain ⟨_, ⟨p, hp, rfl⟩, hv⟩ := hv
    have w := hwf p (List.mem_of_getElem? hp)
    split at hv
    · next hn =>
      cases hv
      rw [read_length w] at hn
      obtain ⟨q, hq, hr⟩ := read_truncate w n hn.1 hn.2
      exact ⟨_, q, by simp only [step, stepWith, hp, Option.bind_some, hq, Option.map_some], hr⟩
    · cases hv
  | shift i =>
    simp only [Op.spec, List.getElem?_map, Option.map_map, Option.map_eq_some_iff] at hv
    obtain ⟨p, hp, rfl⟩ := hv
    exact ⟨_, _, by simp only [step, stepWith, hp, Option.map_some], read_shift (hwf p (List.mem_of_getElem? hp))⟩

/-- `Last()` is the last segment of what the path reads (`EmptyPathSegment` for the empty path). -/
theorem last_reads (h : Heap) (p : Slice) (w : p.WF h) : last h p = (read h p).getLast?.getD emptySeg := by
  have hl := read_length w
  unfold last
  split
  · next h0 => rw [List.eq_nil_of_length_eq_zero (l := read h p) (by omega)]; rfl
  · next h0 =>
    rw [List.getLast?_eq_getElem?, hl]
    have : p.len - 1 < (read h p).length := by omega
    simp [List.getElem?_eq_getElem this]

/-- `Shift()`'s segment is the first segment of what the path reads (`EmptyPathSegment` for the empty path). -/
theorem shiftSeg_reads (h : Heap) (p : Slice) (w : p.WF h) : shiftSeg h p = (read h p).head?.getD emptySeg := by
  have hl := read_length w
  unfold shiftSeg
  split
  · next h0 => rw [List.eq_nil_of_length_eq_zero (l := read h p) (by omega)]; rfl
  · next h0 =>
    cases hr : read h p with
    | nil => rw [hr] at hl; simp at hl; omega
    | cons a r => simp

/-! ### the in-place `Join` -/

/-- the counterexample history: `p0 = NewPath [0, 1]`, `p1 = NewPath [7]`, `p2 = NewPath [8]`, `p3 = p0.Parent()`
    (reads `[0]`, capacity 2), `p4 = p3.Join(p1)` — then, later, `p5 = p3.Join(p2)` -/
def breakOps1 : List Op := [.newPath [.idx 0, .idx 1], .newPath [.idx 7], .newPath [.idx 8], .parent 0, .join 3 1]
def breakOps2 : List Op := [.join 3 2]

/-- With `Join` implemented by `append`, `path_history_stable` is false: after `breakOps1` the fifth path reads
    `[0, 7]`; one more join from the same parent later it reads `[0, 8]`.  (The first join had already turned the
    original path `[0, 1]` into `[0, 7]`.) -/
theorem joinAppend_breaks_stability :
    ∃ mid st' : St, runWith joinAppend St.empty breakOps1 = some mid ∧ runWith joinAppend mid breakOps2 = some st' ∧
      St.empty.WF ∧ (∀ s ∈ mid.paths, s.WF mid.heap) ∧
      ∃ s ∈ mid.paths, read mid.heap s = [.idx 0, .idx 7] ∧ read st'.heap s = [.idx 0, .idx 8] ∧
        read st'.heap s ≠ read mid.heap s :=
  ⟨⟨[[.idx 0, .idx 7], [.idx 7], [.idx 8]], [⟨0, 0, 2, 2⟩, ⟨1, 0, 1, 1⟩, ⟨2, 0, 1, 1⟩, ⟨0, 0, 1, 2⟩, ⟨0, 0, 2, 2⟩]⟩,
   ⟨[[.idx 0, .idx 8], [.idx 7], [.idx 8]], [⟨0, 0, 2, 2⟩, ⟨1, 0, 1, 1⟩, ⟨2, 0, 1, 1⟩, ⟨0, 0, 1, 2⟩, ⟨0, 0, 2, 2⟩, ⟨0, 0, 2, 2⟩]⟩,
   by decide, by decide, (by intro s hs; cases hs), by decide,
   ⟨⟨0, 0, 2, 2⟩, by decide, by decide, by decide, by decide⟩⟩

/-- …and already the first in-place join changes the ORIGINAL path: `[0, 1]` reads `[0, 7]`. -/
theorem joinAppend_overwrites_base :
    (runWith joinAppend St.empty (breakOps1.take 4)).map (fun st => st.paths.map (read st.heap))
      = some [[.idx 0, .idx 1], [.idx 7], [.idx 8], [.idx 0]] ∧
    (runWith joinAppend St.empty breakOps1).map (fun st => st.paths.map (read st.heap))
      = some [[.idx 0, .idx 7], [.idx 7], [.idx 8], [.idx 0], [.idx 0, .idx 7]] := by
  decide

/-! ### non-vacuity -/

/-- the same histories under path.go's `Join`: nothing moves (the hypotheses of `path_history_stable` are met and its
    conclusion is about real, distinct reads) -/
example : (run St.empty breakOps1).map (fun st => st.paths.map (read st.heap))
      = some [[.idx 0, .idx 1], [.idx 7], [.idx 8], [.idx 0], [.idx 0, .idx 7]] ∧
    (run St.empty (breakOps1 ++ breakOps2)).map (fun st => st.paths.map (read st.heap))
      = some [[.idx 0, .idx 1], [.idx 7], [.idx 8], [.idx 0], [.idx 0, .idx 7], [.idx 0, .idx 8]] := by decide

/-- re-slices do share the array: `Parent()` then `Truncate(2)` reaches the original's last cell again (within capacity);
    `Truncate(3)` panics; a made path has no spare capacity -/
example : (run St.empty [.newPath [.idx 0, .idx 1], .parent 0, .truncate 1 2]).map (fun st => st.paths.map (read st.heap))
      = some [[.idx 0, .idx 1], [.idx 0], [.idx 0, .idx 1]] ∧
    run St.empty [.newPath [.idx 0, .idx 1], .parent 0, .truncate 1 3] = none ∧
    run St.empty [.newPath [.idx 0, .idx 1], .truncate 0 3] = none ∧
    run St.empty [.newPath [.idx 0, .idx 1], .truncate 0 (-1)] = none := by decide

/-- `derived_reads` is not vacuous: every kind of operation within its contract, on a history with shared arrays -/
example : (run St.empty [.parsePath [0x61, 0x2f, 0x62, 0x2f, 0x2f, 0x63], .shift 0, .append 1 (.idx 5), .pop 2, .join 3 0,
      .truncate 4 2, .parent 5]).map (fun st => st.paths.map (read st.heap))
      = some [[.str [0x61], .str [0x62], .str [0x63]], [.str [0x62], .str [0x63]], [.str [0x62], .str [0x63], .idx 5],
          [.str [0x62], .str [0x63]], [.str [0x62], .str [0x63], .str [0x61], .str [0x62], .str [0x63]],
          [.str [0x62], .str [0x63]], [.str [0x62]]] := by decide

example : St.empty.WF := by intro s hs; cases hs

end Ipld.Props.C14
