/-
  C18 (companion) — the generic vector write `storage.PutVec` (`storage/funcs.go`, model `Model/StorageHelpers.lean`)
  is all-or-nothing on every route: the store's own `PutVec` (assumed all-or-nothing: `Impl.VecAtomic`), the store's
  own stream (every piece written, THEN one commit: a failed `Write` returns before the commit), the helpers' buffer
  (one `Put`).  With the commit moved into a `defer` that runs on every exit path the partial stream is committed:
  `putVecDefer_commits_partial`.
  Tie to the code: the statement skeletons of `PutVec` / `PutStream` (`C18skelHelpers`) and the correspondence
  `C17/corr-storage-helpers` (go/internal/checks/c17helpers.go, driver `storehelp.run`: a fake store with capabilities
  switched on and off and a stream failing at piece k, run under C17); the fsstore scenarios of c18.go also drive
  `storage.PutVec` over fsstore's stream with failing writes on the real file system.  Property theorems only.
-/
import IpldModel.Lemmas.StorageHelpers
namespace Ipld.Props.C18
open Ipld Ipld.Store Ipld.StoreHelp

/-- `PutVec` is all-or-nothing, whichever route it takes and whatever fails (opening the stream, the k-th write, the
    `Put` / commit): it returns an error with the contents untouched, or success with the contents after one `Put` of the
    concatenation of the pieces. -/
theorem putVec_atomic (st : Impl) (hv : st.VecAtomic) (s : Kv) (key : Bytes) (pieces : List Bytes) :
    putVec st s key pieces = (s, false) ∨ putVec st s key pieces = (s.put key pieces.flatten, true) := by
  unfold putVec
  cases hf : st.ownPutVec with
  | some f => exact hv f hf s key pieces
  | none =>
    simp only
    cases ho : putStream st with
    | none => exact .inl rfl
    | some w =>
      simp only
      cases hw : writeAll st w pieces with
      | mk w' ok =>
        cases ok with
        | false => exact .inl rfl
        | true =>
          simp only
          obtain ⟨hb, hu, _, _⟩ := putStream_fresh st w ho
          obtain ⟨hb', _, hu'⟩ := writeAll_ok st pieces w w' hw
          rw [commit_unused st s w' key (by rw [hu', hu]), hb', hb, List.nil_append]
          exact put_cases st s key _

/-- An error return commits nothing. -/
theorem putVec_fail_commits_nothing (st : Impl) (hv : st.VecAtomic) (s : Kv) (key : Bytes) (pieces : List Bytes)
    (h : (putVec st s key pieces).2 = false) : (putVec st s key pieces).1 = s := by
  rcases putVec_atomic st hv s key pieces with e | e
  · rw [e]
  · rw [e] at h; cases h

/-- Route 1, the store's own `PutVec`: the helper returns what the store returns (all-or-nothing is the store's). -/
theorem putVec_own_vec (st : Impl) (f : Kv → Bytes → List Bytes → Kv × Bool) (hf : st.ownPutVec = some f)
    (s : Kv) (key : Bytes) (pieces : List Bytes) : putVec st s key pieces = f s key pieces := by
  simp [putVec, hf]

/-- Route 2, the store's own stream: if the write of piece `k` fails, an error is returned and nothing is committed —
    however many pieces were written before it. -/
theorem putVec_write_fails_commits_nothing (st : Impl) (hf : st.ownPutVec = none) (hs : st.ownStream = true)
    (k : Nat) (hk : st.failWrite = some k) (s : Kv) (key : Bytes) (pieces : List Bytes) (hlt : k < pieces.length) :
    putVec st s key pieces = (s, false) := by
  unfold putVec
  rw [hf]
  simp only
  cases ho : putStream st with
  | none => rfl
  | some w =>
    simp only
    obtain ⟨_, _, hn, hown⟩ := putStream_fresh st w ho
    have := writeAll_fails st k hk pieces w (by rw [hown, hs]) (by omega) (by omega)
    cases hw : writeAll st w pieces with
    | mk w' ok => rw [hw] at this; simp only at this; rw [this]

/-- Routes 2 and 3: a refused `Put` / commit, or a stream that does not open, stores nothing either. -/
theorem putVec_put_fails_commits_nothing (st : Impl) (hf : st.ownPutVec = none) (hp : st.failPut = true ∨ (st.ownStream = true ∧ st.failOpen = true))
    (s : Kv) (key : Bytes) (pieces : List Bytes) : putVec st s key pieces = (s, false) := by
  have hv : st.VecAtomic := by intro f h; rw [hf] at h; cases h
  rcases putVec_atomic st hv s key pieces with e | e
  · exact e
  · exfalso
    unfold putVec at e
    rw [hf] at e
    simp only at e
    rcases hp with hp | ⟨h1, h2⟩
    · cases ho : putStream st with
      | none => rw [ho] at e; simp at e
      | some w =>
        rw [ho] at e; simp only at e
        cases hw : writeAll st w pieces with
        | mk w' ok =>
          rw [hw] at e
          cases ok with
          | false => simp at e
          | true =>
            simp only [Stream.commit, put, hp] at e
            split at e <;> simp at e
    · simp [putStream, h1, h2] at e

/-- The commit-in-`defer` variant is not all-or-nothing: a stream whose second write fails — the first piece is
    committed under the key, and an error is returned. -/
theorem putVecDefer_commits_partial :
    putVecDefer { ownStream := true, failWrite := some 1 } [] [0x6b] [[1, 2], [3], [4]] = ([([0x6b], [1, 2])], false) ∧
    putVec { ownStream := true, failWrite := some 1 } [] [0x6b] [[1, 2], [3], [4]] = ([], false) := by
  decide

/-! ### non-vacuity -/

/-- the three routes, succeeding and failing -/
example : putVec { ownStream := true } [] [0x6b] [[1, 2], [3]] = ([([0x6b], [1, 2, 3])], true) := by decide
example : putVec {} [] [0x6b] [[1, 2], [3]] = ([([0x6b], [1, 2, 3])], true) := by decide
example : putVec { failPut := true } [] [0x6b] [[1, 2], [3]] = ([], false) := by decide
example : putVec { ownStream := true, failWrite := some 0 } [] [0x6b] [[1, 2], [3]] = ([], false) := by decide
example : putVec { ownStream := true, failWrite := some 2 } [] [0x6b] [[1, 2], [3]] = ([([0x6b], [1, 2, 3])], true) := by decide
example : putVec { ownPutVec := some fun s k ps => (Kv.put s k ps.flatten, true) } [] [0x6b] [[1, 2], [3]] = ([([0x6b], [1, 2, 3])], true) := by
  decide

example : (({} : Impl).VecAtomic) := by intro f h; cases h

end Ipld.Props.C18
