/-
  What follows from the rewriting spec alone (`Spec.Rewrites`, no reference to `walkT`): segments and keys keep
  their place; without a replacement and without a loaded block the result is the input; a skipped link stays;
  every callback call in the log was made with the node `get` resolves the call's path to.
-/
import IpldModel.Lemmas.WalkTransformSound
import IpldModel.Lemmas.WalkGet
namespace Ipld
namespace WalkT
open Sel Walk Spec

/-- the rebuilt entries sit under the original segments, in the original order -/
theorem rewritesCh_segs {cfg : Cfg} {fn : TFn} : ∀ {path : Path} {l out : List (Seg × DM)} {evs : List Event},
    RewritesCh cfg fn path l out evs → out.map (·.1) = l.map (·.1)
  | _, _, _, _, .nil _ => rfl
  | _, _, _, _, .cons _ _ h => by simp [rewritesCh_segs h]
  | _, _, _, _, .kept h => by simp [rewritesCh_segs h]
  | _, _, _, _, .skipped _ h => by simp [rewritesCh_segs h]
  | _, _, _, _, .inlined _ _ _ h => by simp [rewritesCh_segs h]

theorem rewritesCh_length {cfg : Cfg} {fn : TFn} {path : Path} {l out : List (Seg × DM)} {evs : List Event}
    (h : RewritesCh cfg fn path l out evs) : out.length = l.length := by
  have := congrArg List.length (rewritesCh_segs h)
  simpa using this

/-- a rebuilt map has the keys of the original, in order -/
theorem rebuild_map_keys {cfg : Cfg} {fn : TFn} {path : Path} {es : DMKVs} {out : List (Seg × DM)} {evs : List Event}
    (h : RewritesCh cfg fn path (children (.map es)) out evs) :
    ∃ fs, rebuild (.map es) out = .map fs ∧ fs.keys = es.keys := by
  refine ⟨_, rfl, ?_⟩
  have hs := rewritesCh_segs h
  simp only [DMKVs.keys, DMKVs.toList_ofList, List.map_map]
  have h1 : ((fun x : Bytes × DM => x.1) ∘ fun x : Seg × DM => (x.1.toString, x.2)) = Seg.toString ∘ (·.1) := rfl
  rw [h1, ← List.map_map, hs]
  simp [children, List.map_map, Function.comp_def, Seg.toString]

/-- a rebuilt list has the length of the original -/
theorem rebuild_list_length {cfg : Cfg} {fn : TFn} {path : Path} {xs : DMs} {out : List (Seg × DM)} {evs : List Event}
    (h : RewritesCh cfg fn path (children (.list xs)) out evs) :
    ∃ ys, rebuild (.list xs) out = .list ys ∧ ys.length = xs.length := by
  refine ⟨_, rfl, ?_⟩
  have hl := rewritesCh_length h
  simp only [DMs.length, DMs.toList_ofList, List.length_map, hl, children, List.length_zipIdx]

/-! ### no replacement, no loaded block: nothing changes -/

mutual
theorem rewrites_identity {cfg : Cfg} {fn : TFn} (hfn : ∀ p d e, fn p d ≠ .replace e) :
    ∀ {path : Path} {n r : DM} {evs : List Event}, Rewrites cfg fn path n r evs →
      (∀ c, Event.load c ∈ evs → cfg.skip.contains c = true) → r = n
  | _, _, _, _, .keep _ _, _ => rfl
  | _, _, _, _, .replaced h, _ => absurd h (hfn _ _ _)
  | _, _, _, _, .calledKeep _, _ => rfl
  | _, _, _, _, .rebuilt hr h, hl => by
    rw [rewritesCh_identity hfn h hl, rebuild_children _ hr]
  | _, _, _, _, .calledRebuilt _ hr h, hl => by
    rw [rewritesCh_identity hfn h (fun c hc => hl c (List.mem_cons_of_mem _ hc)), rebuild_children _ hr]
theorem rewritesCh_identity {cfg : Cfg} {fn : TFn} (hfn : ∀ p d e, fn p d ≠ .replace e) :
    ∀ {path : Path} {l out : List (Seg × DM)} {evs : List Event}, RewritesCh cfg fn path l out evs →
      (∀ c, Event.load c ∈ evs → cfg.skip.contains c = true) → out = l
  | _, _, _, _, .nil _, _ => rfl
  | _, _, _, _, .cons _ h1 h2, hl => by
    rw [rewrites_identity hfn h1 (fun c hc => hl c (List.mem_append_left _ hc)),
      rewritesCh_identity hfn h2 (fun c hc => hl c (List.mem_append_right _ hc))]
  | _, _, _, _, .kept h, hl => by rw [rewritesCh_identity hfn h hl]
  | _, _, _, _, .skipped _ h, hl => by
    rw [rewritesCh_identity hfn h (fun c hc => hl c (List.mem_cons_of_mem _ hc))]
  | _, _, _, _, .inlined (c := c) hk _ _ _, hl => by
    have := hl c (List.mem_cons_self ..)
    rw [hk] at this
    cases this
end

/-! ### a skipped link stays where it is -/

theorem rewritesCh_skipped_stays {cfg : Cfg} {fn : TFn} : ∀ {path : Path} {l out : List (Seg × DM)} {evs : List Event},
    RewritesCh cfg fn path l out evs → ∀ (i : Nat) (ps : Seg) (c : Bytes), l[i]? = some (ps, .link c) →
      cfg.skip.contains c = true → out[i]? = some (ps, .link c)
  | _, _, _, _, .nil _, i, ps, c, h, _ => by simp at h
  | _, _, _, _, .cons hnl _ h2, i, ps, c, h, hk => by
    cases i with
    | zero => simp only [List.getElem?_cons_zero, Option.some.injEq, Prod.mk.injEq] at h; exact absurd h.2 (hnl c)
    | succ i => simp only [List.getElem?_cons_succ] at h ⊢; exact rewritesCh_skipped_stays h2 i ps c h hk
  | _, _, _, _, .kept h2, i, ps, c, h, hk => by
    cases i with
    | zero => simpa using h
    | succ i => simp only [List.getElem?_cons_succ] at h ⊢; exact rewritesCh_skipped_stays h2 i ps c h hk
  | _, _, _, _, .skipped _ h2, i, ps, c, h, hk => by
    cases i with
    | zero => simpa using h
    | succ i => simp only [List.getElem?_cons_succ] at h ⊢; exact rewritesCh_skipped_stays h2 i ps c h hk
  | _, _, _, _, .inlined hk' _ _ h2, i, ps, c, h, hk => by
    cases i with
    | zero =>
      simp only [List.getElem?_cons_zero, Option.some.injEq, Prod.mk.injEq, DM.link.injEq] at h
      rw [h.2, hk] at hk'; cases hk'
    | succ i => simp only [List.getElem?_cons_succ] at h ⊢; exact rewritesCh_skipped_stays h2 i ps c h hk

/-! ### the callback sees the node currently at the path it is told -/

mutual
theorem rewrites_calls_resolve {cfg : Cfg} {fn : TFn} (F : Nat) (root : DM) (hstore : StoreOk cfg.store) :
    ∀ {path : Path} {n r : DM} {evs : List Event}, Rewrites cfg fn path n r evs → n.NoDup →
      get cfg.store (F + 2) root path = .ok n →
      ∀ p m rs, Event.visit p m rs ∈ evs → rs = .matched ∧ get cfg.store (F + 2) root p = .ok m
  | _, _, _, _, .keep _ _, _, _, p, m, rs, h => by cases h
  | _, _, _, _, .replaced _, _, hg, p, m, rs, h => by
    simp only [callEvent, List.mem_singleton, Event.visit.injEq] at h
    obtain ⟨rfl, rfl, rfl⟩ := h
    exact ⟨rfl, hg⟩
  | _, _, _, _, .calledKeep _, _, hg, p, m, rs, h => by
    simp only [callEvent, List.mem_singleton, Event.visit.injEq] at h
    obtain ⟨rfl, rfl, rfl⟩ := h
    exact ⟨rfl, hg⟩
  | _, _, _, _, .rebuilt _ hc, hn, hg, p, m, rs, h =>
    rewritesCh_calls_resolve F root hstore hc hn hg (fun x hx => hx) p m rs h
  | _, _, _, _, .calledRebuilt _ _ hc, hn, hg, p, m, rs, h => by
    rcases List.mem_cons.1 h with h | h
    · simp only [callEvent, Event.visit.injEq] at h
      obtain ⟨rfl, rfl, rfl⟩ := h
      exact ⟨rfl, hg⟩
    · exact rewritesCh_calls_resolve F root hstore hc hn hg (fun x hx => hx) p m rs h
theorem rewritesCh_calls_resolve {cfg : Cfg} {fn : TFn} (F : Nat) (root : DM) (hstore : StoreOk cfg.store) :
    ∀ {path : Path} {l out : List (Seg × DM)} {evs : List Event}, RewritesCh cfg fn path l out evs →
      ∀ {n : DM}, n.NoDup → get cfg.store (F + 2) root path = .ok n → (∀ x ∈ l, x ∈ children n) →
      ∀ p m rs, Event.visit p m rs ∈ evs → rs = .matched ∧ get cfg.store (F + 2) root p = .ok m
  | _, _, _, _, .nil _, _, _, _, _, p, m, rs, h => by cases h
  | _, _, _, _, .cons (ps := ps) (v := v) hnl h1 h2, n, hn, hg, hl, p, m, rs, h => by
    rcases List.mem_append.1 h with h | h
    · have hm : (ps, v) ∈ children n := hl _ (List.mem_cons_self ..)
      refine rewrites_calls_resolve F root hstore h1 (children_noDup hn hm) ?_ p m rs h
      rw [get_snoc _ _ _ _ _ _ hg, children_getStep _ _ hn hm]
      exact followLinks_nonlink _ _ _ hnl
    · exact rewritesCh_calls_resolve F root hstore h2 hn hg (fun x hx => hl x (List.mem_cons_of_mem _ hx)) p m rs h
  | _, _, _, _, .kept h2, n, hn, hg, hl, p, m, rs, h =>
    rewritesCh_calls_resolve F root hstore h2 hn hg (fun x hx => hl x (List.mem_cons_of_mem _ hx)) p m rs h
  | _, _, _, _, .skipped _ h2, n, hn, hg, hl, p, m, rs, h => by
    rcases List.mem_cons.1 h with h | h
    · cases h
    · exact rewritesCh_calls_resolve F root hstore h2 hn hg (fun x hx => hl x (List.mem_cons_of_mem _ hx)) p m rs h
  | _, _, _, _, .inlined (ps := ps) (c := c) _ hs h1 h2, n, hn, hg, hl, p, m, rs, h => by
    rcases List.mem_cons.1 h with h | h
    · cases h
    · rcases List.mem_append.1 h with h | h
      · have hm : (ps, DM.link c) ∈ children n := hl _ (List.mem_cons_self ..)
        obtain ⟨hb1, hb2⟩ := hstore c _ hs
        refine rewrites_calls_resolve F root hstore h1 hb1 ?_ p m rs h
        rw [get_snoc _ _ _ _ _ _ hg, children_getStep _ _ hn hm]
        exact followLinks_link _ _ _ _ hs hb2
      · exact rewritesCh_calls_resolve F root hstore h2 hn hg (fun x hx => hl x (List.mem_cons_of_mem _ hx)) p m rs h
end

end WalkT
end Ipld
