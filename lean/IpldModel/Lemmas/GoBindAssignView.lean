/-
  C19 (binding model): wrapping what was built shows exactly what was assembled - `assignC_view` and its
  list / map / struct companions, by mutual structural recursion on the typed value.
-/
import IpldModel.Lemmas.GoBindBasic
import IpldModel.Lemmas.SchemaRound1
namespace Ipld
namespace GoBind
open Schema

theorem assignList_nil {g : GoTy} {t : Ty} {nul : Bool} : (xs : TLs) → assignList g t nul xs = some .nil → xs = .nil
  | .nil, _ => rfl
  | .cons x xs, h => by
    simp only [assignList, zipSome_eq_some] at h
    obtain ⟨_, _, _, _, h⟩ := h
    cases h

theorem conforms_false_of (t : Ty) (nul : Bool) (v : TL) (hn : v ≠ .null) (h : conforms t nul v = true) :
    conforms t false v = true := by
  cases v <;> first | exact absurd rfl hn | (unfold conforms at h ⊢; exact h)

/-- what is assembled into a bare nilable type is not nil (a list that has been begun is a non-nil slice) -/
theorem assignC_bare_ne {g : GoTy} {t : Ty} {v : TL} {a : GoVal} (hb : isBare g = true)
    (hc : compatible g t false = true) (ha : assignC g t false v = some a) : a ≠ .nilBare ∧ a ≠ .nilSlice := by
  cases g <;> simp [isBare] at hb
  · -- []byte
    cases t <;> simp [compatible] at hc
    cases v <;> simp [assignC, unptr, wrapFor, isBare] at ha
    subst ha; simp
  · -- datamodel.Link
    rename_i lf
    cases lf <;> simp at hb
    cases t <;> simp [compatible] at hc
    cases v <;> simp [assignC, unptr, wrapFor, isBare] at ha
    subst ha; simp
  · -- datamodel.Node
    cases t <;> simp [compatible] at hc
    cases v <;> simp [assignC, unptr, wrapFor, isBare] at ha <;> (try (obtain ⟨_, _, rfl⟩ := ha)) <;>
      (try subst ha) <;> simp
  · -- a slice
    cases t <;> simp [compatible] at hc
    cases v <;> simp [assignC, unptr, wrapFor, isBare] at ha
    obtain ⟨ys, _, rfl⟩ := ha
    simp

mutual
theorem assignC_view : (v : TL) → (g : GoTy) → (t : Ty) → (nul : Bool) → (gv : GoVal) → t.wf = true →
    compatible g t nul = true → conforms t nul v = true →
    assignC g t nul v = some gv → ∀ w, view g t nul gv = some w → w = v
  | .absent, g, t, nul, gv, _, _, _, ha, w, hw => by simp [assignC] at ha
  | .null, g, t, nul, gv, _, _, _, ha, w, hw => by
    cases nul <;> simp [assignC] at ha
    by_cases hp : ∃ g1, g = .ptr g1
    · obtain ⟨g1, rfl⟩ := hp
      simp at ha
      subst ha
      simp [view] at hw
      exact hw.symm
    · have ha' : (if isBare g = true then some GoVal.nilBare else none) = some gv := by
        cases g <;> first | exact ha | exact absurd ⟨_, rfl⟩ hp
      by_cases hb : isBare g = true
      · simp only [hb, if_true, Option.some.injEq] at ha'
        subst ha'
        simp [view, hb] at hw
        exact hw.symm
      · simp [hb] at ha'
  | .bool b, g, t, nul, gv, _, _, _, ha, w, hw => by
    unfold assignC at ha
    cases hu : unptr nul g with
    | none => simp [hu] at ha
    | some g0 =>
      simp only [hu, Option.map_eq_some_iff] at ha
      obtain ⟨a0, ha, rfl⟩ := ha
      cases t <;> cases g0 <;> simp at ha
      all_goals (subst ha; rw [view_wrapFor _ _ hu (by simp) (by simp)] at hw; simp [view] at hw; exact hw.symm)
  | .float b, g, t, nul, gv, _, _, _, ha, w, hw => by
    unfold assignC at ha
    cases hu : unptr nul g with
    | none => simp [hu] at ha
    | some g0 =>
      simp only [hu, Option.map_eq_some_iff] at ha
      obtain ⟨a0, ha, rfl⟩ := ha
      cases t <;> cases g0 <;> simp at ha
      all_goals (subst ha; rw [view_wrapFor _ _ hu (by simp) (by simp)] at hw; simp [view] at hw; exact hw.symm)
  | .bytes b, g, t, nul, gv, _, _, _, ha, w, hw => by
    unfold assignC at ha
    cases hu : unptr nul g with
    | none => simp [hu] at ha
    | some g0 =>
      simp only [hu, Option.map_eq_some_iff] at ha
      obtain ⟨a0, ha, rfl⟩ := ha
      cases t <;> cases g0 <;> simp at ha
      all_goals (subst ha; rw [view_wrapFor _ _ hu (by simp) (by simp)] at hw; simp [view] at hw; exact hw.symm)
  | .link b, g, t, nul, gv, _, _, _, ha, w, hw => by
    unfold assignC at ha
    cases hu : unptr nul g with
    | none => simp [hu] at ha
    | some g0 =>
      simp only [hu, Option.map_eq_some_iff] at ha
      obtain ⟨a0, ha, rfl⟩ := ha
      cases t <;> cases g0 <;> simp at ha
      all_goals (subst ha; rw [view_wrapFor _ _ hu (by simp) (by simp)] at hw; simp [view] at hw; exact hw.symm)
  | .int i, g, t, nul, gv, _, _, _, ha, w, hw => by
    unfold assignC at ha
    cases hu : unptr nul g with
    | none => simp [hu] at ha
    | some g0 =>
      simp only [hu, Option.map_eq_some_iff] at ha
      obtain ⟨a0, ha, rfl⟩ := ha
      cases t <;> cases g0 <;> simp at ha
      · obtain ⟨_, ha⟩ := ha
        subst ha; rw [view_wrapFor _ _ hu (by simp) (by simp)] at hw; simp [view] at hw
        exact hw.symm
      · subst ha; rw [view_wrapFor _ _ hu (by simp) (by simp)] at hw; simp [view] at hw
        exact hw.symm
  | .str s, g, t, nul, gv, hwf, _, hcf, ha, w, hw => by
    unfold assignC at ha
    cases hu : unptr nul g with
    | none => simp [hu] at ha
    | some g0 =>
      simp only [hu, Option.map_eq_some_iff] at ha
      obtain ⟨a0, ha, rfl⟩ := ha
      cases t with
      | str =>
        cases g0 <;> simp at ha
        subst ha; rw [view_wrapFor _ _ hu (by simp) (by simp)] at hw; simp [view] at hw; exact hw.symm
      | any =>
        cases g0 <;> simp at ha
        subst ha; rw [view_wrapFor _ _ hu (by simp) (by simp)] at hw; simp [view] at hw; exact hw.symm
      | enum ms r =>
        cases g0 <;> simp at ha
        · -- a Go integer
          rename_i k
          cases r <;> simp at ha
          cases hm : ms.find? (fun m => m.name == s) with
          | none => simp [hm] at ha
          | some m =>
            simp only [hm, Option.map_eq_some_iff] at ha
            obtain ⟨i, hi, rfl⟩ := ha
            rw [view_wrapFor _ _ hu (by simp) (by simp)] at hw
            obtain ⟨hmem, hname⟩ := find?_mem_key (·.name) ms s m hm
            obtain ⟨rfl, _⟩ := (enumStore_eq_some k m.rint i).1 hi
            have hfind := find?_key_of_mem (·.rint) ms (wf_enum_int hwf) m hmem
            simp only [view, Bool.false_eq_true, if_false, hfind, Option.map_some, Option.some.injEq] at hw
            rw [← hw, hname]
        · obtain ⟨_, ha⟩ := ha
          subst ha; rw [view_wrapFor _ _ hu (by simp) (by simp)] at hw; simp [view] at hw; exact hw.symm
      | _ => cases g0 <;> simp at ha
  | .list xs, g, t, nul, gv, hwf, hc, hcf, ha, w, hw => by
    unfold assignC at ha
    cases hu : unptr nul g with
    | none => simp [hu] at ha
    | some g0 =>
      simp only [hu, Option.map_eq_some_iff] at ha
      obtain ⟨a0, ha, rfl⟩ := ha
      replace hc := compatible_of_unptr t hu hc
      cases t with
      | list et enul =>
        cases g0 <;> simp at ha
        rename_i ge
        obtain ⟨ys, hys, rfl⟩ := ha
        rw [view_wrapFor _ _ hu (by simp) (by simp)] at hw
        have hwf' : et.wf = true := by simpa [Ty.wf] using hwf
        have hc' : compatible ge et enul = true := by simpa [compatible] using hc
        have hcf' : conformsList et enul xs = true := by
          cases nul <;> (unfold conforms at hcf; exact hcf)
        simp only [view, Bool.false_and, Bool.false_eq_true, if_false, Option.map_eq_some_iff] at hw
        obtain ⟨ws, hws, rfl⟩ := hw
        rw [assignList_view xs ge et enul _ hwf' hc' hcf' hys ws hws]
      | any =>
        cases g0 <;> simp at ha
        obtain ⟨d, hd, rfl⟩ := ha
        rw [view_wrapFor _ _ hu (by simp) (by simp)] at hw
        simp [view] at hw
        rw [← hw]
        exact ofDM_of_toDM _ _ hd
      | _ => cases g0 <;> simp at ha
  | .map es, g, t, nul, gv, hwf, hc, hcf, ha, w, hw => by
    unfold assignC at ha
    cases hu : unptr nul g with
    | none => simp [hu] at ha
    | some g0 =>
      simp only [hu, Option.map_eq_some_iff] at ha
      obtain ⟨a0, ha, rfl⟩ := ha
      replace hc := compatible_of_unptr t hu hc
      cases t with
      | map vt vnul =>
        cases g0 <;> simp at ha
        rename_i gv0
        obtain ⟨kvs, hkvs, rfl⟩ := ha
        rw [view_wrapFor _ _ hu (by simp) (by simp)] at hw
        have hwf' : vt.wf = true := by simpa [Ty.wf] using hwf
        have hc' : compatible gv0 vt vnul = true := by simpa [compatible] using hc
        have hcf' : conformsMap vt vnul [] es = true := by
          cases nul <;> (unfold conforms at hcf; exact hcf)
        simp only [view, Bool.false_eq_true, if_false] at hw
        cases h3 : viewKVs gv0 vt vnul kvs with
        | none => simp [h3] at hw
        | some tvs =>
          have := assignKVs_view es gv0 vt vnul kvs hwf' hc' [] hcf' hkvs tvs h3
          subst this
          simp only [h3, keysOf_getD, lookupAll_self' _ (conformsMap_nodup vt vnul es [] hcf').1, Option.map_some,
            Option.some.injEq, TLKVs.ofList_toList] at hw
          exact hw.symm
      | struct fs sr =>
        cases g0 <;> simp at ha
        rename_i gfs
        obtain ⟨vs, hvs, rfl⟩ := ha
        rw [view_wrapFor _ _ hu (by simp) (by simp)] at hw
        have hw3 := wf_struct hwf
        have hc' : compatFields gfs fs.toList = true := by simpa [compatible] using hc
        have hcf' : conformsStruct fs.toList [] es = true := by
          cases nul <;> (unfold conforms at hcf; exact hcf)
        simp only [view, Bool.false_eq_true, if_false, Option.map_eq_some_iff] at hw
        obtain ⟨ws, hws, rfl⟩ := hw
        rw [assignFields_view es gfs fs.toList fs.toList vs (fun _ h => h) hw3.2.1 (Fields.wf_mem fs hw3.1)
          (conformsStruct_vals fs.toList es [] hcf') hc' hvs ws hws]
      | union ms ur =>
        cases g0 <;> simp at ha
        rename_i gfs
        have hw3 := wf_union hwf
        have hc' : compatMembers gfs ms.toList = true := by simpa [compatible] using hc
        match es, hcf, ha with
        | .cons k v .nil, hcf, ha =>
          simp only at ha
          cases hfi : findIdx (fun m => m.name == k) ms.toList with
          | none => simp [hfi] at ha
          | some im =>
            obtain ⟨i, m⟩ := im
            obtain ⟨hmi, hmk, hfind⟩ := findIdx_some _ _ i m hfi
            obtain ⟨g1, hg1, hcg1⟩ := compatMembers_get gfs ms.toList hc' i m hmi
            simp only [hfi, hg1, Option.map_eq_some_iff] at ha
            obtain ⟨a, hasg, rfl⟩ := ha
            rw [view_wrapFor _ _ hu (by simp) (by simp)] at hw
            simp only [view, Bool.false_eq_true, if_false, viewUnion_unionVals gfs ms.toList i g1 m a hg1 hmi,
              Option.map_eq_some_iff] at hw
            obtain ⟨wa, hwa, rfl⟩ := hw
            have hcv : conforms m.ty false v = true := by
              cases nul <;> (unfold conforms at hcf; simp only [hfind] at hcf; exact hcf)
            have hmem := List.mem_of_getElem? hmi
            rw [assignC_view v g1 m.ty false a (Members.wf_mem ms hw3.1 m hmem) hcg1 hcv hasg wa hwa]
            simp only [beq_iff_eq] at hmk
            rw [hmk]
        | .nil, _, ha => simp at ha
        | .cons _ _ (.cons _ _ _), _, ha => simp at ha
      | any =>
        cases g0 <;> simp at ha
        obtain ⟨d, hd, rfl⟩ := ha
        rw [view_wrapFor _ _ hu (by simp) (by simp)] at hw
        simp [view] at hw
        rw [← hw]
        exact ofDM_of_toDM _ _ hd
      | _ => cases g0 <;> simp at ha
theorem assignList_view : (xs : TLs) → (g : GoTy) → (t : Ty) → (nul : Bool) → (ys : GoVals) → t.wf = true →
    compatible g t nul = true → conformsList t nul xs = true →
    assignList g t nul xs = some ys → ∀ ws, viewList g t nul ys = some ws → ws = xs
  | .nil, g, t, nul, ys, _, _, _, ha, ws, hw => by
    simp [assignList] at ha; subst ha; simp [viewList] at hw; exact hw.symm
  | .cons x xs, g, t, nul, ys, hwf, hc, hcf, ha, ws, hw => by
    simp only [assignList, zipSome_eq_some] at ha
    simp only [conformsList, Bool.and_eq_true] at hcf
    obtain ⟨a, r, h1, h2, rfl⟩ := ha
    simp only [viewList, zipSome_eq_some] at hw
    obtain ⟨wa, wr, h3, h4, rfl⟩ := hw
    rw [assignC_view x g t nul a hwf hc hcf.1 h1 wa h3,
      assignList_view xs g t nul r hwf hc hcf.2 h2 wr h4]
theorem assignKVs_view : (es : TLKVs) → (g : GoTy) → (t : Ty) → (nul : Bool) → (kvs : GoKVs) → t.wf = true →
    compatible g t nul = true → (seen : List Bytes) → conformsMap t nul seen es = true →
    assignKVs g t nul es = some kvs → ∀ tvs, viewKVs g t nul kvs = some tvs → tvs = es.toList
  | .nil, g, t, nul, ys, _, _, _, _, ha, ws, hw => by
    simp [assignKVs] at ha; subst ha; simp [viewKVs] at hw; subst hw; rfl
  | .cons k x xs, g, t, nul, ys, hwf, hc, seen, hcf, ha, ws, hw => by
    simp only [assignKVs, zipSome_eq_some] at ha
    obtain ⟨hcx, hcxs⟩ := conformsMap_cons_inv t nul k x xs seen hcf
    obtain ⟨a, r, h1, h2, rfl⟩ := ha
    simp only [viewKVs, zipSome_eq_some] at hw
    obtain ⟨wa, wr, h3, h4, rfl⟩ := hw
    rw [assignC_view x g t nul a hwf hc hcx h1 wa h3,
      assignKVs_view xs g t nul r hwf hc (k :: seen) hcxs h2 wr h4]
    rfl
theorem assignFields_view : (es : TLKVs) → (gfs : GoFields) → (fs F : List Field) → (vs : GoVals) →
    (∀ f ∈ fs, f ∈ F) → (F.map (·.name)).Nodup → (∀ f ∈ F, f.ty.wf = true) →
    (∀ e ∈ es.toList, ∃ f, F.find? (fun f => f.name == e.1) = some f ∧ fieldValOK f e.2 = true) →
    compatFields gfs fs = true →
    assignFields gfs fs es = some vs → ∀ ws, viewFields gfs fs vs = some ws → ws = es
  | .nil, gfs, fs, F, vs, _, _, _, _, _, ha, ws, hw => by
    cases gfs <;> cases fs <;> simp [assignFields] at ha
    subst ha; simp [viewFields] at hw; exact hw.symm
  | .cons k v es, gfs, fs, F, vs, hsub, hnd, hwfF, hvals, hc, ha, ws, hw => by
    cases gfs with
    | nil => cases fs <;> simp [assignFields] at ha
    | cons n g gfs =>
      cases fs with
      | nil => simp [assignFields] at ha
      | cons f fs =>
        rw [assignFields_cons] at ha
        rw [compatFields_cons] at hc
        simp only [Bool.and_eq_true] at hc
        by_cases hk : k = f.name
        · subst hk
          simp only [bne_self_eq_false, Bool.false_eq_true, if_false, zipSome_eq_some] at ha
          obtain ⟨a, r, h1, h2, rfl⟩ := ha
          have hfF : f ∈ F := hsub f (by simp)
          obtain ⟨f', hf', hok⟩ := hvals (f.name, v) (by simp [TLKVs.toList])
          obtain ⟨hf'F, hf'n⟩ := find?_mem_key (·.name) F f.name f' hf'
          have := eq_of_name_eq F hnd f' f hf'F hfF hf'n
          subst this
          rw [viewFields_cons] at hw
          simp only [zipSome_eq_some] at hw
          obtain ⟨wa, wr, h3, h4, rfl⟩ := hw
          have ihrest := assignFields_view es gfs fs F r (fun f hf => hsub f (by simp [hf])) hnd hwfF
              (fun e he => hvals e (by simp [TLKVs.toList, he])) hc.2 h2 wr h4
          rw [ihrest]
          have hcF := hc.1.2
          unfold compatField at hcF
          unfold assignField at h1
          unfold viewField at h3
          simp only at hok
          cases hs : fslot g f'.opt f'.nullable with
          | value =>
            simp only [hs] at h1 hcF h3
            have hva : v ≠ .absent := by intro h; subst h; simp [assignC] at h1
            have hcv : conforms f'.ty f'.nullable v = true := by
              cases v <;> first | exact absurd rfl hva | exact hok
            rw [assignC_view v g f'.ty f'.nullable a (hwfF f' hfF) hcF hcv h1 wa h3]
          | optPtr g1 =>
            obtain ⟨ho, rfl⟩ := fslot_optPtr hs
            simp only [hs, Bool.and_eq_true] at h1 hcF h3
            by_cases hva : v = .absent
            · subst hva
              simp only [if_true, Option.some.injEq] at h1
              subst h1
              simp only [Option.some.injEq] at h3
              rw [← h3]
            · simp only [hva, if_false, Option.map_eq_some_iff] at h1
              obtain ⟨a1, h1, rfl⟩ := h1
              simp only at h3
              have hcv : conforms f'.ty f'.nullable v = true := by
                cases v <;> first | exact absurd rfl hva | exact hok
              rw [assignC_view v g1 f'.ty f'.nullable a1 (hwfF f' hfF) hcF.2 hcv h1 wa h3]
          | optBare =>
            obtain ⟨ho, hn, hb⟩ := fslot_optBare hs
            simp only [hs] at h1 hcF h3
            by_cases hva : v = .absent
            · subst hva
              simp only [if_true, Option.some.injEq] at h1
              subst h1
              simp only [if_true, Option.some.injEq] at h3
              rw [← h3]
            · simp only [hva, if_false] at h1
              have hnb := (assignC_bare_ne hb hcF h1).1
              simp only [hnb, if_false] at h3
              have hcv : conforms f'.ty false v = true := by
                have : conforms f'.ty f'.nullable v = true := by
                  cases v <;> first | exact absurd rfl hva | exact hok
                rwa [hn] at this
              rw [assignC_view v g f'.ty false a (hwfF f' hfF) hcF hcv h1 wa h3]
          | bad => simp [hs] at h1
        · have : (k != f.name) = true := by simpa using hk
          simp [this] at ha
end

/-- root form, for any conforming typed value -/
theorem assign_view (g : GoTy) (t : Ty) (tl : TL) (gv : GoVal) (hwf : t.wf = true)
    (hc : compatible g t false = true) (ha : assign g t tl = some gv)
    (w : TL) (hw : view g t false gv = some w) : w = normalize t tl := by
  unfold assign at ha
  split at ha
  · rename_i hcf
    exact assignC_view _ g t false gv hwf hc (conforms_normalize tl t false hwf hcf) ha w hw
  · cases ha

end GoBind
end Ipld
