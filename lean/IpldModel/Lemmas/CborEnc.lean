/-
  Helper lemmas about the model encoder: entries as a mapped list, length arithmetic,
  agreement with the Spec's canonical encoder.
-/
import IpldModel.Lemmas.CborSort
namespace Ipld
namespace Cbor

theorem encKVs_eq_map (cfg : EncCfg) : (es : DMKVs) →
    encKVs cfg es = es.toList.map (fun e => (e.1, enc cfg e.2))
  | .nil => rfl
  | .cons k v es => by simp [encKVs, DMKVs.toList, encKVs_eq_map cfg es]

theorem keysOf_encKVs (cfg : EncCfg) (es : DMKVs) : keysOf (encKVs cfg es) = es.keys := by
  rw [encKVs_eq_map]; simp [keysOf, DMKVs.keys, List.map_map, Function.comp_def]

theorem encList_eq (cfg : EncCfg) : (xs : DMs) →
    encList cfg xs = (xs.toList.map (enc cfg)).flatten
  | .nil => rfl
  | .cons x xs => by simp [encList, DMs.toList, encList_eq cfg xs]

/-! ### lengths -/

def pairLen (e : Bytes × Bytes) : Nat := uintLength e.1.length + e.1.length + e.2.length

theorem flattenPairs_length (l : List (Bytes × Bytes)) : (flattenPairs l).length = (l.map pairLen).sum := by
  induction l with
  | nil => rfl
  | cons x xs ih =>
    simp only [flattenPairs, List.flatMap_cons, List.length_append, List.map_cons, List.sum_cons] at ih ⊢
    rw [ih]; simp [pairLen, encStr, head_length]

theorem flattenPairs_length_perm {l₁ l₂ : List (Bytes × Bytes)} (p : l₁.Perm l₂) :
    (flattenPairs l₁).length = (flattenPairs l₂).length := by
  rw [flattenPairs_length, flattenPairs_length]
  exact (p.map pairLen).sum_nat

theorem encInt_length (i : Int) : (encInt i).length = (if 0 ≤ i then uintLength i.toNat else uintLength (-1 - i).toNat) := by
  unfold encInt; split <;> simp [head_length]

mutual
theorem enc_length (cfg : EncCfg) : (d : DM) → (enc cfg d).length = encodedLength d
  | .null => rfl
  | .bool true => rfl
  | .bool false => rfl
  | .int i => by simp only [enc, encodedLength]; exact encInt_length i
  | .float b => by simp [enc, encodedLength, encFloat, beBytes_length]
  | .str s => by simp [enc, encodedLength, encStr, head_length]
  | .bytes s => by simp [enc, encodedLength, encBytes, head_length]
  | .link c => by simp [enc, encodedLength, encLink, head_length]; omega
  | .list xs => by
    simp only [enc, encodedLength, List.length_append, head_length, encList_length cfg xs]
  | .map es => by
    simp only [enc, encodedLength, List.length_append, head_length]
    rw [flattenPairs_length_perm (sortPairs_perm cfg.sort _), encKVs_length cfg es]
theorem encList_length (cfg : EncCfg) : (xs : DMs) → (encList cfg xs).length = encodedLengthList xs
  | .nil => rfl
  | .cons x xs => by simp [encList, encodedLengthList, enc_length cfg x, encList_length cfg xs]
theorem encKVs_length (cfg : EncCfg) : (es : DMKVs) → (flattenPairs (encKVs cfg es)).length = encodedLengthKVs es
  | .nil => rfl
  | .cons k v es => by
    have ih := encKVs_length cfg es
    simp only [flattenPairs, encKVs, List.flatMap_cons, List.length_append, encodedLengthKVs] at ih ⊢
    rw [ih, enc_length cfg v]; simp [encStr, head_length]
end

/-! ### agreement with the Spec -/

theorem insertKV_toList (k : Bytes) (v : DM) : (es : DMKVs) →
    (Spec.insertKV k v es).toList = insertL k v es.toList
  | .nil => rfl
  | .cons k' v' es => by
    simp only [Spec.insertKV, DMKVs.toList, insertL, spec_keyLE_eq]
    split
    · rfl
    · simp [DMKVs.toList, insertKV_toList k v es]

theorem canonKVs_toList : (es : DMKVs) →
    (Spec.canonKVs es).toList = isortL (es.toList.map (fun e => (e.1, Spec.canon e.2)))
  | .nil => rfl
  | .cons k v es => by
    simp only [Spec.canonKVs, DMKVs.toList, List.map_cons, isortL]
    rw [insertKV_toList, canonKVs_toList es]

theorem canonKVs_length (es : DMKVs) : (Spec.canonKVs es).length = es.length := by
  simp only [DMKVs.length, canonKVs_toList]
  rw [(isortL_perm _).length_eq]; simp

theorem canonList_length : (xs : DMs) → (Spec.canonList xs).length = xs.length
  | .nil => rfl
  | .cons x xs => by
    have := canonList_length xs
    simp only [DMs.length, Spec.canonList, DMs.toList, List.length_cons] at this ⊢
    omega

theorem encOrderedKVs_eq : (es : DMKVs) →
    Spec.encOrderedKVs es = flattenPairs (es.toList.map (fun e => (e.1, Spec.encOrdered e.2)))
  | .nil => rfl
  | .cons k v es => by
    have ih := encOrderedKVs_eq es
    simp only [Spec.encOrderedKVs, DMKVs.toList, List.map_cons, flattenPairs, List.flatMap_cons] at ih ⊢
    rw [ih]
    simp [encStr, head_eq_shortest, List.append_assoc]

mutual
/-- The model encoder (sort the encoded entries, then emit) writes exactly the Spec's canonical form
    (put the value in canonical order, then write it in that order). -/
theorem enc_eq_canon : (d : DM) → d.NoDup → enc dagcborEnc d = Spec.canonEncode d
  | .null, _ => rfl
  | .bool true, _ => rfl
  | .bool false, _ => rfl
  | .int i, _ => by simp [enc, Spec.canonEncode, Spec.canon, Spec.encOrdered, encInt, head_eq_shortest]
  | .float b, _ => by simp [enc, Spec.canonEncode, Spec.canon, Spec.encOrdered, encFloat, spec_be_eq]
  | .str s, _ => by simp [enc, Spec.canonEncode, Spec.canon, Spec.encOrdered, encStr, head_eq_shortest]
  | .bytes s, _ => by simp [enc, Spec.canonEncode, Spec.canon, Spec.encOrdered, encBytes, head_eq_shortest]
  | .link c, _ => by
    simp only [enc, Spec.canonEncode, Spec.canon, Spec.encOrdered, encLink, ← head_eq_shortest]
    rfl
  | .list xs, h => by
    have ih := encList_eq_canon xs h
    simp only [enc, Spec.canonEncode, Spec.canon, Spec.encOrdered, ← head_eq_shortest, canonList_length] at ih ⊢
    rw [ih]
  | .map es, h => by
    obtain ⟨hk, hv⟩ := h
    simp only [enc, Spec.canonEncode, Spec.canon, Spec.encOrdered, ← head_eq_shortest, canonKVs_length]
    congr 1
    rw [encOrderedKVs_eq, canonKVs_toList, isortL_map (fun v => Spec.encOrdered v)]
    simp only [List.map_map, Function.comp_def]
    have e : es.toList.map (fun e => (e.1, Spec.encOrdered (Spec.canon e.2))) = encKVs dagcborEnc es := by
      rw [encKVs_eq_canon es hv]
    rw [e, isortL_eq_sortPairs (by rw [keysOf_encKVs]; exact hk)]
    rfl
theorem encList_eq_canon : (xs : DMs) → xs.NoDup → encList dagcborEnc xs = Spec.encOrderedList (Spec.canonList xs)
  | .nil, _ => rfl
  | .cons x xs, h => by
    have h1 := enc_eq_canon x h.1
    have h2 := encList_eq_canon xs h.2
    simp only [Spec.canonEncode] at h1
    simp [encList, Spec.canonList, Spec.encOrderedList, h1, h2]
theorem encKVs_eq_canon : (es : DMKVs) → es.NoDupVals →
    encKVs dagcborEnc es = es.toList.map (fun e => (e.1, Spec.encOrdered (Spec.canon e.2)))
  | .nil, _ => rfl
  | .cons k v es, h => by
    have h1 := enc_eq_canon v h.1
    have h2 := encKVs_eq_canon es h.2
    simp only [Spec.canonEncode] at h1
    simp [encKVs, DMKVs.toList, h1, h2]
end

end Cbor
end Ipld
