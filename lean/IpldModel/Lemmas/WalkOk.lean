/-
  When does the unrestricted walk succeed?  Exactly when the selection is clean (`Spec.cleanFrom`: no ADL
  clause, no failing `Explore`, every explored link loadable, finite depth) and the fuel suffices:
  `clean_of_walk_ok` (a successful walk with fuel `f` is clean to depth `f`) and `walk_ok_of_clean` (a selection
  clean to depth `d` whose positions try at most `W` segments each is walked successfully with fuel
  `d * (W + 3)`).
-/
import IpldModel.Lemmas.WalkComplete
namespace Ipld
namespace Walk
open Sel Spec

theorem needsAdl_eq_isInterp (s : S) : needsAdl s = isInterp s := by
  cases s <;> rfl

/-- `cleanFrom` for one child `(seg, value)` of the loop -/
def cleanChild (store : Store) (d : Nat) (n : DM) (s : S) (x : Seg × DM) : Bool :=
  match explore s n x.1 with
  | .error _ => false
  | .ok none => true
  | .ok (some s') =>
    match deref store x.2 with
    | none => false
    | some n' => cleanFrom store d n' s'

theorem cleanFrom_succ (store : Store) (d : Nat) (n : DM) (s : S) :
    cleanFrom store (d + 1) n s =
      (!needsAdl s && (segsAt n s).all fun seg =>
        match childAt n s seg with
        | none => true
        | some v => cleanChild store d n s (seg, v)) := rfl

theorem cleanFrom_iff {n : DM} (hn : n.NoDup) (store : Store) (d : Nat) (s : S) :
    cleanFrom store (d + 1) n s = true ↔
      isInterp s = false ∧ ∀ x ∈ childList n s, cleanChild store d n s x = true := by
  rw [cleanFrom_succ, Bool.and_eq_true, List.all_eq_true, needsAdl_eq_isInterp]
  constructor
  · rintro ⟨h1, h2⟩
    refine ⟨by simpa using h1, ?_⟩
    rintro ⟨seg, v⟩ hx
    obtain ⟨hm, hl⟩ := (childList_mem_iff hn s seg v).1 hx
    have := h2 seg hm
    simp only [childAt, hm, if_true, hl] at this
    exact this
  · rintro ⟨h1, h2⟩
    refine ⟨by simp [h1], ?_⟩
    intro seg hm
    cases hc : childAt n s seg with
    | none => rfl
    | some v =>
      simp only
      apply h2
      simp only [childAt, hm, if_true] at hc
      exact (childList_mem_iff hn s seg v).2 ⟨hm, hc⟩

/-! ### a successful walk is clean -/

theorem clean_all (cfg : Cfg) (hu : Unrestricted cfg) (hstore : StoreNoDup cfg.store) (fuel : Nat) :
    (∀ past path n s st st', Plain st → n.NoDup → walkAdv cfg fuel past path n s st = (st', .ok ()) →
      ∀ d, fuel ≤ d → cleanFrom cfg.store d n s = true) ∧
    (∀ path n s l lp st st', Plain st → n.NoDup → (∀ x ∈ l, x ∈ childList n s) →
      walkChildren cfg fuel path n s l lp st = (st', .ok ()) →
      ∀ d, fuel ≤ d → ∀ x ∈ l, cleanChild cfg.store d n s x = true) ∧
    (∀ past path n s ps v st st', Plain st → n.NoDup → (ps, v) ∈ childList n s →
      exploreChild cfg fuel past path n s ps v st = (st', .ok ()) →
      ∀ d, fuel ≤ d → cleanChild cfg.store d n s (ps, v) = true) := by
  induction fuel with
  | zero =>
    refine ⟨?_, ?_, ?_⟩
    · intro past path n s st st' _ _ h; rw [walkAdv_zero] at h; cases h
    · intro path n s l lp st st' _ _ _ h; rw [walkChildren_zero] at h; cases h
    · intro past path n s ps v st st' _ _ _ h; rw [exploreChild_zero] at h; cases h
  | succ fuel ih =>
    obtain ⟨ihA, ihC, ihE⟩ := ih
    refine ⟨?_, ?_, ?_⟩
    · intro past path n s st st' hp hn h d hd
      obtain ⟨d, rfl⟩ : ∃ d', d = d' + 1 := ⟨d - 1, by omega⟩
      rw [walkAdv_succ, checkNode_plain hp] at h
      simp only [visitSt_nil cfg hu.startAt] at h
      rw [cleanFrom_iff hn]
      split at h
      · cases h
      · rename_i hi
        refine ⟨by simpa using hi, ?_⟩
        split at h
        · rename_i hrec
          rw [childList_nonrec (by simpa using hrec)]
          intro x hx; cases hx
        · exact ihC path n s (childList n s) _ { st with events := visitEvent path n s :: st.events } st'
            hp hn (fun x hx => hx) h d (by omega)
    · intro path n s l lp st st' hp hn hl h d hd
      cases l with
      | nil => intro x hx; cases hx
      | cons x rest =>
        obtain ⟨ps, v⟩ := x
        rw [walkChildren_cons] at h
        simp only [loopStep_nil cfg hu.startAt, Bool.false_eq_true, if_false] at h
        have hpl := (plain_all cfg fuel).2.2 lp.past path n s ps v st hp
        have h1 := ihE lp.past path n s ps v st
        generalize exploreChild cfg fuel lp.past path n s ps v st = r at h h1 hpl
        obtain ⟨st1, r⟩ := r
        cases r with
        | error e => simp only [andThen_error] at h; cases h
        | ok u =>
          cases u
          rw [andThen_ok] at h
          have e1 := h1 st1 hp hn (hl _ (by simp)) rfl d (by omega)
          have e2 := ihC path n s rest lp st1 st' hpl hn (fun x hx => hl x (by simp [hx])) h d (by omega)
          intro x hx
          rcases List.mem_cons.1 hx with rfl | hx
          · exact e1
          · exact e2 x hx
    · intro past path n s ps v st st' hp hn hmem h d hd
      rw [exploreChild_succ] at h
      unfold cleanChild
      split at h
      · cases h
      · cases h
      · rename_i hx; simp only [hx]
      · rename_i sNext hx
        simp only [hx]
        unfold enterChild at h
        split at h
        · rename_i c
          rw [linkStep_plain cfg hu.linkOnce c hp] at h
          simp only [hu.skip, List.contains_nil, Bool.false_eq_true, if_false] at h
          cases hs : storeGet cfg.store c with
          | none => rw [hs] at h; simp only at h; cases h
          | some blk =>
            rw [hs] at h
            simp only at h
            simp only [deref_link hs]
            exact ihA past (path ++ [ps]) blk sNext { st with events := .load c :: st.events } st'
              hp (hstore c blk hs) h d (by omega)
        · rename_i hnl
          rw [deref_nonlink cfg.store (fun c hc => hnl c hc)]
          simp only
          exact ihA past (path ++ [ps]) v sNext st st' hp (childList_noDup hn hmem) h d (by omega)

theorem clean_of_walk_ok (cfg : Cfg) (hu : Unrestricted cfg) (hstore : StoreNoDup cfg.store) (root : DM)
    (hroot : root.NoDup) (s : S) (fuel : Nat) (hok : (walk cfg fuel none none root s).outcome = .ok ())
    (d : Nat) (hd : fuel ≤ d) : cleanFrom cfg.store d root s = true := by
  unfold walk at hok
  have h := (clean_all cfg hu hstore fuel).1 false [] root s { nodeBudget := none, linkBudget := none }
  generalize walkAdv cfg fuel false [] root s { nodeBudget := none, linkBudget := none } = r at h hok
  obtain ⟨st', o⟩ := r
  simp only at hok
  subst hok
  exact h st' ⟨rfl, rfl⟩ hroot rfl d hd

/-- what `cleanFrom` says about one explored child -/
theorem clean_step {store : Store} {d : Nat} {n : DM} {s : S} (hc : cleanFrom store (d + 1) n s = true) {seg : Seg}
    {v : DM} {s' : S} (hm : seg ∈ segsAt n s) (hl : lookupBySegment n seg = some v)
    (hx : explore s n seg = .ok (some s')) : ∃ n', deref store v = some n' ∧ cleanFrom store d n' s' = true := by
  rw [cleanFrom_succ, Bool.and_eq_true, List.all_eq_true] at hc
  have := hc.2 seg hm
  simp only [childAt, hm, if_true, hl, cleanChild, hx] at this
  cases hd : deref store v with
  | none => rw [hd] at this; cases this
  | some n' => rw [hd] at this; exact ⟨n', rfl, this⟩

/-! ### a clean selection is walked successfully, given enough fuel -/

/-- every position selected below `(n, s)` tries at most `W` segments -/
def WidthLe (store : Store) (W : Nat) (n : DM) (s : S) : Prop :=
  ∀ q n' s', selectorAt store s n q = some (n', s') → (segsAt n' s').length ≤ W

theorem WidthLe.step {store : Store} {W : Nat} {n : DM} {s : S} (h : WidthLe store W n s) {seg : Seg} {n' : DM}
    {s' : S} (hstep : stepAt store n s seg = some (n', s')) : WidthLe store W n' s' := by
  intro q n2 s2 hq
  apply h (seg :: q) n2 s2
  rw [selectorAt_cons, hstep]; exact hq

theorem childList_length_le {n : DM} (hn : n.NoDup) (s : S) : (childList n s).length ≤ (segsAt n s).length := by
  rw [childList_eq_lookup hn]
  exact List.length_filterMap_le _ _

section
variable (cfg : Cfg) (hu : Unrestricted cfg) (hstore : StoreNoDup cfg.store) (W B d : Nat)
  (ihA : ∀ fuel past path n s st, Plain st → n.NoDup → cleanFrom cfg.store d n s = true →
      WidthLe cfg.store W n s → B ≤ fuel → (walkAdv cfg fuel past path n s st).2 = .ok ())
include hu hstore ihA

theorem ok_child (fuel : Nat) (past : Bool) (path : Path) (n : DM) (s : S) (ps : Seg) (v : DM) (st : St)
    (hp : Plain st) (hn : n.NoDup) (hmem : (ps, v) ∈ childList n s) (hc : cleanChild cfg.store d n s (ps, v) = true)
    (hw : WidthLe cfg.store W n s) (hf : B + 1 ≤ fuel) :
    (exploreChild cfg fuel past path n s ps v st).2 = .ok () := by
  obtain ⟨fuel, rfl⟩ : ∃ f, fuel = f + 1 := ⟨fuel - 1, by omega⟩
  rw [exploreChild_succ]
  unfold cleanChild at hc
  obtain ⟨hm, hl⟩ := (childList_mem_iff hn s ps v).1 hmem
  split at hc
  · cases hc
  · rename_i hx; simp only [hx]
  · rename_i s' hx
    simp only [hx]
    split at hc
    · cases hc
    · rename_i n' hd
      have hstep := stepAt_of hm hl hx hd
      unfold enterChild
      split
      · rename_i c
        rw [linkStep_plain cfg hu.linkOnce c hp]
        simp only [hu.skip, List.contains_nil, Bool.false_eq_true, if_false]
        have hs : storeGet cfg.store c = some n' := by rw [storeGet_eq_lookup]; exact hd
        rw [hs]
        simp only
        exact ihA fuel past (path ++ [ps]) n' s' _ hp (hstore c n' hs) hc (hw.step hstep) (by omega)
      · rename_i hnl
        rw [deref_nonlink cfg.store (fun c hc => hnl c hc)] at hd
        cases hd
        exact ihA fuel past (path ++ [ps]) v s' st hp (childList_noDup hn hmem) hc (hw.step hstep) (by omega)

theorem ok_children (path : Path) (n : DM) (s : S) (hn : n.NoDup) (hw : WidthLe cfg.store W n s) :
    ∀ (l : List (Seg × DM)) (fuel : Nat) (lp : Loop) (st : St), Plain st →
      (∀ x ∈ l, x ∈ childList n s ∧ cleanChild cfg.store d n s x = true) → B + 2 + l.length ≤ fuel →
      (walkChildren cfg fuel path n s l lp st).2 = .ok ()
  | [], fuel, lp, st, _, _, hf => by
    obtain ⟨fuel, rfl⟩ : ∃ f, fuel = f + 1 := ⟨fuel - 1, by omega⟩
    rw [walkChildren_nil]
  | (ps, v) :: rest, fuel, lp, st, hp, hl, hf => by
    obtain ⟨fuel, rfl⟩ : ∃ f, fuel = f + 1 := ⟨fuel - 1, by omega⟩
    simp only [List.length_cons] at hf
    rw [walkChildren_cons]
    simp only [loopStep_nil cfg hu.startAt, Bool.false_eq_true, if_false]
    obtain ⟨hmem, hc⟩ := hl (ps, v) (by simp)
    have h1 := ok_child cfg hu hstore W B d ihA fuel lp.past path n s ps v st hp hn hmem hc hw (by omega)
    have hpl := (plain_all cfg fuel).2.2 lp.past path n s ps v st hp
    generalize exploreChild cfg fuel lp.past path n s ps v st = r at h1 hpl
    obtain ⟨st1, r⟩ := r
    simp only at h1
    subst h1
    rw [andThen_ok]
    exact ok_children path n s hn hw rest fuel lp st1 hpl (fun x hx => hl x (by simp [hx])) (by omega)

end

theorem ok_adv (cfg : Cfg) (hu : Unrestricted cfg) (hstore : StoreNoDup cfg.store) (W : Nat) : ∀ (d : Nat),
    ∀ fuel past path n s st, Plain st → n.NoDup → cleanFrom cfg.store d n s = true →
      WidthLe cfg.store W n s → d * (W + 3) ≤ fuel → (walkAdv cfg fuel past path n s st).2 = .ok ()
  | 0, _, _, _, _, _, _, _, _, hc, _, _ => by simp [cleanFrom] at hc
  | d + 1, fuel, past, path, n, s, st, hp, hn, hc, hw, hf => by
    rw [Nat.succ_mul] at hf
    obtain ⟨fuel, rfl⟩ : ∃ f, fuel = f + 1 := ⟨fuel - 1, by omega⟩
    obtain ⟨hi, hcl⟩ := (cleanFrom_iff hn cfg.store d s).1 hc
    rw [walkAdv_succ, checkNode_plain hp]
    simp only [hi, Bool.false_eq_true, if_false, visitSt_nil cfg hu.startAt]
    split
    · rfl
    · have hlen := childList_length_le hn s
      have hW := hw [] n s rfl
      exact ok_children cfg hu hstore W (d * (W + 3)) d (ok_adv cfg hu hstore W d) path n s hn hw (childList n s) fuel _ _
        hp (fun x hx => ⟨hx, hcl x hx⟩) (by omega)

theorem walk_ok_of_clean (cfg : Cfg) (hu : Unrestricted cfg) (hstore : StoreNoDup cfg.store) (root : DM)
    (hroot : root.NoDup) (s : S) (d W : Nat) (hc : cleanFrom cfg.store d root s = true)
    (hw : WidthLe cfg.store W root s) (fuel : Nat) (hf : d * (W + 3) ≤ fuel) :
    (walk cfg fuel none none root s).outcome = .ok () := by
  have := ok_adv cfg hu hstore W d fuel false [] root s { nodeBudget := none, linkBudget := none } ⟨rfl, rfl⟩
    hroot hc hw hf
  unfold walk
  generalize walkAdv cfg fuel false [] root s { nodeBudget := none, linkBudget := none } = r at this
  obtain ⟨st', o⟩ := r
  exact this

/-- a checkable form of `WidthLe` for selections of bounded depth: no position of relative depth `< depth`
    tries more than `W` segments -/
def widthWithin (store : Store) (W : Nat) : Nat → DM → S → Bool
  | 0, _, _ => true
  | depth + 1, n, s =>
    decide ((segsAt n s).length ≤ W) && (segsAt n s).all fun seg =>
      match stepAt store n s seg with
      | some (n', s') => widthWithin store W depth n' s'
      | none => true

theorem widthLe_of_within (store : Store) (W : Nat) : ∀ (d : Nat) (n : DM) (s : S),
    cleanFrom store d n s = true → widthWithin store W d n s = true → WidthLe store W n s
  | 0, _, _, hc, _ => by simp [cleanFrom] at hc
  | d + 1, n, s, hc, hw => by
    rw [widthWithin, Bool.and_eq_true, List.all_eq_true] at hw
    intro q n2 s2 hq
    cases q with
    | nil => rw [selectorAt_nil] at hq; cases hq; simpa using hw.1
    | cons seg rest =>
      rw [selectorAt_cons] at hq
      cases hstep : stepAt store n s seg with
      | none => rw [hstep] at hq; cases hq
      | some y =>
        obtain ⟨n', s'⟩ := y
        rw [hstep] at hq
        obtain ⟨v, hm, hl, hx, hd⟩ := stepAt_some hstep
        obtain ⟨n'', hd', hc'⟩ := clean_step hc hm hl hx
        rw [hd] at hd'; cases hd'
        have hw' := hw.2 seg hm
        rw [hstep] at hw'
        exact widthLe_of_within store W d n' s' hc' hw' rest n2 s2 hq

end Walk
end Ipld
