/-
  C10 — decoders are bounded.  Whatever the input claims, under every configuration (strict or
  relaxed, any limits): the DAG-CBOR decoder never returns a value nested deeper than `maxDepth`,
  never lets the allocation budget go negative, charges exactly `Spec.cost v` for the value it returns
  (so nodes and payload of the result are bounded by the budget), refuses a collection header larger
  than the remaining budget before reading any element, and consumes at least one byte per item (so
  `input length + 1` recursion fuel is enough).  The DAG-JSON token decoder never returns a value
  nested deeper than `maxDepth` either.  Property theorems only; helper lemmas are in
  `Lemmas/CborBounds.lean` and `Lemmas/JsonBounds.lean`.
-/
import IpldModel.Model.Cbor
import IpldModel.Model.JsonTok
import IpldModel.Spec.CborLimits
import IpldModel.Spec.CanonJson
import IpldModel.Lemmas.CborBounds
import IpldModel.Lemmas.JsonBounds
namespace Ipld.Props.C10
open Ipld Ipld.Cbor Ipld.Spec

/-! ## A1 — nesting depth -/

/-- One item decoded at nesting level `depth ≤ maxDepth` fits under the cap.  (A container is refused
    when `depth ≥ maxDepth`, so a container decoded at `depth` has `depth + 1 ≤ maxDepth`; a scalar
    has depth 0, which is why `depth ≤ maxDepth` is needed and enough.) -/
theorem decItem_depth (cfg : DecCfg) (fuel depth : Nat) (extra : Int) (tag : Option Nat) (s s' : DS) (v : DM) :
    depth ≤ cfg.maxDepth → decItem cfg fuel depth extra tag s = .ok (v, s') →
    depth + v.depth ≤ cfg.maxDepth :=
  fun hd h => (decItem_bounds cfg fuel depth extra tag s v s' hd h).2.2.2

/-- The list loop, for any element decoder whose results fit under the cap at `depth`. -/
theorem decList_depth (cfg : DecCfg) (depth : Nat) (item : DS → R (DM × DS))
    (hitem : ∀ s v s', item s = .ok (v, s') → depth + v.depth ≤ cfg.maxDepth)
    (n : Nat) (s s' : DS) (xs : List DM) :
    depth ≤ cfg.maxDepth → decList item n s = .ok (xs, s') →
    depth + (DMs.ofList xs).depth ≤ cfg.maxDepth := by
  intro hd
  induction n generalizing s xs with
  | zero =>
    intro h; simp only [decList] at h
    injection h with h; injection h with ha hb; subst ha
    simp only [DMs.ofList, DMs.depth]; omega
  | succ n ih =>
    intro h; simp only [decList] at h
    obtain ⟨⟨x, s1⟩, h1, h2⟩ := bind_ok h
    simp only [] at h2
    obtain ⟨⟨xs', s2⟩, h3, h4⟩ := bind_ok h2
    simp only [pure, Except.pure] at h4
    injection h4 with h4; injection h4 with ha hb; subst ha hb
    have := hitem _ _ _ h1
    have := ih s1 xs' h3
    simp only [DMs.ofList, DMs.depth]; omega

/-- The map loop, likewise. -/
theorem decMap_depth (cfg : DecCfg) (depth : Nat) (item : DS → R (DM × DS))
    (hitem : ∀ s v s', item s = .ok (v, s') → depth + v.depth ≤ cfg.maxDepth)
    (n : Nat) (seen : List Bytes) (s s' : DS) (es : List (Bytes × DM)) :
    depth ≤ cfg.maxDepth → decMap cfg item n seen s = .ok (es, s') →
    depth + (DMKVs.ofList es).depth ≤ cfg.maxDepth := by
  intro hd
  induction n generalizing s es seen with
  | zero =>
    intro h; simp only [decMap] at h
    injection h with h; injection h with ha hb; subst ha
    simp only [DMKVs.ofList, DMKVs.depth]; omega
  | succ n ih =>
    intro h; simp only [decMap] at h
    obtain ⟨⟨k, s1⟩, h1, h2⟩ := bind_ok h
    simp only [] at h2
    obtain ⟨s2, h3, h4⟩ := bind_ok h2
    split at h4
    · cases h4
    · obtain ⟨⟨v, s3⟩, h5, h6⟩ := bind_ok h4
      simp only [] at h6
      obtain ⟨⟨es', s4⟩, h7, h8⟩ := bind_ok h6
      simp only [pure, Except.pure] at h8
      injection h8 with h8; injection h8 with ha hb; subst ha hb
      have := hitem _ _ _ h5
      have := ih _ s3 es' h7
      simp only [DMKVs.ofList, DMKVs.depth]; omega

/-- **decode_depth.**  No successfully decoded value is nested deeper than `maxDepth`. -/
theorem decode_depth (cfg : DecCfg) (bs : Bytes) (v : DM) :
    decode cfg bs = .ok v → v.depth ≤ cfg.maxDepth := by
  intro h
  obtain ⟨s', h1⟩ := decode_ok h
  have := decItem_depth cfg _ 0 0 none _ s' v (Nat.zero_le _) h1
  omega

/-! ## A2 — allocation budget -/

/-- Exact accounting: a successful item decode charges the list-entry charge `extra` plus `Spec.cost v`,
    no more and no less, whatever the sign of anything. -/
theorem decItem_budget_exact (cfg : DecCfg) (fuel depth : Nat) (extra : Int) (tag : Option Nat) (s s' : DS) (v : DM) :
    depth ≤ cfg.maxDepth → decItem cfg fuel depth extra tag s = .ok (v, s') →
    s.budget - s'.budget = extra + cost v :=
  fun hd h => (decItem_bounds cfg fuel depth extra tag s v s' hd h).2.2.1

/-- The budget never goes negative (even if it started negative: every successful path ends in a
    `charge`, which refuses a negative remainder) and, for a non-negative entry charge, only decreases. -/
theorem decItem_budget (cfg : DecCfg) (fuel depth : Nat) (extra : Int) (tag : Option Nat) (s s' : DS) (v : DM) :
    depth ≤ cfg.maxDepth → 0 ≤ extra → decItem cfg fuel depth extra tag s = .ok (v, s') →
    0 ≤ s'.budget ∧ s'.budget ≤ s.budget := by
  intro hd he h
  obtain ⟨_, h0, hb, _⟩ := decItem_bounds cfg fuel depth extra tag s v s' hd h
  have := cost_nonneg v
  exact ⟨h0, by omega⟩

/-- The list loop charges `4 + cost x` per element (`Spec.costList`), keeps the budget non-negative. -/
theorem decList_budget (cfg : DecCfg) (fuel depth n : Nat) (s s' : DS) (xs : List DM) :
    depth ≤ cfg.maxDepth → decList (decItem cfg fuel depth 4 none) n s = .ok (xs, s') →
    xs.length = n ∧ (0 ≤ s.budget → 0 ≤ s'.budget) ∧ s.budget - s'.budget = costList (DMs.ofList xs) := by
  intro hd h
  obtain ⟨q1, _, q3, q4, _⟩ := decList_bounds (decItem_itemBounded cfg fuel depth 4 none hd) n s xs s' h
  exact ⟨q1, q3, q4⟩

/-- The map loop charges `key length + 8 + cost v` per entry (`Spec.costKVs`). -/
theorem decMap_budget (cfg : DecCfg) (fuel depth n : Nat) (seen : List Bytes) (s s' : DS) (es : List (Bytes × DM)) :
    depth ≤ cfg.maxDepth → decMap cfg (decItem cfg fuel depth 0 none) n seen s = .ok (es, s') →
    es.length = n ∧ (0 ≤ s.budget → 0 ≤ s'.budget) ∧ s.budget - s'.budget = costKVs (DMKVs.ofList es) := by
  intro hd h
  obtain ⟨q1, _, q3, q4, _⟩ := decMap_bounds (decItem_itemBounded cfg fuel depth 0 none hd) n seen s es s' h
  exact ⟨q1, q3, q4⟩

/-- **decode_budget.**  Whatever lengths the input claims, a successfully decoded value costs at most
    the configured budget.  (No sign hypothesis is needed: with a negative budget nothing decodes.) -/
theorem decode_budget (cfg : DecCfg) (bs : Bytes) (v : DM) :
    decode cfg bs = .ok v → cost v ≤ cfg.budget := by
  intro h
  obtain ⟨s', h1⟩ := decode_ok h
  obtain ⟨_, h0, hb, _⟩ := decItem_bounds cfg _ 0 0 none _ v s' (Nat.zero_le _) h1
  simp only [] at hb
  omega

/-- With a negative budget nothing decodes. -/
theorem decode_negative_budget (cfg : DecCfg) (bs : Bytes) (v : DM) :
    cfg.budget < 0 → decode cfg bs ≠ .ok v := by
  intro hneg h
  have := decode_budget cfg bs v h
  have := cost_nonneg v
  omega

/-- Every node is paid for: a scalar costs at least 0 and is one node, each list element costs 4 more,
    each map entry 8 more, each collection header one per entry. -/
theorem nodes_le_cost (v : DM) : (v.size : Int) ≤ cost v + 1 := size_le_cost v

/-- Every payload byte (strings, byte strings, CIDs, map keys) is paid for. -/
theorem payload_le_cost (v : DM) : (payload v : Int) ≤ cost v := payload_le_cost' v

/-- **decode_nodes_bounded.**  The number of nodes of a decoded value is bounded by the budget. -/
theorem decode_nodes_bounded (cfg : DecCfg) (bs : Bytes) (v : DM) :
    decode cfg bs = .ok v → (v.size : Int) ≤ cfg.budget + 1 := by
  intro h
  have := decode_budget cfg bs v h
  have := nodes_le_cost v
  omega

/-- The total payload of a decoded value is bounded by the budget. -/
theorem decode_payload_bounded (cfg : DecCfg) (bs : Bytes) (v : DM) :
    decode cfg bs = .ok v → (payload v : Int) ≤ cfg.budget := by
  intro h
  have := decode_budget cfg bs v h
  have := payload_le_cost v
  omega

/-! ## A3 — a declared length is charged before any element is decoded -/

/-- A list header claiming `n` entries with `n` above what is left of the budget (after the entry
    charge) fails with `.budget` whatever follows it — `rest` is arbitrary, so no element is looked at.
    Conditions that reach that point: untagged, `depth < maxDepth` (else `.depth`), `n < 2^63`
    (else `.lenOverflow`); the head is the shortest one, which both strict and relaxed mode accept. -/
theorem prealloc_charged_list (cfg : DecCfg) (fuel depth : Nat) (extra B : Int) (n : Nat) (rest : Bytes) :
    n < 2 ^ 63 → depth < cfg.maxDepth → B - extra < n →
    decItem cfg (fuel + 1) depth extra none ⟨shortestHead 4 n ++ rest, B⟩ = .error .budget :=
  decItem_list_prealloc cfg fuel depth extra B n rest

/-- The same for a map header. -/
theorem prealloc_charged_map (cfg : DecCfg) (fuel depth : Nat) (extra B : Int) (n : Nat) (rest : Bytes) :
    n < 2 ^ 63 → depth < cfg.maxDepth → B - extra < n →
    decItem cfg (fuel + 1) depth extra none ⟨shortestHead 5 n ++ rest, B⟩ = .error .budget :=
  decItem_map_prealloc cfg fuel depth extra B n rest

/-- At top level: an input that opens with a list or map header larger than the budget is refused
    with `.budget`, whatever follows. -/
theorem decode_prealloc (cfg : DecCfg) (m n : Nat) (rest : Bytes) (hm : m = 4 ∨ m = 5) :
    n < 2 ^ 63 → 0 < cfg.maxDepth → cfg.budget < n →
    decode cfg (shortestHead m n ++ rest) = .error .budget := by
  intro hn hd hB
  unfold decode
  rcases hm with rfl | rfl
  · rw [decItem_list_prealloc cfg _ 0 0 cfg.budget n rest hn hd (by omega)]; rfl
  · rw [decItem_map_prealloc cfg _ 0 0 cfg.budget n rest hn hd (by omega)]; rfl

/-! ## A4 — every item consumes input -/

/-- **consumed_le_input.**  A successful item decode leaves strictly less input than it was given. -/
theorem consumed_lt_input (cfg : DecCfg) (fuel depth : Nat) (extra : Int) (tag : Option Nat) (s s' : DS) (v : DM) :
    depth ≤ cfg.maxDepth → decItem cfg fuel depth extra tag s = .ok (v, s') →
    s'.rest.length < s.rest.length :=
  fun hd h => (decItem_bounds cfg fuel depth extra tag s v s' hd h).1

theorem consumed_le_input (cfg : DecCfg) (fuel depth : Nat) (extra : Int) (tag : Option Nat) (s s' : DS) (v : DM) :
    depth ≤ cfg.maxDepth → decItem cfg fuel depth extra tag s = .ok (v, s') →
    s'.rest.length ≤ s.rest.length :=
  fun hd h => Nat.le_of_lt (consumed_lt_input cfg fuel depth extra tag s s' v hd h)

/-- Each list element takes at least one byte, each map entry at least two (key head, value). -/
theorem decList_consumed (cfg : DecCfg) (fuel depth n : Nat) (s s' : DS) (xs : List DM) :
    depth ≤ cfg.maxDepth → decList (decItem cfg fuel depth 4 none) n s = .ok (xs, s') →
    s'.rest.length + n ≤ s.rest.length :=
  fun hd h => (decList_bounds (decItem_itemBounded cfg fuel depth 4 none hd) n s xs s' h).2.1

theorem decMap_consumed (cfg : DecCfg) (fuel depth n : Nat) (seen : List Bytes) (s s' : DS) (es : List (Bytes × DM)) :
    depth ≤ cfg.maxDepth → decMap cfg (decItem cfg fuel depth 0 none) n seen s = .ok (es, s') →
    s'.rest.length + 2 * n ≤ s.rest.length :=
  fun hd h => (decMap_bounds (decItem_itemBounded cfg fuel depth 0 none hd) n seen s es s' h).2.1

/-- **decode_fuel_irrelevant.**  Any two amounts of recursion fuel above the input length give the
    same result — value or error — at every depth, entry charge, pending tag and budget. -/
theorem decItem_fuel_irrelevant (cfg : DecCfg) (fuel fuel' depth : Nat) (extra : Int) (tag : Option Nat) (s : DS) :
    s.rest.length < fuel → s.rest.length < fuel' →
    decItem cfg fuel depth extra tag s = decItem cfg fuel' depth extra tag s :=
  decItem_fuel_irrel cfg fuel fuel' depth extra tag s

/-- In particular `decode`'s own choice `input length + 1` is as good as any larger fuel. -/
theorem decode_fuel_irrelevant (cfg : DecCfg) (bs : Bytes) (fuel : Nat) (hf : bs.length + 1 ≤ fuel) :
    decItem cfg fuel 0 0 none ⟨bs, cfg.budget⟩ = decItem cfg (bs.length + 1) 0 0 none ⟨bs, cfg.budget⟩ :=
  decItem_fuel_irrel cfg fuel (bs.length + 1) 0 0 none ⟨bs, cfg.budget⟩ (by simp only []; omega) (by simp only []; omega)

/-! ## A5 — DAG-JSON -/

/-- The token-level DAG-JSON decoder never returns a value nested deeper than `maxDepth`, counting
    nesting as DAG-JSON sees it (`Spec.jsonDepth`: a link or a byte string is a map on the wire and
    counts one level — the decoder makes its depth check on the opening `{` before it looks for the
    reserved forms). -/
theorem decodeToks_jsonDepth (cfg : Json.DecCfg) (toks : List Json.JTok) (v : DM) :
    Json.decodeToks cfg toks = .ok v → jsonDepth v ≤ cfg.maxDepth :=
  Json.decodeToks_jsonDepth cfg toks v

/-- Hence also in the data-model sense. -/
theorem decodeToks_depth (cfg : Json.DecCfg) (toks : List Json.JTok) (v : DM) :
    Json.decodeToks cfg toks = .ok v → v.depth ≤ cfg.maxDepth :=
  fun h => Nat.le_trans (Json.depth_le_jsonDepth v) (Json.decodeToks_jsonDepth cfg toks v h)

/-- Mid-stream: a value decoded at nesting `depth ≤ maxDepth`. -/
theorem unTok_jsonDepth (cfg : Json.DecCfg) (fuel depth : Nat) (toks r : List Json.JTok) (v : DM) :
    depth ≤ cfg.maxDepth → Json.unTok cfg fuel depth toks = .ok (v, r) → depth + jsonDepth v ≤ cfg.maxDepth :=
  Json.unTok_depth cfg fuel depth toks v r

/-- The same for the code's 7-slot token window mechanism (it computes what `decodeToks` computes). -/
theorem decodeToksWin_jsonDepth (cfg : Json.DecCfg) (toks : List Json.JTok) (v : DM) :
    Json.decodeToksWin cfg toks = .ok v → jsonDepth v ≤ cfg.maxDepth := by
  intro h
  rw [Json.decodeToksWin_eq] at h
  exact Json.decodeToks_jsonDepth cfg toks v h

/-! ## Examples -/

/-- `[1, [2]]` decodes; its depth 2, cost `2 + (4+1) + (4 + (1 + (4+1)))` = 17 and 4 nodes are within
    every bound above. -/
example : decode dagcborDec [0x82, 0x01, 0x81, 0x02] =
    .ok (.list (.cons (.int 1) (.cons (.list (.cons (.int 2) .nil)) .nil))) := by rfl
example : cost (.list (.cons (.int 1) (.cons (.list (.cons (.int 2) .nil)) .nil))) = 17 := by decide
example : (DM.list (.cons (.int 1) (.cons (.list (.cons (.int 2) .nil)) .nil))).size = 4 := by decide
/-- the depth cap is exact: the same input with `maxDepth := 1` is refused, with `2` accepted -/
example : decode { dagcborDec with maxDepth := 1 } [0x82, 0x01, 0x81, 0x02] = .error .depth := by rfl
example : decode { dagcborDec with maxDepth := 2 } [0x82, 0x01, 0x81, 0x02] =
    .ok (.list (.cons (.int 1) (.cons (.list (.cons (.int 2) .nil)) .nil))) := by rfl
/-- the budget bound is exact: 17 is enough, 16 is not -/
example : decode { dagcborDec with budget := 17 } [0x82, 0x01, 0x81, 0x02] =
    .ok (.list (.cons (.int 1) (.cons (.list (.cons (.int 2) .nil)) .nil))) := by rfl
example : decode { dagcborDec with budget := 16 } [0x82, 0x01, 0x81, 0x02] = .error .budget := by rfl
/-- a 5-byte input claiming 2^32-1 list entries is refused on the header alone -/
example (rest : Bytes) : decode dagcborDec (shortestHead 4 4294967295 ++ rest) = .error .budget :=
  decode_prealloc dagcborDec 4 4294967295 rest (Or.inl rfl) (by decide) (by decide) (by decide)
example : shortestHead 4 4294967295 = [0x9a, 0xff, 0xff, 0xff, 0xff] := by decide
/-- DAG-JSON: `[{"/":{"bytes":""}}]` has jsonDepth 2; refused at `maxDepth := 1` -/
example : Json.decodeToks { Json.dagjsonDec with maxDepth := 1 }
    [.arrOpen, .mapOpen, .str Json.slash, .mapOpen, .str Json.bytesWord, .str [], .mapClose, .mapClose, .arrClose] =
    .error .depth := by rfl

end Ipld.Props.C10
