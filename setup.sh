#!/bin/bash
# MANIFEST.setup_cmd: build everything from files on disk only (offline).
set -e
cd "$(dirname "$(readlink -f "$0")")"
export GOFLAGS=-mod=mod GOPROXY=off
export VERIF_DIR="$(pwd)"
unset GOTOOLCHAIN GOSUMDB 2>/dev/null || true
mkdir -p build evidence lean/IpldModel/Generated
(cd go && cp -f /repo/go.sum go.sum && go build -o ../build/translate ./cmd/translate)
./build/translate /repo lean/IpldModel/Generated || true
(cd lean && lake build)
(cd go && go build -tags verif -o ../build/vcheck-bin ./cmd/vcheck)
(cd go && CGO_ENABLED=1 go build -race -tags verif -o ../build/vcheck-race ./cmd/vcheck) || echo "warning: race-instrumented harness not built (C20 will report it)"
echo setup done
