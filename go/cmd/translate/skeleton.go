package main

import (
	"bytes"
	"fmt"
	"go/ast"
	"go/printer"
	"go/token"
	"strings"
)

// A "skeleton" is the statement structure of one function, one line per statement, comments and layout removed:
// compound statements contribute their header and, indented by dots, their bodies.  It pins the control flow and the
// order of effects of the few short functions whose model is a direct transcription (link construction, the order of
// hash check and decode error in Fill, …): when one of them is edited, the theorem comparing the regenerated skeleton
// with the transcription the model was written from stops checking, and the harness goes looking for a failing input.

func (s *source) show(n ast.Node) string {
	var buf bytes.Buffer
	cfg := printer.Config{Mode: printer.RawFormat}
	if err := cfg.Fprint(&buf, token.NewFileSet(), n); err != nil {
		panic(failure{fmt.Sprintf("%s: cannot print node: %v", s.path, err)})
	}
	return strings.Join(strings.Fields(buf.String()), " ")
}

func (s *source) skeleton(fd *ast.FuncDecl) []string {
	var out []string
	var block func(stmts []ast.Stmt, depth int)
	emit := func(depth int, text string) { out = append(out, strings.Repeat(". ", depth)+text) }
	var stmt func(st ast.Stmt, depth int)
	stmt = func(st ast.Stmt, depth int) {
		switch x := st.(type) {
		case *ast.BlockStmt:
			block(x.List, depth)
		case *ast.IfStmt:
			h := "if "
			if x.Init != nil {
				h += s.show(x.Init) + "; "
			}
			emit(depth, h+s.show(x.Cond))
			block(x.Body.List, depth+1)
			if x.Else != nil {
				emit(depth, "else")
				if eb, ok := x.Else.(*ast.BlockStmt); ok {
					block(eb.List, depth+1)
				} else {
					stmt(x.Else, depth+1)
				}
			}
		case *ast.ForStmt:
			h := "for"
			if x.Init != nil || x.Cond != nil || x.Post != nil {
				parts := []string{"", "", ""}
				if x.Init != nil {
					parts[0] = s.show(x.Init)
				}
				if x.Cond != nil {
					parts[1] = s.show(x.Cond)
				}
				if x.Post != nil {
					parts[2] = s.show(x.Post)
				}
				h += " " + strings.Join(parts, "; ")
			}
			emit(depth, h)
			block(x.Body.List, depth+1)
		case *ast.RangeStmt:
			h := "range " + s.show(x.X)
			if x.Key != nil {
				k := s.show(x.Key)
				if x.Value != nil {
					k += ", " + s.show(x.Value)
				}
				h = k + " " + x.Tok.String() + " " + h
			}
			emit(depth, h)
			block(x.Body.List, depth+1)
		case *ast.SwitchStmt:
			h := "switch"
			if x.Init != nil {
				h += " " + s.show(x.Init) + ";"
			}
			if x.Tag != nil {
				h += " " + s.show(x.Tag)
			}
			emit(depth, h)
			for _, c := range x.Body.List {
				cc := c.(*ast.CaseClause)
				if cc.List == nil {
					emit(depth, "default")
				} else {
					var es []string
					for _, e := range cc.List {
						es = append(es, s.show(e))
					}
					emit(depth, "case "+strings.Join(es, ", "))
				}
				block(cc.Body, depth+1)
			}
		case *ast.TypeSwitchStmt:
			emit(depth, "typeswitch "+s.show(x.Assign))
			for _, c := range x.Body.List {
				cc := c.(*ast.CaseClause)
				if cc.List == nil {
					emit(depth, "default")
				} else {
					var es []string
					for _, e := range cc.List {
						es = append(es, s.show(e))
					}
					emit(depth, "case "+strings.Join(es, ", "))
				}
				block(cc.Body, depth+1)
			}
		case *ast.LabeledStmt:
			emit(depth, x.Label.Name+":")
			stmt(x.Stmt, depth)
		default:
			emit(depth, s.show(st))
		}
	}
	block = func(stmts []ast.Stmt, depth int) {
		for _, st := range stmts {
			stmt(st, depth)
		}
	}
	block(fd.Body.List, 0)
	return out
}

func leanStrListMultiline(xs []string) string {
	var sb strings.Builder
	sb.WriteString("[\n")
	for i, x := range xs {
		c := ","
		if i == len(xs)-1 {
			c = ""
		}
		fmt.Fprintf(&sb, "  %q%s\n", x, c)
	}
	sb.WriteString("]")
	return sb.String()
}

type skelSpec struct{ file, fn, lean, doc string }

func genSkeletons(specs []skelSpec) func(string) string {
	return func(repo string) string {
		var sb strings.Builder
		for _, sp := range specs {
			s := load(repo, sp.file)
			fd := s.funcDecl(sp.fn)
			fmt.Fprintf(&sb, "/-- generated: statement skeleton of `%s` (%s) — %s -/\ndef %s : List String := %s\n\n", sp.fn, sp.file, sp.doc, sp.lean, leanStrListMultiline(s.skeleton(fd)))
		}
		return sb.String()
	}
}

func skeletonGenFiles() []genFile {
	return []genFile{
		{"StreamSkeletons", genSkeletons([]skelSpec{
			{"node/basicnode/bytes_stream.go", "streamBytesView.Read", "streamViewRead_skel_src", "model: `StreamBytes.viewRead`"},
			{"node/basicnode/bytes_stream.go", "streamBytesView.Seek", "streamViewSeek_skel_src", "model: `StreamBytes.viewSeek`"},
			{"node/basicnode/bytes_stream.go", "streamBytes.AsBytes", "streamAsBytes_skel_src", "model: `StreamBytes.asBytes`"},
			{"node/basicnode/bytes_stream.go", "streamBytes.AsLargeBytes", "streamAsLargeBytes_skel_src", "a fresh view"},
		})},
		{"LinkSkeletons", genSkeletons([]skelSpec{
			{"linking/cid/cidLink.go", "LinkPrototype.BuildLink", "buildLink_skel_src", "identity / truncation / CIDv0 rules (model: `Link.truncate`, `v0ok`, `mkLink`)"},
			{"linking/functions.go", "LinkSystem.Fill", "fill_skel_src", "tee into the hasher, drain on decode error, hash check before the decode error (model: `Link.fill`)"},
			{"linking/functions.go", "LinkSystem.LoadRaw", "loadRaw_skel_src", "buffer, hash, compare (model: `Link.loadRaw`)"},
			{"linking/functions.go", "LinkSystem.Store", "store_skel_src", "encode into storage and hasher, first write error, build link, commit (model: `Link.store`)"},
			{"linking/functions.go", "LinkSystem.ComputeLink", "computeLink_skel_src", "encode into the hasher only (model: `Link.computeLink`)"},
		})},
	}
}

func moreSkeletonGenFiles() []genFile {
	sel := func(file, recv string, methods ...string) []skelSpec {
		var out []skelSpec
		for _, m := range methods {
			out = append(out, skelSpec{"traversal/selector/" + file, recv + "." + m, "sel_" + recv + "_" + m + "_skel_src", "selector clause method (model: `Sel.interests` / `Sel.explore` / `Sel.matchNode`)"})
		}
		return out
	}
	var sels []skelSpec
	sels = append(sels, sel("exploreAll.go", "ExploreAll", "Interests", "Explore", "Decide")...)
	sels = append(sels, sel("exploreFields.go", "ExploreFields", "Interests", "Explore", "Decide")...)
	sels = append(sels, sel("exploreIndex.go", "ExploreIndex", "Interests", "Explore", "Decide")...)
	sels = append(sels, sel("exploreRange.go", "ExploreRange", "Interests", "Explore", "Decide")...)
	sels = append(sels, sel("exploreRecursiveEdge.go", "ExploreRecursiveEdge", "Interests", "Explore", "Decide")...)
	sels = append(sels, sel("exploreUnion.go", "ExploreUnion", "Interests", "Explore", "Decide")...)
	sels = append(sels, sel("exploreRecursive.go", "ExploreRecursive", "Interests", "Explore", "Decide")...)
	sels = append(sels, sel("matcher.go", "Matcher", "Interests", "Explore", "Decide")...)
	return []genFile{
		{"SelectorSkeletons", genSkeletons(sels)},
		{"PathSkeletons", genSkeletons([]skelSpec{
			{"datamodel/path.go", "ParsePath", "parsePath_skel_src", "model: `Sel.parsePath`"},
			{"datamodel/path.go", "Path.String", "pathString_skel_src", "model: `Sel.pathToString`"},
			{"datamodel/path.go", "Path.AppendSegment", "pathAppendSegment_skel_src", "a fresh slice: paths are values"},
			{"datamodel/path.go", "Path.Join", "pathJoin_skel_src", "a fresh slice"},
			{"datamodel/pathSegment.go", "PathSegment.Equals", "segEquals_skel_src", "model: `Seg.equals` (by text, whatever the internal form)"},
			{"datamodel/pathSegment.go", "PathSegment.Index", "segIndex_skel_src", "model: `Sel.parseIndex`"},
			{"datamodel/pathSegment.go", "PathSegment.String", "segString_skel_src", "model: `Seg.toString`"},
		})},
		{"MemstoreSkeletons", genSkeletons([]skelSpec{
			{"storage/memstore/memstore.go", "Store.Has", "memHas_skel_src", "model: `Kv` lookup"},
			{"storage/memstore/memstore.go", "Store.Get", "memGet_skel_src", "model: `Kv` lookup, a copy is handed out"},
			{"storage/memstore/memstore.go", "Store.Put", "memPut_skel_src", "model: `Kv` insert-if-absent of a copy"},
		})},
	}
}

// coreSkeletonGenFiles: the central functions of the codecs, the walk and the focused transform, whose models
// (Model/Cbor.lean, Model/JsonTok.lean, Model/Walk.lean, Model/Transform.lean) are transcriptions of them.
func coreSkeletonGenFiles() []genFile {
	return []genFile{
		{"CborDecSkeletons", genSkeletons([]skelSpec{
			{"codec/dagcbor/unmarshal.go", "DecodeOptions.Decode", "cborDecode_skel_src", "entry: token source, budget, trailing-bytes check (model: `Cbor.decodeTop`)"},
			{"codec/dagcbor/unmarshal.go", "unmarshal1", "cborUnmarshal1_skel_src", "first token of an item (model: `Cbor.decItem` entry)"},
			{"codec/dagcbor/unmarshal.go", "unmarshal2", "cborUnmarshal2_skel_src", "the decoder proper: one case per token type, budget and depth accounting, tag 42 (model: `Cbor.decItem`)"},
		})},
		{"CborEncSkeletons", genSkeletons([]skelSpec{
			{"codec/dagcbor/marshal.go", "marshal", "cborMarshal_skel_src", "one case per kind (model: `Cbor.encode`)"},
			{"codec/dagcbor/marshal.go", "marshalMap", "cborMarshalMap_skel_src", "entries sorted per the configured mode before emission (model: `Cbor.encodeMap`)"},
			{"codec/dagcbor/marshal.go", "EncodedLength", "cborEncodedLength_skel_src", "length without encoding (model: `Cbor.encodedLength`)"},
		})},
		{"JsonDecSkeletons", genSkeletons([]skelSpec{
			{"codec/dagjson/unmarshal.go", "DecodeOptions.Decode", "jsonDecode_skel_src", "entry: trailing-content scan (model: `JsonTok.decodeTop`)"},
			{"codec/dagjson/unmarshal.go", "unmarshalState.step", "jsonStep_skel_src", "token window"},
			{"codec/dagjson/unmarshal.go", "unmarshalState.ensure", "jsonEnsure_skel_src", "token window look-ahead"},
			{"codec/dagjson/unmarshal.go", "unmarshalState.linkLookahead", "jsonLinkLookahead_skel_src", "the reserved link form (model: `JsonTok.linkForm`)"},
			{"codec/dagjson/unmarshal.go", "unmarshalState.bytesLookahead", "jsonBytesLookahead_skel_src", "the reserved bytes form (model: `JsonTok.bytesForm`)"},
			{"codec/dagjson/unmarshal.go", "unmarshalState.unmarshal", "jsonUnmarshal_skel_src", "the decoder proper (model: `JsonTok.decValue`)"},
		})},
		{"WalkSkeletons", genSkeletons([]skelSpec{
			{"traversal/walk.go", "Progress.walkBlock", "walkBlock_skel_src", "preloader-free block walk"},
			{"traversal/walk.go", "Progress.walkAdv", "walkAdv_skel_src", "budget, reify, visit, iterate interests or all children (model: `Walk.walkAdv` / `walkChildren`)"},
			{"traversal/walk.go", "Progress.visit", "walkVisit_skel_src", "matched / candidate callbacks after the start path (model: the visit events of `Walk.walkAdv`)"},
		})},
		{"WalkCtlSkeletons", genSkeletons([]skelSpec{
			{"traversal/walk.go", "Progress.checkNodeBudget", "checkNodeBudget_skel_src", "test then decrement (model: `Walk.checkNode`)"},
			{"traversal/walk.go", "Progress.checkLinkBudget", "checkLinkBudget_skel_src", "test then decrement (model: `Walk.checkLink`)"},
			{"traversal/walk.go", "Progress.explore", "walkExplore_skel_src", "start-at skipping, seen links, load, SkipMe (model: `Walk.exploreChild`)"},
			{"traversal/walk.go", "Progress.loadLink", "walkLoadLink_skel_src", "link budget, prototype chooser, load, SkipMe passes through (model: the load part of `Walk.exploreChild`)"},
		})},
		{"LoadSkeletons", genSkeletons([]skelSpec{
			{"linking/functions.go", "LinkSystem.Load", "load_skel_src", "Fill into a fresh builder, then the reifier (model: `Link.load`)"},
			{"linking/functions.go", "LinkSystem.LoadPlusRaw", "loadPlusRaw_skel_src", "LoadRaw (hash checked) first, decode of the checked bytes second (model: `Link.loadPlusRaw` in Lemmas/LinkMore.lean)"},
		})},
		// helpers OUTSIDE the properties' own files that several seeded changes went through
		{"StorageHelperSkeletons", genSkeletons([]skelSpec{
			{"storage/funcs.go", "PutStream", "storagePutStream_skel_src", "the store's own PutStream, or a buffer committed with one Put"},
			{"storage/funcs.go", "PutVec", "storagePutVec_skel_src", "the store's own PutVec, else its stream: every piece written, THEN one commit (a failed write commits nothing), else one Put of the concatenation"},
			{"storage/funcs.go", "GetStream", "storageGetStream_skel_src", "the store's own stream, else a reader over Get"},
			{"storage/funcs.go", "Peek", "storagePeek_skel_src", "the store's own Peek, else Get with a no-op closer"},
		})},
		{"CodecHelperSkeletons", genSkeletons([]skelSpec{
			{"codecHelpers.go", "Encode", "helperEncode_skel_src", "a buffer of the call's own, handed to the caller"},
			{"codecHelpers.go", "EncodeStreaming", "helperEncodeStreaming_skel_src", "typed nodes are encoded through their representation"},
			{"codecHelpers.go", "DecodeStreamingUsingPrototype", "helperDecodeStreaming_skel_src", "the prototype's representation for typed prototypes; build after a successful decode only"},
		})},
		{"DatamodelHelperSkeletons", genSkeletons([]skelSpec{
			{"datamodel/copy.go", "Copy", "dmCopy_skel_src", "one case per kind; maps and lists entry by entry through the assembler (model: `Asm.planOf`)"},
			{"datamodel/equal.go", "DeepEqual", "dmDeepEqual_skel_src", "kind first, then scalars by value, lists in order, maps entry by entry in iteration order of both (model: `DM` equality, `deepEqual_iff`)"},
			{"datamodel/pathSegment.go", "ParsePathSegment", "parsePathSegment_skel_src", "a segment parsed from text is held as that text (model: `Seg.str`)"},
		})},
		{"WalkInitSkeletons", genSkeletons([]skelSpec{
			{"traversal/common.go", "Config.init", "configInit_skel_src", "defaults"},
			{"traversal/common.go", "Progress.init", "progressInit_skel_src", "defaults into a private copy of the Config; a fresh seen-set per top-level walk"},
		})},
		{"FocusSkeletons", genSkeletons([]skelSpec{
			{"traversal/focus.go", "Progress.get", "focusGet_skel_src", "segment-by-segment lookup, links loaded on the way (model: `Walk.get`)"},
		})},
		{"TransformSkeletons", genSkeletons([]skelSpec{
			{"traversal/focus.go", "Progress.focusedTransform", "focusedTransform_skel_src", "recursive rebuild along the path (model: `Transform.focused`)"},
		})},
	}
}

