#!/usr/bin/env python3
"""prove.py <Cxx> <tier>: regenerate the facts from /repo, build the property's theorems, audit axioms.

Writes build/<Cxx>/proof.json (read by the Go harness for the evidence file and for the
broken-proof path).  Exit status is always 0 unless the tooling itself is broken; a failing proof is
reported through proof.json ("ok": false)."""
import json, os, re, subprocess, sys

V = os.environ.get("VERIF_DIR", "/verif")
REPO = os.environ.get("VERIF_REPO", "/repo")
LEAN = os.path.join(V, "lean")
ALLOWED = {"propext", "Classical.choice", "Quot.sound"}
FORBIDDEN = re.compile(r"\b(sorry|admit|native_decide|bv_decide|implemented_by|unsafe)\b|^\s*axiom\s|maxHeartbeats\s+0")

def run(cmd, cwd=None, timeout=3000):
    p = subprocess.run(cmd, cwd=cwd, stdout=subprocess.PIPE, stderr=subprocess.STDOUT, text=True, timeout=timeout)
    return p.returncode, p.stdout

def strip_comments(src):
    src = re.sub(r"/-.*?-/", "", src, flags=re.S)
    return "\n".join(l.split("--")[0] for l in src.splitlines())

def imports_closure(mod, seen):
    """project-local modules imported (transitively) by mod"""
    if mod in seen:
        return
    path = os.path.join(LEAN, mod.replace(".", "/") + ".lean")
    if not os.path.exists(path):
        return
    seen[mod] = path
    for m in re.findall(r"^import\s+(\S+)", open(path).read(), flags=re.M):
        if m.startswith("IpldModel") or m.startswith("Driver"):
            imports_closure(m, seen)

def main():
    prop, tier = sys.argv[1], (sys.argv[2] if len(sys.argv) > 2 else "quick")
    out_dir = os.path.join(V, "build", prop)
    os.makedirs(out_dir, exist_ok=True)
    status = {"ok": False, "obligations": 0, "discharged": 0, "theorems": {}, "failed": [], "log_tail": "",
              "checker_cmd": f"tools/prove.py {prop} {tier}: go/cmd/translate /repo -> lean/IpldModel/Generated; lake build IpldModel.Props.{prop} driver; #print axioms on every theorem of Props/{prop}.lean; forbidden-token scan"
                             + ("; lake env leanchecker IpldModel.Props.%s" % prop if tier == "thorough" else ""),
              "generated": []}
    module = f"IpldModel.Props.{prop}"
    # a property's theorems live in Props/<Cxx>.lean plus optional companion files Props/<Cxx><suffix>.lean
    pdir = os.path.join(LEAN, "IpldModel", "Props")
    props_files = sorted(f for f in os.listdir(pdir) if re.fullmatch(re.escape(prop) + r"[A-Za-z]*\.lean", f))
    modules = ["IpldModel.Props." + f[:-5] for f in props_files]
    log = ""
    try:
        # 1. regenerate facts
        rc, o = run([os.path.join(V, "build", "translate"), REPO, os.path.join(LEAN, "IpldModel", "Generated")])
        log += o
        # the translator is fail-closed per generated module (a module it can no longer translate is replaced by
        # one that does not build), so a failure matters to this property exactly when its proofs import that module;
        # a translator that crashed outright (no per-module report) fails everything.
        translate_ok = rc in (0, 1)  # 1: some module failed closed; anything else: the translator itself broke
        thms = []
        for f in props_files:
            src = strip_comments(open(os.path.join(pdir, f)).read())
            # theorems are qualified by the namespace open at their position
            ns = ""
            for line in src.splitlines():
                m = re.match(r"^namespace\s+(\S+)", line)
                if m:
                    ns = m.group(1)
                m = re.match(r"^theorem\s+(\S+)", line)
                if m:
                    thms.append((ns + "." if ns else "") + m.group(1))
        status["obligations"] = len(thms)
        mods = {}
        for m_ in modules:
            imports_closure(m_, mods)
        status["generated"] = sorted(m for m in mods if ".Generated." in m)
        # 2. build
        rc, o = run(["lake", "build"] + modules + ["driver"], cwd=LEAN)
        log += o
        if rc != 0:
            status["failed"] = re.findall(r"^- (\S+)", o, flags=re.M) or [module]
            if not translate_ok:
                status["failed"].append("translator (a whitelisted source item could no longer be translated)")
            # which theorems are lost: everything in this property (its module did not build)
            status["log_tail"] = "\n".join([l for l in log.splitlines() if "error" in l or "TRANSLATION" in l][:40])[-4000:]
            return status
        # 3. forbidden tokens in the proof closure
        bad = []
        for m, path in mods.items():
            for i, l in enumerate(strip_comments(open(path).read()).splitlines()):
                if FORBIDDEN.search(l):
                    bad.append(f"{m}:{i+1}: {l.strip()}")
        if bad:
            status["failed"] = bad
            status["log_tail"] = "forbidden tokens in proof closure:\n" + "\n".join(bad)
            return status
        # 4. axiom audit
        audit = os.path.join(out_dir, "Audit.lean")
        with open(audit, "w") as f:
            for m_ in modules:
                f.write(f"import {m_}\n")
            for t in thms:
                f.write(f"#print axioms {t}\n")
        rc, o = run(["lake", "env", "lean", audit], cwd=LEAN)
        log += o
        if rc != 0:
            status["failed"] = ["axiom audit"]
            status["log_tail"] = o[-4000:]
            return status
        o1 = re.sub(r"\s+", " ", o)
        for t in thms:
            m = re.search(r"'" + re.escape(t) + r"' depends on axioms: \[([^\]]*)\]", o1)
            if m:
                ax = [a.strip() for a in m.group(1).split(",") if a.strip()]
            elif re.search(r"'" + re.escape(t) + r"' does not depend on any axioms", o1):
                ax = []
            else:
                status["failed"].append(t + " (no audit line)")
                continue
            status["theorems"][t] = ax
            if set(ax) <= ALLOWED:
                status["discharged"] += 1
            else:
                status["failed"].append(t + " uses " + ",".join(sorted(set(ax) - ALLOWED)))
        # 5. thorough: independent re-check of the compiled proofs
        if tier == "thorough" and not status["failed"]:
            rc, o = run(["lake", "env", "leanchecker"] + modules, cwd=LEAN)
            log += o
            if rc != 0:
                status["failed"].append("leanchecker")
                status["log_tail"] = o[-4000:]
        status["ok"] = not status["failed"] and status["discharged"] == status["obligations"] and status["obligations"] > 0 and translate_ok
        if not translate_ok:
            status["failed"].append("translator")
        return status
    except Exception as e:  # tooling failure: fail closed
        status["failed"] = ["prove.py: " + repr(e)]
        status["log_tail"] = log[-3000:]
        return status
    finally:
        with open(os.path.join(out_dir, "prove.log"), "w") as f:
            f.write(log)

if __name__ == "__main__":
    st = main()
    with open(os.path.join(V, "build", sys.argv[1], "proof.json"), "w") as f:
        json.dump(st, f, indent=1)
    print(f"proof: ok={st['ok']} obligations={st['obligations']} discharged={st['discharged']} failed={st['failed'][:3]}")
