#!/usr/bin/env python3
"""seedtest.py <srcdir> <seed-id> <property> [tier]
Confirms a seeded breaking change (patch.diff + demo_test.go + meta.json in <srcdir>) in a scratch worktree
(demo passes without / fails with the patch; the library's own suite still passes with it), keeps it under
/verif/seeded/<seed-id>/, then applies it to /repo, runs ./vcheck <property> <tier>, and reverts /repo."""
import json, os, shutil, subprocess, sys, time
src, sid, prop = sys.argv[1], sys.argv[2], sys.argv[3]
tier = sys.argv[4] if len(sys.argv) > 4 else "quick"
env = dict(os.environ, GOFLAGS="-mod=mod", GOPROXY="off")
env.pop("GOTOOLCHAIN", None); env.pop("GOSUMDB", None)
# the library's generated-code tests build in a fixed directory under os.TempDir(): a private TMPDIR keeps this run apart
# from anything else that runs the suite at the same time
_tmp = "/tmp/seedtmp_" + sid
shutil.rmtree(_tmp, ignore_errors=True); os.makedirs(_tmp, exist_ok=True)
env["TMPDIR"] = _tmp
import atexit; atexit.register(lambda: shutil.rmtree(_tmp, ignore_errors=True))
def sh(cmd, cwd=None, timeout=3000):
    p = subprocess.run(cmd, shell=True, cwd=cwd, env=env, stdout=subprocess.PIPE, stderr=subprocess.STDOUT, text=True, errors="replace", timeout=timeout)
    return p.returncode, p.stdout
KNOWN_FAIL = {"TestRoundtripSchemaSchema", "TestParse", "TestParseSchemaSchema"}
wt = "/tmp/seedverify_" + sid
sh(f"git -C /repo worktree remove --force {wt}")
rc, o = sh(f"git -C /repo worktree add -q --detach {wt} HEAD")
assert rc == 0, o
res = {"seed": sid, "property": prop}
try:
    demo_dir = os.path.join(wt, "verifdemo_seed")
    os.makedirs(demo_dir)
    demo = open(os.path.join(src, "demo_test.go")).read()
    open(os.path.join(demo_dir, "demo_test.go"), "w").write(demo)
    rc0, o0 = sh("go test -count=1 ./verifdemo_seed/", cwd=wt)
    res["demo_without_patch"] = "pass" if rc0 == 0 else "FAIL"
    rc, o = sh(f"git apply {os.path.join(src, 'patch.diff')}", cwd=wt)
    res["patch_applies"] = rc == 0
    if rc != 0:
        res["apply_error"] = o[-500:]
    else:
        rc1, o1 = sh("go test -count=1 ./verifdemo_seed/", cwd=wt)
        res["demo_with_patch"] = "fail" if rc1 != 0 else "PASS"
        res["demo_output_tail"] = o1[-600:]
        rcb, ob = sh("go build ./... ", cwd=wt)
        res["builds"] = rcb == 0
        shutil.rmtree(demo_dir)
        rcs, os_ = sh("go test -count=1 ./... 2>&1 | grep -E '^(--- FAIL|FAIL|panic)' | head -20", cwd=wt, timeout=3000)
        fails = [l for l in os_.splitlines() if l.startswith("--- FAIL")]
        unexpected = [l for l in fails if not any(k in l for k in KNOWN_FAIL)]
        res["suite_unexpected_failures"] = unexpected
    ok = res.get("patch_applies") and res["demo_without_patch"] == "pass" and res.get("demo_with_patch") == "fail" and res.get("builds") and not res.get("suite_unexpected_failures")
    res["confirmed"] = bool(ok)
finally:
    sh(f"git -C /repo worktree remove --force {wt}")
if res["confirmed"]:
    dst = os.path.join("/verif/seeded", sid)
    os.makedirs(dst, exist_ok=True)
    shutil.copy(os.path.join(src, "patch.diff"), dst)
    shutil.copy(os.path.join(src, "demo_test.go"), dst)
    meta = {}
    try:
        meta = json.load(open(os.path.join(src, "meta.json")))
    except Exception as e:
        meta = {"note": "meta.json of the author unreadable: %r" % e}
    # run the check against /repo with the patch applied
    st, _ = sh("git -C /repo status --porcelain")
    assert st == 0
    rc, o = sh(f"git -C /repo apply {os.path.join(dst, 'patch.diff')}")
    assert rc == 0, o
    ev = f"/verif/evidence/{prop}.json"
    evidence_keep = open(ev).read() if os.path.exists(ev) else None
    try:
        t0 = time.time()
        rcc, oc = sh(f"./vcheck {prop} {tier}", cwd="/verif", timeout=6000)
        res["check_exit"] = rcc
        res["check_wall_s"] = round(time.time() - t0, 1)
        res["check_violation_lines"] = [l for l in oc.splitlines() if l.startswith("VIOLATION")][:6]
        res["check_signatures"] = [l.strip() for l in oc.splitlines() if l.strip().startswith("signature=")][:6]
        res["detected"] = rcc == 1 and bool(res["check_violation_lines"])
    finally:
        sh("git -C /repo checkout -- . && git -C /repo clean -fdq")
        if evidence_keep is not None:
            open(ev, "w").write(evidence_keep)  # the evidence file describes runs on the unchanged tree only
    meta.update({"breaks_property": prop, "confirmed_by": "tools/seedtest.py: demo passes without and fails with the patch in a scratch worktree; library suite passes with the patch (apart from the 3 always-failing fixture tests)",
                 "check_run": f"./vcheck {prop} {tier} with the patch applied to /repo", "check_result": {k: res[k] for k in ("check_exit", "check_violation_lines", "check_signatures", "detected", "check_wall_s")}})
    json.dump(meta, open(os.path.join(dst, "meta.json"), "w"), indent=1)
print(json.dumps(res, indent=1))
