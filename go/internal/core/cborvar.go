package core

import (
	"encoding/binary"
	"math"
	"sort"
)

// A harness-side CBOR writer for Vals that can apply one labelled departure from canonical form at a
// chosen site.  It is a generator of structured, mostly-valid decoder inputs; it is not an oracle.

type Departure struct {
	Site int    // index of the site (in emission order) at which to depart; -1 = none
	Kind string // set by the writer: which departure was applied (for the distribution and for oracles)
	r    *Rand
	n    int // sites seen so far
	// Tolerated is true when the applied departure is one the decoder documents as accepted
	// (unsorted keys, narrow float, undefined-as-null): the input must still decode to the value.
	Tolerated bool
}

func appendHead(b []byte, major byte, n uint64, width int) []byte {
	// width: 0 = shortest; 1,2,4,8 = forced argument width
	if width == 0 {
		switch {
		case n < 24:
			return append(b, major<<5|byte(n))
		case n < 1<<8:
			width = 1
		case n < 1<<16:
			width = 2
		case n < 1<<32:
			width = 4
		default:
			width = 8
		}
	}
	switch width {
	case 1:
		return append(b, major<<5|24, byte(n))
	case 2:
		return binary.BigEndian.AppendUint16(append(b, major<<5|25), uint16(n))
	case 4:
		return binary.BigEndian.AppendUint32(append(b, major<<5|26), uint32(n))
	default:
		return binary.BigEndian.AppendUint64(append(b, major<<5|27), n)
	}
}

func minWidth(n uint64) int {
	switch {
	case n < 24:
		return 0
	case n < 1<<8:
		return 1
	case n < 1<<16:
		return 2
	case n < 1<<32:
		return 4
	}
	return 8
}

// longerWidth picks a width strictly longer than the minimal one (nil if none exists).
func longerWidth(n uint64, r *Rand) (int, bool) {
	var ws []int
	for _, w := range []int{1, 2, 4, 8} {
		if w > minWidth(n) {
			ws = append(ws, w)
		}
	}
	if len(ws) == 0 {
		return 0, false
	}
	return ws[r.Intn(len(ws))], true
}

var someTags = []uint64{0, 1, 2, 24, 41, 42, 43, 255, 256, 55799, 1 << 32}

func (d *Departure) here() bool {
	if d == nil {
		return false
	}
	hit := d.n == d.Site
	d.n++
	return hit
}

// CountSites returns the number of departure sites in v.
func CountSites(v Val) int {
	d := &Departure{Site: -1}
	WriteCBOR(nil, v, d)
	return d.n
}

// WriteCBOR appends the DAG-CBOR encoding of v (maps sorted canonically) applying d, if any.
func WriteCBOR(b []byte, v Val, d *Departure) []byte {
	hit := d.here()
	var r *Rand
	if hit {
		r = d.r
		// departures applicable to any item
		switch r.Intn(6) {
		case 0:
			t := someTags[r.Intn(len(someTags))]
			d.Kind = "tag-on-item"
			if v.K == 'b' && t == 42 {
				d.Kind = "tag42-on-bytes"
			}
			b = appendHead(b, 6, t, 0)
			return WriteCBOR(b, v, nil)
		case 1:
			d.Kind = "simple-or-reserved-byte"
			opts := []byte{0xe0, 0xf3, 0xf8, 0xfc, 0xfd, 0xfe, 0xff, 0x1c, 0x1f, 0x3f, 0xdf}
			return append(b, opts[r.Intn(len(opts))])
		}
	}
	switch v.K {
	case 'n':
		if hit {
			d.Kind, d.Tolerated = "undefined-for-null", true
			return append(b, 0xf7)
		}
		return append(b, 0xf6)
	case 't':
		return append(b, 0xf5)
	case 'f':
		return append(b, 0xf4)
	case 'i':
		major, n := byte(0), v.Mag
		if v.Neg {
			major, n = 1, v.Mag-1
		}
		if hit {
			switch r.Intn(3) {
			case 0:
				if w, ok := longerWidth(n, r); ok {
					d.Kind = "nonminimal-int"
					return appendHead(b, major, n, w)
				}
			case 1:
				d.Kind = "negint-below-int64"
				return appendHead(b, 1, []uint64{1 << 63, 1<<63 + 1, math.MaxUint64 - 1}[r.Intn(3)], 8)
			case 2:
				d.Kind = "negint-2^64"
				return appendHead(b, 1, math.MaxUint64, 8)
			}
		}
		return appendHead(b, major, n, 0)
	case 'd':
		f := math.Float64frombits(v.F)
		if hit {
			switch r.Intn(3) {
			case 0:
				if f32 := float32(f); float64(f32) == f {
					d.Kind, d.Tolerated = "float32", true
					return binary.BigEndian.AppendUint32(append(b, 0xfa), math.Float32bits(f32))
				}
			case 1:
				d.Kind = "nan-or-inf"
				opts := [][]byte{{0xf9, 0x7e, 0x00}, {0xf9, 0x7c, 0x00}, {0xf9, 0xfc, 0x00}, {0xfa, 0x7f, 0xc0, 0, 0}, {0xfa, 0x7f, 0x80, 0, 0},
					{0xfb, 0x7f, 0xf8, 0, 0, 0, 0, 0, 0}, {0xfb, 0x7f, 0xf0, 0, 0, 0, 0, 0, 0}, {0xfb, 0xff, 0xf0, 0, 0, 0, 0, 0, 0}, {0xfb, 0x7f, 0xf0, 0, 0, 0, 0, 0, 1}}
				return append(b, opts[r.Intn(len(opts))]...)
			case 2:
				// half float when exact
				for h := 0; h < 1<<16; h++ {
					if math.Float64bits(halfToFloat(uint16(h))) == v.F {
						d.Kind, d.Tolerated = "float16", true
						return append(b, 0xf9, byte(h>>8), byte(h))
					}
				}
			}
		}
		return binary.BigEndian.AppendUint64(append(b, 0xfb), v.F)
	case 's', 'b':
		major := byte(3)
		if v.K == 'b' {
			major = 2
		}
		if hit {
			switch r.Intn(3) {
			case 0:
				if w, ok := longerWidth(uint64(len(v.S)), r); ok {
					d.Kind = "nonminimal-length"
					return append(appendHead(b, major, uint64(len(v.S)), w), v.S...)
				}
			case 1:
				d.Kind = "indefinite-string"
				b = append(b, major<<5|31)
				b = append(appendHead(b, major, uint64(len(v.S)), 0), v.S...)
				return append(b, 0xff)
			case 2:
				d.Kind = "length-claims-more"
				return append(appendHead(b, major, uint64(len(v.S))+uint64(1+r.Intn(3)), 0), v.S...)
			}
		}
		return append(appendHead(b, major, uint64(len(v.S)), 0), v.S...)
	case 'l':
		if hit {
			switch r.Intn(8) {
			case 5:
				d.Kind = "link-extra-zero-prefix"
				b = append(b, 0xd8, 0x2a)
				z := 2 + r.Intn(3)
				b = appendHead(b, 2, uint64(len(v.S)+z), 0)
				for i := 0; i < z; i++ {
					b = append(b, 0)
				}
				return append(b, v.S...)
			case 6:
				d.Kind = "link-tag-with-low-byte-42"
				b = append(b, 0xd9, byte(1+r.Intn(255)), 0x2a) // tags 298, 554, …: not tag 42
				return append(append(appendHead(b, 2, uint64(len(v.S))+1, 0), 0), v.S...)
			case 7:
				d.Kind = "link-only-zero-bytes"
				b = append(b, 0xd8, 0x2a)
				z := 1 + r.Intn(3)
				b = appendHead(b, 2, uint64(z), 0)
				for i := 0; i < z; i++ {
					b = append(b, 0)
				}
				return b
			case 0:
				d.Kind = "link-no-multibase-prefix"
				b = append(b, 0xd8, 0x2a)
				return append(appendHead(b, 2, uint64(len(v.S)), 0), v.S...)
			case 1:
				d.Kind = "link-truncated-cid"
				b = append(b, 0xd8, 0x2a)
				cut := v.S[:len(v.S)-1-r.Intn(len(v.S)/2+1)]
				return append(append(appendHead(b, 2, uint64(len(cut))+1, 0), 0), cut...)
			case 2:
				d.Kind = "link-tag-on-string"
				b = append(b, 0xd8, 0x2a)
				return append(append(appendHead(b, 3, uint64(len(v.S))+1, 0), 0), v.S...)
			case 3:
				d.Kind = "link-nonminimal-tag"
				b = append(b, 0xd9, 0x00, 0x2a)
				return append(append(appendHead(b, 2, uint64(len(v.S))+1, 0), 0), v.S...)
			case 4:
				d.Kind = "link-cid-trailing-byte"
				b = append(b, 0xd8, 0x2a)
				return append(append(append(appendHead(b, 2, uint64(len(v.S))+2, 0), 0), v.S...), byte(r.U64()))
			}
		}
		b = append(b, 0xd8, 0x2a)
		return append(append(appendHead(b, 2, uint64(len(v.S))+1, 0), 0), v.S...)
	case '[':
		n := uint64(len(v.L))
		if hit {
			switch r.Intn(4) {
			case 0:
				if w, ok := longerWidth(n, r); ok {
					d.Kind = "nonminimal-length"
					b = appendHead(b, 4, n, w)
					for _, x := range v.L {
						b = WriteCBOR(b, x, nil)
					}
					return b
				}
			case 1:
				d.Kind = "indefinite-list"
				b = append(b, 0x9f)
				for _, x := range v.L {
					b = WriteCBOR(b, x, nil)
				}
				return append(b, 0xff)
			case 2:
				d.Kind = "list-length-plus"
				b = appendHead(b, 4, n+1, 0)
				for _, x := range v.L {
					b = WriteCBOR(b, x, nil)
				}
				return b
			case 3:
				if n > 0 {
					d.Kind = "list-length-minus"
					b = appendHead(b, 4, n-1, 0)
					for _, x := range v.L {
						b = WriteCBOR(b, x, nil)
					}
					return b
				}
			}
		}
		b = appendHead(b, 4, n, 0)
		for _, x := range v.L {
			b = WriteCBOR(b, x, d)
		}
		return b
	case '{':
		es := append([]KV{}, v.M...)
		sort.SliceStable(es, func(i, j int) bool { return LessCbor(es[i].K, es[j].K) })
		n := uint64(len(es))
		writeEntries := func(b []byte, es []KV, d *Departure) []byte {
			for _, e := range es {
				if d.here() { // key site
					switch d.r.Intn(4) {
					case 0:
						d.Kind = "tag-on-key"
						b = appendHead(b, 6, someTags[d.r.Intn(len(someTags))], 0)
						b = append(appendHead(b, 3, uint64(len(e.K)), 0), e.K...)
					case 1:
						d.Kind = "non-string-key"
						switch d.r.Intn(4) {
						case 0:
							b = appendHead(b, 0, uint64(d.r.Intn(30)), 0)
						case 1:
							b = append(appendHead(b, 2, uint64(len(e.K)), 0), e.K...)
						case 2:
							b = append(b, 0xf6)
						default:
							b = append(b, 0x80)
						}
					case 2:
						if w, ok := longerWidth(uint64(len(e.K)), d.r); ok {
							d.Kind = "nonminimal-key-length"
							b = append(appendHead(b, 3, uint64(len(e.K)), w), e.K...)
						} else {
							b = append(appendHead(b, 3, uint64(len(e.K)), 0), e.K...)
						}
					default:
						d.Kind = "indefinite-key"
						b = append(b, 0x7f)
						b = append(appendHead(b, 3, uint64(len(e.K)), 0), e.K...)
						b = append(b, 0xff)
					}
				} else {
					b = append(appendHead(b, 3, uint64(len(e.K)), 0), e.K...)
				}
				b = WriteCBOR(b, e.V, d)
			}
			return b
		}
		if hit {
			switch r.Intn(6) {
			case 0:
				if w, ok := longerWidth(n, r); ok {
					d.Kind = "nonminimal-length"
					return writeEntries(appendHead(b, 5, n, w), es, nil)
				}
			case 1:
				d.Kind = "indefinite-map"
				return append(writeEntries(append(b, 0xbf), es, nil), 0xff)
			case 2:
				if n >= 2 {
					d.Kind, d.Tolerated = "unsorted-keys", true
					p := r.Perm(len(es))
					sh := make([]KV, len(es))
					same := true
					for i, j := range p {
						sh[i] = es[j]
						if i != j {
							same = false
						}
					}
					if same {
						sh[0], sh[1] = sh[1], sh[0]
					}
					return writeEntries(appendHead(b, 5, n, 0), sh, nil)
				}
			case 3:
				if n >= 1 {
					d.Kind = "duplicate-key"
					dup := es[r.Intn(len(es))]
					if r.Bool() {
						dup.V = Int(int64(r.Intn(100)))
					}
					es2 := append(append([]KV{}, es...), dup)
					if r.Bool() {
						sort.SliceStable(es2, func(i, j int) bool { return LessCbor(es2[i].K, es2[j].K) })
					}
					return writeEntries(appendHead(b, 5, n+1, 0), es2, nil)
				}
			case 4:
				d.Kind = "map-length-plus"
				return writeEntries(appendHead(b, 5, n+1, 0), es, nil)
			case 5:
				if n > 0 {
					d.Kind = "map-length-minus"
					return writeEntries(appendHead(b, 5, n-1, 0), es, nil)
				}
			}
		}
		return writeEntries(appendHead(b, 5, n, 0), es, d)
	}
	return b
}

func halfToFloat(h uint16) float64 {
	s := (h >> 15) & 1
	e := int((h >> 10) & 0x1f)
	m := float64(h & 0x3ff)
	var f float64
	switch {
	case e == 0:
		f = math.Ldexp(m, -24)
	case e == 31:
		if m == 0 {
			f = math.Inf(1)
		} else {
			f = math.NaN()
		}
	default:
		f = math.Ldexp(1+m/1024, e-15)
	}
	if s == 1 {
		f = -f
	}
	return f
}

// MutateCBOR produces a decoder input from a value: either a labelled structural departure
// or a byte-level mutation of the canonical encoding.  Returns bytes, label, tolerated.
func MutateCBOR(v Val, r *Rand) ([]byte, string, bool) {
	canon := WriteCBOR(nil, v, nil)
	switch r.Intn(10) {
	case 0:
		return canon, "canonical", true
	case 1:
		if len(canon) > 0 {
			b := append([]byte{}, canon...)
			b[r.Intn(len(b))] ^= 1 << uint(r.Intn(8))
			return b, "bitflip", false
		}
	case 2:
		if len(canon) > 0 {
			b := append([]byte{}, canon...)
			b[r.Intn(len(b))] = byte(r.U64())
			return b, "byte-substitution", false
		}
	case 3:
		if len(canon) > 1 {
			return canon[:r.Intn(len(canon))], "truncation", false
		}
	case 4:
		ext := r.Bytes(1 + r.Intn(3))
		if r.Bool() {
			ext = []byte{0xf6}
		}
		return append(append([]byte{}, canon...), ext...), "extension", false
	}
	n := CountSites(v)
	d := &Departure{Site: r.Intn(n), r: r}
	b := WriteCBOR(nil, v, d)
	if d.Kind == "" {
		return b, "canonical", true
	}
	return b, d.Kind, d.Tolerated
}
