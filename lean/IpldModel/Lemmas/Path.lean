/-
  Paths: `parsePath (pathToString p)` gives back the segment texts; `get` is the fold of `getStep`.
-/
import IpldModel.Model.Walk
namespace Ipld
namespace Sel

theorem splitSlash_go_noslash (a : Bytes) : ∀ (cur rest : Bytes), slashB ∉ a →
    splitSlash.go (a ++ rest) cur = splitSlash.go rest (cur ++ a) := by
  induction a with
  | nil => intro cur rest _; simp
  | cons b a ih =>
    intro cur rest h
    have hb : b ≠ slashB := by intro e; apply h; simp [e]
    have ha : slashB ∉ a := by intro e; apply h; simp [e]
    simp only [List.cons_append, splitSlash.go, hb, if_false]
    rw [ih _ _ ha]; simp

theorem splitSlash_go_slash (cur rest : Bytes) (h : cur ≠ []) :
    splitSlash.go (slashB :: rest) cur = cur :: splitSlash.go rest [] := by
  cases cur with
  | nil => exact absurd rfl h
  | cons c cs => simp [splitSlash.go]

/-- a segment whose text survives a print/parse round trip: non-empty and without a slash -/
def Seg.Plain (s : Seg) : Prop := s.toString ≠ [] ∧ slashB ∉ s.toString

theorem splitSlash_pathToString : (p : Path) → (∀ s ∈ p, s.Plain) →
    splitSlash (pathToString p) = p.map Seg.toString
  | [], _ => by simp [pathToString, splitSlash, splitSlash.go]
  | [s], h => by
    have hs := h s (by simp)
    have := splitSlash_go_noslash s.toString [] [] hs.2
    simp only [List.append_nil, List.nil_append] at this
    simp only [pathToString, splitSlash, this, List.map_cons, List.map_nil]
    cases hx : s.toString with
    | nil => exact absurd hx hs.1
    | cons c cs => simp [splitSlash.go]
  | s :: t :: r, h => by
    have hs := h s (by simp)
    have ih := splitSlash_pathToString (t :: r) (fun x hx => h x (by simp [hx]))
    have := splitSlash_go_noslash s.toString [] ([slashB] ++ pathToString (t :: r)) hs.2
    simp only [List.nil_append] at this
    simp only [splitSlash] at ih ⊢
    have hp : pathToString (s :: t :: r) = s.toString ++ [slashB] ++ pathToString (t :: r) := by
      rw [pathToString]; simp
    rw [hp, List.append_assoc, this, List.singleton_append, splitSlash_go_slash _ _ hs.1, ih]
    simp

theorem parsePath_pathToString (p : Path) (h : ∀ s ∈ p, s.Plain) :
    parsePath (pathToString p) = p.map fun s => .str s.toString := by
  simp [parsePath, splitSlash_pathToString p h, List.map_map, Function.comp_def]

theorem equals_str_toString (s : Seg) : Seg.equals (.str s.toString) s = true := by
  cases s <;> simp [Seg.equals, Seg.toString]

end Sel

namespace Walk
open Sel

theorem get_nil (store : List (Bytes × DM)) (fuel : Nat) (n : DM) : get store fuel n [] = .ok n := rfl

theorem get_cons (store : List (Bytes × DM)) (fuel : Nat) (n : DM) (seg : Seg) (rest : Path) :
    get store fuel n (seg :: rest) = (getStep store fuel n seg).bind fun m => get store fuel m rest := rfl

theorem get_append (store : List (Bytes × DM)) (fuel : Nat) : ∀ (p q : Path) (n : DM),
    get store fuel n (p ++ q) = (get store fuel n p).bind fun m => get store fuel m q
  | [], q, n => rfl
  | seg :: p, q, n => by
    rw [List.cons_append, get_cons, get_cons]
    cases getStep store fuel n seg with
    | error e => rfl
    | ok m => exact get_append store fuel p q m

theorem get_single (store : List (Bytes × DM)) (fuel : Nat) (n : DM) (seg : Seg) :
    get store fuel n [seg] = getStep store fuel n seg := by
  rw [get_cons]
  cases getStep store fuel n seg <;> rfl

end Walk
end Ipld
