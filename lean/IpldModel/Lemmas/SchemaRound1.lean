/-
  C08 helper lemmas, part 1: the union dispatchers of the ideal engine as list lookups, the kinded
  strategy as an equation on the builder, `any`, `reprFields`, tuples.
-/
import IpldModel.Lemmas.SchemaBasic
namespace Ipld
namespace Schema

/-- wrap a member's value into the union value -/
def wrapMember (n : Bytes) (v : TL) : TL := .map (.cons n v .nil)

theorem Outcome.map_map {α β γ : Type} (f : α → β) (g : β → γ) (o : Outcome α) :
    (o.map f).map g = o.map (fun a => g (f a)) := by cases o <;> rfl

/-! ## The dispatchers as lookups (ideal engine) -/

theorem buildKinded_find (nul : Bool) (d : DM) : (ms : Members) →
    buildKinded Engine.ideal nul d ms =
      match ms.toList.find? (fun m => m.kind == d.kind) with
      | none => .reject
      | some m => (buildScalar Engine.ideal .repr false d m.ty).map (wrapMember m.name)
  | .nil => by simp [buildKinded, Members.toList]
  | .cons n dc k t rest => by
    unfold buildKinded
    simp only [Members.toList, List.find?_cons, ideal_nullableUnionPanic, Bool.and_false,
      Bool.false_eq_true, if_false]
    by_cases h : (k == d.kind) = true
    · simp only [h, if_true]; rfl
    · simp only [h, Bool.false_eq_true, if_false]
      rw [buildKinded_find nul d rest]

theorem buildPrefix_find (nul : Bool) (p r : Bytes) : (ms : Members) →
    buildPrefix Engine.ideal nul p r ms =
      match ms.toList.find? (fun m => m.disc == p) with
      | none => .reject
      | some m => (buildScalar Engine.ideal .repr false (.str r) m.ty).map (wrapMember m.name)
  | .nil => by simp [buildPrefix, Members.toList]
  | .cons n dc k t rest => by
    unfold buildPrefix
    simp only [Members.toList, List.find?_cons, ideal_nullableUnionPanic, Bool.and_false,
      Bool.false_eq_true, if_false]
    by_cases h : (dc == p) = true
    · simp only [h, if_true]; rfl
    · simp only [h, Bool.false_eq_true, if_false]
      rw [buildPrefix_find nul p r rest]

theorem buildPrefixNoDelim_find (nul : Bool) (s : Bytes) : (ms : Members) →
    buildPrefixNoDelim Engine.ideal nul s ms =
      match ms.toList.find? (fun m => isPrefix m.disc s) with
      | none => .reject
      | some m =>
        (buildScalar Engine.ideal .repr false (.str (s.drop m.disc.length)) m.ty).map (wrapMember m.name)
  | .nil => by simp [buildPrefixNoDelim, Members.toList]
  | .cons n dc k t rest => by
    unfold buildPrefixNoDelim
    simp only [Members.toList, List.find?_cons, ideal_nullableUnionPanic, Bool.and_false,
      Bool.false_eq_true, if_false]
    by_cases h : isPrefix dc s = true
    · simp only [h, if_true]; rfl
    · simp only [h, Bool.false_eq_true, if_false]
      rw [buildPrefixNoDelim_find nul s rest]

theorem resolveMembers_find (nul : Bool) (k : Kind) : (ms : Members) →
    resolveMembers Engine.ideal nul k ms =
      match ms.toList.find? (fun m => m.kind == k) with
      | none => .reject
      | some m =>
        match resolveKinded Engine.ideal false k m.ty with
        | .ok (t', path) => .ok (t', m.name :: path)
        | .reject => .reject
        | .panic => .panic
  | .nil => by simp [resolveMembers, Members.toList]
  | .cons n dc k' t rest => by
    unfold resolveMembers
    simp only [Members.toList, List.find?_cons, ideal_nullableUnionPanic, Bool.and_false,
      Bool.false_eq_true, if_false]
    by_cases h : (k' == k) = true
    · simp only [h, if_true]; rfl
    · simp only [h, Bool.false_eq_true, if_false]
      rw [resolveMembers_find nul k rest]

/-! ## The kinded strategy, as an equation on the representation builder -/

/-- The representation builder of a kinded union hands a (non-null) input to the member listed under
    the input's kind and wraps what that member's representation builder builds. -/
theorem build_kinded_eq (ms : Members) (nul : Bool) (d : DM) (hd : d ≠ .null) :
    build Engine.ideal .repr (.union ms .kinded) nul none d =
      match ms.toList.find? (fun m => m.kind == d.kind) with
      | none => .reject
      | some m => (build Engine.ideal .repr m.ty false none d).map (wrapMember m.name) := by
  cases d with
  | null => exact absurd rfl hd
  | bool b => simp only [build, buildScalar, buildKinded_find]
  | int b => simp only [build, buildScalar, buildKinded_find]
  | float b => simp only [build, buildScalar, buildKinded_find]
  | str b => simp only [build, buildScalar, buildKinded_find]
  | bytes b => simp only [build, buildScalar, buildKinded_find]
  | link b => simp only [build, buildScalar, buildKinded_find]
  | list xs =>
    rw [build]
    simp only [resolveKinded, resolveMembers_find, DM.kind]
    cases ms.toList.find? (fun m => m.kind == Kind.list) with
    | none => rfl
    | some m =>
      simp only []
      rw [build]
      cases resolveKinded Engine.ideal false .list m.ty with
      | reject => rfl
      | panic => rfl
      | ok r =>
        obtain ⟨ty', path⟩ := r
        simp only [ite_self, List.isEmpty_cons, Bool.false_eq_true]
        rw [Outcome.map_map]; rfl
  | map es =>
    rw [build_map_ideal]
    simp only [resolveKinded, resolveMembers_find, DM.kind]
    cases ms.toList.find? (fun m => m.kind == Kind.map) with
    | none => rfl
    | some m =>
      simp only []
      rw [build_map_ideal]
      cases resolveKinded Engine.ideal false .map m.ty with
      | reject => rfl
      | panic => rfl
      | ok r =>
        obtain ⟨ty', path⟩ := r
        simp only [ite_self, List.isEmpty_cons, Bool.false_eq_true]
        rw [Outcome.map_map]; rfl

/-! ## `any` -/

mutual
theorem ofDM_of_toDM : (v : TL) → (d : DM) → v.toDM? = some d → TL.ofDM d = v
  | .absent, _, h => by simp [TL.toDM?] at h
  | .null, _, h => by simp only [TL.toDM?, Option.some.injEq] at h; subst h; rfl
  | .bool _, _, h => by simp only [TL.toDM?, Option.some.injEq] at h; subst h; rfl
  | .int _, _, h => by simp only [TL.toDM?, Option.some.injEq] at h; subst h; rfl
  | .float _, _, h => by simp only [TL.toDM?, Option.some.injEq] at h; subst h; rfl
  | .str _, _, h => by simp only [TL.toDM?, Option.some.injEq] at h; subst h; rfl
  | .bytes _, _, h => by simp only [TL.toDM?, Option.some.injEq] at h; subst h; rfl
  | .link _, _, h => by simp only [TL.toDM?, Option.some.injEq] at h; subst h; rfl
  | .list xs, d, h => by
    simp only [TL.toDM?] at h
    split at h
    · next ys hys =>
      simp only [Option.some.injEq] at h; subst h
      simp only [TL.ofDM, ofDMs_of_toDMs xs ys hys]
    · cases h
  | .map es, d, h => by
    simp only [TL.toDM?] at h
    split at h
    · next ys hys =>
      simp only [Option.some.injEq] at h; subst h
      simp only [TL.ofDM, ofDMKVs_of_toDMKVs es ys hys]
    · cases h
theorem ofDMs_of_toDMs : (xs : TLs) → (ds : DMs) → xs.toDMs? = some ds → TLs.ofDMs ds = xs
  | .nil, _, h => by simp only [TLs.toDMs?, Option.some.injEq] at h; subst h; rfl
  | .cons x xs, ds, h => by
    simp only [TLs.toDMs?] at h
    split at h
    · next y ys hy hys =>
      simp only [Option.some.injEq] at h; subst h
      simp only [TLs.ofDMs, ofDM_of_toDM x y hy, ofDMs_of_toDMs xs ys hys]
    · cases h
theorem ofDMKVs_of_toDMKVs : (es : TLKVs) → (ds : DMKVs) → es.toDMKVs? = some ds → TLKVs.ofDMKVs ds = es
  | .nil, _, h => by simp only [TLKVs.toDMKVs?, Option.some.injEq] at h; subst h; rfl
  | .cons k x xs, ds, h => by
    simp only [TLKVs.toDMKVs?] at h
    split at h
    · next y ys hy hys =>
      simp only [Option.some.injEq] at h; subst h
      simp only [TLKVs.ofDMKVs, ofDM_of_toDM x y hy, ofDMKVs_of_toDMKVs xs ys hys]
    · cases h
end

/-! ## `reprFields` -/

/-- the entries of the map representation: present fields under their representation keys -/
def mapEntries (fs : List Field) (vals : List (Option DM)) : List (Bytes × DM) :=
  (fs.zip vals).filterMap fun (f, ov) => ov.map fun d => (f.rename, d)

/-- the entries of the listpairs representation: `[name, value]` for the present fields -/
def pairEntries (fs : List Field) (vals : List (Option DM)) : List DM :=
  (fs.zip vals).filterMap fun (f, ov) => ov.map fun d => DM.list (.cons (.str f.name) (.cons d .nil))

@[simp] theorem mapEntries_none (f : Field) (fs : List Field) (vals : List (Option DM)) :
    mapEntries (f :: fs) (none :: vals) = mapEntries fs vals := by simp [mapEntries]
@[simp] theorem mapEntries_some (f : Field) (fs : List Field) (d : DM) (vals : List (Option DM)) :
    mapEntries (f :: fs) (some d :: vals) = (f.rename, d) :: mapEntries fs vals := by simp [mapEntries]
@[simp] theorem mapEntries_nil (vals : List (Option DM)) : mapEntries [] vals = [] := by simp [mapEntries]
@[simp] theorem pairEntries_none (f : Field) (fs : List Field) (vals : List (Option DM)) :
    pairEntries (f :: fs) (none :: vals) = pairEntries fs vals := by simp [pairEntries]
@[simp] theorem pairEntries_some (f : Field) (fs : List Field) (d : DM) (vals : List (Option DM)) :
    pairEntries (f :: fs) (some d :: vals) =
      DM.list (.cons (.str f.name) (.cons d .nil)) :: pairEntries fs vals := by simp [pairEntries]
@[simp] theorem pairEntries_nil (vals : List (Option DM)) : pairEntries [] vals = [] := by simp [pairEntries]

theorem reprFields_nil_inv (es : TLKVs) (vals : List (Option DM)) (h : reprFields [] es = some vals) :
    es = .nil ∧ vals = [] := by
  cases es with
  | nil => simp only [reprFields, Option.some.injEq] at h; exact ⟨rfl, h.symm⟩
  | cons k v es => simp [reprFields] at h

theorem reprFields_cons_nil (f : Field) (fs : List Field) : reprFields (f :: fs) .nil = none := by
  simp [reprFields]

theorem reprFields_cons_inv (f : Field) (fs : List Field) (k : Bytes) (v : TL) (es : TLKVs)
    (vals : List (Option DM)) (h : reprFields (f :: fs) (.cons k v es) = some vals) :
    k = f.name ∧ ∃ vals', reprFields fs es = some vals' ∧
      ((v = .absent ∧ f.opt = true ∧ vals = none :: vals') ∨
       (v ≠ .absent ∧ ∃ d, toRepr f.ty f.nullable v = some d ∧ vals = some d :: vals')) := by
  unfold reprFields at h
  split at h
  · cases h
  · next hk =>
    have hk' : k = f.name := by simpa using hk
    refine ⟨hk', ?_⟩
    split at h
    · split at h
      · next ho =>
        simp only [Option.map_eq_some_iff] at h
        obtain ⟨vals', hv, rfl⟩ := h
        exact ⟨vals', hv, Or.inl ⟨rfl, ho, rfl⟩⟩
      · cases h
    · next hne =>
      split at h
      · next d r hd hr =>
        simp only [Option.some.injEq] at h
        exact ⟨r, hr, Or.inr ⟨fun hv => hne hv, d, hd, h.symm⟩⟩
      · cases h

theorem reprFields_keys : (fs : List Field) → (es : TLKVs) → (vals : List (Option DM)) →
    reprFields fs es = some vals → es.toList.map (·.1) = fs.map (·.name)
  | [], es, vals, h => by
    obtain ⟨rfl, _⟩ := reprFields_nil_inv es vals h; rfl
  | f :: fs, .nil, vals, h => by simp [reprFields] at h
  | f :: fs, .cons k v es, vals, h => by
    obtain ⟨hk, vals', hv, _⟩ := reprFields_cons_inv f fs k v es vals h
    simp [TLKVs.toList, hk, reprFields_keys fs es vals' hv]

theorem reprFields_length : (fs : List Field) → (es : TLKVs) → (vals : List (Option DM)) →
    reprFields fs es = some vals → vals.length = fs.length
  | [], es, vals, h => by
    obtain ⟨_, rfl⟩ := reprFields_nil_inv es vals h; rfl
  | f :: fs, .nil, vals, h => by simp [reprFields] at h
  | f :: fs, .cons k v es, vals, h => by
    obtain ⟨_, vals', hv, h2⟩ := reprFields_cons_inv f fs k v es vals h
    have := reprFields_length fs es vals' hv
    rcases h2 with ⟨_, _, rfl⟩ | ⟨_, d, _, rfl⟩ <;> simp [this]

/-! ## The strategy equations of `toRepr` -/

theorem toRepr_struct_map (fs : Fields) (nul : Bool) (es : TLKVs) :
    toRepr (.struct fs .map) nul (.map es) =
      (reprFields fs.toList es).map fun vals => .map (DMKVs.ofList (mapEntries fs.toList vals)) := by
  simp only [toRepr]
  cases reprFields fs.toList es <;> rfl

theorem toRepr_struct_listpairs (fs : Fields) (nul : Bool) (es : TLKVs) :
    toRepr (.struct fs .listpairs) nul (.map es) =
      (reprFields fs.toList es).map fun vals => .list (DMs.ofList (pairEntries fs.toList vals)) := by
  simp only [toRepr]
  cases reprFields fs.toList es <;> rfl

theorem toRepr_struct_tuple (fs : Fields) (nul : Bool) (es : TLKVs) :
    toRepr (.struct fs .tuple) nul (.map es) =
      match reprFields fs.toList es with
      | none => none
      | some vals => (allSome (dropTrailingNone vals)).map fun ds => .list (DMs.ofList ds) := by
  simp only [toRepr]
  cases reprFields fs.toList es <;> rfl

theorem toRepr_struct_stringjoin (fs : Fields) (delim : Bytes) (nul : Bool) (es : TLKVs) :
    toRepr (.struct fs (.stringjoin delim)) nul (.map es) =
      match reprFields fs.toList es with
      | none => none
      | some vals =>
        match allSome vals with
        | none => none
        | some ds => (allStr ds).map fun ss => .str (joinBytes delim ss) := by
  simp only [toRepr]
  cases reprFields fs.toList es with
  | none => rfl
  | some vals => simp only []; cases allSome vals <;> rfl

/-! ## The assembly state after absorbing a canonical struct value -/

/-- every non-absent entry of `es` assigned -/
def absorb (g : Bytes → Option TL) : TLKVs → (Bytes → Option TL)
  | .nil => g
  | .cons k v es => absorb (if v = .absent then g else setFn g k v) es

theorem absorb_other : (es : TLKVs) → (g : Bytes → Option TL) → (n : Bytes) →
    (∀ e ∈ es.toList, e.1 ≠ n) → absorb g es n = g n
  | .nil, _, _, _ => rfl
  | .cons k v es, g, n, h => by
    have hk : k ≠ n := h (k, v) (by simp [TLKVs.toList])
    rw [absorb, absorb_other es _ n (fun e he => h e (by simp [TLKVs.toList, he]))]
    split
    · rfl
    · exact setFn_other _ _ _ _ (fun h' => hk h'.symm)

theorem absorb_spec : (fs : List Field) → (es : TLKVs) → (vals : List (Option DM)) →
    (g : Bytes → Option TL) → reprFields fs es = some vals → (fs.map (·.name)).Nodup →
    (∀ f ∈ fs, g f.name = none) →
    fs.map (fun f => (f.name, (absorb g es f.name).getD .absent)) = es.toList ∧
    fs.all (fun f => f.opt || (absorb g es f.name).isSome) = true
  | [], es, vals, g, h, _, _ => by
    obtain ⟨rfl, _⟩ := reprFields_nil_inv es vals h
    simp [TLKVs.toList]
  | f :: fs, .nil, vals, g, h, _, _ => by simp [reprFields] at h
  | f :: fs, .cons k v es, vals, g, h, hnd, hg => by
    obtain ⟨hk, vals', hv, h2⟩ := reprFields_cons_inv f fs k v es vals h
    subst hk
    simp only [List.map_cons, List.nodup_cons] at hnd
    have hkeys := reprFields_keys fs es vals' hv
    have hnot : ∀ e ∈ es.toList, e.1 ≠ f.name := by
      intro e he heq
      apply hnd.1
      rw [← hkeys, ← heq]
      exact List.mem_map_of_mem he
    have hg0 : g f.name = none := hg f (by simp)
    -- the state after the head entry
    have key : ∀ g1 : Bytes → Option TL, (∀ f' ∈ fs, g1 f'.name = none) →
        g1 f.name = (if v = .absent then none else some v) → (v = .absent → f.opt = true) →
        (f :: fs).map (fun f' => (f'.name, (absorb g1 es f'.name).getD .absent))
          = (TLKVs.cons f.name v es).toList ∧
        (f :: fs).all (fun f' => f'.opt || (absorb g1 es f'.name).isSome) = true := by
      intro g1 hg1 hhead hopt
      have ih := absorb_spec fs es vals' g1 hv hnd.2 hg1
      have hh : absorb g1 es f.name = g1 f.name := absorb_other es g1 f.name hnot
      simp only [List.map_cons, List.all_cons, hh, hhead, ih.1, ih.2, TLKVs.toList, Bool.and_true]
      by_cases hva : v = .absent
      · simp [hva, hopt hva]
      · simp [hva]
    rw [absorb]
    rcases h2 with ⟨rfl, ho, _⟩ | ⟨hne, d, _, _⟩
    · simp only [if_true]
      exact key g (fun f' hf' => hg f' (by simp [hf'])) (by simp [hg0]) (fun _ => ho)
    · simp only [hne, if_false]
      refine key (setFn g f.name v) ?_ (by simp [hne]) (fun h => absurd h hne)
      intro f' hf'
      have : f'.name ≠ f.name := fun heq => hnd.1 (heq ▸ List.mem_map_of_mem hf')
      rw [setFn_other _ _ _ _ this]
      exact hg f' (by simp [hf'])

/-- `Finish` after absorbing a canonical struct value gives that value back. -/
theorem finish_absorb (fs : List Field) (es : TLKVs) (vals : List (Option DM))
    (h : reprFields fs es = some vals) (hnd : (fs.map (·.name)).Nodup) :
    (SSt.ofFn fs (absorb (fun _ => none) es)).finish fs = .ok (.map es) := by
  have := absorb_spec fs es vals (fun _ => none) h hnd (fun _ _ => rfl)
  rw [SSt.ofFn_finish, this.2, this.1]
  simp

/-- absorbing entries that are all absent changes nothing -/
theorem absorb_all_absent : (fs : List Field) → (es : TLKVs) → (n : Nat) → (g : Bytes → Option TL) →
    reprFields fs es = some (List.replicate n none) → absorb g es = g
  | [], es, n, g, h => by
    obtain ⟨rfl, _⟩ := reprFields_nil_inv es _ h; rfl
  | f :: fs, .nil, n, g, h => by simp [reprFields] at h
  | f :: fs, .cons k v es, n, g, h => by
    obtain ⟨_, vals', hv, h2⟩ := reprFields_cons_inv f fs k v es _ h
    rcases h2 with ⟨rfl, _, hvals⟩ | ⟨_, d, _, hvals⟩
    · cases n with
      | zero => simp at hvals
      | succ n =>
        simp only [List.replicate_succ, List.cons.injEq, true_and] at hvals
        subst hvals
        rw [absorb]
        simp only [if_true]
        exact absorb_all_absent fs es n g hv
    · cases n with
      | zero => simp at hvals
      | succ n => simp [List.replicate_succ] at hvals

/-! ## Tuples: trailing absent fields are dropped -/

theorem allSome_eq_some {α : Type} : (l : List (Option α)) → (ds : List α) → allSome l = some ds →
    l = ds.map some
  | [], ds, h => by simp only [allSome, Option.some.injEq] at h; subst h; rfl
  | none :: _, _, h => by simp [allSome] at h
  | some a :: l, ds, h => by
    simp only [allSome, Option.map_eq_some_iff] at h
    obtain ⟨r, hr, rfl⟩ := h
    simp [allSome_eq_some l r hr]

theorem eq_replicate_none {α : Type} : (l : List (Option α)) → (∀ x ∈ l, x.isNone = true) →
    l = List.replicate l.length none
  | [], _ => rfl
  | x :: l, h => by
    have hx := h x (by simp)
    cases x with
    | some _ => simp at hx
    | none =>
      simp only [List.length_cons, List.replicate_succ, List.cons.injEq, true_and]
      exact eq_replicate_none l (fun y hy => h y (by simp [hy]))

theorem mem_takeWhile_true {α : Type} (p : α → Bool) : (l : List α) → ∀ x ∈ l.takeWhile p, p x = true
  | [], x, hx => by simp at hx
  | a :: l, x, hx => by
    simp only [List.takeWhile_cons] at hx
    split at hx
    · next ha =>
      simp only [List.mem_cons] at hx
      rcases hx with rfl | hx
      · exact ha
      · exact mem_takeWhile_true p l x hx
    · simp at hx

theorem dropTrailingNone_spec {α : Type} (l : List (Option α)) :
    ∃ n, l = dropTrailingNone l ++ List.replicate n none := by
  have h2 : l = (l.reverse.dropWhile Option.isNone).reverse ++ (l.reverse.takeWhile Option.isNone).reverse :=
    calc l = l.reverse.reverse := (List.reverse_reverse l).symm
      _ = (l.reverse.takeWhile Option.isNone ++ l.reverse.dropWhile Option.isNone).reverse := by
          rw [List.takeWhile_append_dropWhile]
      _ = _ := List.reverse_append
  have h3 := eq_replicate_none (l.reverse.takeWhile Option.isNone)
    (fun x hx => mem_takeWhile_true _ _ x hx)
  refine ⟨(l.reverse.takeWhile Option.isNone).length, ?_⟩
  unfold dropTrailingNone
  conv => lhs; rw [h2]
  rw [h3]
  simp

theorem tuple_vals (vals : List (Option DM)) (ds : List DM)
    (h : allSome (dropTrailingNone vals) = some ds) :
    ∃ n, vals = ds.map some ++ List.replicate n none := by
  obtain ⟨n, hn⟩ := dropTrailingNone_spec vals
  rw [allSome_eq_some _ ds h] at hn
  exact ⟨n, hn⟩

end Schema
end Ipld
