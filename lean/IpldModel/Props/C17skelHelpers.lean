/-
  C17 (companion) — the generic storage helpers (PutStream / PutVec / GetStream / Peek fallbacks) through which stores without those methods are used.
  Recorded by tools/pin_skeletons.py from the source the models were transcribed from; property-tie theorems only.
-/
import IpldModel.Generated.StorageHelperSkeletons
namespace Ipld.Props.C17

/-- (T) statement skeleton of `PutStream` (storage/funcs.go) — the store's own PutStream, or a buffer committed with one Put: the statements on this run are the recorded ones. -/
theorem storagePutStream_is_transcribed : Ipld.Generated.storagePutStream_skel_src = [
  "if streamable, ok := store.(StreamingWritableStorage); ok",
  ". return streamable.PutStream(ctx)",
  "var buf bytes.Buffer // Fallback to basic.",
  "var written bool",
  "return &buf, func(key string) error { if written { return fmt.Errorf(\"WriteCommitter already used\") } written = true return store.Put(ctx, key, buf.Bytes()) }, nil"
] := rfl

/-- (T) statement skeleton of `PutVec` (storage/funcs.go) — the store's own PutVec, else its stream: every piece written, THEN one commit (a failed write commits nothing), else one Put of the concatenation: the statements on this run are the recorded ones. -/
theorem storagePutVec_is_transcribed : Ipld.Generated.storagePutVec_skel_src = [
  "if putvable, ok := store.(VectorWritableStorage); ok",
  ". return putvable.PutVec(ctx, key, blobVec)",
  "wr, wrcommit, err := PutStream(ctx, store)",
  "if err != nil",
  ". return err",
  "_, blob := range blobVec",
  ". _, err := wr.Write(blob)",
  ". if err != nil",
  ". . return err",
  "return wrcommit(key)"
] := rfl

/-- (T) statement skeleton of `GetStream` (storage/funcs.go) — the store's own stream, else a reader over Get: the statements on this run are the recorded ones. -/
theorem storageGetStream_is_transcribed : Ipld.Generated.storageGetStream_skel_src = [
  "if streamable, ok := store.(StreamingReadableStorage); ok",
  ". return streamable.GetStream(ctx, key)",
  "blob, err := store.Get(ctx, key)",
  "return noopCloser{bytes.NewReader(blob)}, err"
] := rfl

/-- (T) statement skeleton of `Peek` (storage/funcs.go) — the store's own Peek, else Get with a no-op closer: the statements on this run are the recorded ones. -/
theorem storagePeek_is_transcribed : Ipld.Generated.storagePeek_skel_src = [
  "if peekable, ok := store.(PeekableStorage); ok",
  ". return peekable.Peek(ctx, key)",
  "bs, err := store.Get(ctx, key)",
  "return bs, noopCloser{nil}, err"
] := rfl

end Ipld.Props.C17
