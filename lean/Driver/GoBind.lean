import IpldModel.Model.Term
import IpldModel.Model.GoBind
import Driver.Schema
namespace Ipld.Driver
open Ipld Ipld.Schema Ipld.GoBind

/-!
  Line protocol of the reflection-binding model (Model/GoBind.lean).

  Go type tokens (prefix, self-delimiting; names are hex):

      bool | i8 | i16 | i32 | i64 | int | u8 | u16 | u32 | u64 | uint | f64 | string | bytes
      link:iface | link:cid | link:cidlink          (datamodel.Link | cid.Cid | cidlink.Link)
      node                                          (datamodel.Node)
      slice <goty> | ptr <goty> | omap <goty>       (omap V = struct{Keys []string; Values map[string]V})
      struct <n:<hexname> <goty>>* )                (also the union struct: every field a pointer)

  Go value tokens:

      t | f | i<dec> | d<16 hex> | s<hex> | b<hex> | l<hex>     bool, integer, float64 bits, string, []byte, link (CID bytes)
      N <dm-term>                                   a datamodel.Node holding the data-model term (Term.lean)
      nils | [ <goval>* ]                           nil slice | non-nil slice   (nil and empty []byte are both `b`; in a `nilb` slot nil is `nilb`)
      nilp | & <goval>                              nil pointer | pointer to
      nilb                                          the nil of a bare nilable Go type (slice, []byte, datamodel.Link, datamodel.Node) in a slot
                                                    where nil stands for absent / null (an optional field, or a nullable field / list element /
                                                    map value, bound to that type without a pointer)
      ( <goval>* )                                  struct: the field values in order
      m <keys> <vals>                               ordered map
          keys = nk | k[ s<hex>* ]                  Keys == nil | Keys
          vals = nv | v{ <s<hex> <goval>>* }        Values == nil | Values (any order)

  Commands (schema tokens and typed-value terms as in Driver/Schema.lean):

      gobind.view <goty…> SCHEMA <ty…> VAL <goval…>       → <tl-term> | unreadable
      gobind.assign <goty…> SCHEMA <ty…> VAL <tl-term…>   → <goval…> | refused
      gobind.norm <goval…>                                → <goval…>
      gobind.wt <goty…> SCHEMA <ty…> VAL <goval…>         → true | false
      gobind.compatible <goty…> SCHEMA <ty…>              → true | false
-/

def parseIntKind : String → Option IntKind
  | "i8" => some .i8 | "i16" => some .i16 | "i32" => some .i32 | "i64" => some .i64 | "int" => some .int
  | "u8" => some .u8 | "u16" => some .u16 | "u32" => some .u32 | "u64" => some .u64 | "uint" => some .uint
  | _ => none

def parseGoTyFuel : Nat → List String → Option (GoTy × List String)
  | 0, _ => none
  | fuel + 1, toks =>
    match toks with
    | [] => none
    | "bool" :: rest => some (.bool, rest)
    | "f64" :: rest => some (.float, rest)
    | "string" :: rest => some (.str, rest)
    | "bytes" :: rest => some (.bytes, rest)
    | "link:iface" :: rest => some (.link .iface, rest)
    | "link:cid" :: rest => some (.link .cid, rest)
    | "link:cidlink" :: rest => some (.link .cidlink, rest)
    | "node" :: rest => some (.node, rest)
    | "slice" :: rest => (parseGoTyFuel fuel rest).map fun (g, r) => (.slice g, r)
    | "ptr" :: rest => (parseGoTyFuel fuel rest).map fun (g, r) => (.ptr g, r)
    | "omap" :: rest => (parseGoTyFuel fuel rest).map fun (g, r) => (.omap g, r)
    | "struct" :: rest => (parseGoFields fuel rest []).map fun (fs, r) => (.struct (GoFields.ofList fs), r)
    | k :: rest => (parseIntKind k).map fun ik => (.int ik, rest)
where
  parseGoFields : Nat → List String → List (Bytes × GoTy) → Option (List (Bytes × GoTy) × List String)
    | 0, _, _ => none
    | fuel + 1, toks, acc =>
      match toks with
      | ")" :: rest => some (acc.reverse, rest)
      | f :: rest =>
        match f.splitOn ":" with
        | ["n", hn] =>
          match hexArgS hn, parseGoTyFuel fuel rest with
          | some n, some (g, rest') => parseGoFields fuel rest' ((n, g) :: acc)
          | _, _ => none
        | _ => none
      | [] => none

/-- `<goty…> SCHEMA <ty…>` then the rest -/
def parseGoTySchema (toks : List String) : Option (GoTy × Ty × List String) :=
  match parseGoTyFuel (toks.length + 1) toks with
  | some (g, "SCHEMA" :: rest) =>
    match parseTyFuel (rest.length + 1) rest with
    | some (t, rest') => some (g, t, rest')
    | none => none
  | _ => none

def parseGoValFuel : Nat → List String → Option (GoVal × List String)
  | 0, _ => none
  | fuel + 1, toks =>
    match toks with
    | [] => none
    | "nils" :: rest => some (.nilSlice, rest)
    | "nilp" :: rest => some (.nilPtr, rest)
    | "nilb" :: rest => some (.nilBare, rest)
    | "&" :: rest => (parseGoValFuel fuel rest).map fun (v, r) => (.ptr v, r)
    | "[" :: rest => (parseVals fuel "]" rest []).map fun (vs, r) => (.slice (GoVals.ofList vs), r)
    | "(" :: rest => (parseVals fuel ")" rest []).map fun (vs, r) => (.struct (GoVals.ofList vs), r)
    | "N" :: rest => (parseTermFuel (2 * rest.length + 2) rest).map fun (d, r) => (.node d, r)
    | "m" :: rest =>
      let keys : Option (Option (List Bytes) × List String) :=
        match rest with
        | "nk" :: r => some (none, r)
        | "k[" :: r => (parseKeys r []).map fun (ks, r') => (some ks, r')
        | _ => none
      match keys with
      | none => none
      | some (ks, r) =>
        match r with
        | "nv" :: r' => some (.omap ks true .nil, r')
        | "v{" :: r' => (parseKVs fuel r' []).map fun (kvs, r'') => (.omap ks false (GoKVs.ofList kvs), r'')
        | _ => none
    | t :: rest =>
      match t.toList with
      | ['t'] => some (.bool true, rest)
      | ['f'] => some (.bool false, rest)
      | 'i' :: cs => (String.ofList cs).toInt?.map fun i => (.int i, rest)
      | 'd' :: cs => (natOfHexChars cs).map fun n => (.float (UInt64.ofNat n), rest)
      | 's' :: cs => (bytesOfHexChars cs).map fun b => (.str b, rest)
      | 'b' :: cs => (bytesOfHexChars cs).map fun b => (.bytes b, rest)
      | 'l' :: cs => (bytesOfHexChars cs).map fun b => (.link b, rest)
      | _ => none
where
  parseVals : Nat → String → List String → List GoVal → Option (List GoVal × List String)
    | 0, _, _, _ => none
    | fuel + 1, close, toks, acc =>
      match toks with
      | [] => none
      | t :: rest =>
        if t == close then some (acc.reverse, rest)
        else match parseGoValFuel fuel toks with
          | none => none
          | some (x, rest') => parseVals fuel close rest' (x :: acc)
  parseKeys : List String → List Bytes → Option (List Bytes × List String)
    | [], _ => none
    | "]" :: rest, acc => some (acc.reverse, rest)
    | k :: rest, acc =>
      match k.toList with
      | 's' :: cs => match bytesOfHexChars cs with
        | some b => parseKeys rest (b :: acc)
        | none => none
      | _ => none
  parseKVs : Nat → List String → List (Bytes × GoVal) → Option (List (Bytes × GoVal) × List String)
    | 0, _, _ => none
    | fuel + 1, toks, acc =>
      match toks with
      | [] => none
      | "}" :: rest => some (acc.reverse, rest)
      | k :: toks' =>
        match k.toList with
        | 's' :: cs =>
          match bytesOfHexChars cs with
          | none => none
          | some kb =>
            match parseGoValFuel fuel toks' with
            | none => none
            | some (v, rest) => parseKVs fuel rest ((kb, v) :: acc)
        | _ => none

def parseGoValAll (toks : List String) : Option GoVal :=
  match parseGoValFuel (2 * toks.length + 2) toks with
  | some (v, []) => some v
  | _ => none

mutual
def GoVal.toTokens : GoVal → List String
  | .bool true => ["t"]
  | .bool false => ["f"]
  | .int i => ["i" ++ toString i]
  | .float b => (DM.float b).toTokens
  | .str s => ["s" ++ hexOfBytes s]
  | .bytes b => ["b" ++ hexOfBytes b]
  | .link c => ["l" ++ hexOfBytes c]
  | .node d => "N" :: d.toTokens
  | .nilSlice => ["nils"]
  | .slice xs => "[" :: (GoVals.toTokens xs ++ ["]"])
  | .nilPtr => ["nilp"]
  | .nilBare => ["nilb"]
  | .ptr v => "&" :: GoVal.toTokens v
  | .struct vs => "(" :: (GoVals.toTokens vs ++ [")"])
  | .omap keys vnil vals =>
    "m" :: ((match keys with
             | none => ["nk"]
             | some ks => "k[" :: (ks.map (fun k => "s" ++ hexOfBytes k) ++ ["]"]))
            ++ (if vnil then ["nv"] else "v{" :: (GoKVs.toTokens vals ++ ["}"])))
def GoVals.toTokens : GoVals → List String
  | .nil => []
  | .cons x xs => GoVal.toTokens x ++ GoVals.toTokens xs
def GoKVs.toTokens : GoKVs → List String
  | .nil => []
  | .cons k v es => ("s" ++ hexOfBytes k) :: (GoVal.toTokens v ++ GoKVs.toTokens es)
end

def GoVal.toTerm (v : GoVal) : String := " ".intercalate (GoVal.toTokens v)

def gobindHandler : List String → Option String
  | "gobind.view" :: toks =>
    match parseGoTySchema toks with
    | some (g, t, "VAL" :: rest) =>
      match parseGoValAll rest with
      | some gv => some (match view g t false gv with | some v => TL.toTerm v | none => "unreadable")
      | none => some "bad-goval"
    | _ => some "bad-type"
  | "gobind.assign" :: toks =>
    match parseGoTySchema toks with
    | some (g, t, "VAL" :: rest) =>
      match parseTLAll rest with
      | some tl => some (match assign g t tl with | some gv => GoVal.toTerm gv | none => "refused")
      | none => some "bad-term"
    | _ => some "bad-type"
  | "gobind.norm" :: toks =>
    match parseGoValAll toks with
    | some gv => some (GoVal.toTerm gv.norm)
    | none => some "bad-goval"
  | "gobind.wt" :: toks =>
    match parseGoTySchema toks with
    | some (g, t, "VAL" :: rest) =>
      match parseGoValAll rest with
      | some gv => some (if wt g t false gv then "true" else "false")
      | none => some "bad-goval"
    | _ => some "bad-type"
  | "gobind.compatible" :: toks =>
    match parseGoTySchema toks with
    | some (g, t, []) => some (if compatible g t false then "true" else "false")
    | _ => some "bad-type"
  | _ => none

end Ipld.Driver
