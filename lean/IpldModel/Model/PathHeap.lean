/-
  Heap-level model of `datamodel.Path` (`datamodel/path.go`): a `Path` is a Go slice of `PathSegment`, i.e. a window
  (array, offset, len, cap) onto a backing array that lives on a heap.  Every operation of path.go is transcribed with
  the allocations, copies, cell stores and re-slicings the code performs, so that "a Path is a value" (C14) becomes a
  statement about reads of slices across heap changes (`Props/C14heap.lean`).

  * `make([]PathSegment, n)`  = `make`: a new array of `n` zero cells, the slice (new id, 0, n, n) — `make` gives cap = len.
  * `copy(dst, src)`          = `copy`: min(len dst, len src) cell stores into dst's array starting at dst's offset.
  * `s[i] = v`                = `setIdx` (the only uses index a slice the function has just made, below its len).
  * `s[lo:hi]`                = `Slice.sub`: same array, offset + lo, len hi - lo, cap - lo (Go checks lo ≤ hi ≤ cap —
                                 against the CAPACITY, which is why `Truncate` can also lengthen a re-sliced path).
  * `append(s, vs...)`        = only in the deviating `joinAppend`: in place when len + n ≤ cap, else a new array.

  Which operations allocate and which re-slice is read off the source: `NewPath`, `ParsePath`, `AppendSegment`, `Join`
  allocate; `Parent`, `Pop`, `Truncate`, `Shift` RE-SLICE the receiver (they share its array); `Last`, `Segments`, `Len`
  read.  Core Lean only.
-/
import IpldModel.Model.Selector
namespace Ipld
namespace PathHeap
open Sel

/-- the heap: backing arrays by id (an array is its list of cells); arrays are never freed or resized -/
abbrev Heap := List (List Seg)

/-- a Go slice header -/
structure Slice where
  arr : Nat
  off : Nat
  len : Nat
  cap : Nat
  deriving DecidableEq, Repr, Inhabited

/-- the nil slice (`Path{}`, `EmptyPath`): no cells, whatever the heap -/
def nilSlice : Slice := ⟨0, 0, 0, 0⟩

/-- the zero `PathSegment{s: "", i: 0}` a fresh array is filled with (it reads as index 0) -/
def zeroSeg : Seg := .idx 0

/-- `EmptyPathSegment = PathSegment{i: -1}`: the empty string -/
def emptySeg : Seg := .str []

def Heap.arr (h : Heap) (a : Nat) : List Seg := h[a]?.getD []

/-- the cells a slice shows: `Path.Segments()` -/
def read (h : Heap) (s : Slice) : List Seg := ((h.arr s.arr).drop s.off).take s.len

/-- a slice of this heap: len ≤ cap and the window [off, off+cap) lies inside its array -/
def Slice.WF (h : Heap) (s : Slice) : Prop := s.len ≤ s.cap ∧ s.off + s.cap ≤ (h.arr s.arr).length

instance (h : Heap) (s : Slice) : Decidable (s.WF h) := by unfold Slice.WF; exact inferInstance

/-! ## the Go primitives -/

/-- `make([]PathSegment, n)` -/
def make (h : Heap) (n : Nat) : Heap × Slice := (h ++ [List.replicate n zeroSeg], ⟨h.length, 0, n, n⟩)

/-- consecutive cell stores `cells[k] = v₀; cells[k+1] = v₁; …` -/
def storeFrom : List Seg → Nat → List Seg → List Seg
  | cells, _, [] => cells
  | cells, k, v :: vs => storeFrom (cells.set k v) (k + 1) vs

/-- `copy(dst, src)` where `src` currently shows the cells `vals`: min(len dst, len src) cells are stored -/
def copy (h : Heap) (dst : Slice) (vals : List Seg) : Heap :=
  h.set dst.arr (storeFrom (h.arr dst.arr) dst.off (vals.take (min dst.len vals.length)))

/-- `s[i] = v` (callers index below `len s` by construction) -/
def setIdx (h : Heap) (s : Slice) (i : Nat) (v : Seg) : Heap :=
  h.set s.arr (storeFrom (h.arr s.arr) (s.off + i) [v])

/-- `s[lo:hi]` (bounds `lo ≤ hi ≤ cap s` are the caller's: see `truncate`) -/
def Slice.sub (s : Slice) (lo hi : Nat) : Slice := ⟨s.arr, s.off + lo, hi - lo, s.cap - lo⟩

/-! ## path.go -/

/-- `NewPath(segments)`: make, copy -/
def newPath (h : Heap) (segs : List Seg) : Heap × Slice :=
  let (h1, s) := make h segs.length
  (copy h1 s segs, s)

/-- `NewPathNocopy(segments)`: the caller's slice itself (no write, no allocation) -/
def newPathNocopy (s : Slice) : Slice := s

/-- `ParsePath(pth)`: make, then one store per field of `strings.FieldsFunc(pth, '/')` -/
def parsePath (h : Heap) (txt : Bytes) : Heap × Slice :=
  let ss := splitSlash txt
  let (h1, s) := make h ss.length
  (h1.set s.arr (storeFrom (h1.arr s.arr) s.off (ss.map Seg.str)), s)

/-- `Path.AppendSegment(ps)`: make len+1, copy, set the last cell -/
def appendSegment (h : Heap) (p : Slice) (ps : Seg) : Heap × Slice :=
  let l := p.len
  let (h1, c) := make h (l + 1)
  let h2 := copy h1 c (read h1 p)
  (setIdx h2 c l ps, c)

/-- `Path.Join(p2)`: make len+len₂, copy the receiver, copy `p2` behind it -/
def join (h : Heap) (p p2 : Slice) : Heap × Slice :=
  let (h1, c) := make h (p.len + p2.len)
  let h2 := copy h1 c (read h1 p)
  let h3 := copy h2 (c.sub p.len c.len) (read h2 p2)
  (h3, c)

/-- `Path.Parent()`: `EmptyPath` for the empty path, else `p.segments[0 : len-1]` — a re-slice of the receiver -/
def parent (p : Slice) : Slice := if p.len = 0 then nilSlice else p.sub 0 (p.len - 1)

/-- `Path.Pop()`: the same statements as `Parent` -/
def pop (p : Slice) : Slice := if p.len < 1 then nilSlice else p.sub 0 (p.len - 1)

/-- `Path.Truncate(i)`: `p.segments[0:i]` — a re-slice; Go panics unless 0 ≤ i ≤ cap -/
def truncate (p : Slice) (i : Int) : Option Slice :=
  if 0 ≤ i ∧ i ≤ (p.cap : Int) then some (p.sub 0 i.toNat) else none

/-- `Path.Shift()`, the path result: `EmptyPath` for the empty path, else `p.segments[1:]` — a re-slice -/
def shift (p : Slice) : Slice := if p.len < 1 then nilSlice else p.sub 1 p.len

/-- `Path.Shift()`, the segment result -/
def shiftSeg (h : Heap) (p : Slice) : Seg := if p.len < 1 then emptySeg else ((read h p)[0]?).getD zeroSeg

/-- `Path.Last()` -/
def last (h : Heap) (p : Slice) : Seg := if p.len < 1 then emptySeg else ((read h p)[p.len - 1]?).getD zeroSeg

/-- `Path.Len()` -/
def pathLen (p : Slice) : Nat := p.len

/-! ## the deviation: `Join` through `append` -/

/-- `Path{append(p.segments, p2.segments...)}`: when the receiver's array has room behind its last cell the new cells
    are stored THERE (same array, same offset, longer len); otherwise a new array is made (at least len + n cells: the
    model takes exactly that many) and both parts are copied. -/
def joinAppend (h : Heap) (p p2 : Slice) : Heap × Slice :=
  let vals := read h p2
  if p.len + p2.len ≤ p.cap then
    (h.set p.arr (storeFrom (h.arr p.arr) (p.off + p.len) vals), ⟨p.arr, p.off, p.len + p2.len, p.cap⟩)
  else
    let (h1, c) := make h (p.len + p2.len)
    let h2 := copy h1 c (read h1 p)
    (copy h2 (c.sub p.len c.len) vals, c)

/-! ## derivation histories -/

/-- one derivation; paths are named by their position in the list of paths made so far -/
inductive Op where
  | newPath (segs : List Seg)
  | parsePath (txt : Bytes)
  | append (i : Nat) (s : Seg)
  | join (i j : Nat)
  | parent (i : Nat)
  | pop (i : Nat)
  | truncate (i : Nat) (n : Int)
  | shift (i : Nat)
  deriving DecidableEq, Repr

structure St where
  heap : Heap
  paths : List Slice
  deriving DecidableEq, Repr

def St.empty : St := ⟨[], []⟩

def St.WF (st : St) : Prop := ∀ s ∈ st.paths, s.WF st.heap

/-- one step, parametrised by the implementation of `Join`; `none` = a Go panic (or a path name out of range) -/
def stepWith (J : Heap → Slice → Slice → Heap × Slice) (st : St) : Op → Option St
  | .newPath segs => let r := newPath st.heap segs; some ⟨r.1, st.paths ++ [r.2]⟩
  | .parsePath txt => let r := parsePath st.heap txt; some ⟨r.1, st.paths ++ [r.2]⟩
  | .append i s => st.paths[i]?.map fun p => let r := appendSegment st.heap p s; ⟨r.1, st.paths ++ [r.2]⟩
  | .join i j => st.paths[i]?.bind fun p => st.paths[j]?.map fun p2 => let r := J st.heap p p2; ⟨r.1, st.paths ++ [r.2]⟩
  | .parent i => st.paths[i]?.map fun p => ⟨st.heap, st.paths ++ [parent p]⟩
  | .pop i => st.paths[i]?.map fun p => ⟨st.heap, st.paths ++ [pop p]⟩
  | .truncate i n => st.paths[i]?.bind fun p => (truncate p n).map fun q => ⟨st.heap, st.paths ++ [q]⟩
  | .shift i => st.paths[i]?.map fun p => ⟨st.heap, st.paths ++ [shift p]⟩

def runWith (J : Heap → Slice → Slice → Heap × Slice) : St → List Op → Option St
  | st, [] => some st
  | st, op :: ops => (stepWith J st op).bind fun st' => runWith J st' ops

/-- path.go as it is -/
def step : St → Op → Option St := stepWith join
def run : St → List Op → Option St := runWith join

/-- the pure reading of an operation on path VALUES (lists of segments): `none` where the operation's contract says
    nothing (a name out of range, `Truncate` beyond the length) -/
def Op.spec (vals : List (List Seg)) : Op → Option (List Seg)
  | .newPath segs => some segs
  | .parsePath txt => some (Sel.parsePath txt)
  | .append i s => vals[i]?.map (· ++ [s])
  | .join i j => vals[i]?.bind fun a => vals[j]?.map fun b => a ++ b
  | .parent i => vals[i]?.map List.dropLast
  | .pop i => vals[i]?.map List.dropLast
  | .truncate i n => vals[i]?.bind fun a => if 0 ≤ n ∧ n ≤ (a.length : Int) then some (a.take n.toNat) else none
  | .shift i => vals[i]?.map (List.drop 1)

end PathHeap
end Ipld
