/-
  Representation-level assemblers: `AssignNode` on a machine that is the contract's (`step`), the canonical plan of a
  data-model tree (`Asm.planOf`: `AssembleEntry` for every map entry) run call by call, and a refused first call.
  Helper lemmas for Props/C12repr.lean.
-/
import IpldModel.Lemmas.ReprAssemblerNode
import IpldModel.Lemmas.ReprAssemblerErase
namespace Ipld
namespace RAsm
open Ipld.Asm (Op Out ErrClass planOf planList planKVs)
open Ipld.Schema (Ty Fields Members Field Member TL TLs TLKVs canonFields wrapPath Outcome)
open Ipld.TAsm (Phase Pos hasKey inInt64 Call int64s int64sL int64sM)

/-! ### `AssignNode` -/

/-- `AssignNode` at a value assembler of a type of the fragment: see `repr_assignNode_is_build` (Props/C12repr.lean) -/
theorem step_assignNode_spec {e : Engine} (he : e.keyAsmDupMapKey = false) {s : St} {t : Ty}
    {nul : Bool} (ht : s.tainted = false) (hp : pos s = .value t nul) (hwf : t.wf = true) (hpl : plainR t = true)
    (v : DM) (hi : int64s v = true) :
    match Schema.build Schema.Engine.ideal .repr t nul none v with
    | .ok w => step e s (.assignNode v) = ((deliver s w).1, .ok)
    | .reject => ∃ c, step e s (.assignNode v) = (s, .err c) ∨
        (e.anPartial = true ∧ step e s (.assignNode v) = ({ s with tainted := true }, .err c))
    | .panic => True := by
  have hspec := putNode_spec he v s t nul hp hwf hpl hi
  rw [step_of_not_tainted ht]
  cases hb : Schema.build Schema.Engine.ideal .repr t nul none v with
  | panic => trivial
  | ok w =>
    rw [hb] at hspec
    simp only [Agrees] at hspec
    have hdo := deliver_ok_of_pos hp w
    rcases hd : deliver s w with ⟨s', o⟩
    rw [hd] at hdo hspec
    simp only at hdo; subst hdo
    by_cases hr : TAsm.isRec v = true
    · simp only [stepU, hr, if_true, hspec, hd]
    · have hr' : TAsm.isRec v = false := by simpa using hr
      have hpn : putNode e s v = stepPrim e s (.assign v) := by
        cases v <;> first | (cases hr'; done) | rfl
      simp only [stepU, hr', Bool.false_eq_true, if_false, ← hpn, hspec, hd]
  | reject =>
    rw [hb] at hspec
    obtain ⟨s', c, hpn⟩ := hspec
    by_cases hr : TAsm.isRec v = true
    · simp only [stepU, hr, if_true, hpn]
      refine ⟨c, ?_⟩
      split
      · rename_i hbq
        simp only [Bool.and_eq_true] at hbq
        exact Or.inr ⟨hbq.1, rfl⟩
      · exact Or.inl rfl
    · have hr' : TAsm.isRec v = false := by simpa using hr
      have hpn' : putNode e s v = stepPrim e s (.assign v) := by
        cases v <;> first | (cases hr'; done) | rfl
      simp only [stepU, hr', Bool.false_eq_true, if_false]
      rw [hpn'] at hpn
      refine ⟨c, Or.inl ?_⟩
      rw [hpn]
      rcases stepPrim_err hpn with h1 | h1
      · rw [h1]
      · -- a value assembler is no key assembler
        exfalso
        have hk := h1.inKey
        have hnk : inKey s = false := by
          clear hpn hpn' h1 hk hb
          state_cases s =>
            try simp only [pos, posOf] at hp
            all_goals (try split at hp)
            all_goals first | (cases hp; done) | rfl
        rw [hnk] at hk; cases hk

/-! ### size hints are not looked at -/

theorem stepPrim_beginList_hint (e : Engine) (s : St) (n m : Int) :
    stepPrim e s (.beginList n) = stepPrim e s (.beginList m) := by
  unfold stepPrim
  repeat' split
  all_goals first | rfl | contradiction

theorem stepPrim_beginMap_hint (e : Engine) (s : St) (n m : Int) :
    stepPrim e s (.beginMap n) = stepPrim e s (.beginMap m) := by
  unfold stepPrim
  repeat' split
  all_goals first | rfl | contradiction

/-! ### `AssembleEntry(k)` is `AssembleKey().AssignString(k)` + `AssembleValue()` -/

theorem assembleEntry_of_key {e : Engine} (he : e.keyAsmDupMapKey = false) {s s1 s2 s3 : St} {k : Bytes}
    (h1 : stepPrim e s .assembleKey = (s1, .ok)) (h2 : stepPrim e s1 (.assign (.str k)) = (s2, .ok))
    (h3 : stepPrim e s2 .assembleValue = (s3, .ok)) : stepPrim e s (.assembleEntry k) = (s3, .ok) := by
  obtain ⟨⟨f, f', rest, hf, hek, rfl⟩, _⟩ := stepPrim_assembleKey_ok h1
  obtain ⟨t, fr, r, tt⟩ := s1
  simp only at hf; subst hf
  cases f with
  | list ety enul xs mid w => cases hek
  | tuple fs es mid w => cases hek
  | map vty vnul es ph w =>
    cases ph <;> first | (cases hek; done) | skip
    simp only [Frame.endKey, Option.some.injEq] at hek; subst hek
    simp only [stepPrim, keyPrim, supplyKey, he, Bool.not_false, Bool.and_true] at h2 ⊢
    split at h2
    · cases h2
    · rename_i hk
      obtain rfl := (Prod.mk.inj h2).1
      simp only [stepPrim] at h3
      obtain rfl := (Prod.mk.inj h3).1
      simp [hk]
  | struct fs es ph w =>
    cases ph <;> first | (cases hek; done) | skip
    simp only [Frame.endKey, Option.some.injEq] at hek; subst hek
    simp only [stepPrim, keyPrim, supplyKey] at h2 ⊢
    split at h2
    · split at h2
      · cases h2
      · rename_i hu
        obtain rfl := (Prod.mk.inj h2).1
        simp only [stepPrim] at h3
        obtain rfl := (Prod.mk.inj h3).1
        simp [hu]
    · split at h2
      · cases h2
      · rename_i hk
        obtain rfl := (Prod.mk.inj h2).1
        simp only [stepPrim] at h3
        obtain rfl := (Prod.mk.inj h3).1
        simp [hk]
  | union ms cur ph w =>
    cases ph <;> first | (cases hek; done) | skip
    simp only [Frame.endKey, Option.some.injEq] at hek; subst hek
    simp only [stepPrim, keyPrim, supplyKey] at h2 ⊢
    split at h2
    · cases h2
    · rename_i hc
      obtain rfl := (Prod.mk.inj h2).1
      simp only [stepPrim] at h3
      obtain rfl := (Prod.mk.inj h3).1
      simp [hc]
  | dead ph =>
    cases ph <;> first | (cases hek; done) | skip
    simp only [stepPrim, errPrim, Asm.isScalar, if_true] at h2
    cases h2

/-! ### the canonical plan, call by call -/

theorem stepPrim_not_tainted {e : Engine} {s s' : St} {op : Op} {o : Out} (ht : s.tainted = false)
    (h : stepPrim e s op = (s', o)) : s'.tainted = false := by
  have := (stepPrim_hdr e s op).2
  rw [h] at this
  rw [this]; exact ht

mutual
theorem putNode_tainted (e : Engine) : (v : DM) → (s s' : St) → s.tainted = false → putNode e s v = (s', .ok) →
    s'.tainted = false
  | v, s, s', ht, h => by
    have := (putNode_hdr e v s).2
    rw [h] at this
    rw [this]; exact ht
end

/-- a call that is no `AssignNode`, on a machine that is the contract's -/
theorem step_prim {e : Engine} {s : St} (ht : s.tainted = false) {op : Op} (hop : ∀ v, op ≠ .assignNode v) :
    step e s op = stepPrim e s op := by
  rw [step_of_not_tainted ht]
  cases op <;> first | rfl | exact absurd rfl (hop _)

mutual
/-- an accepted copy of `d` and the canonical plan of `d` end in the same state, the plan accepted call by call -/
theorem plan_runs {e : Engine} (he : e.keyAsmDupMapKey = false) : (d : DM) → (s s' : St) → s.tainted = false →
    putNode e s d = (s', .ok) → Runs e s (planOf d) s'
  | .list xs, s, s', ht, h => by
    simp only [putNode] at h
    obtain ⟨s1, h1, h⟩ := andThen_eq_ok h
    obtain ⟨s2, h2, h3⟩ := andThen_eq_ok h
    have ht1 := stepPrim_not_tainted ht h1
    have ht2 : s2.tainted = false := by
      have := (putList_hdr e xs s1).2; rw [h2] at this; rw [this]; exact ht1
    simp only [planOf]
    rw [stepPrim_beginList_hint e s 0 xs.length] at h1
    refine Runs.cons (by rw [step_prim ht (by intro v hv; cases hv)]; exact h1) ?_
    exact Runs.append (planList_runs he xs s1 s2 ht1 h2)
      (Runs.single (by rw [step_prim ht2 (by intro v hv; cases hv)]; exact h3))
  | .map es, s, s', ht, h => by
    simp only [putNode] at h
    obtain ⟨s1, h1, h⟩ := andThen_eq_ok h
    obtain ⟨s2, h2, h3⟩ := andThen_eq_ok h
    have ht1 := stepPrim_not_tainted ht h1
    have ht2 : s2.tainted = false := by
      have := (putKVs_hdr e es s1).2; rw [h2] at this; rw [this]; exact ht1
    simp only [planOf]
    rw [stepPrim_beginMap_hint e s 0 es.length] at h1
    refine Runs.cons (by rw [step_prim ht (by intro v hv; cases hv)]; exact h1) ?_
    exact Runs.append (planKVs_runs he es s1 s2 ht1 h2)
      (Runs.single (by rw [step_prim ht2 (by intro v hv; cases hv)]; exact h3))
  | .null, s, s', ht, h => by
    simp only [putNode] at h; simp only [planOf]
    exact Runs.single (by rw [step_prim ht (by intro v hv; cases hv)]; exact h)
  | .bool _, s, s', ht, h => by
    simp only [putNode] at h; simp only [planOf]
    exact Runs.single (by rw [step_prim ht (by intro v hv; cases hv)]; exact h)
  | .int _, s, s', ht, h => by
    simp only [putNode] at h; simp only [planOf]
    exact Runs.single (by rw [step_prim ht (by intro v hv; cases hv)]; exact h)
  | .float _, s, s', ht, h => by
    simp only [putNode] at h; simp only [planOf]
    exact Runs.single (by rw [step_prim ht (by intro v hv; cases hv)]; exact h)
  | .str _, s, s', ht, h => by
    simp only [putNode] at h; simp only [planOf]
    exact Runs.single (by rw [step_prim ht (by intro v hv; cases hv)]; exact h)
  | .bytes _, s, s', ht, h => by
    simp only [putNode] at h; simp only [planOf]
    exact Runs.single (by rw [step_prim ht (by intro v hv; cases hv)]; exact h)
  | .link _, s, s', ht, h => by
    simp only [putNode] at h; simp only [planOf]
    exact Runs.single (by rw [step_prim ht (by intro v hv; cases hv)]; exact h)
theorem planList_runs {e : Engine} (he : e.keyAsmDupMapKey = false) : (xs : DMs) → (s s' : St) →
    s.tainted = false → putList e s xs = (s', .ok) → Runs e s (planList xs) s'
  | .nil, s, s', _, h => by
    simp only [putList] at h
    obtain rfl := (Prod.mk.inj h).1
    exact Runs.nil e s
  | .cons x xs, s, s', ht, h => by
    simp only [putList] at h
    obtain ⟨s1, h1, h⟩ := andThen_eq_ok h
    obtain ⟨s2, h2, h3⟩ := andThen_eq_ok h
    have ht1 := stepPrim_not_tainted ht h1
    have ht2 := putNode_tainted e x s1 s2 ht1 h2
    simp only [planList]
    refine Runs.cons (by rw [step_prim ht (by intro v hv; cases hv)]; exact h1) ?_
    exact Runs.append (plan_runs he x s1 s2 ht1 h2) (planList_runs he xs s2 s' ht2 h3)
theorem planKVs_runs {e : Engine} (he : e.keyAsmDupMapKey = false) : (es : DMKVs) → (s s' : St) →
    s.tainted = false → putKVs e s es = (s', .ok) → Runs e s (planKVs es) s'
  | .nil, s, s', _, h => by
    simp only [putKVs] at h
    obtain rfl := (Prod.mk.inj h).1
    exact Runs.nil e s
  | .cons k v es, s, s', ht, h => by
    simp only [putKVs] at h
    obtain ⟨s1, h1, h⟩ := andThen_eq_ok h
    obtain ⟨s2, h2, h⟩ := andThen_eq_ok h
    obtain ⟨s3, h3, h⟩ := andThen_eq_ok h
    obtain ⟨s4, h4, h5⟩ := andThen_eq_ok h
    have hae := assembleEntry_of_key he h1 h2 h3
    have ht3 := stepPrim_not_tainted ht hae
    have ht4 := putNode_tainted e v s3 s4 ht3 h4
    simp only [planKVs]
    refine Runs.cons (by rw [step_prim ht (by intro v hv; cases hv)]; exact hae) ?_
    exact Runs.append (plan_runs he v s3 s4 ht3 h4) (planKVs_runs he es s4 s' ht4 h5)
end

/-! ### a refused first call -/

/-- a call refused by a NEW builder leaves it new (unless it is the `AssignNode` of a map/list node an engine with
    `anPartial` leaves half done) -/
theorem step_init_err {e : Engine} {ty : Ty} {op : Op} {c : ErrClass} {s' : St}
    (h : step e (init ty) op = (s', .err c)) (hsc : e.anPartial = false ∨ ∀ v, op = .assignNode v → TAsm.isRec v = false) :
    s' = init ty := by
  rcases step_err h with h1 | h1 | ⟨h1, _, v, hv, hr⟩
  · exact h1
  · have := h1.inKey
    simp [inKey, init] at this
  · rcases hsc with hsc | hsc
    · rw [hsc] at h1; cases h1
    · rw [hsc v hv] at hr; cases hr

end RAsm
end Ipld
