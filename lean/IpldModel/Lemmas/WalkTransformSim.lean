/-
  The transform against the matching walk: with a callback that never replaces, without a start-at path, and when
  at every position the walk can reach the two child enumerations pair up (`Spec.AlignedAt`) and `Match` agrees with
  `Decide` (`Spec.PlainMatch`), `walkT` and `Walk.walkAdv` run in lock step: same budgets, same seen-set, the same
  observed log (matched visits and loader requests, interleaved), the same outcome — unless one of them runs out of
  fuel (the two consume fuel differently).
-/
import IpldModel.Lemmas.WalkTransform
import IpldModel.Lemmas.WalkOrder
import IpldModel.Lemmas.WalkBudget
namespace Ipld
namespace WalkT
open Sel Walk Spec

/-! ### the relation between the two runs -/

structure SRel (w t : St) : Prop where
  nb : w.nodeBudget = t.nodeBudget
  lb : w.linkBudget = t.linkBudget
  seen : w.seen = t.seen
  log : observedLog w.events = observedLog t.events

theorem SRel.rfl' (st : St) : SRel st st := ⟨rfl, rfl, rfl, rfl⟩

/-- the walk's outcome against the transform's (any payload) -/
def OutRel {α : Type} : Except Err Unit → Except TErr α → Prop
  | .ok _, .ok _ => True
  | .error e, .error (.walk e') => e = e'
  | _, _ => False

/-- in lock step, unless one side ran out of fuel -/
def Corr {α : Type} (rW : WR) (rT : St × Except TErr α) : Prop :=
  rW.2 = .error .fuel ∨ rT.2 = .error (.walk .fuel) ∨ (SRel rW.1 rT.1 ∧ OutRel rW.2 rT.2)

def bindT {α β : Type} (r : St × Except TErr α) (f : St → α → St × Except TErr β) : St × Except TErr β :=
  match r with
  | (st', .error e) => (st', .error e)
  | (st', .ok a) => f st' a

def mapT {α β : Type} (g : α → β) (r : St × Except TErr α) : St × Except TErr β :=
  match r with
  | (st', .error e) => (st', .error e)
  | (st', .ok a) => (st', .ok (g a))

theorem iterate_cons' (step : Seg → DM → St → TR) (ps : Seg) (v : DM) (rest : List (Seg × DM)) (st : St) :
    iterate step ((ps, v) :: rest) st =
      bindT (step ps v st) fun st' v' => mapT (fun out => (ps, v') :: out) (iterate step rest st') := by
  rw [iterate_cons]
  rcases step ps v st with ⟨st1, e | v'⟩
  · rfl
  · simp only [bindT, mapT]
    rcases iterate step rest st1 with ⟨st2, e | out⟩ <;> rfl

theorem corr_mapT {α β : Type} (g : α → β) {rW : WR} {rT : St × Except TErr α} (h : Corr rW rT) :
    Corr rW (mapT g rT) := by
  obtain ⟨t1, rT⟩ := rT
  obtain ⟨w1, rW⟩ := rW
  cases rT with
  | error e =>
    rcases h with h | h | ⟨h1, h2⟩
    · exact Or.inl h
    · simp only at h; cases h; exact Or.inr (Or.inl rfl)
    · refine Or.inr (Or.inr ⟨h1, ?_⟩)
      cases rW with
      | error e' => cases e <;> exact h2
      | ok u => cases e <;> exact h2
  | ok a =>
    rcases h with h | h | ⟨h1, h2⟩
    · exact Or.inl h
    · cases h
    · refine Or.inr (Or.inr ⟨h1, ?_⟩)
      cases rW with
      | error e => exact h2
      | ok u => trivial

theorem corr_bind {α β : Type} {rW : WR} {rT : St × Except TErr α} {fW : St → WR} {fT : St → α → St × Except TErr β}
    (h1 : Corr rW rT) (h2 : ∀ w' t' a, SRel w' t' → Corr (fW w') (fT t' a)) :
    Corr (andThen rW fW) (bindT rT fT) := by
  obtain ⟨w1, rW⟩ := rW
  obtain ⟨t1, rT⟩ := rT
  rcases h1 with h | h | ⟨hs, ho⟩
  · simp only at h; subst h; exact Or.inl rfl
  · simp only at h; subst h; exact Or.inr (Or.inl rfl)
  · cases rW with
    | error e =>
      cases rT with
      | ok a => exact absurd ho (by simp [OutRel])
      | error e' =>
        cases e' with
        | callback => exact absurd ho (by simp [OutRel])
        | walk e' => exact Or.inr (Or.inr ⟨hs, ho⟩)
    | ok u =>
      cases rT with
      | error e' => exact absurd ho (by cases e' <;> simp [OutRel])
      | ok a => cases u; exact h2 _ _ _ hs

theorem corr_ok {α : Type} {w t : St} (h : SRel w t) (a : α) : Corr (w, .ok ()) (t, (.ok a : Except TErr α)) :=
  Or.inr (Or.inr ⟨h, trivial⟩)

theorem corr_err {α : Type} {w t : St} (h : SRel w t) (e : Err) :
    Corr (w, .error e) (t, (.error (.walk e) : Except TErr α)) :=
  Or.inr (Or.inr ⟨h, rfl⟩)

/-! ### the primitive steps keep the relation -/

theorem checkNode_rel {w t : St} (h : SRel w t) :
    (∃ e, checkNode w = .error e ∧ checkNode t = .error e) ∨
    (∃ w1 t1, checkNode w = .ok w1 ∧ checkNode t = .ok t1 ∧ SRel w1 t1) := by
  obtain ⟨h1, h2, h3, h4⟩ := h
  unfold checkNode
  rw [← h1]
  cases w.nodeBudget with
  | none => exact Or.inr ⟨_, _, rfl, rfl, ⟨h1, h2, h3, h4⟩⟩
  | some b =>
    simp only
    by_cases hb : b ≤ 0
    · simp only [hb, if_true]; exact Or.inl ⟨_, rfl, rfl⟩
    · simp only [hb, if_false]; exact Or.inr ⟨_, _, rfl, rfl, ⟨rfl, h2, h3, h4⟩⟩

theorem observedLog_cons_load (c : Bytes) (es : List Event) :
    observedLog (.load c :: es) = .load c :: observedLog es := rfl

theorem observedLog_cons_matched (p : Path) (n : DM) (es : List Event) :
    observedLog (.visit p n .matched :: es) = .visit ((pathText p).map .str) n .matched :: observedLog es := rfl

theorem observedLog_cons_candidate (p : Path) (n : DM) (es : List Event) :
    observedLog (.visit p n .candidate :: es) = observedLog es := rfl

theorem linkStep_rel (cfg : Cfg) (c : Bytes) {w t : St} (h : SRel w t) :
    SRel (linkStep cfg c w).1 (linkStep cfg c t).1 ∧ (linkStep cfg c w).2 = (linkStep cfg c t).2 := by
  obtain ⟨h1, h2, h3, h4⟩ := h
  unfold linkStep
  rw [← h3]
  by_cases hc : (cfg.linkOnce && w.seen.contains c) = true
  · rw [if_pos hc, if_pos hc]; exact ⟨⟨h1, h2, h3, h4⟩, rfl⟩
  · rw [if_neg hc, if_neg hc]
    have hr : SRel (if cfg.linkOnce = true then { w with seen := c :: w.seen } else w)
        (if cfg.linkOnce = true then { t with seen := c :: w.seen } else t) := by
      split
      · exact ⟨h1, h2, rfl, h4⟩
      · exact ⟨h1, h2, h3, h4⟩
    generalize (if cfg.linkOnce = true then { w with seen := c :: w.seen } else w) = w1 at hr
    generalize (if cfg.linkOnce = true then { t with seen := c :: w.seen } else t) = t1 at hr
    obtain ⟨g1, g2, g3, g4⟩ := hr
    simp only
    unfold checkLink
    rw [← g2]
    cases w1.linkBudget with
    | none =>
      simp only
      have hr3 : SRel { w1 with events := .load c :: w1.events } { t1 with events := .load c :: t1.events } :=
        ⟨g1, g2, g3, by simp only [observedLog_cons_load, g4]⟩
      split
      · exact ⟨hr3, rfl⟩
      · split <;> exact ⟨hr3, rfl⟩
    | some b =>
      simp only
      by_cases hb : b ≤ 0
      · simp only [hb, if_true]; exact ⟨⟨g1, g2, g3, g4⟩, trivial⟩
      · simp only [hb, if_false]
        have hr3 : SRel { w1 with linkBudget := some (b - 1), events := .load c :: w1.events }
            { t1 with linkBudget := some (b - 1), events := .load c :: t1.events } :=
          ⟨g1, rfl, g3, by simp only [observedLog_cons_load, g4]⟩
        split
        · exact ⟨hr3, rfl⟩
        · split <;> exact ⟨hr3, rfl⟩

theorem pathText_snoc {pw pt : Path} (hp : pathText pw = pathText pt) {a b : Seg} (hab : a.toString = b.toString) :
    pathText (pw ++ [a]) = pathText (pt ++ [b]) := by
  simp only [pathText, List.map_append, List.map_cons, List.map_nil] at hp ⊢
  rw [hp, hab]

/-- the visit step of the walk against the callback step of the transform -/
theorem visit_rel {w t : St} (h : SRel w t) {pw pt : Path} (hp : pathText pw = pathText pt) {n : DM} {s : S}
    (hm : PlainMatch s n) :
    SRel { w with events := visitEvent pw n s :: w.events }
      (if decideNode s n then callSt pt n t else t) := by
  obtain ⟨h1, h2, h3, h4⟩ := h
  unfold PlainMatch at hm
  unfold visitEvent
  rw [hm]
  cases decideNode s n with
  | true =>
    simp only [if_true]
    exact ⟨h1, h2, h3, by simp only [callSt, callEvent, observedLog_cons_matched, h4, hp]⟩
  | false =>
    simp only [Bool.false_eq_true, if_false]
    exact ⟨h1, h2, h3, by simp only [observedLog_cons_candidate, h4]⟩

/-! ### the simulation -/

section Sim
variable (cfg : Cfg) (hs : cfg.startAt = []) (fn : TFn) (hfn : ∀ p d, fn p d = .same) (root : DM) (s0 : S)
  (hal : ∀ path n s, Reach cfg root s0 path n s → AlignedAt n s ∧ PlainMatch s n)

/-- the induction hypothesis: lock step for every walk fuel below `F` -/
def SimBelow (F : Nat) : Prop :=
  ∀ f, f < F → ∀ past g pw pt n s w t, SRel w t → pathText pw = pathText pt → Reach cfg root s0 pw n s →
    Corr (walkAdv cfg f past pw n s w) (walkT cfg fn g pt n s t)

/-- entering one child: the link step (same decision on both sides), then the level below -/
theorem sim_enter {F : Nat} (IH : SimBelow cfg fn root s0 F) (k : Nat) (hk : k < F) (past : Bool) (g : Nat)
    {pw pt : Path} (hp : pathText pw = pathText pt) {n : DM} {s : S} (hr : Reach cfg root s0 pw n s)
    {a b : Seg} (hab : a.toString = b.toString) {v : DM} (hmem : (a, v) ∈ childList n s) {sNext : S}
    (hx : explore s n a = .ok (some sNext)) {w t : St} (hst : SRel w t) :
    Corr (enterChild cfg k past (pw ++ [a]) v sNext w)
      (match v with
        | .link c =>
          match linkStep cfg c t with
          | (st', .error e) => (st', .error (.walk e))
          | (st', .ok none) => (st', .ok v)
          | (st', .ok (some blk)) => walkT cfg fn g (pt ++ [b]) blk sNext st'
        | _ => walkT cfg fn g (pt ++ [b]) v sNext t) := by
  have hp' := pathText_snoc hp hab
  cases v with
  | link c =>
    simp only [enterChild]
    obtain ⟨h1, h2⟩ := linkStep_rel cfg c hst
    have hsome := @linkStep_some cfg c w
    generalize linkStep cfg c w = lw at h1 h2 hsome
    generalize linkStep cfg c t = lt at h1 h2
    obtain ⟨w1, rw1⟩ := lw
    obtain ⟨t1, rt1⟩ := lt
    simp only at h1 h2 hsome
    subst h2
    cases rw1 with
    | error e => exact corr_err h1 e
    | ok o =>
      cases o with
      | none => exact corr_ok h1 _
      | some blk =>
        obtain ⟨g1, g2, _⟩ := hsome rfl
        exact IH k hk past g _ _ _ _ _ _ h1 hp' (Reach.link hr hmem hx g1 g2)
  | _ =>
    exact IH k hk past g _ _ _ _ _ _ hst hp' (Reach.child hr hmem hx (fun c h => by cases h))

include hs in
/-- the two loops over aligned child lists -/
theorem sim_loop {F : Nat} (IH : SimBelow cfg fn root s0 F) (g : Nat) {pw pt : Path}
    (hp : pathText pw = pathText pt) {n : DM} {s : S} (hr : Reach cfg root s0 pw n s)
    {lw lt : List (Seg × DM)} (ha : Align n s lw lt) :
    ∀ (k : Nat), k < F → ∀ (lp : Loop) (w t : St), (∀ x ∈ lw, x ∈ childList n s) → SRel w t →
      Corr (walkChildren cfg k pw n s lw lp w)
        (iterate (tChild cfg (walkT cfg fn g) pt n s (interests s)) lt t) := by
  induction ha with
  | nil =>
    intro k _ lp w t _ hst
    cases k with
    | zero => rw [walkChildren_zero]; exact Or.inl rfl
    | succ k => rw [walkChildren_nil, iterate_nil]; exact corr_ok hst _
  | @passW a lw lt hx _ ih =>
    intro k hk lp w t hmem hst
    obtain ⟨a1, a2⟩ := a
    cases k with
    | zero => rw [walkChildren_zero]; exact Or.inl rfl
    | succ k =>
      rw [walkChildren_cons, loopStep_nil cfg hs]
      simp only [Bool.false_eq_true, if_false]
      cases k with
      | zero => rw [exploreChild_zero]; exact Or.inl rfl
      | succ k =>
        rw [exploreChild_succ]
        simp only at hx
        rw [hx]
        simp only [andThen_ok]
        exact ih (k + 1) (by omega) lp w t (fun x hx => hmem x (List.mem_cons_of_mem _ hx)) hst
  | @passT b lw lt hb _ ih =>
    intro k hk lp w t hmem hst
    obtain ⟨b1, b2⟩ := b
    rw [iterate_cons', tChild_pass _ _ _ _ _ _ _ _ _ hb]
    simp only [bindT]
    exact corr_mapT _ (ih k hk lp w t hmem hst)
  | @both a b lw lt hab hv hatt hxx _ ih =>
    intro k hk lp w t hmem hst
    obtain ⟨a1, a2⟩ := a
    obtain ⟨b1, b2⟩ := b
    simp only at hab hv hatt hxx
    subst hv
    cases k with
    | zero => rw [walkChildren_zero]; exact Or.inl rfl
    | succ k =>
      rw [walkChildren_cons, loopStep_nil cfg hs, iterate_cons']
      simp only [Bool.false_eq_true, if_false]
      apply corr_bind
      · cases k with
        | zero => rw [exploreChild_zero]; exact Or.inl rfl
        | succ k =>
          rw [exploreChild_succ, tChild_attended _ _ _ _ _ _ _ _ _ hatt, ← hxx]
          cases hx : explore s n a1 with
          | error e =>
            cases e with
            | error => exact corr_err hst _
            | panic => exact corr_err hst _
          | ok o =>
            cases o with
            | none => exact corr_ok hst _
            | some sNext =>
              exact sim_enter cfg fn root s0 IH k (by omega) _ g hp hr hab (hmem _ (List.mem_cons_self ..)) hx hst
      · intro w' t' v' hst'
        exact corr_mapT _ (ih k (by omega) lp w' t' (fun x hx => hmem x (List.mem_cons_of_mem _ hx)) hst')

theorem alignedAt_iff (n : DM) (s : S) : AlignedAt n s ↔ Align n s (childList n s) (children n) := by
  unfold AlignedAt childList
  cases interests s <;> exact Iff.rfl

include hs hfn hal in
theorem sim_all : ∀ (F : Nat), SimBelow cfg fn root s0 F := by
  intro F
  induction F with
  | zero => intro f hf; omega
  | succ F IH =>
    intro f hf past g pw pt n s w t hst hp hr
    by_cases hlt : f < F
    · exact IH f hlt past g pw pt n s w t hst hp hr
    · have hfF : f = F := by omega
      subst hfF
      cases f with
      | zero => rw [walkAdv_zero]; exact Or.inl rfl
      | succ f =>
        cases g with
        | zero => rw [walkT_zero]; exact Or.inr (Or.inl rfl)
        | succ g =>
          obtain ⟨hA, hM⟩ := hal pw n s hr
          rw [walkAdv_succ, walkT_succ]
          rcases checkNode_rel hst with ⟨e, h1, h2⟩ | ⟨w1, t1, h1, h2, hst1⟩
          · rw [h1, h2]; exact corr_err hst e
          · rw [h1, h2]
            simp only
            rw [tBody_eq]
            by_cases hi : isInterp s = true
            · rw [if_pos hi, if_pos hi]; exact corr_err hst1 _
            · rw [if_neg hi, if_neg hi, visitSt_nil cfg hs]
              have hv := visit_rel hst1 hp hM
              have key : ∀ (w2 t2 : St), SRel w2 t2 →
                  Corr (if (!isRecursive n) = true then (w2, .ok ())
                      else walkChildren cfg f pw n s (childList n s) { past := past } w2)
                    (descend cfg (walkT cfg fn g) pt n s t2) := by
                intro w2 t2 hv
                unfold descend
                by_cases hrec : isRecursive n = true
                · rw [if_pos hrec]
                  simp only [hrec, Bool.not_true, Bool.false_eq_true, if_false]
                  unfold iterateNode
                  have hl := sim_loop cfg hs fn root s0 IH g hp hr ((alignedAt_iff n s).1 hA) f (by omega)
                    { past := past } w2 t2 (fun x hx => hx) hv
                  have hl' := corr_mapT (rebuild n) hl
                  generalize iterate (tChild cfg (walkT cfg fn g) pt n s (interests s)) (children n) t2 = r at hl' ⊢
                  rcases r with ⟨st', e | out⟩ <;> exact hl'
                · rw [if_neg hrec]
                  simp only [hrec, Bool.not_false, if_true]
                  exact corr_ok hv _
              rw [hfn pt n]
              simp only
              cases hd : decideNode s n
              · rw [hd] at hv
                simp only [Bool.false_eq_true, if_false] at hv ⊢
                exact key _ _ hv
              · rw [hd] at hv
                simp only [if_true] at hv ⊢
                exact key _ _ hv

end Sim

/-! ### what the lock step means for the two logs -/

/-- the matched visits of a log, paths as text -/
def obsCalls (es : List Event) : List (List Bytes × DM) :=
  es.filterMap fun e => match e with
    | .visit p n .matched => some (pathText p, n)
    | _ => none

theorem pathText_str (l : List Bytes) : pathText (l.map .str) = l := by
  simp [pathText, List.map_map, Function.comp_def, Seg.toString]

theorem callTexts_matchesOf : ∀ (es : List Event), callTexts (matchesOf es) = obsCalls es
  | [] => rfl
  | e :: es => by
    have ih := callTexts_matchesOf es
    unfold callTexts matchesOf obsCalls at ih ⊢
    cases e with
    | load c => simpa using ih
    | visit p n r => cases r <;> simpa using ih

theorem obsCalls_observedLog : ∀ (es : List Event), obsCalls (observedLog es) = obsCalls es
  | [] => rfl
  | e :: es => by
    have ih := obsCalls_observedLog es
    cases e with
    | load c =>
      rw [observedLog_cons_load]
      simpa [obsCalls] using ih
    | visit p n r =>
      cases r with
      | matched =>
        rw [observedLog_cons_matched]
        simp only [obsCalls, List.filterMap_cons, pathText_str] at ih ⊢
        rw [ih]
      | candidate =>
        rw [observedLog_cons_candidate]
        simpa [obsCalls] using ih

theorem loadsOf_observedLog : ∀ (es : List Event), loadsOf (observedLog es) = loadsOf es
  | [] => rfl
  | e :: es => by
    have ih := loadsOf_observedLog es
    cases e with
    | load c =>
      rw [observedLog_cons_load]
      simpa [loadsOf] using ih
    | visit p n r =>
      cases r with
      | matched =>
        rw [observedLog_cons_matched]
        simpa [loadsOf] using ih
      | candidate =>
        rw [observedLog_cons_candidate]
        simpa [loadsOf] using ih

theorem observedLog_reverse (es : List Event) : observedLog es.reverse = (observedLog es).reverse := by
  unfold observedLog
  rw [List.filterMap_reverse]

/-- the whole runs, from the root: in lock step unless one ran out of fuel -/
theorem run_corr (cfg : Cfg) (hs : cfg.startAt = []) (fn : TFn) (hfn : ∀ p d, fn p d = .same) (root : DM) (s : S)
    (hal : ∀ path n s', Reach cfg root s path n s' → AlignedAt n s' ∧ PlainMatch s' n)
    (f g : Nat) (nb lb : Option Int)
    (hf : (walk cfg f nb lb root s).outcome ≠ .error .fuel)
    (hg : (run cfg fn g nb lb root s).outcome ≠ .error (.walk .fuel)) :
    SRel (walk cfg f nb lb root s).st (run cfg fn g nb lb root s).st ∧
      OutRel (walk cfg f nb lb root s).outcome (run cfg fn g nb lb root s).outcome := by
  have h := sim_all cfg hs fn hfn root s hal (f + 1) f (by omega) false g [] [] root s
    { nodeBudget := nb, linkBudget := lb } { nodeBudget := nb, linkBudget := lb } (SRel.rfl' _) rfl Reach.root
  unfold walk at hf ⊢
  unfold run at hg ⊢
  rcases h with h | h | h
  · exact absurd h hf
  · exact absurd h hg
  · exact h

end WalkT
end Ipld
