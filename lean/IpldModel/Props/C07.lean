/-
  C07 — selectors and the walk: slice bounds, what is visited and matched, visiting order, unions and the
  recursion limit.  Property theorems only.
-/
import IpldModel.Lemmas.SliceBounds
import IpldModel.Lemmas.WalkOrder
import IpldModel.Lemmas.WalkNodup2
import IpldModel.Lemmas.WalkExamples
namespace Ipld.Props.C07
open Ipld Ipld.Sel Ipld.Walk

/-! ### slice bounds -/

/-- The Go `sliceBounds` (translated from the source, with wrapping int64 arithmetic) computes the model's
    `sliceBounds` for all int64 arguments with a non-negative length: no intermediate sum wraps. -/
theorem slice_bounds_src (from_ to length : Int) (hf : inI64 from_) (ht : inI64 to) (hl : inI64 length)
    (h0 : 0 ≤ length) : Generated.sliceBounds_src from_ to length = Sel.sliceBounds from_ to length :=
  sliceBounds_src_eq from_ to length hf ht hl h0

/-- A successful `sliceBounds` gives a non-empty-able window inside `[0, len]` starting before the end. -/
theorem slice_bounds_ok {f t len a z : Int} (h : sliceBounds f t len = (true, a, z)) :
    0 ≤ a ∧ a ≤ z ∧ z ≤ len ∧ a < len :=
  sliceBounds_true h

/-- A failed `sliceBounds` returns zeros. -/
theorem slice_bounds_fail {f t len a z : Int} (h : sliceBounds f t len = (false, a, z)) : a = 0 ∧ z = 0 :=
  sliceBounds_false h

/-- `sliceBounds` always answers `(false, 0, 0)` for an empty string. -/
theorem slice_bounds_empty (f t : Int) : sliceBounds f t 0 = (false, 0, 0) := by
  cases h : sliceBounds f t 0 with
  | mk ok az =>
    obtain ⟨a, z⟩ := az
    cases ok with
    | true => have := sliceBounds_true h; omega
    | false => obtain ⟨rfl, rfl⟩ := sliceBounds_false h; rfl

/-! ### what is visited, what is matched -/

/-- Events only grow: `walkAdv` leaves the log it was given untouched and prepends to it (the log is kept
    most-recent-first). -/
theorem events_extend (cfg : Cfg) (fuel : Nat) (past : Bool) (path : Path) (n : DM) (s : S) (st : St) :
    ∃ new, (walkAdv cfg fuel past path n s st).1.events = new ++ st.events :=
  Walk.events_extend cfg fuel past path n s st

/-- Every event of a walk is a link load, or the visit event of a position (path, node, selector) the walk
    can reach from the root: matched with `Match`'s result if the selector at that position matches the node
    there, candidate with the node itself otherwise. -/
theorem visit_is_visitEvent (cfg : Cfg) (fuel : Nat) (nb lb : Option Int) (root : DM) (s : S) (e : Event)
    (he : e ∈ (walk cfg fuel nb lb root s).events) :
    (∃ c, e = .load c) ∨ ∃ path n' s', Reach cfg root s path n' s' ∧
      e = (match matchNode s' n' with
            | some m => .visit path m .matched
            | none => .visit path n' .candidate) :=
  walk_events_ok cfg fuel nb lb root s e he

/-- `WalkMatching` hears exactly of the matched visits (a filter of the log), and each of them carries what
    `Match` returned for the selector and node at a reachable position with that path. -/
theorem matching_is_filter (cfg : Cfg) (fuel : Nat) (nb lb : Option Int) (root : DM) (s : S) (p : Path) (m : DM) :
    (p, m) ∈ matchesOf (walk cfg fuel nb lb root s).events ↔
      .visit p m .matched ∈ (walk cfg fuel nb lb root s).events := by
  unfold matchesOf
  rw [List.mem_filterMap]
  constructor
  · rintro ⟨e, he, h⟩
    cases e with
    | load c => simp at h
    | visit q n r =>
      cases r with
      | matched => simp only [Option.some.injEq, Prod.mk.injEq] at h; obtain ⟨rfl, rfl⟩ := h; exact he
      | candidate => simp at h
  · intro h; exact ⟨_, h, rfl⟩

/-- A matched visit carries `Match(n')` for the selector `s'` and node `n'` at a reachable position. -/
theorem matched_is_match (cfg : Cfg) (fuel : Nat) (nb lb : Option Int) (root : DM) (s : S) (p : Path) (m : DM)
    (h : .visit p m .matched ∈ (walk cfg fuel nb lb root s).events) :
    ∃ n' s', Reach cfg root s p n' s' ∧ matchNode s' n' = some m := by
  rcases walk_events_ok cfg fuel nb lb root s _ h with ⟨c, hc⟩ | ⟨path, n', s', hr, he⟩
  · cases hc
  · unfold visitEvent at he
    cases hm : matchNode s' n' with
    | some m' => rw [hm] at he; cases he; exact ⟨n', s', hr, hm⟩
    | none => rw [hm] at he; cases he

/-- A candidate visit carries the node at a reachable position whose selector does not match it. -/
theorem candidate_is_node (cfg : Cfg) (fuel : Nat) (nb lb : Option Int) (root : DM) (s : S) (p : Path) (m : DM)
    (h : .visit p m .candidate ∈ (walk cfg fuel nb lb root s).events) :
    ∃ s', Reach cfg root s p m s' ∧ matchNode s' m = none := by
  rcases walk_events_ok cfg fuel nb lb root s _ h with ⟨c, hc⟩ | ⟨path, n', s', hr, he⟩
  · cases hc
  · unfold visitEvent at he
    cases hm : matchNode s' n' with
    | some m' => rw [hm] at he; cases he
    | none => rw [hm] at he; cases he; exact ⟨s', hr, hm⟩

/-! ### order -/

/-- Document order (no start-at path): a visit at `p ++ [seg]` is preceded by a visit at `p`. -/
theorem doc_order (cfg : Cfg) (hs : cfg.startAt = []) (fuel : Nat) (nb lb : Option Int) (root : DM) (s : S)
    (a b : List Event) (p : Path) (seg : Seg) (m : DM) (r : Reason)
    (h : (walk cfg fuel nb lb root s).events = a ++ .visit (p ++ [seg]) m r :: b) :
    ∃ m' r', .visit p m' r' ∈ a := by
  unfold walk at h
  exact docOrdered_chrono _ (walk_docOrdered_rev cfg hs fuel nb lb root s) a b p seg m r h

/-- No path is visited twice (any configuration), provided that at every reachable position the children
    the selector actually explores sit at pairwise distinct segments (`childList n s'` = the children the
    per-node loop runs over: all of them, or the found interests; `explored` = `Explore` returns a selector). -/
theorem visit_paths_nodup (cfg : Cfg) (fuel : Nat) (nb lb : Option Int) (root : DM) (s : S)
    (H : ∀ path n s', Reach cfg root s path n s' →
      (((childList n s').filter (explored n s')).map (·.1)).Nodup) :
    ((visitsOf (walk cfg fuel nb lb root s).events).map (·.1)).Nodup :=
  walk_visit_paths_nodup cfg root s H fuel nb lb

/-- In particular: no path is visited twice when no map (root, store blocks) has a duplicate key and every
    reachable selector's explicit interest list is duplicate-free. -/
theorem visit_paths_nodup_of_noDup (cfg : Cfg) (fuel : Nat) (nb lb : Option Int) (root : DM) (s : S)
    (hroot : root.NoDup) (hstore : ∀ c blk, storeGet cfg.store c = some blk → blk.NoDup)
    (hsel : ∀ path n s', Reach cfg root s path n s' → ∀ l, interests s' = some l → l.Nodup) :
    ((visitsOf (walk cfg fuel nb lb root s).events).map (·.1)).Nodup :=
  walk_visit_paths_nodup' cfg root s hroot hstore hsel fuel nb lb

/-- A union's interest list is duplicate-free (first occurrence of every segment text is kept). -/
theorem union_interests_nodup (ms : SList) (l : List Seg) (h : interests (.union ms) = some l) : l.Nodup :=
  interests_union_nodup ms l h

/-! ### unions and the recursion limit -/

/-- A union matches with its first matching member. -/
theorem union_first_match (ms : SList) (n : DM) :
    matchNode (.union ms) n = ms.toList.findSome? (fun s => matchNode s n) :=
  matchNode_union ms n

/-- A union whose members are all bare recursive edges explores to nothing (no `Explore` is called on them). -/
theorem explore_union_comm_edges (ms : SList) (h : ∀ s ∈ ms.toList, s = .edge) (n : DM) (p : Seg) :
    explore (.union ms) n p = .ok none :=
  explore_union_all_edges ms h n p

/-- With a depth limit below 2 the recursion makes one pass: exploring either stays inside the current pass
    (same limit, the sequence not substituted) or, on reaching the edges, drops them and leaves an edge-free
    selector outside any recursion wrapper. -/
theorem recursive_limit (sq cur : S) (d : Int) (hd : d < 2) (stop : Option Bytes) (n : DM) (p : Seg)
    (r : S) (h : explore (.recursive sq cur (some d) stop) n p = .ok (some r)) :
    ∃ nx, explore cur n p = .ok (some nx) ∧
      ((hasEdge nx = false ∧ r = .recursive sq nx (some d) stop) ∨
       (hasEdge nx = true ∧ replaceEdge none nx = some r ∧ hasEdge r = false)) :=
  explore_recursive_last_pass sq cur d hd stop n p r h

section Examples
open Ipld.Walk.Ex
example : sliceBounds 1 (-1) 5 = (true, 1, 4) := by decide
example : sliceBounds (-2) 100 5 = (true, 3, 5) := by decide
example : Generated.sliceBounds_src (-9223372036854775808) 9223372036854775807 9223372036854775807
    = (true, 0, 9223372036854775807) := by decide +kernel
/-- the explore-everything walk over the example graph: paths in document order, all matched -/
example : (visitsOf (walk Ex.cfg 20 none none Ex.root selAll).events).map (·.1) =
    [[], [.str [0x61]], [.str [0x61], .idx 0], [.str [0x61], .idx 1], [.str [0x6c]], [.str [0x6c], .str [0x78]]] := by
  decide +kernel
example : (matchesOf (walk Ex.cfg 20 none none Ex.root selAll).events).length = 6 := by decide +kernel
/-- depth limit 1: the root only; depth limit 2: the root and its children (the link is loaded and its block
    visited, not the block's content) -/
example : (visitsOf (walk Ex.cfg 20 none none Ex.root (.recursive seqAll seqAll (some 1) none)).events).map (·.1) =
    [[]] := by decide +kernel
example : (visitsOf (walk Ex.cfg 20 none none Ex.root (.recursive seqAll seqAll (some 2) none)).events).map (·.1) =
    [[], [.str [0x61]], [.str [0x6c]]] := by decide +kernel
/-- a slicing matcher under a field selector -/
example : matchesOf (walk Ex.cfg 20 none none Ex.blk
      (.fields (.cons [0x78] (.matcher (some (1, 2))) .nil))).events = [([.str [0x78]], .str [0x69])] := by
  decide +kernel
/-- the hypothesis of `visit_paths_nodup` is needed: a fields selector listing a key twice (no spec compiles
    to one) visits that field twice -/
example : (visitsOf (walk {} 9 none none (.map (.cons [0x61] (.int 1) .nil))
      (.fields (.cons [0x61] (.matcher none) (.cons [0x61] (.matcher none) .nil)))).events).map (·.1)
    = [[], [.str [0x61]], [.str [0x61]]] := by decide +kernel
end Examples

end Ipld.Props.C07
