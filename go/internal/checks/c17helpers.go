package checks

import (
	"bytes"
	"context"
	"fmt"
	"io"
	"strings"

	"github.com/ipld/go-ipld-prime/storage"

	"verif/internal/core"
)

// C17/C18 — the generic storage helpers (storage/funcs.go) over a fake store whose capabilities are switched on and
// off and whose stream fails at piece k: storage.PutVec, then Get / storage.GetStream / storage.Peek of the key, compared
// with the model (`storehelp.run`, Model/StorageHelpers.lean; theorems Props/C17helpers.lean, Props/C18helpers.lean).
// Oracle: an error return leaves the key as it was; success leaves the concatenation (or what the key already held).

type fakeStore struct {
	m                 map[string][]byte
	failPut, failOpen bool
	failWrite         int // -1: never
}

func (f *fakeStore) Has(_ context.Context, k string) (bool, error) { _, ok := f.m[k]; return ok, nil }
func (f *fakeStore) Get(_ context.Context, k string) ([]byte, error) {
	if v, ok := f.m[k]; ok {
		return v, nil
	}
	return nil, fmt.Errorf("not found")
}
func (f *fakeStore) Put(_ context.Context, k string, v []byte) error {
	if f.failPut {
		return fmt.Errorf("put refused")
	}
	if _, ok := f.m[k]; !ok {
		f.m[k] = append([]byte{}, v...)
	}
	return nil
}

type fakeWriter struct {
	f      *fakeStore
	staged []byte
	n      int
}

func (w *fakeWriter) Write(b []byte) (int, error) {
	w.n++
	if w.n-1 == w.f.failWrite {
		return 0, fmt.Errorf("write %d failed", w.n-1)
	}
	w.staged = append(w.staged, b...)
	return len(b), nil
}
func (f *fakeStore) putStream(ctx context.Context) (io.Writer, func(string) error, error) {
	if f.failOpen {
		return nil, nil, fmt.Errorf("no stream")
	}
	w := &fakeWriter{f: f}
	return w, func(key string) error { return f.Put(ctx, key, w.staged) }, nil
}
func (f *fakeStore) putVec(ctx context.Context, k string, vec [][]byte) error {
	if f.failPut || (f.failWrite >= 0 && f.failWrite < len(vec)) {
		return fmt.Errorf("putvec refused")
	}
	return f.Put(ctx, k, bytes.Join(vec, nil))
}

// one type per capability set: the helpers feature-detect by type assertion
type fakeS struct{ *fakeStore }
type fakeV struct{ *fakeStore }
type fakeSV struct{ *fakeStore }
type fakeG struct{ *fakeStore }
type fakeP struct{ *fakeStore }
type fakeGP struct{ *fakeStore }

func (f fakeS) PutStream(ctx context.Context) (io.Writer, func(string) error, error) {
	return f.putStream(ctx)
}
func (f fakeSV) PutStream(ctx context.Context) (io.Writer, func(string) error, error) {
	return f.putStream(ctx)
}
func (f fakeV) PutVec(ctx context.Context, k string, v [][]byte) error  { return f.putVec(ctx, k, v) }
func (f fakeSV) PutVec(ctx context.Context, k string, v [][]byte) error { return f.putVec(ctx, k, v) }
func (f *fakeStore) getStream(ctx context.Context, k string) (io.ReadCloser, error) {
	b, err := f.Get(ctx, k)
	if err != nil {
		return nil, err
	}
	return io.NopCloser(bytes.NewReader(b)), nil
}
func (f *fakeStore) peek(ctx context.Context, k string) ([]byte, io.Closer, error) {
	b, err := f.Get(ctx, k)
	return b, io.NopCloser(nil), err
}
func (f fakeG) GetStream(ctx context.Context, k string) (io.ReadCloser, error) {
	return f.getStream(ctx, k)
}
func (f fakeGP) GetStream(ctx context.Context, k string) (io.ReadCloser, error) {
	return f.getStream(ctx, k)
}
func (f fakeP) Peek(ctx context.Context, k string) ([]byte, io.Closer, error)  { return f.peek(ctx, k) }
func (f fakeGP) Peek(ctx context.Context, k string) ([]byte, io.Closer, error) { return f.peek(ctx, k) }

func c17Helpers(c *core.Ctx) error {
	r := c.Rand
	ctx := context.Background()
	var lines, impl []string
	for i := 0; i < c.Pick(600, 20000); i++ {
		f := &fakeStore{m: map[string][]byte{}, failWrite: -1}
		caps, faults := "", ""
		var w storage.WritableStorage = f
		switch r.Intn(4) {
		case 1:
			w, caps = fakeS{f}, "s"
		case 2:
			w, caps = fakeV{f}, "v"
		case 3:
			w, caps = fakeSV{f}, "sv"
		}
		var rd storage.ReadableStorage = f
		switch r.Intn(4) {
		case 1:
			rd, caps = fakeG{f}, caps+"g"
		case 2:
			rd, caps = fakeP{f}, caps+"p"
		case 3:
			rd, caps = fakeGP{f}, caps+"gp"
		}
		if r.Chance(1, 5) {
			f.failPut, faults = true, faults+"P"
		}
		if r.Chance(1, 8) {
			f.failOpen, faults = true, faults+"O"
		}
		var vec [][]byte
		for n := r.Intn(5); n > 0; n-- {
			vec = append(vec, r.Bytes(r.Intn(4)))
		}
		if r.Chance(1, 2) {
			f.failWrite = r.Intn(len(vec) + 2)
			faults += fmt.Sprintf("W%d", f.failWrite)
		}
		key := string(r.Bytes(1 + r.Intn(3)))
		pre := "none"
		var before []byte
		if r.Chance(1, 5) {
			before = r.Bytes(r.Intn(3))
			f.m[key] = before
			pre = hexArg(before)
		}
		if caps == "" {
			caps = "-"
		}
		if faults == "" {
			faults = "-"
		}
		toks := []string{"storehelp.run", caps, faults, pre, hexArg([]byte(key))}
		for _, p := range vec {
			toks = append(toks, hexArg(p))
		}
		line := strings.Join(toks, " ")
		err := storage.PutVec(ctx, w, key, vec)
		show := func(b []byte, e error) string {
			if e != nil {
				return "none"
			}
			return hexArg(b)
		}
		got, gerr := f.Get(ctx, key)
		var sb []byte
		rc, serr := storage.GetStream(ctx, rd, key)
		if serr == nil {
			sb, serr = io.ReadAll(rc)
			rc.Close()
		}
		pb, cl, perr := storage.Peek(ctx, rd, key)
		if perr == nil && cl != nil {
			cl.Close()
		}
		res := "ok"
		want := show(bytes.Join(vec, nil), nil)
		if pre != "none" {
			want = pre
		}
		if err != nil {
			res, want = "err", pre
		}
		if show(got, gerr) != want {
			c.Fail("C17/helper-partial-commit", core.Replay{Kind: "oracle", Case: line, Impl: res + " " + show(got, gerr), Expected: res + " " + want,
				Detail: "storage.PutVec: an error return must leave the key as it was, success must store the concatenation of the pieces"})
		}
		if show(sb, serr) != show(got, gerr) || show(pb, perr) != show(got, gerr) {
			c.Fail("C17/get-wrong", core.Replay{Kind: "oracle", Case: line, Impl: show(sb, serr) + " " + show(pb, perr), Expected: show(got, gerr),
				Detail: "storage.GetStream / storage.Peek differ from Get"})
		}
		lines = append(lines, line)
		impl = append(impl, res+" "+show(got, gerr)+" "+show(sb, serr)+" "+show(pb, perr))
		c.Count(line, len(vec) >= 2)
		c.Dist("storage-helpers:" + res)
	}
	outs, err := core.RunDriver(lines)
	if err != nil {
		return err
	}
	for i := range lines {
		c.Trace(1)
		if outs[i] != impl[i] {
			c.Fail("C17/corr-storage-helpers", core.Replay{Kind: "correspondence", Case: lines[i], Impl: impl[i], Model: outs[i],
				Detail: "storage.PutVec / GetStream / Peek over a fake store differ from the model of storage/funcs.go"})
		}
	}
	return nil
}
