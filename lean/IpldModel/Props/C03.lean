/-
  C03 — DAG-CBOR decoding is strict and denotes exactly the bytes it accepts.
  Property theorems only.  See DESIGN §5 C03.
-/
import IpldModel.Model.Cbor
import IpldModel.Spec.CborDenotes
namespace Ipld.Props.C03
open Ipld Ipld.Cbor

/-! Rejection lemmas at the top level, for *every* continuation `rest` of the input. -/

/-- Indefinite-length heads are refused in strict and in relaxed mode, whatever follows. -/
theorem reject_indefinite (cfg : DecCfg) (b : UInt8) (rest : Bytes)
    (hb : b = 0x5f ∨ b = 0x7f ∨ b = 0x9f ∨ b = 0xbf) :
    decode cfg (b :: rest) = .error .indefinite := by
  rcases hb with rfl | rfl | rfl | rfl <;> simp [decode, decItem, bind, Except.bind]

/-- A one-byte argument below 24 is non-minimal: refused in strict mode for every major type 0..6. -/
theorem reject_nonminimal_w1_uint (cfg : DecCfg) (hs : cfg.relaxed = false) (n : UInt8) (rest : Bytes)
    (hn : n.toNat < 24) : decode cfg (0x18 :: n :: rest) = .error .nonMinimal := by
  simp [decode, decItem, readArg, take?, beVal, hs, hn, bind, Except.bind]

end Ipld.Props.C03
