/-
  C16 helper lemmas: `focused` (the model of Go's `focusedTransform`) against a reference
  functional update `updateAt`, defined by recursion on the path and independent of the model's
  control flow.
-/
import IpldModel.Model.Transform
import IpldModel.Spec.CborLimits
namespace Ipld
namespace Transform
open Sel Walk

/-! ## Reference: resolving a path without crossing links, and functional update -/

/-- Resolve `path` from `n` by `LookupBySegment` alone.  A link on the way (anywhere but at the very
    end) makes it `none`, as does a missing key / index: so `getPlain root path = some target` says
    "the target exists and no link is crossed to reach it".  The target itself may be a link. -/
def getPlain : DM → Path → Option DM
  | n, [] => some n
  | n, seg :: rest =>
    match lookupBySegment n seg with
    | none => none
    | some c => getPlain c rest

/-- Replace (`some v`) or remove (`none`) the first entry with key `k`; every other entry is kept, in
    order.  A missing key changes nothing. -/
def setEntry : List (Bytes × DM) → Bytes → Option DM → List (Bytes × DM)
  | [], _, _ => []
  | (k', v') :: es, k, r =>
    if k' = k then (match r with | some v => (k', v) :: es | none => es)
    else (k', v') :: setEntry es k r

/-- Replace / remove the child of `n` at `seg` (a map entry by key, a list element by index). -/
def setChild (n : DM) (seg : Seg) (r : Option DM) : DM :=
  match n with
  | .map es => .map (DMKVs.ofList (setEntry es.toList seg.toString r))
  | .list xs =>
    match seg.index with
    | some i => .list (DMs.ofList (xs.toList.take i.toNat ++ r.toList ++ xs.toList.drop (i.toNat + 1)))
    | none => n
  | d => d

/-- The tree with the node at `path` replaced by `r` (removed if `r = none`); `none` only if the root
    itself is removed.  Meaningful for paths that `getPlain` resolves; elsewhere it returns the tree. -/
def updateAt : DM → Path → Option DM → Option DM
  | _, [], r => r
  | n, seg :: p2, r =>
    match lookupBySegment n seg with
    | none => some n
    | some child => some (setChild n seg (updateAt child p2 r))

/-! ## Small facts -/

theorem keyMatches_eq (k : Bytes) (seg : Seg) : keyMatches k seg = (k == seg.toString) := by
  cases seg <;> simp [keyMatches, Seg.equals, Seg.toString]

theorem keyMatches_fun (seg : Seg) :
    (fun e : Bytes × DM => keyMatches e.1 seg) = (fun e => e.1 == seg.toString) := by
  funext e; exact keyMatches_eq e.1 seg

theorem focusedMapSet_noMatch (seg : Seg) (r : Option DM) :
    ∀ (l : List (Bytes × DM)), (∀ e ∈ l, e.1 ≠ seg.toString) → focusedMapSet l seg r = l
  | [], _ => rfl
  | e :: l, h => by
    have h1 : e.1 ≠ seg.toString := h e (by simp)
    have ih := focusedMapSet_noMatch seg r l (fun e' he' => h e' (by simp [he']))
    unfold focusedMapSet at ih ⊢
    simp only [List.filterMap_cons, keyMatches_eq]
    have : (e.1 == seg.toString) = false := by simpa using h1
    simp only [this, Bool.false_eq_true, if_false]
    simp only [keyMatches_eq] at ih
    rw [ih]

/-- With distinct keys the loop that rewrites every matching entry rewrites exactly the first one. -/
theorem focusedMapSet_eq_setEntry (seg : Seg) (r : Option DM) :
    ∀ (l : List (Bytes × DM)), (l.map (·.1)).Nodup → focusedMapSet l seg r = setEntry l seg.toString r
  | [], _ => rfl
  | (k', v') :: l, h => by
    simp only [List.map_cons, List.nodup_cons] at h
    by_cases hk : k' = seg.toString
    · have hno : ∀ e ∈ l, e.1 ≠ seg.toString := by
        intro e he heq
        exact h.1 (by rw [hk, ← heq]; exact List.mem_map_of_mem he)
      have ht := focusedMapSet_noMatch seg r l hno
      unfold focusedMapSet at ht ⊢
      simp only [List.filterMap_cons, keyMatches_eq, setEntry, hk, beq_self_eq_true, if_true]
      simp only [keyMatches_eq] at ht
      cases r with
      | none => simp only [Option.map_none]; exact ht
      | some v => simp only [Option.map_some] at ht ⊢; rw [ht]
    · have ih := focusedMapSet_eq_setEntry seg r l h.2
      unfold focusedMapSet at ih ⊢
      have : (k' == seg.toString) = false := by simpa using hk
      simp only [List.filterMap_cons, keyMatches_eq, setEntry, hk, this, Bool.false_eq_true, if_false]
      simp only [keyMatches_eq] at ih
      rw [ih]

theorem setEntry_self : ∀ (l : List (Bytes × DM)) (k : Bytes) (e : Bytes × DM),
    l.find? (fun e => e.1 == k) = some e → setEntry l k (some e.2) = l
  | [], _, _, h => by simp at h
  | (k', v') :: l, k, e, h => by
    by_cases hk : k' = k
    · simp only [List.find?_cons, hk, beq_self_eq_true] at h
      injection h with h; subst h
      simp only [setEntry, hk, if_true]
    · have : (k' == k) = false := by simpa using hk
      simp only [List.find?_cons, this] at h
      simp only [setEntry, hk, if_false, setEntry_self l k e h]

/-! ## NoDup is inherited by children -/

theorem noDupVals_mem : ∀ (es : DMKVs), es.NoDupVals → ∀ e ∈ es.toList, e.2.NoDup
  | .nil, _, e, he => by simp [DMKVs.toList] at he
  | .cons k v es, h, e, he => by
    simp only [DMKVs.NoDupVals] at h
    simp only [DMKVs.toList, List.mem_cons] at he
    rcases he with rfl | he
    · exact h.1
    · exact noDupVals_mem es h.2 e he

theorem noDupList_mem : ∀ (xs : DMs), xs.NoDup → ∀ x ∈ xs.toList, x.NoDup
  | .nil, _, x, hx => by simp [DMs.toList] at hx
  | .cons y ys, h, x, hx => by
    simp only [DMs.NoDup] at h
    simp only [DMs.toList, List.mem_cons] at hx
    rcases hx with rfl | hx
    · exact h.1
    · exact noDupList_mem ys h.2 x hx

theorem lookup_noDup {n : DM} {seg : Seg} {child : DM} (hn : n.NoDup)
    (h : lookupBySegment n seg = some child) : child.NoDup := by
  cases n with
  | map es =>
    simp only [lookupBySegment] at h
    cases hf : es.toList.find? (fun e => e.1 == seg.toString) with
    | none => simp [hf] at h
    | some e =>
      simp only [hf, Option.map_some] at h
      injection h with h; subst h
      simp only [DM.NoDup] at hn
      exact noDupVals_mem es hn.2 e (List.mem_of_find?_eq_some hf)
  | list xs =>
    simp only [lookupBySegment] at h
    cases hi : seg.index with
    | none => simp [hi] at h
    | some i =>
      simp only [hi] at h
      split at h
      · cases h
      · simp only [DM.NoDup] at hn
        exact noDupList_mem xs hn child (List.mem_of_getElem? h)
  | _ => simp [lookupBySegment] at h

theorem getPlain_noDup : ∀ (path : Path) (root target : DM), root.NoDup →
    getPlain root path = some target → target.NoDup
  | [], root, target, hn, h => by
    simp only [getPlain] at h; injection h with h; subst h; exact hn
  | seg :: rest, root, target, hn, h => by
    simp only [getPlain] at h
    cases hl : lookupBySegment root seg with
    | none => simp [hl] at h
    | some c =>
      simp only [hl] at h
      exact getPlain_noDup rest c target (lookup_noDup hn hl) h

/-! ## One step of `focused` -/

section steps
variable (fn : Fn) (linkOf : DM → Bytes) (canon : DM → DM) (cp : Bool)

/-- What `focused` does with the result of a recursive call: errors pass, a nil result is an error,
    a value is put in place by `k`. -/
def wrap (r : TR (Option DM)) (k : DM → TSt → Option DM × TSt) : TR (Option DM) :=
  match r with
  | .error e => .error e
  | .ok (none, _) => .error .nilEntry
  | .ok (some v, st') => .ok (k v st')

theorem focused_nil (fuel : Nat) (at_ : Path) (n : Option DM) (st : TSt) :
    focused fn linkOf canon cp (fuel + 1) at_ n [] st = .ok (fn at_ n, st) := by
  simp only [focused]

/-- The keys of the node, if it is a map, are distinct. -/
def KeysNodup : DM → Prop
  | .map es => es.keys.Nodup
  | _ => True

theorem keysNodup_of_noDup {n : DM} (h : n.NoDup) : KeysNodup n := by
  cases n <;> simp only [KeysNodup]
  simp only [DM.NoDup] at h; exact h.1

/-- Last segment, existing child: the callback sees the child, its answer replaces / removes it. -/
theorem focused_last (fuel : Nat) (at_ : Path) (n : DM) (seg : Seg) (child : DM) (st : TSt)
    (hk : KeysNodup n) (hl : lookupBySegment n seg = some child) :
    focused fn linkOf canon cp (fuel + 1) at_ (some n) [seg] st =
      .ok (some (setChild n seg (fn (at_ ++ [seg]) (some child))), st) := by
  cases n with
  | map es =>
    have hl' := hl
    simp only [lookupBySegment] at hl
    cases hf : es.toList.find? (fun e => e.1 == seg.toString) with
    | none => simp [hf] at hl
    | some e =>
      simp only [focused, keyMatches_fun, hf, List.isEmpty_nil, if_true, hl']
      simp only [KeysNodup, DMKVs.keys] at hk
      rw [focusedMapSet_eq_setEntry seg _ _ hk]
      rfl
  | list xs =>
    simp only [lookupBySegment] at hl
    cases hi : seg.index with
    | none => simp [hi] at hl
    | some i =>
      simp only [hi] at hl
      split at hl
      · cases hl
      · rename_i hneg
        have hlt : i.toNat < xs.toList.length := by
          by_cases hc : i.toNat < xs.toList.length
          · exact hc
          · rw [List.getElem?_eq_none (by omega)] at hl; cases hl
        have hv : xs.toList.getD i.toNat .null = child := by
          simp [List.getD, hl]
        have hcond : 0 ≤ i ∧ i.toNat < xs.toList.length := ⟨by omega, hlt⟩
        simp only [focused, hi, hcond, and_self, if_true, List.isEmpty_nil, hv, setChild]
        cases fn (at_ ++ [seg]) (some child) with
        | none => simp
        | some v' => simp
  | _ => simp [lookupBySegment] at hl

/-- A segment in the middle of the path, existing child: recurse into the child, put the result back. -/
theorem focused_step (fuel : Nat) (at_ : Path) (n : DM) (seg : Seg) (p2 : Path) (child : DM) (st : TSt)
    (hp : p2 ≠ []) (hk : KeysNodup n) (hl : lookupBySegment n seg = some child) :
    focused fn linkOf canon cp (fuel + 1) at_ (some n) (seg :: p2) st =
      wrap (focused fn linkOf canon cp fuel (at_ ++ [seg]) (some child) p2 st)
        (fun v st' => (some (setChild n seg (some v)), st')) := by
  have hpe : p2.isEmpty = false := by cases p2 <;> simp_all
  cases n with
  | map es =>
    simp only [lookupBySegment] at hl
    cases hf : es.toList.find? (fun e => e.1 == seg.toString) with
    | none => simp [hf] at hl
    | some e =>
      simp only [hf, Option.map_some] at hl
      injection hl with hl
      simp only [focused, keyMatches_fun, hf, hpe, Bool.false_eq_true, if_false, hl, wrap, setChild]
      simp only [KeysNodup, DMKVs.keys] at hk
      cases focused fn linkOf canon cp fuel (at_ ++ [seg]) (some child) p2 st with
      | error e => rfl
      | ok q =>
        obtain ⟨o, st'⟩ := q
        cases o with
        | none => rfl
        | some v => simp only [focusedMapSet_eq_setEntry seg _ _ hk]
  | list xs =>
    simp only [lookupBySegment] at hl
    cases hi : seg.index with
    | none => simp [hi] at hl
    | some i =>
      simp only [hi] at hl
      split at hl
      · cases hl
      · rename_i hneg
        have hlt : i.toNat < xs.toList.length := by
          by_cases hc : i.toNat < xs.toList.length
          · exact hc
          · rw [List.getElem?_eq_none (by omega)] at hl; cases hl
        have hv : xs.toList.getD i.toNat .null = child := by
          simp [List.getD, hl]
        have hcond : 0 ≤ i ∧ i.toNat < xs.toList.length := ⟨by omega, hlt⟩
        simp only [focused, hi, hcond, and_self, if_true, hpe, Bool.false_eq_true, if_false, hv, setChild, wrap]
        cases focused fn linkOf canon cp fuel (at_ ++ [seg]) (some child) p2 st with
        | error e => rfl
        | ok q =>
          obtain ⟨o, st'⟩ := q
          cases o with
          | none => rfl
          | some v => simp
  | _ => simp [lookupBySegment] at hl

/-- A link with more path to go: load the block, transform it, store the changed block (as the codec
    writes it) under its new link, return that link. -/
theorem focused_link (fuel : Nat) (at_ : Path) (c : Bytes) (seg : Seg) (p2 : Path) (st : TSt) (blk : DM)
    (hs : storeGet st.store c = some blk) :
    focused fn linkOf canon cp (fuel + 1) at_ (some (.link c)) (seg :: p2) st =
      wrap (focused fn linkOf canon cp fuel at_ (some blk) (seg :: p2) st)
        (fun blk0 st' => (some (.link (linkOf (canon blk0))),
          { store := (linkOf (canon blk0), canon blk0) :: st'.store,
            written := (linkOf (canon blk0), canon blk0) :: st'.written })) := by
  simp only [focused, hs, wrap]
  cases focused fn linkOf canon cp fuel at_ (some blk) (seg :: p2) st with
  | error e => rfl
  | ok q =>
    obtain ⟨o, st'⟩ := q
    cases o <;> rfl

/-! ## Along an existing, link-free prefix -/

theorem updateAt_cons {n : DM} {seg : Seg} {child : DM} (p2 : Path) (r : Option DM)
    (hl : lookupBySegment n seg = some child) :
    updateAt n (seg :: p2) r = some (setChild n seg (updateAt child p2 r)) := by
  simp only [updateAt, hl]

/-- **Prefix lemma.**  If `pre` resolves from `root` to `mid` without crossing a link and more path
    follows, `focused` on `root` is `focused` on `mid` (at position `at_ ++ pre`, with `pre.length` less
    fuel) with the result put back at `pre`; errors and the store pass through unchanged. -/
theorem focused_prefix : ∀ (pre : Path) (root mid : DM) (at_ rest : Path) (k : Nat) (st : TSt),
    pre ≠ [] → rest ≠ [] → root.NoDup → getPlain root pre = some mid →
    focused fn linkOf canon cp (pre.length + k) at_ (some root) (pre ++ rest) st =
      wrap (focused fn linkOf canon cp k (at_ ++ pre) (some mid) rest st)
        (fun v st' => (updateAt root pre (some v), st'))
  | [], _, _, _, _, _, _, h, _, _, _ => absurd rfl h
  | seg :: pre', root, mid, at_, rest, k, st, _, hr, hn, hg => by
    simp only [getPlain] at hg
    cases hl : lookupBySegment root seg with
    | none => simp [hl] at hg
    | some child =>
      simp only [hl] at hg
      have hf : (seg :: pre').length + k = (pre'.length + k) + 1 := by simp only [List.length_cons]; omega
      have hne : pre' ++ rest ≠ [] := by simp [hr]
      rw [hf, List.cons_append,
        focused_step fn linkOf canon cp _ at_ root seg (pre' ++ rest) child st hne (keysNodup_of_noDup hn) hl]
      by_cases hp : pre' = []
      · subst hp
        simp only [getPlain] at hg
        injection hg with hg; subst hg
        simp only [List.nil_append, List.length_nil, Nat.zero_add, updateAt, hl]
      · rw [focused_prefix pre' child mid (at_ ++ [seg]) rest k st hp hr (lookup_noDup hn hl) hg]
        have ha : at_ ++ [seg] ++ pre' = at_ ++ seg :: pre' := by simp
        rw [ha]
        cases focused fn linkOf canon cp k (at_ ++ seg :: pre') (some mid) rest st with
        | error e => rfl
        | ok q =>
          obtain ⟨o, st'⟩ := q
          cases o with
          | none => rfl
          | some v =>
            simp only [wrap, updateAt_cons _ _ hl]
            obtain ⟨seg2, pre2, rfl⟩ : ∃ a b, pre' = a :: b := by
              cases pre' with
              | nil => exact absurd rfl hp
              | cons a b => exact ⟨a, b, rfl⟩
            simp only [getPlain] at hg
            cases hl2 : lookupBySegment child seg2 with
            | none => simp [hl2] at hg
            | some c2 => simp only [updateAt_cons _ _ hl2]

/-! ## Existing target, no link crossed: `focused` is the functional update -/

theorem focused_eq_updateAt : ∀ (path : Path) (root target : DM) (at_ : Path) (fuel : Nat) (st : TSt),
    root.NoDup → getPlain root path = some target → path.length < fuel →
    focused fn linkOf canon cp fuel at_ (some root) path st =
      .ok (updateAt root path (fn (at_ ++ path) (some target)), st)
  | [], root, target, at_, fuel, st, _, hg, hf => by
    obtain ⟨f, rfl⟩ : ∃ f, fuel = f + 1 := ⟨fuel - 1, by simp only [List.length_nil] at hf; omega⟩
    simp only [getPlain] at hg
    injection hg with hg; subst hg
    simp only [focused_nil, updateAt, List.append_nil]
  | [seg], root, target, at_, fuel, st, hn, hg, hf => by
    obtain ⟨f, rfl⟩ : ∃ f, fuel = f + 1 := ⟨fuel - 1, by simp only [List.length_cons] at hf; omega⟩
    simp only [getPlain] at hg
    cases hl : lookupBySegment root seg with
    | none => simp [hl] at hg
    | some child =>
      simp only [hl] at hg
      injection hg with hg; subst hg
      rw [focused_last fn linkOf canon cp f at_ root seg child st (keysNodup_of_noDup hn) hl,
        updateAt_cons _ _ hl]
      simp only [updateAt]
  | seg :: seg2 :: p3, root, target, at_, fuel, st, hn, hg, hf => by
    obtain ⟨f, rfl⟩ : ∃ f, fuel = f + 1 := ⟨fuel - 1, by simp only [List.length_cons] at hf; omega⟩
    have hg0 := hg
    simp only [getPlain] at hg
    cases hl : lookupBySegment root seg with
    | none => simp [hl] at hg
    | some child =>
      simp only [hl] at hg
      cases hl2 : lookupBySegment child seg2 with
      | none => simp [hl2] at hg
      | some c2 =>
        have hg' : getPlain child (seg2 :: p3) = some target := by
          simp only [getPlain, hl2]; simpa [hl2] using hg
        rw [focused_step fn linkOf canon cp f at_ root seg (seg2 :: p3) child st (by simp)
          (keysNodup_of_noDup hn) hl,
          focused_eq_updateAt (seg2 :: p3) child target (at_ ++ [seg]) f st (lookup_noDup hn hl) hg'
            (by simp only [List.length_cons] at hf ⊢; omega)]
        have ha : at_ ++ [seg] ++ seg2 :: p3 = at_ ++ seg :: seg2 :: p3 := by simp
        rw [ha, updateAt_cons _ _ hl, updateAt_cons _ _ hl2]
        rfl

end steps

/-! ## `updateAt` with what is already there is the identity -/

theorem list_take_cons_drop {α : Type} : ∀ (l : List α) (i : Nat) (c : α), l[i]? = some c →
    l.take i ++ [c] ++ l.drop (i + 1) = l
  | [], i, c, h => by simp at h
  | a :: l, 0, c, h => by simp at h; simp [h]
  | a :: l, i + 1, c, h => by
    simp only [List.getElem?_cons_succ] at h
    have := list_take_cons_drop l i c h
    simp only [List.take_succ_cons, List.drop_succ_cons, List.cons_append] at this ⊢
    rw [this]

theorem setChild_self {n : DM} {seg : Seg} {child : DM} (hl : lookupBySegment n seg = some child) :
    setChild n seg (some child) = n := by
  cases n with
  | map es =>
    simp only [lookupBySegment] at hl
    cases hf : es.toList.find? (fun e => e.1 == seg.toString) with
    | none => simp [hf] at hl
    | some e =>
      simp only [hf, Option.map_some] at hl
      injection hl with hl; subst hl
      simp only [setChild, setEntry_self _ _ _ hf, DMKVs.ofList_toList]
  | list xs =>
    simp only [lookupBySegment] at hl
    cases hi : seg.index with
    | none => simp [hi] at hl
    | some i =>
      simp only [hi] at hl
      split at hl
      · cases hl
      · simp only [setChild, hi, Option.toList_some, list_take_cons_drop _ _ _ hl, DMs.ofList_toList]
  | _ => simp [lookupBySegment] at hl

theorem updateAt_self : ∀ (path : Path) (root target : DM), getPlain root path = some target →
    updateAt root path (some target) = some root
  | [], root, target, hg => by
    simp only [getPlain] at hg; simp only [updateAt, hg]
  | seg :: p2, root, target, hg => by
    simp only [getPlain] at hg
    cases hl : lookupBySegment root seg with
    | none => simp [hl] at hg
    | some child =>
      simp only [hl] at hg
      rw [updateAt_cons _ _ hl, updateAt_self p2 child target hg, setChild_self hl]

/-! ## Entries off the segment are untouched, in order (B3) -/

theorem focusedMapSet_others (seg : Seg) (r : Option DM) : ∀ (l : List (Bytes × DM)),
    (focusedMapSet l seg r).filter (fun e => !keyMatches e.1 seg) = l.filter (fun e => !keyMatches e.1 seg)
  | [] => rfl
  | e :: l => by
    have ih := focusedMapSet_others seg r l
    unfold focusedMapSet at ih ⊢
    simp only [List.filterMap_cons]
    by_cases hm : keyMatches e.1 seg = true
    · simp only [hm, if_true, List.filter_cons, Bool.not_true, Bool.false_eq_true, if_false]
      cases r with
      | none => simpa using ih
      | some v => simp only [Option.map_some, List.filter_cons, hm, Bool.not_true, Bool.false_eq_true, if_false]; exact ih
    · have hm' : keyMatches e.1 seg = false := by simpa using hm
      simp only [hm', Bool.false_eq_true, if_false, List.filter_cons, Bool.not_false, if_true, ih]

theorem focusedMapSet_matching (seg : Seg) (v : DM) : ∀ (l : List (Bytes × DM)),
    (focusedMapSet l seg (some v)).filter (fun e => keyMatches e.1 seg) =
      (l.filter (fun e => keyMatches e.1 seg)).map (fun e => (e.1, v))
  | [] => rfl
  | e :: l => by
    have ih := focusedMapSet_matching seg v l
    unfold focusedMapSet at ih ⊢
    simp only [Option.map_some] at ih ⊢
    simp only [List.filterMap_cons]
    by_cases hm : keyMatches e.1 seg = true
    · simp only [hm, if_true, List.filter_cons, List.map_cons, ih]
    · have hm' : keyMatches e.1 seg = false := by simpa using hm
      simp only [hm', Bool.false_eq_true, if_false, List.filter_cons, ih]

theorem focusedMapSet_removed (seg : Seg) : ∀ (l : List (Bytes × DM)),
    (focusedMapSet l seg none).filter (fun e => keyMatches e.1 seg) = []
  | [] => rfl
  | e :: l => by
    have ih := focusedMapSet_removed seg l
    unfold focusedMapSet at ih ⊢
    simp only [Option.map_none] at ih ⊢
    simp only [List.filterMap_cons]
    by_cases hm : keyMatches e.1 seg = true
    · simp only [hm, if_true, ih]
    · have hm' : keyMatches e.1 seg = false := by simpa using hm
      simp only [hm', Bool.false_eq_true, if_false, List.filter_cons, ih]

theorem keyMatches_self (seg : Seg) : keyMatches seg.toString seg = true := by
  simp [keyMatches_eq]

theorem filter_append_match (seg : Seg) (v : DM) (l : List (Bytes × DM)) :
    (l ++ [(seg.toString, v)]).filter (fun e => !keyMatches e.1 seg) = l.filter (fun e => !keyMatches e.1 seg) := by
  simp [List.filter_append, keyMatches_self]

section ends
variable (fn : Fn) (linkOf : DM → Bytes) (canon : DM → DM) (cp : Bool)

/-- Whatever `focused` does on a map with whatever path: if it succeeds the result is a map whose
    entries not matching the first segment are the original ones, unchanged and in the same order. -/
theorem focused_map_others (fuel : Nat) (at_ : Path) (es : DMKVs) (seg : Seg) (p2 : Path) (st st' : TSt)
    (o : Option DM) (h : focused fn linkOf canon cp (fuel + 1) at_ (some (.map es)) (seg :: p2) st = .ok (o, st')) :
    ∃ es' : DMKVs, o = some (.map es') ∧
      es'.toList.filter (fun e => !keyMatches e.1 seg) = es.toList.filter (fun e => !keyMatches e.1 seg) := by
  simp only [focused] at h
  split at h
  · split at h
    · injection h with h; injection h with h1 h2; subst h1
      exact ⟨_, rfl, by rw [DMKVs.toList_ofList]; exact focusedMapSet_others _ _ _⟩
    · split at h
      · cases h
      · cases h
      · injection h with h; injection h with h1 h2; subst h1
        exact ⟨_, rfl, by rw [DMKVs.toList_ofList]; exact focusedMapSet_others _ _ _⟩
  · split at h
    · split at h
      · injection h with h; injection h with h1 h2; subst h1
        exact ⟨_, rfl, rfl⟩
      · injection h with h; injection h with h1 h2; subst h1
        exact ⟨_, rfl, by rw [DMKVs.toList_ofList]; exact filter_append_match _ _ _⟩
    · split at h
      · cases h
      · split at h
        · cases h
        · cases h
        · injection h with h; injection h with h1 h2; subst h1
          exact ⟨_, rfl, by rw [DMKVs.toList_ofList]; exact filter_append_match _ _ _⟩

/-- Whatever `focused` does on a list: if it succeeds the result is a list that differs from the
    original in at most one position `i`: the elements before `i` are the original ones, and so are
    the elements after it (moved up by one if the element at `i` was removed).  For an append,
    `i` is the length. -/
theorem focused_list_others (fuel : Nat) (at_ : Path) (xs : DMs) (seg : Seg) (p2 : Path) (st st' : TSt)
    (o : Option DM) (h : focused fn linkOf canon cp (fuel + 1) at_ (some (.list xs)) (seg :: p2) st = .ok (o, st')) :
    ∃ (xs' : DMs) (i : Nat), o = some (.list xs') ∧ i ≤ xs.toList.length ∧
      xs'.toList.take i = xs.toList.take i ∧
      (xs'.toList.drop (i + 1) = xs.toList.drop (i + 1) ∨ xs'.toList.drop i = xs.toList.drop (i + 1)) := by
  simp only [focused] at h
  split at h
  · cases h
  · rename_i ti hti
    split at h
    · rename_i hin
      have hle : ti.toNat ≤ xs.toList.length := by omega
      have htk : (List.take ti.toNat xs.toList).length = ti.toNat := by simp; omega
      split at h
      · split at h
        · injection h with h; injection h with h1 h2; subst h1
          refine ⟨_, ti.toNat, rfl, hle, ?_, Or.inr ?_⟩
          · rw [DMs.toList_ofList, List.take_append_of_le_length (by omega), List.take_of_length_le (by omega)]
          · rw [DMs.toList_ofList, List.drop_append_of_le_length (by omega), List.drop_of_length_le (by omega)]
            rfl
        · injection h with h; injection h with h1 h2; subst h1
          refine ⟨_, ti.toNat, rfl, hle, ?_, Or.inl ?_⟩
          · rw [DMs.toList_ofList, List.append_assoc, List.take_append_of_le_length (by omega),
              List.take_of_length_le (by omega)]
          · rw [DMs.toList_ofList, List.append_assoc, List.drop_append, htk,
              List.drop_of_length_le (by omega)]
            simp
      · split at h
        · cases h
        · cases h
        · injection h with h; injection h with h1 h2; subst h1
          refine ⟨_, ti.toNat, rfl, hle, ?_, Or.inl ?_⟩
          · rw [DMs.toList_ofList, List.append_assoc, List.take_append_of_le_length (by omega),
              List.take_of_length_le (by omega)]
          · rw [DMs.toList_ofList, List.append_assoc, List.drop_append, htk,
              List.drop_of_length_le (by omega)]
            simp
    · split at h
      · cases h
      · split at h
        · split at h
          · injection h with h; injection h with h1 h2; subst h1
            exact ⟨xs, xs.toList.length, rfl, Nat.le_refl _, rfl, Or.inl rfl⟩
          · injection h with h; injection h with h1 h2; subst h1
            refine ⟨_, xs.toList.length, rfl, Nat.le_refl _, ?_, Or.inl ?_⟩
            · rw [DMs.toList_ofList]; simp
            · rw [DMs.toList_ofList]; simp
        · split at h
          · cases h
          · cases h
          · injection h with h; injection h with h1 h2; subst h1
            refine ⟨_, xs.toList.length, rfl, Nat.le_refl _, ?_, Or.inl ?_⟩
            · rw [DMs.toList_ofList]; simp
            · rw [DMs.toList_ofList]; simp

/-! ## Missing key, append, out of range (B4) -/

theorem focused_map_insert (fuel : Nat) (at_ : Path) (es : DMKVs) (seg : Seg) (st : TSt)
    (hl : lookupBySegment (.map es) seg = none) :
    focused fn linkOf canon cp (fuel + 1) at_ (some (.map es)) [seg] st =
      match fn (at_ ++ [seg]) none with
      | none => .ok (some (.map es), st)
      | some v => .ok (some (.map (DMKVs.ofList (es.toList ++ [(seg.toString, v)]))), st) := by
  have hl' := hl
  simp only [lookupBySegment, Option.map_eq_none_iff] at hl
  simp only [focused, keyMatches_fun, hl, List.isEmpty_nil, if_true, hl']
  cases fn (at_ ++ [seg]) none <;> rfl

/-- The segments on which a list appends: any negative index, and "-". -/
def IsAppendSeg (seg : Seg) : Prop :=
  (∃ i, seg.index = some i ∧ i < 0) ∨ (seg.index = none ∧ lastSegIsDash seg = true)

theorem focused_list_append (fuel : Nat) (at_ : Path) (xs : DMs) (seg : Seg) (st : TSt)
    (hs : IsAppendSeg seg) :
    focused fn linkOf canon cp (fuel + 1) at_ (some (.list xs)) [seg] st =
      match fn (at_ ++ [Seg.idx xs.toList.length]) none with
      | none => .ok (some (.list xs), st)
      | some v => .ok (some (.list (DMs.ofList (xs.toList ++ [v]))), st) := by
  rcases hs with ⟨i, hi, hneg⟩ | ⟨hi, hd⟩
  · have h2 : ¬ i ≥ 0 := by omega
    simp only [focused, hi, h2, false_and, if_false, List.isEmpty_nil, if_true]
    cases fn (at_ ++ [Seg.idx xs.toList.length]) none <;> rfl
  · have h2 : ¬ (-1 : Int) ≥ 0 := by omega
    simp only [focused, hi, hd, if_true, h2, false_and, if_false, List.isEmpty_nil]
    cases fn (at_ ++ [Seg.idx xs.toList.length]) none <;> rfl

theorem focused_list_beyond (fuel : Nat) (at_ : Path) (xs : DMs) (seg : Seg) (p2 : Path) (st : TSt) (i : Int)
    (hi : seg.index = some i) (hge : (xs.toList.length : Int) ≤ i) :
    focused fn linkOf canon cp (fuel + 1) at_ (some (.list xs)) (seg :: p2) st = .error .beyondBounds := by
  have h1 : ¬ (i.toNat < xs.toList.length) := by omega
  have h2 : i ≥ 0 := by omega
  simp only [focused, hi, h1, h2, true_and, if_false, if_true]

theorem focused_list_notIndex (fuel : Nat) (at_ : Path) (xs : DMs) (seg : Seg) (p2 : Path) (st : TSt)
    (hi : seg.index = none) (hd : lastSegIsDash seg = false) :
    focused fn linkOf canon cp (fuel + 1) at_ (some (.list xs)) (seg :: p2) st = .error .notIndex := by
  simp only [focused, hi, hd, Bool.false_eq_true, if_false]

/-! ## The prefix lemma in the form used below -/

theorem focused_prefix_ok (pre : Path) (root mid : DM) (at_ rest : Path) (k : Nat) (st st' : TSt) (v : DM)
    (hr : rest ≠ []) (hn : root.NoDup) (hg : getPlain root pre = some mid)
    (h : focused fn linkOf canon cp k (at_ ++ pre) (some mid) rest st = .ok (some v, st')) :
    focused fn linkOf canon cp (pre.length + k) at_ (some root) (pre ++ rest) st =
      .ok (updateAt root pre (some v), st') := by
  by_cases hp : pre = []
  · subst hp
    simp only [getPlain] at hg; injection hg with hg; subst hg
    simp only [List.append_nil] at h
    simp only [List.length_nil, Nat.zero_add, List.nil_append, h, updateAt]
  · rw [focused_prefix fn linkOf canon cp pre root mid at_ rest k st hp hr hn hg, h]
    rfl

theorem focused_prefix_err (pre : Path) (root mid : DM) (at_ rest : Path) (k : Nat) (st : TSt) (e : TErr)
    (hr : rest ≠ []) (hn : root.NoDup) (hg : getPlain root pre = some mid)
    (h : focused fn linkOf canon cp k (at_ ++ pre) (some mid) rest st = .error e) :
    focused fn linkOf canon cp (pre.length + k) at_ (some root) (pre ++ rest) st = .error e := by
  by_cases hp : pre = []
  · subst hp
    simp only [getPlain] at hg; injection hg with hg; subst hg
    simp only [List.append_nil] at h
    simp only [List.length_nil, Nat.zero_add, List.nil_append, h]
  · rw [focused_prefix fn linkOf canon cp pre root mid at_ rest k st hp hr hn hg, h]
    rfl

/-! ## Across one link (B5) -/

theorem updateAt_isSome_of_cons {n : DM} {seg : Seg} {p2 : Path} (r : Option DM) :
    ∃ y, updateAt n (seg :: p2) r = some y := by
  simp only [updateAt]
  cases lookupBySegment n seg with
  | none => exact ⟨_, rfl⟩
  | some c => exact ⟨_, rfl⟩

/-- The path runs `pre` (no link crossed) to a link `c` whose block `blk` is in the store, then `rest`
    (non-empty, no further link crossed) inside the block to an existing target.  The block is updated
    functionally, written back as the codec writes it under its new link, and that link is put where
    the old one was; the store gains exactly that one entry in front. -/
theorem focused_through_link (pre rest : Path) (root blk target : DM) (c : Bytes) (at_ : Path) (k : Nat) (st : TSt)
    (hr : rest ≠ []) (hn : root.NoDup) (hb : blk.NoDup)
    (hg : getPlain root pre = some (.link c)) (hs : storeGet st.store c = some blk)
    (hg2 : getPlain blk rest = some target) (hk : rest.length < k) :
    ∃ blk0, updateAt blk rest (fn (at_ ++ pre ++ rest) (some target)) = some blk0 ∧
      focused fn linkOf canon cp (pre.length + (k + 1)) at_ (some root) (pre ++ rest) st =
        .ok (updateAt root pre (some (.link (linkOf (canon blk0)))),
          { store := (linkOf (canon blk0), canon blk0) :: st.store,
            written := (linkOf (canon blk0), canon blk0) :: st.written }) := by
  obtain ⟨seg, p2, rfl⟩ : ∃ a b, rest = a :: b := by
    cases rest with
    | nil => exact absurd rfl hr
    | cons a b => exact ⟨a, b, rfl⟩
  obtain ⟨blk0, hb0⟩ := updateAt_isSome_of_cons (n := blk) (seg := seg) (p2 := p2)
    (fn (at_ ++ pre ++ seg :: p2) (some target))
  refine ⟨blk0, hb0, ?_⟩
  apply focused_prefix_ok fn linkOf canon cp pre root (.link c) at_ (seg :: p2) (k + 1) st _ _ hr hn hg
  rw [focused_link fn linkOf canon cp k (at_ ++ pre) c seg p2 st blk hs,
    focused_eq_updateAt fn linkOf canon cp (seg :: p2) blk target (at_ ++ pre) k st hb hg2 hk, hb0]
  rfl

end ends

/-! ## Link-free trees: the store is never consulted and comes back unchanged -/

section lf
open Spec

theorem hasLinkKVs_mem : ∀ (es : DMKVs), hasLinkKVs es = false → ∀ e ∈ es.toList, hasLink e.2 = false
  | .nil, _, e, he => by simp [DMKVs.toList] at he
  | .cons k v es, h, e, he => by
    simp only [hasLinkKVs, Bool.or_eq_false_iff] at h
    simp only [DMKVs.toList, List.mem_cons] at he
    rcases he with rfl | he
    · exact h.1
    · exact hasLinkKVs_mem es h.2 e he

theorem hasLinkList_mem : ∀ (xs : DMs), hasLinkList xs = false → ∀ x ∈ xs.toList, hasLink x = false
  | .nil, _, x, hx => by simp [DMs.toList] at hx
  | .cons y ys, h, x, hx => by
    simp only [hasLinkList, Bool.or_eq_false_iff] at h
    simp only [DMs.toList, List.mem_cons] at hx
    rcases hx with rfl | hx
    · exact h.1
    · exact hasLinkList_mem ys h.2 x hx

theorem hasLinkList_getD (xs : DMs) (h : hasLinkList xs = false) (i : Nat) :
    hasLink (xs.toList.getD i .null) = false := by
  by_cases hi : i < xs.toList.length
  · have : xs.toList.getD i .null = xs.toList[i] := by simp [List.getD, hi]
    rw [this]; exact hasLinkList_mem xs h _ (List.getElem_mem hi)
  · have : xs.toList.getD i .null = .null := by
      simp [List.getD, List.getElem?_eq_none (Nat.le_of_not_lt hi)]
    rw [this]; simp [hasLink]

/-- the store-free reading of a result -/
def reState (st : TSt) (r : TR (Option DM)) : TR (Option DM) :=
  match r with
  | .error e => .error e
  | .ok (o, _) => .ok (o, st)

def LinkFreeOpt (n : Option DM) : Prop := ∀ d, n = some d → hasLink d = false

section linkfree
variable (fn : Fn) (linkOf : DM → Bytes) (canon : DM → DM) (cp : Bool)

theorem focused_linkfree : ∀ (fuel : Nat) (at_ : Path) (n : Option DM) (p : Path) (st : TSt),
    LinkFreeOpt n →
    focused fn linkOf canon cp fuel at_ n p st =
      reState st (focused fn linkOf canon cp fuel at_ n p { store := [], written := [] }) := by
  intro fuel
  induction fuel with
  | zero => intro at_ n p st _; simp only [focused, reState]
  | succ fuel ih =>
    intro at_ n p st hn
    cases p with
    | nil => simp only [focused, reState]
    | cons seg p2 =>
      cases n with
      | none =>
        simp only [focused]
        rw [ih (at_ ++ [seg]) none p2 st (by intro d hd; cases hd)]
        cases focused fn linkOf canon cp fuel (at_ ++ [seg]) none p2 { store := [], written := [] } with
        | error e => rfl
        | ok q =>
          obtain ⟨o, s⟩ := q
          cases o <;> rfl
      | some d =>
        have hd : hasLink d = false := hn d rfl
        cases d with
        | map es =>
          simp only [hasLink] at hd
          simp only [focused]
          cases hf : es.toList.find? (fun e => keyMatches e.1 seg) with
          | some e =>
            simp only []
            have he : LinkFreeOpt (some e.2) := by
              intro d hd'; injection hd' with hd'; subst hd'
              exact hasLinkKVs_mem es hd e (List.mem_of_find?_eq_some hf)
            split
            · rfl
            · rw [ih (at_ ++ [seg]) (some e.2) p2 st he]
              cases focused fn linkOf canon cp fuel (at_ ++ [seg]) (some e.2) p2 { store := [], written := [] } with
              | error e => rfl
              | ok q =>
                obtain ⟨o, s⟩ := q
                cases o <;> rfl
          | none =>
            simp only []
            split
            · split <;> rfl
            · split
              · rfl
              · rw [ih (at_ ++ [seg]) none p2 st (by intro d hd; cases hd)]
                cases focused fn linkOf canon cp fuel (at_ ++ [seg]) none p2 { store := [], written := [] } with
                | error e => rfl
                | ok q =>
                  obtain ⟨o, s⟩ := q
                  cases o <;> rfl
        | list xs =>
          simp only [hasLink] at hd
          simp only [focused]
          split
          · rfl
          · rename_i ti hti
            split
            · split
              · split <;> rfl
              · rw [ih (at_ ++ [seg]) (some (xs.toList.getD ti.toNat .null)) p2 st
                  (by intro d hd'; injection hd' with hd'; subst hd'; exact hasLinkList_getD xs hd _)]
                cases focused fn linkOf canon cp fuel (at_ ++ [seg]) (some (xs.toList.getD ti.toNat .null)) p2
                    { store := [], written := [] } with
                | error e => rfl
                | ok q =>
                  obtain ⟨o, s⟩ := q
                  cases o <;> rfl
            · split
              · rfl
              · split
                · split <;> rfl
                · rw [ih (at_ ++ [Seg.idx xs.toList.length]) none p2 st (by intro d hd; cases hd)]
                  cases focused fn linkOf canon cp fuel (at_ ++ [Seg.idx xs.toList.length]) none p2
                      { store := [], written := [] } with
                  | error e => rfl
                  | ok q =>
                    obtain ⟨o, s⟩ := q
                    cases o <;> rfl
        | link c => simp [hasLink] at hd
        | _ => simp only [focused, reState]

end linkfree

end lf

/-! ## Reading back: positions off the path, the position itself, and through the store -/

theorem setEntry_find_other (k k' : Bytes) (r : Option DM) (hk : k' ≠ k) : ∀ (l : List (Bytes × DM)),
    (setEntry l k r).find? (fun e => e.1 == k') = l.find? (fun e => e.1 == k')
  | [] => rfl
  | (a, b) :: l => by
    by_cases ha : a = k
    · have : (a == k') = false := by
        simp only [beq_eq_false_iff_ne]; intro h; exact hk (by rw [← h, ha])
      cases r with
      | none => simp only [setEntry, ha, if_true, List.find?_cons]; rw [← ha, this]
      | some v => simp only [setEntry, ha, if_true, List.find?_cons]; rw [← ha, this]
    · simp only [setEntry, ha, if_false, List.find?_cons, setEntry_find_other k k' r hk l]

theorem setEntry_find_same (k : Bytes) (v : DM) : ∀ (l : List (Bytes × DM)) (e : Bytes × DM),
    l.find? (fun e => e.1 == k) = some e → (setEntry l k (some v)).find? (fun e => e.1 == k) = some (e.1, v)
  | [], _, h => by simp at h
  | (a, b) :: l, e, h => by
    by_cases ha : a = k
    · simp only [List.find?_cons, ha, beq_self_eq_true] at h
      injection h with h; subst h
      simp only [setEntry, ha, if_true, List.find?_cons, beq_self_eq_true]
    · have : (a == k) = false := by simpa using ha
      simp only [List.find?_cons, this] at h
      simp only [setEntry, ha, if_false, List.find?_cons, this, setEntry_find_same k v l e h]

/-- The two segments address different children of `n`. -/
def SegDiffers (n : DM) (seg seg' : Seg) : Prop :=
  match n with
  | .map _ => seg'.toString ≠ seg.toString
  | .list _ => seg'.index ≠ seg.index
  | _ => True

theorem lookup_setChild_other {n : DM} {seg seg' : Seg} {c0 : DM} (v : DM)
    (hl : lookupBySegment n seg = some c0) (hd : SegDiffers n seg seg') :
    lookupBySegment (setChild n seg (some v)) seg' = lookupBySegment n seg' := by
  cases n with
  | map es =>
    simp only [SegDiffers] at hd
    simp only [setChild, lookupBySegment, DMKVs.toList_ofList, setEntry_find_other _ _ _ hd]
  | list xs =>
    simp only [SegDiffers] at hd
    simp only [lookupBySegment] at hl
    cases hi : seg.index with
    | none => simp [hi] at hl
    | some i =>
      simp only [hi] at hl hd
      split at hl
      · cases hl
      · rename_i hneg
        have hlt : i.toNat < xs.toList.length := by
          by_cases hc : i.toNat < xs.toList.length
          · exact hc
          · rw [List.getElem?_eq_none (by omega)] at hl; cases hl
        have hset : xs.toList.take i.toNat ++ [v] ++ xs.toList.drop (i.toNat + 1) = xs.toList.set i.toNat v := by
          rw [List.set_eq_take_append_cons_drop, if_pos hlt]; simp
        simp only [setChild, hi, Option.toList_some, lookupBySegment, DMs.toList_ofList, hset]
        cases hj : seg'.index with
        | none => rfl
        | some j =>
          simp only []
          split
          · rfl
          · rename_i hjneg
            have hne : i.toNat ≠ j.toNat := by
              intro he; apply hd; rw [hj]; congr 1; omega
            rw [List.getElem?_set_ne hne]
  | _ => simp [lookupBySegment] at hl

theorem lookup_setChild_same {n : DM} {seg : Seg} {c0 : DM} (v : DM)
    (hl : lookupBySegment n seg = some c0) :
    lookupBySegment (setChild n seg (some v)) seg = some v := by
  cases n with
  | map es =>
    simp only [lookupBySegment] at hl
    cases hf : es.toList.find? (fun e => e.1 == seg.toString) with
    | none => simp [hf] at hl
    | some e =>
      simp only [setChild, lookupBySegment, DMKVs.toList_ofList, setEntry_find_same _ v _ e hf, Option.map_some]
  | list xs =>
    simp only [lookupBySegment] at hl
    cases hi : seg.index with
    | none => simp [hi] at hl
    | some i =>
      simp only [hi] at hl
      split at hl
      · cases hl
      · rename_i hneg
        have hlt : i.toNat < xs.toList.length := by
          by_cases hc : i.toNat < xs.toList.length
          · exact hc
          · rw [List.getElem?_eq_none (by omega)] at hl; cases hl
        have hset : xs.toList.take i.toNat ++ [v] ++ xs.toList.drop (i.toNat + 1) = xs.toList.set i.toNat v := by
          rw [List.set_eq_take_append_cons_drop, if_pos hlt]; simp
        simp only [setChild, hi, Option.toList_some, lookupBySegment, DMs.toList_ofList, hset, hneg, if_false,
          List.getElem?_set_self hlt]
  | _ => simp [lookupBySegment] at hl

theorem updateAt_some : ∀ (p : Path) (n v : DM), ∃ y, updateAt n p (some v) = some y
  | [], _, v => ⟨v, rfl⟩
  | _ :: _, _, _ => updateAt_isSome_of_cons _

/-- `q` leaves `path` at some point: at a node on `path` it takes a different child. -/
def OffPath : DM → Path → Path → Prop
  | n, seg :: p, seg' :: q =>
    SegDiffers n seg seg' ∨ (seg' = seg ∧ ∃ c, lookupBySegment n seg = some c ∧ OffPath c p q)
  | _, _, _ => False

/-- Replacing the node at `path` changes nothing at any position off the path. -/
theorem getPlain_updateAt_off : ∀ (path : Path) (root target : DM) (q : Path) (v y : DM),
    getPlain root path = some target → OffPath root path q → updateAt root path (some v) = some y →
    getPlain y q = getPlain root q
  | [], _, _, _, _, _, _, ho, _ => by simp [OffPath] at ho
  | _ :: _, _, _, [], _, _, _, ho, _ => by simp [OffPath] at ho
  | seg :: p, root, target, seg' :: q, v, y, hg, ho, hu => by
    simp only [getPlain] at hg
    cases hl : lookupBySegment root seg with
    | none => simp [hl] at hg
    | some c =>
      simp only [hl] at hg
      obtain ⟨y', hy'⟩ := updateAt_some p c v
      rw [updateAt_cons _ _ hl, hy'] at hu
      injection hu with hu; subst hu
      simp only [OffPath] at ho
      rcases ho with hd | ⟨rfl, c', hl', ho'⟩
      · simp only [getPlain, lookup_setChild_other y' hl hd]
      · rw [hl] at hl'; injection hl' with hl'; subst hl'
        simp only [getPlain, lookup_setChild_same y' hl, hl]
        exact getPlain_updateAt_off p c target q v y' hg ho' hy'

/-- …and puts the new node at `path`. -/
theorem getPlain_updateAt_same : ∀ (path : Path) (root target v y : DM),
    getPlain root path = some target → updateAt root path (some v) = some y → getPlain y path = some v
  | [], _, _, v, y, _, hu => by
    simp only [updateAt] at hu; injection hu with hu; subst hu; rfl
  | seg :: p, root, target, v, y, hg, hu => by
    simp only [getPlain] at hg
    cases hl : lookupBySegment root seg with
    | none => simp [hl] at hg
    | some c =>
      simp only [hl] at hg
      obtain ⟨y', hy'⟩ := updateAt_some p c v
      rw [updateAt_cons _ _ hl, hy'] at hu
      injection hu with hu; subst hu
      simp only [getPlain, lookup_setChild_same y' hl]
      exact getPlain_updateAt_same p c target v y' hg hy'

/-! ### `Walk.get` through a store -/

theorem storeGet_cons_self (c : Bytes) (b : DM) (s : List (Bytes × DM)) : storeGet ((c, b) :: s) c = some b := by
  simp [storeGet]

theorem storeGet_cons_ne (c k : Bytes) (b : DM) (s : List (Bytes × DM)) (h : k ≠ c) :
    storeGet ((c, b) :: s) k = storeGet s k := by
  have : (c == k) = false := by simp only [beq_eq_false_iff_ne]; exact fun e => h e.symm
  simp [storeGet, this]

theorem followLinks_nonlink (store : List (Bytes × DM)) (f : Nat) (x : DM) (hx : ∀ c, x ≠ .link c) :
    followLinks store (f + 1) x = .ok x := by
  cases x <;> simp only [followLinks]
  exact absurd rfl (hx _)

theorem lookup_nonlink {n : DM} {seg : Seg} {c : DM} (h : lookupBySegment n seg = some c) : ∀ c', n ≠ .link c' := by
  intro c' he; subst he; simp [lookupBySegment] at h

theorem getStep_of_lookup (store : List (Bytes × DM)) (fuel : Nat) {n : DM} {seg : Seg} {c : DM}
    (h : lookupBySegment n seg = some c) : getStep store fuel n seg = followLinks store fuel c := by
  cases n with
  | map es =>
    simp only [lookupBySegment] at h
    cases hf : es.toList.find? (fun e => e.1 == seg.toString) with
    | none => simp [hf] at h
    | some e =>
      simp only [hf, Option.map_some] at h
      injection h with h
      simp only [getStep, hf, h]
  | list xs =>
    simp only [lookupBySegment] at h
    cases hi : seg.index with
    | none => simp [hi] at h
    | some i =>
      simp only [hi] at h
      split at h
      · cases h
      · rename_i hneg
        simp only [getStep, hi, hneg, if_false, h]
  | _ => simp [lookupBySegment] at h

/-- Following an existing, link-free, non-empty path with `traversal.Get` arrives at what `getPlain`
    finds, and then follows links from there. -/
theorem get_of_getPlain (store : List (Bytes × DM)) (f : Nat) : ∀ (pre : Path) (root mid : DM),
    pre ≠ [] → getPlain root pre = some mid → Walk.get store (f + 1) root pre = followLinks store (f + 1) mid
  | [], _, _, h, _ => absurd rfl h
  | [seg], root, mid, _, hg => by
    simp only [getPlain] at hg
    cases hl : lookupBySegment root seg with
    | none => simp [hl] at hg
    | some c =>
      simp only [hl] at hg; injection hg with hg; subst hg
      simp only [Walk.get, getStep_of_lookup store (f + 1) hl, bind, Except.bind]
      cases followLinks store (f + 1) c <;> rfl
  | seg :: seg2 :: p3, root, mid, _, hg => by
    simp only [getPlain] at hg
    cases hl : lookupBySegment root seg with
    | none => simp [hl] at hg
    | some c =>
      simp only [hl] at hg
      cases hl2 : lookupBySegment c seg2 with
      | none => simp [hl2] at hg
      | some c2 =>
        have hg' : getPlain c (seg2 :: p3) = some mid := by
          simp only [getPlain, hl2]; simpa [hl2] using hg
        have := get_of_getPlain store f (seg2 :: p3) c mid (by simp) hg'
        rw [← this]
        simp only [Walk.get, getStep_of_lookup store (f + 1) hl,
          followLinks_nonlink store f c (lookup_nonlink hl2), bind, Except.bind]

theorem get_append (store : List (Bytes × DM)) (f : Nat) : ∀ (p q : Path) (root : DM),
    Walk.get store f root (p ++ q) = (Walk.get store f root p >>= fun m => Walk.get store f m q)
  | [], q, root => by simp only [List.nil_append, Walk.get, bind, Except.bind]
  | seg :: p, q, root => by
    simp only [List.cons_append, Walk.get, bind, Except.bind]
    cases getStep store f root seg with
    | error e => rfl
    | ok n' => simp only []; exact get_append store f p q n'

theorem setChild_nonlink {n : DM} {seg : Seg} {c : DM} (r : Option DM)
    (h : lookupBySegment n seg = some c) : ∀ c', setChild n seg r ≠ .link c' := by
  intro c'
  cases n with
  | map es => simp [setChild]
  | list xs =>
    simp only [setChild]
    cases seg.index <;> simp
  | _ => simp [lookupBySegment] at h

theorem updateAt_cons_nonlink {n : DM} {seg : Seg} {p2 : Path} {t y : DM} (r : Option DM)
    (hg : getPlain n (seg :: p2) = some t) (hu : updateAt n (seg :: p2) r = some y) : ∀ c', y ≠ .link c' := by
  simp only [getPlain] at hg
  cases hl : lookupBySegment n seg with
  | none => simp [hl] at hg
  | some c =>
    rw [updateAt_cons _ _ hl] at hu
    injection hu with hu; subst hu
    exact setChild_nonlink _ hl

/-- Reading the path `pre` back through a store whose first entry is the new block: `traversal.Get`
    reaches the new link and loads the new block. -/
theorem relink_get (pre : Path) (root y b : DM) (c c' : Bytes) (store : List (Bytes × DM)) (f : Nat)
    (hp : pre ≠ []) (hg : getPlain root pre = some (.link c))
    (hu : updateAt root pre (some (.link c')) = some y) :
    Walk.get ((c', b) :: store) (f + 2) y pre = followLinks ((c', b) :: store) (f + 1) b := by
  rw [get_of_getPlain _ _ pre y (.link c') hp (getPlain_updateAt_same pre root _ _ y hg hu)]
  simp only [followLinks, storeGet_cons_self]

/-! ## `Walk.get` with an empty store is `getPlain` -/

theorem followLinks_nil {fuel : Nat} {x y : DM} (h : followLinks [] fuel x = .ok y) : y = x := by
  cases fuel with
  | zero => simp [followLinks] at h
  | succ f =>
    cases x <;> simp [followLinks, storeGet] at h <;> exact h.symm

theorem getStep_nil {fuel : Nat} {n c : DM} {seg : Seg} (h : getStep [] fuel n seg = .ok c) :
    lookupBySegment n seg = some c := by
  cases n with
  | map es =>
    simp only [getStep] at h
    simp only [lookupBySegment]
    cases hf : es.toList.find? (fun e => e.1 == seg.toString) with
    | none => simp [hf] at h
    | some e =>
      simp only [hf] at h
      simp only [Option.map_some, followLinks_nil h]
  | list xs =>
    simp only [getStep] at h
    simp only [lookupBySegment]
    cases hi : seg.index with
    | none => simp [hi] at h
    | some i =>
      simp only [hi] at h ⊢
      split at h
      · cases h
      · rename_i hneg
        simp only [hneg, if_false]
        cases hx : xs.toList[i.toNat]? with
        | none => simp [hx] at h
        | some x =>
          simp only [hx] at h
          rw [followLinks_nil h]
  | _ => simp [getStep] at h

/-- A target found by `traversal.Get` with nothing to load from is found without crossing a link. -/
theorem getPlain_of_get_nil : ∀ (path : Path) (fuel : Nat) (root target : DM),
    Walk.get [] fuel root path = .ok target → getPlain root path = some target
  | [], _, root, target, h => by
    simp only [Walk.get] at h; injection h with h; simp only [getPlain, h]
  | seg :: rest, fuel, root, target, h => by
    simp only [Walk.get, bind, Except.bind] at h
    cases hs : getStep [] fuel root seg with
    | error e => simp [hs] at h
    | ok c =>
      simp only [hs] at h
      simp only [getPlain, getStep_nil hs]
      exact getPlain_of_get_nil rest fuel c target h

end Transform
end Ipld
