/-
  Basic facts about the walk: a generic state-relation principle (`walk_rel`), events only grow
  (`events_extend`), the walk never reaches the Go panic.
-/
import IpldModel.Lemmas.WalkEq
import IpldModel.Lemmas.SelectorLemmas
namespace Ipld
namespace Walk
open Sel

/-- Any reflexive, transitive relation on states that holds across the three primitive state updates
    (budget decrement, visit, link step) holds between the start and end state of every walk function. -/
theorem walk_rel (cfg : Cfg) (R : St → St → Prop) (refl : ∀ st, R st st)
    (trans : ∀ a b c, R a b → R b c → R a c)
    (hNode : ∀ st st1, checkNode st = .ok st1 → R st st1)
    (hVisit : ∀ past path n s st, R st (visitSt cfg past path n s st))
    (hLink : ∀ c st, R st (linkStep cfg c st).1) :
    ∀ fuel,
      (∀ past path n s st, R st (walkAdv cfg fuel past path n s st).1) ∧
      (∀ path n s l lp st, R st (walkChildren cfg fuel path n s l lp st).1) ∧
      (∀ past path n s ps v st, R st (exploreChild cfg fuel past path n s ps v st).1) := by
  intro fuel
  induction fuel with
  | zero =>
    refine ⟨?_, ?_, ?_⟩
    · intros; rw [walkAdv_zero]; exact refl _
    · intros; rw [walkChildren_zero]; exact refl _
    · intros; rw [exploreChild_zero]; exact refl _
  | succ fuel ih =>
    obtain ⟨ihA, ihC, ihE⟩ := ih
    refine ⟨?_, ?_, ?_⟩
    · intro past path n s st
      rw [walkAdv_succ]
      cases h : checkNode st with
      | error e => exact refl _
      | ok st1 =>
        have h1 := hNode st st1 h
        simp only
        split
        · exact h1
        · split
          · exact trans _ _ _ h1 (hVisit ..)
          · exact trans _ _ _ h1 (trans _ _ _ (hVisit ..) (ihC ..))
    · intro path n s l lp st
      cases l with
      | nil => rw [walkChildren_nil]; exact refl _
      | cons x rest =>
        obtain ⟨ps, v⟩ := x
        rw [walkChildren_cons]
        split
        · exact ihC ..
        · have h1 := ihE (loopStep cfg path lp ps).2.past path n s ps v st
          generalize exploreChild cfg fuel (loopStep cfg path lp ps).2.past path n s ps v st = r at h1
          obtain ⟨st', r⟩ := r
          cases r with
          | error e => exact h1
          | ok u => exact trans _ _ _ h1 (ihC ..)
    · intro past path n s ps v st
      rw [exploreChild_succ]
      split
      · exact refl _
      · exact refl _
      · exact refl _
      · rename_i sNext _
        unfold enterChild
        split
        · rename_i c
          have h1 := hLink c st
          split
          · rename_i st' e heq; rw [heq] at h1; exact h1
          · rename_i st' heq; rw [heq] at h1; exact h1
          · rename_i st' blk heq; rw [heq] at h1; exact trans _ _ _ h1 (ihA ..)
        · exact ihA ..

/-! ### events only grow -/

theorem checkNode_events {st st1 : St} (h : checkNode st = .ok st1) : st1.events = st.events := by
  unfold checkNode at h
  split at h
  · cases h; rfl
  · split at h
    · cases h
    · cases h; rfl

theorem checkLink_events {st st1 : St} (h : checkLink st = .ok st1) : st1.events = st.events := by
  unfold checkLink at h
  split at h
  · cases h; rfl
  · split at h
    · cases h
    · cases h; rfl

theorem visitSt_events (cfg : Cfg) (past : Bool) (path : Path) (n : DM) (s : S) (st : St) :
    ∃ new, (visitSt cfg past path n s st).events = new ++ st.events := by
  unfold visitSt; split
  · exact ⟨[], rfl⟩
  · exact ⟨[_], rfl⟩

theorem linkStep_events (cfg : Cfg) (c : Bytes) (st : St) :
    ∃ new, (linkStep cfg c st).1.events = new ++ st.events := by
  unfold linkStep
  split
  · exact ⟨[], rfl⟩
  · have h0 : (if cfg.linkOnce = true then { st with seen := c :: st.seen } else st).events = st.events := by
      split <;> rfl
    simp only
    split
    · exact ⟨[], h0⟩
    · rename_i st2 h
      have := checkLink_events h
      split
      · exact ⟨[.load c], by simp [this, h0]⟩
      · split <;> exact ⟨[.load c], by simp [this, h0]⟩

def EventsExtend (a b : St) : Prop := ∃ new, b.events = new ++ a.events

theorem eventsExtend_all (cfg : Cfg) (fuel : Nat) :
      (∀ past path n s st, EventsExtend st (walkAdv cfg fuel past path n s st).1) ∧
      (∀ path n s l lp st, EventsExtend st (walkChildren cfg fuel path n s l lp st).1) ∧
      (∀ past path n s ps v st, EventsExtend st (exploreChild cfg fuel past path n s ps v st).1) := by
  apply walk_rel cfg EventsExtend
  · intro st; exact ⟨[], rfl⟩
  · intro a b c ⟨n1, h1⟩ ⟨n2, h2⟩; exact ⟨n2 ++ n1, by rw [h2, h1, List.append_assoc]⟩
  · intro st st1 h; exact ⟨[], by simp [checkNode_events h]⟩
  · intro past path n s st; exact visitSt_events ..
  · intro c st; exact linkStep_events ..

/-- events only grow, by prepending (the log is most-recent-first) -/
theorem events_extend (cfg : Cfg) (fuel : Nat) (past : Bool) (path : Path) (n : DM) (s : S) (st : St) :
    ∃ new, (walkAdv cfg fuel past path n s st).1.events = new ++ st.events :=
  (eventsExtend_all cfg fuel).1 ..

theorem events_extend_children (cfg : Cfg) (fuel : Nat) (path : Path) (n : DM) (s : S) (l : List (Seg × DM))
    (lp : Loop) (st : St) : ∃ new, (walkChildren cfg fuel path n s l lp st).1.events = new ++ st.events :=
  (eventsExtend_all cfg fuel).2.1 ..

theorem events_extend_child (cfg : Cfg) (fuel : Nat) (past : Bool) (path : Path) (n : DM) (s : S) (ps : Seg)
    (v : DM) (st : St) : ∃ new, (exploreChild cfg fuel past path n s ps v st).1.events = new ++ st.events :=
  (eventsExtend_all cfg fuel).2.2 ..

/-! ### no panic -/

theorem childList_edge (n : DM) : childList n .edge = [] := by
  simp [childList, interests]

theorem no_panic_all (cfg : Cfg) (fuel : Nat) :
      (∀ past path n s st, (walkAdv cfg fuel past path n s st).2 ≠ .error .panic) ∧
      (∀ path n s l lp st, s ≠ .edge ∨ l = [] → (walkChildren cfg fuel path n s l lp st).2 ≠ .error .panic) ∧
      (∀ past path n s ps v st, s ≠ .edge → (exploreChild cfg fuel past path n s ps v st).2 ≠ .error .panic) := by
  induction fuel with
  | zero =>
    refine ⟨?_, ?_, ?_⟩
    · intros; rw [walkAdv_zero]; simp
    · intros; rw [walkChildren_zero]; simp
    · intros; rw [exploreChild_zero]; simp
  | succ fuel ih =>
    obtain ⟨ihA, ihC, ihE⟩ := ih
    refine ⟨?_, ?_, ?_⟩
    · intro past path n s st
      rw [walkAdv_succ]
      cases h : checkNode st with
      | error e =>
        unfold checkNode at h
        split at h
        · cases h
        · split at h
          · cases h; simp
          · cases h
      | ok st1 =>
        simp only
        split
        · simp
        · split
          · simp
          · apply ihC
            by_cases hs : s = .edge
            · right; subst hs; exact childList_edge n
            · left; exact hs
    · intro path n s l lp st hl
      cases l with
      | nil => rw [walkChildren_nil]; simp
      | cons x rest =>
        obtain ⟨ps, v⟩ := x
        have hs : s ≠ .edge := by
          cases hl with
          | inl h => exact h
          | inr h => cases h
        rw [walkChildren_cons]
        split
        · exact ihC _ _ _ _ _ _ (Or.inl hs)
        · have h1 := ihE (loopStep cfg path lp ps).2.past path n s ps v st hs
          generalize exploreChild cfg fuel (loopStep cfg path lp ps).2.past path n s ps v st = r at h1
          obtain ⟨st', r⟩ := r
          cases r with
          | error e => exact h1
          | ok u => exact ihC _ _ _ _ _ _ (Or.inl hs)
    · intro past path n s ps v st hs
      rw [exploreChild_succ]
      have hx := explore_no_panic s hs n ps
      split
      · rename_i h; exact absurd h hx
      · simp
      · simp
      · unfold enterChild
        split
        · rename_i c
          split
          · rename_i st' e heq
            -- linkStep errors are budgetLink or load
            intro hp
            simp only [Except.error.injEq] at hp
            subst hp
            unfold linkStep at heq
            split at heq
            · cases heq
            · simp only at heq
              split at heq
              · rename_i e' hck
                unfold checkLink at hck
                split at hck
                · cases hck
                · split at hck
                  · cases hck; cases heq
                  · cases hck
              · split at heq
                · cases heq
                · split at heq <;> cases heq
          · simp
          · exact ihA _ _ _ _ _
        · exact ihA _ _ _ _ _

end Walk
end Ipld
